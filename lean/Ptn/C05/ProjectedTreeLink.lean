import Ptn.C05.ProjectedTreeAll
import Ptn.C05.ProjectedLinkTwo
/-! `H_link = E† H E` for EVERY edge of every tree (C05, value level, builder B29, Goal 1, first half).

The record-level theorem `link_heff_is_projected_hamiltonian` needs the records of the two cached blocks to be the
sandwich records of the two components of the tree that the edge separates.  Here both hypotheses are discharged from
the tree model: the block on the side of the root is the one the top-down recursion of the code builds
(`Ctx.blockBinds`, proved a sandwich record by `Ctx.block_record_is_component_sandwich`), the block on the other side
is the leaf-to-root block of the subtree (`soBlock`, `soBlockBinds_perm_comp`).

`RecForm` / `TreeForm` are the two shapes of the conclusion ("for every program with the record of the matrix …") of
the record-level and the tree-level theorems; `treeForm_of_recForm` transports one into the other (used for the link
here and for the two-site Hamiltonian in `ProjectedTreeTwo.lean`).  `Ctx.exists_ctx_edge`: every edge of every tree is
the edge into the hole of a frame. -/
namespace Ptn.C05.Heff
open Ptn.C04 Ptn.Ein

set_option linter.unusedSectionVars false
variable {R : Type} [CommSemiring R]

/-- the conclusion of the record-level theorems: every strongly well-formed program `e` with the record `mb` evaluates
to `Σ_po (Σ_pi E·H)·B` for ANY well-formed `E`, `H`, `B` with the (unordered) records `kb`, `ob`, `brb` -/
def RecForm (R : Type) [CommSemiring R] (mb po pi kb ob brb : List (Leg × Leg)) : Prop :=
  ∀ (dim : Leg → Nat) (e E H B : Expr Leg R), e.SWF → E.WF → H.WF → B.WF →
    (∀ l ∈ E.labels, l ∉ H.labels) → (∀ l ∈ E.labels, l ∉ B.labels) → (∀ l ∈ H.labels, l ∉ B.labels) →
    e.binds.Perm mb →
    (unordL E.binds).Perm (unordL kb) → (unordL H.binds).Perm (unordL ob) → (unordL B.binds).Perm (unordL brb) →
    (∀ q ∈ pi, q.1 ∈ E.free ∧ q.2 ∈ H.free) →
    (∀ q ∈ po, (q.1 ∈ H.free ∧ q.1 ∉ pi.map Prod.snd) ∧ q.2 ∈ B.free) →
    (∀ q ∈ projSpec po pi E.binds H.binds B.binds, dim q.1 = dim q.2) →
    (∀ σ, e.leafProd σ = E.leafProd σ * H.leafProd σ * B.leafProd σ) →
    ∀ σ, e.eval dim σ =
      sumPairs dim po (fun τ => sumPairs dim pi (fun ρ => E.eval dim ρ * H.eval dim ρ) τ * B.eval dim τ) σ

/-- the conclusion of the tree-level theorems: the sums run over the physical legs of the nodes `ids` -/
def TreeForm (R : Type) [CommSemiring R] (mb : List (Leg × Leg)) (ids : List Nat) (kb ob brb : List (Leg × Leg)) :
    Prop :=
  ∀ (dim : Leg → Nat) (e E H B : Expr Leg R), e.SWF → E.WF → H.WF → B.WF →
    (∀ l ∈ E.labels, l ∉ H.labels) → (∀ l ∈ E.labels, l ∉ B.labels) → (∀ l ∈ H.labels, l ∉ B.labels) →
    e.binds.Perm mb →
    (unordL E.binds).Perm (unordL kb) → (unordL H.binds).Perm (unordL ob) → (unordL B.binds).Perm (unordL brb) →
    (∀ n ∈ ids, Leg.gKetPhys n ∈ E.free ∧ Leg.gOpIn n ∈ H.free ∧ Leg.gOpOut n ∈ H.free ∧ Leg.gBraPhys n ∈ B.free) →
    (∀ p ∈ projSpec (ids.map physOut) (ids.map physIn) E.binds H.binds B.binds, dim p.1 = dim p.2) →
    (∀ σ, e.leafProd σ = E.leafProd σ * H.leafProd σ * B.leafProd σ) →
    ∀ σ, e.eval dim σ =
      sumPairs dim (ids.map physOut)
        (fun τ => sumPairs dim (ids.map physIn) (fun ρ => E.eval dim ρ * H.eval dim ρ) τ * B.eval dim τ) σ

/-- a record-level conclusion whose physical pairs are, up to order, those of the distinct nodes `ids` and whose
bond records agree (as multisets of unordered pairs) with `KB`, `OB`, `BRB` is the tree-level conclusion -/
theorem treeForm_of_recForm {mb po pi kb ob brb KB OB BRB : List (Leg × Leg)} {ids : List Nat} (hids : ids.Nodup)
    (hPout : po.Perm (ids.map physOut)) (hPin : pi.Perm (ids.map physIn))
    (hKb : (unordL KB).Perm (unordL kb)) (hOb : (unordL OB).Perm (unordL ob))
    (hBrb : (unordL BRB).Perm (unordL brb)) (h : RecForm R mb po pi kb ob brb) : TreeForm R mb ids KB OB BRB := by
  intro dim e E H B he hE hH hB hEH hEB hHB heb hEb hHb hBb hfree hdim hleaf σ
  have hres := h dim e E H B he hE hH hB hEH hEB hHB heb (hEb.trans hKb) (hHb.trans hOb) (hBb.trans hBrb)
    (by
      intro p hp
      obtain ⟨n, hn, rfl⟩ := List.mem_map.1 (hPin.mem_iff.1 hp)
      exact ⟨(hfree n hn).1, (hfree n hn).2.1⟩)
    (by
      intro p hp
      obtain ⟨n, hn, rfl⟩ := List.mem_map.1 (hPout.mem_iff.1 hp)
      refine ⟨⟨(hfree n hn).2.2.1, ?_⟩, (hfree n hn).2.2.2⟩
      intro hmem
      obtain ⟨q, hq, hq2⟩ := List.mem_map.1 hmem
      obtain ⟨n', _, rfl⟩ := List.mem_map.1 (hPin.mem_iff.1 hq)
      simp [physIn, physOut] at hq2)
    (by
      intro p hp
      apply hdim p
      simp only [projSpec, List.mem_append] at hp ⊢
      rcases hp with hp | (hp | hp) | hp
      · exact Or.inl (hPout.mem_iff.1 hp)
      · exact Or.inr (Or.inl (Or.inl (hPin.mem_iff.1 hp)))
      · exact Or.inr (Or.inl (Or.inr hp))
      · exact Or.inr (Or.inr hp))
    hleaf σ
  rw [hres]
  rw [sumPairs_perm dim hPout ((pairLegs_perm hPout.symm).nodup_iff.1 (pairLegs_physOut_nodup _ hids))]
  apply sumPairs_congr
  intro τ
  rw [sumPairs_perm dim hPin ((pairLegs_perm hPin.symm).nodup_iff.1 (pairLegs_physIn_nodup _ hids))]

/-- one of two lists, selected by the identifier -/
def sel2 {β : Type} (p : Nat) (A B : List β) (n : Nat) : List β := if n = p then A else B

theorem sel2_self {β : Type} (p : Nat) (A B : List β) : sel2 p A B p = A := by simp [sel2]
theorem sel2_ne {β : Type} {p n : Nat} (h : n ≠ p) (A B : List β) : sel2 p A B n = B := by simp [sel2, h]

theorem unordL_pair_swap (a b : Leg) : (unordL [(a, b)]).Perm (unordL [(b, a)]) := by
  simp only [unordL, List.map_cons, List.map_nil, Prod.swap, List.cons_append, List.nil_append]
  exact List.Perm.swap _ _ _

theorem tree_id_mem_ids (t : Tree) : t.id ∈ t.ids := by
  cases t with
  | node i ks => simp [Tree.id, Tree.ids]

namespace Ctx

/-- the edges of the whole tree: the edge into the hole, the edges of the component above it, the edges of the subtree
in the hole -/
theorem plug_edges_frame_perm (c : Ctx) (p : Nat) (hp : c.parent = some p) (t : Tree) :
    (c.plug t).edges.Perm ((p, t.id) :: (c.compEdges ++ t.edges)) := by
  refine (plug_edges_perm c t).trans ?_
  simp [edges, hp]

mutual
/-- **every edge of every tree** is the edge into the hole of a frame: the tree is the frame of the upper node `p`
(with `p`'s other children and everything above `p`) with the subtree of the lower node `h` plugged in -/
theorem exists_ctx_edge : ∀ (t : Tree) (p h : Nat), (p, h) ∈ t.edges →
    ∃ (ls rs : List Tree) (up : Ctx) (ks : List Tree), t = (frame p ls rs up).plug (Tree.node h ks)
  | .node r kids, p, h, hm => by
    simp only [Tree.edges] at hm
    obtain ⟨ls, k, rs, hsplit, hk⟩ := exists_ctx_edgeL kids r p h hm
    rcases hk with ⟨hpr, hid⟩ | ⟨ls', rs', up, ks, hk⟩
    · subst hpr
      obtain ⟨i, ks⟩ := k
      simp only [Tree.id] at hid
      subst hid
      exact ⟨ls, rs, root, ks, by rw [hsplit]; rfl⟩
    · refine ⟨ls', rs', atop up (frame r ls rs root), ks, ?_⟩
      have := plug_atop (frame p ls' rs' up) (frame r ls rs root) (Tree.node h ks)
      simp only [atop] at this
      rw [this, ← hk, hsplit]
      rfl
theorem exists_ctx_edgeL : ∀ (ts : List Tree) (i p h : Nat), (p, h) ∈ Tree.edgesL i ts →
    ∃ (ls : List Tree) (k : Tree) (rs : List Tree), ts = ls ++ k :: rs ∧
      ((p = i ∧ k.id = h) ∨
        ∃ (ls' rs' : List Tree) (up : Ctx) (ks : List Tree), k = (frame p ls' rs' up).plug (Tree.node h ks))
  | [], _, _, _, hm => by simp [Tree.edgesL] at hm
  | c :: cs, i, p, h, hm => by
    simp only [Tree.edgesL, List.mem_cons, List.mem_append] at hm
    rcases hm with heq | hm | hm
    · exact ⟨[], c, cs, rfl, Or.inl ⟨(Prod.mk.inj heq).1, (Prod.mk.inj heq).2.symm⟩⟩
    · obtain ⟨ls', rs', up, ks, hk⟩ := exists_ctx_edge c p h hm
      exact ⟨[], c, cs, rfl, Or.inr ⟨ls', rs', up, ks, hk⟩⟩
    · obtain ⟨ls, k, rs, hs, hk⟩ := exists_ctx_edgeL cs i p h hm
      exact ⟨c :: ls, k, rs, by rw [hs]; rfl, hk⟩
end

end Ctx

/-- **`H_link = E† H E` for every edge of every tree, both sweep orientations.**  The tree is `c.plug t`: the edge
joins `p`, the parent of the hole of the context `c` (any depth, any siblings, anything above: `Ctx.exists_ctx_edge`),
with the root `t.id` of the subtree `t` in the hole; all identifiers distinct.  The link tensor sits ON this edge.
The cache holds, toward the link, the block from `p` that the code's top-down recursion builds (record
`c.blockBinds`, see `Ctx.ctx_block_is_model`) and the leaf-to-root block `soBlock t p` of the subtree.  Then in both
orientations of the sweep the model returns the same matrix `m` (rows: the two bra legs, columns: the two ket legs),
and for every commutative semiring and all dimensions (equal on both legs of every bound pair): let `E` be ANY
well-formed contraction of the ket tensors of ALL nodes of the tree over all ket bonds except the bond `p — t.id`
(the whole ket network with this bond opened: `Ctx.plug_edges_frame_perm`), `H` ANY well-formed contraction of the
operator tensors of all nodes over ALL operator bonds (the dense TTNO), `B` ANY well-formed contraction of all bra
tensors with the bond `p — t.id` opened.  Every strongly well-formed program `e` over these tensors with the record
of `m` evaluates to `Σ_{phys'} (Σ_{phys} E[phys; c] · H[phys'; phys]) · B[phys'; r]`, the sums running over the
physical legs of ALL nodes.  No hypothesis about block records is left. -/
theorem link_heff_projected_tree (c : Ctx) (p : Nat) (hpar : c.parent = some p) (t : Tree)
    (hnd : (c.plug t).ids.Nodup) (cache : Dict)
    (hp : cache (p, t.id) = some (gBlock p t.id c.blockBinds)) (hc : cache (t.id, p) = some (soBlock t p)) :
    ∃ m : Mat, getEffectiveLinkHamiltonian ⟨some p, [t.id]⟩ t.id p cache = some m ∧
      getEffectiveLinkHamiltonian ⟨some p, [t.id]⟩ p t.id cache = some m ∧
      m.rows = [Leg.gBra p t.id, Leg.gBra t.id p] ∧ m.cols = [Leg.gKet p t.id, Leg.gKet t.id p] ∧
      ∀ (dim : Leg → Nat) (e E H B : Expr Leg R), e.SWF → E.WF → H.WF → B.WF →
        (∀ l ∈ E.labels, l ∉ H.labels) → (∀ l ∈ E.labels, l ∉ B.labels) → (∀ l ∈ H.labels, l ∉ B.labels) →
        e.binds.Perm m.binds →
        (unordL E.binds).Perm (unordL ((c.compEdges ++ t.edges).map fun e => ketEdge e.1 e.2)) →
        (unordL H.binds).Perm (unordL ((c.plug t).edges.map fun e => opEdge e.1 e.2)) →
        (unordL B.binds).Perm (unordL ((c.compEdges ++ t.edges).map fun e => braEdge e.1 e.2)) →
        (∀ n ∈ c.ids ++ t.ids, Leg.gKetPhys n ∈ E.free ∧ Leg.gOpIn n ∈ H.free ∧ Leg.gOpOut n ∈ H.free ∧
          Leg.gBraPhys n ∈ B.free) →
        (∀ q ∈ projSpec ((c.ids ++ t.ids).map physOut) ((c.ids ++ t.ids).map physIn) E.binds H.binds B.binds,
          dim q.1 = dim q.2) →
        (∀ σ, e.leafProd σ = E.leafProd σ * H.leafProd σ * B.leafProd σ) →
        ∀ σ, e.eval dim σ =
          sumPairs dim ((c.ids ++ t.ids).map physOut)
            (fun τ => sumPairs dim ((c.ids ++ t.ids).map physIn) (fun ρ => E.eval dim ρ * H.eval dim ρ) τ *
              B.eval dim τ) σ := by
  have hnd' : (c.ids ++ t.ids).Nodup := (Ctx.plug_ids_perm c t).nodup_iff.1 hnd
  have hcn : c.ids.Nodup := (List.nodup_append.1 hnd').1
  have hne : p ≠ t.id := (List.nodup_append.1 hnd').2.2 p (Ctx.parent_mem_ids hpar) t.id (tree_id_mem_ids t)
  obtain ⟨m, h1, h2, hr, hcols, hval⟩ := link_heff_is_projected_hamiltonian (R := R) p t.id hne cache c.blockBinds
    (soBlockBinds t) hp hc
    (sel2 p (c.ids.map physOut) (t.ids.map physOut)) (sel2 p (c.ids.map physIn) (t.ids.map physIn))
    (sel2 p (c.compEdges.map fun e => ketEdge e.1 e.2) (t.edges.map fun e => ketEdge e.1 e.2))
    (sel2 p (c.compEdges.map fun e => opEdge e.1 e.2) (t.edges.map fun e => opEdge e.1 e.2))
    (sel2 p (c.compEdges.map fun e => braEdge e.1 e.2) (t.edges.map fun e => braEdge e.1 e.2))
    (by
      simp only [compRecord, sel2_self]
      exact Ctx.block_record_is_component_sandwich c hcn)
    (by
      simp only [compRecord, sel2_ne hne.symm]
      exact unordL_perm (soBlockBinds_perm_comp t))
  refine ⟨m, h1, h2, hr, hcols, ?_⟩
  simp only [sel2_self, sel2_ne hne.symm] at hval
  have hrec : RecForm R m.binds (c.ids.map physOut ++ t.ids.map physOut) (c.ids.map physIn ++ t.ids.map physIn)
      ((c.compEdges.map fun e => ketEdge e.1 e.2) ++ (t.edges.map fun e => ketEdge e.1 e.2))
      ([(Leg.gOp p t.id, Leg.gOp t.id p)] ++
        ((c.compEdges.map fun e => opEdge e.1 e.2) ++ (t.edges.map fun e => opEdge e.1 e.2)))
      ((c.compEdges.map fun e => braEdge e.1 e.2) ++ (t.edges.map fun e => braEdge e.1 e.2)) := hval
  have hOb : (unordL ((c.plug t).edges.map fun e => opEdge e.1 e.2)).Perm
      (unordL ([(Leg.gOp p t.id, Leg.gOp t.id p)] ++
        ((c.compEdges.map fun e => opEdge e.1 e.2) ++ (t.edges.map fun e => opEdge e.1 e.2)))) := by
    have h := (Ctx.plug_edges_frame_perm c p hpar t).map (fun e => opEdge e.1 e.2)
    refine (unordL_perm h).trans ?_
    simp only [List.map_cons, List.map_append]
    exact unordL_append_congr (a := [opEdge p t.id]) (unordL_pair_swap _ _) (List.Perm.refl _)
  exact treeForm_of_recForm hnd' (by rw [List.map_append]) (by rw [List.map_append]) (by rw [List.map_append]) hOb
    (by rw [List.map_append]) hrec

end Ptn.C05.Heff
