import Ptn.C05.WholeProgramLink
/-! A canonical contraction program for a list of leaf tensors and a binding record (C05, value level, builder B48).

`seqExpr P L` contracts the leaf tensors `L` one after the other, left to right, starting from the unit scalar; the
step that adds a leaf binds exactly those pairs of the record `P` (read in either orientation) that join a leg still
free in the accumulated tensor with a leg of the new leaf.  No choice is left: the expression is a function of `P`
and `L`.  For leaf tensors with pairwise distinct labels, each reading its own legs, it is well-formed, its leaves
are the unit scalar and `L`, its product of leaves is the product over `L`, every pair it binds is a pair of `P` (in
one of the two orientations), and every label that `P` does not mention stays free. -/
namespace Ptn.C05.Heff
open Ptn.C04 Ptn.Ein

set_option linter.unusedSectionVars false
variable {R : Type} [CommSemiring R]

/-- the pairs of the record `P`, in either orientation, that join a leg of `fr` with a leg of `lg`; oriented `fr` first -/
def seqPairs (P : List (Leg × Leg)) (fr lg : List Leg) : List (Leg × Leg) :=
  P.filterMap (fun p => if p.1 ∈ fr ∧ p.2 ∈ lg then some p else if p.2 ∈ fr ∧ p.1 ∈ lg then some p.swap else none)

theorem seqPairs_mem {P : List (Leg × Leg)} {fr lg : List Leg} {p : Leg × Leg} (h : p ∈ seqPairs P fr lg) :
    p.1 ∈ fr ∧ p.2 ∈ lg ∧ (p ∈ P ∨ p.swap ∈ P) := by
  simp only [seqPairs, List.mem_filterMap] at h
  obtain ⟨q, hq, hp⟩ := h
  by_cases h1 : q.1 ∈ fr ∧ q.2 ∈ lg
  · rw [if_pos h1, Option.some.injEq] at hp
    subst hp
    exact ⟨h1.1, h1.2, Or.inl hq⟩
  · rw [if_neg h1] at hp
    by_cases h2 : q.2 ∈ fr ∧ q.1 ∈ lg
    · rw [if_pos h2, Option.some.injEq] at hp
      subst hp
      exact ⟨h2.1, h2.2, Or.inr (by simpa using hq)⟩
    · rw [if_neg h2] at hp
      exact absurd hp (by simp)

/-- add the leaf tensors one after the other to the accumulated contraction -/
def seqFold (P : List (Leg × Leg)) : Expr Leg R → List (LeafT R) → Expr Leg R
  | acc, [] => acc
  | acc, lf :: rest => seqFold P (.dot acc (.leaf lf.1 lf.2) (seqPairs P acc.free lf.1)) rest

/-- the canonical program: start from the unit scalar -/
def seqExpr (P : List (Leg × Leg)) (L : List (LeafT R)) : Expr Leg R := seqFold P (.leaf [] (fun _ => 1)) L

theorem seqFold_leaves (P : List (Leg × Leg)) : ∀ (L : List (LeafT R)) (acc : Expr Leg R),
    (seqFold P acc L).leaves = acc.leaves ++ L
  | [], acc => by simp [seqFold]
  | lf :: rest, acc => by
    rw [seqFold, seqFold_leaves P rest]
    simp [Expr.leaves]

theorem seqExpr_leaves (P : List (Leg × Leg)) (L : List (LeafT R)) :
    (seqExpr P L).leaves = ([], fun _ => 1) :: L := by
  rw [seqExpr, seqFold_leaves]
  rfl

theorem seqExpr_labels (P : List (Leg × Leg)) (L : List (LeafT R)) : (seqExpr P L).labels = labelsOf L := by
  rw [Expr.labels_eq_leaves, seqExpr_leaves]
  simp [labelsOf]

theorem seqExpr_leafProd (P : List (Leg × Leg)) (L : List (LeafT R)) (σ : Asg Leg) :
    (seqExpr P L).leafProd σ = prodL (L.map (fun lf => lf.2 σ)) := by
  rw [Expr.leafProd, seqExpr_leaves, List.map_cons]
  change prodL ([(1 : R)] ++ _) = _
  rw [prodL_append]
  simp [prodL]

theorem seqFold_wf (P : List (Leg × Leg)) : ∀ (L : List (LeafT R)) (acc : Expr Leg R), acc.WF →
    (acc.labels ++ labelsOf L).Nodup → (∀ lf ∈ L, DependsOn (· ∈ lf.1) lf.2) → (seqFold P acc L).WF
  | [], acc, h, _, _ => by simpa [seqFold] using h
  | lf :: rest, acc, h, hnd, hloc => by
    rw [seqFold]
    apply seqFold_wf P rest
    · refine ⟨h, hloc lf (by simp), ?_, ?_⟩
      · intro l hl hl'
        simp only [Expr.labels] at hl'
        rw [List.nodup_append] at hnd
        exact hnd.2.2 l hl l (by simp [labelsOf, hl']) rfl
      · intro p hp
        have := seqPairs_mem hp
        exact ⟨this.1, this.2.1⟩
    · simpa [Expr.labels, labelsOf, List.append_assoc] using hnd
    · intro lf' hlf'
      exact hloc lf' (by simp [hlf'])

/-- **the canonical program is well-formed** -/
theorem seqExpr_wf (P : List (Leg × Leg)) (L : List (LeafT R)) (hnd : (labelsOf L).Nodup)
    (hloc : ∀ lf ∈ L, DependsOn (· ∈ lf.1) lf.2) : (seqExpr P L).WF := by
  apply seqFold_wf P L _ _ (by simpa [Expr.labels] using hnd) hloc
  intro σ τ _
  rfl

theorem seqFold_binds_sub (P : List (Leg × Leg)) : ∀ (L : List (LeafT R)) (acc : Expr Leg R),
    (∀ p ∈ acc.binds, p ∈ P ∨ p.swap ∈ P) → ∀ p ∈ (seqFold P acc L).binds, p ∈ P ∨ p.swap ∈ P
  | [], acc, h => by simpa [seqFold] using h
  | lf :: rest, acc, h => by
    rw [seqFold]
    apply seqFold_binds_sub P rest
    intro p hp
    simp only [Expr.binds, List.append_nil, List.mem_append] at hp
    rcases hp with hp | hp
    · exact (seqPairs_mem hp).2.2
    · exact h p hp

/-- every pair the canonical program binds is a pair of the record, in one of the two orientations -/
theorem seqExpr_binds_sub (P : List (Leg × Leg)) (L : List (LeafT R)) :
    ∀ p ∈ (seqExpr P L).binds, p ∈ P ∨ p.swap ∈ P :=
  seqFold_binds_sub P L _ (by simp [Expr.binds])

theorem seqFold_free (P : List (Leg × Leg)) (l : Leg) (hl : l ∉ Expr.pairLegs P) : ∀ (L : List (LeafT R))
    (acc : Expr Leg R), (l ∈ acc.free ∨ l ∈ labelsOf L) → l ∈ (seqFold P acc L).free
  | [], acc, h => by simpa [seqFold, labelsOf] using h
  | lf :: rest, acc, h => by
    rw [seqFold]
    apply seqFold_free P l hl rest
    have hnot : ∀ (fr lg : List Leg) (q : Leg × Leg), q ∈ seqPairs P fr lg → q.1 ≠ l ∧ q.2 ≠ l := by
      intro fr lg q hq
      have hm := (seqPairs_mem hq).2.2
      constructor
      · intro h1
        apply hl
        rcases hm with hm | hm
        · exact List.mem_append.2 (Or.inl (List.mem_map.2 ⟨q, hm, h1⟩))
        · exact List.mem_append.2 (Or.inr (List.mem_map.2 ⟨q.swap, hm, h1⟩))
      · intro h1
        apply hl
        rcases hm with hm | hm
        · exact List.mem_append.2 (Or.inr (List.mem_map.2 ⟨q, hm, h1⟩))
        · exact List.mem_append.2 (Or.inl (List.mem_map.2 ⟨q.swap, hm, h1⟩))
    simp only [labelsOf, List.flatMap_cons, List.mem_append] at h
    rcases h with h | h | h
    · left
      simp only [Expr.free, List.mem_append, List.mem_filter]
      left
      refine ⟨h, ?_⟩
      simp only [Bool.not_eq_true', List.contains_eq_mem, decide_eq_false_iff_not, List.mem_map, not_exists, not_and]
      intro q hq h1
      exact (hnot _ _ q hq).1 h1
    · left
      simp only [Expr.free, List.mem_append, List.mem_filter]
      right
      refine ⟨h, ?_⟩
      simp only [Bool.not_eq_true', List.contains_eq_mem, decide_eq_false_iff_not, List.mem_map, not_exists, not_and]
      intro q hq h1
      exact (hnot _ _ q hq).2 h1
    · right
      exact h

/-- a label of the leaves that the record does not mention stays free in the canonical program -/
theorem seqExpr_free (P : List (Leg × Leg)) (L : List (LeafT R)) (l : Leg) (hl : l ∉ Expr.pairLegs P)
    (hmem : l ∈ labelsOf L) : l ∈ (seqExpr P L).free :=
  seqFold_free P l hl L _ (Or.inr hmem)

end Ptn.C05.Heff
