import Ptn.C05.Core
import Ptn.C05.Tree
import Ptn.C05.Discipline
import Ptn.C05.Heff
/-! Property theorems for C05.  `Core.lean`: duration totals of the three schedules for arbitrary
segment lists (per segment edge, under the hypotheses `Nodup` / last-two-adjacent).  `Tree.lean`:
the same totals for every well-formed tree with the segments computed from the C17 model of the
update path (`first_order_tree`, `second_order_tree`, `two_site_tree`) — no hypothesis about the
segments left: every node of the tree, every edge of the tree.  `Discipline.lean`: the cache-freshness
discipline — in every one of the three sweeps, on every well-formed tree, no local update or block
rebuild ever reads a stale environment block (`reads_fresh_*`, `discipline_invariant`). -/
