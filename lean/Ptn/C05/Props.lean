import Ptn.C05.Model
/-! Property theorems for C05. Only property theorems and non-vacuity examples live here. -/
namespace Ptn.C05
end Ptn.C05
