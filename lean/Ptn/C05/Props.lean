import Ptn.C05.Core
import Ptn.C05.Tree
import Ptn.C05.Discipline
import Ptn.C05.Heff
import Ptn.C05.Value
import Ptn.C05.Projected
import Ptn.C05.ProjectedTree
import Ptn.C05.HeffBuilt
import Ptn.C05.HeffLoopValue
import Ptn.C05.ProjectedLinkTwo
import Ptn.C05.Ctx
import Ptn.C05.ProjectedTreeAll
import Ptn.C05.ProjectedTreeLink
import Ptn.C05.ProjectedTreeTwo
import Ptn.C05.WholeProgram
import Ptn.C05.WholeProgramLink
import Ptn.C05.WholeProgramTwo
import Ptn.C05.SiteProjected
import Ptn.C05.LinkProjected
import Ptn.C05.TwoSiteProjected
/-! Property theorems for C05.  `Core.lean`: duration totals of the three schedules for arbitrary
segment lists (per segment edge, under the hypotheses `Nodup` / last-two-adjacent).  `Tree.lean`:
the same totals for every well-formed tree with the segments computed from the C17 model of the
update path (`first_order_tree`, `second_order_tree`, `two_site_tree`) — no hypothesis about the
segments left: every node of the tree, every edge of the tree.  `Discipline.lean`: the cache-freshness
discipline — in every one of the three sweeps, on every well-formed tree, no local update or block
rebuild ever reads a stale environment block (`reads_fresh_*`, `discipline_invariant`).
`Heff.lean`: the effective Hamiltonians as leg graphs.  `Value.lean`, `Projected.lean`, `ProjectedTree.lean`:
the VALUE of those leg graphs over every commutative semiring (`site_heff_value`, `link_heff_value`,
`two_site_heff_value` and their `_blocks` forms; `site_heff_is_projected_hamiltonian`: `H_eff = E† H E` at the
record level; `site_heff_projected_tree_root_partial`: the same on a whole tree for the root site).
`HeffBuilt.lean`, `HeffLoopValue.lean`: provenance (`site_heff_built`, `link_heff_built`, `two_site_heff_built`) and the
unconditional `site_heff_loop_value`, `link_heff_loop_value`, `two_site_heff_loop_value` (the model's own call sequence
has the proved value).  `ProjectedLinkTwo.lean`: `link_heff_is_projected_hamiltonian`,
`two_site_heff_is_projected_hamiltonian`.  `Ctx.lean`, `ProjectedTreeAll.lean`: the parent-direction block
(`Ctx.ctx_block_is_model`, `Ctx.block_record_is_component_sandwich`), `Ctx.exists_ctx` (every site of every tree is
the hole of a context) and `site_heff_projected_tree` (`H_eff = E† H E` for EVERY site of every tree).
`ProjectedTreeLink.lean`, `ProjectedTreeTwo.lean`: `link_heff_projected_tree` (every edge, both sweep orientations),
`two_site_heff_projected_tree`, `two_site_heff_projected_tree_up` (every adjacent pair, both orders) — no block-record
hypothesis left.  `WholeProgram.lean`: `Ctx.ctx_block_built`, `site_heff_whole_program` (ONE program from the node tensors
of the tree to the matrix handed to `time_evolve`, with its value `E† H E`).

Below: non-vacuity examples for the value-level theorems (concrete programs that satisfy every hypothesis). -/
namespace Ptn.C05.Heff
open Ptn.C04 Ptn.Ein

/-- an integer tensor that reads all of its legs -/
def demoT (legs : List Leg) : Asg Leg → Int := fun σ => (legs.map fun l => (σ l : Int)).sum + 1

theorem demoT_local (legs : List Leg) : DependsOn (· ∈ legs) (demoT legs) := by
  intro σ τ h
  simp only [demoT]
  congr 2
  apply List.map_congr_left
  intro l hl
  rw [h l hl]

def demoLeaf (legs : List Leg) : Expr Leg Int := Expr.leaf legs (demoT legs)

theorem demoLeaf_swf (legs : List Leg) (h : legs.Nodup) : (demoLeaf legs).SWF := ⟨h, demoT_local legs⟩

/-! ### `site_heff_value`: node 9 with parent 5 and child 1, operator node with the same neighbours -/

def demoHam : Node := ⟨some 5, [1]⟩
/-- the program the code runs: `tensordot(tensordot(W, block 5), block 1)` -/
def demoSite : Expr Leg Int :=
  Expr.dot (Expr.dot (demoLeaf (gOpT 9 demoHam).legs) (demoLeaf (blockLegs 5 9)) [(Leg.gOp 9 5, Leg.gOp 5 9)])
    (demoLeaf (blockLegs 1 9)) [(Leg.gOp 9 1, Leg.gOp 1 9)]

example : getEffectiveSingleSiteHamiltonianNodes demoHam demoHam (gOpT 9 demoHam) (fun n => some (gBlock n 9 [])) =
    some ⟨[.gBra 5 9, .gBra 1 9, .gOpOut 9], [.gKet 5 9, .gKet 1 9, .gOpIn 9],
      [(.gOp 9 5, .gOp 5 9), (.gOp 9 1, .gOp 1 9)]⟩ := by decide

example : demoHam.nbrs.Nodup ∧ 9 ∉ demoHam.nbrs ∧ demoSite.SWF ∧
    DependsOn (· ∈ (gOpT 9 demoHam).legs) (demoT (gOpT 9 demoHam).legs) ∧
    (∀ n ∈ demoHam.nbrs, DependsOn (· ∈ blockLegs n 9) (demoT (blockLegs n 9))) ∧
    demoSite.binds.Perm [(.gOp 9 5, .gOp 5 9), (.gOp 9 1, .gOp 1 9)] ∧
    (∀ σ, demoSite.leafProd σ =
      demoT (gOpT 9 demoHam).legs σ * prodL (demoHam.nbrs.map fun n => demoT (blockLegs n 9) σ)) := by
  refine ⟨by decide, by decide, ?_, demoT_local _, fun n _ => demoT_local _, by decide, ?_⟩
  · refine ⟨⟨demoLeaf_swf _ (by decide), demoLeaf_swf _ (by decide), by decide, by decide, by decide, by decide⟩,
      demoLeaf_swf _ (by decide), by decide, by decide, by decide, by decide⟩
  · intro σ
    simp [demoSite, demoLeaf, Expr.leafProd, Expr.leaves, prodL, demoHam, Node.nbrs]

/-! ### `link_heff_value`: the link between parent 7 and child 4 -/

def demoLink : Expr Leg Int :=
  Expr.dot (demoLeaf (blockLegs 7 4)) (demoLeaf (blockLegs 4 7)) [(Leg.gOp 7 4, Leg.gOp 4 7)]

example : (7 : Nat) ≠ 4 ∧ demoLink.SWF ∧ DependsOn (· ∈ blockLegs 7 4) (demoT (blockLegs 7 4)) ∧
    DependsOn (· ∈ blockLegs 4 7) (demoT (blockLegs 4 7)) ∧
    demoLink.binds.Perm ([] ++ [] ++ [(Leg.gOp 7 4, Leg.gOp 4 7)]) ∧
    (∀ σ, demoLink.leafProd σ = demoT (blockLegs 7 4) σ * demoT (blockLegs 4 7) σ) := by
  refine ⟨by decide, ⟨demoLeaf_swf _ (by decide), demoLeaf_swf _ (by decide), by decide, by decide, by decide,
    by decide⟩, demoT_local _, demoT_local _, by decide, ?_⟩
  intro σ
  simp [demoLink, demoLeaf, Expr.leafProd, Expr.leaves, prodL]

/-! ### `two_site_heff_value`: target 1 (parent 0, children 2 and 3), next 2 (parent 1, children 4 and 5) -/

def demoHamT : Node := ⟨some 0, [2, 3]⟩
def demoHamX : Node := ⟨some 1, [4, 5]⟩
def demoTwoNode : Node := ⟨some 0, [3, 5, 4]⟩
/-- target block (operator of 1 with the blocks of 0 and 3), next block (operator of 2 with the blocks of 4 and 5),
joined along the bond 1 — 2 -/
def demoTwo : Expr Leg Int :=
  Expr.dot
    (Expr.dot (Expr.dot (demoLeaf (gOpT 1 demoHamT).legs) (demoLeaf (blockLegs 0 1)) [(Leg.gOp 1 0, Leg.gOp 0 1)])
      (demoLeaf (blockLegs 3 1)) [(Leg.gOp 1 3, Leg.gOp 3 1)])
    (Expr.dot (Expr.dot (demoLeaf (gOpT 2 demoHamX).legs) (demoLeaf (blockLegs 4 2)) [(Leg.gOp 2 4, Leg.gOp 4 2)])
      (demoLeaf (blockLegs 5 2)) [(Leg.gOp 2 5, Leg.gOp 5 2)])
    [(Leg.gOp 1 2, Leg.gOp 2 1)]

example : getEffectiveTwoSiteHamiltonian demoHamT demoHamX demoTwoNode (gOpT 1 demoHamT) (gOpT 2 demoHamX) 1 2
    (fun k => if (k.2 = 1 ∧ k.1 ∈ [0, 3]) ∨ (k.2 = 2 ∧ k.1 ∈ [4, 5]) then some (gBlock k.1 k.2 []) else none) =
    some ⟨[.gBra 0 1, .gBra 3 1, .gBra 5 2, .gBra 4 2, .gOpOut 1, .gOpOut 2],
          [.gKet 0 1, .gKet 3 1, .gKet 5 2, .gKet 4 2, .gOpIn 1, .gOpIn 2],
          [(.gOp 1 0, .gOp 0 1), (.gOp 1 3, .gOp 3 1), (.gOp 2 4, .gOp 4 2), (.gOp 2 5, .gOp 5 2), (.gOp 1 2, .gOp 2 1)]⟩ := by
  decide

example : demoHamT.nbrs.Nodup ∧ demoHamX.nbrs.Nodup ∧ 2 ∈ demoHamT.nbrs ∧ 1 ∈ demoHamX.nbrs ∧
    (∀ n ∈ demoHamX.nbrs, n ∉ demoHamT.nbrs) ∧
    demoTwoNode.nbrs.Perm (demoHamT.nbrs.filter (· ≠ 2) ++ demoHamX.nbrs.filter (· ≠ 1)) ∧
    demoTwo.SWF ∧
    demoTwo.binds.Perm [(.gOp 1 0, .gOp 0 1), (.gOp 1 3, .gOp 3 1), (.gOp 2 4, .gOp 4 2), (.gOp 2 5, .gOp 5 2),
      (.gOp 1 2, .gOp 2 1)] ∧
    (∀ σ, demoTwo.leafProd σ = demoT (gOpT 1 demoHamT).legs σ * (demoT (gOpT 2 demoHamX).legs σ *
      (prodL ((demoHamT.nbrs.filter (· ≠ 2)).map fun n => demoT (blockLegs n 1) σ) *
       prodL ((demoHamX.nbrs.filter (· ≠ 1)).map fun n => demoT (blockLegs n 2) σ)))) := by
  refine ⟨by decide, by decide, by decide, by decide, by decide, by decide, ?_, by decide, ?_⟩
  · have hT : (Expr.dot (Expr.dot (demoLeaf (gOpT 1 demoHamT).legs) (demoLeaf (blockLegs 0 1))
        [(Leg.gOp 1 0, Leg.gOp 0 1)]) (demoLeaf (blockLegs 3 1)) [(Leg.gOp 1 3, Leg.gOp 3 1)]).SWF :=
      ⟨⟨demoLeaf_swf _ (by decide), demoLeaf_swf _ (by decide), by decide, by decide, by decide, by decide⟩,
        demoLeaf_swf _ (by decide), by decide, by decide, by decide, by decide⟩
    have hX : (Expr.dot (Expr.dot (demoLeaf (gOpT 2 demoHamX).legs) (demoLeaf (blockLegs 4 2))
        [(Leg.gOp 2 4, Leg.gOp 4 2)]) (demoLeaf (blockLegs 5 2)) [(Leg.gOp 2 5, Leg.gOp 5 2)]).SWF :=
      ⟨⟨demoLeaf_swf _ (by decide), demoLeaf_swf _ (by decide), by decide, by decide, by decide, by decide⟩,
        demoLeaf_swf _ (by decide), by decide, by decide, by decide, by decide⟩
    exact ⟨hT, hX, by decide, by decide, by decide, by decide⟩
  · intro σ
    have hf1 : demoHamT.nbrs.filter (· ≠ 2) = [0, 3] := by decide
    have hf2 : demoHamX.nbrs.filter (· ≠ 1) = [4, 5] := by decide
    rw [hf1, hf2]
    simp only [demoTwo, demoLeaf, Expr.leafProd, Expr.leaves, prodL, List.map_cons, List.map_nil,
      List.cons_append, List.nil_append, mul_one]
    ring

/-! ### `site_heff_value_blocks`, `site_heff_is_projected_hamiltonian`, `site_heff_projected_tree_root_partial`:
root 0 with the leaf children 1 and 2; the operator node lists the children as (2, 1) -/

def demoKids : List Tree := [Tree.node 1 [], Tree.node 2 []]
def demoKet (c : Nat) : Expr Leg Int := demoLeaf (gKetT c ⟨some 0, []⟩).legs
def demoOp (c : Nat) : Expr Leg Int := demoLeaf (gOpT c ⟨some 0, []⟩).legs
def demoBra (c : Nat) : Expr Leg Int := demoLeaf (gBraT c ⟨some 0, []⟩).legs
def demoW0 : Expr Leg Int := demoLeaf (gOpT 0 ⟨none, [2, 1]⟩).legs
/-- the cached block of the leaf `c`: (ket · operator) · bra, the program of `contract_leaf` -/
def demoBlk (c : Nat) : Expr Leg Int :=
  Expr.dot (Expr.dot (demoKet c) (demoOp c) [physIn c]) (demoBra c) [physOut c]
/-- the program of `contract_all_except_node` on top of the block programs -/
def demoHeff : Expr Leg Int :=
  Expr.dot (Expr.dot demoW0 (demoBlk 2) [(Leg.gOp 0 2, Leg.gOp 2 0)]) (demoBlk 1) [(Leg.gOp 0 1, Leg.gOp 1 0)]
/-- ket environment, dense TTNO, bra environment -/
def demoE : Expr Leg Int := Expr.dot (demoKet 1) (demoKet 2) []
def demoH : Expr Leg Int :=
  Expr.dot (Expr.dot demoW0 (demoOp 1) [(Leg.gOp 0 1, Leg.gOp 1 0)]) (demoOp 2) [(Leg.gOp 0 2, Leg.gOp 2 0)]
def demoB : Expr Leg Int := Expr.dot (demoBra 1) (demoBra 2) []

example : getEffectiveSingleSiteHamiltonianNodes ⟨none, demoKids.map Tree.id⟩ ⟨none, [2, 1]⟩ (gOpT 0 ⟨none, [2, 1]⟩)
    (fun n => soKidBlock demoKids 0 (n, 0)) =
    some ⟨[.gBra 1 0, .gBra 2 0, .gOpOut 0], [.gKet 1 0, .gKet 2 0, .gOpIn 0],
      [physOut 2, physIn 2, (.gOp 0 2, .gOp 2 0), physOut 1, physIn 1, (.gOp 0 1, .gOp 1 0)]⟩ := by decide

theorem demoBlk_swf (c : Nat) : (demoBlk c).SWF := by
  refine ⟨⟨demoLeaf_swf _ ?_, demoLeaf_swf _ ?_, ?_, ?_, ?_, ?_⟩, demoLeaf_swf _ ?_, ?_, ?_, ?_, ?_⟩ <;>
    simp [demoKet, demoOp, demoBra, demoLeaf, gKetT, gOpT, gBraT, T.fresh, Node.nbrs, Expr.labels, Expr.free,
      physIn, physOut]

/-- every hypothesis of `site_heff_projected_tree_root_partial` (hence of the record-level theorem
`site_heff_is_projected_hamiltonian` it instantiates), all dimensions 2 -/
example : (Tree.node 0 demoKids).ids.Nodup ∧ ([2, 1] : List Nat).Perm (demoKids.map Tree.id) ∧
    demoHeff.SWF ∧ demoE.WF ∧ demoH.WF ∧ demoB.WF ∧
    (∀ l ∈ demoE.labels, l ∉ demoH.labels) ∧ (∀ l ∈ demoE.labels, l ∉ demoB.labels) ∧
    (∀ l ∈ demoH.labels, l ∉ demoB.labels) ∧
    demoHeff.binds.Perm
      [physOut 2, physIn 2, (.gOp 0 2, .gOp 2 0), physOut 1, physIn 1, (.gOp 0 1, .gOp 1 0)] ∧
    (unordL demoE.binds).Perm (unordL ((demoKids.flatMap Tree.edges).map fun e => ketEdge e.1 e.2)) ∧
    (unordL demoH.binds).Perm (unordL ((Tree.node 0 demoKids).edges.map fun e => opEdge e.1 e.2)) ∧
    (unordL demoB.binds).Perm (unordL ((demoKids.flatMap Tree.edges).map fun e => braEdge e.1 e.2)) ∧
    (∀ n ∈ Tree.idsL demoKids, Leg.gKetPhys n ∈ demoE.free ∧ Leg.gOpIn n ∈ demoH.free ∧
      Leg.gOpOut n ∈ demoH.free ∧ Leg.gBraPhys n ∈ demoB.free) ∧
    (∀ p ∈ projSpec ((Tree.idsL demoKids).map physOut) ((Tree.idsL demoKids).map physIn) demoE.binds demoH.binds
      demoB.binds, (fun _ : Leg => 2) p.1 = (fun _ : Leg => 2) p.2) ∧
    (∀ σ, demoHeff.leafProd σ = demoE.leafProd σ * demoH.leafProd σ * demoB.leafProd σ) := by
  have hW : demoW0.SWF := demoLeaf_swf _ (by decide)
  have hE : demoE.SWF := ⟨demoLeaf_swf _ (by decide), demoLeaf_swf _ (by decide), by decide, by decide, by decide,
    by decide⟩
  have hB : demoB.SWF := ⟨demoLeaf_swf _ (by decide), demoLeaf_swf _ (by decide), by decide, by decide, by decide,
    by decide⟩
  have hH : demoH.SWF := ⟨⟨hW, demoLeaf_swf _ (by decide), by decide, by decide, by decide, by decide⟩,
    demoLeaf_swf _ (by decide), by decide, by decide, by decide, by decide⟩
  have he : demoHeff.SWF := ⟨⟨hW, demoBlk_swf 2, by decide, by decide, by decide, by decide⟩, demoBlk_swf 1,
    by decide, by decide, by decide, by decide⟩
  refine ⟨by decide, by decide, he, hE.wf, hH.wf, hB.wf, by decide, by decide, by decide, by decide, by decide,
    by decide, by decide, by decide, fun _ _ => rfl, ?_⟩
  intro σ
  simp only [demoHeff, demoBlk, demoE, demoH, demoB, demoW0, demoKet, demoOp, demoBra, demoLeaf, Expr.leafProd,
    Expr.leaves, prodL, List.map_cons, List.map_nil, List.cons_append, List.nil_append, mul_one]
  ring

/-- the hypotheses of `site_heff_value_blocks` for the same program: the blocks are the programs `demoBlk` -/
example : Expr.LabelsDisjoint (demoW0 :: [2, 1].map demoBlk) ∧ (∀ n ∈ [2, 1], (demoBlk n).WF) ∧
    (∀ n ∈ [2, 1], (demoBlk n).binds.Perm (soBbOf demoKids n)) ∧
    (∀ σ, demoHeff.leafProd σ = demoT (gOpT 0 ⟨none, [2, 1]⟩).legs σ * Expr.leafProdL ([2, 1].map demoBlk) σ) := by
  refine ⟨?_, fun n _ => (demoBlk_swf n).wf, by decide, ?_⟩
  · simp only [Expr.LabelsDisjoint, List.map_cons, List.map_nil, List.pairwise_cons, List.mem_cons,
      List.not_mem_nil, or_false, forall_eq_or_imp, forall_eq, false_imp_iff, implies_true, List.Pairwise.nil,
      and_true]
    decide
  · intro σ
    simp only [demoHeff, demoBlk, demoW0, demoKet, demoOp, demoBra, demoLeaf, Expr.leafProd, Expr.leafProdL,
      Expr.leaves, prodL, List.map_cons, List.map_nil, List.cons_append, List.nil_append, mul_one]
    ring

/-! ### provenance: `site_heff_built`, `link_heff_built`, `two_site_heff_built` and the `…_loop_value` theorems -/

def demoSiteMat : Mat := ⟨[.gBra 5 9, .gBra 1 9, .gOpOut 9], [.gKet 5 9, .gKet 1 9, .gOpIn 9],
  [(.gOp 9 5, .gOp 5 9), (.gOp 9 1, .gOp 1 9)]⟩

/-- the hypotheses of `site_heff_built` on the demo node: the call succeeds, the operator tensor and both blocks
are fresh tensors with arbitrary integer values -/
example : ∃ m, m = demoSiteMat ∧ getEffectiveSingleSiteHamiltonianNodes demoHam demoHam (gOpT 9 demoHam)
      (fun n => some (gBlock n 9 [])) = some m ∧
    BuiltL (R := Int) (gOpT 9 demoHam) [((gOpT 9 demoHam).legs, demoT (gOpT 9 demoHam).legs)] ∧
    (∀ n ∈ demoHam.nbrs, ∀ blk, (fun n => some (gBlock n 9 [])) n = some blk →
      BuiltL (R := Int) blk ((fun n => [(blockLegs n 9, demoT (blockLegs n 9))]) n)) ∧
    BuiltL (R := Int) m.toT ([((gOpT 9 demoHam).legs, demoT (gOpT 9 demoHam).legs)] ++
      demoHam.nbrs.flatMap fun n => [(blockLegs n 9, demoT (blockLegs n 9))]) := by
  have hc : ∀ n ∈ demoHam.nbrs, ∀ blk, (fun n => some (gBlock n 9 [])) n = some blk →
      BuiltL (R := Int) blk ((fun n => [(blockLegs n 9, demoT (blockLegs n 9))]) n) := by
    intro n _ blk h
    simp only [Option.some.injEq] at h
    subst h
    exact BuiltL.fresh _ _
  have hm : getEffectiveSingleSiteHamiltonianNodes demoHam demoHam (gOpT 9 demoHam)
      (fun n => some (gBlock n 9 [])) = some demoSiteMat := by decide
  exact ⟨demoSiteMat, rfl, hm, BuiltL.fresh _ _, hc,
    site_heff_built (lv := fun n => [(blockLegs n 9, demoT (blockLegs n 9))]) hm (BuiltL.fresh _ _) hc⟩

/-- every hypothesis of `site_heff_loop_value` (node 9, parent 5, child 1) -/
example : demoHam.nbrs.Nodup ∧ demoHam.nbrs.Perm demoHam.nbrs ∧ 9 ∉ demoHam.nbrs ∧
    (∀ n ∈ demoHam.nbrs, (fun n => some (gBlock n 9 [])) n = some (gBlock n 9 [])) ∧
    DependsOn (· ∈ (gOpT 9 demoHam).legs) (demoT (gOpT 9 demoHam).legs) ∧
    (∀ n ∈ demoHam.nbrs, DependsOn (· ∈ blockLegs n 9) (demoT (blockLegs n 9))) :=
  ⟨by decide, List.Perm.refl _, by decide, fun _ _ => rfl, demoT_local _, fun _ _ => demoT_local _⟩

/-- every hypothesis of `link_heff_built` / `link_heff_loop_value` (link between parent 7 and child 4) -/
example : (7 : Nat) ≠ 4 ∧
    (fun k => if k = (4, 7) then some (gBlock 4 7 []) else if k = (7, 4) then some (gBlock 7 4 []) else none :
      Dict) (7, 4) = some (gBlock 7 4 []) ∧
    (fun k => if k = (4, 7) then some (gBlock 4 7 []) else if k = (7, 4) then some (gBlock 7 4 []) else none :
      Dict) (4, 7) = some (gBlock 4 7 []) ∧
    DependsOn (· ∈ blockLegs 7 4) (demoT (blockLegs 7 4)) ∧ DependsOn (· ∈ blockLegs 4 7) (demoT (blockLegs 4 7)) :=
  ⟨by decide, by decide, by decide, demoT_local _, demoT_local _⟩

/-- the hypotheses of `two_site_heff_built` / `two_site_heff_loop_value` beyond those of `two_site_heff_value`
(shown above): the tensors read only their own legs -/
example : DependsOn (· ∈ (gOpT 1 demoHamT).legs) (demoT (gOpT 1 demoHamT).legs) ∧
    DependsOn (· ∈ (gOpT 2 demoHamX).legs) (demoT (gOpT 2 demoHamX).legs) ∧
    (∀ n ∈ demoHamT.nbrs.filter (· ≠ 2), DependsOn (· ∈ blockLegs n 1) (demoT (blockLegs n 1))) ∧
    (∀ n ∈ demoHamX.nbrs.filter (· ≠ 1), DependsOn (· ∈ blockLegs n 2) (demoT (blockLegs n 2))) :=
  ⟨demoT_local _, demoT_local _, fun _ _ => demoT_local _, fun _ _ => demoT_local _⟩

/-! ### the chain 0 — 1 — 2 (root 0): `link_heff_is_projected_hamiltonian` on the bond 0 — 1 of the two-node chain,
`Ctx.ctx_block_is_model`, `Ctx.block_record_is_component_sandwich` and `site_heff_projected_tree` for the site 2
(a leaf at depth 2: its parent block contains the block from the grandparent) -/

def chKet (i : Nat) (nd : Node) : Expr Leg Int := demoLeaf (gKetT i nd).legs
def chOp (i : Nat) (nd : Node) : Expr Leg Int := demoLeaf (gOpT i nd).legs
def chBra (i : Nat) (nd : Node) : Expr Leg Int := demoLeaf (gBraT i nd).legs

/-- the two-node chain 0 — 1: blocks of the one-node components, link on the bond -/
def lkBlk0 : Expr Leg Int :=
  Expr.dot (Expr.dot (chKet 0 ⟨none, [1]⟩) (chOp 0 ⟨none, [1]⟩) [physIn 0]) (chBra 0 ⟨none, [1]⟩) [physOut 0]
def lkBlk1 : Expr Leg Int :=
  Expr.dot (Expr.dot (chKet 1 ⟨some 0, []⟩) (chOp 1 ⟨some 0, []⟩) [physIn 1]) (chBra 1 ⟨some 0, []⟩) [physOut 1]
def lkHeff : Expr Leg Int := Expr.dot lkBlk0 lkBlk1 [(Leg.gOp 0 1, Leg.gOp 1 0)]
def lkE : Expr Leg Int := Expr.dot (chKet 0 ⟨none, [1]⟩) (chKet 1 ⟨some 0, []⟩) []
def lkH : Expr Leg Int := Expr.dot (chOp 0 ⟨none, [1]⟩) (chOp 1 ⟨some 0, []⟩) [(Leg.gOp 0 1, Leg.gOp 1 0)]
def lkB : Expr Leg Int := Expr.dot (chBra 0 ⟨none, [1]⟩) (chBra 1 ⟨some 0, []⟩) []

theorem lkBlk0_swf : lkBlk0.SWF := by
  refine ⟨⟨demoLeaf_swf _ ?_, demoLeaf_swf _ ?_, ?_, ?_, ?_, ?_⟩, demoLeaf_swf _ ?_, ?_, ?_, ?_, ?_⟩ <;> decide
theorem lkBlk1_swf : lkBlk1.SWF := by
  refine ⟨⟨demoLeaf_swf _ ?_, demoLeaf_swf _ ?_, ?_, ?_, ?_, ?_⟩, demoLeaf_swf _ ?_, ?_, ?_, ?_, ?_⟩ <;> decide

/-- every hypothesis of `link_heff_is_projected_hamiltonian` (`p = 0`, `c = 1`; components = single nodes; the
blocks carry the records the model produces: `[physIn 0, physOut 0]` from `contract_any(0, 1)`, `[physOut 1, physIn 1]`
from `contract_leaf`), all dimensions 2 -/
example : (0 : Nat) ≠ 1 ∧
    (unordL [physIn 0, physOut 0]).Perm (unordL (compRecord (fun n => [physOut n]) (fun n => [physIn n])
      (fun _ => []) (fun _ => []) (fun _ => []) 0)) ∧
    (unordL [physOut 1, physIn 1]).Perm (unordL (compRecord (fun n => [physOut n]) (fun n => [physIn n])
      (fun _ => []) (fun _ => []) (fun _ => []) 1)) ∧
    lkHeff.SWF ∧ lkE.WF ∧ lkH.WF ∧ lkB.WF ∧
    (∀ l ∈ lkE.labels, l ∉ lkH.labels) ∧ (∀ l ∈ lkE.labels, l ∉ lkB.labels) ∧ (∀ l ∈ lkH.labels, l ∉ lkB.labels) ∧
    lkHeff.binds.Perm ([physIn 0, physOut 0] ++ [physOut 1, physIn 1] ++ [(Leg.gOp 0 1, Leg.gOp 1 0)]) ∧
    (unordL lkE.binds).Perm (unordL ([] ++ [])) ∧
    (unordL lkH.binds).Perm (unordL ([(Leg.gOp 0 1, Leg.gOp 1 0)] ++ ([] ++ []))) ∧
    (unordL lkB.binds).Perm (unordL ([] ++ [])) ∧
    (∀ q ∈ [physIn 0] ++ [physIn 1], q.1 ∈ lkE.free ∧ q.2 ∈ lkH.free) ∧
    (∀ q ∈ [physOut 0] ++ [physOut 1],
      (q.1 ∈ lkH.free ∧ q.1 ∉ ([physIn 0] ++ [physIn 1]).map Prod.snd) ∧ q.2 ∈ lkB.free) ∧
    (∀ σ, lkHeff.leafProd σ = lkE.leafProd σ * lkH.leafProd σ * lkB.leafProd σ) := by
  have hE : lkE.SWF := ⟨demoLeaf_swf _ (by decide), demoLeaf_swf _ (by decide), by decide, by decide, by decide,
    by decide⟩
  have hH : lkH.SWF := ⟨demoLeaf_swf _ (by decide), demoLeaf_swf _ (by decide), by decide, by decide, by decide,
    by decide⟩
  have hB : lkB.SWF := ⟨demoLeaf_swf _ (by decide), demoLeaf_swf _ (by decide), by decide, by decide, by decide,
    by decide⟩
  have he : lkHeff.SWF := ⟨lkBlk0_swf, lkBlk1_swf, by decide, by decide, by decide, by decide⟩
  refine ⟨by decide, by decide, by decide, he, hE.wf, hH.wf, hB.wf, by decide, by decide, by decide, by decide,
    by decide, by decide, by decide, by decide, by decide, ?_⟩
  intro σ
  simp only [lkHeff, lkBlk0, lkBlk1, lkE, lkH, lkB, chKet, chOp, chBra, demoLeaf, Expr.leafProd, Expr.leaves, prodL,
    List.map_cons, List.map_nil, List.cons_append, List.nil_append, mul_one]
  ring

/-- the context of the site 2 in the chain 0 — 1 — 2 -/
def chCtx : Ctx := .frame 1 [] [] (.frame 0 [] [] .root)

example : chCtx.plug (Tree.node 2 []) = Tree.node 0 [Tree.node 1 [Tree.node 2 []]] := rfl

/-- `Ctx.ctx_block_is_model` on the chain: `contract_any(0, 1)` with an empty cache, then `contract_any(1, 2)` with
the block just built, return the blocks with the records `blockBinds`; hypotheses by `decide` -/
example : opContractAnyNodeEnvironmentButOne 1 ⟨none, [1]⟩ (gKetT 0 ⟨none, [1]⟩) ⟨none, [1]⟩ (gOpT 0 ⟨none, [1]⟩)
      (fun _ => none) ⟨none, [1]⟩ (gBraT 0 ⟨none, [1]⟩) id id =
      some (gBlock 0 1 (Ctx.frame 0 [] [] .root).blockBinds) ∧
    opContractAnyNodeEnvironmentButOne 2 ⟨some 0, [2]⟩ (gKetT 1 ⟨some 0, [2]⟩) ⟨some 0, [2]⟩ (gOpT 1 ⟨some 0, [2]⟩)
      (fun n => if n = 0 then some (gBlock 0 1 (Ctx.frame 0 [] [] .root).blockBinds) else none) ⟨some 0, [2]⟩
      (gBraT 1 ⟨some 0, [2]⟩) id id = some (gBlock 1 2 chCtx.blockBinds) ∧
    chCtx.ids.Nodup ∧
    chCtx.blockBinds = [physIn 0, physOut 0, (.gKet 1 0, .gKet 0 1), (.gOp 0 1, .gOp 1 0), physIn 1,
      (.gBra 0 1, .gBra 1 0), physOut 1] := by
  refine ⟨?_, ?_, by decide, by decide⟩
  · exact Ctx.ctx_block_is_model 0 1 [] [] .root [1] _ (by decide) (by decide) (by simp [Ctx.parent])
      (by simp)
  · exact Ctx.ctx_block_is_model 1 2 [] [] (.frame 0 [] [] .root) [2] _ (by decide) (by decide)
      (by intro q hq; simp only [Ctx.parent, Option.some.injEq] at hq; subst hq; rfl) (by simp)

def chBlk0 : Expr Leg Int := lkBlk0
/-- the program of `contract_any(1, 2)`: ket tensor with the block of 0, then the operator, then the bra -/
def chBlk1 : Expr Leg Int :=
  Expr.dot
    (Expr.dot (Expr.dot (chKet 1 ⟨some 0, [2]⟩) chBlk0 [(Leg.gKet 1 0, Leg.gKet 0 1)]) (chOp 1 ⟨some 0, [2]⟩)
      [(Leg.gOp 0 1, Leg.gOp 1 0), physIn 1])
    (chBra 1 ⟨some 0, [2]⟩) [(Leg.gBra 0 1, Leg.gBra 1 0), physOut 1]
def chW2 : Expr Leg Int := chOp 2 ⟨some 1, []⟩
/-- the program of `contract_all_except_node` for the leaf 2 -/
def chHeff : Expr Leg Int := Expr.dot chW2 chBlk1 [(Leg.gOp 2 1, Leg.gOp 1 2)]
def chE : Expr Leg Int := Expr.dot (chKet 0 ⟨none, [1]⟩) (chKet 1 ⟨some 0, [2]⟩) [(Leg.gKet 0 1, Leg.gKet 1 0)]
def chH : Expr Leg Int :=
  Expr.dot (Expr.dot (chOp 0 ⟨none, [1]⟩) (chOp 1 ⟨some 0, [2]⟩) [(Leg.gOp 0 1, Leg.gOp 1 0)]) chW2
    [(Leg.gOp 1 2, Leg.gOp 2 1)]
def chB : Expr Leg Int := Expr.dot (chBra 0 ⟨none, [1]⟩) (chBra 1 ⟨some 0, [2]⟩) [(Leg.gBra 0 1, Leg.gBra 1 0)]

theorem chBlk1_swf : chBlk1.SWF := by
  refine ⟨⟨⟨demoLeaf_swf _ ?_, lkBlk0_swf, ?_, ?_, ?_, ?_⟩, demoLeaf_swf _ ?_, ?_, ?_, ?_, ?_⟩, demoLeaf_swf _ ?_,
    ?_, ?_, ?_, ?_⟩ <;> decide

/-- the model's answer for the leaf 2 of the chain: the parent block carries `chCtx.blockBinds` -/
example : getEffectiveSingleSiteHamiltonianNodes ⟨chCtx.parent, []⟩ ⟨chCtx.parent, []⟩ (gOpT 2 ⟨chCtx.parent, []⟩)
    (siteCache chCtx [] 2) =
    some ⟨[.gBra 1 2, .gOpOut 2], [.gKet 1 2, .gOpIn 2], chCtx.blockBinds ++ [(.gOp 2 1, .gOp 1 2)]⟩ := by decide

/-- every hypothesis of `site_heff_projected_tree` for the site 2 of the chain 0 — 1 — 2 (depth 2), all
dimensions 2 -/
example : (chCtx.plug (Tree.node 2 [])).ids.Nodup ∧ ([] : List Nat).Perm (([] : List Tree).map Tree.id) ∧
    chHeff.SWF ∧ chE.WF ∧ chH.WF ∧ chB.WF ∧
    (∀ l ∈ chE.labels, l ∉ chH.labels) ∧ (∀ l ∈ chE.labels, l ∉ chB.labels) ∧ (∀ l ∈ chH.labels, l ∉ chB.labels) ∧
    chHeff.binds.Perm (chCtx.blockBinds ++ [(.gOp 2 1, .gOp 1 2)]) ∧
    (unordL chE.binds).Perm
      (unordL ((chCtx.compEdges ++ ([] : List Tree).flatMap Tree.edges).map fun e => ketEdge e.1 e.2)) ∧
    (unordL chH.binds).Perm (unordL ((chCtx.plug (Tree.node 2 [])).edges.map fun e => opEdge e.1 e.2)) ∧
    (unordL chB.binds).Perm
      (unordL ((chCtx.compEdges ++ ([] : List Tree).flatMap Tree.edges).map fun e => braEdge e.1 e.2)) ∧
    (∀ n ∈ chCtx.ids ++ Tree.idsL [], Leg.gKetPhys n ∈ chE.free ∧ Leg.gOpIn n ∈ chH.free ∧
      Leg.gOpOut n ∈ chH.free ∧ Leg.gBraPhys n ∈ chB.free) ∧
    (∀ σ, chHeff.leafProd σ = chE.leafProd σ * chH.leafProd σ * chB.leafProd σ) := by
  have hW : chW2.SWF := demoLeaf_swf _ (by decide)
  have hE : chE.SWF := ⟨demoLeaf_swf _ (by decide), demoLeaf_swf _ (by decide), by decide, by decide, by decide,
    by decide⟩
  have hB : chB.SWF := ⟨demoLeaf_swf _ (by decide), demoLeaf_swf _ (by decide), by decide, by decide, by decide,
    by decide⟩
  have hH : chH.SWF := ⟨⟨demoLeaf_swf _ (by decide), demoLeaf_swf _ (by decide), by decide, by decide, by decide,
    by decide⟩, hW, by decide, by decide, by decide, by decide⟩
  have he : chHeff.SWF := ⟨hW, chBlk1_swf, by decide, by decide, by decide, by decide⟩
  refine ⟨by decide, by decide, he, hE.wf, hH.wf, hB.wf, by decide, by decide, by decide, by decide, by decide,
    by decide, by decide, by decide, ?_⟩
  intro σ
  simp only [chHeff, chBlk1, chBlk0, lkBlk0, chW2, chE, chH, chB, chKet, chOp, chBra, demoLeaf, Expr.leafProd,
    Expr.leaves, prodL, List.map_cons, List.map_nil, List.cons_append, List.nil_append, mul_one]
  ring

/-- `Ctx.exists_ctx`: the site 2 of the chain is a hole -/
example : ∃ (c : Ctx) (ks : List Tree), Tree.node 0 [Tree.node 1 [Tree.node 2 []]] = c.plug (Tree.node 2 ks) :=
  Ctx.exists_ctx _ 2 (by decide)

/-! ### `two_site_heff_is_projected_hamiltonian`: the chain 0 — 1 — 2 — 3 (root 0), target 1, next 2 -/

def tsT : Node := ⟨some 0, [2]⟩
def tsX : Node := ⟨some 1, [3]⟩
def tsBlk3 : Expr Leg Int :=
  Expr.dot (Expr.dot (chKet 3 ⟨some 2, []⟩) (chOp 3 ⟨some 2, []⟩) [physIn 3]) (chBra 3 ⟨some 2, []⟩) [physOut 3]
/-- the program of `_contract_all_except_two_nodes` on top of the block programs -/
def tsHeff : Expr Leg Int :=
  Expr.dot (Expr.dot (chOp 1 tsT) lkBlk0 [(Leg.gOp 1 0, Leg.gOp 0 1)])
    (Expr.dot (chOp 2 tsX) tsBlk3 [(Leg.gOp 2 3, Leg.gOp 3 2)]) [(Leg.gOp 1 2, Leg.gOp 2 1)]
def tsE : Expr Leg Int := Expr.dot (chKet 0 ⟨none, [1]⟩) (chKet 3 ⟨some 2, []⟩) []
def tsH : Expr Leg Int :=
  Expr.dot (Expr.dot (Expr.dot (chOp 0 ⟨none, [1]⟩) (chOp 1 tsT) [(Leg.gOp 0 1, Leg.gOp 1 0)]) (chOp 2 tsX)
    [(Leg.gOp 1 2, Leg.gOp 2 1)]) (chOp 3 ⟨some 2, []⟩) [(Leg.gOp 2 3, Leg.gOp 3 2)]
def tsB : Expr Leg Int := Expr.dot (chBra 0 ⟨none, [1]⟩) (chBra 3 ⟨some 2, []⟩) []

theorem tsBlk3_swf : tsBlk3.SWF := by
  refine ⟨⟨demoLeaf_swf _ ?_, demoLeaf_swf _ ?_, ?_, ?_, ?_, ?_⟩, demoLeaf_swf _ ?_, ?_, ?_, ?_, ?_⟩ <;> decide

/-- every hypothesis of `two_site_heff_is_projected_hamiltonian`: the structural ones, the block records the model
produces (`[physIn 0, physOut 0]` from `contract_any(0, 1)`, `[physOut 3, physIn 3]` from `contract_leaf`) are the
sandwich records of the one-node components, and the programs `tsHeff`, `tsE`, `tsH`, `tsB` -/
example : tsT.nbrs.Nodup ∧ tsX.nbrs.Nodup ∧ 2 ∈ tsT.nbrs ∧ 1 ∈ tsX.nbrs ∧ (∀ n ∈ tsX.nbrs, n ∉ tsT.nbrs) ∧
    (Node.mk (some 0) [3]).nbrs.Perm (tsT.nbrs.filter (· ≠ 2) ++ tsX.nbrs.filter (· ≠ 1)) ∧
    (∀ n ∈ tsT.nbrs.filter (· ≠ 2), (unordL ((fun _ => [physIn 0, physOut 0]) n)).Perm
      (unordL (compRecord (fun n => [physOut n]) (fun n => [physIn n]) (fun _ => []) (fun _ => []) (fun _ => []) n))) ∧
    (∀ n ∈ tsX.nbrs.filter (· ≠ 1), (unordL ((fun _ => [physOut 3, physIn 3]) n)).Perm
      (unordL (compRecord (fun n => [physOut n]) (fun n => [physIn n]) (fun _ => []) (fun _ => []) (fun _ => []) n))) ∧
    tsHeff.SWF ∧ tsE.WF ∧ tsH.WF ∧ tsB.WF ∧
    (∀ l ∈ tsE.labels, l ∉ tsH.labels) ∧ (∀ l ∈ tsE.labels, l ∉ tsB.labels) ∧ (∀ l ∈ tsH.labels, l ∉ tsB.labels) ∧
    tsHeff.binds.Perm [physIn 0, physOut 0, (.gOp 1 0, .gOp 0 1), physOut 3, physIn 3, (.gOp 2 3, .gOp 3 2),
      (.gOp 1 2, .gOp 2 1)] ∧
    (unordL tsE.binds).Perm (unordL ([] ++ [])) ∧
    (unordL tsH.binds).Perm (unordL (twoOpPairs 1 2 [0] [3] ++ ([] ++ []))) ∧
    (unordL tsB.binds).Perm (unordL ([] ++ [])) ∧
    (∀ q ∈ [physIn 0] ++ [physIn 3], q.1 ∈ tsE.free ∧ q.2 ∈ tsH.free) ∧
    (∀ q ∈ [physOut 0] ++ [physOut 3],
      (q.1 ∈ tsH.free ∧ q.1 ∉ ([physIn 0] ++ [physIn 3]).map Prod.snd) ∧ q.2 ∈ tsB.free) ∧
    (∀ σ, tsHeff.leafProd σ = tsE.leafProd σ * tsH.leafProd σ * tsB.leafProd σ) := by
  have hE : tsE.SWF := ⟨demoLeaf_swf _ (by decide), demoLeaf_swf _ (by decide), by decide, by decide, by decide,
    by decide⟩
  have hB : tsB.SWF := ⟨demoLeaf_swf _ (by decide), demoLeaf_swf _ (by decide), by decide, by decide, by decide,
    by decide⟩
  have hH : tsH.SWF := ⟨⟨⟨demoLeaf_swf _ (by decide), demoLeaf_swf _ (by decide), by decide, by decide, by decide,
    by decide⟩, demoLeaf_swf _ (by decide), by decide, by decide, by decide, by decide⟩, demoLeaf_swf _ (by decide),
    by decide, by decide, by decide, by decide⟩
  have he : tsHeff.SWF := ⟨⟨demoLeaf_swf _ (by decide), lkBlk0_swf, by decide, by decide, by decide, by decide⟩,
    ⟨demoLeaf_swf _ (by decide), tsBlk3_swf, by decide, by decide, by decide, by decide⟩, by decide, by decide,
    by decide, by decide⟩
  refine ⟨by decide, by decide, by decide, by decide, by decide, by decide, ?_, ?_, he, hE.wf, hH.wf, hB.wf,
    by decide, by decide, by decide, by decide, by decide, by decide, by decide, by decide, by decide, ?_⟩
  · intro n hn
    have : n = 0 := by simpa [tsT, Node.nbrs] using hn
    subst this
    decide
  · intro n hn
    have : n = 3 := by simpa [tsX, Node.nbrs] using hn
    subst this
    decide
  · intro σ
    simp only [tsHeff, tsBlk3, lkBlk0, tsE, tsH, tsB, chKet, chOp, chBra, demoLeaf, Expr.leafProd, Expr.leaves, prodL,
      List.map_cons, List.map_nil, List.cons_append, List.nil_append, mul_one]
    ring

/-! ### `link_heff_projected_tree`: the chain 0 — 1 — 2 (root 0), link on the LOWER edge 1 — 2: the block from 1 is the
top-down block `contract_any(1, 2)` (it contains the block from 0), the block from 2 is `contract_leaf` -/

def lk2Blk2 : Expr Leg Int :=
  Expr.dot (Expr.dot (chKet 2 ⟨some 1, []⟩) (chOp 2 ⟨some 1, []⟩) [physIn 2]) (chBra 2 ⟨some 1, []⟩) [physOut 2]
/-- the program of `_get_effective_link_hamiltonian` on top of the two block programs -/
def lk2Heff : Expr Leg Int := Expr.dot chBlk1 lk2Blk2 [(Leg.gOp 1 2, Leg.gOp 2 1)]
/-- the whole ket / bra network with the bond 1 — 2 opened -/
def lk2E : Expr Leg Int := Expr.dot chE (chKet 2 ⟨some 1, []⟩) []
def lk2B : Expr Leg Int := Expr.dot chB (chBra 2 ⟨some 1, []⟩) []
def lk2Cache : Dict := fun k =>
  if k = (1, 2) then some (gBlock 1 2 chCtx.blockBinds)
  else if k = (2, 1) then some (soBlock (Tree.node 2 []) 1) else none

theorem lk2Blk2_swf : lk2Blk2.SWF := by
  refine ⟨⟨demoLeaf_swf _ ?_, demoLeaf_swf _ ?_, ?_, ?_, ?_, ?_⟩, demoLeaf_swf _ ?_, ?_, ?_, ?_, ?_⟩ <;> decide

/-- `Ctx.exists_ctx_edge`: the edge 1 — 2 of the chain is the edge into the hole of a frame -/
example : ∃ (ls rs : List Tree) (up : Ctx) (ks : List Tree),
    Tree.node 0 [Tree.node 1 [Tree.node 2 []]] = (Ctx.frame 1 ls rs up).plug (Tree.node 2 ks) :=
  Ctx.exists_ctx_edge _ 1 2 (by decide)

/-- every hypothesis of `link_heff_projected_tree` (`c = chCtx`, `p = 1`, `t = node 2 []`), all dimensions 2 -/
example : chCtx.parent = some 1 ∧ (chCtx.plug (Tree.node 2 [])).ids.Nodup ∧
    lk2Cache (1, (Tree.node 2 []).id) = some (gBlock 1 (Tree.node 2 []).id chCtx.blockBinds) ∧
    lk2Cache ((Tree.node 2 []).id, 1) = some (soBlock (Tree.node 2 []) 1) ∧
    lk2Heff.SWF ∧ lk2E.WF ∧ chH.WF ∧ lk2B.WF ∧
    (∀ l ∈ lk2E.labels, l ∉ chH.labels) ∧ (∀ l ∈ lk2E.labels, l ∉ lk2B.labels) ∧
    (∀ l ∈ chH.labels, l ∉ lk2B.labels) ∧
    lk2Heff.binds.Perm (chCtx.blockBinds ++ soBlockBinds (Tree.node 2 []) ++ [(Leg.gOp 1 2, Leg.gOp 2 1)]) ∧
    (unordL lk2E.binds).Perm
      (unordL ((chCtx.compEdges ++ (Tree.node 2 []).edges).map fun e => ketEdge e.1 e.2)) ∧
    (unordL chH.binds).Perm (unordL ((chCtx.plug (Tree.node 2 [])).edges.map fun e => opEdge e.1 e.2)) ∧
    (unordL lk2B.binds).Perm
      (unordL ((chCtx.compEdges ++ (Tree.node 2 []).edges).map fun e => braEdge e.1 e.2)) ∧
    (∀ n ∈ chCtx.ids ++ (Tree.node 2 []).ids, Leg.gKetPhys n ∈ lk2E.free ∧ Leg.gOpIn n ∈ chH.free ∧
      Leg.gOpOut n ∈ chH.free ∧ Leg.gBraPhys n ∈ lk2B.free) ∧
    (∀ σ, lk2Heff.leafProd σ = lk2E.leafProd σ * chH.leafProd σ * lk2B.leafProd σ) := by
  have hW : chW2.SWF := demoLeaf_swf _ (by decide)
  have hE0 : chE.SWF := ⟨demoLeaf_swf _ (by decide), demoLeaf_swf _ (by decide), by decide, by decide, by decide,
    by decide⟩
  have hB0 : chB.SWF := ⟨demoLeaf_swf _ (by decide), demoLeaf_swf _ (by decide), by decide, by decide, by decide,
    by decide⟩
  have hE : lk2E.SWF := ⟨hE0, demoLeaf_swf _ (by decide), by decide, by decide, by decide, by decide⟩
  have hB : lk2B.SWF := ⟨hB0, demoLeaf_swf _ (by decide), by decide, by decide, by decide, by decide⟩
  have hH : chH.SWF := ⟨⟨demoLeaf_swf _ (by decide), demoLeaf_swf _ (by decide), by decide, by decide, by decide,
    by decide⟩, hW, by decide, by decide, by decide, by decide⟩
  have he : lk2Heff.SWF := ⟨chBlk1_swf, lk2Blk2_swf, by decide, by decide, by decide, by decide⟩
  refine ⟨rfl, by decide, by decide, by decide, he, hE.wf, hH.wf, hB.wf, by decide, by decide, by decide, by decide,
    by decide, by decide, by decide, by decide, ?_⟩
  intro σ
  simp only [lk2Heff, lk2Blk2, lk2E, lk2B, chBlk1, chBlk0, lkBlk0, chW2, chE, chH, chB, chKet, chOp, chBra, demoLeaf,
    Expr.leafProd, Expr.leaves, prodL, List.map_cons, List.map_nil, List.cons_append, List.nil_append, mul_one]
  ring

/-! ### `two_site_heff_projected_tree` / `two_site_heff_projected_tree_up`: the chain 0 — 1 — 2 — 3, pair 1 — 2
(`up = frame 0 [] [] root`, `a = 1`, `b = 2`, `ks = [node 3 []]`); the programs `tsHeff`, `tsE`, `tsH`, `tsB` above -/

def tsUp : Ctx := .frame 0 [] [] .root
def tsCache : Dict := fun k =>
  if k = (0, 1) then some (gBlock 0 1 tsUp.blockBinds) else soKidBlock [Tree.node 3 []] 2 k

/-- the model's answers for both orders of the pair -/
example : getEffectiveTwoSiteHamiltonian ⟨tsUp.parent, [2]⟩ ⟨some 1, [3]⟩ ⟨some 0, [3]⟩ (gOpT 1 ⟨tsUp.parent, [2]⟩)
      (gOpT 2 ⟨some 1, [3]⟩) 1 2 tsCache =
      some ⟨[.gBra 0 1, .gBra 3 2, .gOpOut 1, .gOpOut 2], [.gKet 0 1, .gKet 3 2, .gOpIn 1, .gOpIn 2],
        [physIn 0, physOut 0, (.gOp 1 0, .gOp 0 1), physOut 3, physIn 3, (.gOp 2 3, .gOp 3 2), (.gOp 1 2, .gOp 2 1)]⟩ ∧
    getEffectiveTwoSiteHamiltonian ⟨some 1, [3]⟩ ⟨tsUp.parent, [2]⟩ ⟨some 0, [3]⟩ (gOpT 2 ⟨some 1, [3]⟩)
      (gOpT 1 ⟨tsUp.parent, [2]⟩) 2 1 tsCache =
      some ⟨[.gBra 0 1, .gBra 3 2, .gOpOut 2, .gOpOut 1], [.gKet 0 1, .gKet 3 2, .gOpIn 2, .gOpIn 1],
        [physOut 3, physIn 3, (.gOp 2 3, .gOp 3 2), physIn 0, physOut 0, (.gOp 1 0, .gOp 0 1), (.gOp 2 1, .gOp 1 2)]⟩ := by
  decide

/-- every hypothesis of `two_site_heff_projected_tree` (and of `…_up`: the same list), all dimensions 2 -/
example : ((Ctx.frame 1 [] [] tsUp).plug (Tree.node 2 [Tree.node 3 []])).ids.Nodup ∧
    ([2] : List Nat).Perm (([] : List Tree).map Tree.id ++ 2 :: ([] : List Tree).map Tree.id) ∧
    ([3] : List Nat).Perm ([Tree.node 3 []].map Tree.id) ∧
    (Node.mk (some 0) [3]).nbrs.Perm (tsUp.parent.toList ++ ((([] : List Tree) ++ []) ++ [Tree.node 3 []]).map Tree.id) ∧
    (∀ q, tsUp.parent = some q → tsCache (q, 1) = some (gBlock q 1 tsUp.blockBinds)) ∧
    (∀ n ∈ (([] : List Tree) ++ []).map Tree.id, tsCache (n, 1) = soKidBlock ([] ++ []) 1 (n, 1)) ∧
    (∀ n ∈ [Tree.node 3 []].map Tree.id, tsCache (n, 2) = soKidBlock [Tree.node 3 []] 2 (n, 2)) ∧
    tsHeff.SWF ∧ tsE.WF ∧ tsH.WF ∧ tsB.WF ∧
    (∀ l ∈ tsE.labels, l ∉ tsH.labels) ∧ (∀ l ∈ tsE.labels, l ∉ tsB.labels) ∧ (∀ l ∈ tsH.labels, l ∉ tsB.labels) ∧
    tsHeff.binds.Perm [physIn 0, physOut 0, (.gOp 1 0, .gOp 0 1), physOut 3, physIn 3, (.gOp 2 3, .gOp 3 2),
      (.gOp 1 2, .gOp 2 1)] ∧
    (unordL tsE.binds).Perm (unordL ((tsUp.compEdges ++ ((([] : List Tree) ++ []) ++ [Tree.node 3 []]).flatMap
      Tree.edges).map fun e => ketEdge e.1 e.2)) ∧
    (unordL tsH.binds).Perm (unordL (((Ctx.frame 1 [] [] tsUp).plug (Tree.node 2 [Tree.node 3 []])).edges.map
      fun e => opEdge e.1 e.2)) ∧
    (unordL tsB.binds).Perm (unordL ((tsUp.compEdges ++ ((([] : List Tree) ++ []) ++ [Tree.node 3 []]).flatMap
      Tree.edges).map fun e => braEdge e.1 e.2)) ∧
    (∀ n ∈ tsUp.ids ++ Tree.idsL ((([] : List Tree) ++ []) ++ [Tree.node 3 []]), Leg.gKetPhys n ∈ tsE.free ∧
      Leg.gOpIn n ∈ tsH.free ∧ Leg.gOpOut n ∈ tsH.free ∧ Leg.gBraPhys n ∈ tsB.free) := by
  have hE : tsE.SWF := ⟨demoLeaf_swf _ (by decide), demoLeaf_swf _ (by decide), by decide, by decide, by decide,
    by decide⟩
  have hB : tsB.SWF := ⟨demoLeaf_swf _ (by decide), demoLeaf_swf _ (by decide), by decide, by decide, by decide,
    by decide⟩
  have hH : tsH.SWF := ⟨⟨⟨demoLeaf_swf _ (by decide), demoLeaf_swf _ (by decide), by decide, by decide, by decide,
    by decide⟩, demoLeaf_swf _ (by decide), by decide, by decide, by decide, by decide⟩, demoLeaf_swf _ (by decide),
    by decide, by decide, by decide, by decide⟩
  have he : tsHeff.SWF := ⟨⟨demoLeaf_swf _ (by decide), lkBlk0_swf, by decide, by decide, by decide, by decide⟩,
    ⟨demoLeaf_swf _ (by decide), tsBlk3_swf, by decide, by decide, by decide, by decide⟩, by decide, by decide,
    by decide, by decide⟩
  refine ⟨by decide, by decide, by decide, by decide, ?_, by simp, ?_, he, hE.wf, hH.wf, hB.wf, by decide, by decide,
    by decide, by decide, by decide, by decide, by decide, by decide⟩
  · intro q hq
    have : q = 0 := by simpa [tsUp, Ctx.parent] using hq.symm
    subst this
    rfl
  · intro n hn
    have : n = 3 := by simpa [Tree.id] using hn
    subst this
    rfl

/-! ### `site_heff_whole_program` (with `Ctx.ctx_block_built`, `soBlock_built_free`): the chain 0 — 1 — 2, site 2;
the node tensors are `demoT` of their own legs, the operator nodes use the state's child orders -/

def chNode (n : Nat) : Node := if n = 0 then ⟨none, [1]⟩ else if n = 1 then ⟨some 0, [2]⟩ else ⟨some 1, []⟩
def chOpKids (n : Nat) : List Nat := (chNode n).children
def chKv (n : Nat) : Asg Leg → Int := demoT (gKetT n (chNode n)).legs
def chOv (n : Nat) : Asg Leg → Int := demoT (gOpT n (chNode n)).legs
def chBv (n : Nat) : Asg Leg → Int := demoT (gBraT n (chNode n)).legs

theorem chInfo (e : Nat × Option Nat × List Nat) (he : e ∈ Tree.info none (chCtx.plug (Tree.node 2 []))) :
    e = (0, none, [1]) ∨ e = (1, some 0, [2]) ∨ e = (2, some 1, []) := by
  simpa [chCtx, Ctx.plug, Tree.info, Tree.infoL, Tree.id] using he

/-- every hypothesis of `site_heff_whole_program` for the leaf 2 of the chain (the theorem then provides the built
program itself), and a split `chE`, `chH`, `chB` of its leaves with the hypotheses of the value clause -/
example : (chCtx.plug (Tree.node 2 [])).ids.Nodup ∧
    (∀ e ∈ Tree.info none (chCtx.plug (Tree.node 2 [])), (chOpKids e.1).Perm e.2.2) ∧
    KetLocal chKv (chCtx.plug (Tree.node 2 [])) ∧ OpLocalK chOv chOpKids (chCtx.plug (Tree.node 2 [])) ∧
    BraLocalK chBv (chCtx.plug (Tree.node 2 [])) ∧
    chE.WF ∧ chH.WF ∧ chB.WF ∧
    (chE.leaves ++ (chH.leaves ++ chB.leaves)).Perm (wholeLeaves chOpKids chKv chOv chBv chCtx 2 []) ∧
    (unordL chE.binds).Perm
      (unordL ((chCtx.compEdges ++ ([] : List Tree).flatMap Tree.edges).map fun e => ketEdge e.1 e.2)) ∧
    (unordL chH.binds).Perm (unordL ((chCtx.plug (Tree.node 2 [])).edges.map fun e => opEdge e.1 e.2)) ∧
    (unordL chB.binds).Perm
      (unordL ((chCtx.compEdges ++ ([] : List Tree).flatMap Tree.edges).map fun e => braEdge e.1 e.2)) ∧
    (∀ n ∈ chCtx.ids ++ Tree.idsL [], Leg.gKetPhys n ∈ chE.free ∧ Leg.gOpIn n ∈ chH.free ∧
      Leg.gOpOut n ∈ chH.free ∧ Leg.gBraPhys n ∈ chB.free) := by
  have hW : chW2.SWF := demoLeaf_swf _ (by decide)
  have hE : chE.SWF := ⟨demoLeaf_swf _ (by decide), demoLeaf_swf _ (by decide), by decide, by decide, by decide,
    by decide⟩
  have hB : chB.SWF := ⟨demoLeaf_swf _ (by decide), demoLeaf_swf _ (by decide), by decide, by decide, by decide,
    by decide⟩
  have hH : chH.SWF := ⟨⟨demoLeaf_swf _ (by decide), demoLeaf_swf _ (by decide), by decide, by decide, by decide,
    by decide⟩, hW, by decide, by decide, by decide, by decide⟩
  refine ⟨by decide, ?_, ?_, ?_, ?_, hE.wf, hH.wf, hB.wf, ?_, by decide, by decide, by decide, by decide⟩
  · intro e he
    rcases chInfo e he with rfl | rfl | rfl <;> decide
  · intro e he
    rcases chInfo e he with rfl | rfl | rfl <;> exact demoT_local _
  · intro e he
    rcases chInfo e he with rfl | rfl | rfl <;> exact demoT_local _
  · intro e he
    rcases chInfo e he with rfl | rfl | rfl <;> exact demoT_local _
  · have h1 : chE.leaves ++ (chH.leaves ++ chB.leaves) =
        [((gKetT 0 (chNode 0)).legs, chKv 0), ((gKetT 1 (chNode 1)).legs, chKv 1),
         ((gOpT 0 (chNode 0)).legs, chOv 0), ((gOpT 1 (chNode 1)).legs, chOv 1), ((gOpT 2 (chNode 2)).legs, chOv 2),
         ((gBraT 0 (chNode 0)).legs, chBv 0), ((gBraT 1 (chNode 1)).legs, chBv 1)] := rfl
    have h2 : wholeLeaves chOpKids chKv chOv chBv chCtx 2 [] =
        [((gOpT 2 (chNode 2)).legs, chOv 2),
         ((gKetT 1 (chNode 1)).legs, chKv 1), ((gOpT 1 (chNode 1)).legs, chOv 1), ((gBraT 1 (chNode 1)).legs, chBv 1),
         ((gKetT 0 (chNode 0)).legs, chKv 0), ((gOpT 0 (chNode 0)).legs, chOv 0),
         ((gBraT 0 (chNode 0)).legs, chBv 0)] := rfl
    rw [h1, h2]
    classical
    rw [List.perm_iff_count]
    intro z
    simp only [List.count_cons, List.count_nil]
    omega

/-! ### `site_heff_eq_projected` (builder B48): the chain 0 — 1 — 2 with the node tensors above; the theorem is APPLIED —
all its hypotheses hold — once for the leaf 2 (context of depth 2) and once for the inner node 1 (one ancestor, one
child subtree); the dimensions are 2 on every leg.  The canonical `envKet`, `opAll`, `envBra` replace the split. -/

example : ∃ m : Mat, getEffectiveSingleSiteHamiltonianNodes ⟨chCtx.parent, ([] : List Tree).map Tree.id⟩
      ⟨chCtx.parent, chOpKids 2⟩ (gOpT 2 ⟨chCtx.parent, chOpKids 2⟩) (siteCache chCtx [] 2) = some m ∧
    ∀ e : Expr Leg Int, Built m.toT e → e.leaves.Perm (wholeLeaves chOpKids chKv chOv chBv chCtx 2 []) →
      ∀ σ, e.eval (fun _ => 2) σ =
        sumPairs (fun _ => 2) ((chCtx.ids ++ Tree.idsL []).map physOut)
          (fun τ => sumPairs (fun _ => 2) ((chCtx.ids ++ Tree.idsL []).map physIn)
            (fun ρ => (envKet chKv chCtx 2 []).eval (fun _ => 2) ρ *
              (opAll chOv chOpKids (chCtx.plug (Tree.node 2 []))).eval (fun _ => 2) ρ) τ *
            (envBra chBv chCtx 2 []).eval (fun _ => 2) τ) σ := by
  obtain ⟨_, _, _, _, _, _, _, _, _, _, m, hm, _, _, _, hall⟩ := site_heff_eq_projected chCtx 2 [] (by decide) chOpKids
    (fun e he => by rcases chInfo e he with rfl | rfl | rfl <;> decide) chKv chOv chBv
    (fun e he => by rcases chInfo e he with rfl | rfl | rfl <;> exact demoT_local _)
    (fun e he => by rcases chInfo e he with rfl | rfl | rfl <;> exact demoT_local _)
    (fun e he => by rcases chInfo e he with rfl | rfl | rfl <;> exact demoT_local _)
  exact ⟨m, hm, fun e hbe hl σ => (hall e hbe hl).2.2.2 (fun _ => 2) (fun _ _ => rfl) σ⟩

example : ∃ m : Mat, getEffectiveSingleSiteHamiltonianNodes
      ⟨(Ctx.frame 0 [] [] Ctx.root).parent, [Tree.node 2 []].map Tree.id⟩
      ⟨(Ctx.frame 0 [] [] Ctx.root).parent, chOpKids 1⟩ (gOpT 1 ⟨(Ctx.frame 0 [] [] Ctx.root).parent, chOpKids 1⟩)
      (siteCache (Ctx.frame 0 [] [] Ctx.root) [Tree.node 2 []] 1) = some m ∧
    ∀ e : Expr Leg Int, Built m.toT e →
      e.leaves.Perm (wholeLeaves chOpKids chKv chOv chBv (Ctx.frame 0 [] [] Ctx.root) 1 [Tree.node 2 []]) →
      ∀ σ, e.eval (fun _ => 2) σ =
        sumPairs (fun _ => 2) (((Ctx.frame 0 [] [] Ctx.root).ids ++ Tree.idsL [Tree.node 2 []]).map physOut)
          (fun τ => sumPairs (fun _ => 2)
            (((Ctx.frame 0 [] [] Ctx.root).ids ++ Tree.idsL [Tree.node 2 []]).map physIn)
            (fun ρ => (envKet chKv (Ctx.frame 0 [] [] Ctx.root) 1 [Tree.node 2 []]).eval (fun _ => 2) ρ *
              (opAll chOv chOpKids ((Ctx.frame 0 [] [] Ctx.root).plug (Tree.node 1 [Tree.node 2 []]))).eval
                (fun _ => 2) ρ) τ *
            (envBra chBv (Ctx.frame 0 [] [] Ctx.root) 1 [Tree.node 2 []]).eval (fun _ => 2) τ) σ := by
  have hI : ∀ e ∈ Tree.info none ((Ctx.frame 0 [] [] Ctx.root).plug (Tree.node 1 [Tree.node 2 []])),
      e = (0, none, [1]) ∨ e = (1, some 0, [2]) ∨ e = (2, some 1, []) := fun e he => by
    simpa [Ctx.plug, Tree.info, Tree.infoL, Tree.id] using he
  obtain ⟨_, _, _, _, _, _, _, _, _, _, m, hm, _, _, _, hall⟩ := site_heff_eq_projected (Ctx.frame 0 [] [] Ctx.root) 1
    [Tree.node 2 []] (by decide) chOpKids
    (fun e he => by rcases hI e he with rfl | rfl | rfl <;> decide) chKv chOv chBv
    (fun e he => by rcases hI e he with rfl | rfl | rfl <;> exact demoT_local _)
    (fun e he => by rcases hI e he with rfl | rfl | rfl <;> exact demoT_local _)
    (fun e he => by rcases hI e he with rfl | rfl | rfl <;> exact demoT_local _)
  exact ⟨m, hm, fun e hbe hl σ => (hall e hbe hl).2.2.2 (fun _ => 2) (fun _ _ => rfl) σ⟩

/-! ### `link_heff_whole_program` (builder B47): the chain 0 — 1 — 2, link on the LOWER edge 1 — 2; node tensors, cache and
the split `lk2E`, `chH`, `lk2B` as above — the leaves of the split are exactly `linkLeaves` (ALL node tensors) -/

/-- every hypothesis of `link_heff_whole_program` (`c = chCtx`, `p = 1`, `t = node 2 []`) and of its value clause -/
example : chCtx.parent = some 1 ∧ (chCtx.plug (Tree.node 2 [])).ids.Nodup ∧
    (∀ e ∈ Tree.info none (chCtx.plug (Tree.node 2 [])), (chOpKids e.1).Perm e.2.2) ∧
    KetLocal chKv (chCtx.plug (Tree.node 2 [])) ∧ OpLocalK chOv chOpKids (chCtx.plug (Tree.node 2 [])) ∧
    BraLocalK chBv (chCtx.plug (Tree.node 2 [])) ∧
    lk2Cache (1, (Tree.node 2 []).id) = some (gBlock 1 (Tree.node 2 []).id chCtx.blockBinds) ∧
    lk2Cache ((Tree.node 2 []).id, 1) = some (soBlock (Tree.node 2 []) 1) ∧
    lk2E.WF ∧ chH.WF ∧ lk2B.WF ∧
    (lk2E.leaves ++ (chH.leaves ++ lk2B.leaves)).Perm (linkLeaves chOpKids chKv chOv chBv chCtx (Tree.node 2 [])) ∧
    (unordL lk2E.binds).Perm
      (unordL ((chCtx.compEdges ++ (Tree.node 2 []).edges).map fun e => ketEdge e.1 e.2)) ∧
    (unordL chH.binds).Perm (unordL ((chCtx.plug (Tree.node 2 [])).edges.map fun e => opEdge e.1 e.2)) ∧
    (unordL lk2B.binds).Perm
      (unordL ((chCtx.compEdges ++ (Tree.node 2 []).edges).map fun e => braEdge e.1 e.2)) ∧
    (∀ n ∈ chCtx.ids ++ (Tree.node 2 []).ids, Leg.gKetPhys n ∈ lk2E.free ∧ Leg.gOpIn n ∈ chH.free ∧
      Leg.gOpOut n ∈ chH.free ∧ Leg.gBraPhys n ∈ lk2B.free) := by
  have hW : chW2.SWF := demoLeaf_swf _ (by decide)
  have hE0 : chE.SWF := ⟨demoLeaf_swf _ (by decide), demoLeaf_swf _ (by decide), by decide, by decide, by decide,
    by decide⟩
  have hB0 : chB.SWF := ⟨demoLeaf_swf _ (by decide), demoLeaf_swf _ (by decide), by decide, by decide, by decide,
    by decide⟩
  have hE : lk2E.SWF := ⟨hE0, demoLeaf_swf _ (by decide), by decide, by decide, by decide, by decide⟩
  have hB : lk2B.SWF := ⟨hB0, demoLeaf_swf _ (by decide), by decide, by decide, by decide, by decide⟩
  have hH : chH.SWF := ⟨⟨demoLeaf_swf _ (by decide), demoLeaf_swf _ (by decide), by decide, by decide, by decide,
    by decide⟩, hW, by decide, by decide, by decide, by decide⟩
  refine ⟨rfl, by decide, ?_, ?_, ?_, ?_, by decide, by decide, hE.wf, hH.wf, hB.wf, ?_, by decide, by decide,
    by decide, by decide⟩
  · intro e he
    rcases chInfo e he with rfl | rfl | rfl <;> decide
  · intro e he
    rcases chInfo e he with rfl | rfl | rfl <;> exact demoT_local _
  · intro e he
    rcases chInfo e he with rfl | rfl | rfl <;> exact demoT_local _
  · intro e he
    rcases chInfo e he with rfl | rfl | rfl <;> exact demoT_local _
  · have h1 : lk2E.leaves ++ (chH.leaves ++ lk2B.leaves) =
        [((gKetT 0 (chNode 0)).legs, chKv 0), ((gKetT 1 (chNode 1)).legs, chKv 1), ((gKetT 2 (chNode 2)).legs, chKv 2),
         ((gOpT 0 (chNode 0)).legs, chOv 0), ((gOpT 1 (chNode 1)).legs, chOv 1), ((gOpT 2 (chNode 2)).legs, chOv 2),
         ((gBraT 0 (chNode 0)).legs, chBv 0), ((gBraT 1 (chNode 1)).legs, chBv 1),
         ((gBraT 2 (chNode 2)).legs, chBv 2)] := rfl
    have h2 : linkLeaves chOpKids chKv chOv chBv chCtx (Tree.node 2 []) =
        [((gKetT 1 (chNode 1)).legs, chKv 1), ((gOpT 1 (chNode 1)).legs, chOv 1), ((gBraT 1 (chNode 1)).legs, chBv 1),
         ((gKetT 0 (chNode 0)).legs, chKv 0), ((gOpT 0 (chNode 0)).legs, chOv 0), ((gBraT 0 (chNode 0)).legs, chBv 0),
         ((gKetT 2 (chNode 2)).legs, chKv 2), ((gOpT 2 (chNode 2)).legs, chOv 2),
         ((gBraT 2 (chNode 2)).legs, chBv 2)] := rfl
    rw [h1, h2]
    classical
    rw [List.perm_iff_count]
    intro z
    simp only [List.count_cons, List.count_nil]
    omega

/-! ### `two_site_heff_whole_program` / `…_up` (builder B47): the chain 0 — 1 — 2 — 3, pair 1 — 2, cache `tsCache`; the split
`tsE`, `tsH`, `tsB` consists of exactly `pairLeaves` (all operator tensors, ket / bra tensors of the nodes 0 and 3) -/

def ts4Node (n : Nat) : Node :=
  if n = 0 then ⟨none, [1]⟩ else if n = 1 then ⟨some 0, [2]⟩ else if n = 2 then ⟨some 1, [3]⟩ else ⟨some 2, []⟩
def ts4OpKids (n : Nat) : List Nat := (ts4Node n).children
def ts4Kv (n : Nat) : Asg Leg → Int := demoT (gKetT n (ts4Node n)).legs
def ts4Ov (n : Nat) : Asg Leg → Int := demoT (gOpT n (ts4Node n)).legs
def ts4Bv (n : Nat) : Asg Leg → Int := demoT (gBraT n (ts4Node n)).legs

theorem ts4Info (e : Nat × Option Nat × List Nat)
    (he : e ∈ Tree.info none ((Ctx.frame 1 [] [] tsUp).plug (Tree.node 2 [Tree.node 3 []]))) :
    e = (0, none, [1]) ∨ e = (1, some 0, [2]) ∨ e = (2, some 1, [3]) ∨ e = (3, some 2, []) := by
  simpa [tsUp, Ctx.plug, Tree.info, Tree.infoL, Tree.id] using he

/-- the hypotheses of `two_site_heff_whole_program` (and of `…_up`) that are new with respect to
`two_site_heff_projected_tree` (whose hypotheses are shown above), and the split of the value clause -/
example : (∀ e ∈ Tree.info none ((Ctx.frame 1 [] [] tsUp).plug (Tree.node 2 [Tree.node 3 []])),
      (ts4OpKids e.1).Perm e.2.2) ∧
    KetLocal ts4Kv ((Ctx.frame 1 [] [] tsUp).plug (Tree.node 2 [Tree.node 3 []])) ∧
    OpLocalK ts4Ov ts4OpKids ((Ctx.frame 1 [] [] tsUp).plug (Tree.node 2 [Tree.node 3 []])) ∧
    BraLocalK ts4Bv ((Ctx.frame 1 [] [] tsUp).plug (Tree.node 2 [Tree.node 3 []])) ∧
    ts4OpKids 1 = [2] ∧ ts4OpKids 2 = [3] ∧
    (tsE.leaves ++ (tsH.leaves ++ tsB.leaves)).Perm
      (pairLeaves ts4OpKids ts4Kv ts4Ov ts4Bv tsUp 1 2 [] [] [Tree.node 3 []]) := by
  refine ⟨?_, ?_, ?_, ?_, rfl, rfl, ?_⟩
  · intro e he
    rcases ts4Info e he with rfl | rfl | rfl | rfl <;> decide
  · intro e he
    rcases ts4Info e he with rfl | rfl | rfl | rfl <;> exact demoT_local _
  · intro e he
    rcases ts4Info e he with rfl | rfl | rfl | rfl <;> exact demoT_local _
  · intro e he
    rcases ts4Info e he with rfl | rfl | rfl | rfl <;> exact demoT_local _
  · have h1 : tsE.leaves ++ (tsH.leaves ++ tsB.leaves) =
        [((gKetT 0 (ts4Node 0)).legs, ts4Kv 0), ((gKetT 3 (ts4Node 3)).legs, ts4Kv 3),
         ((gOpT 0 (ts4Node 0)).legs, ts4Ov 0), ((gOpT 1 (ts4Node 1)).legs, ts4Ov 1),
         ((gOpT 2 (ts4Node 2)).legs, ts4Ov 2), ((gOpT 3 (ts4Node 3)).legs, ts4Ov 3),
         ((gBraT 0 (ts4Node 0)).legs, ts4Bv 0), ((gBraT 3 (ts4Node 3)).legs, ts4Bv 3)] := rfl
    have h2 : pairLeaves ts4OpKids ts4Kv ts4Ov ts4Bv tsUp 1 2 [] [] [Tree.node 3 []] =
        [((gOpT 1 (ts4Node 1)).legs, ts4Ov 1), ((gOpT 2 (ts4Node 2)).legs, ts4Ov 2),
         ((gKetT 0 (ts4Node 0)).legs, ts4Kv 0), ((gOpT 0 (ts4Node 0)).legs, ts4Ov 0),
         ((gBraT 0 (ts4Node 0)).legs, ts4Bv 0),
         ((gKetT 3 (ts4Node 3)).legs, ts4Kv 3), ((gOpT 3 (ts4Node 3)).legs, ts4Ov 3),
         ((gBraT 3 (ts4Node 3)).legs, ts4Bv 3)] := rfl
    rw [h1, h2]
    classical
    rw [List.perm_iff_count]
    intro z
    simp only [List.count_cons, List.count_nil]
    omega

/-! ### `link_heff_eq_projected` (builder B63): the chain 0 — 1 — 2, link on the LOWER edge 1 — 2, node tensors and cache
`lk2Cache` as above; the theorem is APPLIED — all its hypotheses hold — and the canonical `linkEnvKet`, `opAll`,
`linkEnvBra` replace the split `lk2E`, `chH`, `lk2B`; the dimensions are 2 on every leg. -/

example : ∃ m : Mat, getEffectiveLinkHamiltonian ⟨some 1, [(Tree.node 2 []).id]⟩ (Tree.node 2 []).id 1 lk2Cache = some m ∧
    getEffectiveLinkHamiltonian ⟨some 1, [(Tree.node 2 []).id]⟩ 1 (Tree.node 2 []).id lk2Cache = some m ∧
    ∀ e : Expr Leg Int, Built m.toT e →
      e.leaves.Perm (linkLeaves chOpKids chKv chOv chBv chCtx (Tree.node 2 [])) →
      ∀ σ, e.eval (fun _ => 2) σ =
        sumPairs (fun _ => 2) ((chCtx.ids ++ (Tree.node 2 []).ids).map physOut)
          (fun τ => sumPairs (fun _ => 2) ((chCtx.ids ++ (Tree.node 2 []).ids).map physIn)
            (fun ρ => (linkEnvKet chKv chCtx (Tree.node 2 [])).eval (fun _ => 2) ρ *
              (opAll chOv chOpKids (chCtx.plug (Tree.node 2 []))).eval (fun _ => 2) ρ) τ *
            (linkEnvBra chBv chCtx (Tree.node 2 [])).eval (fun _ => 2) τ) σ := by
  obtain ⟨_, _, _, _, _, _, _, _, _, _, m, hm1, hm2, _, _, _, hall⟩ := link_heff_eq_projected chCtx 1 rfl (Tree.node 2 [])
    (by decide) chOpKids
    (fun e he => by rcases chInfo e he with rfl | rfl | rfl <;> decide) chKv chOv chBv
    (fun e he => by rcases chInfo e he with rfl | rfl | rfl <;> exact demoT_local _)
    (fun e he => by rcases chInfo e he with rfl | rfl | rfl <;> exact demoT_local _)
    (fun e he => by rcases chInfo e he with rfl | rfl | rfl <;> exact demoT_local _)
    lk2Cache (by decide) (by decide)
  exact ⟨m, hm1, hm2, fun e hbe hl σ => (hall e hbe hl).2.2.2 (fun _ => 2) (fun _ _ => rfl) σ⟩

/-! ### `two_site_heff_eq_projected` / `…_up` (builder B63): the chain 0 — 1 — 2 — 3, pair 1 — 2, node tensors `ts4Kv/Ov/Bv`,
cache `tsCache`; both theorems are APPLIED — all hypotheses hold — and the canonical `pairEnvKet`, `opAll`, `pairEnvBra`
replace the split `tsE`, `tsH`, `tsB`; the dimensions are 2 on every leg. -/

example : ∃ m : Mat, getEffectiveTwoSiteHamiltonian ⟨tsUp.parent, ts4OpKids 1⟩ ⟨some 1, ts4OpKids 2⟩ ⟨some 0, [3]⟩
      (gOpT 1 ⟨tsUp.parent, ts4OpKids 1⟩) (gOpT 2 ⟨some 1, ts4OpKids 2⟩) 1 2 tsCache = some m ∧
    ∀ e : Expr Leg Int, Built m.toT e →
      e.leaves.Perm (pairLeaves ts4OpKids ts4Kv ts4Ov ts4Bv tsUp 1 2 [] [] [Tree.node 3 []]) →
      ∀ σ, e.eval (fun _ => 2) σ =
        sumPairs (fun _ => 2) ((tsUp.ids ++ Tree.idsL ((([] : List Tree) ++ []) ++ [Tree.node 3 []])).map physOut)
          (fun τ => sumPairs (fun _ => 2) ((tsUp.ids ++ Tree.idsL ((([] : List Tree) ++ []) ++ [Tree.node 3 []])).map physIn)
            (fun ρ => (pairEnvKet ts4Kv tsUp 1 2 [] [] [Tree.node 3 []]).eval (fun _ => 2) ρ *
              (opAll ts4Ov ts4OpKids ((Ctx.frame 1 [] [] tsUp).plug (Tree.node 2 [Tree.node 3 []]))).eval (fun _ => 2) ρ) τ *
            (pairEnvBra ts4Bv tsUp 1 2 [] [] [Tree.node 3 []]).eval (fun _ => 2) τ) σ := by
  obtain ⟨_, _, _, _, _, _, _, _, _, _, m, hm, _, _, _, hall⟩ := two_site_heff_eq_projected tsUp 1 2 [] [] [Tree.node 3 []]
    (by decide) ts4OpKids
    (fun e he => by rcases ts4Info e he with rfl | rfl | rfl | rfl <;> decide) ts4Kv ts4Ov ts4Bv
    (fun e he => by rcases ts4Info e he with rfl | rfl | rfl | rfl <;> exact demoT_local _)
    (fun e he => by rcases ts4Info e he with rfl | rfl | rfl | rfl <;> exact demoT_local _)
    (fun e he => by rcases ts4Info e he with rfl | rfl | rfl | rfl <;> exact demoT_local _)
    ⟨some 0, [3]⟩ (by decide) tsCache
    (fun q hq => by
      have : q = 0 := by simpa [tsUp, Ctx.parent] using hq.symm
      subst this
      rfl)
    (by simp)
    (fun n hn => by
      have : n = 3 := by simpa [Tree.id] using hn
      subst this
      rfl)
  exact ⟨m, hm, fun e hbe hl σ => (hall e hbe hl).2.2.2 (fun _ => 2) (fun _ _ => rfl) σ⟩

example : ∃ m : Mat, getEffectiveTwoSiteHamiltonian ⟨some 1, ts4OpKids 2⟩ ⟨tsUp.parent, ts4OpKids 1⟩ ⟨some 0, [3]⟩
      (gOpT 2 ⟨some 1, ts4OpKids 2⟩) (gOpT 1 ⟨tsUp.parent, ts4OpKids 1⟩) 2 1 tsCache = some m ∧
    ∀ e : Expr Leg Int, Built m.toT e →
      e.leaves.Perm (pairLeaves ts4OpKids ts4Kv ts4Ov ts4Bv tsUp 1 2 [] [] [Tree.node 3 []]) →
      ∀ σ, e.eval (fun _ => 2) σ =
        sumPairs (fun _ => 2) ((tsUp.ids ++ Tree.idsL ((([] : List Tree) ++ []) ++ [Tree.node 3 []])).map physOut)
          (fun τ => sumPairs (fun _ => 2) ((tsUp.ids ++ Tree.idsL ((([] : List Tree) ++ []) ++ [Tree.node 3 []])).map physIn)
            (fun ρ => (pairEnvKet ts4Kv tsUp 1 2 [] [] [Tree.node 3 []]).eval (fun _ => 2) ρ *
              (opAll ts4Ov ts4OpKids ((Ctx.frame 1 [] [] tsUp).plug (Tree.node 2 [Tree.node 3 []]))).eval (fun _ => 2) ρ) τ *
            (pairEnvBra ts4Bv tsUp 1 2 [] [] [Tree.node 3 []]).eval (fun _ => 2) τ) σ := by
  obtain ⟨_, _, _, _, _, _, _, _, _, _, m, hm, _, _, _, hall⟩ := two_site_heff_eq_projected_up tsUp 1 2 [] [] [Tree.node 3 []]
    (by decide) ts4OpKids
    (fun e he => by rcases ts4Info e he with rfl | rfl | rfl | rfl <;> decide) ts4Kv ts4Ov ts4Bv
    (fun e he => by rcases ts4Info e he with rfl | rfl | rfl | rfl <;> exact demoT_local _)
    (fun e he => by rcases ts4Info e he with rfl | rfl | rfl | rfl <;> exact demoT_local _)
    (fun e he => by rcases ts4Info e he with rfl | rfl | rfl | rfl <;> exact demoT_local _)
    ⟨some 0, [3]⟩ (by decide) tsCache
    (fun q hq => by
      have : q = 0 := by simpa [tsUp, Ctx.parent] using hq.symm
      subst this
      rfl)
    (by simp)
    (fun n hn => by
      have : n = 3 := by simpa [Tree.id] using hn
      subst this
      rfl)
  exact ⟨m, hm, fun e hbe hl σ => (hall e hbe hl).2.2.2 (fun _ => 2) (fun _ _ => rfl) σ⟩

end Ptn.C05.Heff
