import Ptn.C05.DiscModel
import Ptn.C17.HopFacts
/-! Single events of the discipline machine preserve the invariant and read only fresh blocks. -/
namespace Ptn.C05.Disc
open Ptn.C17 Ptn.C17.RTree

theorem adjB_iff (t : RTree) (a b : Nat) : adjB t a b = true ↔ Adj t a b := by
  simp [adjB, mem_nbrsOf]

theorem mem_wrote {t : RTree} {v : Nat} {stale : List Block} {blk : Block} :
    blk ∈ wrote t v stale ↔ blk ∈ stale ∨ (blk ∈ blocks t ∧ away t v blk = true) := by
  simp [wrote, List.mem_filter]

/-- a block pointing toward `v` is not made stale by a write of `v` -/
theorem toward_not_away {t : RTree} (hwf : t.WF) {x v h : Nat} (hx : x ∈ ids t) (hv : v ∈ ids t)
    (hne : x ≠ v) (hh : firstHop t x v = some h) : away t v (x, h) = false := by
  have := toward_not_back hwf hx hv hne hh
  simp only [away, Bool.and_eq_false_iff]
  right
  simpa using this

/-- a block `(z, a)` is not made stale by a write of `a` -/
theorem input_not_away_self (t : RTree) (z a : Nat) : away t a (z, a) = false := by
  simp [away]

/-- a block `(z, a)`, `z ≠ b`, is not made stale by a write of the neighbour `b` of `a` -/
theorem input_not_away_nbr {t : RTree} (hwf : t.WF) {a b z : Nat} (hab : Adj t a b) (hz : z ≠ b) :
    away t b (z, a) = false := by
  simp only [away, Bool.and_eq_false_iff]
  right
  rw [firstHop_adj hwf hab]
  simpa using fun e => hz e.symm

/-- the state-independent part of the success of an event -/
theorem step_eq {t : RTree} {st : DSt} {e : DEv} (hpre : pre t st e = true)
    (hreads : ∀ blk ∈ reads t e, blk ∉ st.stale) : step t st e = some (apply t st e) := by
  have : (reads t e).all (fun blk => !st.stale.contains blk) = true := by
    rw [List.all_eq_true]
    intro blk hb
    simpa using hreads blk hb
  unfold step
  rw [hpre, this]
  rfl

/-- under the invariant the blocks `(z, c)` from the neighbours of the centre are fresh -/
theorem inv_nbr_fresh {t : RTree} (hwf : t.WF) {st : DSt} (hinv : Inv t st) {z : Nat}
    (hz : Adj t st.centre z) : (z, st.centre) ∉ st.stale := by
  have hm := adj_mem hz
  exact hinv z st.centre hm.2 (fun e => adj_ne hwf hz e.symm) (firstHop_adj hwf (adj_symm hz))

theorem mem_inputs {t : RTree} {a b : Nat} {blk : Block} (h : blk ∈ inputs t a b) :
    ∃ z, blk = (z, a) ∧ Adj t a z ∧ z ≠ b := by
  simp only [inputs, List.mem_map, List.mem_filter, mem_nbrsOf] at h
  obtain ⟨z, ⟨hz, hzb⟩, rfl⟩ := h
  exact ⟨z, rfl, hz, by simpa using hzb⟩

/-! ### single events -/

theorem site_ok {t : RTree} (hwf : t.WF) {st : DSt} (hinv : Inv t st) {v : Nat}
    (hc : st.centre = v) (hv : v ∈ ids t) :
    ∃ st', step t st (.site v) = some st' ∧ Inv t st' ∧ st'.centre = v := by
  refine ⟨apply t st (.site v), step_eq (by simp [pre, hc, hv]) ?_, ?_, rfl⟩
  · intro blk hb
    simp only [reads, List.mem_map, mem_nbrsOf] at hb
    obtain ⟨x, hx, rfl⟩ := hb
    exact hc ▸ inv_nbr_fresh hwf hinv (hc ▸ hx)
  · intro x h hx hxc hh
    simp only [apply] at hxc hh ⊢
    rw [mem_wrote]
    rintro (hs | ⟨_, ha⟩)
    · exact hinv x h hx (hc ▸ hxc) (hc ▸ hh) hs
    · rw [toward_not_away hwf hx hv hxc hh] at ha; simp at ha

/-- the invariant for the new centre `b` after the tensors of the neighbours `a` (old centre) and
    `b` were written and the block `(a, b)` was rebuilt -/
theorem inv_after_pair {t : RTree} (hwf : t.WF) {st : DSt} (hinv : Inv t st) {a b : Nat}
    (hc : st.centre = a) (hab : Adj t a b) {x h : Nat} (hx : x ∈ ids t) (hxb : x ≠ b)
    (hh : firstHop t x b = some h) (hne : (x, h) ≠ (a, b)) :
    (x, h) ∉ st.stale ∧ away t a (x, h) = false ∧ away t b (x, h) = false := by
  have hm := adj_mem hab
  have hxa : x ≠ a := by
    intro e; subst e
    rw [firstHop_adj hwf hab] at hh
    simp at hh; subst hh
    exact hne rfl
  have hha : firstHop t x a = some h := by rw [← firstHop_adj_same hwf hab hx hxa hxb]; exact hh
  exact ⟨hinv x h hx (hc ▸ hxa) (hc ▸ hha), toward_not_away hwf hx hm.1 hxa hha,
    toward_not_away hwf hx hm.2 hxb hh⟩

theorem move_ok {t : RTree} (hwf : t.WF) {st : DSt} (hinv : Inv t st) {a b : Nat}
    (hc : st.centre = a) (hab : Adj t a b) :
    ∃ st', step t st (.move a b) = some st' ∧ Inv t st' ∧ st'.centre = b := by
  refine ⟨apply t st (.move a b), step_eq (by simp [pre, hc, (adjB_iff t a b).mpr hab]) ?_, ?_, rfl⟩
  · intro blk hb
    obtain ⟨z, rfl, hz, _⟩ := mem_inputs hb
    exact hc ▸ inv_nbr_fresh hwf hinv (hc ▸ hz)
  · intro x h hx hxc hh
    simp only [apply] at hxc hh ⊢
    simp only [List.mem_filter, mem_wrote, not_and]
    intro hmem
    by_cases hne : (x, h) = (a, b)
    · simp [hne]
    · obtain ⟨h1, h2, h3⟩ := inv_after_pair hwf hinv hc hab hx hxc hh hne
      exfalso
      rcases hmem with (hs | ⟨_, ha⟩) | ⟨_, ha⟩
      · exact h1 hs
      · rw [h2] at ha; simp at ha
      · rw [h3] at ha; simp at ha

theorem two_ok {t : RTree} (hwf : t.WF) {st : DSt} (hinv : Inv t st) {a b : Nat}
    (hc : st.centre = a) (hab : Adj t a b) :
    ∃ st', step t st (.two a b) = some st' ∧ Inv t st' ∧ st'.centre = b := by
  have hm := adj_mem hab
  refine ⟨apply t st (.two a b), step_eq (by simp [pre, hc, (adjB_iff t a b).mpr hab]) ?_, ?_, rfl⟩
  · intro blk hb
    simp only [reads, List.mem_append] at hb
    rcases hb with hb | hb
    · obtain ⟨z, rfl, hz, _⟩ := mem_inputs hb
      exact hc ▸ inv_nbr_fresh hwf hinv (hc ▸ hz)
    · obtain ⟨z, rfl, hz, hza⟩ := mem_inputs hb
      have hzm := adj_mem hz
      have hzb : z ≠ b := fun e => adj_ne hwf hz e.symm
      have h1 : firstHop t z a = some b := by
        rw [← firstHop_adj_same hwf hab hzm.2 hza hzb]
        exact firstHop_adj hwf (adj_symm hz)
      exact hinv z b hzm.2 (hc ▸ hza) (hc ▸ h1)
  · intro x h hx hxc hh
    simp only [apply] at hxc hh ⊢
    simp only [List.mem_filter, mem_wrote, not_and]
    intro hmem
    by_cases hne : (x, h) = (a, b)
    · simp [hne]
    · obtain ⟨h1, h2, h3⟩ := inv_after_pair hwf hinv hc hab hx hxc hh hne
      exfalso
      rcases hmem with (hs | ⟨_, ha⟩) | ⟨_, ha⟩
      · exact h1 hs
      · rw [h2] at ha; simp at ha
      · rw [h3] at ha; simp at ha

theorem link_ok {t : RTree} (hwf : t.WF) {st : DSt} (hinv : Inv t st) {a b : Nat}
    (hc : st.centre = a) (hab : Adj t a b) :
    ∃ st', step t st (.link a b) = some st' ∧ Inv t st' ∧ st'.centre = b := by
  refine ⟨apply t st (.link a b), step_eq (by simp [pre, hc, (adjB_iff t a b).mpr hab]) ?_, ?_, rfl⟩
  · intro blk hb
    simp only [reads, List.mem_map, mem_nbrsOf] at hb
    obtain ⟨z, hz, rfl⟩ := hb
    exact hc ▸ inv_nbr_fresh hwf hinv (hc ▸ hz)
  · intro x h hx hxc hh
    simp only [apply] at hxc hh ⊢
    rw [mem_wrote]
    simp only [List.mem_filter, mem_wrote]
    intro hmem
    by_cases hne : (x, h) = (a, b)
    · rcases hmem with ⟨_, hf⟩ | ⟨_, ha⟩
      · simp [hne] at hf
      · rw [hne] at ha; simp [away] at ha
    · obtain ⟨h1, h2, h3⟩ := inv_after_pair hwf hinv hc hab hx hxc hh hne
      rcases hmem with ⟨hs | ⟨_, ha⟩, _⟩ | ⟨_, ha⟩
      · exact h1 hs
      · rw [h2] at ha; simp at ha
      · rw [h3] at ha; simp at ha

theorem hop_ok {t : RTree} {st : DSt} {a b : Nat} (hc : st.centre = a) (hab : Adj t a b) :
    ∃ st', step t st (.hop a b) = some st' ∧ st'.centre = b :=
  ⟨apply t st (.hop a b), step_eq (by simp [pre, hc, (adjB_iff t a b).mpr hab]) (by simp [reads]),
    rfl⟩

theorem init_ok {t : RTree} (hwf : t.WF) {st : DSt} {c : Nat} (hc : st.centre = c)
    (hcm : c ∈ ids t) :
    step t st (.init c) = some ⟨c, (blocks t).filter (away t c)⟩ ∧
      Inv t ⟨c, (blocks t).filter (away t c)⟩ := by
  refine ⟨step_eq (by simp [pre, hc, hcm]) (by simp [reads]), ?_⟩
  intro x h hx hxc hh
  simp only [List.mem_filter, not_and]
  intro _
  rw [toward_not_away hwf hx hcm hxc hh]; simp

end Ptn.C05.Disc
