import Ptn.C05.WholeProgramLink
/-! ONE program from the node tensors to the matrix handed to `time_evolve`, for the TWO-SITE function
`_get_effective_two_site_hamiltonian`, both orders of (target, next) (C05, value level, builder B47, Goal 1, second
half).

* `whole_core`        generic: a matrix built from leaves `W` that are part of a clean list of node tensors and whose
                      record has the tree-level value (`TreeForm`) — every expression it is built from is SWF and
                      evaluates to `E† H E` for any split of `W`;
* `pairLeaves`        the operator tensors of ALL nodes and the ket / bra tensors of all nodes EXCEPT the pair;
* `pair_blocks_built` the blocks the function reads are built from the node tensors behind them;
* `two_site_heff_whole_program`, `two_site_heff_whole_program_up` target = upper / lower node. -/
namespace Ptn.C05.Heff
open Ptn.C04 Ptn.Ein

set_option linter.unusedSectionVars false
variable {R : Type} [CommSemiring R]

/-- generic glue of provenance and value: `W` (the leaves the matrix is built from) together with some extra tensors
`X` is a clean list of node tensors `S`; the record of `m` has the tree-level value -/
theorem whole_core {m : Mat} {W X S : List (LeafT R)} (hwl : (X ++ W).Perm S) (hndS : (labelsOf S).Nodup)
    (hlocS : ∀ lf ∈ S, DependsOn (· ∈ lf.1) lf.2) {ids : List Nat} {kb ob brb : List (Leg × Leg)}
    (hval : TreeForm R m.binds ids kb ob brb) :
    ∀ e : Expr Leg R, Built m.toT e → e.leaves.Perm W →
      e.SWF ∧ e.binds.Perm m.binds ∧ e.free.Perm (m.rows ++ m.cols) ∧
      ∀ (dim : Leg → Nat) (E H B : Expr Leg R), E.WF → H.WF → B.WF →
        (E.leaves ++ (H.leaves ++ B.leaves)).Perm W →
        (unordL E.binds).Perm (unordL kb) → (unordL H.binds).Perm (unordL ob) → (unordL B.binds).Perm (unordL brb) →
        (∀ n ∈ ids, Leg.gKetPhys n ∈ E.free ∧ Leg.gOpIn n ∈ H.free ∧ Leg.gOpOut n ∈ H.free ∧
          Leg.gBraPhys n ∈ B.free) →
        (∀ q ∈ projSpec (ids.map physOut) (ids.map physIn) E.binds H.binds B.binds, dim q.1 = dim q.2) →
        ∀ σ, e.eval dim σ =
          sumPairs dim (ids.map physOut)
            (fun τ => sumPairs dim (ids.map physIn) (fun ρ => E.eval dim ρ * H.eval dim ρ) τ * B.eval dim τ) σ := by
  intro e hbe hleaves
  have hndW : (labelsOf W).Nodup := by
    have h1 := (hwl.flatMap_right (·.1)).nodup_iff.2 hndS
    rw [List.flatMap_append] at h1
    exact (List.nodup_append.1 h1).2.1
  have hlocW : ∀ lf ∈ W, DependsOn (· ∈ lf.1) lf.2 := fun lf hlf =>
    hlocS lf (hwl.mem_iff.1 (List.mem_append.2 (Or.inr hlf)))
  obtain ⟨hswf, hbinds, hfree⟩ := whole_built_facts hndW hlocW hbe hleaves
  refine ⟨hswf, hbinds, hfree, ?_⟩
  intro dim E H B hE hH hB hsplit hEb hHb hBb hfr hdim σ
  obtain ⟨d1, d2, d3, hprod⟩ := whole_split_facts hndW hleaves hsplit
  exact hval dim e E H B hswf hE hH hB d1 d2 d3 hbinds hEb hHb hBb hfr hdim hprod σ

/-- the leaf tensors of the whole program of the two-site effective Hamiltonian of the pair `a — b`: the operator
tensors of `a` and `b` and the ket, operator and bra tensors of every other node (component above `a`, subtrees of
`a`'s other children, subtrees of `b`'s children) -/
def pairLeaves (opKids : Nat → List Nat) (kv ov bv : Nat → Asg Leg → R) (up : Ctx) (a b : Nat)
    (ls rs ks : List Tree) : List (LeafT R) :=
  [((gOpT a ⟨up.parent, opKids a⟩).legs, ov a), ((gOpT b ⟨some a, opKids b⟩).legs, ov b)] ++
    (up.leavesG (soNodeLeaves opKids kv ov bv) a ++
      (treeLeavesL (soNodeLeaves opKids kv ov bv) a (ls ++ rs) ++ treeLeavesL (soNodeLeaves opKids kv ov bv) b ks))

/-- the ket and bra tensors of the pair -/
def pairSiteLeaves (kv bv : Nat → Asg Leg → R) (up : Ctx) (a b : Nat) (ls rs ks : List Tree) : List (LeafT R) :=
  [((gKetT a ⟨up.parent, ls.map Tree.id ++ b :: rs.map Tree.id⟩).legs, kv a),
   ((gBraT a ⟨up.parent, ls.map Tree.id ++ b :: rs.map Tree.id⟩).legs, bv a),
   ((gKetT b ⟨some a, ks.map Tree.id⟩).legs, kv b), ((gBraT b ⟨some a, ks.map Tree.id⟩).legs, bv b)]

omit [CommSemiring R] in
/-- together with the ket and the bra tensors of the pair these are exactly the node tensors of the whole tree -/
theorem pairLeaves_perm (opKids : Nat → List Nat) (kv ov bv : Nat → Asg Leg → R) (up : Ctx) (a b : Nat)
    (ls rs ks : List Tree) :
    (pairSiteLeaves kv bv up a b ls rs ks ++ pairLeaves opKids kv ov bv up a b ls rs ks).Perm
      (soLeaves opKids kv ov bv none ((Ctx.frame a ls rs up).plug (Tree.node b ks))) := by
  have h := Ctx.plug_leaves_perm (soNodeLeaves opKids kv ov bv) (Ctx.frame a ls rs up) (Tree.node b ks)
  refine List.Perm.trans ?_ h.symm
  have hid : (Tree.node b ks).id = b := rfl
  rw [hid]
  simp only [pairLeaves, pairSiteLeaves, treeLeaves, soNodeLeaves, Ctx.leavesG, Ctx.parent]
  classical
  rw [List.perm_iff_count]
  intro z
  simp only [List.count_append, List.count_cons, List.count_nil]
  omega

omit [CommSemiring R] in
/-- the identifiers around an adjacent pair -/
theorem pair_ids_facts (up : Ctx) (a b : Nat) (ls rs ks : List Tree)
    (hnd : ((Ctx.frame a ls rs up).plug (Tree.node b ks)).ids.Nodup) :
    (a :: up.ids).Nodup ∧ (Tree.idsL (ls ++ rs)).Nodup ∧ a ∉ Tree.idsL (ls ++ rs) ∧ (Tree.idsL ks).Nodup ∧
      b ∉ Tree.idsL ks := by
  have h0 := (Ctx.plug_ids_perm (Ctx.frame a ls rs up) (Tree.node b ks)).nodup_iff.1 hnd
  simp only [Ctx.ids, Tree.ids, List.cons_append, List.nodup_cons, List.nodup_append, List.mem_append, List.mem_cons,
    not_or] at h0
  obtain ⟨⟨⟨haS, haU⟩, _, _⟩, ⟨hS, hU, _⟩, ⟨hbK, hK⟩, _⟩ := h0
  exact ⟨List.nodup_cons.2 ⟨haU, hU⟩, hS, haS, hK, hbK⟩

omit [CommSemiring R] in
/-- **the blocks around the pair are built from the node tensors behind them** (top-down block above `a`:
`Ctx.ctx_block_built`; leaf-to-root blocks of the other children of `a` and of the children of `b`:
`soBlock_built_free`) and their leaves, taken over the neighbour lists the function runs through, are the node tensors
of the component above `a`, of the subtrees `ls ++ rs` and of the subtrees `ks` -/
theorem pair_blocks_built (up : Ctx) (a b : Nat) (ls rs ks : List Tree)
    (hnd : ((Ctx.frame a ls rs up).plug (Tree.node b ks)).ids.Nodup) (opKids : Nat → List Nat)
    (hperm : ∀ e ∈ Tree.info none ((Ctx.frame a ls rs up).plug (Tree.node b ks)), (opKids e.1).Perm e.2.2)
    (kv ov bv : Nat → Asg Leg → R) (cache : Dict)
    (hcU : ∀ q, up.parent = some q → cache (q, a) = some (gBlock q a up.blockBinds))
    (hcS : ∀ n ∈ (ls ++ rs).map Tree.id, cache (n, a) = soKidBlock (ls ++ rs) a (n, a))
    (hcK : ∀ n ∈ ks.map Tree.id, cache (n, b) = soKidBlock ks b (n, b))
    (F : TwoSiteFacts up a b ls rs ks (opKids a) (opKids b)) (hpermB : (opKids b).Perm (ks.map Tree.id)) :
    ∃ lvA lvB : Nat → List (LeafT R),
      (∀ n ∈ (Node.mk up.parent (opKids a)).nbrs, n ≠ b → ∀ blk, cache (n, a) = some blk → BuiltL blk (lvA n)) ∧
      (∀ n ∈ (Node.mk (some a) (opKids b)).nbrs, n ≠ a → ∀ blk, cache (n, b) = some blk → BuiltL blk (lvB n)) ∧
      (((Node.mk up.parent (opKids a)).nbrs.filter (· ≠ b)).flatMap lvA).Perm
        (up.leavesG (soNodeLeaves opKids kv ov bv) a ++ treeLeavesL (soNodeLeaves opKids kv ov bv) a (ls ++ rs)) ∧
      (((Node.mk (some a) (opKids b)).nbrs.filter (· ≠ a)).flatMap lvB).Perm
        (treeLeavesL (soNodeLeaves opKids kv ov bv) b ks) := by
  obtain ⟨haU, hS, haS, hK, hbK⟩ := pair_ids_facts up a b ls rs ks hnd
  have hinfoU : ∀ e ∈ up.info a, (opKids e.1).Perm e.2.2 := fun e he =>
    hperm e (Ctx.mem_info_plug _ (Tree.node b ks) e (Or.inl (by
      simp only [Ctx.info, List.mem_cons, List.mem_append]; exact Or.inr (Or.inr he))))
  have hinfoS : ∀ e ∈ Tree.infoL a (ls ++ rs), (opKids e.1).Perm e.2.2 := fun e he =>
    hperm e (Ctx.mem_info_plug _ (Tree.node b ks) e (Or.inl (by
      simp only [Ctx.info, List.mem_cons, List.mem_append]; exact Or.inr (Or.inl he))))
  have hinfoK : ∀ e ∈ Tree.infoL b ks, (opKids e.1).Perm e.2.2 := fun e he =>
    hperm e (Ctx.mem_info_plug _ (Tree.node b ks) e (Or.inr (by simp [Tree.info, he])))
  have hkidS : ((ls ++ rs).map Tree.id).Nodup := Tree.nodup_kid_ids _ hS
  have hkidK : (ks.map Tree.id).Nodup := Tree.nodup_kid_ids _ hK
  have hpkS : ∀ n ∈ (ls ++ rs).map Tree.id, ¬ up.parent = some n := fun n hn hq =>
    F.hpk n hq (by rw [List.map_append]; exact List.mem_append.2 (Or.inl hn))
  refine ⟨fun n => if up.parent = some n then up.leavesG (soNodeLeaves opKids kv ov bv) a
      else lvOf (soLeaves opKids kv ov bv (some a)) (ls ++ rs) n,
    lvOf (soLeaves opKids kv ov bv (some b)) ks, ?_, ?_, ?_, ?_⟩
  · intro n hn hne blk hblk
    by_cases hq : up.parent = some n
    · rw [hcU n hq, Option.some.injEq] at hblk
      subst hblk
      simp only [if_pos hq]
      exact Ctx.ctx_block_built opKids kv ov bv up a n hq haU hinfoU
    · simp only [if_neg hq]
      have hnA : n ∈ (opKids a).filter (· ≠ b) := by
        have : n ∈ up.parent.toList ++ opKids a := hn
        rcases List.mem_append.1 this with h | h
        · exact absurd (by simpa using h) hq
        · exact List.mem_filter.2 ⟨h, by simpa using hne⟩
      have hnS := F.hA'.mem_iff.1 hnA
      rw [hcS n hnS] at hblk
      exact kid_block_built opKids kv ov bv (ls ++ rs) a n blk hS haS hinfoS hblk
  · intro n hn hne blk hblk
    have hnB : n ∈ opKids b := by
      have : n ∈ (some a).toList ++ opKids b := hn
      rcases List.mem_append.1 this with h | h
      · exact absurd (by simpa using h) hne
      · exact h
    have hnK := hpermB.mem_iff.1 hnB
    rw [hcK n hnK] at hblk
    exact kid_block_built opKids kv ov bv ks b n blk hK hbK hinfoK hblk
  · rw [F.hfA, List.flatMap_append]
    refine List.Perm.append (List.Perm.of_eq ?_) ?_
    · cases hq : up.parent with
      | none => simp [Ctx.leavesG_of_root _ hq]
      | some q => simp
    · refine (F.hA'.flatMap_right _).trans ?_
      rw [treeLeavesL_eq, ← lvOf_flatMap _ (ls ++ rs) hkidS]
      refine List.Perm.of_eq ?_
      apply flatMap_congr'
      intro n hn
      rw [if_neg (hpkS n hn)]
      rfl
  · rw [F.hfB]
    refine (hpermB.flatMap_right _).trans ?_
    rw [treeLeavesL_eq, ← lvOf_flatMap _ ks hkidK]
    rfl

omit [CommSemiring R] in
theorem pair_perm_a {α : Type} (oa ob : α) (A B C : List α) :
    (([oa] ++ (A ++ B)) ++ ([ob] ++ C)).Perm ([oa, ob] ++ (A ++ (B ++ C))) := by
  classical
  rw [List.perm_iff_count]
  intro z
  simp only [List.count_append, List.count_cons, List.count_nil]
  omega

omit [CommSemiring R] in
theorem pair_perm_b {α : Type} (oa ob : α) (A B C : List α) :
    (([ob] ++ C) ++ ([oa] ++ (A ++ B))).Perm ([oa, ob] ++ (A ++ (B ++ C))) := by
  classical
  rw [List.perm_iff_count]
  intro z
  simp only [List.count_append, List.count_cons, List.count_nil]
  omega

/-- **ONE program for the two-site effective Hamiltonian, target = the upper node.**  The tree is
`(Ctx.frame a ls rs up).plug (node b ks)` (every edge of every tree: `Ctx.exists_ctx_edge`), distinct identifiers;
every operator node lists its children in its own order `opKids`; the state's contracted node `twoSite` lists the other
neighbours of the pair in ANY arrangement; `kv`, `ov`, `bv` are ARBITRARY values of the node tensors, each reading only
its own legs.  The cache holds the top-down block above `a` and the leaf-to-root blocks of `ls ++ rs` (toward `a`) and
of `ks` (toward `b`).  Then
* `_get_effective_two_site_hamiltonian(target = a, next = b)` returns the matrix `m` of `two_site_heff_graph`;
* `m` is BUILT — top-down `contract_any` recursion (`Ctx.ctx_block_built`), leaf-to-root block loop
  (`soBlock_built_free`), `_contract_all_except_two_nodes` with its transposition (`two_site_heff_built`) — from
  `pairLeaves`: the operator tensors of ALL nodes and the ket / bra tensors of all nodes EXCEPT `a`, `b`, each once
  (`pairLeaves_perm`: with the ket and bra tensors of the pair these are the node tensors of the whole tree);
* EVERY expression `e` that `m` is built from over these leaves is strongly well-formed, has the record of `m` and the
  free legs `rows ++ cols`, and evaluates to `Σ_{phys'} (Σ_{phys} E · H) · B = E† H E` for ANY split of the leaves into
  three well-formed contractions `E` (kets over the ket bonds touching neither `a` nor `b`), `H` (whole TTNO), `B`.
No hypothesis about a program, a block or a record is left. -/
theorem two_site_heff_whole_program (up : Ctx) (a b : Nat) (ls rs ks : List Tree)
    (hnd : ((Ctx.frame a ls rs up).plug (Tree.node b ks)).ids.Nodup) (opKids : Nat → List Nat)
    (hperm : ∀ e ∈ Tree.info none ((Ctx.frame a ls rs up).plug (Tree.node b ks)), (opKids e.1).Perm e.2.2)
    (kv ov bv : Nat → Asg Leg → R) (hkv : KetLocal kv ((Ctx.frame a ls rs up).plug (Tree.node b ks)))
    (hov : OpLocalK ov opKids ((Ctx.frame a ls rs up).plug (Tree.node b ks)))
    (hbv : BraLocalK bv ((Ctx.frame a ls rs up).plug (Tree.node b ks)))
    (twoSite : Node) (hS : twoSite.nbrs.Perm (up.parent.toList ++ ((ls ++ rs) ++ ks).map Tree.id)) (cache : Dict)
    (hcU : ∀ q, up.parent = some q → cache (q, a) = some (gBlock q a up.blockBinds))
    (hcS : ∀ n ∈ (ls ++ rs).map Tree.id, cache (n, a) = soKidBlock (ls ++ rs) a (n, a))
    (hcK : ∀ n ∈ ks.map Tree.id, cache (n, b) = soKidBlock ks b (n, b)) :
    ∃ m : Mat, getEffectiveTwoSiteHamiltonian ⟨up.parent, opKids a⟩ ⟨some a, opKids b⟩ twoSite
        (gOpT a ⟨up.parent, opKids a⟩) (gOpT b ⟨some a, opKids b⟩) a b cache = some m ∧
      m.rows = twoSite.nbrs.map (fun n => if n ∈ (Node.mk up.parent (opKids a)).nbrs then Leg.gBra n a
                  else Leg.gBra n b) ++ [Leg.gOpOut a, Leg.gOpOut b] ∧
      m.cols = twoSite.nbrs.map (fun n => if n ∈ (Node.mk up.parent (opKids a)).nbrs then Leg.gKet n a
                  else Leg.gKet n b) ++ [Leg.gOpIn a, Leg.gOpIn b] ∧
      BuiltL m.toT (pairLeaves opKids kv ov bv up a b ls rs ks) ∧
      (pairSiteLeaves kv bv up a b ls rs ks ++ pairLeaves opKids kv ov bv up a b ls rs ks).Perm
        (soLeaves opKids kv ov bv none ((Ctx.frame a ls rs up).plug (Tree.node b ks))) ∧
      ∀ e : Expr Leg R, Built m.toT e → e.leaves.Perm (pairLeaves opKids kv ov bv up a b ls rs ks) →
        e.SWF ∧ e.binds.Perm m.binds ∧ e.free.Perm (m.rows ++ m.cols) ∧
        ∀ (dim : Leg → Nat) (E H B : Expr Leg R), E.WF → H.WF → B.WF →
          (E.leaves ++ (H.leaves ++ B.leaves)).Perm (pairLeaves opKids kv ov bv up a b ls rs ks) →
          (unordL E.binds).Perm
            (unordL ((up.compEdges ++ ((ls ++ rs) ++ ks).flatMap Tree.edges).map fun e => ketEdge e.1 e.2)) →
          (unordL H.binds).Perm
            (unordL (((Ctx.frame a ls rs up).plug (Tree.node b ks)).edges.map fun e => opEdge e.1 e.2)) →
          (unordL B.binds).Perm
            (unordL ((up.compEdges ++ ((ls ++ rs) ++ ks).flatMap Tree.edges).map fun e => braEdge e.1 e.2)) →
          (∀ n ∈ up.ids ++ Tree.idsL ((ls ++ rs) ++ ks), Leg.gKetPhys n ∈ E.free ∧ Leg.gOpIn n ∈ H.free ∧
            Leg.gOpOut n ∈ H.free ∧ Leg.gBraPhys n ∈ B.free) →
          (∀ q ∈ projSpec ((up.ids ++ Tree.idsL ((ls ++ rs) ++ ks)).map physOut)
            ((up.ids ++ Tree.idsL ((ls ++ rs) ++ ks)).map physIn) E.binds H.binds B.binds, dim q.1 = dim q.2) →
          ∀ σ, e.eval dim σ =
            sumPairs dim ((up.ids ++ Tree.idsL ((ls ++ rs) ++ ks)).map physOut)
              (fun τ => sumPairs dim ((up.ids ++ Tree.idsL ((ls ++ rs) ++ ks)).map physIn)
                (fun ρ => E.eval dim ρ * H.eval dim ρ) τ * B.eval dim τ) σ := by
  have hpermA : (opKids a).Perm (ls.map Tree.id ++ b :: rs.map Tree.id) :=
    hperm (a, up.parent, ls.map Tree.id ++ b :: rs.map Tree.id)
      (Ctx.mem_info_plug _ (Tree.node b ks) _ (Or.inl (by simp [Ctx.info, Tree.id])))
  have hpermB : (opKids b).Perm (ks.map Tree.id) :=
    hperm (b, some a, ks.map Tree.id)
      (Ctx.mem_info_plug _ (Tree.node b ks) _ (Or.inr (by simp [Tree.info, Ctx.parent])))
  have F := two_site_facts up a b ls rs ks (opKids a) (opKids b) hnd hpermA hpermB
  obtain ⟨m, hm, hr, hc, hval⟩ := two_site_heff_projected_tree (R := R) up a b ls rs ks hnd (opKids a) (opKids b)
    hpermA hpermB twoSite hS cache hcU hcS hcK
  obtain ⟨lvA, lvB, hbA, hbB, hfA, hfB⟩ := pair_blocks_built up a b ls rs ks hnd opKids hperm kv ov bv cache hcU hcS
    hcK F hpermB
  have hwl := pairLeaves_perm opKids kv ov bv up a b ls rs ks
  have hbuilt : BuiltL m.toT (pairLeaves opKids kv ov bv up a b ls rs ks) := by
    have hb := two_site_heff_built (R := R) (lT := [((gOpT a ⟨up.parent, opKids a⟩).legs, ov a)])
      (lX := [((gOpT b ⟨some a, opKids b⟩).legs, ov b)]) hm (BuiltL.fresh _ _) (BuiltL.fresh _ _) hbA hbB
    refine hb.perm ?_
    refine ((List.Perm.append_left _ hfA).append (List.Perm.append_left _ hfB)).trans ?_
    exact pair_perm_a _ _ _ _ _
  obtain ⟨hndS, hlocS⟩ := soLeaves_clean opKids kv ov bv _ hnd hperm hkv hov hbv
  exact ⟨m, hm, hr, hc, hbuilt, hwl, whole_core hwl hndS hlocS hval⟩

/-- **The same with target = the LOWER node `b`, next = the upper node `a`** (the other sweep direction): the matrix
of `_get_effective_two_site_hamiltonian(target = b, next = a)` is built from the same `pairLeaves` and every
expression it is built from evaluates to the same `E† H E`. -/
theorem two_site_heff_whole_program_up (up : Ctx) (a b : Nat) (ls rs ks : List Tree)
    (hnd : ((Ctx.frame a ls rs up).plug (Tree.node b ks)).ids.Nodup) (opKids : Nat → List Nat)
    (hperm : ∀ e ∈ Tree.info none ((Ctx.frame a ls rs up).plug (Tree.node b ks)), (opKids e.1).Perm e.2.2)
    (kv ov bv : Nat → Asg Leg → R) (hkv : KetLocal kv ((Ctx.frame a ls rs up).plug (Tree.node b ks)))
    (hov : OpLocalK ov opKids ((Ctx.frame a ls rs up).plug (Tree.node b ks)))
    (hbv : BraLocalK bv ((Ctx.frame a ls rs up).plug (Tree.node b ks)))
    (twoSite : Node) (hS : twoSite.nbrs.Perm (up.parent.toList ++ ((ls ++ rs) ++ ks).map Tree.id)) (cache : Dict)
    (hcU : ∀ q, up.parent = some q → cache (q, a) = some (gBlock q a up.blockBinds))
    (hcS : ∀ n ∈ (ls ++ rs).map Tree.id, cache (n, a) = soKidBlock (ls ++ rs) a (n, a))
    (hcK : ∀ n ∈ ks.map Tree.id, cache (n, b) = soKidBlock ks b (n, b)) :
    ∃ m : Mat, getEffectiveTwoSiteHamiltonian ⟨some a, opKids b⟩ ⟨up.parent, opKids a⟩ twoSite
        (gOpT b ⟨some a, opKids b⟩) (gOpT a ⟨up.parent, opKids a⟩) b a cache = some m ∧
      m.rows = twoSite.nbrs.map (fun n => if n ∈ (Node.mk (some a) (opKids b)).nbrs then Leg.gBra n b
                  else Leg.gBra n a) ++ [Leg.gOpOut b, Leg.gOpOut a] ∧
      m.cols = twoSite.nbrs.map (fun n => if n ∈ (Node.mk (some a) (opKids b)).nbrs then Leg.gKet n b
                  else Leg.gKet n a) ++ [Leg.gOpIn b, Leg.gOpIn a] ∧
      BuiltL m.toT (pairLeaves opKids kv ov bv up a b ls rs ks) ∧
      (pairSiteLeaves kv bv up a b ls rs ks ++ pairLeaves opKids kv ov bv up a b ls rs ks).Perm
        (soLeaves opKids kv ov bv none ((Ctx.frame a ls rs up).plug (Tree.node b ks))) ∧
      ∀ e : Expr Leg R, Built m.toT e → e.leaves.Perm (pairLeaves opKids kv ov bv up a b ls rs ks) →
        e.SWF ∧ e.binds.Perm m.binds ∧ e.free.Perm (m.rows ++ m.cols) ∧
        ∀ (dim : Leg → Nat) (E H B : Expr Leg R), E.WF → H.WF → B.WF →
          (E.leaves ++ (H.leaves ++ B.leaves)).Perm (pairLeaves opKids kv ov bv up a b ls rs ks) →
          (unordL E.binds).Perm
            (unordL ((up.compEdges ++ ((ls ++ rs) ++ ks).flatMap Tree.edges).map fun e => ketEdge e.1 e.2)) →
          (unordL H.binds).Perm
            (unordL (((Ctx.frame a ls rs up).plug (Tree.node b ks)).edges.map fun e => opEdge e.1 e.2)) →
          (unordL B.binds).Perm
            (unordL ((up.compEdges ++ ((ls ++ rs) ++ ks).flatMap Tree.edges).map fun e => braEdge e.1 e.2)) →
          (∀ n ∈ up.ids ++ Tree.idsL ((ls ++ rs) ++ ks), Leg.gKetPhys n ∈ E.free ∧ Leg.gOpIn n ∈ H.free ∧
            Leg.gOpOut n ∈ H.free ∧ Leg.gBraPhys n ∈ B.free) →
          (∀ q ∈ projSpec ((up.ids ++ Tree.idsL ((ls ++ rs) ++ ks)).map physOut)
            ((up.ids ++ Tree.idsL ((ls ++ rs) ++ ks)).map physIn) E.binds H.binds B.binds, dim q.1 = dim q.2) →
          ∀ σ, e.eval dim σ =
            sumPairs dim ((up.ids ++ Tree.idsL ((ls ++ rs) ++ ks)).map physOut)
              (fun τ => sumPairs dim ((up.ids ++ Tree.idsL ((ls ++ rs) ++ ks)).map physIn)
                (fun ρ => E.eval dim ρ * H.eval dim ρ) τ * B.eval dim τ) σ := by
  have hpermA : (opKids a).Perm (ls.map Tree.id ++ b :: rs.map Tree.id) :=
    hperm (a, up.parent, ls.map Tree.id ++ b :: rs.map Tree.id)
      (Ctx.mem_info_plug _ (Tree.node b ks) _ (Or.inl (by simp [Ctx.info, Tree.id])))
  have hpermB : (opKids b).Perm (ks.map Tree.id) :=
    hperm (b, some a, ks.map Tree.id)
      (Ctx.mem_info_plug _ (Tree.node b ks) _ (Or.inr (by simp [Tree.info, Ctx.parent])))
  have F := two_site_facts up a b ls rs ks (opKids a) (opKids b) hnd hpermA hpermB
  obtain ⟨m, hm, hr, hc, hval⟩ := two_site_heff_projected_tree_up (R := R) up a b ls rs ks hnd (opKids a) (opKids b)
    hpermA hpermB twoSite hS cache hcU hcS hcK
  obtain ⟨lvA, lvB, hbA, hbB, hfA, hfB⟩ := pair_blocks_built up a b ls rs ks hnd opKids hperm kv ov bv cache hcU hcS
    hcK F hpermB
  have hwl := pairLeaves_perm opKids kv ov bv up a b ls rs ks
  have hbuilt : BuiltL m.toT (pairLeaves opKids kv ov bv up a b ls rs ks) := by
    have hb := two_site_heff_built (R := R) (lT := [((gOpT b ⟨some a, opKids b⟩).legs, ov b)])
      (lX := [((gOpT a ⟨up.parent, opKids a⟩).legs, ov a)]) hm (BuiltL.fresh _ _) (BuiltL.fresh _ _) hbB hbA
    refine hb.perm ?_
    refine ((List.Perm.append_left _ hfB).append (List.Perm.append_left _ hfA)).trans ?_
    exact pair_perm_b _ _ _ _ _
  obtain ⟨hndS, hlocS⟩ := soLeaves_clean opKids kv ov bv _ hnd hperm hkv hov hbv
  exact ⟨m, hm, hr, hc, hbuilt, hwl, whole_core hwl hndS hlocS hval⟩

end Ptn.C05.Heff
