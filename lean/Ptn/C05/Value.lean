import Ptn.C05.Heff
import Ptn.C05.ValueLemmas
/-! Value level for the effective Hamiltonians of TDVP (C05): what the leg graphs proved in `Heff.lean`
EVALUATE to, over every commutative semiring, for all dimensions and any number of neighbours.

`site_heff_graph` / `link_heff_graph` / `two_site_heff_graph` show which legs the code binds.  Here that record
is given its value (`Ptn/Common/Einsum*.lean`): every strongly well-formed contraction program over the operator
tensor(s) and the cached environment blocks whose binding record is the one the code produces — in particular
the sequence of `tensordot` calls the code performs — evaluates to
`H_eff[rows; cols] = Σ_{operator legs} W[operator legs…, out, in] · Π_n Blk_n[ket_n, op_n, bra_n]`.
In the `_blocks` forms the blocks are themselves arbitrary contraction programs `K n` (with the records `bb n`
the blocks carry): the value is the same sum with `Blk_n` the value of `K n` — the generic composition lemma
`Expr.net_of_record` (`ValueLemmas.lean`). -/
namespace Ptn.C05.Heff
open Ptn.C04 Ptn.Ein

set_option linter.unusedSectionVars false
variable {R : Type} [CommSemiring R]

/-- the pairs (operator leg of node `i` toward `n`, Hamiltonian leg of the block of `n` toward `i`) -/
def opPairs (i : Nat) (ns : List Nat) : List (Leg × Leg) := ns.map fun n => (Leg.gOp i n, Leg.gOp n i)

/-- the legs of the cached block of the subtree behind `n`, seen from `i` -/
def blockLegs (n i : Nat) : List Leg := [Leg.gKet n i, Leg.gOp n i, Leg.gBra n i]

/-- the cached blocks as leaf tensors -/
def blockLeaves (i : Nat) (Blk : Nat → Asg Leg → R) (ns : List Nat) : List (Expr Leg R) :=
  ns.map fun n => Expr.leaf (blockLegs n i) (Blk n)

/-- the operator tensor of node `i` and the blocks of distinct neighbours (none of them `i` itself) use pairwise
distinct leg labels -/
theorem site_leaves_disjoint (i : Nat) (hamNode : Node) (W : Asg Leg → R) (Blk : Nat → Asg Leg → R)
    (ns : List Nat) (hnd : ns.Nodup) (hi : i ∉ ns) :
    Expr.LabelsDisjoint (Expr.leaf (gOpT i hamNode).legs W :: blockLeaves i Blk ns) := by
  unfold Expr.LabelsDisjoint
  rw [List.pairwise_cons]
  constructor
  · intro b hb l hl
    simp only [blockLeaves, List.mem_map] at hb
    obtain ⟨n, hn, rfl⟩ := hb
    simp only [Expr.labels, gOpT, T.fresh, List.mem_append, List.mem_map, List.mem_cons, List.not_mem_nil,
      or_false] at hl
    simp only [Expr.labels, blockLegs, List.mem_cons, List.not_mem_nil, or_false]
    rcases hl with ⟨m, _, rfl⟩ | rfl | rfl
    · intro h
      rcases h with h | h | h
      · cases h
      · injection h with h1 h2
        exact hi (h1 ▸ hn)
      · cases h
    · simp
    · simp
  · simp only [blockLeaves]
    rw [List.pairwise_map]
    refine List.Pairwise.imp_of_mem ?_ (List.nodup_iff_pairwise_ne.1 hnd)
    intro a b _ _ hab l hl
    simp only [Expr.labels, blockLegs, List.mem_cons, List.not_mem_nil, or_false] at hl ⊢
    rcases hl with rfl | rfl | rfl <;> simp [hab]

/-! ### single site -/

/-- **Single-site effective Hamiltonian, value level, blocks given by arbitrary programs.**  Under the
hypotheses of `site_heff_graph` the model returns a matrix `m` with the proved rows / columns, and for every
commutative semiring, all dimensions, every operator tensor `W` (reading only its own legs) and any well-formed
contraction programs `K n` for the cached blocks (record `bb n`, the record the block carries) with pairwise
distinct labels: EVERY strongly well-formed program `e` over these leaf tensors whose binding record is, up to
order, the record of `m` evaluates to
`Σ_{operator legs} W · Π_{n} (value of K n)` — one common index per pair (operator leg toward `n`, Hamiltonian leg
of block `n`), for every assignment of the open legs (the rows and columns). -/
theorem site_heff_value_blocks (i : Nat) (stateNode hamNode : Node) (bb : Nat → List (Leg × Leg)) (cache : Cache)
    (hK : stateNode.nbrs.Nodup) (hperm : hamNode.nbrs.Perm stateNode.nbrs)
    (hcache : ∀ n ∈ hamNode.nbrs, cache n = some (gBlock n i (bb n))) :
    ∃ m : Mat, getEffectiveSingleSiteHamiltonianNodes stateNode hamNode (gOpT i hamNode) cache = some m ∧
      m.rows = stateNode.nbrs.map (fun n => Leg.gBra n i) ++ [Leg.gOpOut i] ∧
      m.cols = stateNode.nbrs.map (fun n => Leg.gKet n i) ++ [Leg.gOpIn i] ∧
      ∀ (dim : Leg → Nat) (e : Expr Leg R) (W : Asg Leg → R) (K : Nat → Expr Leg R),
        e.SWF → DependsOn (· ∈ (gOpT i hamNode).legs) W → (∀ n ∈ hamNode.nbrs, (K n).WF) →
        Expr.LabelsDisjoint (Expr.leaf (gOpT i hamNode).legs W :: hamNode.nbrs.map K) →
        (∀ n ∈ hamNode.nbrs, (K n).binds.Perm (bb n)) →
        e.binds.Perm m.binds →
        (∀ σ, e.leafProd σ = W σ * Expr.leafProdL (hamNode.nbrs.map K) σ) →
        ∀ σ, e.eval dim σ =
          sumPairs dim (opPairs i hamNode.nbrs) (fun τ => W τ * Expr.evalL dim (hamNode.nbrs.map K) τ) σ := by
  refine ⟨_, site_heff_graph i stateNode hamNode bb cache hK hperm hcache, rfl, rfl, ?_⟩
  intro dim e W K he hW hKwf hdis hKb heb hleaf σ
  have hwf : ∀ x ∈ Expr.leaf (gOpT i hamNode).legs W :: hamNode.nbrs.map K, x.WF := by
    intro x hx
    rcases List.mem_cons.1 hx with rfl | hx
    · exact hW
    · obtain ⟨n, hn, rfl⟩ := List.mem_map.1 hx
      exact hKwf n hn
  have hrec : e.binds.Perm (opPairs i hamNode.nbrs ++
      Expr.bindsL (Expr.leaf (gOpT i hamNode).legs W :: hamNode.nbrs.map K)) := by
    refine heb.trans ?_
    exact record_perm hamNode.nbrs bb K (fun n => (Leg.gOp i n, Leg.gOp n i)) hKb
  have := Expr.net_of_record dim e _ he hwf hdis (opPairs i hamNode.nbrs) hrec
    (fun σ => by rw [hleaf, Expr.leafProdL_cons]; simp [Expr.leafProd, Expr.leaves, prodL]) σ
  rw [this]
  exact sumPairs_congr dim _ (fun τ => by rw [Expr.evalL_cons]; rfl) σ

/-- **Single-site effective Hamiltonian, value level.**  The cached environment blocks are arbitrary tensors
`Blk n [ket leg, operator leg, bra leg]` and the operator tensor is `W` (each reading only its own legs).  Under the
hypotheses of `site_heff_graph` (with blocks that carry no record of their own) and `i` not its own neighbour:
every strongly well-formed program `e` over these tensors with the proved record evaluates, for every assignment
of the rows (bra legs, operator output) and columns (ket legs, operator input), to
`H_eff[rows; cols] = Σ_{operator legs} W[operator legs…, out, in] · Π_n Blk_n[ket_n, op_n, bra_n]`. -/
theorem site_heff_value (i : Nat) (stateNode hamNode : Node) (cache : Cache)
    (hK : stateNode.nbrs.Nodup) (hperm : hamNode.nbrs.Perm stateNode.nbrs) (hi : i ∉ hamNode.nbrs)
    (hcache : ∀ n ∈ hamNode.nbrs, cache n = some (gBlock n i [])) :
    ∃ m : Mat, getEffectiveSingleSiteHamiltonianNodes stateNode hamNode (gOpT i hamNode) cache = some m ∧
      m.rows = stateNode.nbrs.map (fun n => Leg.gBra n i) ++ [Leg.gOpOut i] ∧
      m.cols = stateNode.nbrs.map (fun n => Leg.gKet n i) ++ [Leg.gOpIn i] ∧
      ∀ (dim : Leg → Nat) (e : Expr Leg R) (W : Asg Leg → R) (Blk : Nat → Asg Leg → R),
        e.SWF → DependsOn (· ∈ (gOpT i hamNode).legs) W →
        (∀ n ∈ hamNode.nbrs, DependsOn (· ∈ blockLegs n i) (Blk n)) →
        e.binds.Perm m.binds →
        (∀ σ, e.leafProd σ = W σ * prodL (hamNode.nbrs.map fun n => Blk n σ)) →
        ∀ σ, e.eval dim σ =
          sumPairs dim (opPairs i hamNode.nbrs) (fun τ => W τ * prodL (hamNode.nbrs.map fun n => Blk n τ)) σ := by
  obtain ⟨m, hm, hr, hc, hval⟩ := site_heff_value_blocks (R := R) i stateNode hamNode (fun _ => []) cache hK hperm hcache
  refine ⟨m, hm, hr, hc, ?_⟩
  intro dim e W Blk he hW hBlk heb hleaf σ
  have hnd : hamNode.nbrs.Nodup := hperm.nodup_iff.2 hK
  have h := hval dim e W (fun n => Expr.leaf (blockLegs n i) (Blk n)) he hW (fun n hn => hBlk n hn)
    (site_leaves_disjoint i hamNode W Blk hamNode.nbrs hnd hi) (fun n _ => List.Perm.refl _) heb
    (fun σ => by
      rw [hleaf]; congr 1
      simp [Expr.leafProdL, Expr.leafProd, Expr.leaves, prodL, List.map_map, Function.comp_def]) σ
  rw [h]
  exact sumPairs_congr dim _ (fun τ => by rw [Expr.evalL_map_leaf]) σ

/-! ### elementary disjointness facts about the labels -/

theorem op_block_disjoint (i : Nat) (nd : Node) (W : Asg Leg → R) (n j : Nat) (B : Asg Leg → R)
    (h : i = n → j ∉ nd.nbrs) :
    ∀ l ∈ (Expr.leaf (gOpT i nd).legs W).labels, l ∉ (Expr.leaf (blockLegs n j) B).labels := by
  intro l hl
  simp only [Expr.labels, gOpT, T.fresh, List.mem_append, List.mem_map, List.mem_cons, List.not_mem_nil,
    or_false] at hl
  simp only [Expr.labels, blockLegs, List.mem_cons, List.not_mem_nil, or_false]
  rcases hl with ⟨m, hm, rfl⟩ | rfl | rfl
  · intro h'
    rcases h' with h' | h' | h'
    · cases h'
    · injection h' with h1 h2
      exact h h1 (h2 ▸ hm)
    · cases h'
  · simp
  · simp

theorem block_block_disjoint (n j n' j' : Nat) (B B' : Asg Leg → R) (h : n = n' → j ≠ j') :
    ∀ l ∈ (Expr.leaf (blockLegs n j) B).labels, l ∉ (Expr.leaf (blockLegs n' j') B').labels := by
  intro l hl
  simp only [Expr.labels, blockLegs, List.mem_cons, List.not_mem_nil, or_false] at hl ⊢
  rcases hl with rfl | rfl | rfl <;> simp <;> exact h

theorem op_op_disjoint (t x : Nat) (ndT ndX : Node) (Wt Wx : Asg Leg → R) (h : t ≠ x) :
    ∀ l ∈ (Expr.leaf (gOpT t ndT).legs Wt).labels, l ∉ (Expr.leaf (gOpT x ndX).legs Wx).labels := by
  intro l hl
  simp only [Expr.labels, gOpT, T.fresh, List.mem_append, List.mem_map, List.mem_cons, List.not_mem_nil,
    or_false] at hl ⊢
  rcases hl with ⟨m, _, rfl⟩ | rfl | rfl <;> simp [h, Ne.symm h]

/-! ### link -/

/-- **Link effective Hamiltonian, value level, blocks given by arbitrary programs.**  Under the hypotheses of
`link_heff_graph` both orientations of the sweep return the same matrix `m` (rows = the two bra legs, columns =
the two ket legs, in the link tensor's own order), and for any well-formed programs `Kp`, `Kc` of the two
blocks (records `bp`, `bc`, disjoint labels) every strongly well-formed program over their leaves with the
record of `m` evaluates to `Σ_{operator leg} (value of Kp) · (value of Kc)`. -/
theorem link_heff_value_blocks (p c : Nat) (hne : p ≠ c) (cache : Dict) (bp bc : List (Leg × Leg))
    (hp : cache (p, c) = some (gBlock p c bp)) (hc : cache (c, p) = some (gBlock c p bc)) :
    ∃ m : Mat, getEffectiveLinkHamiltonian ⟨some p, [c]⟩ c p cache = some m ∧
      getEffectiveLinkHamiltonian ⟨some p, [c]⟩ p c cache = some m ∧
      m.rows = [Leg.gBra p c, Leg.gBra c p] ∧ m.cols = [Leg.gKet p c, Leg.gKet c p] ∧
      ∀ (dim : Leg → Nat) (e Kp Kc : Expr Leg R), e.SWF → Kp.WF → Kc.WF →
        (∀ l ∈ Kp.labels, l ∉ Kc.labels) → Kp.binds.Perm bp → Kc.binds.Perm bc →
        e.binds.Perm m.binds →
        (∀ σ, e.leafProd σ = Kp.leafProd σ * Kc.leafProd σ) →
        ∀ σ, e.eval dim σ =
          sumPairs dim [(Leg.gOp p c, Leg.gOp c p)] (fun τ => Kp.eval dim τ * Kc.eval dim τ) σ := by
  obtain ⟨h1, h2⟩ := link_heff_graph p c hne cache bp bc hp hc
  refine ⟨_, h1, h2, rfl, rfl, ?_⟩
  intro dim e Kp Kc he hKp hKc hdis hbp hbc heb hleaf σ
  have hwf : ∀ x ∈ [Kp, Kc], x.WF := by
    intro x hx
    simp only [List.mem_cons, List.not_mem_nil, or_false] at hx
    rcases hx with rfl | rfl <;> assumption
  have hd : Expr.LabelsDisjoint [Kp, Kc] := by
    simp only [Expr.LabelsDisjoint, List.pairwise_cons, List.mem_cons, List.not_mem_nil, or_false, forall_eq,
      false_imp_iff, implies_true, List.Pairwise.nil, and_true]
    exact hdis
  have hrec : e.binds.Perm ([(Leg.gOp p c, Leg.gOp c p)] ++ Expr.bindsL [Kp, Kc]) := by
    refine heb.trans (List.perm_append_comm.trans (List.Perm.append_left _ ?_))
    simp only [Expr.bindsL, List.flatMap_cons, List.flatMap_nil, List.append_nil]
    exact List.Perm.append hbp.symm hbc.symm
  have := Expr.net_of_record dim e [Kp, Kc] he hwf hd _ hrec
    (fun σ => by rw [hleaf]; simp [Expr.leafProdL, prodL]) σ
  rw [this]
  exact sumPairs_congr dim _ (fun τ => by simp [Expr.evalL, prodL]) σ

/-- **Link effective Hamiltonian, value level.**  With the two cached blocks arbitrary tensors
`Bp[ket, op, bra]` (subtree behind `p`, seen from `c`) and `Bc[ket, op, bra]`:
`H_link[bra_p, bra_c; ket_p, ket_c] = Σ_op Bp[ket_p, op, bra_p] · Bc[ket_c, op, bra_c]`, in both sweep orientations. -/
theorem link_heff_value (p c : Nat) (hne : p ≠ c) (cache : Dict)
    (hp : cache (p, c) = some (gBlock p c [])) (hc : cache (c, p) = some (gBlock c p [])) :
    ∃ m : Mat, getEffectiveLinkHamiltonian ⟨some p, [c]⟩ c p cache = some m ∧
      getEffectiveLinkHamiltonian ⟨some p, [c]⟩ p c cache = some m ∧
      m.rows = [Leg.gBra p c, Leg.gBra c p] ∧ m.cols = [Leg.gKet p c, Leg.gKet c p] ∧
      ∀ (dim : Leg → Nat) (e : Expr Leg R) (Bp Bc : Asg Leg → R), e.SWF →
        DependsOn (· ∈ blockLegs p c) Bp → DependsOn (· ∈ blockLegs c p) Bc →
        e.binds.Perm m.binds →
        (∀ σ, e.leafProd σ = Bp σ * Bc σ) →
        ∀ σ, e.eval dim σ = sumPairs dim [(Leg.gOp p c, Leg.gOp c p)] (fun τ => Bp τ * Bc τ) σ := by
  obtain ⟨m, h1, h2, hr, hcl, hval⟩ := link_heff_value_blocks (R := R) p c hne cache [] [] hp hc
  refine ⟨m, h1, h2, hr, hcl, ?_⟩
  intro dim e Bp Bc he hBp hBc heb hleaf σ
  exact hval dim e (Expr.leaf (blockLegs p c) Bp) (Expr.leaf (blockLegs c p) Bc) he hBp hBc
    (block_block_disjoint p c c p Bp Bc (fun h => absurd h hne)) (List.Perm.refl _) (List.Perm.refl _) heb
    (fun σ => by rw [hleaf]; simp [Expr.leafProd, Expr.leaves, prodL]) σ

/-! ### two sites -/

/-- **Two-site effective Hamiltonian, value level, blocks given by arbitrary programs.**  Under the hypotheses of
`two_site_heff_graph` the model returns a matrix `m` with the proved rows / columns, and for the two operator
tensors `Wt`, `Wx` (each reading only its own legs) and any well-formed programs `KT n` / `KX n` of the cached
blocks around the target / the next node (records `bT n` / `bX n`), all with pairwise distinct labels: every
strongly well-formed program over these leaves with the record of `m` evaluates to
`Σ Wt · Wx · Π_n (value of KT n) · Π_n (value of KX n)`, the sum running over one common index per pair
(operator leg toward `n`, Hamiltonian leg of block `n`) and one for the operator bond `t — x`. -/
theorem two_site_heff_value_blocks (t x : Nat) (hamT hamX twoSite : Node) (bT bX : Nat → List (Leg × Leg))
    (cache : Dict)
    (hT : hamT.nbrs.Nodup) (hX : hamX.nbrs.Nodup) (hxT : x ∈ hamT.nbrs) (htX : t ∈ hamX.nbrs)
    (hdisj : ∀ n ∈ hamX.nbrs, n ∉ hamT.nbrs)
    (hS : twoSite.nbrs.Perm (hamT.nbrs.filter (· ≠ x) ++ hamX.nbrs.filter (· ≠ t)))
    (hcT : ∀ n ∈ hamT.nbrs, n ≠ x → cache (n, t) = some (gBlock n t (bT n)))
    (hcX : ∀ n ∈ hamX.nbrs, n ≠ t → cache (n, x) = some (gBlock n x (bX n))) :
    ∃ m : Mat, getEffectiveTwoSiteHamiltonian hamT hamX twoSite (gOpT t hamT) (gOpT x hamX) t x cache = some m ∧
      m.rows = twoSite.nbrs.map (fun n => if n ∈ hamT.nbrs then Leg.gBra n t else Leg.gBra n x) ++
                [Leg.gOpOut t, Leg.gOpOut x] ∧
      m.cols = twoSite.nbrs.map (fun n => if n ∈ hamT.nbrs then Leg.gKet n t else Leg.gKet n x) ++
                [Leg.gOpIn t, Leg.gOpIn x] ∧
      ∀ (dim : Leg → Nat) (e : Expr Leg R) (Wt Wx : Asg Leg → R) (KT KX : Nat → Expr Leg R),
        e.SWF → DependsOn (· ∈ (gOpT t hamT).legs) Wt → DependsOn (· ∈ (gOpT x hamX).legs) Wx →
        (∀ n ∈ hamT.nbrs.filter (· ≠ x), (KT n).WF) → (∀ n ∈ hamX.nbrs.filter (· ≠ t), (KX n).WF) →
        Expr.LabelsDisjoint (Expr.leaf (gOpT t hamT).legs Wt :: Expr.leaf (gOpT x hamX).legs Wx ::
          ((hamT.nbrs.filter (· ≠ x)).map KT ++ (hamX.nbrs.filter (· ≠ t)).map KX)) →
        (∀ n ∈ hamT.nbrs.filter (· ≠ x), (KT n).binds.Perm (bT n)) →
        (∀ n ∈ hamX.nbrs.filter (· ≠ t), (KX n).binds.Perm (bX n)) →
        e.binds.Perm m.binds →
        (∀ σ, e.leafProd σ = Wt σ * (Wx σ * (Expr.leafProdL ((hamT.nbrs.filter (· ≠ x)).map KT) σ *
          Expr.leafProdL ((hamX.nbrs.filter (· ≠ t)).map KX) σ))) →
        ∀ σ, e.eval dim σ =
          sumPairs dim ((opPairs t (hamT.nbrs.filter (· ≠ x)) ++ opPairs x (hamX.nbrs.filter (· ≠ t))) ++
              [(Leg.gOp t x, Leg.gOp x t)])
            (fun τ => Wt τ * (Wx τ * (Expr.evalL dim ((hamT.nbrs.filter (· ≠ x)).map KT) τ *
              Expr.evalL dim ((hamX.nbrs.filter (· ≠ t)).map KX) τ))) σ := by
  refine ⟨_, two_site_heff_graph t x hamT hamX twoSite bT bX cache hT hX hxT htX hdisj hS hcT hcX, rfl, rfl, ?_⟩
  intro dim e Wt Wx KT KX he hWt hWx hKT hKX hdis hbT hbX heb hleaf σ
  have hwf : ∀ y ∈ Expr.leaf (gOpT t hamT).legs Wt :: Expr.leaf (gOpT x hamX).legs Wx ::
      ((hamT.nbrs.filter (· ≠ x)).map KT ++ (hamX.nbrs.filter (· ≠ t)).map KX), y.WF := by
    intro y hy
    simp only [List.mem_cons, List.mem_append, List.mem_map] at hy
    rcases hy with rfl | rfl | ⟨n, hn, rfl⟩ | ⟨n, hn, rfl⟩
    · exact hWt
    · exact hWx
    · exact hKT n hn
    · exact hKX n hn
  have hrec : e.binds.Perm (((opPairs t (hamT.nbrs.filter (· ≠ x)) ++ opPairs x (hamX.nbrs.filter (· ≠ t))) ++
      [(Leg.gOp t x, Leg.gOp x t)]) ++
      Expr.bindsL (Expr.leaf (gOpT t hamT).legs Wt :: Expr.leaf (gOpT x hamX).legs Wx ::
        ((hamT.nbrs.filter (· ≠ x)).map KT ++ (hamX.nbrs.filter (· ≠ t)).map KX))) := by
    refine heb.trans ?_
    have h1 := record_perm (hamT.nbrs.filter (· ≠ x)) bT KT (fun n => (Leg.gOp t n, Leg.gOp n t)) hbT
    have h2 := record_perm (hamX.nbrs.filter (· ≠ t)) bX KX (fun n => (Leg.gOp x n, Leg.gOp n x)) hbX
    refine (List.Perm.append_right _ (List.Perm.append h1 h2)).trans ?_
    refine (perm_shuffle _ _ _ _ _).trans ?_
    refine List.Perm.append_left _ ?_
    simp only [Expr.bindsL, List.flatMap_cons, List.flatMap_append, Expr.binds, List.nil_append]
    exact List.Perm.refl _
  have := Expr.net_of_record dim e _ he hwf hdis _ hrec
    (fun σ => by
      rw [hleaf, Expr.leafProdL_cons, Expr.leafProdL_cons, Expr.leafProdL_append]
      simp [Expr.leafProd, Expr.leaves, prodL]) σ
  rw [this]
  exact sumPairs_congr dim _ (fun τ => by
    rw [Expr.evalL_cons, Expr.evalL_cons, Expr.evalL_append]; rfl) σ

theorem blockLeaves_pairwise (i : Nat) (Blk : Nat → Asg Leg → R) (ns : List Nat) (hnd : ns.Nodup) :
    Expr.LabelsDisjoint (blockLeaves i Blk ns) := by
  simp only [Expr.LabelsDisjoint, blockLeaves]
  rw [List.pairwise_map]
  refine List.Pairwise.imp_of_mem ?_ (List.nodup_iff_pairwise_ne.1 hnd)
  intro a b _ _ hab
  exact block_block_disjoint a i b i _ _ (fun h => absurd h hab)

/-- the two operator tensors and the blocks around the two sites use pairwise distinct labels -/
theorem two_site_leaves_disjoint (t x : Nat) (hamT hamX : Node) (Wt Wx : Asg Leg → R) (BT BX : Nat → Asg Leg → R)
    (hT : hamT.nbrs.Nodup) (hX : hamX.nbrs.Nodup) (hxT : x ∈ hamT.nbrs) (htX : t ∈ hamX.nbrs)
    (hdisj : ∀ n ∈ hamX.nbrs, n ∉ hamT.nbrs) :
    Expr.LabelsDisjoint (Expr.leaf (gOpT t hamT).legs Wt :: Expr.leaf (gOpT x hamX).legs Wx ::
      (blockLeaves t BT (hamT.nbrs.filter (· ≠ x)) ++ blockLeaves x BX (hamX.nbrs.filter (· ≠ t)))) := by
  have htx : t ≠ x := fun h => hdisj t htX (h ▸ hxT)
  have htT : t ∉ hamT.nbrs := hdisj t htX
  have hxX : x ∉ hamX.nbrs := fun h => hdisj x h hxT
  unfold Expr.LabelsDisjoint
  rw [List.pairwise_cons, List.pairwise_cons, List.pairwise_append]
  refine ⟨?_, ?_, blockLeaves_pairwise t BT _ (hT.filter _), blockLeaves_pairwise x BX _ (hX.filter _), ?_⟩
  · intro b hb
    simp only [List.mem_cons, List.mem_append, blockLeaves, List.mem_map, List.mem_filter] at hb
    rcases hb with rfl | ⟨n, ⟨_, _⟩, rfl⟩ | ⟨n, ⟨_, hn⟩, rfl⟩
    · exact op_op_disjoint t x hamT hamX Wt Wx htx
    · exact op_block_disjoint t hamT Wt n t _ (fun _ => htT)
    · exact op_block_disjoint t hamT Wt n x _ (fun h => absurd h.symm (by simpa using hn))
  · intro b hb
    simp only [List.mem_append, blockLeaves, List.mem_map, List.mem_filter] at hb
    rcases hb with ⟨n, ⟨_, hn⟩, rfl⟩ | ⟨n, ⟨_, _⟩, rfl⟩
    · exact op_block_disjoint x hamX Wx n t _ (fun h => absurd h.symm (by simpa using hn))
    · exact op_block_disjoint x hamX Wx n x _ (fun _ => hxX)
  · intro a ha b hb
    simp only [blockLeaves, List.mem_map] at ha hb
    obtain ⟨n, _, rfl⟩ := ha
    obtain ⟨n', _, rfl⟩ := hb
    exact block_block_disjoint n t n' x _ _ (fun _ => htx)

/-- **Two-site effective Hamiltonian, value level.**  With the cached blocks arbitrary tensors
`BT n [ket, op, bra]` (around the target `t`) and `BX n [ket, op, bra]` (around the next node `x`) and the two
operator tensors `Wt`, `Wx`:
`H_eff[rows; cols] = Σ_{operator legs, bond t—x} Wt[…, out_t, in_t] · Wx[…, out_x, in_x] · Π_n BT_n · Π_n BX_n`
for every assignment of the rows (bra legs in the two-site node's order, `out_t`, `out_x`) and columns. -/
theorem two_site_heff_value (t x : Nat) (hamT hamX twoSite : Node) (cache : Dict)
    (hT : hamT.nbrs.Nodup) (hX : hamX.nbrs.Nodup) (hxT : x ∈ hamT.nbrs) (htX : t ∈ hamX.nbrs)
    (hdisj : ∀ n ∈ hamX.nbrs, n ∉ hamT.nbrs)
    (hS : twoSite.nbrs.Perm (hamT.nbrs.filter (· ≠ x) ++ hamX.nbrs.filter (· ≠ t)))
    (hcT : ∀ n ∈ hamT.nbrs, n ≠ x → cache (n, t) = some (gBlock n t []))
    (hcX : ∀ n ∈ hamX.nbrs, n ≠ t → cache (n, x) = some (gBlock n x [])) :
    ∃ m : Mat, getEffectiveTwoSiteHamiltonian hamT hamX twoSite (gOpT t hamT) (gOpT x hamX) t x cache = some m ∧
      m.rows = twoSite.nbrs.map (fun n => if n ∈ hamT.nbrs then Leg.gBra n t else Leg.gBra n x) ++
                [Leg.gOpOut t, Leg.gOpOut x] ∧
      m.cols = twoSite.nbrs.map (fun n => if n ∈ hamT.nbrs then Leg.gKet n t else Leg.gKet n x) ++
                [Leg.gOpIn t, Leg.gOpIn x] ∧
      ∀ (dim : Leg → Nat) (e : Expr Leg R) (Wt Wx : Asg Leg → R) (BT BX : Nat → Asg Leg → R),
        e.SWF → DependsOn (· ∈ (gOpT t hamT).legs) Wt → DependsOn (· ∈ (gOpT x hamX).legs) Wx →
        (∀ n ∈ hamT.nbrs.filter (· ≠ x), DependsOn (· ∈ blockLegs n t) (BT n)) →
        (∀ n ∈ hamX.nbrs.filter (· ≠ t), DependsOn (· ∈ blockLegs n x) (BX n)) →
        e.binds.Perm m.binds →
        (∀ σ, e.leafProd σ = Wt σ * (Wx σ * (prodL ((hamT.nbrs.filter (· ≠ x)).map fun n => BT n σ) *
          prodL ((hamX.nbrs.filter (· ≠ t)).map fun n => BX n σ)))) →
        ∀ σ, e.eval dim σ =
          sumPairs dim ((opPairs t (hamT.nbrs.filter (· ≠ x)) ++ opPairs x (hamX.nbrs.filter (· ≠ t))) ++
              [(Leg.gOp t x, Leg.gOp x t)])
            (fun τ => Wt τ * (Wx τ * (prodL ((hamT.nbrs.filter (· ≠ x)).map fun n => BT n τ) *
              prodL ((hamX.nbrs.filter (· ≠ t)).map fun n => BX n τ)))) σ := by
  obtain ⟨m, hm, hr, hc, hval⟩ := two_site_heff_value_blocks (R := R) t x hamT hamX twoSite (fun _ => [])
    (fun _ => []) cache hT hX hxT htX hdisj hS hcT hcX
  refine ⟨m, hm, hr, hc, ?_⟩
  intro dim e Wt Wx BT BX he hWt hWx hBT hBX heb hleaf σ
  have hlp : ∀ (i : Nat) (B : Nat → Asg Leg → R) (ns : List Nat) (σ : Asg Leg),
      Expr.leafProdL (ns.map fun n => Expr.leaf (blockLegs n i) (B n)) σ = prodL (ns.map fun n => B n σ) := by
    intro i B ns σ
    simp [Expr.leafProdL, Expr.leafProd, Expr.leaves, prodL, List.map_map, Function.comp_def]
  have h := hval dim e Wt Wx (fun n => Expr.leaf (blockLegs n t) (BT n)) (fun n => Expr.leaf (blockLegs n x) (BX n))
    he hWt hWx (fun n hn => hBT n hn) (fun n hn => hBX n hn)
    (two_site_leaves_disjoint t x hamT hamX Wt Wx BT BX hT hX hxT htX hdisj)
    (fun n _ => List.Perm.refl _) (fun n _ => List.Perm.refl _) heb
    (fun σ => by rw [hleaf, hlp, hlp]) σ
  rw [h]
  exact sumPairs_congr dim _ (fun τ => by rw [Expr.evalL_map_leaf, Expr.evalL_map_leaf]) σ

end Ptn.C05.Heff
