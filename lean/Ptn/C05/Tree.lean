import Ptn.C05.Core
import Ptn.C17.Segments
import Ptn.C17.Examples
/-! C05 on trees: with the segments of the TDVP sweep of a well-formed tree (C17: `segsOf`,
`lastOf`) the hypotheses of the schedule theorems hold, so the signed durations are stated for
every node and every edge *of the tree*.  No hypothesis about the segments is left. -/
namespace Ptn.C05
open Ptn.C17 Ptn.C17.RTree

theorem sameEdge_iff_unord (a b x y : Nat) :
    sameEdge a b x y = true ↔ unord (a, b) = unord (x, y) := by
  rw [unord_eq_iff]
  simp [sameEdge]

/-- `edgeCount` counts the occurrences of the unoriented pair -/
theorem edgeCount_eq_count (a b : Nat) : ∀ segs : List Seg,
    edgeCount a b segs = ((segs.map unord).count (unord (a, b)) : Nat)
  | [] => by simp [edgeCount]
  | s :: segs => by
    have ih := edgeCount_eq_count a b segs
    simp only [edgeCount, List.map_cons, List.sum_cons, List.count_cons] at ih ⊢
    rw [ih]
    by_cases h : sameEdge a b s.1 s.2 = true
    · have := (sameEdge_iff_unord a b s.1 s.2).mp h
      simp [h, this]; omega
    · have : ¬ unord (a, b) = unord (s.1, s.2) := fun e => h ((sameEdge_iff_unord a b s.1 s.2).mpr e)
      have h' : ¬ unord s = unord (a, b) := fun e => this e.symm
      simp [h, h']

/-- every edge of the tree is a segment exactly once -/
theorem tree_edgeCount (t : RTree) (hwf : t.WF) {a b : Nat} (h : Adj t a b) :
    edgeCount a b (segsOf t) = 1 := by
  rw [edgeCount_eq_count, (segs_edges_perm t hwf).count_eq, (edges_unord_nodup t hwf).count]
  have : unord (a, b) ∈ (edges t).map unord := by
    rcases h with h | h
    · exact List.mem_map.mpr ⟨(a, b), h, rfl⟩
    · exact List.mem_map.mpr ⟨(b, a), h, unord_swap b a⟩
  simp [this]

/-- a pair that is not an edge of the tree is no segment -/
theorem tree_edgeCount_non_edge (t : RTree) (hwf : t.WF) {a b : Nat} (h : ¬ Adj t a b) :
    edgeCount a b (segsOf t) = 0 := by
  rw [edgeCount_eq_count, (segs_edges_perm t hwf).count_eq, (edges_unord_nodup t hwf).count]
  have : unord (a, b) ∉ (edges t).map unord := by
    intro hm
    obtain ⟨e, he, hu⟩ := List.mem_map.mp hm
    obtain ⟨c, d⟩ := e
    rcases (unord_eq_iff c d a b).mp hu with ⟨rfl, rfl⟩ | ⟨rfl, rfl⟩
    · exact h (Or.inl he)
    · exact h (Or.inr he)
  simp [this]

/-- the nodes of the sweep are the update path: every node of the tree exactly once -/
theorem tree_nodes (t : RTree) (hwf : t.WF) :
    updatePath t = some (nodes (segsOf t) (lastOf t)) ∧
      (nodes (segsOf t) (lastOf t)).Nodup ∧ (nodes (segsOf t) (lastOf t)).Perm (ids t) := by
  obtain ⟨p, hp, _, _, hpe, hperm, hnd⟩ := segs_nodes t hwf
  have : nodes (segsOf t) (lastOf t) = p := by rw [← hpe]; simp [nodes]
  rw [this]; exact ⟨hp, hnd, hperm⟩

theorem segs_no_loop (t : RTree) (hwf : t.WF) : ∀ s ∈ segsOf t, s.1 ≠ s.2 := by
  intro s hs
  have : unord s ∈ (edges t).map unord :=
    (segs_edges_perm t hwf).subset (List.mem_map.mpr ⟨s, hs, rfl⟩)
  obtain ⟨e, he, hu⟩ := List.mem_map.mp this
  obtain ⟨c, d⟩ := e
  obtain ⟨x, y⟩ := s
  have hcd := edge_ne hwf he
  rcases (unord_eq_iff c d x y).mp hu with ⟨rfl, rfl⟩ | ⟨rfl, rfl⟩
  · exact hcd
  · exact fun e => hcd e.symm

/-- the degree in the list of segments is the degree in the tree -/
theorem tree_degree (t : RTree) (hwf : t.WF) (v : Nat) :
    degree v (segsOf t) = (RTree.degree t v : Nat) := by
  rw [← segs_degree t hwf v]
  have hl := segs_no_loop t hwf
  generalize segsOf t = segs at hl
  induction segs with
  | nil => simp [degree]
  | cons s rest ih =>
    have ih' := ih (fun s hs => hl s (by simp [hs]))
    have hs := hl s (by simp)
    simp only [degree, List.map_cons, List.sum_cons] at ih' ⊢
    rw [ih']
    by_cases h1 : s.1 = v <;> by_cases h2 : s.2 = v
    · exact absurd (h1.trans h2.symm) hs
    · simp [List.filter_cons, h1, h2]; omega
    · simp [List.filter_cons, h1, h2]; omega
    · simp [List.filter_cons, h1, h2]

/-! ### The schedules on a tree -/

/-- First-order one-site TDVP on any well-formed tree: every node of the tree is evolved for `+dt`
    in total, every edge of the tree for `-dt`, and the signed durations sum to `dt`. -/
theorem first_order_tree (t : RTree) (hwf : t.WF) :
    (∀ v ∈ ids t, siteTotal v (first (segsOf t) (lastOf t)) = 2) ∧
    (∀ a b, Adj t a b → linkTotal a b (first (segsOf t) (lastOf t)) = -2) ∧
    durTotal (first (segsOf t) (lastOf t)) = 2 := by
  obtain ⟨_, hnd, hperm⟩ := tree_nodes t hwf
  refine ⟨?_, ?_, first_sum _ _⟩
  · intro v hv
    exact first_site_total _ _ v hnd (hperm.symm.subset hv)
  · intro a b hab
    rw [first_link_total, tree_edgeCount t hwf hab]; rfl

/-- Second-order one-site TDVP on any well-formed tree with at least two nodes: the schedule is
    defined, every node gets `+dt`, every edge `-dt`, total `dt`. -/
theorem second_order_tree (t : RTree) (hwf : t.WF) (hkids : t.kids ≠ []) :
    ∃ tr, second (segsOf t) (lastOf t) = some tr ∧
      (∀ v ∈ ids t, siteTotal v tr = 2) ∧
      (∀ a b, Adj t a b → linkTotal a b tr = -2) ∧
      durTotal tr = 2 := by
  obtain ⟨_, hnd, hperm⟩ := tree_nodes t hwf
  obtain ⟨init, s, hseg, hadj⟩ := segs_last_adjacent t hwf hkids
  have hec := fun {a b : Nat} (h : Adj t a b) => tree_edgeCount t hwf h
  rw [hseg] at hnd hperm hec ⊢
  refine ⟨_, second_defined init s _, ?_, ?_, ?_⟩
  · intro v hv
    obtain ⟨tr, h1, h2⟩ := second_site_total init s _ v hnd (hperm.symm.subset hv)
    rw [second_defined] at h1; exact (Option.some.inj h1) ▸ h2
  · intro a b hab
    obtain ⟨tr, h1, h2⟩ := second_link_total init s _ a b hadj
    rw [second_defined] at h1
    rw [Option.some.inj h1, h2, hec hab]; rfl
  · obtain ⟨tr, h1, h2⟩ := second_sum init s (lastOf t)
    rw [second_defined] at h1; exact (Option.some.inj h1) ▸ h2

/-- Second-order two-site TDVP on any well-formed tree with at least two nodes: the schedule is
    defined, every edge of the tree gets `+dt`, every node `v` gets `-(deg v - 1)·dt` with `deg`
    the degree in the tree, total `dt`. -/
theorem two_site_tree (t : RTree) (hwf : t.WF) (hkids : t.kids ≠ []) :
    ∃ tr, twoSite (segsOf t) (lastOf t) = some tr ∧
      (∀ a b, Adj t a b → twoTotal a b tr = 2) ∧
      (∀ v ∈ ids t, siteTotal v tr = -2 * ((RTree.degree t v : Nat) - 1)) ∧
      durTotal tr = 2 := by
  obtain ⟨_, hnd, hperm⟩ := tree_nodes t hwf
  obtain ⟨init, s, hseg, hadj⟩ := segs_last_adjacent t hwf hkids
  have hec := fun {a b : Nat} (h : Adj t a b) => tree_edgeCount t hwf h
  have hdeg := tree_degree t hwf
  rw [hseg] at hnd hperm hec hdeg ⊢
  refine ⟨_, twoSite_defined init s _, ?_, ?_, ?_⟩
  · intro a b hab
    obtain ⟨tr, h1, h2⟩ := twoSite_edge_total init s _ a b hadj
    rw [twoSite_defined] at h1
    rw [Option.some.inj h1, h2, hec hab]; rfl
  · intro v hv
    obtain ⟨tr, h1, h2⟩ := twoSite_site_total init s _ v hadj hnd (hperm.symm.subset hv)
    rw [twoSite_defined] at h1
    rw [Option.some.inj h1, h2, hdeg v]
  · obtain ⟨tr, h1, h2⟩ := twoSite_sum init s (lastOf t)
    rw [twoSite_defined] at h1; exact (Option.some.inj h1) ▸ h2

/-! ### Non-vacuity: the tree of the C17 examples (8 nodes) -/

example : exTree.WF ∧ exTree.kids ≠ [] := by decide
example : segsOf exTree = [(7, 6), (6, 5), (5, 0), (2, 0), (0, 1), (4, 1), (1, 3)] ∧
    lastOf exTree = 3 := by decide
example : (twoSite (segsOf exTree) (lastOf exTree)).map (siteTotal 0) = some (-4) := by decide
example : RTree.degree exTree 0 = 3 := by decide

end Ptn.C05
