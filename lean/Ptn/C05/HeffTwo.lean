import Ptn.C05.HeffLemmas
/-! The two-site effective Hamiltonian. -/
namespace Ptn.C05.Heff
open Ptn.C04

/-- position of a neighbour after the ignored neighbour has been taken out -/
theorem idx_shift (L : List Nat) (x n : Nat) (hL : L.Nodup) (hx : x ∈ L) (hn : n ∈ L) (hne : n ≠ x) :
    L.idxOf n + (if L.idxOf n < L.idxOf x then 1 else 0) = (L.filter (· ≠ x)).idxOf n + 1 := by
  obtain ⟨A, B, rfl⟩ := List.append_of_mem hx
  obtain ⟨hxA, hxB, _, _, hd⟩ := nodup_mid hL
  rw [filter_ne_mid A B x hxA hxB, idxOf_append_mid A B x hxA]
  by_cases hA : n ∈ A
  · have hlt := List.idxOf_lt_length_of_mem hA
    simp only [List.idxOf_append, hA, if_true]
    simp [hlt]
  · have hB : n ∈ B := by
      simp only [List.mem_append, List.mem_cons] at hn
      rcases hn with h | h | h
      · exact absurd h hA
      · exact absurd h hne
      · exact h
    have hb : (x == n) = false := by simpa using fun e => hne e.symm
    simp only [List.idxOf_append, hA, if_false, List.idxOf_cons, hb, cond_false]
    have : ¬ (B.idxOf n + 1 + A.length < A.length) := by omega
    simp only [this, if_false]
    omega

section
variable (t x : Nat) (hamT hamX : Node)
variable (hT : hamT.nbrs.Nodup) (hX : hamX.nbrs.Nodup) (hxT : x ∈ hamT.nbrs) (htX : t ∈ hamX.nbrs)
variable (hdisj : ∀ n ∈ hamX.nbrs, n ∉ hamT.nbrs)

/-- the ket-leg position of the block of neighbour `n` in the contracted two-site tensor -/
def pos (n : Nat) : Nat :=
  if n ∈ hamT.nbrs then 2 * ((hamT.nbrs.filter (· ≠ x)).idxOf n + 1)
  else 2 * hamT.nn + 2 * ((hamX.nbrs.filter (· ≠ t)).idxOf n + 1)

include hT hX hxT htX hdisj in
theorem twoSiteInputLegs_eq (l : List Nat)
    (hl : ∀ n ∈ l, n ∈ hamT.nbrs.filter (· ≠ x) ∨ n ∈ hamX.nbrs.filter (· ≠ t)) :
    twoSiteInputLegs hamT hamX t x l = some (l.map (pos t x hamT hamX)) := by
  induction l with
  | nil => rfl
  | cons n rest ih =>
    have ih' := ih (fun m hm => hl m (by simp [hm]))
    simp only [twoSiteInputLegs, ih', List.map_cons]
    rcases hl n (by simp) with h | h
    · have hn := (List.mem_filter.1 h).1
      have hne : n ≠ x := by simpa using (List.mem_filter.1 h).2
      have := idx_shift hamT.nbrs x n hT hxT hn hne
      simp only [hn, if_true, findBlockLegTargetNode, Node.neighbourIndex_of_mem _ _ hxT,
        Node.neighbourIndex_of_mem _ _ hn, pos, this]
    · have hn := (List.mem_filter.1 h).1
      have hne : n ≠ t := by simpa using (List.mem_filter.1 h).2
      have hnT : n ∉ hamT.nbrs := hdisj n hn
      have := idx_shift hamX.nbrs t n hX htX hn hne
      simp only [hnT, hn, if_true, if_false, findBlockLegNextNode, findBlockLegTargetNode,
        Node.neighbourIndex_of_mem _ _ htX, Node.neighbourIndex_of_mem _ _ hn, pos, this]

end

/-- the two-site effective Hamiltonian, general form.  `t` = target, `x` = next; `twoSite` is the state's
contracted two-site node. -/
theorem twoSiteHeff_eq (t x : Nat) (hamT hamX twoSite : Node) (bT bX : Nat → List (Leg × Leg)) (cache : Dict)
    (hT : hamT.nbrs.Nodup) (hX : hamX.nbrs.Nodup) (hxT : x ∈ hamT.nbrs) (htX : t ∈ hamX.nbrs)
    (hdisj : ∀ n ∈ hamX.nbrs, n ∉ hamT.nbrs)
    (hS : twoSite.nbrs.Perm (hamT.nbrs.filter (· ≠ x) ++ hamX.nbrs.filter (· ≠ t)))
    (hcT : ∀ n ∈ hamT.nbrs, n ≠ x → cache (n, t) = some (gBlock n t (bT n)))
    (hcX : ∀ n ∈ hamX.nbrs, n ≠ t → cache (n, x) = some (gBlock n x (bX n))) :
    getEffectiveTwoSiteHamiltonian hamT hamX twoSite (gOpT t hamT) (gOpT x hamX) t x cache =
      some ⟨twoSite.nbrs.map (fun n => if n ∈ hamT.nbrs then Leg.gBra n t else Leg.gBra n x) ++
              [Leg.gOpOut t, Leg.gOpOut x],
            twoSite.nbrs.map (fun n => if n ∈ hamT.nbrs then Leg.gKet n t else Leg.gKet n x) ++
              [Leg.gOpIn t, Leg.gOpIn x],
            ((hamT.nbrs.filter (· ≠ x)).flatMap (fun n => bT n ++ [(Leg.gOp t n, Leg.gOp n t)]) ++
             (hamX.nbrs.filter (· ≠ t)).flatMap (fun n => bX n ++ [(Leg.gOp x n, Leg.gOp n x)])) ++
            [(Leg.gOp t x, Leg.gOp x t)]⟩ := by
  have hbT := allButOne_general 1 (Leg.gOp t) (fun n => gBlock n t (bT n)) (fun n => Leg.gOp n t)
    [Leg.gOpOut t, Leg.gOpIn t] (cache.cacheOf t) hamT x hT hxT
    (fun n hn hne => ⟨hcT n hn hne, by simp [gBlock]⟩)
  have hbX := allButOne_general 1 (Leg.gOp x) (fun n => gBlock n x (bX n)) (fun n => Leg.gOp n x)
    [Leg.gOpOut x, Leg.gOpIn x] (cache.cacheOf x) hamX t hX htX
    (fun n hn hne => ⟨hcX n hn hne, by simp [gBlock]⟩)
  simp only [gBlock, List.eraseIdx_cons_succ, List.eraseIdx_cons_zero] at hbT hbX
  have hperm := twoSiteInputLegs_eq t x hamT hamX hT hX hxT htX hdisj twoSite.nbrs
    (fun n hn => by simpa using hS.mem_iff.1 hn)
  simp only [getEffectiveTwoSiteHamiltonian, contractAllExceptTwoNodes, contractAllButOneNeighbourBlockToHamiltonian,
    gOpT, hbT, hbX, determineTwoSiteLegPermutation, hperm]
  rw [tensordot_one _ _ _ _ (Leg.gOp t x) (Leg.gOp x t) (by simp) (by simp)]
  simp only [List.eraseIdx_cons_zero, List.cons_append, List.nil_append]
  generalize hFt : hamT.nbrs.filter (· ≠ x) = Ft at *
  generalize hFx : hamX.nbrs.filter (· ≠ t) = Fx at *
  generalize hSd : twoSite.nbrs = S at *
  have hnn : hamT.nn = Ft.length + 1 := by
    rw [Node.nn_eq, ← hFt]; exact length_filter_ne hamT.nbrs x hT hxT
  have hmemT : ∀ n ∈ Ft, n ∈ hamT.nbrs := fun n hn => by rw [← hFt] at hn; exact (List.mem_filter.1 hn).1
  have hmemX : ∀ n ∈ Fx, n ∈ hamX.nbrs ∧ n ∉ hamT.nbrs := fun n hn => by
    rw [← hFx] at hn; exact ⟨(List.mem_filter.1 hn).1, hdisj n (List.mem_filter.1 hn).1⟩
  have hScases : ∀ n ∈ S, (n ∈ hamT.nbrs ∧ n ∈ Ft) ∨ (n ∉ hamT.nbrs ∧ n ∈ Fx) := by
    intro n hn
    rcases List.mem_append.1 (hS.mem_iff.1 hn) with h | h
    · exact Or.inl ⟨hmemT n h, h⟩
    · exact Or.inr ⟨(hmemX n h).2, h⟩
  -- the contracted tensor
  let Lall : List Leg := Leg.gOpOut t :: Leg.gOpIn t ::
    (Ft.flatMap (fun n => [Leg.gKet n t, Leg.gBra n t]) ++
      Leg.gOpOut x :: Leg.gOpIn x :: Fx.flatMap (fun n => [Leg.gKet n x, Leg.gBra n x]))
  have hlenT := length_pairs Ft (fun n => Leg.gKet n t) (fun n => Leg.gBra n t)
  have hlenX := length_pairs Fx (fun n => Leg.gKet n x) (fun n => Leg.gBra n x)
  have hget : ∀ n ∈ S,
      Lall[pos t x hamT hamX n]? = some (if n ∈ hamT.nbrs then Leg.gKet n t else Leg.gKet n x) ∧
      Lall[pos t x hamT hamX n + 1]? = some (if n ∈ hamT.nbrs then Leg.gBra n t else Leg.gBra n x) := by
    intro n hn
    rcases hScases n hn with ⟨h1, h2⟩ | ⟨h1, h2⟩
    · have hlt := List.idxOf_lt_length_of_mem h2
      have := getElem?_pairs [Leg.gOpOut t, Leg.gOpIn t] Ft (fun n => Leg.gKet n t) (fun n => Leg.gBra n t)
        (Leg.gOpOut x :: Leg.gOpIn x :: Fx.flatMap (fun n => [Leg.gKet n x, Leg.gBra n x])) (Ft.idxOf n) hlt
      simp only [List.getElem_idxOf hlt, List.length_cons, List.length_nil, List.cons_append, List.nil_append]
        at this
      have e : 0 + 1 + 1 + 2 * Ft.idxOf n = 2 * (Ft.idxOf n + 1) := by omega
      rw [e] at this
      simp only [pos, h1, if_true, hFt, Lall]
      exact this
    · have hlt := List.idxOf_lt_length_of_mem h2
      have := getElem?_pairs (Leg.gOpOut t :: Leg.gOpIn t ::
          (Ft.flatMap (fun n => [Leg.gKet n t, Leg.gBra n t]) ++ [Leg.gOpOut x, Leg.gOpIn x])) Fx
        (fun n => Leg.gKet n x) (fun n => Leg.gBra n x) [] (Fx.idxOf n) hlt
      simp only [List.getElem_idxOf hlt, List.length_cons, List.length_nil, List.cons_append, List.nil_append,
        List.append_assoc, List.append_nil, List.length_append, hlenT] at this
      have e : 2 * Ft.length + (0 + 1 + 1) + 1 + 1 + 2 * Fx.idxOf n = 2 * (Ft.length + 1) + 2 * (Fx.idxOf n + 1) := by
        omega
      rw [e] at this
      simp only [pos, h1, if_false, hFx, hnn, Lall]
      exact this
  have hpick : pick Lall
      ((S.map (pos t x hamT hamX)).map (· + 1) ++ [0, 2 * hamT.nn] ++
        (S.map (pos t x hamT hamX) ++ [1, 2 * hamT.nn + 1])) =
      some ((S.map (fun n => if n ∈ hamT.nbrs then Leg.gBra n t else Leg.gBra n x) ++
              [Leg.gOpOut t, Leg.gOpOut x]) ++
            (S.map (fun n => if n ∈ hamT.nbrs then Leg.gKet n t else Leg.gKet n x) ++
              [Leg.gOpIn t, Leg.gOpIn x])) := by
    have hox : Lall[2 * hamT.nn]? = some (Leg.gOpOut x) ∧ Lall[2 * hamT.nn + 1]? = some (Leg.gOpIn x) := by
      have h0 := getElem?_append_mid (Leg.gOpOut t :: Leg.gOpIn t :: Ft.flatMap (fun n => [Leg.gKet n t, Leg.gBra n t]))
        (Leg.gOpIn x :: Fx.flatMap (fun n => [Leg.gKet n x, Leg.gBra n x])) (Leg.gOpOut x)
      have h1 := getElem?_append_mid (Leg.gOpOut t :: Leg.gOpIn t ::
        (Ft.flatMap (fun n => [Leg.gKet n t, Leg.gBra n t]) ++ [Leg.gOpOut x]))
        (Fx.flatMap (fun n => [Leg.gKet n x, Leg.gBra n x])) (Leg.gOpIn x)
      simp only [List.length_cons, List.length_append, List.length_nil, hlenT, List.cons_append,
        List.append_assoc, List.nil_append] at h0 h1
      have e0 : 2 * Ft.length + 1 + 1 = 2 * hamT.nn := by omega
      have e1 : 2 * Ft.length + (0 + 1) + 1 + 1 = 2 * hamT.nn + 1 := by omega
      rw [e0] at h0
      rw [e1] at h1
      exact ⟨h0, h1⟩
    apply pick_append
    · apply pick_append
      · rw [List.map_map]
        apply pick_map; intro n hn; exact (hget n hn).2
      · simp only [pick, hox.1]
        have : Lall[0]? = some (Leg.gOpOut t) := rfl
        simp [this]
    · apply pick_append
      · apply pick_map; intro n hn; exact (hget n hn).1
      · simp only [pick, hox.2]
        have : Lall[1]? = some (Leg.gOpIn t) := rfl
        simp [this]
  -- the permutation has no repeated axis
  have hSnd : S.Nodup := by
    have h1 : (Ft ++ Fx).Nodup := by
      rw [List.nodup_append]
      refine ⟨by rw [← hFt]; exact nodup_filter _ hT, by rw [← hFx]; exact nodup_filter _ hX, ?_⟩
      intro a ha b hb e
      exact (hmemX b hb).2 (e ▸ hmemT a ha)
    exact hS.nodup_iff.2 h1
  have hposb : ∀ n ∈ S, 2 ≤ pos t x hamT hamX n ∧ pos t x hamT hamX n % 2 = 0 ∧
      pos t x hamT hamX n ≠ 2 * hamT.nn := by
    intro n hn
    rcases hScases n hn with ⟨h1, h2⟩ | ⟨h1, h2⟩
    · have hlt := List.idxOf_lt_length_of_mem h2
      simp only [pos, h1, if_true, hFt]
      omega
    · simp only [pos, h1, if_false, hFx]
      omega
  have hposinj : ∀ a ∈ S, ∀ b ∈ S, pos t x hamT hamX a = pos t x hamT hamX b → a = b := by
    intro a ha b hb e
    rcases hScases a ha with ⟨a1, a2⟩ | ⟨a1, a2⟩ <;> rcases hScases b hb with ⟨b1, b2⟩ | ⟨b1, b2⟩
    · simp only [pos, a1, b1, if_true, hFt] at e
      exact idxOf_inj a2 b2 (by omega)
    · have hlt := List.idxOf_lt_length_of_mem a2
      simp only [pos, a1, b1, if_true, if_false, hFt, hFx] at e
      omega
    · have hlt := List.idxOf_lt_length_of_mem b2
      simp only [pos, a1, b1, if_true, if_false, hFt, hFx] at e
      omega
    · simp only [pos, a1, b1, if_false, hFx] at e
      exact idxOf_inj a2 b2 (by omega)
  have hnd : ((S.map (pos t x hamT hamX)).map (· + 1) ++ [0, 2 * hamT.nn] ++
        (S.map (pos t x hamT hamX) ++ [1, 2 * hamT.nn + 1])).Nodup := by
    rw [List.nodup_append]
    refine ⟨?_, ?_, ?_⟩
    · rw [List.nodup_append, List.map_map]
      refine ⟨nodup_map_of_inj_on _ _ hSnd (fun a ha b hb e => hposinj a ha b hb (by simp at e; omega)), ?_, ?_⟩
      · simp; omega
      · intro a ha b hb
        obtain ⟨n, hn, rfl⟩ := List.mem_map.1 ha
        have := hposb n hn
        simp only [List.mem_cons, List.not_mem_nil, or_false] at hb
        simp only [Function.comp]
        rcases hb with rfl | rfl <;> omega
    · rw [List.nodup_append]
      refine ⟨nodup_map_of_inj_on _ _ hSnd hposinj, ?_, ?_⟩
      · simp; omega
      · intro a ha b hb
        obtain ⟨n, hn, rfl⟩ := List.mem_map.1 ha
        have := hposb n hn
        simp only [List.mem_cons, List.not_mem_nil, or_false] at hb
        rcases hb with rfl | rfl <;> omega
    · intro a ha b hb
      have hA : (∃ n ∈ S, a = pos t x hamT hamX n + 1) ∨ a = 0 ∨ a = 2 * hamT.nn := by
        rcases List.mem_append.1 ha with h | h
        · obtain ⟨y, hy, rfl⟩ := List.mem_map.1 h
          obtain ⟨n, hn, rfl⟩ := List.mem_map.1 hy
          exact Or.inl ⟨n, hn, rfl⟩
        · simp only [List.mem_cons, List.not_mem_nil, or_false] at h
          exact Or.inr h
      have hB : (∃ m ∈ S, b = pos t x hamT hamX m) ∨ b = 1 ∨ b = 2 * hamT.nn + 1 := by
        rcases List.mem_append.1 hb with h | h
        · obtain ⟨m, hm, rfl⟩ := List.mem_map.1 h
          exact Or.inl ⟨m, hm, rfl⟩
        · simp only [List.mem_cons, List.not_mem_nil, or_false] at h
          exact Or.inr h
      rcases hA with ⟨n, hn, rfl⟩ | rfl | rfl
      · have hpn := hposb n hn
        rcases hB with ⟨m, hm, rfl⟩ | rfl | rfl
        · have hpm := hposb m hm; omega
        · omega
        · omega
      · rcases hB with ⟨m, hm, rfl⟩ | rfl | rfl
        · have hpm := hposb m hm; omega
        · omega
        · omega
      · rcases hB with ⟨m, hm, rfl⟩ | rfl | rfl
        · have hpm := hposb m hm; omega
        · omega
        · omega
  have hlenS : S.length = Ft.length + Fx.length := by
    have := hS.length_eq; simpa using this
  have hlenax : ((S.map (pos t x hamT hamX)).map (· + 1) ++ [0, 2 * hamT.nn] ++
        (S.map (pos t x hamT hamX) ++ [1, 2 * hamT.nn + 1])).length = Lall.length := by
    simp only [Lall, List.length_append, List.length_map, List.length_cons, List.length_nil, hlenT, hlenX]
    omega
  show (match transposeT ⟨Lall, _⟩ _ with | none => none | some t => matricisationHalf t) = _
  simp only [transposeT, hlenax, hnd, ne_eq, not_true_eq_false, or_self, if_false, hpick, matricisationHalf]
  have hl2 : ((S.map (fun n => if n ∈ hamT.nbrs then Leg.gBra n t else Leg.gBra n x) ++
              [Leg.gOpOut t, Leg.gOpOut x]) ++
            (S.map (fun n => if n ∈ hamT.nbrs then Leg.gKet n t else Leg.gKet n x) ++
              [Leg.gOpIn t, Leg.gOpIn x])).length = 2 * (S.length + 2) := by simp; omega
  have hhalf : 2 * (S.length + 2) / 2 = S.length + 2 := by omega
  simp only [hl2, Nat.mul_mod_right, hhalf]
  rw [take_append_len _ _ _ (by simp), drop_append_len _ _ _ (by simp)]
  simp

end Ptn.C05.Heff
