import Ptn.C05.SiteProjected
/-! `H_link = E† H E` for every edge of every tree with the CANONICAL `E`, `H`, `B` — no quantified split
(C05, value level, builder B63).

* `seqEnv_facts`        generic: the canonical program `seqExpr` over ANY part `L` of the tensors of a layer of a tree
                        and ANY part `Ed` of its edges whose virtual legs are labels of `L` is admissible (SWF, leaves,
                        record, physical legs free) — the facts `envExpr_facts` proves for the single-site choice;
* `linkEnvExpr Λ c t`   the canonical contraction of the tensors of the layer at ALL nodes of `c.plug t` over all bonds
                        except the bond `p — t.id` into the hole (the network with this bond opened);
* `link_heff_eq_projected`  every program the model's link matrix is built from evaluates to
                        `Σ_{phys'} (Σ_{phys} linkEnvKet · opAll) · linkEnvBra`. -/
namespace Ptn.C05.Heff
open Ptn.C04 Ptn.Ein

set_option linter.unusedSectionVars false
variable {R : Type} [CommSemiring R]

/-- **the canonical program over a part of a layer is admissible** (generic form of `envExpr_facts`): `L` tensors of
the layer `Λ` of the tree `T0` with pairwise distinct labels, `Ed` a part of the edges of `T0` (`T0.edges ~ rest ++ Ed`)
whose virtual legs are all labels of `L`. -/
theorem seqEnv_facts (Λ : Layer R) (hs : Λ.Inj) (hnode : ∀ a b, legNode (Λ.vleg a b) = some a)
    (T0 : Tree) (hnd : T0.ids.Nodup)
    (hh : ∀ e ∈ Tree.info none T0, Λ.Has e)
    (hok : ∀ e ∈ Tree.info none T0, NodeOK Λ.nodeLeaves e)
    (hloc : ∀ e ∈ Tree.info none T0, DependsOn (· ∈ Λ.legs e.1 e.2.1 e.2.2) (Λ.val e.1))
    (L : List (LeafT R)) (Ed rest : List (Nat × Nat))
    (hndE : (labelsOf L).Nodup)
    (hsub : ∀ lf ∈ L, lf ∈ treeLeaves Λ.nodeLeaves none T0)
    (hedges : T0.edges.Perm (rest ++ Ed))
    (hlegsIn : ∀ l ∈ Expr.pairLegs (Ed.map fun e => Λ.edge e.1 e.2), l ∈ labelsOf L) :
    (seqExpr (Ed.map fun e => Λ.edge e.1 e.2) L).SWF ∧
      (seqExpr (Ed.map fun e => Λ.edge e.1 e.2) L).leaves = ([], fun _ => 1) :: L ∧
      (unordL (seqExpr (Ed.map fun e => Λ.edge e.1 e.2) L).binds).Perm (unordL (Ed.map fun e => Λ.edge e.1 e.2)) ∧
      (∀ l, (∀ a b, l ≠ Λ.vleg a b) → l ∈ labelsOf L → l ∈ (seqExpr (Ed.map fun e => Λ.edge e.1 e.2) L).free) := by
  have hnone : ∀ q, (none : Option Nat) = some q → q ∉ T0.ids := fun q hq => by simp at hq
  have hlocE : ∀ lf ∈ L, DependsOn (· ∈ lf.1) lf.2 := by
    intro lf hlf
    obtain ⟨x, hx, h⟩ := treeLeaves_sub _ _ none lf (hsub lf hlf)
    simp only [Layer.nodeLeaves, List.mem_singleton] at h
    subst h
    exact hloc x hx
  have hswfT := layExpr_swf Λ hs T0 none hnd hnone hh hok hloc
  have hbT := layExpr_binds Λ T0 none
  have hPT : (Expr.pairLegs (T0.edges.map fun e => Λ.edge e.1 e.2)).Nodup :=
    (pairLegs_perm hbT).nodup_iff.1 (Expr.binds_nodup _ hswfT)
  have hPTe := (pairLegs_perm (hedges.map fun e => Λ.edge e.1 e.2)).nodup_iff.1 hPT
  have hsubl : (Expr.pairLegs (Ed.map fun e => Λ.edge e.1 e.2)).Sublist
      (Expr.pairLegs ((rest ++ Ed).map fun e => Λ.edge e.1 e.2)) := by
    have h0 : (Ed.map fun e => Λ.edge e.1 e.2).Sublist ((rest ++ Ed).map fun e => Λ.edge e.1 e.2) := by
      rw [List.map_append]
      exact List.sublist_append_right _ _
    exact (h0.map Prod.fst).append (h0.map Prod.snd)
  have hP : (Expr.pairLegs (Ed.map fun e => Λ.edge e.1 e.2)).Nodup := List.Nodup.sublist hsubl hPTe
  have hsame : ∀ p ∈ Ed.map (fun e => Λ.edge e.1 e.2), ∀ lf ∈ L, ¬ (p.1 ∈ lf.1 ∧ p.2 ∈ lf.1) := by
    intro p hp lf hlf hboth
    obtain ⟨x, hx, h⟩ := treeLeaves_sub _ _ none lf (hsub lf hlf)
    have hl1 := (hok x hx).2 p.1 (List.mem_flatMap.2 ⟨lf, h, hboth.1⟩)
    have hl2 := (hok x hx).2 p.2 (List.mem_flatMap.2 ⟨lf, h, hboth.2⟩)
    have hne := (seq_legs_unique _ hP p hp p hp p.1 (Or.inl rfl) (Or.inl rfl)).2
    obtain ⟨e, he, rfl⟩ := List.mem_map.1 hp
    rcases layer_edge_legs Λ e.1 e.2 with ⟨h1, h2⟩ | ⟨h1, h2⟩
    · rw [h1, hnode] at hl1
      rw [h2, hnode] at hl2
      have hab : e.1 = e.2 := Option.some.inj (hl1.trans hl2.symm)
      apply hne
      rw [h1, h2, hab]
    · rw [h1, hnode] at hl1
      rw [h2, hnode] at hl2
      have hab : e.2 = e.1 := Option.some.inj (hl1.trans hl2.symm)
      apply hne
      rw [h1, h2, hab]
  refine ⟨seqExpr_swf _ hP _ hndE hlocE, seqExpr_leaves _ _,
    seqExpr_record _ hP _ hndE hlocE hlegsIn hsame, ?_⟩
  intro l hl hmem
  apply seqExpr_free _ _ l _ hmem
  intro hpl
  obtain ⟨q, hq, hql⟩ := mem_pairLegs.1 hpl
  obtain ⟨e, he, rfl⟩ := List.mem_map.1 hq
  rcases layer_edge_legs Λ e.1 e.2 with ⟨h1, h2⟩ | ⟨h1, h2⟩ <;> rcases hql with h | h
  · exact hl _ _ (h.symm.trans h1)
  · exact hl _ _ (h.symm.trans h2)
  · exact hl _ _ (h.symm.trans h1)
  · exact hl _ _ (h.symm.trans h2)

/-- every virtual leg of an edge of the tree is a label of the tensors of the layer -/
theorem layer_pairLegs_labels (Λ : Layer R) (hs : Λ.Inj) (T0 : Tree) (hnd : T0.ids.Nodup)
    (hh : ∀ e ∈ Tree.info none T0, Λ.Has e)
    (hok : ∀ e ∈ Tree.info none T0, NodeOK Λ.nodeLeaves e)
    (hloc : ∀ e ∈ Tree.info none T0, DependsOn (· ∈ Λ.legs e.1 e.2.1 e.2.2) (Λ.val e.1))
    (l : Leg) (hl : l ∈ Expr.pairLegs (T0.edges.map fun e => Λ.edge e.1 e.2)) :
    l ∈ labelsOf (treeLeaves Λ.nodeLeaves none T0) := by
  have hnone : ∀ q, (none : Option Nat) = some q → q ∉ T0.ids := fun q hq => by simp at hq
  have hswfT := layExpr_swf Λ hs T0 none hnd hnone hh hok hloc
  have hbT := layExpr_binds Λ T0 none
  have h2 : l ∈ (layExpr Λ none T0).labels :=
    Expr.binds_sub_labels _ hswfT.wf l ((pairLegs_perm hbT).mem_iff.2 hl)
  rw [Expr.labels_eq_leaves] at h2
  exact ((layExpr_leaves Λ T0 none).flatMap_right (·.1)).mem_iff.1 h2

/-- the tensors of the layer `Λ` at ALL nodes: component above the hole, then the subtree in the hole -/
def linkEnvLeaves (Λ : Layer R) (c : Ctx) (t : Tree) : List (LeafT R) :=
  c.leavesG Λ.nodeLeaves t.id ++ treeLeaves Λ.nodeLeaves c.parent t

/-- the bonds of the layer except the bond into the hole -/
def linkEnvRecord (Λ : Layer R) (c : Ctx) (t : Tree) : List (Leg × Leg) :=
  (c.compEdges ++ t.edges).map fun e => Λ.edge e.1 e.2

/-- **the canonical contraction of a whole layer with the bond into the hole opened** -/
def linkEnvExpr (Λ : Layer R) (c : Ctx) (t : Tree) : Expr Leg R :=
  seqExpr (linkEnvRecord Λ c t) (linkEnvLeaves Λ c t)

theorem linkEnvLeaves_perm (Λ : Layer R) (c : Ctx) (t : Tree) :
    (linkEnvLeaves Λ c t).Perm (treeLeaves Λ.nodeLeaves none (c.plug t)) :=
  (Ctx.plug_leaves_perm Λ.nodeLeaves c t).symm

/-- **the canonical opened layer is admissible.** -/
theorem linkEnvExpr_facts (Λ : Layer R) (hs : Λ.Inj) (hnode : ∀ a b, legNode (Λ.vleg a b) = some a)
    (c : Ctx) (p : Nat) (hpar : c.parent = some p) (t : Tree) (hnd : (c.plug t).ids.Nodup)
    (hh : ∀ e ∈ Tree.info none (c.plug t), Λ.Has e)
    (hok : ∀ e ∈ Tree.info none (c.plug t), NodeOK Λ.nodeLeaves e)
    (hloc : ∀ e ∈ Tree.info none (c.plug t), DependsOn (· ∈ Λ.legs e.1 e.2.1 e.2.2) (Λ.val e.1)) :
    (linkEnvExpr Λ c t).SWF ∧
      (linkEnvExpr Λ c t).leaves = ([], fun _ => 1) :: linkEnvLeaves Λ c t ∧
      (unordL (linkEnvExpr Λ c t).binds).Perm (unordL (linkEnvRecord Λ c t)) ∧
      (∀ l, (∀ a b, l ≠ Λ.vleg a b) → l ∈ labelsOf (linkEnvLeaves Λ c t) → l ∈ (linkEnvExpr Λ c t).free) := by
  have hperm := linkEnvLeaves_perm Λ c t
  have hlabT := (treeLeaves_labels Λ.nodeLeaves (c.plug t) none hnd hok).1
  have hedges : (c.plug t).edges.Perm ([(p, t.id)] ++ (c.compEdges ++ t.edges)) :=
    Ctx.plug_edges_frame_perm c p hpar t
  refine seqEnv_facts Λ hs hnode (c.plug t) hnd hh hok hloc (linkEnvLeaves Λ c t) (c.compEdges ++ t.edges) [(p, t.id)]
    ((hperm.flatMap_right (·.1)).nodup_iff.2 hlabT) (fun lf hlf => hperm.mem_iff.1 hlf) hedges ?_
  intro l hl
  apply ((hperm.flatMap_right (·.1)).mem_iff).2
  apply layer_pairLegs_labels Λ hs (c.plug t) hnd hh hok hloc l
  apply (pairLegs_perm (hedges.map fun e => Λ.edge e.1 e.2)).mem_iff.2
  obtain ⟨q, hq, hql⟩ := mem_pairLegs.1 hl
  exact mem_pairLegs.2 ⟨q, by rw [List.map_append]; exact List.mem_append.2 (Or.inr hq), hql⟩

/-- the canonical ket network with the bond into the hole opened -/
def linkEnvKet (kv : Nat → Asg Leg → R) (c : Ctx) (t : Tree) : Expr Leg R := linkEnvExpr (ketLayer kv) c t
/-- the canonical bra network with the bond into the hole opened -/
def linkEnvBra (bv : Nat → Asg Leg → R) (c : Ctx) (t : Tree) : Expr Leg R := linkEnvExpr (braLayerK bv) c t

theorem linkEnvRecord_ket (kv : Nat → Asg Leg → R) (c : Ctx) (t : Tree) :
    linkEnvRecord (ketLayer kv) c t = (c.compEdges ++ t.edges).map fun e => ketEdge e.1 e.2 := by
  simp [linkEnvRecord, Layer.edge, ketLayer, ketEdge]

theorem linkEnvRecord_bra (bv : Nat → Asg Leg → R) (c : Ctx) (t : Tree) :
    linkEnvRecord (braLayerK bv) c t = (c.compEdges ++ t.edges).map fun e => braEdge e.1 e.2 := by
  simp [linkEnvRecord, Layer.edge, braLayerK, braEdge]

/-- **`H_link = E† H E` with the canonical `E`, `H`, `B`: every edge of every tree, both sweep orientations.**  The
tree is `c.plug t`, the link sits on the edge `p — t.id` into the hole (`c.parent = some p`: every edge of every tree,
`Ctx.exists_ctx_edge`), distinct identifiers, operator child orders `opKids` arbitrary permutations, `kv`, `ov`, `bv`
ARBITRARY local node tensor values, the cache holds toward the link the top-down block and the leaf-to-root block.
Then
* `linkEnvKet`, `opAll`, `linkEnvBra` are strongly well-formed; their leaves are (besides the unit scalars the two
  opened networks start from) exactly `linkLeaves`, the tensors the program reads = the ket, operator and bra tensor
  of EVERY node; their records are — as multisets of unordered pairs — all ket bonds except `p — t.id`, ALL operator
  bonds, all bra bonds except `p — t.id`; the physical legs of all nodes are free in them;
* in both orientations the model returns the same matrix `m`, built from `linkLeaves`, and EVERY expression `e` it is
  built from evaluates, for every commutative semiring and all dimensions that agree on both legs of every pair of
  the projected record, to
  `H_link[r; c] = Σ_{phys'} (Σ_{phys} linkEnvKet[phys; c] · opAll[phys'; phys]) · linkEnvBra[phys'; r]`.
No split is quantified: `E`, `H`, `B` are the three canonical programs. -/
theorem link_heff_eq_projected (c : Ctx) (p : Nat) (hpar : c.parent = some p) (t : Tree)
    (hnd : (c.plug t).ids.Nodup) (opKids : Nat → List Nat)
    (hperm : ∀ e ∈ Tree.info none (c.plug t), (opKids e.1).Perm e.2.2)
    (kv ov bv : Nat → Asg Leg → R) (hkv : KetLocal kv (c.plug t))
    (hov : OpLocalK ov opKids (c.plug t)) (hbv : BraLocalK bv (c.plug t))
    (cache : Dict)
    (hp : cache (p, t.id) = some (gBlock p t.id c.blockBinds)) (hc : cache (t.id, p) = some (soBlock t p)) :
    (linkEnvKet kv c t).SWF ∧ (opAll ov opKids (c.plug t)).SWF ∧ (linkEnvBra bv c t).SWF ∧
    (linkEnvLeaves (ketLayer kv) c t ++ ((opAll ov opKids (c.plug t)).leaves ++
      linkEnvLeaves (braLayerK bv) c t)).Perm (linkLeaves opKids kv ov bv c t) ∧
    (linkEnvKet kv c t).leaves = ([], fun _ => 1) :: linkEnvLeaves (ketLayer kv) c t ∧
    (linkEnvBra bv c t).leaves = ([], fun _ => 1) :: linkEnvLeaves (braLayerK bv) c t ∧
    (unordL (linkEnvKet kv c t).binds).Perm (unordL ((c.compEdges ++ t.edges).map fun e => ketEdge e.1 e.2)) ∧
    (opAll ov opKids (c.plug t)).binds.Perm ((c.plug t).edges.map fun e => opEdge e.1 e.2) ∧
    (unordL (linkEnvBra bv c t).binds).Perm (unordL ((c.compEdges ++ t.edges).map fun e => braEdge e.1 e.2)) ∧
    (∀ n ∈ c.ids ++ t.ids, Leg.gKetPhys n ∈ (linkEnvKet kv c t).free ∧
      Leg.gOpIn n ∈ (opAll ov opKids (c.plug t)).free ∧
      Leg.gOpOut n ∈ (opAll ov opKids (c.plug t)).free ∧ Leg.gBraPhys n ∈ (linkEnvBra bv c t).free) ∧
    ∃ m : Mat, getEffectiveLinkHamiltonian ⟨some p, [t.id]⟩ t.id p cache = some m ∧
      getEffectiveLinkHamiltonian ⟨some p, [t.id]⟩ p t.id cache = some m ∧
      m.rows = [Leg.gBra p t.id, Leg.gBra t.id p] ∧ m.cols = [Leg.gKet p t.id, Leg.gKet t.id p] ∧
      BuiltL m.toT (linkLeaves opKids kv ov bv c t) ∧
      ∀ e : Expr Leg R, Built m.toT e → e.leaves.Perm (linkLeaves opKids kv ov bv c t) →
        e.SWF ∧ e.binds.Perm m.binds ∧ e.free.Perm (m.rows ++ m.cols) ∧
        ∀ (dim : Leg → Nat),
          (∀ q ∈ projSpec ((c.ids ++ t.ids).map physOut) ((c.ids ++ t.ids).map physIn)
            ((c.compEdges ++ t.edges).map fun e => ketEdge e.1 e.2)
            ((c.plug t).edges.map fun e => opEdge e.1 e.2)
            ((c.compEdges ++ t.edges).map fun e => braEdge e.1 e.2), dim q.1 = dim q.2) →
          ∀ σ, e.eval dim σ =
            sumPairs dim ((c.ids ++ t.ids).map physOut)
              (fun τ => sumPairs dim ((c.ids ++ t.ids).map physIn)
                (fun ρ => (linkEnvKet kv c t).eval dim ρ * (opAll ov opKids (c.plug t)).eval dim ρ) τ *
                (linkEnvBra bv c t).eval dim τ) σ := by
  -- the node tensors of the whole tree
  have hnone : ∀ q, (none : Option Nat) = some q → q ∉ (c.plug t).ids := fun q hq => by simp at hq
  have hnb := info_nbrs_nodup (c.plug t) none hnd hnone
  have hok : ∀ e ∈ Tree.info none (c.plug t), NodeOK (soNodeLeaves opKids kv ov bv) e :=
    fun e he => so_nodeOK kv ov bv opKids e (hnb e he) (hperm e he)
  let ΛO := opLayer ov opKids
  let ΛB := braLayerK bv
  have hokK : ∀ e ∈ Tree.info none (c.plug t), NodeOK (ketLayer kv).nodeLeaves e := fun e he =>
    nodeOK_left (f := (ketLayer kv).nodeLeaves)
      (g := fun i p k => ΛO.nodeLeaves i p k ++ ΛB.nodeLeaves i p k) (hok e he)
  have hokOB : ∀ e ∈ Tree.info none (c.plug t),
      NodeOK (fun i p k => ΛO.nodeLeaves i p k ++ ΛB.nodeLeaves i p k) e :=
    fun e he => nodeOK_right (f := (ketLayer kv).nodeLeaves)
      (g := fun i p k => ΛO.nodeLeaves i p k ++ ΛB.nodeLeaves i p k) (hok e he)
  have hokO : ∀ e ∈ Tree.info none (c.plug t), NodeOK ΛO.nodeLeaves e := fun e he =>
    nodeOK_left (f := ΛO.nodeLeaves) (g := ΛB.nodeLeaves) (hokOB e he)
  have hokB : ∀ e ∈ Tree.info none (c.plug t), NodeOK ΛB.nodeLeaves e := fun e he =>
    nodeOK_right (f := ΛO.nodeLeaves) (g := ΛB.nodeLeaves) (hokOB e he)
  -- the three canonical programs
  obtain ⟨hK, hKl, hKb, hKfree⟩ := linkEnvExpr_facts (ketLayer kv) (ketLayer_inj kv) (fun _ _ => rfl) c p hpar t hnd
    (fun e _ n hn => by
      simp only [ketLayer, gKetT, T.fresh, Node.nbrs, List.mem_append, List.mem_map]
      exact Or.inl ⟨n, List.mem_append.1 hn, rfl⟩)
    hokK hkv
  obtain ⟨hB, hBl, hBb, hBfree⟩ := linkEnvExpr_facts ΛB
    (fun a b a' b' h => by simp only [ΛB, braLayerK] at h; injection h with h1 h2; exact ⟨h1, h2⟩)
    (fun _ _ => rfl) c p hpar t hnd
    (fun e _ n hn => by
      simp only [ΛB, braLayerK, gBraT, T.fresh, Node.nbrs, List.mem_append, List.mem_map]
      exact Or.inl ⟨n, List.mem_append.1 hn, rfl⟩)
    hokB hbv
  have hO : (opExpr ov opKids (c.plug t)).SWF := layExpr_swf ΛO
    (fun a b a' b' h => by simp only [ΛO, opLayer] at h; injection h with h1 h2; exact ⟨h1, h2⟩)
    (c.plug t) none hnd hnone
    (fun e he n hn => by
      simp only [ΛO, opLayer, gOpT, T.fresh, Node.nbrs, List.mem_append, List.mem_map]
      refine Or.inl ⟨n, ?_, rfl⟩
      rcases List.mem_append.1 hn with h | h
      · exact Or.inl h
      · exact Or.inr ((hperm e he).mem_iff.2 h))
    hokO hov
  have hLO := layExpr_leaves ΛO (c.plug t) none
  have hOb : (opExpr ov opKids (c.plug t)).binds.Perm ((c.plug t).edges.map fun e => opEdge e.1 e.2) := by
    have := layExpr_binds ΛO (c.plug t) none
    simpa [Layer.edge, ΛO, opLayer, opEdge, opExpr] using this
  rw [linkEnvRecord_ket] at hKb
  have hBb' : (unordL (linkEnvExpr ΛB c t).binds).Perm
      (unordL ((c.compEdges ++ t.edges).map fun e => braEdge e.1 e.2)) := by
    rw [← linkEnvRecord_bra bv]; exact hBb
  -- the leaves: the three programs read exactly `linkLeaves`
  have hwl := linkLeaves_perm opKids kv ov bv c t
  have pK := linkEnvLeaves_perm (ketLayer kv) c t
  have pB := linkEnvLeaves_perm ΛB c t
  have hsplit : (linkEnvLeaves (ketLayer kv) c t ++ ((opExpr ov opKids (c.plug t)).leaves ++
      linkEnvLeaves ΛB c t)).Perm (linkLeaves opKids kv ov bv c t) := by
    have h1 := treeLeaves_append (ketLayer kv).nodeLeaves
      (fun i p k => ΛO.nodeLeaves i p k ++ ΛB.nodeLeaves i p k) (c.plug t) none
    have h2 := treeLeaves_append ΛO.nodeLeaves ΛB.nodeLeaves (c.plug t) none
    have hS : (soLeaves opKids kv ov bv none (c.plug t)).Perm
        (treeLeaves (ketLayer kv).nodeLeaves none (c.plug t) ++
          (treeLeaves ΛO.nodeLeaves none (c.plug t) ++
            treeLeaves ΛB.nodeLeaves none (c.plug t))) := h1.trans (List.Perm.append_left _ h2)
    exact ((pK.append (hLO.append pB)).trans hS.symm).trans hwl.symm
  -- labels
  obtain ⟨hndS, hlocS⟩ := soLeaves_clean opKids kv ov bv (c.plug t) hnd hperm hkv hov hbv
  have hndW : (labelsOf (linkLeaves opKids kv ov bv c t)).Nodup := (hwl.flatMap_right (·.1)).nodup_iff.2 hndS
  have hndAll : ((linkEnvExpr (ketLayer kv) c t).labels ++ ((opExpr ov opKids (c.plug t)).labels ++
      (linkEnvExpr ΛB c t).labels)).Nodup := by
    have h1 := (hsplit.flatMap_right (·.1)).nodup_iff.2 hndW
    simpa [linkEnvExpr, seqExpr_labels, labelsOf, List.flatMap_append, ← Expr.labels_eq_leaves] using h1
  rw [List.nodup_append] at hndAll
  obtain ⟨_, hndOB, hdisK⟩ := hndAll
  rw [List.nodup_append] at hndOB
  -- free physical legs
  have hmemInfo : ∀ n ∈ c.ids ++ t.ids, ∃ x ∈ Tree.info none (c.plug t), x.1 = n := by
    intro n hn
    have hnT : n ∈ (c.plug t).ids := (Ctx.plug_ids_perm c _).mem_iff.2 hn
    rw [← Tree.info_keys none (c.plug t)] at hnT
    obtain ⟨x, hx, rfl⟩ := List.mem_map.1 hnT
    exact ⟨x, hx, rfl⟩
  have hfree : ∀ n ∈ c.ids ++ t.ids, Leg.gKetPhys n ∈ (linkEnvExpr (ketLayer kv) c t).free ∧
      Leg.gOpIn n ∈ (opExpr ov opKids (c.plug t)).free ∧
      Leg.gOpOut n ∈ (opExpr ov opKids (c.plug t)).free ∧
      Leg.gBraPhys n ∈ (linkEnvExpr ΛB c t).free := by
    intro n hn
    obtain ⟨x, hx, rfl⟩ := hmemInfo n hn
    refine ⟨?_, ?_, ?_, ?_⟩
    · apply hKfree _ (fun a b => by simp [ketLayer])
      apply ((pK.flatMap_right (·.1)).mem_iff).2
      simp only [List.mem_flatMap]
      exact ⟨_, nodeLeaves_sub _ _ none x hx _ (List.mem_singleton.2 rfl), by simp [ketLayer, gKetT, T.fresh]⟩
    · apply layExpr_free_phys ΛO _ (fun a b => by simp [ΛO, opLayer]) _ none
      simp only [labelsOf, List.mem_flatMap]
      exact ⟨_, nodeLeaves_sub _ _ none x hx _ (List.mem_singleton.2 rfl), by simp [ΛO, opLayer, gOpT, T.fresh]⟩
    · apply layExpr_free_phys ΛO _ (fun a b => by simp [ΛO, opLayer]) _ none
      simp only [labelsOf, List.mem_flatMap]
      exact ⟨_, nodeLeaves_sub _ _ none x hx _ (List.mem_singleton.2 rfl), by simp [ΛO, opLayer, gOpT, T.fresh]⟩
    · apply hBfree _ (fun a b => by simp [ΛB, braLayerK])
      apply ((pB.flatMap_right (·.1)).mem_iff).2
      simp only [List.mem_flatMap]
      exact ⟨_, nodeLeaves_sub _ _ none x hx _ (List.mem_singleton.2 rfl), by simp [ΛB, braLayerK, gBraT, T.fresh]⟩
  refine ⟨hK, hO, hB, hsplit, hKl, hBl, hKb, hOb, hBb', hfree, ?_⟩
  -- the program
  obtain ⟨m, hm1, hm2, hr, hcl, hbuilt, _, hall⟩ :=
    link_heff_whole_program c p hpar t hnd opKids hperm kv ov bv hkv hov hbv cache hp hc
  obtain ⟨m', hm', _, _, _, hval⟩ := link_heff_projected_tree (R := R) c p hpar t hnd cache hp hc
  have hmm : m' = m := Option.some.inj (hm'.symm.trans hm1)
  subst hmm
  refine ⟨m', hm1, hm2, hr, hcl, hbuilt, ?_⟩
  intro e hbe hleaves
  obtain ⟨hswf, hbinds, hfr, _⟩ := hall e hbe hleaves
  refine ⟨hswf, hbinds, hfr, ?_⟩
  intro dim hdim σ
  have hsym : ∀ (P : List (Leg × Leg)), (∀ p ∈ P, dim p.1 = dim p.2) → ∀ q, (q ∈ P ∨ q.swap ∈ P) → dim q.1 = dim q.2 := by
    intro P hP q hq
    rcases hq with h | h
    · exact hP q h
    · exact (hP q.swap h).symm
  refine hval dim e (linkEnvExpr (ketLayer kv) c t) (opExpr ov opKids (c.plug t)) (linkEnvExpr ΛB c t)
    hswf hK.wf hO.wf hB.wf
    (fun l hl hl' => hdisK l hl l (List.mem_append.2 (Or.inl hl')) rfl)
    (fun l hl hl' => hdisK l hl l (List.mem_append.2 (Or.inr hl')) rfl)
    (fun l hl hl' => hndOB.2.2 l hl l hl' rfl)
    hbinds hKb (unordL_perm hOb) hBb' hfree ?_ ?_ σ
  · intro q hq
    simp only [projSpec, List.mem_append] at hq hdim
    rcases hq with h | ((h | h | h) | h)
    · exact hdim q (Or.inl h)
    · exact hdim q (Or.inr (Or.inl (Or.inl h)))
    · refine hsym _ (fun q hq => hdim q (Or.inr (Or.inl (Or.inr (Or.inl hq))))) q ?_
      have := seqExpr_binds_sub (linkEnvRecord (ketLayer kv) c t) (linkEnvLeaves (ketLayer kv) c t) q h
      rwa [linkEnvRecord_ket] at this
    · exact hdim q (Or.inr (Or.inl (Or.inr (Or.inr (hOb.mem_iff.1 h)))))
    · refine hsym _ (fun q hq => hdim q (Or.inr (Or.inr hq))) q ?_
      have := seqExpr_binds_sub (linkEnvRecord ΛB c t) (linkEnvLeaves ΛB c t) q h
      rwa [linkEnvRecord_bra] at this
  · intro τ
    rw [Expr.leafProd_of_leaves e _ (hleaves.trans hsplit.symm) τ, List.map_append, List.map_append, prodL_append,
      prodL_append, mul_assoc]
    simp only [linkEnvExpr, seqExpr_leafProd]
    rfl

end Ptn.C05.Heff
