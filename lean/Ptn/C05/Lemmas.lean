import Ptn.C05.Model
/-! Helper lemmas for C05 (core Lean only). -/
namespace Ptn.C05

theorem tot_nil (w : Ev → Int) : tot w [] = 0 := rfl

theorem tot_cons (w : Ev → Int) (e : Ev) (tr : List Ev) : tot w (e :: tr) = w e + tot w tr := by
  simp [tot]

theorem tot_append (w : Ev → Int) (a b : List Ev) : tot w (a ++ b) = tot w a + tot w b := by
  simp [tot, List.sum_append]

theorem tot_flatMap (w : Ev → Int) (g : Seg → List Ev) (segs : List Seg) :
    tot w (segs.flatMap g) = (segs.map fun s => tot w (g s)).sum := by
  induction segs with
  | nil => simp [tot]
  | cons s rest ih => simp [List.flatMap_cons, tot_append, ih]

theorem sum_map_reverse (f : Seg → Int) (l : List Seg) :
    (l.reverse.map f).sum = (l.map f).sum := by
  induction l with
  | nil => rfl
  | cons a l ih => simp [List.sum_append, ih]; omega

theorem sum_map_zero {α : Type} (f : α → Int) (l : List α) (h : ∀ x ∈ l, f x = 0) :
    (l.map f).sum = 0 := by
  induction l with
  | nil => rfl
  | cons a l ih =>
    simp only [List.map_cons, List.sum_cons]
    rw [h a (by simp), ih (fun x hx => h x (by simp [hx]))]
    rfl

/-- Indicator sums over a duplicate-free list. -/
theorem sum_indicator_mem (l : List Nat) (v : Nat) (c : Int) (hnd : l.Nodup) (hv : v ∈ l) :
    (l.map fun x => if x = v then c else 0).sum = c := by
  induction l with
  | nil => simp at hv
  | cons a l ih =>
    have hnd' := List.nodup_cons.mp hnd
    by_cases ha : a = v
    · subst ha
      have : (l.map fun x => if x = a then c else 0).sum = 0 := by
        have hz : ∀ x ∈ l, (if x = a then c else 0) = (0 : Int) := by
          intro x hx
          have : x ≠ a := fun h => hnd'.1 (h ▸ hx)
          simp [this]
        exact sum_map_zero _ l hz
      simp [this]
    · have hv' : v ∈ l := by
        rcases List.mem_cons.mp hv with h | h
        · exact absurd h.symm ha
        · exact h
      simp [ha, ih hnd'.2 hv']

theorem sum_indicator_not_mem (l : List Nat) (v : Nat) (c : Int) (hv : v ∉ l) :
    (l.map fun x => if x = v then c else 0).sum = 0 := by
  have hz : ∀ x ∈ l, (if x = v then c else 0) = (0 : Int) := by
    intro x hx
    have : x ≠ v := fun h => hv (h ▸ hx)
    simp [this]
  exact sum_map_zero _ l hz

theorem sum_map_add (f g : Seg → Int) (l : List Seg) :
    (l.map fun s => f s + g s).sum = (l.map f).sum + (l.map g).sum := by
  induction l with
  | nil => rfl
  | cons a l ih => simp [ih]; omega

theorem sum_map_mul_const (f : Seg → Int) (c : Int) (l : List Seg) :
    (l.map fun s => c * f s).sum = c * (l.map f).sum := by
  induction l with
  | nil => simp
  | cons a l ih => simp [ih, Int.mul_add]

theorem sum_map_scale {α : Type} (f g : α → Int) (c : Int) (l : List α)
    (h : ∀ t, f t = c * g t) : (l.map f).sum = c * (l.map g).sum := by
  induction l with
  | nil => simp
  | cons a l ih => simp [h, ih, Int.mul_add]

theorem sum_map_const (c : Int) (l : List Seg) : (l.map fun _ => c).sum = c * l.length := by
  induction l with
  | nil => simp
  | cons a l ih => simp [ih, Int.mul_add]; omega

theorem sameEdge_symm (a b x y : Nat) : sameEdge a b x y = sameEdge a b y x := by
  simp only [sameEdge]
  cases h1 : (a == x && b == y) <;> cases h2 : (a == y && b == x) <;> simp

end Ptn.C05
