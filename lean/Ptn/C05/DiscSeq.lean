import Ptn.C05.DiscLemmas
/-! Sequences of events: composition, moves along a path, and the building blocks of the three
sweeps. -/
namespace Ptn.C05.Disc
open Ptn.C17 Ptn.C17.RTree

/-- every event succeeds (precondition holds, all blocks read are fresh) and the invariant holds
    after every event; `st'` is the final state -/
def StepsOK (t : RTree) : DSt → List DEv → DSt → Prop
  | st, [], st' => st' = st
  | st, e :: rest, st' => ∃ s1, step t st e = some s1 ∧ Inv t s1 ∧ StepsOK t s1 rest st'

/-- from any state with centre `c` satisfying the invariant the events `l` run without stale read,
    keep the invariant after every event and end with centre `c'` -/
def OK (t : RTree) (c : Nat) (l : List DEv) (c' : Nat) : Prop :=
  ∀ st, Inv t st → st.centre = c → ∃ st', StepsOK t st l st' ∧ Inv t st' ∧ st'.centre = c'

theorem stepsOK_append {t : RTree} : ∀ {l1 l2 : List DEv} {st s1 s2 : DSt},
    StepsOK t st l1 s1 → StepsOK t s1 l2 s2 → StepsOK t st (l1 ++ l2) s2
  | [], _, _, _, _, h1, h2 => by simp only [StepsOK] at h1; subst h1; exact h2
  | e :: l1, l2, st, s1, s2, h1, h2 => by
    obtain ⟨m, hm, hinv, hr⟩ := h1
    exact ⟨m, hm, hinv, stepsOK_append hr h2⟩

theorem stepsOK_run {t : RTree} : ∀ {l : List DEv} {st st' : DSt}, StepsOK t st l st' →
    run t st l = some st'
  | [], _, _, h => by simp only [StepsOK] at h; simp [run, h]
  | e :: l, st, st', h => by
    obtain ⟨m, hm, _, hr⟩ := h
    simp [run, hm, stepsOK_run hr]

theorem OK_nil (t : RTree) (c : Nat) : OK t c [] c :=
  fun st hinv hc => ⟨st, rfl, hinv, hc⟩

theorem OK_append {t : RTree} {c c1 c2 : Nat} {l1 l2 : List DEv} (h1 : OK t c l1 c1)
    (h2 : OK t c1 l2 c2) : OK t c (l1 ++ l2) c2 := by
  intro st hinv hc
  obtain ⟨s1, r1, i1, e1⟩ := h1 st hinv hc
  obtain ⟨s2, r2, i2, e2⟩ := h2 s1 i1 e1
  exact ⟨s2, stepsOK_append r1 r2, i2, e2⟩

theorem OK_single {t : RTree} {c c' : Nat} {e : DEv}
    (h : ∀ st, Inv t st → st.centre = c → ∃ st', step t st e = some st' ∧ Inv t st' ∧ st'.centre = c') :
    OK t c [e] c' := by
  intro st hinv hc
  obtain ⟨s1, h1, h2, h3⟩ := h st hinv hc
  exact ⟨s1, ⟨s1, h1, h2, rfl⟩, h2, h3⟩

theorem OK_site {t : RTree} (hwf : t.WF) {v : Nat} (hv : v ∈ ids t) : OK t v [.site v] v :=
  OK_single fun _ hinv hc => site_ok hwf hinv hc hv

theorem OK_move {t : RTree} (hwf : t.WF) {a b : Nat} (h : Adj t a b) : OK t a [.move a b] b :=
  OK_single fun _ hinv hc => move_ok hwf hinv hc h

theorem OK_link {t : RTree} (hwf : t.WF) {a b : Nat} (h : Adj t a b) : OK t a [.link a b] b :=
  OK_single fun _ hinv hc => link_ok hwf hinv hc h

theorem OK_two {t : RTree} (hwf : t.WF) {a b : Nat} (h : Adj t a b) : OK t a [.two a b] b :=
  OK_single fun _ hinv hc => two_ok hwf hinv hc h

/-- moving the centre along a chain of neighbours -/
theorem OK_moves {t : RTree} (hwf : t.WF) : ∀ (p : List Nat) (a : Nat) {l : Nat},
    Chain (Adj t) (a :: p) → (a :: p).getLast? = some l → OK t a (movesAlong (a :: p)) l
  | [], a, l, _, hl => by
    simp at hl; subst hl; simpa [movesAlong] using OK_nil t a
  | b :: p, a, l, hc, hl => by
    have hc' := chain_cons_cons.mp hc
    rw [List.getLast?_cons_cons] at hl
    have := OK_append (OK_move hwf hc'.1) (OK_moves hwf p b hc'.2 hl)
    simpa [movesAlong] using this

/-- the way between two different nodes: shape, first hop, chain -/
theorem path_facts {t : RTree} (hwf : t.WF) {a b : Nat} (ha : a ∈ ids t) (hb : b ∈ ids t)
    (hne : a ≠ b) :
    ∃ h r, pathFromTo t a b = some (a :: h :: r) ∧ Adj t a h ∧ Chain (Adj t) (a :: h :: r) ∧
      (h :: r).getLast? = some b ∧ ∀ y ∈ a :: h :: r, y ∈ ids t := by
  obtain ⟨q, hq, h1, h2, h3, h4, _⟩ := pathFromTo_isSimplePath hwf ha hb
  cases q with
  | nil => simp at h1
  | cons y l =>
    simp at h1; subst h1
    cases l with
    | nil => simp at h2; exact absurd h2 hne
    | cons h r =>
      rw [List.getLast?_cons_cons] at h2
      exact ⟨h, r, hq, (chain_cons_cons.mp h4).1, h4, h2, h3⟩

/-- the way between neighbours -/
theorem path_adj {t : RTree} (hwf : t.WF) {a b : Nat} (h : Adj t a b) :
    pathFromTo t a b = some [a, b] := pathFromTo_adj hwf h

end Ptn.C05.Disc
