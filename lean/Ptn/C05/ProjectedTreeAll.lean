import Ptn.C05.Ctx
/-! `H_eff = E† H E` for EVERY site of every tree (C05, value level, Goal 3): the hypotheses of the record-level
theorem `site_heff_is_projected_hamiltonian` about the blocks are discharged for all neighbours — the children's
blocks by the C04 model of the leaf-to-root loop (`soKidBlock`), the parent's block by
`Ctx.block_record_is_component_sandwich`. -/
namespace Ptn.C05.Heff
open Ptn.C04 Ptn.Ein

set_option linter.unusedSectionVars false
variable {R : Type} [CommSemiring R]

/-- the cache as the site `i` sees it: from the parent the block with the record `c.blockBinds` (what the model
builds, `Ctx.ctx_block_is_model`), from every child its leaf-to-root block -/
def siteCache (c : Ctx) (ks : List Tree) (i : Nat) : Cache := fun n =>
  if c.parent = some n then some (gBlock n i c.blockBinds) else soKidBlock ks i (n, i)

/-- a list attached to the parent (`X`) or read off the kid with identifier `n` -/
def selNb {β : Type} (c : Ctx) (ks : List Tree) (X : List β) (f : Tree → List β) (n : Nat) : List β :=
  if c.parent = some n then X else ofKid ks f n

theorem flatMap_selNb {β : Type} (c : Ctx) (ks : List Tree) (X : List β) (f : Tree → List β) (opKids : List Nat)
    (hX : c.parent = none → X = []) (hpk : ∀ q, c.parent = some q → q ∉ ks.map Tree.id)
    (hkid : (ks.map Tree.id).Nodup) (hperm : opKids.Perm (ks.map Tree.id)) :
    ((c.parent.toList ++ opKids).flatMap (selNb c ks X f)).Perm (X ++ ks.flatMap f) := by
  have hk : opKids.flatMap (selNb c ks X f) = opKids.flatMap (ofKid ks f) := by
    apply flatMap_congr'
    intro n hn
    have : ¬ c.parent = some n := fun h => hpk n h (hperm.mem_iff.1 hn)
    simp [selNb, this]
  rw [List.flatMap_append, hk]
  refine List.Perm.append ?_ (flatMap_ofKid_perm f ks opKids hkid hperm)
  cases h : c.parent with
  | none => simp [hX h]
  | some q => simp [selNb, h]

/-- **`H_eff = E† H E` for every site of every tree.**  The tree is `c.plug (node i ks)`: the site `i` with the child
subtrees `ks` sits in the hole of the context `c` (any depth, any shape; `c = root`: the site is the root), all
identifiers distinct; the operator node lists the children in any order `opKids`.  The cache holds, for every child,
the block the C04 model of the leaf-to-root loop produces (`soKidBlock`) and, for the parent, the block the model's
`contract_any(parent, i)` produces (`Ctx.ctx_block_is_model`; record `c.blockBinds`).  Then the model returns the
matrix `m` of `site_heff_graph`, and for every commutative semiring and all dimensions (equal on both legs of every
bound pair): let `E` be ANY well-formed contraction of the ket tensors of all nodes other than `i` over all ket bonds
not at `i`, `H` ANY well-formed contraction of the operator tensors of ALL nodes over ALL operator bonds of the tree
(the dense TTNO), `B` ANY well-formed contraction of the bra tensors of all other nodes.  Every strongly well-formed
program `e` over all these tensors with the record of `m` evaluates to
`Σ_{phys'} (Σ_{phys} E[phys; c] · H[phys', out_i; phys, in_i]) · B[phys'; r]`,
the sums running over the physical legs of all nodes other than `i` (`c.ids ++ idsL ks`).  No hypothesis about block
records is left. -/
theorem site_heff_projected_tree (c : Ctx) (i : Nat) (ks : List Tree)
    (hnd : (c.plug (Tree.node i ks)).ids.Nodup) (opKids : List Nat) (hperm : opKids.Perm (ks.map Tree.id)) :
    ∃ m : Mat, getEffectiveSingleSiteHamiltonianNodes ⟨c.parent, ks.map Tree.id⟩ ⟨c.parent, opKids⟩
        (gOpT i ⟨c.parent, opKids⟩) (siteCache c ks i) = some m ∧
      m.rows = (c.parent.toList ++ ks.map Tree.id).map (fun n => Leg.gBra n i) ++ [Leg.gOpOut i] ∧
      m.cols = (c.parent.toList ++ ks.map Tree.id).map (fun n => Leg.gKet n i) ++ [Leg.gOpIn i] ∧
      ∀ (dim : Leg → Nat) (e E H B : Expr Leg R), e.SWF → E.WF → H.WF → B.WF →
        (∀ l ∈ E.labels, l ∉ H.labels) → (∀ l ∈ E.labels, l ∉ B.labels) → (∀ l ∈ H.labels, l ∉ B.labels) →
        e.binds.Perm m.binds →
        (unordL E.binds).Perm (unordL ((c.compEdges ++ ks.flatMap Tree.edges).map fun e => ketEdge e.1 e.2)) →
        (unordL H.binds).Perm (unordL ((c.plug (Tree.node i ks)).edges.map fun e => opEdge e.1 e.2)) →
        (unordL B.binds).Perm (unordL ((c.compEdges ++ ks.flatMap Tree.edges).map fun e => braEdge e.1 e.2)) →
        (∀ n ∈ c.ids ++ Tree.idsL ks, Leg.gKetPhys n ∈ E.free ∧ Leg.gOpIn n ∈ H.free ∧ Leg.gOpOut n ∈ H.free ∧
          Leg.gBraPhys n ∈ B.free) →
        (∀ p ∈ projSpec ((c.ids ++ Tree.idsL ks).map physOut) ((c.ids ++ Tree.idsL ks).map physIn)
          E.binds H.binds B.binds, dim p.1 = dim p.2) →
        (∀ σ, e.leafProd σ = E.leafProd σ * H.leafProd σ * B.leafProd σ) →
        ∀ σ, e.eval dim σ =
          sumPairs dim ((c.ids ++ Tree.idsL ks).map physOut)
            (fun τ => sumPairs dim ((c.ids ++ Tree.idsL ks).map physIn) (fun ρ => E.eval dim ρ * H.eval dim ρ) τ *
              B.eval dim τ) σ := by
  -- identifiers
  have hnd' : (c.ids ++ (Tree.node i ks).ids).Nodup := (Ctx.plug_ids_perm c _).nodup_iff.1 hnd
  have hcn : c.ids.Nodup := (List.nodup_append.1 hnd').1
  have hin : (i :: Tree.idsL ks).Nodup := (List.nodup_append.1 hnd').2.1
  have hndL : (Tree.idsL ks).Nodup := (List.nodup_cons.1 hin).2
  have hdisj : ∀ a ∈ c.ids, ∀ b ∈ i :: Tree.idsL ks, a ≠ b := (List.nodup_append.1 hnd').2.2
  have hall : (c.ids ++ Tree.idsL ks).Nodup := by
    rw [List.nodup_append]
    exact ⟨hcn, hndL, fun a ha b hb => hdisj a ha b (by simp [hb])⟩
  have hkid : (ks.map Tree.id).Nodup := Tree.nodup_kid_ids ks hndL
  have hpk : ∀ q, c.parent = some q → q ∉ ks.map Tree.id := fun q hq hm =>
    hdisj q (Ctx.parent_mem_ids hq) q (by simp [Tree.kid_id_mem ks q hm]) rfl
  have hroot : ∀ {β : Type} (g : Nat → β), c.parent = none → c.ids.map g = [] := by
    intro β g h
    cases c with
    | root => rfl
    | frame p ls rs up => simp [Ctx.parent] at h
  have hrootE : ∀ {β : Type} (g : Nat × Nat → β), c.parent = none → c.compEdges.map g = [] := by
    intro β g h
    cases c with
    | root => rfl
    | frame p ls rs up => simp [Ctx.parent] at h
  have hmem : ∀ n ∈ opKids, n ∈ ks.map Tree.id := fun n hn => hperm.mem_iff.1 hn
  have hnbS : (Node.mk c.parent (ks.map Tree.id)).nbrs = c.parent.toList ++ ks.map Tree.id := rfl
  have hnb : (Node.mk c.parent opKids).nbrs = c.parent.toList ++ opKids := rfl
  have hK : (Node.mk c.parent (ks.map Tree.id)).nbrs.Nodup := by
    rw [hnbS, List.nodup_append]
    refine ⟨by cases c.parent <;> simp, hkid, ?_⟩
    intro a ha b hb hab
    subst hab
    exact hpk a (by simpa using ha) hb
  -- the components
  let pout := selNb c ks (c.ids.map physOut) (fun k => k.ids.map physOut)
  let pin := selNb c ks (c.ids.map physIn) (fun k => k.ids.map physIn)
  let kb := selNb c ks (c.compEdges.map fun e => ketEdge e.1 e.2) (fun k => k.edges.map fun e => ketEdge e.1 e.2)
  let ob := selNb c ks (c.compEdges.map fun e => opEdge e.1 e.2) (fun k => k.edges.map fun e => opEdge e.1 e.2)
  let brb := selNb c ks (c.compEdges.map fun e => braEdge e.1 e.2) (fun k => k.edges.map fun e => braEdge e.1 e.2)
  obtain ⟨m, hm, hr, hc, hval⟩ := site_heff_is_projected_hamiltonian (R := R) i ⟨c.parent, ks.map Tree.id⟩
    ⟨c.parent, opKids⟩ (selNb c ks c.blockBinds soBlockBinds) (siteCache c ks i) hK
    (by rw [hnb, hnbS]; exact List.Perm.append_left _ hperm)
    (fun n hn => by
      rw [hnb, List.mem_append] at hn
      by_cases hp : c.parent = some n
      · simp [siteCache, selNb, hp]
      · have hn' : n ∈ opKids := by
          rcases hn with hn | hn
          · exact absurd (by simpa using hn) hp
          · exact hn
        simp only [siteCache, selNb, if_neg hp]
        rw [soKidBlock_of_mem ks i n (hmem n hn')]; rfl)
    pout pin kb ob brb
    (fun n hn => by
      rw [hnb, List.mem_append] at hn
      by_cases hp : c.parent = some n
      · simp only [compRecord, pout, pin, kb, ob, brb, selNb, if_pos hp]
        exact Ctx.block_record_is_component_sandwich c hcn
      · have hn' : n ∈ opKids := by
          rcases hn with hn | hn
          · exact absurd (by simpa using hn) hp
          · exact hn
        obtain ⟨k, _, _, hf⟩ := ofKid_of_mem (β := Leg × Leg) ks n (hmem n hn')
        simp only [compRecord, pout, pin, kb, ob, brb, selNb, if_neg hp, hf]
        exact unordL_perm (soBlockBinds_perm_comp k))
  refine ⟨m, hm, hr, hc, ?_⟩
  intro dim e E H B he hE hH hB hEH hEB hHB heb hEb hHb hBb hfree hdim hleaf σ
  -- the flattened lists in the operator node's order against the tree's order
  have hPout : ((c.parent.toList ++ opKids).flatMap pout).Perm ((c.ids ++ Tree.idsL ks).map physOut) := by
    refine (flatMap_selNb c ks _ _ opKids (hroot physOut) hpk hkid hperm).trans ?_
    rw [List.map_append, idsL_eq_flatMap, List.map_flatMap]
  have hPin : ((c.parent.toList ++ opKids).flatMap pin).Perm ((c.ids ++ Tree.idsL ks).map physIn) := by
    refine (flatMap_selNb c ks _ _ opKids (hroot physIn) hpk hkid hperm).trans ?_
    rw [List.map_append, idsL_eq_flatMap, List.map_flatMap]
  have hKb : ((c.parent.toList ++ opKids).flatMap kb).Perm
      ((c.compEdges ++ ks.flatMap Tree.edges).map fun e => ketEdge e.1 e.2) := by
    refine (flatMap_selNb c ks _ _ opKids (hrootE _) hpk hkid hperm).trans ?_
    rw [List.map_append, List.map_flatMap]
  have hOb : ((c.parent.toList ++ opKids).flatMap ob).Perm
      ((c.compEdges ++ ks.flatMap Tree.edges).map fun e => opEdge e.1 e.2) := by
    refine (flatMap_selNb c ks _ _ opKids (hrootE _) hpk hkid hperm).trans ?_
    rw [List.map_append, List.map_flatMap]
  have hBrb : ((c.parent.toList ++ opKids).flatMap brb).Perm
      ((c.compEdges ++ ks.flatMap Tree.edges).map fun e => braEdge e.1 e.2) := by
    refine (flatMap_selNb c ks _ _ opKids (hrootE _) hpk hkid hperm).trans ?_
    rw [List.map_append, List.map_flatMap]
  have hOpAll : (unordL (opPairs i (c.parent.toList ++ opKids) ++ (c.parent.toList ++ opKids).flatMap ob)).Perm
      (unordL ((c.plug (Tree.node i ks)).edges.map fun e => opEdge e.1 e.2)) := by
    have hE1 : ((c.plug (Tree.node i ks)).edges.map fun e => opEdge e.1 e.2).Perm
        ((c.parent.toList.map (fun q => opEdge q i) ++ (ks.map fun k => opEdge i k.id)) ++
          ((c.compEdges ++ ks.flatMap Tree.edges).map fun e => opEdge e.1 e.2)) := by
      have h1 := (Ctx.plug_edges_perm c (Tree.node i ks)).map (fun e => opEdge e.1 e.2)
      have h2 := (edgesL_perm i ks).map (fun e => opEdge e.1 e.2)
      refine h1.trans ?_
      have hid : (Tree.node i ks).id = i := rfl
      simp only [Ctx.edges, Tree.edges, hid, List.map_append, List.map_map, Function.comp_def] at h2 ⊢
      refine (List.Perm.append_left _ h2).trans ?_
      rw [List.perm_iff_count]
      intro x
      simp only [List.count_append]
      omega
    refine List.Perm.trans ?_ (unordL_perm hE1.symm)
    refine unordL_append_congr ?_ (unordL_perm hOb)
    have hsplit : opPairs i (c.parent.toList ++ opKids) =
        c.parent.toList.map (fun q => opEdge q i) ++ opPairs i opKids := by
      simp only [opPairs, List.map_append]
      rfl
    rw [hsplit]
    refine unordL_append_congr (List.Perm.refl _) ?_
    have h2 : (opPairs i opKids).Perm ((ks.map fun k => opEdge i k.id).map Prod.swap) := by
      have := hperm.map (fun n => (Leg.gOp i n, Leg.gOp n i))
      simpa [opPairs, opEdge, List.map_map, Function.comp_def] using this
    exact (unordL_perm h2).trans (unordL_map_swap _)
  have hres := hval dim e E H B he hE hH hB hEH hEB hHB heb
    (by rw [hnb]; exact hEb.trans (unordL_perm hKb.symm))
    (by rw [hnb]; exact hHb.trans hOpAll.symm)
    (by rw [hnb]; exact hBb.trans (unordL_perm hBrb.symm))
    (by
      rw [hnb]
      intro p hp
      obtain ⟨n, hn, rfl⟩ := List.mem_map.1 (hPin.mem_iff.1 hp)
      exact ⟨(hfree n hn).1, (hfree n hn).2.1⟩)
    (by
      rw [hnb]
      intro p hp
      obtain ⟨n, hn, rfl⟩ := List.mem_map.1 (hPout.mem_iff.1 hp)
      refine ⟨⟨(hfree n hn).2.2.1, ?_⟩, (hfree n hn).2.2.2⟩
      intro hmem
      obtain ⟨q, hq, hq2⟩ := List.mem_map.1 hmem
      obtain ⟨n', _, rfl⟩ := List.mem_map.1 (hPin.mem_iff.1 hq)
      simp [physIn, physOut] at hq2)
    (by
      rw [hnb]
      intro p hp
      apply hdim p
      simp only [projSpec, List.mem_append] at hp ⊢
      rcases hp with hp | (hp | hp) | hp
      · exact Or.inl (hPout.mem_iff.1 hp)
      · exact Or.inr (Or.inl (Or.inl (hPin.mem_iff.1 hp)))
      · exact Or.inr (Or.inl (Or.inr hp))
      · exact Or.inr (Or.inr hp))
    hleaf σ
  rw [hres, hnb]
  rw [sumPairs_perm dim hPout ((pairLegs_perm hPout.symm).nodup_iff.1 (pairLegs_physOut_nodup _ hall))]
  apply sumPairs_congr
  intro τ
  rw [sumPairs_perm dim hPin ((pairLegs_perm hPin.symm).nodup_iff.1 (pairLegs_physIn_nodup _ hall))]

end Ptn.C05.Heff
