import Ptn.C05.Model
/-! Line-protocol handler for the C05 model (core Lean only).

  trace first|second|twosite <last> <u0:h0> <u1:h1> …   → events `S:v:d`, `L:a:b:d`, `T:a:b:d`
                                                          (d in half steps) or `none`
-/
namespace Ptn.C05

def parseSeg (s : String) : Option Seg :=
  match s.splitOn ":" with
  | [a, b] => match a.toNat?, b.toNat? with
    | some x, some y => some (x, y)
    | _, _ => none
  | _ => none

def showEv : Ev → String
  | .site v d => s!"S:{v}:{d}"
  | .link a b d => s!"L:{a}:{b}:{d}"
  | .two a b d => s!"T:{a}:{b}:{d}"

def handle (args : List String) : String :=
  match args with
  | "trace" :: variant :: last :: segs =>
    match last.toNat?, segs.mapM parseSeg with
    | some l, some ss =>
      let out : Option (Option (List Ev)) :=
        match variant with
        | "first" => some (some (first ss l))
        | "second" => some (second ss l)
        | "twosite" => some (twoSite ss l)
        | _ => none
      match out with
      | none => "bad-op"
      | some none => "none"
      | some (some tr) => " ".intercalate (tr.map showEv)
    | _, _ => "bad-op"
  | _ => "bad-op"

end Ptn.C05
