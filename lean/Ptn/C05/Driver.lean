import Ptn.C05.Model
/-! Line-protocol handler for the C05 model (core Lean only). -/
namespace Ptn.C05
def handle (args : List String) : String := "bad-op"
end Ptn.C05
