import Ptn.C05.HeffBuilt
import Ptn.C05.Value
/-! The model's OWN call sequence has the proved value (C05, provenance + value; C04 pattern `contract_two_ttns_value`).

`site_heff_loop_value`, `link_heff_loop_value`, `two_site_heff_loop_value`: for all values of the operator tensor(s)
and of the cached blocks (each reading only its own legs) the matrix the model function returns is BUILT — by the
`tensordot` calls and the transposition the function performs — from exactly these tensors, and EVERY expression from
which it is built over these leaves is strongly well-formed, has the proved record, the rows and columns as its free
legs, and evaluates to `Σ_{operator legs} W · Π_n Blk_n`.  No hypothesis about a program is left. -/
namespace Ptn.C05.Heff
open Ptn.C04 Ptn.Ein

set_option linter.unusedSectionVars false
variable {R : Type} [CommSemiring R]

/-- leaf tensors as sub-networks -/
def leafExprs (ls : List (LeafT R)) : List (Expr Leg R) := ls.map fun lf => Expr.leaf lf.1 lf.2

theorem nodup_labelsL : ∀ (xs : List (Expr Leg R)), Expr.LabelsDisjoint xs → (∀ x ∈ xs, x.labels.Nodup) →
    (Expr.labelsL xs).Nodup
  | [], _, _ => by simp [Expr.labelsL]
  | x :: xs, hd, hn => by
    simp only [Expr.labelsL, List.flatMap_cons, List.nodup_append]
    refine ⟨hn x (by simp), nodup_labelsL xs (List.pairwise_cons.1 hd).2 (fun y hy => hn y (by simp [hy])), ?_⟩
    intro a ha b hb hab
    subst hab
    exact Expr.labelsL_disjoint_head hd a ha hb

theorem labelsL_leafExprs (ls : List (LeafT R)) : Expr.labelsL (leafExprs ls) = ls.flatMap (·.1) := by
  simp [Expr.labelsL, leafExprs, List.flatMap_map, Expr.labels]

/-- an expression whose leaves are (in any order) pairwise label-disjoint tensors without repeated legs has
pairwise distinct labels -/
theorem labels_nodup_of_leaves (e : Expr Leg R) (ls : List (LeafT R)) (hl : e.leaves.Perm ls)
    (hd : Expr.LabelsDisjoint (leafExprs ls)) (hn : ∀ lf ∈ ls, lf.1.Nodup) : e.labels.Nodup := by
  rw [Expr.labels_eq_leaves]
  refine (hl.flatMap_right _).nodup_iff.2 ?_
  rw [← labelsL_leafExprs]
  refine nodup_labelsL _ hd ?_
  intro x hx
  obtain ⟨lf, hlf, rfl⟩ := List.mem_map.1 hx
  exact hn lf hlf

theorem gOpT_legs_nodup (i : Nat) (nd : Node) (h : nd.nbrs.Nodup) : (gOpT i nd).legs.Nodup := by
  simp only [gOpT, T.fresh, List.nodup_append]
  refine ⟨nodup_map_of_inj_on _ _ h (fun x _ y _ e => by injection e), by simp, ?_⟩
  intro a ha b hb hab
  subst hab
  obtain ⟨n, _, rfl⟩ := List.mem_map.1 ha
  simp at hb

theorem blockLegs_nodup (n i : Nat) : (blockLegs n i).Nodup := by simp [blockLegs]

/-- what `Built` gives for an expression over known leaves -/
theorem built_facts {t : T} {e : Expr Leg R} (hb : Built t e) (ls : List (LeafT R)) (hl : e.leaves.Perm ls)
    (hd : Expr.LabelsDisjoint (leafExprs ls)) (hn : ∀ lf ∈ ls, lf.1.Nodup)
    (hloc : ∀ lf ∈ ls, DependsOn (· ∈ lf.1) lf.2) :
    e.SWF ∧ e.binds.Perm t.binds ∧ e.free.Perm t.legs := by
  have hnd := labels_nodup_of_leaves e ls hl hd hn
  have hlocE : e.LeavesLocal := fun lf h => hloc lf (hl.mem_iff.1 h)
  obtain ⟨h1, h2, _⟩ := hb.sound hnd
  exact ⟨hb.swf hnd hlocE, h1.symm, h2.symm⟩

/-! ### single site -/

/-- the leaf tensors of the single-site effective Hamiltonian: the operator tensor and one block per neighbour -/
def siteLeaves (i : Nat) (hamNode : Node) (W : Asg Leg → R) (Blk : Nat → Asg Leg → R) : List (LeafT R) :=
  ((gOpT i hamNode).legs, W) :: hamNode.nbrs.map fun n => (blockLegs n i, Blk n)

/-- **Single-site effective Hamiltonian: the model's own call sequence has the proved value.**  Hypotheses of
`site_heff_value`.  For every commutative semiring, every operator tensor `W` and all block tensors `Blk n` (each
reading only its own legs): the matrix `m` that `get_effective_single_site_hamiltonian_nodes` returns is built by
its own `tensordot` calls from exactly `W` and the blocks, and every expression it is built from over these leaves
is strongly well-formed, has the record of `m`, the free legs `rows ++ cols`, and the value
`Σ_{operator legs} W · Π_n Blk_n` for all dimensions. -/
theorem site_heff_loop_value (i : Nat) (stateNode hamNode : Node) (cache : Cache)
    (hK : stateNode.nbrs.Nodup) (hperm : hamNode.nbrs.Perm stateNode.nbrs) (hi : i ∉ hamNode.nbrs)
    (hcache : ∀ n ∈ hamNode.nbrs, cache n = some (gBlock n i []))
    (W : Asg Leg → R) (Blk : Nat → Asg Leg → R) (hW : DependsOn (· ∈ (gOpT i hamNode).legs) W)
    (hBlk : ∀ n ∈ hamNode.nbrs, DependsOn (· ∈ blockLegs n i) (Blk n)) :
    ∃ m : Mat, getEffectiveSingleSiteHamiltonianNodes stateNode hamNode (gOpT i hamNode) cache = some m ∧
      m.rows = stateNode.nbrs.map (fun n => Leg.gBra n i) ++ [Leg.gOpOut i] ∧
      m.cols = stateNode.nbrs.map (fun n => Leg.gKet n i) ++ [Leg.gOpIn i] ∧
      (∃ e : Expr Leg R, Built m.toT e ∧ e.leaves.Perm (siteLeaves i hamNode W Blk)) ∧
      ∀ e : Expr Leg R, Built m.toT e → e.leaves.Perm (siteLeaves i hamNode W Blk) →
        e.SWF ∧ e.binds.Perm m.binds ∧ e.free.Perm (m.rows ++ m.cols) ∧
        ∀ (dim : Leg → Nat) (σ : Asg Leg), e.eval dim σ =
          sumPairs dim (opPairs i hamNode.nbrs) (fun τ => W τ * prodL (hamNode.nbrs.map fun n => Blk n τ)) σ := by
  obtain ⟨m, hm, hr, hc, hval⟩ := site_heff_value (R := R) i stateNode hamNode cache hK hperm hi hcache
  have hnd : hamNode.nbrs.Nodup := hperm.nodup_iff.2 hK
  refine ⟨m, hm, hr, hc, ?_, ?_⟩
  · have hb := site_heff_built (R := R) (lo := [((gOpT i hamNode).legs, W)])
      (lv := fun n => [(blockLegs n i, Blk n)]) hm (BuiltL.fresh _ W)
      (fun n hn blk hblk => by
        rw [hcache n hn] at hblk
        simp only [Option.some.injEq] at hblk
        subst hblk
        exact BuiltL.fresh (blockLegs n i) (Blk n))
    have hflat : ∀ l : List Nat, l.flatMap (fun n => [((blockLegs n i, Blk n) : LeafT R)]) =
        l.map fun n => (blockLegs n i, Blk n) := by
      intro l
      induction l with
      | nil => rfl
      | cons a as ih => simp [List.flatMap_cons, ih]
    rw [hflat] at hb
    exact hb
  · intro e hbuilt hleaves
    have hdis : Expr.LabelsDisjoint (leafExprs (siteLeaves i hamNode W Blk)) := by
      have := site_leaves_disjoint i hamNode W Blk hamNode.nbrs hnd hi
      simpa [leafExprs, siteLeaves, blockLeaves, List.map_map, Function.comp_def] using this
    obtain ⟨hswf, hbinds, hfree⟩ := built_facts hbuilt _ hleaves hdis
      (fun lf hlf => by
        simp only [siteLeaves, List.mem_cons, List.mem_map] at hlf
        rcases hlf with rfl | ⟨n, _, rfl⟩
        · exact gOpT_legs_nodup i hamNode hnd
        · exact blockLegs_nodup n i)
      (fun lf hlf => by
        simp only [siteLeaves, List.mem_cons, List.mem_map] at hlf
        rcases hlf with rfl | ⟨n, hn, rfl⟩
        · exact hW
        · exact hBlk n hn)
    refine ⟨hswf, hbinds, hfree, fun dim σ => ?_⟩
    exact hval dim e W Blk hswf hW hBlk hbinds
      (fun σ => by
        rw [Expr.leafProd_of_leaves e _ hleaves]
        simp [siteLeaves, prodL, List.map_map, Function.comp_def]) σ

/-! ### link -/

/-- **Link effective Hamiltonian: the model's own call sequence has the proved value**, in both orientations of the
sweep (both return the same matrix, each built by its own `tensordot` from exactly the two blocks). -/
theorem link_heff_loop_value (p c : Nat) (hne : p ≠ c) (cache : Dict)
    (hp : cache (p, c) = some (gBlock p c [])) (hc : cache (c, p) = some (gBlock c p []))
    (Bp Bc : Asg Leg → R) (hBp : DependsOn (· ∈ blockLegs p c) Bp) (hBc : DependsOn (· ∈ blockLegs c p) Bc) :
    ∃ m : Mat, getEffectiveLinkHamiltonian ⟨some p, [c]⟩ c p cache = some m ∧
      getEffectiveLinkHamiltonian ⟨some p, [c]⟩ p c cache = some m ∧
      m.rows = [Leg.gBra p c, Leg.gBra c p] ∧ m.cols = [Leg.gKet p c, Leg.gKet c p] ∧
      (∃ e : Expr Leg R, Built m.toT e ∧ e.leaves.Perm [(blockLegs p c, Bp), (blockLegs c p, Bc)]) ∧
      ∀ e : Expr Leg R, Built m.toT e → e.leaves.Perm [(blockLegs p c, Bp), (blockLegs c p, Bc)] →
        e.SWF ∧ e.binds.Perm m.binds ∧ e.free.Perm (m.rows ++ m.cols) ∧
        ∀ (dim : Leg → Nat) (σ : Asg Leg), e.eval dim σ =
          sumPairs dim [(Leg.gOp p c, Leg.gOp c p)] (fun τ => Bp τ * Bc τ) σ := by
  obtain ⟨m, h1, h2, hr, hcl, hval⟩ := link_heff_value (R := R) p c hne cache hp hc
  refine ⟨m, h1, h2, hr, hcl, ?_, ?_⟩
  · have hb := link_heff_built (R := R) (l1 := [(blockLegs p c, Bp)]) (l2 := [(blockLegs c p, Bc)]) h2
      (fun blk hblk => by
        rw [hp] at hblk
        simp only [Option.some.injEq] at hblk
        subst hblk
        exact BuiltL.fresh (blockLegs p c) Bp)
      (fun blk hblk => by
        rw [hc] at hblk
        simp only [Option.some.injEq] at hblk
        subst hblk
        exact BuiltL.fresh (blockLegs c p) Bc)
    exact hb
  · intro e hbuilt hleaves
    have hdis : Expr.LabelsDisjoint (leafExprs [((blockLegs p c, Bp) : LeafT R), (blockLegs c p, Bc)]) := by
      simp only [leafExprs, List.map_cons, List.map_nil, Expr.LabelsDisjoint, List.pairwise_cons, List.mem_cons,
        List.not_mem_nil, or_false, forall_eq, false_imp_iff, implies_true, List.Pairwise.nil, and_true]
      exact block_block_disjoint p c c p Bp Bc (fun h => absurd h hne)
    obtain ⟨hswf, hbinds, hfree⟩ := built_facts hbuilt _ hleaves hdis
      (fun lf hlf => by
        simp only [List.mem_cons, List.not_mem_nil, or_false] at hlf
        rcases hlf with rfl | rfl <;> exact blockLegs_nodup _ _)
      (fun lf hlf => by
        simp only [List.mem_cons, List.not_mem_nil, or_false] at hlf
        rcases hlf with rfl | rfl
        · exact hBp
        · exact hBc)
    refine ⟨hswf, hbinds, hfree, fun dim σ => ?_⟩
    exact hval dim e Bp Bc hswf hBp hBc hbinds
      (fun σ => by
        rw [Expr.leafProd_of_leaves e _ hleaves]
        simp [prodL]) σ

/-! ### two sites -/

/-- the leaf tensors of the two-site effective Hamiltonian -/
def twoSiteLeaves (t x : Nat) (hamT hamX : Node) (Wt Wx : Asg Leg → R) (BT BX : Nat → Asg Leg → R) :
    List (LeafT R) :=
  ((gOpT t hamT).legs, Wt) :: ((gOpT x hamX).legs, Wx) ::
    (((hamT.nbrs.filter (· ≠ x)).map fun n => (blockLegs n t, BT n)) ++
     ((hamX.nbrs.filter (· ≠ t)).map fun n => (blockLegs n x, BX n)))

/-- **Two-site effective Hamiltonian: the model's own call sequence has the proved value.**  Hypotheses of
`two_site_heff_value`; for all values of the two operator tensors and of the blocks around the two sites. -/
theorem two_site_heff_loop_value (t x : Nat) (hamT hamX twoSite : Node) (cache : Dict)
    (hT : hamT.nbrs.Nodup) (hX : hamX.nbrs.Nodup) (hxT : x ∈ hamT.nbrs) (htX : t ∈ hamX.nbrs)
    (hdisj : ∀ n ∈ hamX.nbrs, n ∉ hamT.nbrs)
    (hS : twoSite.nbrs.Perm (hamT.nbrs.filter (· ≠ x) ++ hamX.nbrs.filter (· ≠ t)))
    (hcT : ∀ n ∈ hamT.nbrs, n ≠ x → cache (n, t) = some (gBlock n t []))
    (hcX : ∀ n ∈ hamX.nbrs, n ≠ t → cache (n, x) = some (gBlock n x []))
    (Wt Wx : Asg Leg → R) (BT BX : Nat → Asg Leg → R)
    (hWt : DependsOn (· ∈ (gOpT t hamT).legs) Wt) (hWx : DependsOn (· ∈ (gOpT x hamX).legs) Wx)
    (hBT : ∀ n ∈ hamT.nbrs.filter (· ≠ x), DependsOn (· ∈ blockLegs n t) (BT n))
    (hBX : ∀ n ∈ hamX.nbrs.filter (· ≠ t), DependsOn (· ∈ blockLegs n x) (BX n)) :
    ∃ m : Mat, getEffectiveTwoSiteHamiltonian hamT hamX twoSite (gOpT t hamT) (gOpT x hamX) t x cache = some m ∧
      m.rows = twoSite.nbrs.map (fun n => if n ∈ hamT.nbrs then Leg.gBra n t else Leg.gBra n x) ++
                [Leg.gOpOut t, Leg.gOpOut x] ∧
      m.cols = twoSite.nbrs.map (fun n => if n ∈ hamT.nbrs then Leg.gKet n t else Leg.gKet n x) ++
                [Leg.gOpIn t, Leg.gOpIn x] ∧
      (∃ e : Expr Leg R, Built m.toT e ∧ e.leaves.Perm (twoSiteLeaves t x hamT hamX Wt Wx BT BX)) ∧
      ∀ e : Expr Leg R, Built m.toT e → e.leaves.Perm (twoSiteLeaves t x hamT hamX Wt Wx BT BX) →
        e.SWF ∧ e.binds.Perm m.binds ∧ e.free.Perm (m.rows ++ m.cols) ∧
        ∀ (dim : Leg → Nat) (σ : Asg Leg), e.eval dim σ =
          sumPairs dim ((opPairs t (hamT.nbrs.filter (· ≠ x)) ++ opPairs x (hamX.nbrs.filter (· ≠ t))) ++
              [(Leg.gOp t x, Leg.gOp x t)])
            (fun τ => Wt τ * (Wx τ * (prodL ((hamT.nbrs.filter (· ≠ x)).map fun n => BT n τ) *
              prodL ((hamX.nbrs.filter (· ≠ t)).map fun n => BX n τ)))) σ := by
  obtain ⟨m, hm, hr, hc, hval⟩ := two_site_heff_value (R := R) t x hamT hamX twoSite cache hT hX hxT htX hdisj hS
    hcT hcX
  have hflat : ∀ (j : Nat) (B : Nat → Asg Leg → R) (l : List Nat),
      l.flatMap (fun n => [((blockLegs n j, B n) : LeafT R)]) = l.map fun n => (blockLegs n j, B n) := by
    intro j B l
    induction l with
    | nil => rfl
    | cons a as ih => simp [List.flatMap_cons, ih]
  refine ⟨m, hm, hr, hc, ?_, ?_⟩
  · have hb := two_site_heff_built (R := R) (lT := [((gOpT t hamT).legs, Wt)]) (lX := [((gOpT x hamX).legs, Wx)])
      (lvT := fun n => [(blockLegs n t, BT n)]) (lvX := fun n => [(blockLegs n x, BX n)]) hm
      (BuiltL.fresh _ Wt) (BuiltL.fresh _ Wx)
      (fun n hn hne blk hblk => by
        rw [hcT n hn hne] at hblk
        simp only [Option.some.injEq] at hblk
        subst hblk
        exact BuiltL.fresh (blockLegs n t) (BT n))
      (fun n hn hne blk hblk => by
        rw [hcX n hn hne] at hblk
        simp only [Option.some.injEq] at hblk
        subst hblk
        exact BuiltL.fresh (blockLegs n x) (BX n))
    rw [hflat, hflat] at hb
    refine hb.perm ?_
    simp only [twoSiteLeaves, List.cons_append]
    refine List.Perm.cons _ ?_
    exact List.perm_middle
  · intro e hbuilt hleaves
    have hdis : Expr.LabelsDisjoint (leafExprs (twoSiteLeaves t x hamT hamX Wt Wx BT BX)) := by
      have := two_site_leaves_disjoint t x hamT hamX Wt Wx BT BX hT hX hxT htX hdisj
      simpa [leafExprs, twoSiteLeaves, blockLeaves, List.map_map, Function.comp_def] using this
    obtain ⟨hswf, hbinds, hfree⟩ := built_facts hbuilt _ hleaves hdis
      (fun lf hlf => by
        simp only [twoSiteLeaves, List.mem_cons, List.mem_append, List.mem_map] at hlf
        rcases hlf with rfl | rfl | ⟨n, _, rfl⟩ | ⟨n, _, rfl⟩
        · exact gOpT_legs_nodup t hamT hT
        · exact gOpT_legs_nodup x hamX hX
        · exact blockLegs_nodup n t
        · exact blockLegs_nodup n x)
      (fun lf hlf => by
        simp only [twoSiteLeaves, List.mem_cons, List.mem_append, List.mem_map] at hlf
        rcases hlf with rfl | rfl | ⟨n, hn, rfl⟩ | ⟨n, hn, rfl⟩
        · exact hWt
        · exact hWx
        · exact hBT n hn
        · exact hBX n hn)
    refine ⟨hswf, hbinds, hfree, fun dim σ => ?_⟩
    exact hval dim e Wt Wx BT BX hswf hWt hWx hBT hBX hbinds
      (fun σ => by
        rw [Expr.leafProd_of_leaves e _ hleaves]
        simp [twoSiteLeaves, prodL, prodL_append, List.map_map, Function.comp_def]) σ

end Ptn.C05.Heff
