import Ptn.C05.LinkProjected
import Ptn.C05.WholeProgramTwo
/-! Two-site `H_eff = E† H E` for every adjacent pair of every tree (both orders of the pair) with the CANONICAL
`E`, `H`, `B` — no quantified split (C05, value level, builder B63).

* `pairEnvExpr Λ up a b ls rs ks`  the canonical contraction (`seqExpr`) of the tensors of the layer at all nodes EXCEPT
                        the pair `a`, `b` over all bonds touching neither of the two;
* `pairEnvExpr_facts`   it is admissible (SWF, leaves, record, physical legs free);
* `two_site_heff_eq_projected(_up)`  every program the model's two-site matrix is built from evaluates to
                        `Σ_{phys'} (Σ_{phys} pairEnvKet · opAll) · pairEnvBra`. -/
namespace Ptn.C05.Heff
open Ptn.C04 Ptn.Ein

set_option linter.unusedSectionVars false
variable {R : Type} [CommSemiring R]

/-- the tensors of the layer `Λ` at all nodes except the pair: component above `a`, the other subtrees of `a`, the
subtrees of `b` -/
def pairEnvLeaves (Λ : Layer R) (up : Ctx) (a b : Nat) (ls rs ks : List Tree) : List (LeafT R) :=
  up.leavesG Λ.nodeLeaves a ++ (treeLeavesL Λ.nodeLeaves a (ls ++ rs) ++ treeLeavesL Λ.nodeLeaves b ks)

/-- the edges of the tree that touch neither `a` nor `b` -/
def pairEnvEdges (up : Ctx) (ls rs ks : List Tree) : List (Nat × Nat) :=
  up.compEdges ++ ((ls ++ rs) ++ ks).flatMap Tree.edges

/-- the bonds of the layer that touch neither `a` nor `b` -/
def pairEnvRecord (Λ : Layer R) (up : Ctx) (ls rs ks : List Tree) : List (Leg × Leg) :=
  (pairEnvEdges up ls rs ks).map fun e => Λ.edge e.1 e.2

/-- **the canonical environment of the pair in the layer `Λ`** -/
def pairEnvExpr (Λ : Layer R) (up : Ctx) (a b : Nat) (ls rs ks : List Tree) : Expr Leg R :=
  seqExpr (pairEnvRecord Λ up ls rs ks) (pairEnvLeaves Λ up a b ls rs ks)

omit [CommSemiring R] in
/-- with the two tensors of the pair these are the tensors of the layer at all nodes -/
theorem pairEnvLeaves_perm (nl : Nat → Option Nat → List Nat → List (LeafT R)) (up : Ctx) (a b : Nat)
    (ls rs ks : List Tree) :
    ((nl a up.parent (ls.map Tree.id ++ b :: rs.map Tree.id) ++ nl b (some a) (ks.map Tree.id)) ++
      (up.leavesG nl a ++ (treeLeavesL nl a (ls ++ rs) ++ treeLeavesL nl b ks))).Perm
      (treeLeaves nl none ((Ctx.frame a ls rs up).plug (Tree.node b ks))) := by
  have h := Ctx.plug_leaves_perm nl (Ctx.frame a ls rs up) (Tree.node b ks)
  refine List.Perm.trans ?_ h.symm
  have hid : (Tree.node b ks).id = b := rfl
  rw [hid]
  simp only [treeLeaves, Ctx.leavesG, Ctx.parent]
  classical
  rw [List.perm_iff_count]
  intro z
  simp only [List.count_append]
  omega

/-- the edges of the whole tree: those at the pair, then those touching neither of the two -/
theorem pairEnvEdges_perm (up : Ctx) (a b : Nat) (ls rs ks : List Tree) :
    ((Ctx.frame a ls rs up).plug (Tree.node b ks)).edges.Perm
      (((a, b) :: ((ls ++ rs).map (fun c => (a, c.id)) ++ (up.parent.toList.map (fun q => (q, a)) ++
        ks.map (fun c => (b, c.id))))) ++ pairEnvEdges up ls rs ks) := by
  refine (Ctx.plug_edges_frame_perm (Ctx.frame a ls rs up) a rfl (Tree.node b ks)).trans ?_
  have h1 := edgesL_perm a (ls ++ rs)
  have h2 := edgesL_perm b ks
  have hid : (Tree.node b ks).id = b := rfl
  rw [hid]
  simp only [Ctx.compEdges, Tree.edges, pairEnvEdges]
  classical
  rw [List.perm_iff_count]
  intro z
  have c1 := h1.count_eq z
  have c2 := h2.count_eq z
  simp only [List.flatMap_append, List.count_append, List.count_cons, List.cons_append] at c1 c2 ⊢
  omega

/-- **the canonical environment of the pair is admissible.** -/
theorem pairEnvExpr_facts (Λ : Layer R) (hs : Λ.Inj) (hnode : ∀ a b, legNode (Λ.vleg a b) = some a)
    (up : Ctx) (a b : Nat) (ls rs ks : List Tree)
    (hnd : ((Ctx.frame a ls rs up).plug (Tree.node b ks)).ids.Nodup)
    (hh : ∀ e ∈ Tree.info none ((Ctx.frame a ls rs up).plug (Tree.node b ks)), Λ.Has e)
    (hok : ∀ e ∈ Tree.info none ((Ctx.frame a ls rs up).plug (Tree.node b ks)), NodeOK Λ.nodeLeaves e)
    (hloc : ∀ e ∈ Tree.info none ((Ctx.frame a ls rs up).plug (Tree.node b ks)),
      DependsOn (· ∈ Λ.legs e.1 e.2.1 e.2.2) (Λ.val e.1)) :
    (pairEnvExpr Λ up a b ls rs ks).SWF ∧
      (pairEnvExpr Λ up a b ls rs ks).leaves = ([], fun _ => 1) :: pairEnvLeaves Λ up a b ls rs ks ∧
      (unordL (pairEnvExpr Λ up a b ls rs ks).binds).Perm (unordL (pairEnvRecord Λ up ls rs ks)) ∧
      (∀ l, l ∈ labelsOf (treeLeaves Λ.nodeLeaves none ((Ctx.frame a ls rs up).plug (Tree.node b ks))) →
        legNode l ≠ some a → legNode l ≠ some b → l ∈ labelsOf (pairEnvLeaves Λ up a b ls rs ks)) ∧
      (∀ l, (∀ x y, l ≠ Λ.vleg x y) → l ∈ labelsOf (pairEnvLeaves Λ up a b ls rs ks) →
        l ∈ (pairEnvExpr Λ up a b ls rs ks).free) := by
  -- identifiers
  have h0 := (Ctx.plug_ids_perm (Ctx.frame a ls rs up) (Tree.node b ks)).nodup_iff.1 hnd
  have hperm0 : ((Ctx.frame a ls rs up).ids ++ (Tree.node b ks).ids).Perm
      (a :: b :: (up.ids ++ Tree.idsL ((ls ++ rs) ++ ks))) := by
    rw [List.perm_iff_count]
    intro z
    simp only [Ctx.ids, Tree.ids, idsL_append', List.cons_append, List.count_append, List.count_cons]
    omega
  have h1 := hperm0.nodup_iff.1 h0
  rw [List.nodup_cons, List.nodup_cons] at h1
  obtain ⟨ha, hb, _⟩ := h1
  have ha' : a ∉ up.ids ++ Tree.idsL ((ls ++ rs) ++ ks) := fun h => ha (List.mem_cons_of_mem _ h)
  -- leaves
  have hplug := pairEnvLeaves_perm Λ.nodeLeaves up a b ls rs ks
  have hlabT := (treeLeaves_labels Λ.nodeLeaves ((Ctx.frame a ls rs up).plug (Tree.node b ks)) none hnd hok).1
  have hN := (hplug.flatMap_right (·.1)).nodup_iff.2 hlabT
  rw [List.flatMap_append] at hN
  have hndE : (labelsOf (pairEnvLeaves Λ up a b ls rs ks)).Nodup := (List.nodup_append.1 hN).2.1
  have hsub : ∀ lf ∈ pairEnvLeaves Λ up a b ls rs ks,
      lf ∈ treeLeaves Λ.nodeLeaves none ((Ctx.frame a ls rs up).plug (Tree.node b ks)) :=
    fun lf hlf => hplug.mem_iff.1 (List.mem_append.2 (Or.inr hlf))
  have hsiteA : (a, up.parent, ls.map Tree.id ++ b :: rs.map Tree.id) ∈
      Tree.info none ((Ctx.frame a ls rs up).plug (Tree.node b ks)) :=
    Ctx.mem_info_plug _ (Tree.node b ks) _ (Or.inl (by simp [Ctx.info, Tree.id]))
  have hsiteB : (b, some a, ks.map Tree.id) ∈ Tree.info none ((Ctx.frame a ls rs up).plug (Tree.node b ks)) :=
    Ctx.mem_info_plug _ (Tree.node b ks) _ (Or.inr (by simp [Tree.info, Ctx.parent]))
  have hmemE : ∀ l, l ∈ labelsOf (treeLeaves Λ.nodeLeaves none ((Ctx.frame a ls rs up).plug (Tree.node b ks))) →
      legNode l ≠ some a → legNode l ≠ some b → l ∈ labelsOf (pairEnvLeaves Λ up a b ls rs ks) := by
    intro l hl hna hnb
    have := (hplug.flatMap_right (·.1)).mem_iff.2 hl
    simp only [List.flatMap_append, List.mem_append] at this
    rcases this with (h | h) | h
    · exact absurd ((hok _ hsiteA).2 l h) hna
    · exact absurd ((hok _ hsiteB).2 l h) hnb
    · simpa only [pairEnvLeaves, labelsOf, List.flatMap_append, List.mem_append] using h
  -- the record
  have hedges := pairEnvEdges_perm up a b ls rs ks
  have hends : ∀ e ∈ pairEnvEdges up ls rs ks, (e.1 ≠ a ∧ e.2 ≠ a) ∧ (e.1 ≠ b ∧ e.2 ≠ b) := by
    intro e he
    have hin : e.1 ∈ up.ids ++ Tree.idsL ((ls ++ rs) ++ ks) ∧ e.2 ∈ up.ids ++ Tree.idsL ((ls ++ rs) ++ ks) := by
      simp only [pairEnvEdges, List.mem_append, List.mem_flatMap] at he
      rcases he with h | ⟨k, hk, h⟩
      · have := Ctx.compEdges_mem_ids up e h
        exact ⟨List.mem_append.2 (Or.inl this.1), List.mem_append.2 (Or.inl this.2)⟩
      · have := seq_edges_mem_ids k e h
        have hkk : ∀ x ∈ k.ids, x ∈ Tree.idsL ((ls ++ rs) ++ ks) := fun x hx => by
          rw [idsL_eq_flatMap]; exact List.mem_flatMap.2 ⟨k, List.mem_append.2 (hk.imp List.mem_append.2 id), hx⟩
        exact ⟨List.mem_append.2 (Or.inr (hkk _ this.1)), List.mem_append.2 (Or.inr (hkk _ this.2))⟩
    exact ⟨⟨fun h => ha' (h ▸ hin.1), fun h => ha' (h ▸ hin.2)⟩, ⟨fun h => hb (h ▸ hin.1), fun h => hb (h ▸ hin.2)⟩⟩
  have hlegsIn : ∀ l ∈ Expr.pairLegs (pairEnvRecord Λ up ls rs ks), l ∈ labelsOf (pairEnvLeaves Λ up a b ls rs ks) := by
    intro l hl
    obtain ⟨q, hq, hql⟩ := mem_pairLegs.1 hl
    have hT : l ∈ labelsOf (treeLeaves Λ.nodeLeaves none ((Ctx.frame a ls rs up).plug (Tree.node b ks))) := by
      apply layer_pairLegs_labels Λ hs _ hnd hh hok hloc l
      apply (pairLegs_perm (hedges.map fun e => Λ.edge e.1 e.2)).mem_iff.2
      exact mem_pairLegs.2 ⟨q, by rw [List.map_append]; exact List.mem_append.2 (Or.inr hq), hql⟩
    obtain ⟨e, he, rfl⟩ := List.mem_map.1 hq
    have hne := hends e he
    rcases layer_edge_legs Λ e.1 e.2 with ⟨h1, h2⟩ | ⟨h1, h2⟩ <;> rcases hql with h | h
    · apply hmemE l hT <;> rw [← h, h1, hnode]
      · exact fun hh => hne.1.1 (Option.some.inj hh)
      · exact fun hh => hne.2.1 (Option.some.inj hh)
    · apply hmemE l hT <;> rw [← h, h2, hnode]
      · exact fun hh => hne.1.2 (Option.some.inj hh)
      · exact fun hh => hne.2.2 (Option.some.inj hh)
    · apply hmemE l hT <;> rw [← h, h1, hnode]
      · exact fun hh => hne.1.2 (Option.some.inj hh)
      · exact fun hh => hne.2.2 (Option.some.inj hh)
    · apply hmemE l hT <;> rw [← h, h2, hnode]
      · exact fun hh => hne.1.1 (Option.some.inj hh)
      · exact fun hh => hne.2.1 (Option.some.inj hh)
  obtain ⟨f1, f2, f3, f4⟩ := seqEnv_facts Λ hs hnode _ hnd hh hok hloc (pairEnvLeaves Λ up a b ls rs ks)
    (pairEnvEdges up ls rs ks) _ hndE hsub hedges hlegsIn
  exact ⟨f1, f2, f3, hmemE, f4⟩

/-- the canonical ket environment of the pair `a`, `b` -/
def pairEnvKet (kv : Nat → Asg Leg → R) (up : Ctx) (a b : Nat) (ls rs ks : List Tree) : Expr Leg R :=
  pairEnvExpr (ketLayer kv) up a b ls rs ks
/-- the canonical bra environment of the pair -/
def pairEnvBra (bv : Nat → Asg Leg → R) (up : Ctx) (a b : Nat) (ls rs ks : List Tree) : Expr Leg R :=
  pairEnvExpr (braLayerK bv) up a b ls rs ks

theorem pairEnvRecord_ket (kv : Nat → Asg Leg → R) (up : Ctx) (ls rs ks : List Tree) :
    pairEnvRecord (ketLayer kv) up ls rs ks = (up.compEdges ++ ((ls ++ rs) ++ ks).flatMap Tree.edges).map fun e => ketEdge e.1 e.2 := by
  simp [pairEnvRecord, pairEnvEdges, Layer.edge, ketLayer, ketEdge]

theorem pairEnvRecord_bra (bv : Nat → Asg Leg → R) (up : Ctx) (ls rs ks : List Tree) :
    pairEnvRecord (braLayerK bv) up ls rs ks = (up.compEdges ++ ((ls ++ rs) ++ ks).flatMap Tree.edges).map fun e => braEdge e.1 e.2 := by
  simp [pairEnvRecord, pairEnvEdges, Layer.edge, braLayerK, braEdge]

/-- the canonical `E`, `H`, `B` of an adjacent pair are admissible, read exactly `pairLeaves`, and every matrix whose
record has the tree-level value (`TreeForm`) has the value `E† H E` with these three programs -/
theorem pair_canonical_core (up : Ctx) (a b : Nat) (ls rs ks : List Tree)
    (hnd : ((Ctx.frame a ls rs up).plug (Tree.node b ks)).ids.Nodup) (opKids : Nat → List Nat)
    (hperm : ∀ e ∈ Tree.info none ((Ctx.frame a ls rs up).plug (Tree.node b ks)), (opKids e.1).Perm e.2.2)
    (kv ov bv : Nat → Asg Leg → R) (hkv : KetLocal kv ((Ctx.frame a ls rs up).plug (Tree.node b ks)))
    (hov : OpLocalK ov opKids ((Ctx.frame a ls rs up).plug (Tree.node b ks)))
    (hbv : BraLocalK bv ((Ctx.frame a ls rs up).plug (Tree.node b ks))) :
    (pairEnvKet kv up a b ls rs ks).SWF ∧ (opAll ov opKids ((Ctx.frame a ls rs up).plug (Tree.node b ks))).SWF ∧ (pairEnvBra bv up a b ls rs ks).SWF ∧
    (pairEnvLeaves (ketLayer kv) up a b ls rs ks ++ ((opAll ov opKids ((Ctx.frame a ls rs up).plug (Tree.node b ks))).leaves ++
      pairEnvLeaves (braLayerK bv) up a b ls rs ks)).Perm (pairLeaves opKids kv ov bv up a b ls rs ks) ∧
    (pairEnvKet kv up a b ls rs ks).leaves = ([], fun _ => 1) :: pairEnvLeaves (ketLayer kv) up a b ls rs ks ∧
    (pairEnvBra bv up a b ls rs ks).leaves = ([], fun _ => 1) :: pairEnvLeaves (braLayerK bv) up a b ls rs ks ∧
    (unordL (pairEnvKet kv up a b ls rs ks).binds).Perm (unordL ((up.compEdges ++ ((ls ++ rs) ++ ks).flatMap Tree.edges).map fun e => ketEdge e.1 e.2)) ∧
    (opAll ov opKids ((Ctx.frame a ls rs up).plug (Tree.node b ks))).binds.Perm (((Ctx.frame a ls rs up).plug (Tree.node b ks)).edges.map fun e => opEdge e.1 e.2) ∧
    (unordL (pairEnvBra bv up a b ls rs ks).binds).Perm (unordL ((up.compEdges ++ ((ls ++ rs) ++ ks).flatMap Tree.edges).map fun e => braEdge e.1 e.2)) ∧
    (∀ n ∈ (up.ids ++ Tree.idsL ((ls ++ rs) ++ ks)), Leg.gKetPhys n ∈ (pairEnvKet kv up a b ls rs ks).free ∧
      Leg.gOpIn n ∈ (opAll ov opKids ((Ctx.frame a ls rs up).plug (Tree.node b ks))).free ∧
      Leg.gOpOut n ∈ (opAll ov opKids ((Ctx.frame a ls rs up).plug (Tree.node b ks))).free ∧ Leg.gBraPhys n ∈ (pairEnvBra bv up a b ls rs ks).free) ∧
    ∀ m : Mat, TreeForm R m.binds (up.ids ++ Tree.idsL ((ls ++ rs) ++ ks))
        ((up.compEdges ++ ((ls ++ rs) ++ ks).flatMap Tree.edges).map fun e => ketEdge e.1 e.2)
        (((Ctx.frame a ls rs up).plug (Tree.node b ks)).edges.map fun e => opEdge e.1 e.2)
        ((up.compEdges ++ ((ls ++ rs) ++ ks).flatMap Tree.edges).map fun e => braEdge e.1 e.2) →
      ∀ e : Expr Leg R, Built m.toT e → e.leaves.Perm (pairLeaves opKids kv ov bv up a b ls rs ks) →
        e.SWF ∧ e.binds.Perm m.binds ∧ e.free.Perm (m.rows ++ m.cols) ∧
        ∀ (dim : Leg → Nat),
          (∀ q ∈ projSpec ((up.ids ++ Tree.idsL ((ls ++ rs) ++ ks)).map physOut) ((up.ids ++ Tree.idsL ((ls ++ rs) ++ ks)).map physIn)
            ((up.compEdges ++ ((ls ++ rs) ++ ks).flatMap Tree.edges).map fun e => ketEdge e.1 e.2)
            (((Ctx.frame a ls rs up).plug (Tree.node b ks)).edges.map fun e => opEdge e.1 e.2)
            ((up.compEdges ++ ((ls ++ rs) ++ ks).flatMap Tree.edges).map fun e => braEdge e.1 e.2), dim q.1 = dim q.2) →
          ∀ σ, e.eval dim σ =
            sumPairs dim ((up.ids ++ Tree.idsL ((ls ++ rs) ++ ks)).map physOut)
              (fun τ => sumPairs dim ((up.ids ++ Tree.idsL ((ls ++ rs) ++ ks)).map physIn)
                (fun ρ => (pairEnvKet kv up a b ls rs ks).eval dim ρ * (opAll ov opKids ((Ctx.frame a ls rs up).plug (Tree.node b ks))).eval dim ρ) τ *
                (pairEnvBra bv up a b ls rs ks).eval dim τ) σ := by
  -- the node tensors of the whole tree
  have hnone : ∀ q, (none : Option Nat) = some q → q ∉ ((Ctx.frame a ls rs up).plug (Tree.node b ks)).ids := fun q hq => by simp at hq
  have hnb := info_nbrs_nodup ((Ctx.frame a ls rs up).plug (Tree.node b ks)) none hnd hnone
  have hok : ∀ e ∈ Tree.info none ((Ctx.frame a ls rs up).plug (Tree.node b ks)), NodeOK (soNodeLeaves opKids kv ov bv) e :=
    fun e he => so_nodeOK kv ov bv opKids e (hnb e he) (hperm e he)
  let ΛO := opLayer ov opKids
  let ΛB := braLayerK bv
  have hokK : ∀ e ∈ Tree.info none ((Ctx.frame a ls rs up).plug (Tree.node b ks)), NodeOK (ketLayer kv).nodeLeaves e := fun e he =>
    nodeOK_left (f := (ketLayer kv).nodeLeaves)
      (g := fun i p k => ΛO.nodeLeaves i p k ++ ΛB.nodeLeaves i p k) (hok e he)
  have hokOB : ∀ e ∈ Tree.info none ((Ctx.frame a ls rs up).plug (Tree.node b ks)),
      NodeOK (fun i p k => ΛO.nodeLeaves i p k ++ ΛB.nodeLeaves i p k) e :=
    fun e he => nodeOK_right (f := (ketLayer kv).nodeLeaves)
      (g := fun i p k => ΛO.nodeLeaves i p k ++ ΛB.nodeLeaves i p k) (hok e he)
  have hokO : ∀ e ∈ Tree.info none ((Ctx.frame a ls rs up).plug (Tree.node b ks)), NodeOK ΛO.nodeLeaves e := fun e he =>
    nodeOK_left (f := ΛO.nodeLeaves) (g := ΛB.nodeLeaves) (hokOB e he)
  have hokB : ∀ e ∈ Tree.info none ((Ctx.frame a ls rs up).plug (Tree.node b ks)), NodeOK ΛB.nodeLeaves e := fun e he =>
    nodeOK_right (f := ΛO.nodeLeaves) (g := ΛB.nodeLeaves) (hokOB e he)
  -- the three canonical programs
  obtain ⟨hK, hKl, hKb, hKmem, hKfree⟩ := pairEnvExpr_facts (ketLayer kv) (ketLayer_inj kv) (fun _ _ => rfl)
    up a b ls rs ks hnd
    (fun e _ n hn => by
      simp only [ketLayer, gKetT, T.fresh, Node.nbrs, List.mem_append, List.mem_map]
      exact Or.inl ⟨n, List.mem_append.1 hn, rfl⟩)
    hokK hkv
  obtain ⟨hB, hBl, hBb, hBmem, hBfree⟩ := pairEnvExpr_facts ΛB
    (fun a b a' b' h => by simp only [ΛB, braLayerK] at h; injection h with h1 h2; exact ⟨h1, h2⟩)
    (fun _ _ => rfl) up a b ls rs ks hnd
    (fun e _ n hn => by
      simp only [ΛB, braLayerK, gBraT, T.fresh, Node.nbrs, List.mem_append, List.mem_map]
      exact Or.inl ⟨n, List.mem_append.1 hn, rfl⟩)
    hokB hbv
  have hO : (opExpr ov opKids ((Ctx.frame a ls rs up).plug (Tree.node b ks))).SWF := layExpr_swf ΛO
    (fun a b a' b' h => by simp only [ΛO, opLayer] at h; injection h with h1 h2; exact ⟨h1, h2⟩)
    ((Ctx.frame a ls rs up).plug (Tree.node b ks)) none hnd hnone
    (fun e he n hn => by
      simp only [ΛO, opLayer, gOpT, T.fresh, Node.nbrs, List.mem_append, List.mem_map]
      refine Or.inl ⟨n, ?_, rfl⟩
      rcases List.mem_append.1 hn with h | h
      · exact Or.inl h
      · exact Or.inr ((hperm e he).mem_iff.2 h))
    hokO hov
  have hLO := layExpr_leaves ΛO ((Ctx.frame a ls rs up).plug (Tree.node b ks)) none
  have hOb : (opExpr ov opKids ((Ctx.frame a ls rs up).plug (Tree.node b ks))).binds.Perm (((Ctx.frame a ls rs up).plug (Tree.node b ks)).edges.map fun e => opEdge e.1 e.2) := by
    have := layExpr_binds ΛO ((Ctx.frame a ls rs up).plug (Tree.node b ks)) none
    simpa [Layer.edge, ΛO, opLayer, opEdge, opExpr] using this
  rw [pairEnvRecord_ket] at hKb
  have hBb' : (unordL (pairEnvExpr ΛB up a b ls rs ks).binds).Perm
      (unordL ((up.compEdges ++ ((ls ++ rs) ++ ks).flatMap Tree.edges).map fun e => braEdge e.1 e.2)) := by
    rw [← pairEnvRecord_bra bv]; exact hBb
  -- the leaves: the three programs read exactly `pairLeaves`
  have hwl := pairLeaves_perm opKids kv ov bv up a b ls rs ks
  have hsplit : (pairEnvLeaves (ketLayer kv) up a b ls rs ks ++ ((opExpr ov opKids ((Ctx.frame a ls rs up).plug (Tree.node b ks))).leaves ++
      pairEnvLeaves ΛB up a b ls rs ks)).Perm (pairLeaves opKids kv ov bv up a b ls rs ks) := by
    have h1 := treeLeaves_append (ketLayer kv).nodeLeaves
      (fun i p k => ΛO.nodeLeaves i p k ++ ΛB.nodeLeaves i p k) ((Ctx.frame a ls rs up).plug (Tree.node b ks)) none
    have h2 := treeLeaves_append ΛO.nodeLeaves ΛB.nodeLeaves ((Ctx.frame a ls rs up).plug (Tree.node b ks)) none
    have pK := pairEnvLeaves_perm (ketLayer kv).nodeLeaves up a b ls rs ks
    have pB := pairEnvLeaves_perm ΛB.nodeLeaves up a b ls rs ks
    have hS : (soLeaves opKids kv ov bv none ((Ctx.frame a ls rs up).plug (Tree.node b ks))).Perm
        (treeLeaves (ketLayer kv).nodeLeaves none ((Ctx.frame a ls rs up).plug (Tree.node b ks)) ++
          (treeLeaves ΛO.nodeLeaves none ((Ctx.frame a ls rs up).plug (Tree.node b ks)) ++
            treeLeaves ΛB.nodeLeaves none ((Ctx.frame a ls rs up).plug (Tree.node b ks)))) := h1.trans (List.Perm.append_left _ h2)
    have hka : (ketLayer kv).nodeLeaves a up.parent (ls.map Tree.id ++ b :: rs.map Tree.id) =
        [((gKetT a ⟨up.parent, ls.map Tree.id ++ b :: rs.map Tree.id⟩).legs, kv a)] := rfl
    have hkb : (ketLayer kv).nodeLeaves b (some a) (ks.map Tree.id) =
        [((gKetT b ⟨some a, ks.map Tree.id⟩).legs, kv b)] := rfl
    have hba : ΛB.nodeLeaves a up.parent (ls.map Tree.id ++ b :: rs.map Tree.id) =
        [((gBraT a ⟨up.parent, ls.map Tree.id ++ b :: rs.map Tree.id⟩).legs, bv a)] := rfl
    have hbb : ΛB.nodeLeaves b (some a) (ks.map Tree.id) =
        [((gBraT b ⟨some a, ks.map Tree.id⟩).legs, bv b)] := rfl
    rw [hka, hkb] at pK
    rw [hba, hbb] at pB
    have hps : pairSiteLeaves kv bv up a b ls rs ks =
        [((gKetT a ⟨up.parent, ls.map Tree.id ++ b :: rs.map Tree.id⟩).legs, kv a)] ++
          ([((gBraT a ⟨up.parent, ls.map Tree.id ++ b :: rs.map Tree.id⟩).legs, bv a)] ++
            ([((gKetT b ⟨some a, ks.map Tree.id⟩).legs, kv b)] ++
              [((gBraT b ⟨some a, ks.map Tree.id⟩).legs, bv b)])) := rfl
    rw [hps] at hwl
    classical
    rw [List.perm_iff_count]
    intro z
    have c1 := hwl.count_eq z
    have c2 := hS.count_eq z
    have c3 := pK.count_eq z
    have c4 := pB.count_eq z
    have c5 : List.count z (opExpr ov opKids ((Ctx.frame a ls rs up).plug (Tree.node b ks))).leaves =
        List.count z (treeLeaves ΛO.nodeLeaves none ((Ctx.frame a ls rs up).plug (Tree.node b ks))) := hLO.count_eq z
    simp only [pairEnvLeaves, List.count_append] at c1 c2 c3 c4 c5 ⊢
    omega
  -- labels
  obtain ⟨hndS, hlocS⟩ := soLeaves_clean opKids kv ov bv ((Ctx.frame a ls rs up).plug (Tree.node b ks)) hnd hperm hkv hov hbv
  have hndW : (labelsOf (pairLeaves opKids kv ov bv up a b ls rs ks)).Nodup := by
    have h1 := (hwl.flatMap_right (·.1)).nodup_iff.2 hndS
    rw [List.flatMap_append] at h1
    exact (List.nodup_append.1 h1).2.1
  have hlocW : ∀ lf ∈ pairLeaves opKids kv ov bv up a b ls rs ks, DependsOn (· ∈ lf.1) lf.2 := fun lf hlf =>
    hlocS lf (hwl.mem_iff.1 (List.mem_append.2 (Or.inr hlf)))
  have hndAll : ((pairEnvExpr (ketLayer kv) up a b ls rs ks).labels ++ ((opExpr ov opKids ((Ctx.frame a ls rs up).plug (Tree.node b ks))).labels ++
      (pairEnvExpr ΛB up a b ls rs ks).labels)).Nodup := by
    have h1 := (hsplit.flatMap_right (·.1)).nodup_iff.2 hndW
    simpa [pairEnvExpr, seqExpr_labels, labelsOf, List.flatMap_append, ← Expr.labels_eq_leaves] using h1
  rw [List.nodup_append] at hndAll
  obtain ⟨_, hndOB, hdisK⟩ := hndAll
  rw [List.nodup_append] at hndOB
  -- free physical legs
  have h0 := (Ctx.plug_ids_perm (Ctx.frame a ls rs up) (Tree.node b ks)).nodup_iff.1 hnd
  have hperm0 : ((Ctx.frame a ls rs up).ids ++ (Tree.node b ks).ids).Perm
      (a :: b :: (up.ids ++ Tree.idsL ((ls ++ rs) ++ ks))) := by
    rw [List.perm_iff_count]
    intro z
    simp only [Ctx.ids, Tree.ids, idsL_append', List.cons_append, List.count_append, List.count_cons]
    omega
  have h1 := hperm0.nodup_iff.1 h0
  rw [List.nodup_cons, List.nodup_cons] at h1
  obtain ⟨ha, hb, _⟩ := h1
  have hmemInfo : ∀ n ∈ (up.ids ++ Tree.idsL ((ls ++ rs) ++ ks)), n ≠ a ∧ n ≠ b ∧ ∃ x ∈ Tree.info none ((Ctx.frame a ls rs up).plug (Tree.node b ks)), x.1 = n := by
    intro n hn
    have hnT : n ∈ ((Ctx.frame a ls rs up).plug (Tree.node b ks)).ids :=
      (Ctx.plug_ids_perm _ _).mem_iff.2 (hperm0.mem_iff.2 (List.mem_cons_of_mem _ (List.mem_cons_of_mem _ hn)))
    refine ⟨fun h => ha (List.mem_cons_of_mem _ (h ▸ hn)), fun h => hb (h ▸ hn), ?_⟩
    rw [← Tree.info_keys none ((Ctx.frame a ls rs up).plug (Tree.node b ks))] at hnT
    obtain ⟨x, hx, rfl⟩ := List.mem_map.1 hnT
    exact ⟨x, hx, rfl⟩
  have hfree : ∀ n ∈ (up.ids ++ Tree.idsL ((ls ++ rs) ++ ks)), Leg.gKetPhys n ∈ (pairEnvExpr (ketLayer kv) up a b ls rs ks).free ∧
      Leg.gOpIn n ∈ (opExpr ov opKids ((Ctx.frame a ls rs up).plug (Tree.node b ks))).free ∧
      Leg.gOpOut n ∈ (opExpr ov opKids ((Ctx.frame a ls rs up).plug (Tree.node b ks))).free ∧
      Leg.gBraPhys n ∈ (pairEnvExpr ΛB up a b ls rs ks).free := by
    intro n hn
    obtain ⟨hna, hnb', x, hx, rfl⟩ := hmemInfo n hn
    refine ⟨?_, ?_, ?_, ?_⟩
    · apply hKfree _ (fun a b => by simp [ketLayer])
      refine hKmem (Leg.gKetPhys x.1) ?_ (fun h => hna (Option.some.inj h)) (fun h => hnb' (Option.some.inj h))
      simp only [labelsOf, List.mem_flatMap]
      exact ⟨_, nodeLeaves_sub _ _ none x hx _ (List.mem_singleton.2 rfl), by simp [ketLayer, gKetT, T.fresh]⟩
    · apply layExpr_free_phys ΛO _ (fun a b => by simp [ΛO, opLayer]) _ none
      simp only [labelsOf, List.mem_flatMap]
      exact ⟨_, nodeLeaves_sub _ _ none x hx _ (List.mem_singleton.2 rfl), by simp [ΛO, opLayer, gOpT, T.fresh]⟩
    · apply layExpr_free_phys ΛO _ (fun a b => by simp [ΛO, opLayer]) _ none
      simp only [labelsOf, List.mem_flatMap]
      exact ⟨_, nodeLeaves_sub _ _ none x hx _ (List.mem_singleton.2 rfl), by simp [ΛO, opLayer, gOpT, T.fresh]⟩
    · apply hBfree _ (fun a b => by simp [ΛB, braLayerK])
      refine hBmem (Leg.gBraPhys x.1) ?_ (fun h => hna (Option.some.inj h)) (fun h => hnb' (Option.some.inj h))
      simp only [labelsOf, List.mem_flatMap]
      exact ⟨_, nodeLeaves_sub _ _ none x hx _ (List.mem_singleton.2 rfl), by simp [ΛB, braLayerK, gBraT, T.fresh]⟩
  refine ⟨hK, hO, hB, hsplit, hKl, hBl, hKb, hOb, hBb', hfree, ?_⟩
  -- the program
  intro m hval e hbe hleaves
  obtain ⟨hswf, hbinds, hfr⟩ := whole_built_facts hndW hlocW hbe hleaves
  refine ⟨hswf, hbinds, hfr, ?_⟩
  intro dim hdim σ
  have hsym : ∀ (P : List (Leg × Leg)), (∀ p ∈ P, dim p.1 = dim p.2) → ∀ q, (q ∈ P ∨ q.swap ∈ P) → dim q.1 = dim q.2 := by
    intro P hP q hq
    rcases hq with h | h
    · exact hP q h
    · exact (hP q.swap h).symm
  refine hval dim e (pairEnvExpr (ketLayer kv) up a b ls rs ks) (opExpr ov opKids ((Ctx.frame a ls rs up).plug (Tree.node b ks)))
    (pairEnvExpr ΛB up a b ls rs ks)
    hswf hK.wf hO.wf hB.wf
    (fun l hl hl' => hdisK l hl l (List.mem_append.2 (Or.inl hl')) rfl)
    (fun l hl hl' => hdisK l hl l (List.mem_append.2 (Or.inr hl')) rfl)
    (fun l hl hl' => hndOB.2.2 l hl l hl' rfl)
    hbinds hKb (unordL_perm hOb) hBb' hfree ?_ ?_ σ
  · intro q hq
    simp only [projSpec, List.mem_append] at hq hdim
    rcases hq with h | ((h | h | h) | h)
    · exact hdim q (Or.inl h)
    · exact hdim q (Or.inr (Or.inl (Or.inl h)))
    · refine hsym _ (fun q hq => hdim q (Or.inr (Or.inl (Or.inr (Or.inl hq))))) q ?_
      have := seqExpr_binds_sub (pairEnvRecord (ketLayer kv) up ls rs ks) (pairEnvLeaves (ketLayer kv) up a b ls rs ks) q h
      rwa [pairEnvRecord_ket] at this
    · exact hdim q (Or.inr (Or.inl (Or.inr (Or.inr (hOb.mem_iff.1 h)))))
    · refine hsym _ (fun q hq => hdim q (Or.inr (Or.inr hq))) q ?_
      have := seqExpr_binds_sub (pairEnvRecord ΛB up ls rs ks) (pairEnvLeaves ΛB up a b ls rs ks) q h
      rwa [pairEnvRecord_bra] at this
  · intro τ
    rw [Expr.leafProd_of_leaves e _ (hleaves.trans hsplit.symm) τ, List.map_append, List.map_append, prodL_append,
      prodL_append, mul_assoc]
    simp only [pairEnvExpr, seqExpr_leafProd]
    rfl

/-- **two-site `H_eff = E† H E` with the canonical `E`, `H`, `B`, target = the upper node.**  The tree is
`(Ctx.frame a ls rs up).plug (node b ks)` (every edge of every tree: `Ctx.exists_ctx_edge`), distinct identifiers,
operator child orders `opKids` arbitrary permutations, the state's contracted node `twoSite` with ANY arrangement of
the other neighbours, `kv`, `ov`, `bv` ARBITRARY local node tensor values, cache as the sweep leaves it.  Then
* `pairEnvKet`, `opAll`, `pairEnvBra` are strongly well-formed; their leaves are (besides the unit scalars the two
  environments start from) exactly `pairLeaves`, the tensors the program reads; their records are — as multisets of
  unordered pairs — the ket bonds touching neither `a` nor `b`, ALL operator bonds, the bra bonds touching neither;
  the physical legs of all other nodes are free in them;
* `_get_effective_two_site_hamiltonian(target = a, next = b)` returns the matrix `m` of `two_site_heff_graph`, built
  from `pairLeaves`, and EVERY expression `e` it is built from evaluates, for every commutative semiring and all
  dimensions that agree on both legs of every pair of the projected record, to
  `H_eff[r; c] = Σ_{phys'} (Σ_{phys} pairEnvKet[phys; c] · opAll[phys', out; phys, in]) · pairEnvBra[phys'; r]`.
No split is quantified: `E`, `H`, `B` are the three canonical programs. -/
theorem two_site_heff_eq_projected (up : Ctx) (a b : Nat) (ls rs ks : List Tree)
    (hnd : ((Ctx.frame a ls rs up).plug (Tree.node b ks)).ids.Nodup) (opKids : Nat → List Nat)
    (hperm : ∀ e ∈ Tree.info none ((Ctx.frame a ls rs up).plug (Tree.node b ks)), (opKids e.1).Perm e.2.2)
    (kv ov bv : Nat → Asg Leg → R) (hkv : KetLocal kv ((Ctx.frame a ls rs up).plug (Tree.node b ks)))
    (hov : OpLocalK ov opKids ((Ctx.frame a ls rs up).plug (Tree.node b ks)))
    (hbv : BraLocalK bv ((Ctx.frame a ls rs up).plug (Tree.node b ks)))
    (twoSite : Node) (hS : twoSite.nbrs.Perm (up.parent.toList ++ ((ls ++ rs) ++ ks).map Tree.id)) (cache : Dict)
    (hcU : ∀ q, up.parent = some q → cache (q, a) = some (gBlock q a up.blockBinds))
    (hcS : ∀ n ∈ (ls ++ rs).map Tree.id, cache (n, a) = soKidBlock (ls ++ rs) a (n, a))
    (hcK : ∀ n ∈ ks.map Tree.id, cache (n, b) = soKidBlock ks b (n, b)) :
    (pairEnvKet kv up a b ls rs ks).SWF ∧ (opAll ov opKids ((Ctx.frame a ls rs up).plug (Tree.node b ks))).SWF ∧ (pairEnvBra bv up a b ls rs ks).SWF ∧
    (pairEnvLeaves (ketLayer kv) up a b ls rs ks ++ ((opAll ov opKids ((Ctx.frame a ls rs up).plug (Tree.node b ks))).leaves ++
      pairEnvLeaves (braLayerK bv) up a b ls rs ks)).Perm (pairLeaves opKids kv ov bv up a b ls rs ks) ∧
    (pairEnvKet kv up a b ls rs ks).leaves = ([], fun _ => 1) :: pairEnvLeaves (ketLayer kv) up a b ls rs ks ∧
    (pairEnvBra bv up a b ls rs ks).leaves = ([], fun _ => 1) :: pairEnvLeaves (braLayerK bv) up a b ls rs ks ∧
    (unordL (pairEnvKet kv up a b ls rs ks).binds).Perm (unordL ((up.compEdges ++ ((ls ++ rs) ++ ks).flatMap Tree.edges).map fun e => ketEdge e.1 e.2)) ∧
    (opAll ov opKids ((Ctx.frame a ls rs up).plug (Tree.node b ks))).binds.Perm (((Ctx.frame a ls rs up).plug (Tree.node b ks)).edges.map fun e => opEdge e.1 e.2) ∧
    (unordL (pairEnvBra bv up a b ls rs ks).binds).Perm (unordL ((up.compEdges ++ ((ls ++ rs) ++ ks).flatMap Tree.edges).map fun e => braEdge e.1 e.2)) ∧
    (∀ n ∈ (up.ids ++ Tree.idsL ((ls ++ rs) ++ ks)), Leg.gKetPhys n ∈ (pairEnvKet kv up a b ls rs ks).free ∧
      Leg.gOpIn n ∈ (opAll ov opKids ((Ctx.frame a ls rs up).plug (Tree.node b ks))).free ∧
      Leg.gOpOut n ∈ (opAll ov opKids ((Ctx.frame a ls rs up).plug (Tree.node b ks))).free ∧ Leg.gBraPhys n ∈ (pairEnvBra bv up a b ls rs ks).free) ∧
    ∃ m : Mat, getEffectiveTwoSiteHamiltonian ⟨up.parent, opKids a⟩ ⟨some a, opKids b⟩ twoSite
        (gOpT a ⟨up.parent, opKids a⟩) (gOpT b ⟨some a, opKids b⟩) a b cache = some m ∧
      m.rows = twoSite.nbrs.map (fun n => if n ∈ (Node.mk up.parent (opKids a)).nbrs then Leg.gBra n a
                  else Leg.gBra n b) ++ [Leg.gOpOut a, Leg.gOpOut b] ∧
      m.cols = twoSite.nbrs.map (fun n => if n ∈ (Node.mk up.parent (opKids a)).nbrs then Leg.gKet n a
                  else Leg.gKet n b) ++ [Leg.gOpIn a, Leg.gOpIn b] ∧
      BuiltL m.toT (pairLeaves opKids kv ov bv up a b ls rs ks) ∧
      ∀ e : Expr Leg R, Built m.toT e → e.leaves.Perm (pairLeaves opKids kv ov bv up a b ls rs ks) →
        e.SWF ∧ e.binds.Perm m.binds ∧ e.free.Perm (m.rows ++ m.cols) ∧
        ∀ (dim : Leg → Nat),
          (∀ q ∈ projSpec ((up.ids ++ Tree.idsL ((ls ++ rs) ++ ks)).map physOut) ((up.ids ++ Tree.idsL ((ls ++ rs) ++ ks)).map physIn)
            ((up.compEdges ++ ((ls ++ rs) ++ ks).flatMap Tree.edges).map fun e => ketEdge e.1 e.2)
            (((Ctx.frame a ls rs up).plug (Tree.node b ks)).edges.map fun e => opEdge e.1 e.2)
            ((up.compEdges ++ ((ls ++ rs) ++ ks).flatMap Tree.edges).map fun e => braEdge e.1 e.2), dim q.1 = dim q.2) →
          ∀ σ, e.eval dim σ =
            sumPairs dim ((up.ids ++ Tree.idsL ((ls ++ rs) ++ ks)).map physOut)
              (fun τ => sumPairs dim ((up.ids ++ Tree.idsL ((ls ++ rs) ++ ks)).map physIn)
                (fun ρ => (pairEnvKet kv up a b ls rs ks).eval dim ρ * (opAll ov opKids ((Ctx.frame a ls rs up).plug (Tree.node b ks))).eval dim ρ) τ *
                (pairEnvBra bv up a b ls rs ks).eval dim τ) σ := by
  obtain ⟨f1, f2, f3, f4, f5, f6, f7, f8, f9, f10, hcore⟩ :=
    pair_canonical_core up a b ls rs ks hnd opKids hperm kv ov bv hkv hov hbv
  refine ⟨f1, f2, f3, f4, f5, f6, f7, f8, f9, f10, ?_⟩
  have hpermA : (opKids a).Perm (ls.map Tree.id ++ b :: rs.map Tree.id) :=
    hperm (a, up.parent, ls.map Tree.id ++ b :: rs.map Tree.id)
      (Ctx.mem_info_plug _ (Tree.node b ks) _ (Or.inl (by simp [Ctx.info, Tree.id])))
  have hpermB : (opKids b).Perm (ks.map Tree.id) :=
    hperm (b, some a, ks.map Tree.id)
      (Ctx.mem_info_plug _ (Tree.node b ks) _ (Or.inr (by simp [Tree.info, Ctx.parent])))
  obtain ⟨m, hm, hr, hc, hbuilt, _, _⟩ := two_site_heff_whole_program up a b ls rs ks hnd opKids hperm kv ov bv hkv hov hbv
    twoSite hS cache hcU hcS hcK
  obtain ⟨m', hm', _, _, hval⟩ := two_site_heff_projected_tree (R := R) up a b ls rs ks hnd (opKids a) (opKids b)
    hpermA hpermB twoSite hS cache hcU hcS hcK
  have hmm : m' = m := Option.some.inj (hm'.symm.trans hm)
  subst hmm
  exact ⟨m', hm, hr, hc, hbuilt, hcore m' hval⟩

/-- **The same with target = the LOWER node `b`, next = the upper node `a`** (the other sweep direction; rows / columns
end with `out_b, out_a` / `in_b, in_a`): same canonical `pairEnvKet`, `opAll`, `pairEnvBra`, same value. -/
theorem two_site_heff_eq_projected_up (up : Ctx) (a b : Nat) (ls rs ks : List Tree)
    (hnd : ((Ctx.frame a ls rs up).plug (Tree.node b ks)).ids.Nodup) (opKids : Nat → List Nat)
    (hperm : ∀ e ∈ Tree.info none ((Ctx.frame a ls rs up).plug (Tree.node b ks)), (opKids e.1).Perm e.2.2)
    (kv ov bv : Nat → Asg Leg → R) (hkv : KetLocal kv ((Ctx.frame a ls rs up).plug (Tree.node b ks)))
    (hov : OpLocalK ov opKids ((Ctx.frame a ls rs up).plug (Tree.node b ks)))
    (hbv : BraLocalK bv ((Ctx.frame a ls rs up).plug (Tree.node b ks)))
    (twoSite : Node) (hS : twoSite.nbrs.Perm (up.parent.toList ++ ((ls ++ rs) ++ ks).map Tree.id)) (cache : Dict)
    (hcU : ∀ q, up.parent = some q → cache (q, a) = some (gBlock q a up.blockBinds))
    (hcS : ∀ n ∈ (ls ++ rs).map Tree.id, cache (n, a) = soKidBlock (ls ++ rs) a (n, a))
    (hcK : ∀ n ∈ ks.map Tree.id, cache (n, b) = soKidBlock ks b (n, b)) :
    (pairEnvKet kv up a b ls rs ks).SWF ∧ (opAll ov opKids ((Ctx.frame a ls rs up).plug (Tree.node b ks))).SWF ∧ (pairEnvBra bv up a b ls rs ks).SWF ∧
    (pairEnvLeaves (ketLayer kv) up a b ls rs ks ++ ((opAll ov opKids ((Ctx.frame a ls rs up).plug (Tree.node b ks))).leaves ++
      pairEnvLeaves (braLayerK bv) up a b ls rs ks)).Perm (pairLeaves opKids kv ov bv up a b ls rs ks) ∧
    (pairEnvKet kv up a b ls rs ks).leaves = ([], fun _ => 1) :: pairEnvLeaves (ketLayer kv) up a b ls rs ks ∧
    (pairEnvBra bv up a b ls rs ks).leaves = ([], fun _ => 1) :: pairEnvLeaves (braLayerK bv) up a b ls rs ks ∧
    (unordL (pairEnvKet kv up a b ls rs ks).binds).Perm (unordL ((up.compEdges ++ ((ls ++ rs) ++ ks).flatMap Tree.edges).map fun e => ketEdge e.1 e.2)) ∧
    (opAll ov opKids ((Ctx.frame a ls rs up).plug (Tree.node b ks))).binds.Perm (((Ctx.frame a ls rs up).plug (Tree.node b ks)).edges.map fun e => opEdge e.1 e.2) ∧
    (unordL (pairEnvBra bv up a b ls rs ks).binds).Perm (unordL ((up.compEdges ++ ((ls ++ rs) ++ ks).flatMap Tree.edges).map fun e => braEdge e.1 e.2)) ∧
    (∀ n ∈ (up.ids ++ Tree.idsL ((ls ++ rs) ++ ks)), Leg.gKetPhys n ∈ (pairEnvKet kv up a b ls rs ks).free ∧
      Leg.gOpIn n ∈ (opAll ov opKids ((Ctx.frame a ls rs up).plug (Tree.node b ks))).free ∧
      Leg.gOpOut n ∈ (opAll ov opKids ((Ctx.frame a ls rs up).plug (Tree.node b ks))).free ∧ Leg.gBraPhys n ∈ (pairEnvBra bv up a b ls rs ks).free) ∧
    ∃ m : Mat, getEffectiveTwoSiteHamiltonian ⟨some a, opKids b⟩ ⟨up.parent, opKids a⟩ twoSite
        (gOpT b ⟨some a, opKids b⟩) (gOpT a ⟨up.parent, opKids a⟩) b a cache = some m ∧
      m.rows = twoSite.nbrs.map (fun n => if n ∈ (Node.mk (some a) (opKids b)).nbrs then Leg.gBra n b
                  else Leg.gBra n a) ++ [Leg.gOpOut b, Leg.gOpOut a] ∧
      m.cols = twoSite.nbrs.map (fun n => if n ∈ (Node.mk (some a) (opKids b)).nbrs then Leg.gKet n b
                  else Leg.gKet n a) ++ [Leg.gOpIn b, Leg.gOpIn a] ∧
      BuiltL m.toT (pairLeaves opKids kv ov bv up a b ls rs ks) ∧
      ∀ e : Expr Leg R, Built m.toT e → e.leaves.Perm (pairLeaves opKids kv ov bv up a b ls rs ks) →
        e.SWF ∧ e.binds.Perm m.binds ∧ e.free.Perm (m.rows ++ m.cols) ∧
        ∀ (dim : Leg → Nat),
          (∀ q ∈ projSpec ((up.ids ++ Tree.idsL ((ls ++ rs) ++ ks)).map physOut) ((up.ids ++ Tree.idsL ((ls ++ rs) ++ ks)).map physIn)
            ((up.compEdges ++ ((ls ++ rs) ++ ks).flatMap Tree.edges).map fun e => ketEdge e.1 e.2)
            (((Ctx.frame a ls rs up).plug (Tree.node b ks)).edges.map fun e => opEdge e.1 e.2)
            ((up.compEdges ++ ((ls ++ rs) ++ ks).flatMap Tree.edges).map fun e => braEdge e.1 e.2), dim q.1 = dim q.2) →
          ∀ σ, e.eval dim σ =
            sumPairs dim ((up.ids ++ Tree.idsL ((ls ++ rs) ++ ks)).map physOut)
              (fun τ => sumPairs dim ((up.ids ++ Tree.idsL ((ls ++ rs) ++ ks)).map physIn)
                (fun ρ => (pairEnvKet kv up a b ls rs ks).eval dim ρ * (opAll ov opKids ((Ctx.frame a ls rs up).plug (Tree.node b ks))).eval dim ρ) τ *
                (pairEnvBra bv up a b ls rs ks).eval dim τ) σ := by
  obtain ⟨f1, f2, f3, f4, f5, f6, f7, f8, f9, f10, hcore⟩ :=
    pair_canonical_core up a b ls rs ks hnd opKids hperm kv ov bv hkv hov hbv
  refine ⟨f1, f2, f3, f4, f5, f6, f7, f8, f9, f10, ?_⟩
  have hpermA : (opKids a).Perm (ls.map Tree.id ++ b :: rs.map Tree.id) :=
    hperm (a, up.parent, ls.map Tree.id ++ b :: rs.map Tree.id)
      (Ctx.mem_info_plug _ (Tree.node b ks) _ (Or.inl (by simp [Ctx.info, Tree.id])))
  have hpermB : (opKids b).Perm (ks.map Tree.id) :=
    hperm (b, some a, ks.map Tree.id)
      (Ctx.mem_info_plug _ (Tree.node b ks) _ (Or.inr (by simp [Tree.info, Ctx.parent])))
  obtain ⟨m, hm, hr, hc, hbuilt, _, _⟩ := two_site_heff_whole_program_up up a b ls rs ks hnd opKids hperm kv ov bv hkv hov
    hbv twoSite hS cache hcU hcS hcK
  obtain ⟨m', hm', _, _, hval⟩ := two_site_heff_projected_tree_up (R := R) up a b ls rs ks hnd (opKids a) (opKids b)
    hpermA hpermB twoSite hS cache hcU hcS hcK
  have hmm : m' = m := Option.some.inj (hm'.symm.trans hm)
  subst hmm
  exact ⟨m', hm, hr, hc, hbuilt, hcore m' hval⟩

end Ptn.C05.Heff
