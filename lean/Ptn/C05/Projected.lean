import Ptn.C05.Value
/-! `H_eff = E† H E` at the record level (C05, value level, Goal 2).

The cached block of the subtree (component) behind neighbour `n` is the contraction of the sandwich network of that
component: its record `bb n` is — as a multiset of unordered pairs — the physical pairs `pout n` (operator output,
bra), `pin n` (ket, operator input) and the ket / operator / bra bonds `kb n`, `ob n`, `brb n` inside the component.
Then the record of the effective Hamiltonian of node `i` united with the records of the blocks is the record of
"bra network without the site · TTNO · ket network without the site", and the value is the projected Hamiltonian. -/
namespace Ptn.C05.Heff
open Ptn.C04 Ptn.Ein

set_option linter.unusedSectionVars false
variable {R : Type} [CommSemiring R]

/-- the record of the sandwich network of one component -/
def compRecord (pout pin kb ob brb : Nat → List (Leg × Leg)) (n : Nat) : List (Leg × Leg) :=
  pout n ++ (pin n ++ (kb n ++ (ob n ++ brb n)))

/-- the record of `Σ_out (Σ_in E · H) · B` (the shape `Expr.sandwich_of_record` expects) -/
def projSpec (ppOut ppIn eb hb bbr : List (Leg × Leg)) : List (Leg × Leg) :=
  ppOut ++ ((ppIn ++ (eb ++ hb)) ++ bbr)

/-- **record identity**: the record of `H_eff` (with the blocks' own records replaced by the sandwich records of
their components) is, as a multiset of unordered pairs, the record of the projected Hamiltonian -/
theorem heff_record_is_projected (i : Nat) (ns : List Nat) (pout pin kb ob brb : Nat → List (Leg × Leg))
    (eb hb bbr : List (Leg × Leg)) (hE : (unordL eb).Perm (unordL (ns.flatMap kb)))
    (hH : (unordL hb).Perm (unordL (opPairs i ns ++ ns.flatMap ob)))
    (hB : (unordL bbr).Perm (unordL (ns.flatMap brb))) :
    (unordL (ns.flatMap fun n => compRecord pout pin kb ob brb n ++ [(Leg.gOp i n, Leg.gOp n i)])).Perm
      (unordL (projSpec (ns.flatMap pout) (ns.flatMap pin) eb hb bbr)) := by
  have h0 : (ns.flatMap fun n => compRecord pout pin kb ob brb n ++ [(Leg.gOp i n, Leg.gOp n i)]).Perm
      (projSpec (ns.flatMap pout) (ns.flatMap pin) (ns.flatMap kb) (opPairs i ns ++ ns.flatMap ob)
        (ns.flatMap brb)) := by
    refine (flatMap5_perm ns pout pin kb ob brb (fun n => (Leg.gOp i n, Leg.gOp n i))).trans ?_
    rw [List.perm_iff_count]
    intro x
    simp only [projSpec, opPairs, List.count_append]
    omega
  refine (unordL_perm h0).trans ?_
  unfold projSpec
  exact unordL_append_congr (List.Perm.refl _)
    (unordL_append_congr (unordL_append_congr (List.Perm.refl _) (unordL_append_congr hE.symm hH.symm)) hB.symm)

/-- **The single-site effective Hamiltonian is the projected Hamiltonian `E† H E` (record level).**
Under the hypotheses of `site_heff_graph`, let the record `bb n` of every cached block be — as a multiset of
unordered pairs — the sandwich record of the component behind `n`: physical pairs `pout n` / `pin n` and ket /
operator / bra bonds `kb n` / `ob n` / `brb n`.  All records are compared as multisets of UNORDERED pairs (the code
binds some bonds child-leg-first, some parent-leg-first).  Let `E` be ANY well-formed contraction of all ket tensors other
than the site's (record: all ket bonds of all components — the ket network without the site is the disjoint union
of the components), `H` ANY well-formed contraction of the WHOLE operator network (record: the operator bonds at
the site and inside all components), `B` ANY well-formed contraction of all other bra tensors.  Then every strongly
well-formed program `e` over all these tensors whose record is the record of `H_eff` (blocks expanded) evaluates,
for all dimensions that give both legs of every bound pair the same dimension, to
`H_eff[r; c] = Σ_{phys'} (Σ_{phys} E[phys; c] · H[phys', out; phys, in]) · B[phys'; r]`
— the open legs `c` (the ket legs toward the site, the site's input leg) and `r` (bra legs, output leg) are the
columns and rows proved by `site_heff_graph`. -/
theorem site_heff_is_projected_hamiltonian (i : Nat) (stateNode hamNode : Node) (bb : Nat → List (Leg × Leg))
    (cache : Cache) (hK : stateNode.nbrs.Nodup) (hperm : hamNode.nbrs.Perm stateNode.nbrs)
    (hcache : ∀ n ∈ hamNode.nbrs, cache n = some (gBlock n i (bb n)))
    (pout pin kb ob brb : Nat → List (Leg × Leg))
    (hbb : ∀ n ∈ hamNode.nbrs, (unordL (bb n)).Perm (unordL (compRecord pout pin kb ob brb n))) :
    ∃ m : Mat, getEffectiveSingleSiteHamiltonianNodes stateNode hamNode (gOpT i hamNode) cache = some m ∧
      m.rows = stateNode.nbrs.map (fun n => Leg.gBra n i) ++ [Leg.gOpOut i] ∧
      m.cols = stateNode.nbrs.map (fun n => Leg.gKet n i) ++ [Leg.gOpIn i] ∧
      ∀ (dim : Leg → Nat) (e E H B : Expr Leg R), e.SWF → E.WF → H.WF → B.WF →
        (∀ l ∈ E.labels, l ∉ H.labels) → (∀ l ∈ E.labels, l ∉ B.labels) → (∀ l ∈ H.labels, l ∉ B.labels) →
        e.binds.Perm m.binds →
        (unordL E.binds).Perm (unordL (hamNode.nbrs.flatMap kb)) →
        (unordL H.binds).Perm (unordL (opPairs i hamNode.nbrs ++ hamNode.nbrs.flatMap ob)) →
        (unordL B.binds).Perm (unordL (hamNode.nbrs.flatMap brb)) →
        (∀ p ∈ hamNode.nbrs.flatMap pin, p.1 ∈ E.free ∧ p.2 ∈ H.free) →
        (∀ p ∈ hamNode.nbrs.flatMap pout,
          (p.1 ∈ H.free ∧ p.1 ∉ (hamNode.nbrs.flatMap pin).map Prod.snd) ∧ p.2 ∈ B.free) →
        (∀ p ∈ projSpec (hamNode.nbrs.flatMap pout) (hamNode.nbrs.flatMap pin) E.binds H.binds B.binds,
          dim p.1 = dim p.2) →
        (∀ σ, e.leafProd σ = E.leafProd σ * H.leafProd σ * B.leafProd σ) →
        ∀ σ, e.eval dim σ =
          sumPairs dim (hamNode.nbrs.flatMap pout)
            (fun τ => sumPairs dim (hamNode.nbrs.flatMap pin) (fun ρ => E.eval dim ρ * H.eval dim ρ) τ *
              B.eval dim τ) σ := by
  refine ⟨_, site_heff_graph i stateNode hamNode bb cache hK hperm hcache, rfl, rfl, ?_⟩
  intro dim e E H B he hE hH hB hEH hEB hHB heb hEb hHb hBb hin hout hdim hleaf σ
  have hrec : (unordL e.binds).Perm
      (unordL (projSpec (hamNode.nbrs.flatMap pout) (hamNode.nbrs.flatMap pin) E.binds H.binds B.binds)) := by
    refine (unordL_perm heb).trans ?_
    refine (unordL_flatMap_perm hamNode.nbrs _
      (fun n => compRecord pout pin kb ob brb n ++ [(Leg.gOp i n, Leg.gOp n i)]) ?_).trans ?_
    · intro n hn
      exact unordL_append_congr (hbb n hn) (List.Perm.refl _)
    · exact heff_record_is_projected i hamNode.nbrs pout pin kb ob brb _ _ _ hEb hHb hBb
  exact Expr.sandwich_of_record dim e E H B he hE hH hB hEH hEB hHB _ _ _ hin hout (List.Perm.refl _) hrec hdim
    hleaf σ

end Ptn.C05.Heff
