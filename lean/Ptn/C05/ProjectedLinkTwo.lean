import Ptn.C05.Projected
/-! `H_eff = E† H E` at the record level for the LINK and the TWO-SITE effective Hamiltonians (C05, value level):
the analogues of `site_heff_is_projected_hamiltonian`.  Each cached block carries — as a multiset of unordered
pairs — the sandwich record of the component of the tree behind it (`compRecord`); then the record of the effective
Hamiltonian, with the blocks expanded, is the record of "bra network without the updated tensor · TTNO · ket network
without the updated tensor", and every program with that record evaluates to the projected Hamiltonian. -/
namespace Ptn.C05.Heff
open Ptn.C04 Ptn.Ein

set_option linter.unusedSectionVars false
variable {R : Type} [CommSemiring R]

/-- the record of the single-site effective Hamiltonian with sandwich blocks, regrouped (plain permutation) -/
theorem site_record_perm (i : Nat) (ns : List Nat) (pout pin kb ob brb : Nat → List (Leg × Leg)) :
    (ns.flatMap fun n => compRecord pout pin kb ob brb n ++ [(Leg.gOp i n, Leg.gOp n i)]).Perm
      (projSpec (ns.flatMap pout) (ns.flatMap pin) (ns.flatMap kb) (opPairs i ns ++ ns.flatMap ob)
        (ns.flatMap brb)) := by
  refine (flatMap5_perm ns pout pin kb ob brb (fun n => (Leg.gOp i n, Leg.gOp n i))).trans ?_
  rw [List.perm_iff_count]
  intro x
  simp only [projSpec, opPairs, List.count_append]
  omega

/-! ### link -/

/-- **record identity, link**: the two sandwich records and the operator bond `p — c` are the record of the
projected Hamiltonian of the link -/
theorem link_record_is_projected (p c : Nat) (pout pin kb ob brb : Nat → List (Leg × Leg))
    (eb hb bbr : List (Leg × Leg)) (hE : (unordL eb).Perm (unordL (kb p ++ kb c)))
    (hH : (unordL hb).Perm (unordL ([(Leg.gOp p c, Leg.gOp c p)] ++ (ob p ++ ob c))))
    (hB : (unordL bbr).Perm (unordL (brb p ++ brb c))) :
    (unordL (compRecord pout pin kb ob brb p ++ compRecord pout pin kb ob brb c ++
        [(Leg.gOp p c, Leg.gOp c p)])).Perm
      (unordL (projSpec (pout p ++ pout c) (pin p ++ pin c) eb hb bbr)) := by
  have h0 : (compRecord pout pin kb ob brb p ++ compRecord pout pin kb ob brb c ++
      [(Leg.gOp p c, Leg.gOp c p)]).Perm
      (projSpec (pout p ++ pout c) (pin p ++ pin c) (kb p ++ kb c)
        ([(Leg.gOp p c, Leg.gOp c p)] ++ (ob p ++ ob c)) (brb p ++ brb c)) := by
    rw [List.perm_iff_count]
    intro x
    simp only [projSpec, compRecord, List.count_append]
    omega
  refine (unordL_perm h0).trans ?_
  unfold projSpec
  exact unordL_append_congr (List.Perm.refl _)
    (unordL_append_congr (unordL_append_congr (List.Perm.refl _) (unordL_append_congr hE.symm hH.symm)) hB.symm)

/-- **The link effective Hamiltonian is the projected Hamiltonian `E† H E` (record level).**  The link tensor sits
on the bond `p — c`.  Let the record `bp` of the block of the component behind `p` (seen from `c`) and the record
`bc` of the block behind `c` be — as multisets of unordered pairs — the sandwich records of these two components
(physical pairs `pout` / `pin`, ket / operator / bra bonds `kb` / `ob` / `brb`).  Let `E` be ANY well-formed
contraction of the ket tensors of ALL nodes over the ket bonds inside the two components (the ket bond `p — c`, where
the link tensor sits, is cut: its two legs are the columns), `H` ANY well-formed contraction of the WHOLE operator
network (bonds of both components and the bond `p — c`), `B` ANY well-formed contraction of all bra tensors.  Then in
both sweep orientations the model returns the same matrix and every strongly well-formed program with its record
(blocks expanded) evaluates, for dimensions equal on both legs of every bound pair, to
`H_link[r; c] = Σ_{phys'} (Σ_{phys} E[phys; c] · H[phys'; phys]) · B[phys'; r]`. -/
theorem link_heff_is_projected_hamiltonian (p c : Nat) (hne : p ≠ c) (cache : Dict) (bp bc : List (Leg × Leg))
    (hp : cache (p, c) = some (gBlock p c bp)) (hc : cache (c, p) = some (gBlock c p bc))
    (pout pin kb ob brb : Nat → List (Leg × Leg))
    (hbp : (unordL bp).Perm (unordL (compRecord pout pin kb ob brb p)))
    (hbc : (unordL bc).Perm (unordL (compRecord pout pin kb ob brb c))) :
    ∃ m : Mat, getEffectiveLinkHamiltonian ⟨some p, [c]⟩ c p cache = some m ∧
      getEffectiveLinkHamiltonian ⟨some p, [c]⟩ p c cache = some m ∧
      m.rows = [Leg.gBra p c, Leg.gBra c p] ∧ m.cols = [Leg.gKet p c, Leg.gKet c p] ∧
      ∀ (dim : Leg → Nat) (e E H B : Expr Leg R), e.SWF → E.WF → H.WF → B.WF →
        (∀ l ∈ E.labels, l ∉ H.labels) → (∀ l ∈ E.labels, l ∉ B.labels) → (∀ l ∈ H.labels, l ∉ B.labels) →
        e.binds.Perm m.binds →
        (unordL E.binds).Perm (unordL (kb p ++ kb c)) →
        (unordL H.binds).Perm (unordL ([(Leg.gOp p c, Leg.gOp c p)] ++ (ob p ++ ob c))) →
        (unordL B.binds).Perm (unordL (brb p ++ brb c)) →
        (∀ q ∈ pin p ++ pin c, q.1 ∈ E.free ∧ q.2 ∈ H.free) →
        (∀ q ∈ pout p ++ pout c, (q.1 ∈ H.free ∧ q.1 ∉ (pin p ++ pin c).map Prod.snd) ∧ q.2 ∈ B.free) →
        (∀ q ∈ projSpec (pout p ++ pout c) (pin p ++ pin c) E.binds H.binds B.binds, dim q.1 = dim q.2) →
        (∀ σ, e.leafProd σ = E.leafProd σ * H.leafProd σ * B.leafProd σ) →
        ∀ σ, e.eval dim σ =
          sumPairs dim (pout p ++ pout c)
            (fun τ => sumPairs dim (pin p ++ pin c) (fun ρ => E.eval dim ρ * H.eval dim ρ) τ * B.eval dim τ) σ := by
  obtain ⟨h1, h2⟩ := link_heff_graph p c hne cache bp bc hp hc
  refine ⟨_, h1, h2, rfl, rfl, ?_⟩
  intro dim e E H B he hE hH hB hEH hEB hHB heb hEb hHb hBb hin hout hdim hleaf σ
  have hrec : (unordL e.binds).Perm
      (unordL (projSpec (pout p ++ pout c) (pin p ++ pin c) E.binds H.binds B.binds)) := by
    refine (unordL_perm heb).trans ?_
    refine (unordL_append_congr (unordL_append_congr hbp hbc) (List.Perm.refl _)).trans ?_
    exact link_record_is_projected p c pout pin kb ob brb _ _ _ hEb hHb hBb
  exact Expr.sandwich_of_record dim e E H B he hE hH hB hEH hEB hHB _ _ _ hin hout (List.Perm.refl _) hrec hdim
    hleaf σ

/-! ### two sites -/

/-- the operator bonds at the two sites: toward the blocks and along `t — x` -/
def twoOpPairs (t x : Nat) (nsT nsX : List Nat) : List (Leg × Leg) :=
  (opPairs t nsT ++ opPairs x nsX) ++ [(Leg.gOp t x, Leg.gOp x t)]

/-- **record identity, two sites** -/
theorem two_site_record_is_projected (t x : Nat) (nsT nsX : List Nat) (pout pin kb ob brb : Nat → List (Leg × Leg))
    (eb hb bbr : List (Leg × Leg)) (hE : (unordL eb).Perm (unordL (nsT.flatMap kb ++ nsX.flatMap kb)))
    (hH : (unordL hb).Perm (unordL (twoOpPairs t x nsT nsX ++ (nsT.flatMap ob ++ nsX.flatMap ob))))
    (hB : (unordL bbr).Perm (unordL (nsT.flatMap brb ++ nsX.flatMap brb))) :
    (unordL (((nsT.flatMap fun n => compRecord pout pin kb ob brb n ++ [(Leg.gOp t n, Leg.gOp n t)]) ++
        (nsX.flatMap fun n => compRecord pout pin kb ob brb n ++ [(Leg.gOp x n, Leg.gOp n x)])) ++
        [(Leg.gOp t x, Leg.gOp x t)])).Perm
      (unordL (projSpec (nsT.flatMap pout ++ nsX.flatMap pout) (nsT.flatMap pin ++ nsX.flatMap pin) eb hb bbr)) := by
  have h0 : (((nsT.flatMap fun n => compRecord pout pin kb ob brb n ++ [(Leg.gOp t n, Leg.gOp n t)]) ++
        (nsX.flatMap fun n => compRecord pout pin kb ob brb n ++ [(Leg.gOp x n, Leg.gOp n x)])) ++
        [(Leg.gOp t x, Leg.gOp x t)]).Perm
      (projSpec (nsT.flatMap pout ++ nsX.flatMap pout) (nsT.flatMap pin ++ nsX.flatMap pin)
        (nsT.flatMap kb ++ nsX.flatMap kb) (twoOpPairs t x nsT nsX ++ (nsT.flatMap ob ++ nsX.flatMap ob))
        (nsT.flatMap brb ++ nsX.flatMap brb)) := by
    have hT := site_record_perm t nsT pout pin kb ob brb
    have hX := site_record_perm x nsX pout pin kb ob brb
    refine (List.Perm.append_right _ (List.Perm.append hT hX)).trans ?_
    rw [List.perm_iff_count]
    intro y
    simp only [projSpec, twoOpPairs, List.count_append]
    omega
  refine (unordL_perm h0).trans ?_
  unfold projSpec
  exact unordL_append_congr (List.Perm.refl _)
    (unordL_append_congr (unordL_append_congr (List.Perm.refl _) (unordL_append_congr hE.symm hH.symm)) hB.symm)

/-- **The two-site effective Hamiltonian is the projected Hamiltonian `E† H E` (record level).**  Hypotheses of
`two_site_heff_graph`.  Let the record of every cached block around the target `t` (other than the one from `x`) and
around the next node `x` (other than the one from `t`) be — as a multiset of unordered pairs — the sandwich record of
the component behind that neighbour.  Let `E` be ANY well-formed contraction of the ket tensors of all nodes other than
`t`, `x` (record: the ket bonds inside all components), `H` ANY well-formed contraction of the WHOLE operator network
(the operator bonds at `t` and `x`, the bond `t — x`, and the bonds inside all components), `B` ANY well-formed
contraction of all other bra tensors.  Then every strongly well-formed program with the record of the returned matrix
(blocks expanded) evaluates, for dimensions equal on both legs of every bound pair, to
`H_eff[r; c] = Σ_{phys'} (Σ_{phys} E[phys; c] · H[phys', out_t, out_x; phys, in_t, in_x]) · B[phys'; r]`. -/
theorem two_site_heff_is_projected_hamiltonian (t x : Nat) (hamT hamX twoSite : Node)
    (bT bX : Nat → List (Leg × Leg)) (cache : Dict)
    (hT : hamT.nbrs.Nodup) (hX : hamX.nbrs.Nodup) (hxT : x ∈ hamT.nbrs) (htX : t ∈ hamX.nbrs)
    (hdisj : ∀ n ∈ hamX.nbrs, n ∉ hamT.nbrs)
    (hS : twoSite.nbrs.Perm (hamT.nbrs.filter (· ≠ x) ++ hamX.nbrs.filter (· ≠ t)))
    (hcT : ∀ n ∈ hamT.nbrs, n ≠ x → cache (n, t) = some (gBlock n t (bT n)))
    (hcX : ∀ n ∈ hamX.nbrs, n ≠ t → cache (n, x) = some (gBlock n x (bX n)))
    (pout pin kb ob brb : Nat → List (Leg × Leg))
    (hbT : ∀ n ∈ hamT.nbrs.filter (· ≠ x), (unordL (bT n)).Perm (unordL (compRecord pout pin kb ob brb n)))
    (hbX : ∀ n ∈ hamX.nbrs.filter (· ≠ t), (unordL (bX n)).Perm (unordL (compRecord pout pin kb ob brb n))) :
    ∃ m : Mat, getEffectiveTwoSiteHamiltonian hamT hamX twoSite (gOpT t hamT) (gOpT x hamX) t x cache = some m ∧
      m.rows = twoSite.nbrs.map (fun n => if n ∈ hamT.nbrs then Leg.gBra n t else Leg.gBra n x) ++
                [Leg.gOpOut t, Leg.gOpOut x] ∧
      m.cols = twoSite.nbrs.map (fun n => if n ∈ hamT.nbrs then Leg.gKet n t else Leg.gKet n x) ++
                [Leg.gOpIn t, Leg.gOpIn x] ∧
      ∀ (dim : Leg → Nat) (e E H B : Expr Leg R), e.SWF → E.WF → H.WF → B.WF →
        (∀ l ∈ E.labels, l ∉ H.labels) → (∀ l ∈ E.labels, l ∉ B.labels) → (∀ l ∈ H.labels, l ∉ B.labels) →
        e.binds.Perm m.binds →
        (unordL E.binds).Perm (unordL ((hamT.nbrs.filter (· ≠ x)).flatMap kb ++ (hamX.nbrs.filter (· ≠ t)).flatMap kb)) →
        (unordL H.binds).Perm (unordL (twoOpPairs t x (hamT.nbrs.filter (· ≠ x)) (hamX.nbrs.filter (· ≠ t)) ++
          ((hamT.nbrs.filter (· ≠ x)).flatMap ob ++ (hamX.nbrs.filter (· ≠ t)).flatMap ob))) →
        (unordL B.binds).Perm (unordL ((hamT.nbrs.filter (· ≠ x)).flatMap brb ++ (hamX.nbrs.filter (· ≠ t)).flatMap brb)) →
        (∀ q ∈ (hamT.nbrs.filter (· ≠ x)).flatMap pin ++ (hamX.nbrs.filter (· ≠ t)).flatMap pin,
          q.1 ∈ E.free ∧ q.2 ∈ H.free) →
        (∀ q ∈ (hamT.nbrs.filter (· ≠ x)).flatMap pout ++ (hamX.nbrs.filter (· ≠ t)).flatMap pout,
          (q.1 ∈ H.free ∧
            q.1 ∉ ((hamT.nbrs.filter (· ≠ x)).flatMap pin ++ (hamX.nbrs.filter (· ≠ t)).flatMap pin).map Prod.snd) ∧
          q.2 ∈ B.free) →
        (∀ q ∈ projSpec ((hamT.nbrs.filter (· ≠ x)).flatMap pout ++ (hamX.nbrs.filter (· ≠ t)).flatMap pout)
            ((hamT.nbrs.filter (· ≠ x)).flatMap pin ++ (hamX.nbrs.filter (· ≠ t)).flatMap pin)
            E.binds H.binds B.binds, dim q.1 = dim q.2) →
        (∀ σ, e.leafProd σ = E.leafProd σ * H.leafProd σ * B.leafProd σ) →
        ∀ σ, e.eval dim σ =
          sumPairs dim ((hamT.nbrs.filter (· ≠ x)).flatMap pout ++ (hamX.nbrs.filter (· ≠ t)).flatMap pout)
            (fun τ => sumPairs dim ((hamT.nbrs.filter (· ≠ x)).flatMap pin ++ (hamX.nbrs.filter (· ≠ t)).flatMap pin)
              (fun ρ => E.eval dim ρ * H.eval dim ρ) τ * B.eval dim τ) σ := by
  refine ⟨_, two_site_heff_graph t x hamT hamX twoSite bT bX cache hT hX hxT htX hdisj hS hcT hcX, rfl, rfl, ?_⟩
  intro dim e E H B he hE hH hB hEH hEB hHB heb hEb hHb hBb hin hout hdim hleaf σ
  have hrec : (unordL e.binds).Perm
      (unordL (projSpec ((hamT.nbrs.filter (· ≠ x)).flatMap pout ++ (hamX.nbrs.filter (· ≠ t)).flatMap pout)
        ((hamT.nbrs.filter (· ≠ x)).flatMap pin ++ (hamX.nbrs.filter (· ≠ t)).flatMap pin)
        E.binds H.binds B.binds)) := by
    refine (unordL_perm heb).trans ?_
    refine (unordL_append_congr (unordL_append_congr
      (unordL_flatMap_perm _ _ (fun n => compRecord pout pin kb ob brb n ++ [(Leg.gOp t n, Leg.gOp n t)])
        (fun n hn => unordL_append_congr (hbT n hn) (List.Perm.refl _)))
      (unordL_flatMap_perm _ _ (fun n => compRecord pout pin kb ob brb n ++ [(Leg.gOp x n, Leg.gOp n x)])
        (fun n hn => unordL_append_congr (hbX n hn) (List.Perm.refl _)))) (List.Perm.refl _)).trans ?_
    exact two_site_record_is_projected t x _ _ pout pin kb ob brb _ _ _ hEb hHb hBb
  exact Expr.sandwich_of_record dim e E H B he hE hH hB hEH hEB hHB _ _ _ hin hout (List.Perm.refl _) hrec hdim
    hleaf σ

end Ptn.C05.Heff
