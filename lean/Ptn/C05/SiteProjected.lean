import Ptn.C05.EnvExpr
/-! `H_eff = E† H E` for every site of every tree with the CANONICAL `E`, `H`, `B` — no quantified split
(C05, value level, builder B48, Goal 2 of B47).

* `envKet kv c i ks`   the canonical contraction of the ket tensors of all nodes except the site over all ket bonds
                       that do not touch the site (`envExpr` on the ket layer, order along the `Ctx` decomposition);
* `envBra bv c i ks`   the same for the bra tensors;
* `opAll ov opKids t`  the canonical contraction of the whole TTNO (C04 `opExpr`: every node absorbs its subtrees);
* `site_heff_eq_projected`  every program the model's matrix is built from evaluates to
                       `Σ_{phys'} (Σ_{phys} envKet · opAll) · envBra`. -/
namespace Ptn.C05.Heff
open Ptn.C04 Ptn.Ein

set_option linter.unusedSectionVars false
variable {R : Type} [CommSemiring R]

/-- the canonical ket environment of the site `i` (hole of `c`, child subtrees `ks`) -/
def envKet (kv : Nat → Asg Leg → R) (c : Ctx) (i : Nat) (ks : List Tree) : Expr Leg R := envExpr (ketLayer kv) c i ks
/-- the canonical bra environment of the site -/
def envBra (bv : Nat → Asg Leg → R) (c : Ctx) (i : Nat) (ks : List Tree) : Expr Leg R := envExpr (braLayerK bv) c i ks
/-- the canonical contraction of the whole TTNO -/
def opAll (ov : Nat → Asg Leg → R) (opKids : Nat → List Nat) (t : Tree) : Expr Leg R := opExpr ov opKids t

theorem envRecord_ket (kv : Nat → Asg Leg → R) (c : Ctx) (ks : List Tree) :
    envRecord (ketLayer kv) c ks = (c.compEdges ++ ks.flatMap Tree.edges).map fun e => ketEdge e.1 e.2 := by
  simp [envRecord, envEdges, Layer.edge, ketLayer, ketEdge]

theorem envRecord_bra (bv : Nat → Asg Leg → R) (c : Ctx) (ks : List Tree) :
    envRecord (braLayerK bv) c ks = (c.compEdges ++ ks.flatMap Tree.edges).map fun e => braEdge e.1 e.2 := by
  simp [envRecord, envEdges, Layer.edge, braLayerK, braEdge]

/-- **`H_eff = E† H E` with the canonical `E`, `H`, `B`: every site of every tree.**  The tree is
`c.plug (node i ks)` (site `i` in the hole of `c`: every site of every tree, `Ctx.exists_ctx`), distinct identifiers,
operator child orders `opKids` arbitrary permutations, `kv`, `ov`, `bv` ARBITRARY local node tensor values, cache of
the site as the code's recursions leave it (`siteCache`).  Then
* `envKet`, `opAll`, `envBra` are strongly well-formed; their leaves are (besides the unit scalars the two
  environments start from) exactly `wholeLeaves`, the tensors the program reads; their records are — as multisets
  of unordered pairs — the ket bonds not at `i`, ALL operator bonds, the bra bonds not at `i`; the physical legs of
  all nodes other than `i` are free in them;
* the model returns the matrix `m` of `site_heff_graph`, built from `wholeLeaves`, and EVERY expression `e` it is
  built from evaluates, for every commutative semiring and all dimensions that agree on both legs of every pair
  of the projected record, to
  `H_eff[r; c] = Σ_{phys'} (Σ_{phys} envKet[phys; c] · opAll[phys', out; phys, in]) · envBra[phys'; r]`.
No split is quantified: `E`, `H`, `B` are the three canonical programs. -/
theorem site_heff_eq_projected (c : Ctx) (i : Nat) (ks : List Tree)
    (hnd : (c.plug (Tree.node i ks)).ids.Nodup) (opKids : Nat → List Nat)
    (hperm : ∀ e ∈ Tree.info none (c.plug (Tree.node i ks)), (opKids e.1).Perm e.2.2)
    (kv ov bv : Nat → Asg Leg → R) (hkv : KetLocal kv (c.plug (Tree.node i ks)))
    (hov : OpLocalK ov opKids (c.plug (Tree.node i ks))) (hbv : BraLocalK bv (c.plug (Tree.node i ks))) :
    (envKet kv c i ks).SWF ∧ (opAll ov opKids (c.plug (Tree.node i ks))).SWF ∧ (envBra bv c i ks).SWF ∧
    (envLeaves (ketLayer kv) c i ks ++ ((opAll ov opKids (c.plug (Tree.node i ks))).leaves ++
      envLeaves (braLayerK bv) c i ks)).Perm (wholeLeaves opKids kv ov bv c i ks) ∧
    (envKet kv c i ks).leaves = ([], fun _ => 1) :: envLeaves (ketLayer kv) c i ks ∧
    (envBra bv c i ks).leaves = ([], fun _ => 1) :: envLeaves (braLayerK bv) c i ks ∧
    (unordL (envKet kv c i ks).binds).Perm
      (unordL ((c.compEdges ++ ks.flatMap Tree.edges).map fun e => ketEdge e.1 e.2)) ∧
    (opAll ov opKids (c.plug (Tree.node i ks))).binds.Perm
      ((c.plug (Tree.node i ks)).edges.map fun e => opEdge e.1 e.2) ∧
    (unordL (envBra bv c i ks).binds).Perm
      (unordL ((c.compEdges ++ ks.flatMap Tree.edges).map fun e => braEdge e.1 e.2)) ∧
    (∀ n ∈ c.ids ++ Tree.idsL ks, Leg.gKetPhys n ∈ (envKet kv c i ks).free ∧
      Leg.gOpIn n ∈ (opAll ov opKids (c.plug (Tree.node i ks))).free ∧
      Leg.gOpOut n ∈ (opAll ov opKids (c.plug (Tree.node i ks))).free ∧ Leg.gBraPhys n ∈ (envBra bv c i ks).free) ∧
    ∃ m : Mat, getEffectiveSingleSiteHamiltonianNodes ⟨c.parent, ks.map Tree.id⟩ ⟨c.parent, opKids i⟩
        (gOpT i ⟨c.parent, opKids i⟩) (siteCache c ks i) = some m ∧
      m.rows = (c.parent.toList ++ ks.map Tree.id).map (fun n => Leg.gBra n i) ++ [Leg.gOpOut i] ∧
      m.cols = (c.parent.toList ++ ks.map Tree.id).map (fun n => Leg.gKet n i) ++ [Leg.gOpIn i] ∧
      BuiltL m.toT (wholeLeaves opKids kv ov bv c i ks) ∧
      ∀ e : Expr Leg R, Built m.toT e → e.leaves.Perm (wholeLeaves opKids kv ov bv c i ks) →
        e.SWF ∧ e.binds.Perm m.binds ∧ e.free.Perm (m.rows ++ m.cols) ∧
        ∀ (dim : Leg → Nat),
          (∀ p ∈ projSpec ((c.ids ++ Tree.idsL ks).map physOut) ((c.ids ++ Tree.idsL ks).map physIn)
            ((c.compEdges ++ ks.flatMap Tree.edges).map fun e => ketEdge e.1 e.2)
            ((c.plug (Tree.node i ks)).edges.map fun e => opEdge e.1 e.2)
            ((c.compEdges ++ ks.flatMap Tree.edges).map fun e => braEdge e.1 e.2), dim p.1 = dim p.2) →
          ∀ σ, e.eval dim σ =
            sumPairs dim ((c.ids ++ Tree.idsL ks).map physOut)
              (fun τ => sumPairs dim ((c.ids ++ Tree.idsL ks).map physIn)
                (fun ρ => (envKet kv c i ks).eval dim ρ * (opAll ov opKids (c.plug (Tree.node i ks))).eval dim ρ) τ *
                (envBra bv c i ks).eval dim τ) σ := by
  -- the node tensors of the whole tree
  have hnone : ∀ q, (none : Option Nat) = some q → q ∉ (c.plug (Tree.node i ks)).ids := fun q hq => by simp at hq
  have hnb := info_nbrs_nodup (c.plug (Tree.node i ks)) none hnd hnone
  have hok : ∀ e ∈ Tree.info none (c.plug (Tree.node i ks)), NodeOK (soNodeLeaves opKids kv ov bv) e :=
    fun e he => so_nodeOK kv ov bv opKids e (hnb e he) (hperm e he)
  let ΛO := opLayer ov opKids
  let ΛB := braLayerK bv
  have hokK : ∀ e ∈ Tree.info none (c.plug (Tree.node i ks)), NodeOK (ketLayer kv).nodeLeaves e := fun e he =>
    nodeOK_left (f := (ketLayer kv).nodeLeaves)
      (g := fun i p k => ΛO.nodeLeaves i p k ++ ΛB.nodeLeaves i p k) (hok e he)
  have hokOB : ∀ e ∈ Tree.info none (c.plug (Tree.node i ks)),
      NodeOK (fun i p k => ΛO.nodeLeaves i p k ++ ΛB.nodeLeaves i p k) e :=
    fun e he => nodeOK_right (f := (ketLayer kv).nodeLeaves)
      (g := fun i p k => ΛO.nodeLeaves i p k ++ ΛB.nodeLeaves i p k) (hok e he)
  have hokO : ∀ e ∈ Tree.info none (c.plug (Tree.node i ks)), NodeOK ΛO.nodeLeaves e := fun e he =>
    nodeOK_left (f := ΛO.nodeLeaves) (g := ΛB.nodeLeaves) (hokOB e he)
  have hokB : ∀ e ∈ Tree.info none (c.plug (Tree.node i ks)), NodeOK ΛB.nodeLeaves e := fun e he =>
    nodeOK_right (f := ΛO.nodeLeaves) (g := ΛB.nodeLeaves) (hokOB e he)
  -- the three canonical programs
  obtain ⟨hK, hKl, hKsub, hKb, hKmem, hKfree⟩ := envExpr_facts (ketLayer kv) (ketLayer_inj kv) (fun _ _ => rfl) c i ks hnd
    (fun e _ n hn => by
      simp only [ketLayer, gKetT, T.fresh, Node.nbrs, List.mem_append, List.mem_map]
      exact Or.inl ⟨n, List.mem_append.1 hn, rfl⟩)
    hokK hkv
  obtain ⟨hB, hBl, hBsub, hBb, hBmem, hBfree⟩ := envExpr_facts ΛB
    (fun a b a' b' h => by simp only [ΛB, braLayerK] at h; injection h with h1 h2; exact ⟨h1, h2⟩)
    (fun _ _ => rfl) c i ks hnd
    (fun e _ n hn => by
      simp only [ΛB, braLayerK, gBraT, T.fresh, Node.nbrs, List.mem_append, List.mem_map]
      exact Or.inl ⟨n, List.mem_append.1 hn, rfl⟩)
    hokB hbv
  have hO : (opExpr ov opKids (c.plug (Tree.node i ks))).SWF := layExpr_swf ΛO
    (fun a b a' b' h => by simp only [ΛO, opLayer] at h; injection h with h1 h2; exact ⟨h1, h2⟩)
    (c.plug (Tree.node i ks)) none hnd hnone
    (fun e he n hn => by
      simp only [ΛO, opLayer, gOpT, T.fresh, Node.nbrs, List.mem_append, List.mem_map]
      refine Or.inl ⟨n, ?_, rfl⟩
      rcases List.mem_append.1 hn with h | h
      · exact Or.inl h
      · exact Or.inr ((hperm e he).mem_iff.2 h))
    hokO hov
  have hLO := layExpr_leaves ΛO (c.plug (Tree.node i ks)) none
  have hOb : (opExpr ov opKids (c.plug (Tree.node i ks))).binds.Perm
      ((c.plug (Tree.node i ks)).edges.map fun e => opEdge e.1 e.2) := by
    have := layExpr_binds ΛO (c.plug (Tree.node i ks)) none
    simpa [Layer.edge, ΛO, opLayer, opEdge, opExpr] using this
  rw [envRecord_ket] at hKb
  have hBb' : (unordL (envExpr ΛB c i ks).binds).Perm
      (unordL ((c.compEdges ++ ks.flatMap Tree.edges).map fun e => braEdge e.1 e.2)) := by
    rw [← envRecord_bra bv]; exact hBb
  -- the leaves: the three programs read exactly `wholeLeaves`
  have hwl := wholeLeaves_perm opKids kv ov bv c i ks
  have hsplit : (envLeaves (ketLayer kv) c i ks ++ ((opExpr ov opKids (c.plug (Tree.node i ks))).leaves ++
      envLeaves ΛB c i ks)).Perm (wholeLeaves opKids kv ov bv c i ks) := by
    have h1 := treeLeaves_append (ketLayer kv).nodeLeaves
      (fun i p k => ΛO.nodeLeaves i p k ++ ΛB.nodeLeaves i p k) (c.plug (Tree.node i ks)) none
    have h2 := treeLeaves_append ΛO.nodeLeaves ΛB.nodeLeaves (c.plug (Tree.node i ks)) none
    have pK := Ctx.plug_leaves_perm (ketLayer kv).nodeLeaves c (Tree.node i ks)
    have pB := Ctx.plug_leaves_perm ΛB.nodeLeaves c (Tree.node i ks)
    have hid : (Tree.node i ks).id = i := rfl
    rw [hid] at pK pB
    simp only [treeLeaves] at pK pB
    have hS : (soLeaves opKids kv ov bv none (c.plug (Tree.node i ks))).Perm
        (treeLeaves (ketLayer kv).nodeLeaves none (c.plug (Tree.node i ks)) ++
          (treeLeaves ΛO.nodeLeaves none (c.plug (Tree.node i ks)) ++
            treeLeaves ΛB.nodeLeaves none (c.plug (Tree.node i ks)))) := h1.trans (List.Perm.append_left _ h2)
    have hsk : (ketLayer kv).nodeLeaves i c.parent (ks.map Tree.id) =
        [((gKetT i ⟨c.parent, ks.map Tree.id⟩).legs, kv i)] := rfl
    have hsb : ΛB.nodeLeaves i c.parent (ks.map Tree.id) =
        [((gBraT i ⟨c.parent, ks.map Tree.id⟩).legs, bv i)] := rfl
    rw [hsk] at pK
    rw [hsb] at pB
    classical
    rw [List.perm_iff_count]
    intro z
    have c1 := hwl.count_eq z
    have c2 := hS.count_eq z
    have c3 := pK.count_eq z
    have c4 := pB.count_eq z
    have c5 : List.count z (opExpr ov opKids (c.plug (Tree.node i ks))).leaves =
        List.count z (treeLeaves ΛO.nodeLeaves none (c.plug (Tree.node i ks))) := hLO.count_eq z
    have hab : List.count z [((gKetT i ⟨c.parent, ks.map Tree.id⟩).legs, kv i),
        ((gBraT i ⟨c.parent, ks.map Tree.id⟩).legs, bv i)] =
        List.count z [((gKetT i ⟨c.parent, ks.map Tree.id⟩).legs, kv i)] +
          List.count z [((gBraT i ⟨c.parent, ks.map Tree.id⟩).legs, bv i)] := by
      rw [← List.count_append]; rfl
    simp only [envLeaves, List.count_append] at c1 c2 c3 c4 c5 ⊢
    omega
  -- labels
  obtain ⟨hndS, hlocS⟩ := soLeaves_clean opKids kv ov bv (c.plug (Tree.node i ks)) hnd hperm hkv hov hbv
  have hndW : (labelsOf (wholeLeaves opKids kv ov bv c i ks)).Nodup := by
    have h1 := (hwl.flatMap_right (·.1)).nodup_iff.2 hndS
    rw [List.flatMap_append] at h1
    exact (List.nodup_append.1 h1).2.1
  have hndAll : ((envExpr (ketLayer kv) c i ks).labels ++ ((opExpr ov opKids (c.plug (Tree.node i ks))).labels ++
      (envExpr ΛB c i ks).labels)).Nodup := by
    have h1 := (hsplit.flatMap_right (·.1)).nodup_iff.2 hndW
    simpa [envExpr, seqExpr_labels, labelsOf, List.flatMap_append, ← Expr.labels_eq_leaves] using h1
  rw [List.nodup_append] at hndAll
  obtain ⟨_, hndOB, hdisK⟩ := hndAll
  rw [List.nodup_append] at hndOB
  -- free physical legs
  have hmemInfo : ∀ n ∈ c.ids ++ Tree.idsL ks, n ≠ i ∧ ∃ x ∈ Tree.info none (c.plug (Tree.node i ks)), x.1 = n := by
    intro n hn
    have hnd' : (c.ids ++ (Tree.node i ks).ids).Nodup := (Ctx.plug_ids_perm c _).nodup_iff.1 hnd
    have hdisj : ∀ a ∈ c.ids, ∀ b ∈ i :: Tree.idsL ks, a ≠ b := (List.nodup_append.1 hnd').2.2
    have hin : (i :: Tree.idsL ks).Nodup := (List.nodup_append.1 hnd').2.1
    have hnT : n ∈ (c.plug (Tree.node i ks)).ids := by
      apply (Ctx.plug_ids_perm c _).mem_iff.2
      simp only [Tree.ids, List.mem_append, List.mem_cons] at hn ⊢
      rcases hn with h | h
      · exact Or.inl h
      · exact Or.inr (Or.inr h)
    refine ⟨?_, ?_⟩
    · rcases List.mem_append.1 hn with h | h
      · exact hdisj n h i (by simp)
      · exact fun h1 => (List.nodup_cons.1 hin).1 (h1 ▸ h)
    · rw [← Tree.info_keys none (c.plug (Tree.node i ks))] at hnT
      obtain ⟨x, hx, rfl⟩ := List.mem_map.1 hnT
      exact ⟨x, hx, rfl⟩
  have hfree : ∀ n ∈ c.ids ++ Tree.idsL ks, Leg.gKetPhys n ∈ (envExpr (ketLayer kv) c i ks).free ∧
      Leg.gOpIn n ∈ (opExpr ov opKids (c.plug (Tree.node i ks))).free ∧
      Leg.gOpOut n ∈ (opExpr ov opKids (c.plug (Tree.node i ks))).free ∧
      Leg.gBraPhys n ∈ (envExpr ΛB c i ks).free := by
    intro n hn
    obtain ⟨hni, x, hx, rfl⟩ := hmemInfo n hn
    refine ⟨?_, ?_, ?_, ?_⟩
    · apply hKfree _ (fun a b => by simp [ketLayer])
      refine hKmem (Leg.gKetPhys x.1) ?_ (fun h => hni (Option.some.inj h))
      simp only [labelsOf, List.mem_flatMap]
      exact ⟨_, nodeLeaves_sub _ _ none x hx _ (List.mem_singleton.2 rfl), by simp [ketLayer, gKetT, T.fresh]⟩
    · apply layExpr_free_phys ΛO _ (fun a b => by simp [ΛO, opLayer]) _ none
      simp only [labelsOf, List.mem_flatMap]
      exact ⟨_, nodeLeaves_sub _ _ none x hx _ (List.mem_singleton.2 rfl), by simp [ΛO, opLayer, gOpT, T.fresh]⟩
    · apply layExpr_free_phys ΛO _ (fun a b => by simp [ΛO, opLayer]) _ none
      simp only [labelsOf, List.mem_flatMap]
      exact ⟨_, nodeLeaves_sub _ _ none x hx _ (List.mem_singleton.2 rfl), by simp [ΛO, opLayer, gOpT, T.fresh]⟩
    · apply hBfree _ (fun a b => by simp [ΛB, braLayerK])
      refine hBmem (Leg.gBraPhys x.1) ?_ (fun h => hni (Option.some.inj h))
      simp only [labelsOf, List.mem_flatMap]
      exact ⟨_, nodeLeaves_sub _ _ none x hx _ (List.mem_singleton.2 rfl), by simp [ΛB, braLayerK, gBraT, T.fresh]⟩
  refine ⟨hK, hO, hB, hsplit, hKl, hBl, hKb, hOb, hBb', hfree, ?_⟩
  -- the program
  obtain ⟨m, hm, hr, hc, hbuilt, _, hall⟩ := site_heff_whole_program c i ks hnd opKids hperm kv ov bv hkv hov hbv
  obtain ⟨m', hm', _, _, hval⟩ := site_heff_projected_tree (R := R) c i ks hnd (opKids i)
    (hperm (i, c.parent, ks.map Tree.id) (Ctx.mem_info_plug c (Tree.node i ks) _ (Or.inr (by simp [Tree.info]))))
  have hmm : m' = m := Option.some.inj (hm'.symm.trans hm)
  subst hmm
  refine ⟨m', hm, hr, hc, hbuilt, ?_⟩
  intro e hbe hleaves
  obtain ⟨hswf, hbinds, hfr, _⟩ := hall e hbe hleaves
  refine ⟨hswf, hbinds, hfr, ?_⟩
  intro dim hdim σ
  have hsym : ∀ (P : List (Leg × Leg)), (∀ p ∈ P, dim p.1 = dim p.2) → ∀ q, (q ∈ P ∨ q.swap ∈ P) → dim q.1 = dim q.2 := by
    intro P hP q hq
    rcases hq with h | h
    · exact hP q h
    · exact (hP q.swap h).symm
  refine hval dim e (envExpr (ketLayer kv) c i ks) (opExpr ov opKids (c.plug (Tree.node i ks))) (envExpr ΛB c i ks)
    hswf hK.wf hO.wf hB.wf
    (fun l hl hl' => hdisK l hl l (List.mem_append.2 (Or.inl hl')) rfl)
    (fun l hl hl' => hdisK l hl l (List.mem_append.2 (Or.inr hl')) rfl)
    (fun l hl hl' => hndOB.2.2 l hl l hl' rfl)
    hbinds hKb (unordL_perm hOb) hBb' hfree ?_ ?_ σ
  · intro p hp
    simp only [projSpec, List.mem_append] at hp hdim
    rcases hp with h | ((h | h | h) | h)
    · exact hdim p (Or.inl h)
    · exact hdim p (Or.inr (Or.inl (Or.inl h)))
    · refine hsym _ (fun q hq => hdim q (Or.inr (Or.inl (Or.inr (Or.inl hq))))) p ?_
      have := seqExpr_binds_sub (envRecord (ketLayer kv) c ks) (envLeaves (ketLayer kv) c i ks) p h
      rwa [envRecord_ket] at this
    · exact hdim p (Or.inr (Or.inl (Or.inr (Or.inr (hOb.mem_iff.1 h)))))
    · refine hsym _ (fun q hq => hdim q (Or.inr (Or.inr hq))) p ?_
      have := seqExpr_binds_sub (envRecord ΛB c ks) (envLeaves ΛB c i ks) p h
      rwa [envRecord_bra] at this
  · intro τ
    rw [Expr.leafProd_of_leaves e _ (hleaves.trans hsplit.symm) τ, List.map_append, List.map_append, prodL_append,
      prodL_append, mul_assoc]
    simp only [envExpr, seqExpr_leafProd]
    rfl

end Ptn.C05.Heff
