import Ptn.C05.HeffTwo
/-! Effective Hamiltonians of TDVP (corollaries of the C04 leg-label calculus, exported to property C05).
Only property theorems and non-vacuity examples.

The matrix handed to `time_evolve` is described by its ROW legs, its COLUMN legs (in order) and the list of
bound pairs.  `gBra n i` / `gKet n i` / `gOp n i` are the bra / ket / Hamiltonian legs of the cached block of
the subtree behind neighbour `n` toward node `i`; `gOp i n`, `gOpOut i`, `gOpIn i` the legs of the operator
tensor of node `i`.  The state tensor that is flattened next to the matrix has the legs
`(neighbours in the STATE node's order, physical leg)`. -/
namespace Ptn.C05.Heff
open Ptn.C04

/-- **Single site.**  For every neighbour order of the state node and every operator-node neighbour order
that is a permutation of it (root or not, any number of children):
rows = (bra legs of all neighbours in the STATE node's order, operator output leg),
columns = (ket legs in the same order, operator input leg), and the bound pairs are exactly
(operator leg toward `n`, Hamiltonian leg of block `n`) for every neighbour `n` (plus what the blocks
carry): the specification graph of `E†HE`, indexed like the state tensor. -/
theorem site_heff_graph (i : Nat) (stateNode hamNode : Node) (bb : Nat → List (Leg × Leg)) (cache : Cache)
    (hK : stateNode.nbrs.Nodup) (hperm : hamNode.nbrs.Perm stateNode.nbrs)
    (hcache : ∀ n ∈ hamNode.nbrs, cache n = some (gBlock n i (bb n))) :
    getEffectiveSingleSiteHamiltonianNodes stateNode hamNode (gOpT i hamNode) cache =
      some ⟨stateNode.nbrs.map (fun n => Leg.gBra n i) ++ [Leg.gOpOut i],
            stateNode.nbrs.map (fun n => Leg.gKet n i) ++ [Leg.gOpIn i],
            hamNode.nbrs.flatMap (fun n => bb n ++ [(Leg.gOp i n, Leg.gOp n i)])⟩ :=
  siteHeff_eq i stateNode hamNode bb cache hK hperm hcache

example : getEffectiveSingleSiteHamiltonianNodes ⟨some 5, [1, 2, 3]⟩ ⟨some 5, [3, 1, 2]⟩ (gOpT 9 ⟨some 5, [3, 1, 2]⟩)
    (fun n => some (gBlock n 9 [])) =
    some ⟨[.gBra 5 9, .gBra 1 9, .gBra 2 9, .gBra 3 9, .gOpOut 9], [.gKet 5 9, .gKet 1 9, .gKet 2 9, .gKet 3 9, .gOpIn 9],
          [(.gOp 9 5, .gOp 5 9), (.gOp 9 3, .gOp 3 9), (.gOp 9 1, .gOp 1 9), (.gOp 9 2, .gOp 2 9)]⟩ := by decide

/-- **Link.**  The link node is `⟨parent p, child c⟩`, its tensor has the legs (toward `p`, toward `c`).  In
both orientations of the sweep (`node_id = c, next = p`: the link is the parent of `node_id`; `node_id = p,
next = c`) rows = bra legs, columns = ket legs of the two blocks in the link tensor's own leg order, and the
two Hamiltonian legs are bound to each other. -/
theorem link_heff_graph (p c : Nat) (hne : p ≠ c) (cache : Dict) (bp bc : List (Leg × Leg))
    (hp : cache (p, c) = some (gBlock p c bp)) (hc : cache (c, p) = some (gBlock c p bc)) :
    getEffectiveLinkHamiltonian ⟨some p, [c]⟩ c p cache =
      some ⟨[Leg.gBra p c, Leg.gBra c p], [Leg.gKet p c, Leg.gKet c p], bp ++ bc ++ [(Leg.gOp p c, Leg.gOp c p)]⟩ ∧
    getEffectiveLinkHamiltonian ⟨some p, [c]⟩ p c cache =
      some ⟨[Leg.gBra p c, Leg.gBra c p], [Leg.gKet p c, Leg.gKet c p], bp ++ bc ++ [(Leg.gOp p c, Leg.gOp c p)]⟩ :=
  ⟨linkHeff_child p c cache bc bp hc hp, linkHeff_parent p c hne cache bp bc hp hc⟩

example : getEffectiveLinkHamiltonian ⟨some 7, [4]⟩ 4 7
    (fun k => if k = (4, 7) then some (gBlock 4 7 []) else if k = (7, 4) then some (gBlock 7 4 []) else none) =
    some ⟨[.gBra 7 4, .gBra 4 7], [.gKet 7 4, .gKet 4 7], [(.gOp 7 4, .gOp 4 7)]⟩ := by decide

/-- **Two sites.**  `t` = target, `x` = next, operator nodes `hamT`, `hamX` with arbitrary neighbour orders;
`twoSite` = the state's contracted node, whose neighbours are any arrangement of the other neighbours of
`t` and of `x`.  Rows = (bra legs of the blocks in the two-site node's own neighbour order, output leg of
`t`, output leg of `x`), columns = (ket legs in the same order, input leg of `t`, input leg of `x`) — the
order `(virtual legs, open legs of target, open legs of next)` of the tensor produced by
`contract_nodes(target, next)`; every block's Hamiltonian leg is bound to the operator leg toward it and the
two operator tensors are bound along the bond `t — x`. -/
theorem two_site_heff_graph (t x : Nat) (hamT hamX twoSite : Node) (bT bX : Nat → List (Leg × Leg)) (cache : Dict)
    (hT : hamT.nbrs.Nodup) (hX : hamX.nbrs.Nodup) (hxT : x ∈ hamT.nbrs) (htX : t ∈ hamX.nbrs)
    (hdisj : ∀ n ∈ hamX.nbrs, n ∉ hamT.nbrs)
    (hS : twoSite.nbrs.Perm (hamT.nbrs.filter (· ≠ x) ++ hamX.nbrs.filter (· ≠ t)))
    (hcT : ∀ n ∈ hamT.nbrs, n ≠ x → cache (n, t) = some (gBlock n t (bT n)))
    (hcX : ∀ n ∈ hamX.nbrs, n ≠ t → cache (n, x) = some (gBlock n x (bX n))) :
    getEffectiveTwoSiteHamiltonian hamT hamX twoSite (gOpT t hamT) (gOpT x hamX) t x cache =
      some ⟨twoSite.nbrs.map (fun n => if n ∈ hamT.nbrs then Leg.gBra n t else Leg.gBra n x) ++
              [Leg.gOpOut t, Leg.gOpOut x],
            twoSite.nbrs.map (fun n => if n ∈ hamT.nbrs then Leg.gKet n t else Leg.gKet n x) ++
              [Leg.gOpIn t, Leg.gOpIn x],
            ((hamT.nbrs.filter (· ≠ x)).flatMap (fun n => bT n ++ [(Leg.gOp t n, Leg.gOp n t)]) ++
             (hamX.nbrs.filter (· ≠ t)).flatMap (fun n => bX n ++ [(Leg.gOp x n, Leg.gOp n x)])) ++
            [(Leg.gOp t x, Leg.gOp x t)]⟩ :=
  twoSiteHeff_eq t x hamT hamX twoSite bT bX cache hT hX hxT htX hdisj hS hcT hcX

example : getEffectiveTwoSiteHamiltonian ⟨some 0, [2, 3]⟩ ⟨some 1, [4, 5]⟩ ⟨some 0, [3, 5, 4]⟩
    (gOpT 1 ⟨some 0, [2, 3]⟩) (gOpT 2 ⟨some 1, [4, 5]⟩) 1 2
    (fun k => if (k.2 = 1 ∧ k.1 ∈ [0, 3]) ∨ (k.2 = 2 ∧ k.1 ∈ [4, 5]) then some (gBlock k.1 k.2 []) else none) =
    some ⟨[.gBra 0 1, .gBra 3 1, .gBra 5 2, .gBra 4 2, .gOpOut 1, .gOpOut 2],
          [.gKet 0 1, .gKet 3 1, .gKet 5 2, .gKet 4 2, .gOpIn 1, .gOpIn 2],
          [(.gOp 1 0, .gOp 0 1), (.gOp 1 3, .gOp 3 1), (.gOp 2 4, .gOp 4 2), (.gOp 2 5, .gOp 5 2), (.gOp 1 2, .gOp 2 1)]⟩ := by
  decide

example : ([0, 3, 5, 4] : List Nat).Perm (([0, 2, 3] : List Nat).filter (· ≠ 2) ++ ([1, 4, 5] : List Nat).filter (· ≠ 1)) := by
  decide

end Ptn.C05.Heff
