import Ptn.C04.Core
import Ptn.C05.HeffModel
/-! Lemmas for the effective Hamiltonians (single site, link). -/
namespace Ptn.C05.Heff
open Ptn.C04

theorem exceptNodeLoop_eq (nd : Node) (cache : Cache) : ∀ (l : List Nat) (h : T),
    exceptNodeLoop cache l h = allLoop 1 nd cache l h
  | [], h => rfl
  | n :: rest, h => by
    simp only [exceptNodeLoop, allLoop, contractNeighbourBlock]
    cases cache n with
    | none => rfl
    | some blk =>
      simp only
      cases tensordot h blk [0] [1] with
      | none => rfl
      | some h' => exact exceptNodeLoop_eq nd cache rest h'

theorem neighbourIndices_eq (nd : Node) (l : List Nat) (h : ∀ n ∈ l, n ∈ nd.nbrs) :
    neighbourIndices nd l = some (l.map (fun n => nd.nbrs.idxOf n)) := by
  induction l with
  | nil => rfl
  | cons n rest ih =>
    simp [neighbourIndices, Node.neighbourIndex_of_mem _ _ (h n (by simp)), ih (fun m hm => h m (by simp [hm]))]

/-- the two legs of the `k`-th group of interleaved two-leg groups -/
theorem getElem?_pairs (pre : List Leg) (F : List Nat) (p q : Nat → Leg) (suf : List Leg) (k : Nat)
    (hk : k < F.length) :
    (pre ++ F.flatMap (fun n => [p n, q n]) ++ suf)[pre.length + 2 * k]? = some (p F[k]) ∧
    (pre ++ F.flatMap (fun n => [p n, q n]) ++ suf)[pre.length + 2 * k + 1]? = some (q F[k]) := by
  induction F generalizing pre k with
  | nil => simp at hk
  | cons n rest ih =>
    cases k with
    | zero =>
      constructor
      · simp
      · have := getElem?_append_mid (pre ++ [p n]) (rest.flatMap (fun n => [p n, q n]) ++ suf) (q n)
        simp at this
        simp [List.flatMap_cons]
    | succ k =>
      have h := ih (pre ++ [p n, q n]) k (by simpa using hk)
      have e1 : (pre ++ [p n, q n]).length + 2 * k = pre.length + 2 * (k + 1) := by simp; omega
      rw [e1] at h
      simpa [List.flatMap_cons] using h

theorem length_pairs (F : List Nat) (p q : Nat → Leg) : (F.flatMap (fun n => [p n, q n])).length = 2 * F.length := by
  induction F with
  | nil => rfl
  | cons a as ih =>
    simp only [List.flatMap_cons, List.length_append, List.length_cons, List.length_nil] at ih ⊢
    omega

theorem take_append_len {α : Type} (a b : List α) (n : Nat) (h : a.length = n) : (a ++ b).take n = a := by
  subst h; simp

theorem drop_append_len {α : Type} (a b : List α) (n : Nat) (h : a.length = n) : (a ++ b).drop n = b := by
  subst h; simp

/-- the single-site effective Hamiltonian, general form -/
theorem siteHeff_eq (i : Nat) (stateNode hamNode : Node) (bb : Nat → List (Leg × Leg)) (cache : Cache)
    (hK : stateNode.nbrs.Nodup) (hperm : hamNode.nbrs.Perm stateNode.nbrs)
    (hcache : ∀ n ∈ hamNode.nbrs, cache n = some (gBlock n i (bb n))) :
    getEffectiveSingleSiteHamiltonianNodes stateNode hamNode (gOpT i hamNode) cache =
      some ⟨stateNode.nbrs.map (fun n => Leg.gBra n i) ++ [Leg.gOpOut i],
            stateNode.nbrs.map (fun n => Leg.gKet n i) ++ [Leg.gOpIn i],
            hamNode.nbrs.flatMap (fun n => bb n ++ [(Leg.gOp i n, Leg.gOp n i)])⟩ := by
  have hmemO : ∀ n ∈ stateNode.nbrs, n ∈ hamNode.nbrs := fun n hn => hperm.mem_iff.2 hn
  have hlen : hamNode.nbrs.length = stateNode.nbrs.length := hperm.length_eq
  have hloop := allLoop_general 1 (Leg.gOp i) (fun n => gBlock n i (bb n)) (fun n => Leg.gOp n i) cache hamNode
    hamNode.nbrs [Leg.gOpOut i, Leg.gOpIn i] [] (fun n hn => ⟨hcache n hn, by simp [gBlock]⟩)
  simp only [gBlock, List.eraseIdx_cons_succ, List.eraseIdx_cons_zero, List.nil_append] at hloop
  simp only [getEffectiveSingleSiteHamiltonianNodes, contractAllExceptNode, exceptNodeLoop_eq hamNode, gOpT, T.fresh,
    hloop, findTensorLegPermutation, neighbourIndices_eq hamNode stateNode.nbrs hmemO, List.map_map]
  generalize hKd : stateNode.nbrs = K at *
  generalize hOd : hamNode.nbrs = On at *
  -- the legs picked by the permutation
  have hget : ∀ n ∈ K,
      ([Leg.gOpOut i, Leg.gOpIn i] ++ On.flatMap (fun n => [Leg.gKet n i, Leg.gBra n i]))[2 * On.idxOf n + 2]?
        = some (Leg.gKet n i) ∧
      ([Leg.gOpOut i, Leg.gOpIn i] ++ On.flatMap (fun n => [Leg.gKet n i, Leg.gBra n i]))[2 * On.idxOf n + 3]?
        = some (Leg.gBra n i) := by
    intro n hn
    have hlt := List.idxOf_lt_length_of_mem (hmemO n hn)
    have := getElem?_pairs [Leg.gOpOut i, Leg.gOpIn i] On (fun n => Leg.gKet n i) (fun n => Leg.gBra n i) []
      (On.idxOf n) hlt
    simp only [List.append_nil, List.length_cons, List.length_nil, List.getElem_idxOf hlt] at this
    have e1 : 0 + 1 + 1 + 2 * On.idxOf n = 2 * On.idxOf n + 2 := by omega
    rw [e1] at this
    exact this
  have hpick : pick ([Leg.gOpOut i, Leg.gOpIn i] ++ On.flatMap (fun n => [Leg.gKet n i, Leg.gBra n i]))
      ((K.map ((fun h => 2 * h + 3) ∘ fun n => On.idxOf n) ++ [0]) ++
        (K.map ((fun h => 2 * h + 2) ∘ fun n => On.idxOf n) ++ [1])) =
      some ((K.map (fun n => Leg.gBra n i) ++ [Leg.gOpOut i]) ++ (K.map (fun n => Leg.gKet n i) ++ [Leg.gOpIn i])) := by
    apply pick_append
    · apply pick_append
      · apply pick_map; intro n hn; exact (hget n hn).2
      · exact pick_single _ _ _ (by simp)
    · apply pick_append
      · apply pick_map; intro n hn; exact (hget n hn).1
      · exact pick_single _ _ _ (by simp)
  have hinj : ∀ x ∈ K, ∀ y ∈ K, On.idxOf x = On.idxOf y → x = y := fun x hx y hy e =>
    idxOf_inj (hmemO x hx) (hmemO y hy) e
  have hnd : ((K.map ((fun h => 2 * h + 3) ∘ fun n => On.idxOf n) ++ [0]) ++
        (K.map ((fun h => 2 * h + 2) ∘ fun n => On.idxOf n) ++ [1])).Nodup := by
    rw [List.nodup_append]
    refine ⟨?_, ?_, ?_⟩
    · rw [List.nodup_append]
      refine ⟨nodup_map_of_inj_on _ _ hK (fun x hx y hy e => hinj x hx y hy (by simp at e; omega)), by simp, ?_⟩
      intro a ha b hb
      obtain ⟨n, _, rfl⟩ := List.mem_map.1 ha
      simp only [List.mem_singleton] at hb
      simp; omega
    · rw [List.nodup_append]
      refine ⟨nodup_map_of_inj_on _ _ hK (fun x hx y hy e => hinj x hx y hy (by simp at e; omega)), by simp, ?_⟩
      intro a ha b hb
      obtain ⟨n, _, rfl⟩ := List.mem_map.1 ha
      simp only [List.mem_singleton] at hb
      simp; omega
    · intro a ha b hb
      simp only [List.mem_append, List.mem_map, List.mem_singleton, Function.comp] at ha hb
      rcases ha with ⟨n, _, rfl⟩ | rfl <;> rcases hb with ⟨m, _, rfl⟩ | rfl <;> omega
  have hflat := length_pairs On (fun n => Leg.gKet n i) (fun n => Leg.gBra n i)
  have hlenax : ((K.map ((fun h => 2 * h + 3) ∘ fun n => On.idxOf n) ++ [0]) ++
        (K.map ((fun h => 2 * h + 2) ∘ fun n => On.idxOf n) ++ [1])).length =
      ([Leg.gOpOut i, Leg.gOpIn i] ++ On.flatMap (fun n => [Leg.gKet n i, Leg.gBra n i])).length := by
    simp [hflat]; omega
  simp only [transposeT, hlenax, hnd, ne_eq, not_true_eq_false, or_self, if_false, hpick, matricisationHalf]
  have hl2 : ((K.map (fun n => Leg.gBra n i) ++ [Leg.gOpOut i]) ++
      (K.map (fun n => Leg.gKet n i) ++ [Leg.gOpIn i])).length = 2 * (K.length + 1) := by simp; omega
  have hhalf : 2 * (K.length + 1) / 2 = K.length + 1 := by omega
  simp only [hl2, Nat.mul_mod_right, hhalf]
  rw [take_append_len _ _ _ (by simp), drop_append_len _ _ _ (by simp)]
  simp

/-- the link effective Hamiltonian; the link node is `⟨some p, [c]⟩`, the sweep goes `node → next` -/
theorem linkHeff_child (p c : Nat) (cache : Dict) (b1 b2 : List (Leg × Leg))
    (h1 : cache (c, p) = some (gBlock c p b1)) (h2 : cache (p, c) = some (gBlock p c b2)) :
    getEffectiveLinkHamiltonian ⟨some p, [c]⟩ c p cache =
      some ⟨[Leg.gBra p c, Leg.gBra c p], [Leg.gKet p c, Leg.gKet c p],
            b2 ++ b1 ++ [(Leg.gOp p c, Leg.gOp c p)]⟩ := by
  simp only [getEffectiveLinkHamiltonian, h1, h2, gBlock]
  rw [if_neg (by simp), if_neg (by simp), if_pos (by simp)]
  rw [tensordot_one _ _ _ _ (Leg.gOp p c) (Leg.gOp c p) (by simp) (by simp)]
  simp [transposeT, pick, matricisationHalf]

theorem linkHeff_parent (p c : Nat) (hne : p ≠ c) (cache : Dict) (b1 b2 : List (Leg × Leg))
    (h1 : cache (p, c) = some (gBlock p c b1)) (h2 : cache (c, p) = some (gBlock c p b2)) :
    getEffectiveLinkHamiltonian ⟨some p, [c]⟩ p c cache =
      some ⟨[Leg.gBra p c, Leg.gBra c p], [Leg.gKet p c, Leg.gKet c p],
            b1 ++ b2 ++ [(Leg.gOp p c, Leg.gOp c p)]⟩ := by
  simp only [getEffectiveLinkHamiltonian, h1, h2, gBlock]
  rw [if_neg (by simp), if_neg (by simp), if_neg (by simpa using hne)]
  rw [tensordot_one _ _ _ _ (Leg.gOp p c) (Leg.gOp c p) (by simp) (by simp)]
  simp [transposeT, pick, matricisationHalf]

end Ptn.C05.Heff
