import Ptn.C04.BuiltFns
import Ptn.C05.HeffLemmas
/-! Provenance for the effective Hamiltonians (C05, C04 pattern `Built`): "inputs built ⟹ output built" for the
three model functions of `HeffModel.lean`.  If the call succeeds and the operator tensor(s) and the cache entries
it reads are built from given leaf tensors, then the returned matrix — read as the tensor `rows ++ cols` — is
built, by the `tensordot` calls (and the transposition) the function performs, from exactly the leaves of the
operator tensor(s) and of the blocks it consumed. -/
namespace Ptn.C05.Heff
open Ptn.C04 Ptn.Ein

variable {R : Type}

/-- the matrix read as a tensor: the row legs followed by the column legs -/
def Mat.toT (m : Mat) : T := ⟨m.rows ++ m.cols, m.binds⟩

/-! ### a transposition by a full list of distinct axes is a permutation of the legs -/

theorem pick_map_some (l : List Leg) : ∀ (is : List Nat) (xs : List Leg), pick l is = some xs →
    xs.map some = is.map (fun i => l[i]?)
  | [], xs, h => by simp [pick] at h; subst h; rfl
  | i :: is, xs, h => by
    simp only [pick] at h
    split at h
    · rename_i v vs hv hvs
      simp only [Option.some.injEq] at h
      subst h
      simp [hv, pick_map_some l is vs hvs]
    · simp at h

theorem pick_lt (l : List Leg) : ∀ (is : List Nat) (xs : List Leg), pick l is = some xs → ∀ i ∈ is, i < l.length
  | [], _, _ => by simp
  | i :: is, xs, h => by
    simp only [pick] at h
    split at h
    · rename_i v vs hv hvs
      intro j hj
      rcases List.mem_cons.1 hj with rfl | hj
      · rcases Nat.lt_or_ge j l.length with h' | h'
        · exact h'
        · rw [List.getElem?_eq_none h'] at hv; simp at hv
      · exact pick_lt l is vs hvs j hj
    · simp at h

theorem pick_full_perm (l : List Leg) (is : List Nat) (xs : List Leg) (h : pick l is = some xs)
    (hnd : is.Nodup) (hlen : is.length = l.length) : xs.Perm l := by
  have hsub : is ⊆ List.range l.length := fun i hi => List.mem_range.2 (pick_lt l is xs h i hi)
  have hp : is.Perm (List.range l.length) :=
    (List.subperm_of_subset hnd hsub).perm_of_length_le (by simp [hlen])
  have h1 : (xs.map some).Perm (l.map some) := by
    rw [pick_map_some l is xs h]
    have h2 : (List.range l.length).map (fun i => l[i]?) = l.map some := by
      apply List.ext_getElem?
      intro k
      by_cases hk : k < l.length
      · simp [hk]
      · simp [hk]
    rw [← h2]
    exact hp.map _
  have h3 := h1.filterMap id
  simpa using h3

theorem transposeT_built {t r : T} {axes : List Nat} {ls : List (LeafT R)} (h : transposeT t axes = some r)
    (ht : BuiltL t ls) : BuiltL r ls := by
  unfold transposeT at h
  split at h
  · simp at h
  · rename_i hc
    have hlen : axes.length = t.legs.length := Classical.not_not.1 (fun hh => hc (Or.inl hh))
    have hnd : axes.Nodup := Classical.not_not.1 (fun hh => hc (Or.inr hh))
    split at h
    · simp at h
    · rename_i legs hlegs
      simp only [Option.some.injEq] at h
      subst h
      exact ht.transpose (pick_full_perm _ _ _ hlegs hnd hlen)

theorem matricisationHalf_toT {t : T} {m : Mat} (h : matricisationHalf t = some m) : m.toT = t := by
  unfold matricisationHalf at h
  split at h
  · simp at h
  · simp only [Option.some.injEq] at h
    subst h
    simp [Mat.toT]

/-! ### single site -/

theorem contractAllExceptNode_built {stateNode hamNode : Node} {ham : T} {cache : Cache} {r : T}
    {lo : List (LeafT R)} {lv : Nat → List (LeafT R)}
    (h : contractAllExceptNode stateNode hamNode ham cache = some r) (ho : BuiltL ham lo)
    (hc : ∀ n ∈ hamNode.nbrs, ∀ blk, cache n = some blk → BuiltL blk (lv n)) :
    BuiltL r (lo ++ hamNode.nbrs.flatMap lv) := by
  unfold contractAllExceptNode at h
  split at h
  · simp at h
  · rename_i t ht
    split at h
    · simp at h
    · rw [exceptNodeLoop_eq hamNode] at ht
      exact transposeT_built h (allLoop_built _ _ _ _ ht ho hc)

/-- **Provenance, single site.**  The matrix returned by `get_effective_single_site_hamiltonian_nodes` is built, by
the function's own `tensordot` calls and its transposition, from exactly the operator tensor's leaves and the leaves
of the blocks of all neighbours of the operator node. -/
theorem site_heff_built {stateNode hamNode : Node} {ham : T} {cache : Cache} {m : Mat}
    {lo : List (LeafT R)} {lv : Nat → List (LeafT R)}
    (h : getEffectiveSingleSiteHamiltonianNodes stateNode hamNode ham cache = some m) (ho : BuiltL ham lo)
    (hc : ∀ n ∈ hamNode.nbrs, ∀ blk, cache n = some blk → BuiltL blk (lv n)) :
    BuiltL m.toT (lo ++ hamNode.nbrs.flatMap lv) := by
  unfold getEffectiveSingleSiteHamiltonianNodes at h
  split at h
  · simp at h
  · rename_i t ht
    rw [matricisationHalf_toT h]
    exact contractAllExceptNode_built ht ho hc

/-! ### link -/

/-- **Provenance, link.**  The matrix returned by `_get_effective_link_hamiltonian` is built from exactly the two
cached blocks `(node_id, next_node_id)` and `(next_node_id, node_id)` (one `tensordot`, one transposition), in both
branches of `is_parent_of`. -/
theorem link_heff_built {linkNode : Node} {nodeId nextId : Nat} {cache : Dict} {m : Mat}
    {l1 l2 : List (LeafT R)}
    (h : getEffectiveLinkHamiltonian linkNode nodeId nextId cache = some m)
    (h1 : ∀ blk, cache (nodeId, nextId) = some blk → BuiltL blk l1)
    (h2 : ∀ blk, cache (nextId, nodeId) = some blk → BuiltL blk l2) :
    BuiltL m.toT (l1 ++ l2) := by
  unfold getEffectiveLinkHamiltonian at h
  split at h
  · simp at h
  · split at h
    · simp at h
    · split at h
      · rename_i newT otherT hn ho
        simp only at h
        split at h
        · simp at h
        · rename_i t ht
          split at h
          · simp at h
          · rename_i t' ht'
            rw [matricisationHalf_toT h]
            refine transposeT_built ht' ?_
            by_cases hp : nodeId ∈ linkNode.children
            · rw [if_pos hp] at ht
              exact (BuiltL.dot (h2 _ ho) (h1 _ hn) ht).perm List.perm_append_comm
            · rw [if_neg hp] at ht
              exact BuiltL.dot (h1 _ hn) (h2 _ ho) ht
      · simp at h

/-! ### two sites -/

theorem contractAllExceptTwoNodes_built {hamT hamX twoSite : Node} {hT hN : T} {t x : Nat} {cache : Dict} {r : T}
    {lT lX : List (LeafT R)} {lvT lvX : Nat → List (LeafT R)}
    (h : contractAllExceptTwoNodes hamT hamX twoSite hT hN t x cache = some r)
    (hoT : BuiltL hT lT) (hoX : BuiltL hN lX)
    (hcT : ∀ n ∈ hamT.nbrs, n ≠ x → ∀ blk, cache (n, t) = some blk → BuiltL blk (lvT n))
    (hcX : ∀ n ∈ hamX.nbrs, n ≠ t → ∀ blk, cache (n, x) = some blk → BuiltL blk (lvX n)) :
    BuiltL r ((lT ++ (hamT.nbrs.filter (· ≠ x)).flatMap lvT) ++ (lX ++ (hamX.nbrs.filter (· ≠ t)).flatMap lvX)) := by
  unfold contractAllExceptTwoNodes at h
  split at h
  · rename_i tb nb htb hnb
    split at h
    · simp at h
    · rename_i hEff hh
      split at h
      · simp at h
      · have b1 := allButOneLoop_built (lv := lvT) _ _ _ _ htb hoT
          (fun n hn hne blk hb => hcT n hn hne blk hb)
        have b2 := allButOneLoop_built (lv := lvX) _ _ _ _ hnb hoX
          (fun n hn hne blk hb => hcX n hn hne blk hb)
        exact transposeT_built h (BuiltL.dot b1 b2 hh)
  · simp at h

/-- **Provenance, two sites.**  The matrix returned by `_get_effective_two_site_hamiltonian` is built from exactly
the two operator tensors and the blocks of all neighbours of the target other than the next node and of all
neighbours of the next node other than the target. -/
theorem two_site_heff_built {hamT hamX twoSite : Node} {hT hN : T} {t x : Nat} {cache : Dict} {m : Mat}
    {lT lX : List (LeafT R)} {lvT lvX : Nat → List (LeafT R)}
    (h : getEffectiveTwoSiteHamiltonian hamT hamX twoSite hT hN t x cache = some m)
    (hoT : BuiltL hT lT) (hoX : BuiltL hN lX)
    (hcT : ∀ n ∈ hamT.nbrs, n ≠ x → ∀ blk, cache (n, t) = some blk → BuiltL blk (lvT n))
    (hcX : ∀ n ∈ hamX.nbrs, n ≠ t → ∀ blk, cache (n, x) = some blk → BuiltL blk (lvX n)) :
    BuiltL m.toT ((lT ++ (hamT.nbrs.filter (· ≠ x)).flatMap lvT) ++
      (lX ++ (hamX.nbrs.filter (· ≠ t)).flatMap lvX)) := by
  unfold getEffectiveTwoSiteHamiltonian at h
  split at h
  · simp at h
  · rename_i r hr
    rw [matricisationHalf_toT h]
    exact contractAllExceptTwoNodes_built hr hoT hoX hcT hcX

end Ptn.C05.Heff
