import Ptn.C05.Projected
import Ptn.C04.ValueOp
/-! `H_eff = E† H E` for a whole tree (site = root): the hypotheses of the record-level theorem
`site_heff_is_projected_hamiltonian` about the blocks are discharged by the C04 model of the cached blocks of
the child subtrees (`soKidBlock`, the entries that `soLoop_forest` proves the leaf-to-root loop leaves in the
dictionary; record `soBlockBinds`, a permutation of the specification graph `soSpec` of the subtree). -/
namespace Ptn.C05.Heff
open Ptn.C04 Ptn.Ein

set_option linter.unusedSectionVars false
variable {R : Type} [CommSemiring R]

/-- `f` of the kid with identifier `n` (`[]` if there is none) -/
def ofKid {β : Type} (ts : List Tree) (f : Tree → List β) (n : Nat) : List β :=
  ((ts.find? (fun c => c.id == n)).map f).getD []

theorem soBbOf_eq_ofKid (ts : List Tree) (n : Nat) : soBbOf ts n = ofKid ts soBlockBinds n := rfl

theorem ofKid_of_mem {β : Type} (ts : List Tree) (n : Nat) (hn : n ∈ ts.map Tree.id) :
    ∃ c ∈ ts, c.id = n ∧ ∀ f : Tree → List β, ofKid ts f n = f c := by
  obtain ⟨c, hc, hcn⟩ := List.mem_map.1 hn
  have hsome : (ts.find? (fun c => c.id == n)).isSome := by
    rw [List.find?_isSome]; exact ⟨c, hc, by simp [hcn]⟩
  obtain ⟨c', hc'⟩ := Option.isSome_iff_exists.1 hsome
  have hid : c'.id = n := by simpa using List.find?_some hc'
  exact ⟨c', List.mem_of_find?_eq_some hc', hid, fun f => by simp [ofKid, hc']⟩

theorem flatMap_ofKid {β : Type} (f : Tree → List β) : ∀ ts : List Tree, (ts.map Tree.id).Nodup →
    (ts.map Tree.id).flatMap (ofKid ts f) = ts.flatMap f
  | [], _ => rfl
  | c :: cs, hnd => by
    simp only [List.map_cons, List.nodup_cons] at hnd
    have ih := flatMap_ofKid f cs hnd.2
    have hhead : ofKid (c :: cs) f c.id = f c := by simp [ofKid]
    have htail : (cs.map Tree.id).flatMap (ofKid (c :: cs) f) = (cs.map Tree.id).flatMap (ofKid cs f) := by
      apply flatMap_congr'
      intro n hn
      have hne : c.id ≠ n := fun e => hnd.1 (e ▸ hn)
      have hb : (c.id == n) = false := by simpa using hne
      simp [ofKid, hb]
    simp only [List.map_cons, List.flatMap_cons, hhead, htail, ih]

theorem idsL_eq_flatMap : ∀ ts : List Tree, Tree.idsL ts = ts.flatMap Tree.ids
  | [] => rfl
  | c :: cs => by simp [Tree.idsL, idsL_eq_flatMap cs]

theorem edgesL_perm (i : Nat) : ∀ ts : List Tree,
    (Tree.edgesL i ts).Perm ((ts.map fun c => (i, c.id)) ++ ts.flatMap Tree.edges)
  | [] => List.Perm.refl _
  | c :: cs => by
    simp only [Tree.edgesL, List.map_cons, List.flatMap_cons, List.cons_append]
    refine List.Perm.cons _ ?_
    refine (List.Perm.append_left _ (edgesL_perm i cs)).trans ?_
    rw [← List.append_assoc, ← List.append_assoc]
    refine List.Perm.append_right _ List.perm_append_comm

/-- the block of a child subtree carries, up to order, the sandwich record of the subtree -/
theorem soBlockBinds_perm_comp (c : Tree) :
    (soBlockBinds c).Perm (c.ids.map physOut ++ (c.ids.map physIn ++ ((c.edges.map fun e => ketEdge e.1 e.2) ++
      ((c.edges.map fun e => opEdge e.1 e.2) ++ (c.edges.map fun e => braEdge e.1 e.2))))) := by
  rw [List.perm_iff_count]
  intro x
  rw [count_soBlockBinds x c, count_soSpec_split x c]
  simp only [List.count_append]
  omega

theorem unordL_map_swap (l : List (Leg × Leg)) : (unordL (l.map Prod.swap)).Perm (unordL l) := by
  have : (l.map Prod.swap).map Prod.swap = l := by
    rw [List.map_map]
    conv_rhs => rw [← List.map_id l]
    apply List.map_congr_left
    intro x _
    simp
  unfold unordL
  rw [this]
  exact List.perm_append_comm

theorem pairLegs_physOut_nodup (l : List Nat) (h : l.Nodup) : (Expr.pairLegs (l.map physOut)).Nodup := by
  simp only [Expr.pairLegs, List.map_map, List.nodup_append]
  refine ⟨nodup_map_of_inj_on _ _ h (fun x _ y _ h => by simpa [physOut] using h),
    nodup_map_of_inj_on _ _ h (fun x _ y _ h => by simpa [physOut] using h), ?_⟩
  intro x hx y hy hxy
  subst hxy
  obtain ⟨a, _, rfl⟩ := List.mem_map.1 hx
  obtain ⟨b, _, hb⟩ := List.mem_map.1 hy
  simp [physOut] at hb

theorem pairLegs_physIn_nodup (l : List Nat) (h : l.Nodup) : (Expr.pairLegs (l.map physIn)).Nodup := by
  simp only [Expr.pairLegs, List.map_map, List.nodup_append]
  refine ⟨nodup_map_of_inj_on _ _ h (fun x _ y _ h => by simpa [physIn] using h),
    nodup_map_of_inj_on _ _ h (fun x _ y _ h => by simpa [physIn] using h), ?_⟩
  intro x hx y hy hxy
  subst hxy
  obtain ⟨a, _, rfl⟩ := List.mem_map.1 hx
  obtain ⟨b, _, hb⟩ := List.mem_map.1 hy
  simp [physIn] at hb

/-- a list read off the kids in the operator node's order is, up to order, the list read off the kids in the
tree's order -/
theorem flatMap_ofKid_perm {β : Type} (f : Tree → List β) (ks : List Tree) (opKids : List Nat)
    (hnd : (ks.map Tree.id).Nodup) (hperm : opKids.Perm (ks.map Tree.id)) :
    (opKids.flatMap (ofKid ks f)).Perm (ks.flatMap f) := by
  have := hperm.flatMap_right (ofKid ks f)
  rwa [flatMap_ofKid f ks hnd] at this

/-- **`H_eff = E† H E` on a whole tree, site = root.**  `i` is the root of the tree `node i ks` (distinct
identifiers, any shape and depth), the operator node lists the children in any order `opKids`, and the cache holds
for every child `n` the block that the C04 model of the leaf-to-root block loop produces for the subtree of `n`
(`soKidBlock`, see `soLoop_forest`).  Then the model returns the matrix `m` of `site_heff_graph`, and for every
commutative semiring and all dimensions (both legs of every bound pair of equal dimension): let `E` be ANY
well-formed contraction of the ket tensors of all nodes other than `i` over the ket bonds inside the child subtrees,
`H` ANY well-formed contraction of the operator tensors of ALL nodes over ALL operator bonds of the tree (the dense
TTNO), `B` ANY well-formed contraction of the bra tensors of all other nodes (records as multisets of unordered
pairs).  Every strongly well-formed program `e` over all these tensors with the record of `m` evaluates to
`Σ_{phys'} (Σ_{phys} E[phys; c] · H[phys', out_i; phys, in_i]) · B[phys'; r]`,
the sums running over the physical legs of all nodes other than `i`.
PARTIAL: the site must be the root.  For a non-root site the block toward the parent is the sandwich of the
COMPLEMENT of the site's subtree; that its record is the sandwich record of the complement is the hypothesis `hbb`
of the record-level theorem `site_heff_is_projected_hamiltonian` (which covers every site) and is not derived from
the tree model here (it needs the top-down block recursion `contract_any` toward a child, C04 `op_any_general`, iterated). -/
theorem site_heff_projected_tree_root_partial (i : Nat) (ks : List Tree) (hnd : (Tree.node i ks).ids.Nodup)
    (opKids : List Nat) (hperm : opKids.Perm (ks.map Tree.id)) :
    ∃ m : Mat, getEffectiveSingleSiteHamiltonianNodes ⟨none, ks.map Tree.id⟩ ⟨none, opKids⟩
        (gOpT i ⟨none, opKids⟩) (fun n => soKidBlock ks i (n, i)) = some m ∧
      m.rows = (ks.map Tree.id).map (fun n => Leg.gBra n i) ++ [Leg.gOpOut i] ∧
      m.cols = (ks.map Tree.id).map (fun n => Leg.gKet n i) ++ [Leg.gOpIn i] ∧
      ∀ (dim : Leg → Nat) (e E H B : Expr Leg R), e.SWF → E.WF → H.WF → B.WF →
        (∀ l ∈ E.labels, l ∉ H.labels) → (∀ l ∈ E.labels, l ∉ B.labels) → (∀ l ∈ H.labels, l ∉ B.labels) →
        e.binds.Perm m.binds →
        (unordL E.binds).Perm (unordL ((ks.flatMap Tree.edges).map fun e => ketEdge e.1 e.2)) →
        (unordL H.binds).Perm (unordL ((Tree.node i ks).edges.map fun e => opEdge e.1 e.2)) →
        (unordL B.binds).Perm (unordL ((ks.flatMap Tree.edges).map fun e => braEdge e.1 e.2)) →
        (∀ n ∈ Tree.idsL ks, Leg.gKetPhys n ∈ E.free ∧ Leg.gOpIn n ∈ H.free ∧ Leg.gOpOut n ∈ H.free ∧
          Leg.gBraPhys n ∈ B.free) →
        (∀ p ∈ projSpec ((Tree.idsL ks).map physOut) ((Tree.idsL ks).map physIn) E.binds H.binds B.binds,
          dim p.1 = dim p.2) →
        (∀ σ, e.leafProd σ = E.leafProd σ * H.leafProd σ * B.leafProd σ) →
        ∀ σ, e.eval dim σ =
          sumPairs dim ((Tree.idsL ks).map physOut)
            (fun τ => sumPairs dim ((Tree.idsL ks).map physIn) (fun ρ => E.eval dim ρ * H.eval dim ρ) τ *
              B.eval dim τ) σ := by
  have hndL : (Tree.idsL ks).Nodup := by
    simp only [Tree.ids, List.nodup_cons] at hnd; exact hnd.2
  have hkid : (ks.map Tree.id).Nodup := Tree.nodup_kid_ids ks hndL
  -- the components: the subtrees of the kids
  let pout := ofKid ks (fun c => c.ids.map physOut)
  let pin := ofKid ks (fun c => c.ids.map physIn)
  let kb := ofKid ks (fun c => c.edges.map fun e => ketEdge e.1 e.2)
  let ob := ofKid ks (fun c => c.edges.map fun e => opEdge e.1 e.2)
  let brb := ofKid ks (fun c => c.edges.map fun e => braEdge e.1 e.2)
  have hmem : ∀ n ∈ opKids, n ∈ ks.map Tree.id := fun n hn => hperm.mem_iff.1 hn
  obtain ⟨m, hm, hr, hc, hval⟩ := site_heff_is_projected_hamiltonian (R := R) i ⟨none, ks.map Tree.id⟩ ⟨none, opKids⟩
    (soBbOf ks) (fun n => soKidBlock ks i (n, i)) (by simpa [Node.nbrs] using hkid)
    (by simpa [Node.nbrs] using hperm)
    (fun n hn => by
      have hn' : n ∈ opKids := by simpa [Node.nbrs] using hn
      rw [soKidBlock_of_mem ks i n (hmem n hn')]; rfl)
    pout pin kb ob brb
    (fun n hn => by
      have hn' : n ∈ opKids := by simpa [Node.nbrs] using hn
      obtain ⟨c, _, _, hf⟩ := ofKid_of_mem (β := Leg × Leg) ks n (hmem n hn')
      simp only [compRecord, pout, pin, kb, ob, brb, soBbOf_eq_ofKid, hf]
      exact unordL_perm (soBlockBinds_perm_comp c))
  refine ⟨m, hm, by simpa [Node.nbrs] using hr, by simpa [Node.nbrs] using hc, ?_⟩
  intro dim e E H B he hE hH hB hEH hEB hHB heb hEb hHb hBb hfree hdim hleaf σ
  have hnb : (⟨none, opKids⟩ : Node).nbrs = opKids := by simp [Node.nbrs]
  -- the flattened lists in the operator node's order against the tree's order
  have hPout : (opKids.flatMap pout).Perm ((Tree.idsL ks).map physOut) := by
    refine (flatMap_ofKid_perm _ ks opKids hkid hperm).trans ?_
    rw [idsL_eq_flatMap, List.map_flatMap]
  have hPin : (opKids.flatMap pin).Perm ((Tree.idsL ks).map physIn) := by
    refine (flatMap_ofKid_perm _ ks opKids hkid hperm).trans ?_
    rw [idsL_eq_flatMap, List.map_flatMap]
  have hKb : (opKids.flatMap kb).Perm ((ks.flatMap Tree.edges).map fun e => ketEdge e.1 e.2) := by
    refine (flatMap_ofKid_perm _ ks opKids hkid hperm).trans ?_
    rw [List.map_flatMap]
  have hOb : (opKids.flatMap ob).Perm ((ks.flatMap Tree.edges).map fun e => opEdge e.1 e.2) := by
    refine (flatMap_ofKid_perm _ ks opKids hkid hperm).trans ?_
    rw [List.map_flatMap]
  have hBrb : (opKids.flatMap brb).Perm ((ks.flatMap Tree.edges).map fun e => braEdge e.1 e.2) := by
    refine (flatMap_ofKid_perm _ ks opKids hkid hperm).trans ?_
    rw [List.map_flatMap]
  have hOpAll : (unordL (opPairs i opKids ++ opKids.flatMap ob)).Perm
      (unordL ((Tree.node i ks).edges.map fun e => opEdge e.1 e.2)) := by
    have h1 : ((Tree.node i ks).edges.map fun e => opEdge e.1 e.2).Perm
        ((ks.map fun c => opEdge i c.id) ++ (ks.flatMap Tree.edges).map fun e => opEdge e.1 e.2) := by
      have := (edgesL_perm i ks).map (fun e => opEdge e.1 e.2)
      simpa [Tree.edges, List.map_append, List.map_map, Function.comp_def] using this
    refine List.Perm.trans ?_ (unordL_perm h1.symm)
    refine unordL_append_congr ?_ (unordL_perm hOb)
    have h2 : (opPairs i opKids).Perm ((ks.map fun c => opEdge i c.id).map Prod.swap) := by
      have := hperm.map (fun n => (Leg.gOp i n, Leg.gOp n i))
      simpa [opPairs, opEdge, List.map_map, Function.comp_def] using this
    exact (unordL_perm h2).trans (unordL_map_swap _)
  have hres := hval dim e E H B he hE hH hB hEH hEB hHB heb
    (by rw [hnb]; exact hEb.trans (unordL_perm hKb.symm))
    (by rw [hnb]; exact hHb.trans hOpAll.symm)
    (by rw [hnb]; exact hBb.trans (unordL_perm hBrb.symm))
    (by
      rw [hnb]
      intro p hp
      obtain ⟨n, hn, rfl⟩ := List.mem_map.1 (hPin.mem_iff.1 hp)
      exact ⟨(hfree n hn).1, (hfree n hn).2.1⟩)
    (by
      rw [hnb]
      intro p hp
      obtain ⟨n, hn, rfl⟩ := List.mem_map.1 (hPout.mem_iff.1 hp)
      refine ⟨⟨(hfree n hn).2.2.1, ?_⟩, (hfree n hn).2.2.2⟩
      intro hmem
      obtain ⟨q, hq, hq2⟩ := List.mem_map.1 hmem
      obtain ⟨n', _, rfl⟩ := List.mem_map.1 (hPin.mem_iff.1 hq)
      simp [physIn, physOut] at hq2)
    (by
      rw [hnb]
      intro p hp
      apply hdim p
      simp only [projSpec, List.mem_append] at hp ⊢
      rcases hp with hp | (hp | hp) | hp
      · exact Or.inl (hPout.mem_iff.1 hp)
      · exact Or.inr (Or.inl (Or.inl (hPin.mem_iff.1 hp)))
      · exact Or.inr (Or.inl (Or.inr hp))
      · exact Or.inr (Or.inr hp))
    hleaf σ
  rw [hres, hnb]
  rw [sumPairs_perm dim hPout ((pairLegs_perm hPout.symm).nodup_iff.1 (pairLegs_physOut_nodup _ hndL))]
  apply sumPairs_congr
  intro τ
  rw [sumPairs_perm dim hPin ((pairLegs_perm hPin.symm).nodup_iff.1 (pairLegs_physIn_nodup _ hndL))]

end Ptn.C05.Heff
