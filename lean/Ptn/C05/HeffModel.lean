import Ptn.C04.TreeModel
/-! Effective Hamiltonians of TDVP in the leg-label calculus of `Ptn.C04` (core Lean only).

Ported literally:
 contractions/effective_hamiltonians.py
  find_tensor_leg_permutation                    ↔ findTensorLegPermutation
  contract_all_except_node                       ↔ contractAllExceptNode
  get_effective_single_site_hamiltonian_nodes    ↔ getEffectiveSingleSiteHamiltonianNodes
 util/tensor_util.py
  tensor_matricisation_half                      ↔ matricisationHalf   (rows = first half of the legs)
 time_evolution/tdvp_algorithms/onesitetdvp.py
  _get_effective_link_hamiltonian                ↔ getEffectiveLinkHamiltonian
 time_evolution/tdvp_algorithms/twositetdvp.py
  _find_block_leg_target_node / _next_node       ↔ findBlockLegTargetNode / findBlockLegNextNode
  _determine_two_site_leg_permutation            ↔ determineTwoSiteLegPermutation
  _contract_all_except_two_nodes                 ↔ contractAllExceptTwoNodes
  _get_effective_two_site_hamiltonian            ↔ getEffectiveTwoSiteHamiltonian
(`contract_all_but_one_neighbour_block_to_hamiltonian` is `Ptn.C04.contractAllButOneNeighbourBlockToHamiltonian`.)
The cached blocks have the legs (ket, ham, bra) toward the node. -/
namespace Ptn.C05.Heff
open Ptn.C04

/-- `numpy.transpose(t, axes)`: `axes` must be a permutation of the axes -/
def transposeT (t : T) (axes : List Nat) : Option T :=
  if axes.length ≠ t.legs.length ∨ ¬ axes.Nodup then none        -- "axes don't match array" / "repeated axis"
  else
    match pick t.legs axes with
    | none => none                                                -- axis out of bounds
    | some legs => some ⟨legs, t.binds⟩

/-- a matrix: the legs grouped into the row index and the legs grouped into the column index -/
structure Mat where
  rows : List Leg
  cols : List Leg
  binds : List (Leg × Leg)
  deriving DecidableEq, Repr

/-- `tensor_matricisation_half` -/
def matricisationHalf (t : T) : Option Mat :=
  if t.legs.length % 2 ≠ 0 then none                              -- assert
  else some ⟨t.legs.take (t.legs.length / 2), t.legs.drop (t.legs.length / 2), t.binds⟩

/-! ### single site -/

def neighbourIndices (nd : Node) : List Nat → Option (List Nat)
  | [] => some []
  | n :: rest =>
    match nd.neighbourIndex n, neighbourIndices nd rest with
    | some h, some r => some (h :: r)
    | _, _ => none

/-- `find_tensor_leg_permutation(state_node, hamiltonian_node)` -/
def findTensorLegPermutation (stateNode hamNode : Node) : Option (List Nat) :=
  match neighbourIndices hamNode stateNode.nbrs with
  | none => none
  | some perm =>
    let outputLegs := perm.map (fun h => 2 * h + 3) ++ [0]
    let inputLegs := perm.map (fun h => 2 * h + 2) ++ [1]
    some (outputLegs ++ inputLegs)

/-- the loop of `contract_all_except_node`: `tensordot(H, cached, axes=(0,1))` for every neighbour of the
HAMILTONIAN node, in its order -/
def exceptNodeLoop (cache : Cache) : List Nat → T → Option T
  | [], h => some h
  | n :: rest, h =>
    match cache n with
    | none => none                                  -- KeyError
    | some blk =>
      match tensordot h blk [0] [1] with
      | none => none
      | some h' => exceptNodeLoop cache rest h'

def contractAllExceptNode (stateNode hamNode : Node) (ham : T) (cache : Cache) : Option T :=
  match exceptNodeLoop cache hamNode.nbrs ham with
  | none => none
  | some t =>
    match findTensorLegPermutation stateNode hamNode with
    | none => none
    | some axes => transposeT t axes

def getEffectiveSingleSiteHamiltonianNodes (stateNode hamNode : Node) (ham : T) (cache : Cache) : Option Mat :=
  match contractAllExceptNode stateNode hamNode ham cache with
  | none => none
  | some t => matricisationHalf t

/-! ### link -/

/-- `_get_effective_link_hamiltonian(node_id, next_node_id)`; `linkNode = self.state.nodes[link_id]` -/
def getEffectiveLinkHamiltonian (linkNode : Node) (nodeId nextId : Nat) (cache : Dict) : Option Mat :=
  if linkNode.parent.isNone then none                         -- assert not is_root
  else if linkNode.children.length ≠ 1 then none              -- assert one child
  else
    match cache (nodeId, nextId), cache (nextId, nodeId) with
    | some newT, some otherT =>
      let t := if nodeId ∈ linkNode.children then tensordot otherT newT [1] [1]     -- is_parent_of(node_id)
               else tensordot newT otherT [1] [1]
      match t with
      | none => none
      | some t =>
        match transposeT t [1, 3, 0, 2] with
        | none => none
        | some t' => matricisationHalf t'
    | _, _ => none

/-! ### two sites -/

def findBlockLegTargetNode (hamTarget : Node) (nextId neighbourId : Nat) : Option Nat :=
  match hamTarget.neighbourIndex nextId, hamTarget.neighbourIndex neighbourId with
  | some indexNext, some h => some (2 * (h + (if h < indexNext then 1 else 0)))
  | _, _ => none

def findBlockLegNextNode (hamTarget hamNext : Node) (targetId neighbourId : Nat) : Option Nat :=
  match findBlockLegTargetNode hamNext targetId neighbourId with
  | none => none
  | some tmp => some (2 * hamTarget.nn + tmp)

def twoSiteInputLegs (hamTarget hamNext : Node) (targetId nextId : Nat) : List Nat → Option (List Nat)
  | [] => some []
  | n :: rest =>
    let leg :=
      if n ∈ hamTarget.nbrs then findBlockLegTargetNode hamTarget nextId n
      else if n ∈ hamNext.nbrs then findBlockLegNextNode hamTarget hamNext targetId n
      else none                                      -- NotCompatibleException
    match leg, twoSiteInputLegs hamTarget hamNext targetId nextId rest with
    | some l, some r => some (l :: r)
    | _, _ => none

/-- `_determine_two_site_leg_permutation`; `twoSiteNode = self.state.nodes[two_site_id]` -/
def determineTwoSiteLegPermutation (hamTarget hamNext twoSiteNode : Node) (targetId nextId : Nat) :
    Option (List Nat) :=
  match twoSiteInputLegs hamTarget hamNext targetId nextId twoSiteNode.nbrs with
  | none => none
  | some inputLegs =>
    let outputLegs := inputLegs.map (· + 1) ++ [0, 2 * hamTarget.nn]
    let inputLegs' := inputLegs ++ [1, 2 * hamTarget.nn + 1]
    some (outputLegs ++ inputLegs')

/-- `_contract_all_except_two_nodes` -/
def contractAllExceptTwoNodes (hamTarget hamNext twoSiteNode : Node) (hT hN : T) (targetId nextId : Nat)
    (cache : Dict) : Option T :=
  match contractAllButOneNeighbourBlockToHamiltonian hT hamTarget nextId (cache.cacheOf targetId),
        contractAllButOneNeighbourBlockToHamiltonian hN hamNext targetId (cache.cacheOf nextId) with
  | some targetBlock, some nextBlock =>
    match tensordot targetBlock nextBlock [0] [0] with
    | none => none
    | some hEff =>
      match determineTwoSiteLegPermutation hamTarget hamNext twoSiteNode targetId nextId with
      | none => none
      | some axes => transposeT hEff axes
  | _, _ => none

def getEffectiveTwoSiteHamiltonian (hamTarget hamNext twoSiteNode : Node) (hT hN : T) (targetId nextId : Nat)
    (cache : Dict) : Option Mat :=
  match contractAllExceptTwoNodes hamTarget hamNext twoSiteNode hT hN targetId nextId cache with
  | none => none
  | some t => matricisationHalf t

/-- the cached block of the subtree behind `n`, seen from `i`: legs (ket, ham, bra) toward `i` -/
def gBlock (n i : Nat) (bb : List (Leg × Leg)) : T := ⟨[Leg.gKet n i, Leg.gOp n i, Leg.gBra n i], bb⟩

end Ptn.C05.Heff
