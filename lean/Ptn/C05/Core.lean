import Ptn.C05.Model
import Ptn.C05.Lemmas
/-! Property theorems for C05: signed durations of the TDVP schedules.

Units: durations are integers in half steps (`2` = `+dt`).  `segs = [(uᵢ, hᵢ)]`, `last = u_{m-1}`.
Hypotheses used:
* `hnd : (nodes segs last).Nodup` — the update path visits every node once (C17);
* `hadj : s.2 = last` for the last segment `s` — the last two nodes of the path are adjacent (C17).
The segments `{uᵢ, hᵢ}` are exactly the tree edges, each once (C17: the next hop of `uᵢ` is its
parent in the tree re-rooted at `last`); the theorems are stated per segment edge via `edgeCount`,
so with that fact "every tree edge" gets the stated total. -/
namespace Ptn.C05

/-- The nodes of the sweep in update order. -/
def nodes (segs : List Seg) (last : Nat) : List Nat := segs.map Prod.fst ++ [last]

private theorem indicator_nodes (segs : List Seg) (last v : Nat) (c : Int) :
    (segs.map fun s => if s.1 = v then c else 0).sum + (if last = v then c else 0) =
      ((nodes segs last).map fun x => if x = v then c else 0).sum := by
  simp [nodes, List.sum_append, Function.comp_def]

/-! ### First-order one-site -/

/-- Every node of the sweep is evolved for `+dt` in total. -/
theorem first_site_total (segs : List Seg) (last v : Nat) (hnd : (nodes segs last).Nodup)
    (hv : v ∈ nodes segs last) : siteTotal v (first segs last) = 2 := by
  have h := indicator_nodes segs last v 2
  rw [sum_indicator_mem _ v 2 hnd hv] at h
  simp only [siteTotal, first, tot_append, tot_flatMap, tot_cons, tot_nil, siteW]
  simpa using h

/-- Every segment edge is evolved for `-dt` in total (per occurrence among the segments). -/
theorem first_link_total (segs : List Seg) (last a b : Nat) :
    linkTotal a b (first segs last) = -2 * edgeCount a b segs := by
  simp only [linkTotal, first, tot_append, tot_flatMap, tot_cons, tot_nil, linkW, edgeCount]
  rw [← sum_map_mul_const]
  simp only [Int.zero_add, Int.add_zero]
  congr 1
  apply List.map_congr_left
  intro s _
  split <;> simp

/-- The signed durations of one step sum to `dt`. -/
theorem first_sum (segs : List Seg) (last : Nat) : durTotal (first segs last) = 2 := by
  simp only [durTotal, first, tot_append, tot_flatMap, tot_cons, tot_nil, Ev.dur]
  have : (segs.map fun _ => ((2 : Int) + ((-2) + 0))).sum = 0 := by
    rw [sum_map_const]; simp
  rw [this]; rfl

/-! ### Second-order one-site -/

theorem second_defined (init : List Seg) (s : Seg) (last : Nat) :
    second (init ++ [s]) last = some
      ((init ++ [s]).flatMap (fun s => [Ev.site s.1 1, Ev.link s.1 s.2 (-1)])
        ++ [Ev.site last 2]
        ++ [Ev.link last s.1 (-1), Ev.site s.1 1]
        ++ init.reverse.flatMap (fun t => [Ev.link t.2 t.1 (-1), Ev.site t.1 1])) := by
  simp [second]

theorem second_site_total (init : List Seg) (s : Seg) (last v : Nat)
    (hnd : (nodes (init ++ [s]) last).Nodup) (hv : v ∈ nodes (init ++ [s]) last) :
    ∃ tr, second (init ++ [s]) last = some tr ∧ siteTotal v tr = 2 := by
  refine ⟨_, second_defined init s last, ?_⟩
  have h := indicator_nodes (init ++ [s]) last v 2
  rw [sum_indicator_mem _ v 2 hnd hv] at h
  simp only [siteTotal, tot_append, tot_flatMap, tot_cons, tot_nil, siteW, sum_map_reverse]
  simp only [List.map_append, List.sum_append, List.map_cons, List.map_nil, List.sum_cons,
    List.sum_nil] at h ⊢
  have e1 : (init.map fun s => (if s.1 = v then (2 : Int) else 0)).sum =
      (init.map fun s => (if s.1 = v then (1 : Int) else 0) + 0).sum +
      (init.map fun s => (0 : Int) + ((if s.1 = v then 1 else 0) + 0)).sum := by
    rw [← sum_map_add]
    congr 1
    apply List.map_congr_left
    intro t _
    split <;> simp
  rw [e1] at h
  by_cases h1 : s.1 = v <;> by_cases h2 : last = v <;> simp [h1, h2] at h ⊢ <;> omega

theorem second_link_total (init : List Seg) (s : Seg) (last a b : Nat) (hadj : s.2 = last) :
    ∃ tr, second (init ++ [s]) last = some tr ∧
      linkTotal a b tr = -2 * edgeCount a b (init ++ [s]) := by
  refine ⟨_, second_defined init s last, ?_⟩
  simp only [linkTotal, tot_append, tot_flatMap, tot_cons, tot_nil, linkW, edgeCount,
    sum_map_reverse]
  simp only [List.map_append, List.sum_append, List.map_cons, List.map_nil, List.sum_cons,
    List.sum_nil]
  have e1 : (init.map fun t => (0 : Int) + ((if sameEdge a b t.1 t.2 = true then -1 else 0) + 0)).sum
      = -1 * (init.map fun t => if sameEdge a b t.1 t.2 = true then (1 : Int) else 0).sum :=
    sum_map_scale _ _ (-1) init (by
      intro t; by_cases h : sameEdge a b t.1 t.2 = true <;> simp [h])
  have e2 : (init.map fun t => (if sameEdge a b t.2 t.1 = true then (-1 : Int) else 0) + (0 + 0)).sum
      = -1 * (init.map fun t => if sameEdge a b t.1 t.2 = true then (1 : Int) else 0).sum :=
    sum_map_scale _ _ (-1) init (by
      intro t; rw [sameEdge_symm a b t.2 t.1]
      by_cases h : sameEdge a b t.1 t.2 = true <;> simp [h])
  rw [e1, e2]
  rw [← hadj, sameEdge_symm a b s.2 s.1]
  by_cases h : sameEdge a b s.1 s.2 = true <;> simp [h] <;> omega

theorem second_sum (init : List Seg) (s : Seg) (last : Nat) :
    ∃ tr, second (init ++ [s]) last = some tr ∧ durTotal tr = 2 := by
  refine ⟨_, second_defined init s last, ?_⟩
  simp only [durTotal, tot_append, tot_flatMap, tot_cons, tot_nil, Ev.dur, sum_map_reverse]
  simp only [List.map_append, List.sum_append, List.map_cons, List.map_nil, List.sum_cons,
    List.sum_nil]
  have z1 : (init.map fun _ => ((1 : Int) + ((-1) + 0))).sum = 0 := by
    rw [sum_map_const]; simp
  have z2 : (init.map fun _ => ((-1 : Int) + (1 + 0))).sum = 0 := by
    rw [sum_map_const]; simp
  rw [z1, z2]; rfl

/-- The second-order schedule is a palindrome in (kind, position, duration) once the full step on
    the last node is read as two adjacent half steps: the backward sweep is the mirror image of
    the forward sweep. -/
theorem second_palindromic (init : List Seg) (s : Seg) (last : Nat) (hadj : s.2 = last) :
    let fwd := (init ++ [s]).flatMap (fun s => [Ev.site s.1 1, Ev.link s.1 s.2 (-1)])
    let bwd := [Ev.link last s.1 (-1), Ev.site s.1 1]
        ++ init.reverse.flatMap (fun t => [Ev.link t.2 t.1 (-1), Ev.site t.1 1])
    bwd = fwd.reverse.map (fun e => match e with
      | .link a b d => .link b a d
      | e => e) := by
  intro fwd bwd
  simp only [fwd, bwd, List.flatMap_append, List.flatMap_cons, List.flatMap_nil, List.append_nil,
    List.reverse_append, List.reverse_cons, List.reverse_nil, List.nil_append, List.map_append,
    List.map_cons, List.map_nil, hadj]
  congr 1
  induction init with
  | nil => rfl
  | cons t rest ih =>
    simp only [List.reverse_cons, List.flatMap_append, List.flatMap_cons, List.flatMap_nil,
      List.append_nil, List.reverse_append, List.reverse_nil, List.nil_append, List.map_append,
      List.map_cons, List.map_nil, ih]
    simp

/-! ### Second-order two-site -/

theorem twoSite_defined (init : List Seg) (s : Seg) (last : Nat) :
    twoSite (init ++ [s]) last = some
      (init.flatMap (fun t => [Ev.two t.1 t.2 1, Ev.site t.2 (-1)])
        ++ [Ev.two s.1 last 1]
        ++ [Ev.two last s.1 1]
        ++ init.reverse.flatMap (fun t => [Ev.site t.2 (-1), Ev.two t.2 t.1 1])) := by
  simp [twoSite]

/-- Every segment edge is evolved for `+dt` in total. -/
theorem twoSite_edge_total (init : List Seg) (s : Seg) (last a b : Nat) (hadj : s.2 = last) :
    ∃ tr, twoSite (init ++ [s]) last = some tr ∧
      twoTotal a b tr = 2 * edgeCount a b (init ++ [s]) := by
  refine ⟨_, twoSite_defined init s last, ?_⟩
  simp only [twoTotal, tot_append, tot_flatMap, tot_cons, tot_nil, twoW, edgeCount,
    sum_map_reverse]
  simp only [List.map_append, List.sum_append, List.map_cons, List.map_nil, List.sum_cons,
    List.sum_nil]
  have e1 : (init.map fun t => (if sameEdge a b t.1 t.2 = true then (1 : Int) else 0) + (0 + 0)).sum
      = (init.map fun t => if sameEdge a b t.1 t.2 = true then (1 : Int) else 0).sum := by
    congr 1; apply List.map_congr_left; intro t _; simp
  have e2 : (init.map fun t => (0 : Int) + ((if sameEdge a b t.2 t.1 = true then 1 else 0) + 0)).sum
      = (init.map fun t => if sameEdge a b t.1 t.2 = true then (1 : Int) else 0).sum := by
    congr 1; apply List.map_congr_left; intro t _
    rw [sameEdge_symm a b t.2 t.1]; simp
  rw [e1, e2, ← hadj, sameEdge_symm a b s.2 s.1]
  by_cases h : sameEdge a b s.1 s.2 = true <;> simp [h] <;> omega

/-- Every node is evolved for `-(degree - 1)·dt` in total, the degree being taken in the edge
    list of the segments (the tree). -/
theorem twoSite_site_total (init : List Seg) (s : Seg) (last v : Nat) (hadj : s.2 = last)
    (hnd : (nodes (init ++ [s]) last).Nodup) (hv : v ∈ nodes (init ++ [s]) last) :
    ∃ tr, twoSite (init ++ [s]) last = some tr ∧
      siteTotal v tr = -2 * (degree v (init ++ [s]) - 1) := by
  refine ⟨_, twoSite_defined init s last, ?_⟩
  have h := indicator_nodes (init ++ [s]) last v 1
  rw [sum_indicator_mem _ v 1 hnd hv] at h
  simp only [siteTotal, tot_append, tot_flatMap, tot_cons, tot_nil, siteW, degree,
    sum_map_reverse]
  simp only [List.map_append, List.sum_append, List.map_cons, List.map_nil, List.sum_cons,
    List.sum_nil] at h ⊢
  have hdeg := sum_map_add (fun t : Seg => if t.1 = v then (1 : Int) else 0)
    (fun t : Seg => if t.2 = v then (1 : Int) else 0) init
  have e1 : (init.map fun t => (0 : Int) + ((if t.2 = v then -1 else 0) + 0)).sum
      = -1 * (init.map fun t => if t.2 = v then (1 : Int) else 0).sum :=
    sum_map_scale _ _ (-1) init (by intro t; by_cases h : t.2 = v <;> simp [h])
  have e2 : (init.map fun t => (if t.2 = v then (-1 : Int) else 0) + (0 + 0)).sum
      = -1 * (init.map fun t => if t.2 = v then (1 : Int) else 0).sum :=
    sum_map_scale _ _ (-1) init (by intro t; by_cases h : t.2 = v <;> simp [h])
  rw [e1, e2, hdeg]
  rw [hadj]
  by_cases h1 : s.1 = v <;> by_cases h2 : last = v <;> simp [h1, h2] at h ⊢ <;> omega

theorem twoSite_sum (init : List Seg) (s : Seg) (last : Nat) :
    ∃ tr, twoSite (init ++ [s]) last = some tr ∧ durTotal tr = 2 := by
  refine ⟨_, twoSite_defined init s last, ?_⟩
  simp only [durTotal, tot_append, tot_flatMap, tot_cons, tot_nil, Ev.dur, sum_map_reverse]
  have z1 : (init.map fun _ => ((1 : Int) + ((-1) + 0))).sum = 0 := by
    rw [sum_map_const]; simp
  have z2 : (init.map fun _ => ((-1 : Int) + (1 + 0))).sum = 0 := by
    rw [sum_map_const]; simp
  rw [z1, z2]; rfl

/-! ### Non-vacuity: a star with centre 0 and leaves 1,2,3 swept 1,2,3→…; chain 0-1-2 -/

example : (nodes [(1, 0), (2, 0), (0, 3)] 3).Nodup ∧ ((0, 3) : Seg).2 = 3 := by decide
example : siteTotal 0 (first [(1, 0), (2, 0), (0, 3)] 3) = 2 := by decide
example : (second [(1, 0), (2, 0), (0, 3)] 3).map (linkTotal 0 2) = some (-2) := by decide
example : (twoSite [(1, 0), (2, 0), (0, 3)] 3).map (siteTotal 0) = some (-4) := by decide
example : degree 0 [(1, 0), (2, 0), (0, 3)] = 3 := by decide

end Ptn.C05
