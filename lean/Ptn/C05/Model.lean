/-! Model for property C05 (core Lean only; no Mathlib). -/
namespace Ptn.C05
end Ptn.C05
