/-! Model for property C05: the schedule of local updates of the three TDVP variants with their
signed durations (core Lean only).

Input of the model: the *segments* of the sweep.  For an update path `u₀ … u_{m-1}` (C17) and
`hᵢ` = the first node after `uᵢ` on the tree path from `uᵢ` to `uᵢ₊₁`
(`orthogonalization_path[i][0]`), `segs = [(u₀,h₀), …, (u_{m-2},h_{m-2})]` and `last = u_{m-1}`.

Durations are integers in units of `dt/2` ("half steps"), so `2` is `+dt`, `-1` is `-dt/2`.

* `first`   ↔ `FirstOrderOneSiteTDVP.run_one_time_step`
* `second`  ↔ `SecondOrderOneSiteTDVP.run_one_time_step` (forward sweep, final forward update,
               backward sweep)
* `twoSite` ↔ `SecondOrderTwoSiteTDVP.run_one_time_step`
Only the calls of the local propagator are recorded (centre moves and cache refreshes are not
events).  The backward sweeps use that the tree path from `uᵢ₊₁` back to `uᵢ` ends `…, hᵢ, uᵢ`
(paths in a tree are unique and symmetric — C17). -/
namespace Ptn.C05

inductive Ev where
  | site (v : Nat) (d : Int)          -- single-site update of node v
  | link (a b : Nat) (d : Int)        -- link (bond) update between a (old centre) and b
  | two (a b : Nat) (d : Int)         -- two-site update of a (old centre) and b
deriving Repr, DecidableEq

abbrev Seg := Nat × Nat

/-- First-order one-site sweep: site `+dt` then link `-dt` for every segment, final site `+dt`. -/
def first (segs : List Seg) (last : Nat) : List Ev :=
  segs.flatMap (fun s => [Ev.site s.1 2, Ev.link s.1 s.2 (-2)]) ++ [Ev.site last 2]

/-- Second-order one-site: forward half steps, full step on the last node, mirrored backward
    half steps.  Undefined (`none`) for a single node: the code indexes
    `backwards_update_path[1]`. -/
def second (segs : List Seg) (last : Nat) : Option (List Ev) :=
  match segs.reverse with
  | [] => none
  | s :: rest =>
    some (segs.flatMap (fun s => [Ev.site s.1 1, Ev.link s.1 s.2 (-1)])
      ++ [Ev.site last 2]
      ++ [Ev.link last s.1 (-1), Ev.site s.1 1]
      ++ rest.flatMap (fun t => [Ev.link t.2 t.1 (-1), Ev.site t.1 1]))

/-- Second-order two-site: forward `two +dt/2` on every segment followed by a single-site
    backward half step on the *next* node (not after the last pair), mirrored on the way back. -/
def twoSite (segs : List Seg) (last : Nat) : Option (List Ev) :=
  match segs.reverse with
  | [] => none
  | s :: rinit =>
    some (rinit.reverse.flatMap (fun t => [Ev.two t.1 t.2 1, Ev.site t.2 (-1)])
      ++ [Ev.two s.1 last 1]
      ++ [Ev.two last s.1 1]
      ++ rinit.flatMap (fun t => [Ev.site t.2 (-1), Ev.two t.2 t.1 1]))

/-! Totals -/

def sameEdge (a b x y : Nat) : Bool := (a == x && b == y) || (a == y && b == x)

def Ev.dur : Ev → Int
  | .site _ d => d
  | .link _ _ d => d
  | .two _ _ d => d

def siteW (v : Nat) : Ev → Int
  | .site w d => if w = v then d else 0
  | _ => 0

def linkW (a b : Nat) : Ev → Int
  | .link x y d => if sameEdge a b x y then d else 0
  | _ => 0

def twoW (a b : Nat) : Ev → Int
  | .two x y d => if sameEdge a b x y then d else 0
  | _ => 0

/-- Sum of a weight over a trace. -/
def tot (w : Ev → Int) (tr : List Ev) : Int := (tr.map w).sum

def siteTotal (v : Nat) (tr : List Ev) : Int := tot (siteW v) tr
def linkTotal (a b : Nat) (tr : List Ev) : Int := tot (linkW a b) tr
def twoTotal (a b : Nat) (tr : List Ev) : Int := tot (twoW a b) tr

def durTotal (tr : List Ev) : Int := tot Ev.dur tr

/-- Number of segments that are the (unordered) edge `{a,b}`. -/
def edgeCount (a b : Nat) (segs : List Seg) : Int :=
  (segs.map fun s => if sameEdge a b s.1 s.2 then (1 : Int) else 0).sum

/-- Number of segments (except the last one) whose second component is `v`. -/
def hopCount (v : Nat) (segs : List Seg) : Int :=
  (segs.map fun s => if s.2 = v then (1 : Int) else 0).sum

/-- Degree of `v` in the edge list. -/
def degree (v : Nat) (segs : List Seg) : Int :=
  (segs.map fun s => (if s.1 = v then (1 : Int) else 0) + (if s.2 = v then 1 else 0)).sum

end Ptn.C05
