import Ptn.Common.EinsumBuilt
/-! Generic composition lemmas for the value level of the effective Hamiltonians (C05), over an arbitrary
commutative semiring, any number of factors:

* `Expr.fullL_eq`       the product of the big sums of pairwise label-disjoint sub-networks is the big sum, over the
                        union of their binding records, of the product of all their leaves (the `n`-ary form of
                        `Expr.full_mul_full`);
* `Expr.net_of_record`  **composition**: a strongly well-formed contraction program whose binding record is, up to
                        order, `pp` together with the records of the sub-networks `xs` and whose leaves are the
                        leaves of `xs` evaluates to `Σ_pp Π_x x.eval` — the sub-networks may be contracted first,
                        each by ANY program of its own, and then joined over `pp`;
* perm bookkeeping for records (`flatMap_append_perm'`, `unordL_append_perm`, `unordL_flatMap_perm`).
-/
namespace Ptn.Ein

set_option linter.unusedSectionVars false
variable {L : Type} [DecidableEq L] {R : Type} [CommSemiring R]

namespace Expr

/-- the sub-networks use pairwise disjoint leg labels -/
def LabelsDisjoint (xs : List (Expr L R)) : Prop :=
  xs.Pairwise (fun a b => ∀ l ∈ a.labels, l ∉ b.labels)

/-- product of the leaf products / of the values of a list of sub-networks -/
def leafProdL (xs : List (Expr L R)) (σ : Asg L) : R := prodL (xs.map (fun x => x.leafProd σ))
def evalL (dim : L → Nat) (xs : List (Expr L R)) (σ : Asg L) : R := prodL (xs.map (fun x => x.eval dim σ))
/-- union of the binding records / labels -/
def bindsL (xs : List (Expr L R)) : List (L × L) := xs.flatMap binds
def labelsL (xs : List (Expr L R)) : List L := xs.flatMap labels

theorem leafProdL_cons (x : Expr L R) (xs : List (Expr L R)) (σ : Asg L) :
    leafProdL (x :: xs) σ = x.leafProd σ * leafProdL xs σ := rfl

theorem evalL_cons (dim : L → Nat) (x : Expr L R) (xs : List (Expr L R)) (σ : Asg L) :
    evalL dim (x :: xs) σ = x.eval dim σ * evalL dim xs σ := rfl

theorem leafProdL_dependsOn (xs : List (Expr L R)) (h : ∀ x ∈ xs, x.WF) :
    DependsOn (· ∈ labelsL xs) (leafProdL xs) := by
  induction xs with
  | nil => intro σ τ _; rfl
  | cons x xs ih =>
    have h1 : DependsOn (· ∈ labelsL (x :: xs)) x.leafProd :=
      (leafProd_dependsOn x (h x (by simp))).mono (fun l hl => by simp [labelsL, hl])
    have h2 : DependsOn (· ∈ labelsL (x :: xs)) (leafProdL xs) :=
      (ih (fun y hy => h y (by simp [hy]))).mono (fun l hl => by
        simp only [labelsL, List.flatMap_cons, List.mem_append] at hl ⊢; exact Or.inr hl)
    exact h1.mul h2

theorem bindsL_sub_labelsL (xs : List (Expr L R)) (h : ∀ x ∈ xs, x.WF) :
    ∀ l ∈ pairLegs (bindsL xs), l ∈ labelsL xs := by
  induction xs with
  | nil => intro l hl; simp [bindsL, pairLegs] at hl
  | cons x xs ih =>
    intro l hl
    simp only [bindsL, List.flatMap_cons] at hl
    rw [mem_pairLegs_append] at hl
    simp only [labelsL, List.flatMap_cons, List.mem_append]
    rcases hl with hl | hl
    · exact Or.inl (binds_sub_labels x (h x (by simp)) l hl)
    · exact Or.inr (ih (fun y hy => h y (by simp [hy])) l hl)

theorem labelsL_disjoint_head {x : Expr L R} {xs : List (Expr L R)} (h : LabelsDisjoint (x :: xs)) :
    ∀ l ∈ x.labels, l ∉ labelsL xs := by
  intro l hl hl'
  simp only [labelsL, List.mem_flatMap] at hl'
  obtain ⟨y, hy, hly⟩ := hl'
  exact (List.pairwise_cons.1 h).1 y hy l hl hly

/-- **The product of the big sums of disjoint sub-networks is the big sum of the joint network.** -/
theorem fullL_eq (dim : L → Nat) (xs : List (Expr L R)) (hwf : ∀ x ∈ xs, x.WF) (hdis : LabelsDisjoint xs)
    (σ : Asg L) :
    sumPairs dim (bindsL xs) (leafProdL xs) σ = prodL (xs.map (fun x => x.full dim σ)) := by
  induction xs generalizing σ with
  | nil => rfl
  | cons x xs ih =>
    have hwf' : ∀ y ∈ xs, y.WF := fun y hy => hwf y (by simp [hy])
    have hdis' : LabelsDisjoint xs := (List.pairwise_cons.1 hdis).2
    have hx := hwf x (by simp)
    have hhead := labelsL_disjoint_head hdis
    show sumPairs dim (x.binds ++ bindsL xs) (fun σ => x.leafProd σ * leafProdL xs σ) σ = _
    rw [sumPairs_append]
    have h1 : ∀ τ, sumPairs dim (bindsL xs) (fun σ => x.leafProd σ * leafProdL xs σ) τ
        = x.leafProd τ * sumPairs dim (bindsL xs) (leafProdL xs) τ := by
      intro τ
      exact sumPairs_mul_left dim (bindsL xs) (leafProdL xs) x.leafProd (leafProd_dependsOn x hx)
        (fun l hl hlx => hhead l hlx (bindsL_sub_labelsL xs hwf' l hl)) τ
    rw [sumPairs_congr dim x.binds h1]
    have hg : DependsOn (· ∈ labelsL xs) (sumPairs dim (bindsL xs) (leafProdL xs)) :=
      (sumPairs_dependsOn dim (bindsL xs) (leafProdL_dependsOn xs hwf')).mono (fun l hl => hl.1)
    rw [sumPairs_mul_right dim x.binds x.leafProd _ hg
      (fun l hl hlb => hhead l (binds_sub_labels x hx l hl) hlb) σ, ih hwf' hdis']
    rfl

/-- **Composition.**  `xs` are well-formed nestings with pairwise disjoint labels (sub-networks, each contracted by
any program of its own), `pp` any list of pairs.  Every strongly well-formed program `e` over the same leaf tensors
whose binding record is, up to order, `pp` together with the records of the `xs` evaluates to the sum over one
common index per pair of `pp` of the product of the values of the sub-networks. -/
theorem net_of_record (dim : L → Nat) (e : Expr L R) (xs : List (Expr L R)) (he : e.SWF)
    (hwf : ∀ x ∈ xs, x.WF) (hdis : LabelsDisjoint xs) (pp : List (L × L))
    (hrec : e.binds.Perm (pp ++ bindsL xs)) (hleaf : ∀ σ, e.leafProd σ = leafProdL xs σ) (σ : Asg L) :
    e.eval dim σ = sumPairs dim pp (evalL dim xs) σ := by
  rw [eval_eq_full dim e he.wf]
  simp only [full]
  rw [sumPairs_perm dim hrec (binds_nodup e he), sumPairs_congr dim _ hleaf, sumPairs_append]
  apply sumPairs_congr
  intro τ
  rw [fullL_eq dim xs hwf hdis τ]
  simp only [evalL]
  congr 1
  apply List.map_congr_left
  intro x hx
  exact (eval_eq_full dim x (hwf x hx) τ).symm

theorem leafProdL_append (xs ys : List (Expr L R)) (σ : Asg L) :
    leafProdL (xs ++ ys) σ = leafProdL xs σ * leafProdL ys σ := by
  simp [leafProdL, prodL_append]

theorem evalL_append (dim : L → Nat) (xs ys : List (Expr L R)) (σ : Asg L) :
    evalL dim (xs ++ ys) σ = evalL dim xs σ * evalL dim ys σ := by
  simp [evalL, prodL_append]

theorem bindsL_append (xs ys : List (Expr L R)) : bindsL (xs ++ ys) = bindsL xs ++ bindsL ys := by
  simp [bindsL]

/-- a leaf tensor is its own value -/
theorem evalL_map_leaf (dim : L → Nat) (ns : List Nat) (legs : Nat → List L) (v : Nat → Asg L → R) (σ : Asg L) :
    evalL dim (ns.map fun n => leaf (legs n) (v n)) σ = prodL (ns.map fun n => v n σ) := by
  simp [evalL, eval, List.map_map, Function.comp_def]

end Expr

/-! ### bookkeeping for records -/

theorem flatMap_append_perm' {α β : Type} (l : List α) (f g : α → List β) :
    (l.flatMap fun x => f x ++ g x).Perm (l.flatMap f ++ l.flatMap g) := by
  induction l with
  | nil => exact List.Perm.refl _
  | cons a as ih =>
    simp only [List.flatMap_cons, List.append_assoc]
    refine List.Perm.append_left _ ?_
    refine (List.Perm.append_left _ ih).trans ?_
    rw [← List.append_assoc, ← List.append_assoc]
    exact List.Perm.append_right _ List.perm_append_comm

theorem flatMap_perm_congr {α β : Type} (l : List α) {f g : α → List β} (h : ∀ a ∈ l, (f a).Perm (g a)) :
    (l.flatMap f).Perm (l.flatMap g) := by
  induction l with
  | nil => exact List.Perm.refl _
  | cons a as ih =>
    simp only [List.flatMap_cons]
    exact List.Perm.append (h a (by simp)) (ih (fun x hx => h x (by simp [hx])))

/-- the record `⋃_n (bb n ++ [pair n])` is, up to order, the pairs followed by the records of the blocks -/
theorem record_perm (ns : List Nat) (bb : Nat → List (L × L)) (K : Nat → Expr L R) (pair : Nat → L × L)
    (h : ∀ n ∈ ns, (K n).binds.Perm (bb n)) :
    (ns.flatMap fun n => bb n ++ [pair n]).Perm (ns.map pair ++ Expr.bindsL (ns.map K)) := by
  refine (flatMap_append_perm' ns bb (fun n => [pair n])).trans ?_
  refine List.perm_append_comm.trans ?_
  refine List.Perm.append ?_ ?_
  · have : ∀ l : List Nat, l.flatMap (fun n => [pair n]) = l.map pair := by
      intro l
      induction l with
      | nil => rfl
      | cons a as ih => simp [List.flatMap_cons, ih]
    rw [this]
  · simp only [Expr.bindsL, List.flatMap_map]
    exact flatMap_perm_congr ns (fun n hn => (h n hn).symm)

theorem perm_shuffle {α : Type} (a b c d q : List α) :
    (((a ++ b) ++ (c ++ d)) ++ q).Perm (((a ++ c) ++ q) ++ (b ++ d)) := by
  have h1 : ((a ++ b) ++ (c ++ d)).Perm ((a ++ c) ++ (b ++ d)) := by
    rw [List.append_assoc, List.append_assoc]
    refine List.Perm.append_left _ ?_
    rw [← List.append_assoc, ← List.append_assoc]
    exact List.Perm.append_right _ List.perm_append_comm
  refine (List.Perm.append_right q h1).trans ?_
  rw [List.append_assoc, List.append_assoc (a ++ c)]
  exact List.Perm.append_left _ List.perm_append_comm

theorem unordL_append_perm (a b : List (L × L)) : (unordL (a ++ b)).Perm (unordL a ++ unordL b) := by
  simp only [unordL, List.map_append, List.append_assoc]
  refine List.Perm.append_left _ ?_
  rw [← List.append_assoc, ← List.append_assoc]
  exact List.Perm.append_right _ List.perm_append_comm

theorem unordL_flatMap_perm {α : Type} (l : List α) (f g : α → List (L × L))
    (h : ∀ x ∈ l, (unordL (f x)).Perm (unordL (g x))) : (unordL (l.flatMap f)).Perm (unordL (l.flatMap g)) := by
  induction l with
  | nil => exact List.Perm.refl _
  | cons a as ih =>
    simp only [List.flatMap_cons]
    refine (unordL_append_perm _ _).trans (List.Perm.trans ?_ (unordL_append_perm _ _).symm)
    exact List.Perm.append (h a (by simp)) (ih (fun x hx => h x (by simp [hx])))

theorem unordL_append_congr {a a' b b' : List (L × L)} (h1 : (unordL a).Perm (unordL a'))
    (h2 : (unordL b).Perm (unordL b')) : (unordL (a ++ b)).Perm (unordL (a' ++ b')) :=
  (unordL_append_perm a b).trans ((List.Perm.append h1 h2).trans (unordL_append_perm a' b').symm)

theorem flatMap5_perm {α β : Type} (l : List α) (a b c d f : α → List β) (q : α → β) :
    (l.flatMap fun n => (a n ++ (b n ++ (c n ++ (d n ++ f n)))) ++ [q n]).Perm
      ((l.flatMap a ++ (l.flatMap b ++ (l.flatMap c ++ (l.flatMap d ++ l.flatMap f)))) ++ l.map q) := by
  have hq : ∀ l : List α, l.flatMap (fun n => [q n]) = l.map q := by
    intro l
    induction l with
    | nil => rfl
    | cons x xs ih => simp [List.flatMap_cons, ih]
  refine (flatMap_append_perm' l _ _).trans ?_
  rw [hq]
  refine List.Perm.append_right _ ?_
  refine (flatMap_append_perm' l _ _).trans (List.Perm.append_left _ ?_)
  refine (flatMap_append_perm' l _ _).trans (List.Perm.append_left _ ?_)
  refine (flatMap_append_perm' l _ _).trans (List.Perm.append_left _ ?_)
  exact flatMap_append_perm' l _ _

end Ptn.Ein
