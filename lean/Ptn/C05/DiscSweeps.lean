import Ptn.C05.DiscSeq
/-! The sweeps of the three TDVP variants as sequences of events: each runs from the first node of
its list to the last one, never reads a stale block and keeps the invariant after every event. -/
namespace Ptn.C05.Disc
open Ptn.C17 Ptn.C17.RTree

theorem chain_append_left {R : Nat → Nat → Prop} : ∀ {l1 l2 : List Nat}, Chain R (l1 ++ l2) →
    Chain R l1
  | [], _, _ => by simp [Chain]
  | [_], _, _ => by simp [Chain]
  | a :: b :: l1, l2, h => by
    have h' := chain_cons_cons.mp (by simpa using h)
    exact chain_cons_cons.mpr ⟨h'.1, chain_append_left (l1 := b :: l1) (by simpa using h'.2)⟩

theorem chain_last_step {R : Nat → Nat → Prop} : ∀ {q : List Nat} {c b : Nat},
    Chain R (q ++ [b]) → q.getLast? = some c → R c b
  | [], _, _, _, h => by simp at h
  | [a], c, b, hc, h => by
    simp at h; subst h
    simpa [Chain] using hc
  | a :: a2 :: q, c, b, hc, h => by
    rw [List.getLast?_cons_cons] at h
    exact chain_last_step (q := a2 :: q) (chain_tail (by simpa using hc)) h

/-! ### first order -/

theorem firstBody_ok {t : RTree} (hwf : t.WF) : ∀ (rest : List Nat) (a : Nat),
    (∀ y ∈ a :: rest, y ∈ ids t) → (a :: rest).Nodup →
    ∃ evs l, firstBody t (a :: rest) = some evs ∧ (a :: rest).getLast? = some l ∧ OK t a evs l
  | [], a, hm, _ => ⟨[.site a], a, by simp [firstBody], by simp, OK_site hwf (hm a (by simp))⟩
  | b :: rest, a, hm, hnd => by
    have hnd' := List.nodup_cons.mp hnd
    have hab : a ≠ b := fun e => hnd'.1 (by simp [e])
    obtain ⟨h, r, hp, hah, hch, hl, _⟩ := path_facts hwf (hm a (by simp)) (hm b (by simp)) hab
    obtain ⟨more, l, hmore, hlast, hok⟩ := firstBody_ok hwf rest b
      (fun y hy => hm y (by simp [hy])) hnd'.2
    refine ⟨[.site a, .link a h] ++ movesAlong (h :: r) ++ more, l, ?_, ?_, ?_⟩
    · simp [firstBody, hp, hmore]
    · rw [List.getLast?_cons_cons]; exact hlast
    · exact OK_append (OK_append (OK_append (OK_site hwf (hm a (by simp))) (OK_link hwf hah))
        (OK_moves hwf r h (chain_tail hch) hl)) hok

/-! ### second order, one site -/

theorem secondFwd_ok {t : RTree} (hwf : t.WF) : ∀ (rest : List Nat) (a : Nat),
    (∀ y ∈ a :: rest, y ∈ ids t) → (a :: rest).Nodup →
    (∀ l y z, a :: rest = l ++ [y, z] → Adj t y z) →
    ∃ evs l, secondFwd t (a :: rest) = some evs ∧ (a :: rest).getLast? = some l ∧ OK t a evs l
  | [], a, hm, _, _ => ⟨[.site a], a, by simp [secondFwd], by simp, OK_site hwf (hm a (by simp))⟩
  | b :: rest, a, hm, hnd, hlast2 => by
    have hnd' := List.nodup_cons.mp hnd
    have hab : a ≠ b := fun e => hnd'.1 (by simp [e])
    have hlast2' : ∀ l y z, b :: rest = l ++ [y, z] → Adj t y z :=
      fun l y z e => hlast2 (a :: l) y z (by simp [e])
    obtain ⟨more, l, hmore, hlast, hok⟩ := secondFwd_ok hwf rest b
      (fun y hy => hm y (by simp [hy])) hnd'.2 hlast2'
    cases rest with
    | nil =>
      have hadj := hlast2 [] a b rfl
      refine ⟨[.site a, .link a b] ++ more, l, ?_, ?_, ?_⟩
      · simp [secondFwd, path_adj hwf hadj] at hmore ⊢
        exact hmore
      · rw [List.getLast?_cons_cons]; exact hlast
      · exact OK_append (OK_append (OK_site hwf (hm a (by simp))) (OK_link hwf hadj)) hok
    | cons c rest' =>
      obtain ⟨h, r, hp, hah, hch, hl, _⟩ := path_facts hwf (hm a (by simp)) (hm b (by simp)) hab
      refine ⟨[.site a, .link a h] ++ movesAlong (h :: r) ++ more, l, ?_, ?_, ?_⟩
      · simp [secondFwd, hp] at hmore ⊢
        simp [hmore]
      · rw [List.getLast?_cons_cons]; exact hlast
      · exact OK_append (OK_append (OK_append (OK_site hwf (hm a (by simp))) (OK_link hwf hah))
          (OK_moves hwf r h (chain_tail hch) hl)) hok

theorem secondBwdAux_ok {t : RTree} (hwf : t.WF) : ∀ (rest : List Nat) (a : Nat),
    (∀ y ∈ a :: rest, y ∈ ids t) → (a :: rest).Nodup →
    ∃ evs l, secondBwdAux t (a :: rest) = some evs ∧ (a :: rest).getLast? = some l ∧ OK t a evs l
  | [], a, hm, _ => ⟨[.site a], a, by simp [secondBwdAux], by simp, OK_site hwf (hm a (by simp))⟩
  | b :: rest, a, hm, hnd => by
    have hnd' := List.nodup_cons.mp hnd
    have hab : a ≠ b := fun e => hnd'.1 (by simp [e])
    obtain ⟨h, r, hp, _, hch, hl, _⟩ := path_facts hwf (hm a (by simp)) (hm b (by simp)) hab
    obtain ⟨more, l, hmore, hlast, hok⟩ := secondBwdAux_ok hwf rest b
      (fun y hy => hm y (by simp [hy])) hnd'.2
    -- the way without its last node b: a … c with c a neighbour of b
    have hne : (a :: h :: r) ≠ [] := by simp
    have hsplit := List.dropLast_concat_getLast hne
    have hgl : (a :: h :: r).getLast hne = b := by
      have := List.getLast?_eq_some_getLast hne
      rw [List.getLast?_cons_cons, hl] at this
      exact (Option.some.inj this).symm
    rw [hgl] at hsplit
    obtain ⟨q', hq'⟩ : ∃ q', (a :: h :: r).dropLast = a :: q' := by
      simp [List.dropLast]
    have hchq : Chain (Adj t) ((a :: q') ++ [b]) := by rw [← hq', hsplit]; exact hch
    obtain ⟨c, hc⟩ : ∃ c, (a :: q').getLast? = some c := by
      exact ⟨_, List.getLast?_eq_some_getLast (by simp)⟩
    have hcb := chain_last_step hchq hc
    refine ⟨[.site a] ++ movesAlong (a :: q') ++ [.link c b] ++ more, l, ?_, ?_, ?_⟩
    · simp only [secondBwdAux, hp, Option.bind_eq_bind, Option.bind_some, hq', hc, hmore]
    · rw [List.getLast?_cons_cons]; exact hlast
    · exact OK_append (OK_append (OK_append (OK_site hwf (hm a (by simp)))
        (OK_moves hwf q' a (chain_append_left hchq) hc)) (OK_link hwf hcb)) hok

theorem secondBwd_ok {t : RTree} (hwf : t.WF) (rest : List Nat) (b0 b1 : Nat)
    (hm : ∀ y ∈ b0 :: b1 :: rest, y ∈ ids t) (hnd : (b0 :: b1 :: rest).Nodup)
    (hadj : Adj t b0 b1) :
    ∃ evs l, secondBwd t (b0 :: b1 :: rest) = some evs ∧
      (b0 :: b1 :: rest).getLast? = some l ∧ OK t b0 evs l := by
  obtain ⟨more, l, hmore, hlast, hok⟩ := secondBwdAux_ok hwf rest b1
    (fun y hy => hm y (by simp [hy])) (List.nodup_cons.mp hnd).2
  refine ⟨.link b0 b1 :: more, l, by simp [secondBwd, hmore], ?_, ?_⟩
  · rw [List.getLast?_cons_cons]; exact hlast
  · exact OK_append (OK_link hwf hadj) hok

/-! ### second order, two sites -/

theorem twoFwd_ok {t : RTree} (hwf : t.WF) : ∀ (rest : List Nat) (a b : Nat),
    (∀ y ∈ a :: b :: rest, y ∈ ids t) → (a :: b :: rest).Nodup →
    (∀ l y z, a :: b :: rest = l ++ [y, z] → Adj t y z) →
    (∀ l x y z, a :: b :: rest = l ++ [x, y, z] → Adj t x y) →
    ∃ evs l, twoFwd t (a :: b :: rest) = some evs ∧ (a :: b :: rest).getLast? = some l ∧
      OK t a evs l
  | [], a, b, _, _, hlast2, _ =>
    ⟨[.two a b], b, by simp [twoFwd], by simp, OK_two hwf (hlast2 [] a b rfl)⟩
  | c :: rest, a, b, hm, hnd, hlast2, hlast3 => by
    have hnd' := List.nodup_cons.mp hnd
    have hab : a ≠ b := fun e => hnd'.1 (by simp [e])
    obtain ⟨more, l, hmore, hlast, hok⟩ := twoFwd_ok hwf rest b c
      (fun y hy => hm y (by simp [hy])) hnd'.2
      (fun l y z e => hlast2 (a :: l) y z (by simp [e]))
      (fun l x y z e => hlast3 (a :: l) x y z (by simp [e]))
    cases rest with
    | nil =>
      have hadj := hlast3 [] a b c rfl
      have hbm := hm b (by simp)
      refine ⟨[.two a b, .site b] ++ more, l, ?_, ?_, ?_⟩
      · simp [twoFwd, path_adj hwf hadj] at hmore ⊢
        exact hmore
      · rw [List.getLast?_cons_cons]; exact hlast
      · exact OK_append (OK_append (OK_two hwf hadj) (OK_site hwf hbm)) hok
    | cons d rest' =>
      obtain ⟨h, r, hp, hah, hch, hl, hpm⟩ := path_facts hwf (hm a (by simp)) (hm b (by simp)) hab
      refine ⟨[.two a h, .site h] ++ movesAlong (h :: r) ++ more, l, ?_, ?_, ?_⟩
      · simp [twoFwd, hp] at hmore ⊢
        simp [hmore]
      · rw [List.getLast?_cons_cons]; exact hlast
      · exact OK_append (OK_append (OK_append (OK_two hwf hah) (OK_site hwf (hpm h (by simp))))
          (OK_moves hwf r h (chain_tail hch) hl)) hok

theorem twoBwdAux_ok {t : RTree} (hwf : t.WF) : ∀ (rest : List Nat) (a : Nat),
    (∀ y ∈ a :: rest, y ∈ ids t) → (a :: rest).Nodup →
    ∃ evs l, twoBwdAux t (a :: rest) = some evs ∧ (a :: rest).getLast? = some l ∧ OK t a evs l
  | [], a, _, _ => ⟨[], a, by simp [twoBwdAux], by simp, OK_nil t a⟩
  | b :: rest, a, hm, hnd => by
    have hnd' := List.nodup_cons.mp hnd
    have hba : b ≠ a := fun e => hnd'.1 (by simp [e])
    obtain ⟨h, r, hp, hbh, hch, hl, hpm⟩ := path_facts hwf (hm b (by simp)) (hm a (by simp)) hba
    obtain ⟨more, l, hmore, hlast, hok⟩ := twoBwdAux_ok hwf rest b
      (fun y hy => hm y (by simp [hy])) hnd'.2
    -- the reversed way from a back to the first hop h of b
    obtain ⟨q', hq'⟩ : ∃ q', (h :: r).reverse = a :: q' := by
      have : (h :: r).reverse.head? = some a := by rw [List.head?_reverse]; exact hl
      cases hr : (h :: r).reverse with
      | nil => simp at hr
      | cons y l' => rw [hr] at this; simp at this; exact ⟨l', by rw [this]⟩
    have hchq : Chain (Adj t) (a :: q') := by
      rw [← hq']
      exact chain_mono (fun x y hxy => adj_symm hxy) (chain_reverse (chain_tail hch))
    have hql : (a :: q').getLast? = some h := by rw [← hq', List.getLast?_reverse]; simp
    refine ⟨movesAlong (a :: q') ++ [.site h, .two h b] ++ more, l, ?_, ?_, ?_⟩
    · simp only [twoBwdAux, hp, Option.bind_eq_bind, Option.bind_some, List.drop_succ_cons,
        List.drop_zero, hq', hql, hmore]
    · rw [List.getLast?_cons_cons]; exact hlast
    · exact OK_append (OK_append (OK_moves hwf q' a hchq hql)
        (OK_append (OK_site hwf (hpm h (by simp))) (OK_two hwf (adj_symm hbh)))) hok

theorem twoBwd_ok {t : RTree} (hwf : t.WF) (rest : List Nat) (b0 b1 : Nat)
    (hm : ∀ y ∈ b0 :: b1 :: rest, y ∈ ids t) (hnd : (b0 :: b1 :: rest).Nodup)
    (hadj : Adj t b0 b1) :
    ∃ evs l, twoBwd t (b0 :: b1 :: rest) = some evs ∧
      (b0 :: b1 :: rest).getLast? = some l ∧ OK t b0 evs l := by
  obtain ⟨more, l, hmore, hlast, hok⟩ := twoBwdAux_ok hwf rest b1
    (fun y hy => hm y (by simp [hy])) (List.nodup_cons.mp hnd).2
  refine ⟨.two b0 b1 :: more, l, by simp [twoBwd, hmore], ?_, ?_⟩
  · rw [List.getLast?_cons_cons]; exact hlast
  · exact OK_append (OK_two hwf hadj) hok

end Ptn.C05.Disc
