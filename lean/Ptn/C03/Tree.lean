import Ptn.C03.Core
import Ptn.C17.DistTree
import Ptn.C17.Examples
/-! C03 on trees: for every well-formed tree and every centre the distance table returned by
`distance_to_node` (C17: `distanceToNode`) and the neighbour lists `neighbouring_nodes()`
(C17: `nbrsOf`) satisfy the two hypotheses of `canon_gauge`; no `KeyError` occurs; after
`canonical_form` every node other than the centre is an isometry toward the first node on its way
to the centre. -/
namespace Ptn.C03
open Ptn.C17 Ptn.C17.RTree

theorem closest_cons_cons (dist : Dist) (n n2 : Nat) (rest : List Nat) :
    closest dist (n :: n2 :: rest) =
      match lookup dist n with
      | none => none
      | some dn =>
        match closest dist (n2 :: rest) with
        | none => none
        | some m =>
          match lookup dist m with
          | none => none
          | some dm => if dm < dn then some m else some n := by
  rw [closest]
  cases lookup dist n <;> rfl

/-- `_find_smallest_distance_neighbour`: if every neighbour has an entry, the result is a
    neighbour of minimal distance. -/
theorem closest_spec (dist : Dist) : ∀ (nb : List Nat), nb ≠ [] →
    (∀ n ∈ nb, ∃ d, lookup dist n = some d) →
    ∃ m, closest dist nb = some m ∧ m ∈ nb ∧ ∀ n ∈ nb, key dist m ≤ key dist n
  | [], h, _ => absurd rfl h
  | [n], _, hl => by
    obtain ⟨d, hd⟩ := hl n (by simp)
    exact ⟨n, by simp [closest, hd], by simp, by simp⟩
  | n :: n2 :: rest, _, hl => by
    obtain ⟨dn, hdn⟩ := hl n (by simp)
    obtain ⟨m, hm, hmem, hmin⟩ := closest_spec dist (n2 :: rest) (by simp)
      (fun x hx => hl x (by simp [hx]))
    obtain ⟨dm, hdm⟩ := hl m (by simp [hmem])
    by_cases hlt : dm < dn
    · refine ⟨m, by simp [closest_cons_cons, hdn, hm, hdm, hlt], by simp [hmem], ?_⟩
      intro x hx
      rcases List.mem_cons.mp hx with rfl | hx
      · simp [key, hdn, hdm]; omega
      · exact hmin x hx
    · refine ⟨n, by simp [closest_cons_cons, hdn, hm, hdm, hlt], by simp, ?_⟩
      intro x hx
      rcases List.mem_cons.mp hx with rfl | hx
      · exact Nat.le_refl _
      · have := hmin x hx
        simp [key, hdn, hdm] at this ⊢
        omega

theorem le_maxDist (dist : Dist) : ∀ p ∈ dist, p.2 ≤ maxDist dist := by
  have gen : ∀ (l : Dist) (m0 : Nat), m0 ≤ l.foldl (fun m p => max m p.2) m0 ∧
      ∀ p ∈ l, p.2 ≤ l.foldl (fun m p => max m p.2) m0 := by
    intro l
    induction l with
    | nil => intro m0; simp
    | cons q rest ih =>
      intro m0
      have := ih (max m0 q.2)
      simp only [List.foldl_cons]
      refine ⟨by omega, ?_⟩
      intro p hp
      rcases List.mem_cons.mp hp with rfl | hp
      · omega
      · exact this.2 p hp
  exact (gen dist 0).2

/-- The facts about the distance table of a tree in the vocabulary of the C03 model. -/
theorem tree_table (t : RTree) (hwf : t.WF) (c : Nat) (hc : c ∈ ids t) :
    ∃ dist : Dist, distanceToNode t c = some dist ∧ (dist.map (·.1)).Nodup ∧
      (dist.map (·.1)).Perm (ids t) ∧ (c, 0) ∈ dist ∧
      ∀ n d, (n, d) ∈ dist → n ≠ c →
        ∃ v, firstHop t n c = some v ∧ closest dist (nbrsOf t n) = some v ∧
          key dist v + 1 = d := by
  obtain ⟨dist, hd, hnd, hperm, hc0, hstep⟩ := dist_table t hwf c hc
  refine ⟨dist, hd, hnd, hperm, hc0, ?_⟩
  intro n d hn hnc
  obtain ⟨v, d', hhop, hadj, hdd, hv, hothers⟩ := hstep n d hn hnc
  have hlv := lookup_of_mem dist hnd v d' hv
  -- every neighbour has an entry
  have hall : ∀ m ∈ nbrsOf t n, ∃ dm, lookup dist m = some dm := by
    intro m hm
    have hm' := (mem_nbrsOf t n m).mp hm
    by_cases hmv : m = v
    · exact ⟨d', hmv ▸ hlv⟩
    · exact ⟨d + 1, lookup_of_mem dist hnd m (d + 1) (hothers m hm' hmv)⟩
  have hne : nbrsOf t n ≠ [] := List.ne_nil_of_mem ((mem_nbrsOf t n v).mpr hadj)
  obtain ⟨m, hm, hmem, hmin⟩ := closest_spec dist (nbrsOf t n) hne hall
  have hmv : m = v := by
    apply Classical.byContradiction
    intro hne'
    have h1 := hothers m ((mem_nbrsOf t n m).mp hmem) hne'
    have h2 := hmin v ((mem_nbrsOf t n v).mpr hadj)
    simp [key, lookup_of_mem dist hnd m (d + 1) h1, hlv] at h2
    omega
  exact ⟨v, hhop, hmv ▸ hm, by simp [key, hlv, hdd]⟩

/-- **Canonical form on a tree.**  For every well-formed tree `t` and centre `c`, with `dist` the
    table of `distance_to_node(c)` and `nbrsOf t` the neighbour lists: the keys are distinct, every
    operation absorbs into a strictly closer node (the two hypotheses of `canon_gauge`), no
    neighbour lookup fails, and afterwards every node `n ≠ c` is recorded as an isometry toward the
    first node on the way from `n` to `c`, while `c` carries no record. -/
theorem canon_gauge_tree (t : RTree) (hwf : t.WF) (c : Nat) (hc : c ∈ ids t) :
    ∃ dist : Dist, distanceToNode t c = some dist ∧
      (dist.map (·.1)).Nodup ∧
      (∀ o ∈ canonOps dist (nbrsOf t), key dist o.target < key dist o.node) ∧
      canonComplete dist (nbrsOf t) = true ∧
      (∀ n ∈ ids t, n ≠ c → ∃ v, firstHop t n c = some v ∧
          applyOps (fun _ => none) (canonOps dist (nbrsOf t)) n = some v) ∧
      applyOps (fun _ => none) (canonOps dist (nbrsOf t)) c = none := by
  obtain ⟨dist, hd, hnd, hperm, hc0, hstep⟩ := tree_table t hwf c hc
  -- operations absorb into strictly closer nodes
  have htree : ∀ o ∈ canonOps dist (nbrsOf t), key dist o.target < key dist o.node := by
    intro o ho
    unfold canonOps at ho
    rw [List.mem_flatMap] at ho
    obtain ⟨k, _, hk⟩ := ho
    obtain ⟨hmem, hcl⟩ := mem_opsAt hk
    have hnc : o.node ≠ c := by
      intro e
      have h1 := lookup_of_mem dist hnd _ _ hmem
      have h2 := lookup_of_mem dist hnd _ _ hc0
      rw [e, h2] at h1; simp at h1
    obtain ⟨v, _, hcv, hkey⟩ := hstep o.node (k + 1) hmem hnc
    rw [hcl] at hcv
    have : o.target = v := Option.some.inj hcv
    have hk1 : key dist o.node = k + 1 := by simp [key, lookup_of_mem dist hnd _ _ hmem]
    rw [this, hk1]; omega
  have hgauge := canon_gauge dist (nbrsOf t) hnd htree
  refine ⟨dist, hd, hnd, htree, ?_, ?_, hgauge.2 c hc0⟩
  · -- no KeyError
    simp only [canonComplete, List.all_eq_true, Bool.or_eq_true, beq_iff_eq]
    intro p hp
    by_cases h0 : p.2 = 0
    · exact Or.inl h0
    · right
      have hnc : p.1 ≠ c := by
        intro e
        have h1 := lookup_of_mem dist hnd p.1 p.2 hp
        have h2 := lookup_of_mem dist hnd _ _ hc0
        rw [e, h2] at h1
        exact h0 (Option.some.inj h1).symm
      obtain ⟨v, _, hcv, _⟩ := hstep p.1 p.2 hp hnc
      simp [hcv]
  · intro n hn hnc
    have : n ∈ dist.map (·.1) := hperm.symm.subset hn
    obtain ⟨e, he, rfl⟩ := List.mem_map.mp this
    obtain ⟨v, hhop, hcv, hkey⟩ := hstep e.1 e.2 he hnc
    refine ⟨v, hhop, ?_⟩
    -- the operation ⟨n, v⟩ is carried out
    have hpos : 1 ≤ e.2 := by omega
    have hle := le_maxDist dist e he
    have hop : (⟨e.1, v⟩ : Op) ∈ canonOps dist (nbrsOf t) := by
      unfold canonOps
      rw [List.mem_flatMap]
      refine ⟨e.2 - 1, by simp; omega, ?_⟩
      have hk : e.2 - 1 + 1 = e.2 := by omega
      rw [hk]
      simp only [opsAt, List.mem_filterMap, List.mem_filter]
      exact ⟨e, ⟨he, by simp⟩, by simp [hcv]⟩
    exact hgauge.1 _ hop

/-! ### Non-vacuity: the 8-node tree of the C17 examples canonicalised at node 6 -/

example : exTree.WF ∧ 6 ∈ ids exTree := by decide
example : distanceToNode exTree 6 =
    some [(6, 0), (5, 1), (0, 2), (1, 3), (3, 4), (4, 4), (2, 3), (7, 1)] := by decide
example : nbrsOf exTree 0 = [1, 2, 5] ∧ nbrsOf exTree 5 = [0, 6] := by decide
example : canonOps [(6, 0), (5, 1), (0, 2), (1, 3), (3, 4), (4, 4), (2, 3), (7, 1)] (nbrsOf exTree)
    = [⟨3, 1⟩, ⟨4, 1⟩, ⟨1, 0⟩, ⟨2, 0⟩, ⟨0, 5⟩, ⟨5, 6⟩, ⟨7, 6⟩] := by decide

end Ptn.C03
