import Ptn.C03.Model
import Ptn.C03.Lemmas
import Ptn.Common.AnalysisIso
/-! Property theorems for C03 (canonical form): the bookkeeping that makes every non-centre tensor
an isometry toward the centre.  The numerical content (a QR factor Q is an isometry, the product
QR is the tensor) is the contract of `numpy.linalg.qr`; compositions of isometries are isometries
(`Ptn.Analysis`).  Here: *which* tensor ends up pointing *where*, for every distance table. -/
namespace Ptn.C03

/-- Distance of a node (0 when absent). -/
def key (dist : Dist) (n : Nat) : Nat := (lookup dist n).getD 0

theorem lookup_of_mem (dist : Dist) (hkeys : (dist.map (·.1)).Nodup) (n d : Nat)
    (h : (n, d) ∈ dist) : lookup dist n = some d := by
  induction dist with
  | nil => simp at h
  | cons p rest ih =>
    rw [List.map_cons] at hkeys
    have hk := List.nodup_cons.mp hkeys
    rcases List.mem_cons.mp h with heq | hmem
    · subst heq; simp [lookup]
    · have hne : p.1 ≠ n := by
        intro he
        apply hk.1
        rw [he]
        exact List.mem_map_of_mem (f := (·.1)) hmem
      have : (p.1 == n) = false := by simp [hne]
      simp only [lookup, List.find?_cons, this]
      exact ih hk.2 hmem

/-- The operations of `canonical_form` are sorted by non-increasing distance of the split node:
    the farthest nodes are processed first. -/
theorem canon_sorted (dist : Dist) (nbrs : Nat → List Nat) (hkeys : (dist.map (·.1)).Nodup) :
    (canonOps dist nbrs).Pairwise fun a b => key dist b.node ≤ key dist a.node := by
  unfold canonOps
  rw [List.pairwise_flatMap]
  constructor
  · intro k _
    apply List.pairwise_of_forall_mem_list
    intro a ha b hb
    have h1 := lookup_of_mem dist hkeys _ _ (mem_opsAt ha).1
    have h2 := lookup_of_mem dist hkeys _ _ (mem_opsAt hb).1
    simp [key, h1, h2]
  · rw [List.pairwise_reverse]
    apply List.Pairwise.imp _ List.pairwise_lt_range
    intro k1 k2 hlt x hx y hy
    have h1 := lookup_of_mem dist hkeys _ _ (mem_opsAt hx).1
    have h2 := lookup_of_mem dist hkeys _ _ (mem_opsAt hy).1
    simp [key, h1, h2]; omega

/-- Every node is split at most once. -/
theorem canon_nodup (dist : Dist) (nbrs : Nat → List Nat) (hkeys : (dist.map (·.1)).Nodup) :
    ((canonOps dist nbrs).map Op.node).Nodup := by
  rw [List.nodup_iff_pairwise_ne, List.pairwise_map]
  unfold canonOps
  rw [List.pairwise_flatMap]
  constructor
  · intro k _
    unfold opsAt
    apply List.Pairwise.filterMap (R := fun p q : Nat × Nat => p.1 ≠ q.1)
    · intro p q hpq a ha b hb
      cases hc : closest dist (nbrs p.1) <;> simp [hc] at ha
      cases hd : closest dist (nbrs q.1) <;> simp [hd] at hb
      subst ha; subst hb; exact hpq
    · apply List.Pairwise.filter
      exact List.pairwise_map.mp (List.nodup_iff_pairwise_ne.mp hkeys)
  · rw [List.pairwise_reverse]
    apply List.Pairwise.imp _ List.pairwise_lt_range
    intro k1 k2 hlt x hx y hy heq
    have h1 := lookup_of_mem dist hkeys _ _ (mem_opsAt hx).1
    have h2 := lookup_of_mem dist hkeys _ _ (mem_opsAt hy).1
    rw [heq, h2] at h1
    have : k1 + 1 = k2 + 1 := by simpa using h1
    omega

/-- **Gauge theorem.**  Assume the table has distinct keys and every node at distance `d ≥ 1` has
    its closest neighbour at distance `d - 1` (true of the distance table of a tree).  Then after
    all operations of `canonical_form` every split node is recorded as an isometry toward its
    closest neighbour — later operations never absorb into it again — and a node at distance 0
    (the centre) carries no isometry record. -/
theorem canon_gauge (dist : Dist) (nbrs : Nat → List Nat) (hkeys : (dist.map (·.1)).Nodup)
    (htree : ∀ o ∈ canonOps dist nbrs, key dist o.target < key dist o.node) :
    (∀ o ∈ canonOps dist nbrs,
        applyOps (fun _ => none) (canonOps dist nbrs) o.node = some o.target) ∧
    (∀ c, (c, 0) ∈ dist → applyOps (fun _ => none) (canonOps dist nbrs) c = none) := by
  constructor
  · exact gauge_sorted (key dist) _ _ (canon_nodup dist nbrs hkeys) (canon_sorted dist nbrs hkeys)
      htree
  · intro c hc
    apply gauge_centre
    · intro o ho heq
      unfold canonOps at ho
      rw [List.mem_flatMap] at ho
      obtain ⟨k, _, hk⟩ := ho
      have h1 := lookup_of_mem dist hkeys _ _ (mem_opsAt hk).1
      have h2 := lookup_of_mem dist hkeys _ _ hc
      rw [heq, h2] at h1
      simp at h1
    · rfl

/-- A centre move along a path records one QR per hop; afterwards every node of the path except
    the last points to its successor and the last node is the (record-free) centre. -/
theorem move_gauge (dir : Nat → Option Nat) (path : List Nat) (hnd : path.Nodup) :
    ∀ i (hi : i + 1 < path.length),
      applyOps dir (moveOps path) path[i] = some path[i + 1] := by
  induction path generalizing dir with
  | nil => intro i hi; simp at hi
  | cons a rest ih =>
    cases rest with
    | nil => intro i hi; simp at hi
    | cons b rest' =>
      intro i hi
      have hnd' := List.nodup_cons.mp hnd
      simp only [moveOps, applyOps_cons]
      cases i with
      | zero =>
        simp only [List.getElem_cons_zero, List.getElem_cons_succ]
        rw [applyOps_untouched]
        · simp [applyOp]
        · -- later hops touch only nodes of `b :: rest'`, none of which is `a`
          intro p hp
          have key : ∀ (l : List Nat) (p : Op), p ∈ moveOps l → p.node ∈ l ∧ p.target ∈ l := by
            intro l
            induction l with
            | nil => intro p hp; simp [moveOps] at hp
            | cons x xs ihx =>
              cases xs with
              | nil => intro p hp; simp [moveOps] at hp
              | cons y ys =>
                intro p hp
                simp only [moveOps, List.mem_cons] at hp
                rcases hp with rfl | hp
                · simp
                · have := ihx p hp
                  exact ⟨by simp [this.1], by simp [this.2]⟩
          have := key _ p hp
          exact ⟨fun h => hnd'.1 (h ▸ this.1), fun h => hnd'.1 (h ▸ this.2)⟩
      | succ j =>
        simp only [List.getElem_cons_succ]
        have := ih (applyOp dir ⟨a, b⟩) hnd'.2 j (by simpa using hi)
        simpa using this

theorem move_final_centre (c : Nat) (path : List Nat) (x : Nat) :
    finalCentre c (path ++ [x]) = x := by
  simp [finalCentre]

/-! ### From the gauge record to linear algebra (instances of `Ptn.Analysis`, Mathlib)

`canon_gauge` says every non-centre tensor is a QR factor `Q` toward the centre; by the contract of
`numpy.linalg.qr` each is an isometry.  The embedding of the centre tensor into the full state is
built from these by products and Kronecker products. -/

open Matrix in
/-- Composition of isometries along a branch is an isometry. -/
theorem env_isometry_compose {l m n : Type} [Fintype l] [Fintype m] [Fintype n] [DecidableEq m]
    [DecidableEq n] (A : Matrix l m ℂ) (B : Matrix m n ℂ) (hA : Aᴴ * A = 1) (hB : Bᴴ * B = 1) :
    (A * B)ᴴ * (A * B) = 1 :=
  Ptn.Analysis.isometry_mul A B hA hB

open Matrix Kronecker in
/-- Independent branches combine by the Kronecker product, again an isometry. -/
theorem env_isometry_kron {l m p q : Type} [Fintype l] [Fintype m] [Fintype p] [Fintype q]
    [DecidableEq m] [DecidableEq q] (A : Matrix l m ℂ) (B : Matrix p q ℂ)
    (hA : Aᴴ * A = 1) (hB : Bᴴ * B = 1) : (A ⊗ₖ B)ᴴ * (A ⊗ₖ B) = 1 :=
  Ptn.Analysis.isometry_kronecker A B hA hB

open Matrix in
/-- **Consequently the norm obtained from the centre tensor alone equals the norm of the full
    state** (`E` = embedding of the centre tensor, `v` = centre tensor as a vector). -/
theorem centre_norm_eq_full_norm {l m : Type} [Fintype l] [Fintype m] [DecidableEq m]
    (E : Matrix l m ℂ) (hE : Eᴴ * E = 1) (v : m → ℂ) :
    star (E *ᵥ v) ⬝ᵥ (E *ᵥ v) = star v ⬝ᵥ v :=
  Ptn.Analysis.isometry_norm E hE v

open Matrix in
/-- Shape-keeping mode: zero-padding `Q` and `R` leaves the product unchanged and makes `Q` a
    partial isometry (its Gram matrix is an orthogonal projector). -/
theorem keep_mode_padding {l m n p : Type} [Fintype l] [Fintype m] [Fintype n] [Fintype p]
    [DecidableEq m] (Q : Matrix l m ℂ) (T : Matrix m n ℂ) (hQ : Qᴴ * Q = 1) :
    fromCols Q (0 : Matrix l p ℂ) * fromRows T (0 : Matrix p n ℂ) = Q * T ∧
    ((fromCols Q (0 : Matrix l p ℂ))ᴴ * fromCols Q (0 : Matrix l p ℂ)) *
      ((fromCols Q (0 : Matrix l p ℂ))ᴴ * fromCols Q (0 : Matrix l p ℂ))
        = (fromCols Q (0 : Matrix l p ℂ))ᴴ * fromCols Q (0 : Matrix l p ℂ) ∧
    ((fromCols Q (0 : Matrix l p ℂ))ᴴ * fromCols Q (0 : Matrix l p ℂ))ᴴ
        = (fromCols Q (0 : Matrix l p ℂ))ᴴ * fromCols Q (0 : Matrix l p ℂ) :=
  Ptn.Analysis.partial_isometry_pad Q T hQ

/-! ### Non-vacuity: chain 0-1-2-3 canonicalised at 1; star -/

example :
    let dist : Dist := [(1, 0), (0, 1), (2, 1), (3, 2)]
    let nbrs : Nat → List Nat := fun n => match n with | 0 => [1] | 1 => [0, 2] | 2 => [1, 3] | _ => [2]
    canonOps dist nbrs = [⟨3, 2⟩, ⟨0, 1⟩, ⟨2, 1⟩] ∧
    (∀ o ∈ canonOps dist nbrs, key dist o.target < key dist o.node) ∧
    (dist.map (·.1)).Nodup := by decide
example : moveOps [1, 2, 3] = [⟨1, 2⟩, ⟨2, 3⟩] := by decide

end Ptn.C03
