import Ptn.C03.Whole
/-! Centre moves at value level (builder B56): a network in canonical form around `c`, after the QR moves along
the way from `c` to `c'`, is in canonical form around `c'`, and the norm of the WHOLE network is the norm of
the new centre tensor alone.

* `CanonRec t dir c`: the gauge record `dir` is the record of canonical form around `c` - every node `n ≠ c` of
  the tree points to the first hop of its way to `c`.
* `canonRec_hop`: one hop `a → b` between neighbours turns the record around `a` into the record around `b`
  (`firstHop_adj`, `firstHop_adj_same` of C17).  `canonRec_walk`: induction along ANY walk of the tree.
* `move_centre_isometric_tree`: with `run_isometric`, every node `n ≠ c'` is an isometry toward its first hop
  to `c'` after every `IsoRun` of `moveOps (pathFromTo t c c')`.
* `centre_norm_whole_of_canonical`: the part of `canonical_form_centre_norm_whole` after the run - a
  tree-shaped network whose every node is an isometry toward its first hop to `c` has the norm of its centre
  tensor.
* `move_centre_norm_whole`. -/
namespace Ptn.C03

open Ptn.Ein Ptn.C17 Ptn.C17.RTree

set_option linter.unusedSectionVars false
set_option linter.unusedVariables false
variable {R : Type} [CommSemiring R]

/-- the gauge record `dir` is the record of canonical form around `c`: every node of the tree other than `c`
points to the first node on its way to `c` -/
def CanonRec (t : RTree) (dir : Nat → Option Nat) (c : Nat) : Prop :=
  ∀ n ∈ ids t, n ≠ c → ∃ v, firstHop t n c = some v ∧ dir n = some v

/-- **one hop of a centre move**: the QR at `a` toward its neighbour `b` turns the record of canonical form
around `a` into the record of canonical form around `b` -/
theorem canonRec_hop {t : RTree} (hwf : t.WF) {dir : Nat → Option Nat} {a b : Nat} (hab : Adj t a b)
    (h : CanonRec t dir a) : CanonRec t (applyOp dir ⟨a, b⟩) b := by
  intro n hn hnb
  by_cases hna : n = a
  · subst hna
    exact ⟨b, firstHop_adj hwf hab, by simp [applyOp]⟩
  · obtain ⟨v, hv, hd⟩ := h n hn hna
    refine ⟨v, ?_, ?_⟩
    · rw [firstHop_adj_same hwf hab hn hna hnb]; exact hv
    · simp [applyOp, hna, hnb, hd]

/-- **the record after the moves along ANY walk** from `c` to `c'` (consecutive nodes neighbours in the tree)
is the record of canonical form around `c'` -/
theorem canonRec_walk {t : RTree} (hwf : t.WF) : ∀ (path : List Nat) (dir : Nat → Option Nat) (c c' : Nat),
    path.head? = some c → path.getLast? = some c' → Chain (Adj t) path → CanonRec t dir c →
      CanonRec t (applyOps dir (moveOps path)) c'
  | [], _, _, _, h, _, _, _ => by simp at h
  | [a], dir, c, c', h1, h2, _, hr => by
    simp at h1 h2
    subst h1; subst h2
    simpa [moveOps, applyOps] using hr
  | a :: b :: rest, dir, c, c', h1, h2, hc, hr => by
    simp at h1
    subst h1
    rw [chain_cons_cons] at hc
    simp only [moveOps, applyOps_cons]
    exact canonRec_walk hwf (b :: rest) _ b c' rfl (by simpa using h2) hc.2 (canonRec_hop hwf hc.1 hr)

/-- the record read off a tree: every node other than `c` points to its first hop toward `c` -/
def recordAt (t : RTree) (c : Nat) : Nat → Option Nat :=
  fun n => if n ∈ ids t ∧ n ≠ c then firstHop t n c else none

theorem recordAt_canonRec {t : RTree} (hwf : t.WF) {c : Nat} (hc : c ∈ ids t) : CanonRec t (recordAt t c) c := by
  intro n hn hnc
  obtain ⟨v, _, _, hv⟩ := pathFromTo_cons_cons hwf hn hc hnc
  exact ⟨v, hv, by simp [recordAt, hn, hnc, hv]⟩

/-- **A centre move keeps canonical form (value level).**  `t` a well-formed tree, `c`, `c'` two of its nodes,
`N` a well-formed valued network that is canonical around `c`: every node `n ≠ c` of `t` is joined to the first
node on its way to `c` and is an isometry (index form) toward that bond.  `path` the way from `c` to `c'`.
After ANY run `N'` of the moves `moveOps path` with the full QR contract per step, every node `n ≠ c'` is joined
to the first node on its way to `c'` and is an isometry toward that bond: the network is canonical around `c'`.
Also: `N'` well-formed, same value, bonds keep one dimension, same nodes.  (The conclusion has the form of the
hypothesis, and of the conclusion of `canonical_form_isometric_tree`: the statements compose over any
history of canonicalisations and moves.) -/
theorem move_centre_isometric_tree (dim : Nat → Nat) (cj : R → R) (t : RTree) (hwf : t.WF) (c c' : Nat)
    (hc : c ∈ ids t) (hc' : c' ∈ ids t) {N : VNet R} (h : N.WF)
    (hcan : ∀ n ∈ ids t, n ≠ c → ∃ v, firstHop t n c = some v ∧ IsoAt dim cj N n v) :
    ∃ path : List Nat, pathFromTo t c c' = some path ∧
      ∀ N', IsoRun dim cj N (moveOps path) N' →
        (∀ n ∈ ids t, n ≠ c' → ∃ v, firstHop t n c' = some v ∧ IsoAt dim cj N' n v) ∧
        N'.WF ∧ (∀ σ, N'.value dim σ = N.value dim σ) ∧ (BondDims dim N → BondDims dim N') ∧
        N'.ids = N.ids := by
  obtain ⟨path, hp, hh, hl, _, hch, _⟩ := pathFromTo_isSimplePath hwf hc hc'
  refine ⟨path, hp, ?_⟩
  intro N' hr
  have hinv : GaugeInv dim cj N (recordAt t c) := by
    intro n m hnm
    simp only [recordAt] at hnm
    split at hnm
    · rename_i hcond
      obtain ⟨v, hv, hI⟩ := hcan n hcond.1 hcond.2
      rw [hv] at hnm
      cases hnm
      exact hI
    · cases hnm
  obtain ⟨h1, h2, h3, h4, h5⟩ := run_isometric dim cj h hr _ hinv
  refine ⟨?_, h2, h3, h4, h5⟩
  intro n hn hnc
  obtain ⟨v, hv, hdir⟩ := canonRec_walk hwf path _ c c' hh hl hch (recordAt_canonRec hwf hc) n hn hnc
  exact ⟨v, hv, h1 n v hdir⟩

section
variable {dim : Nat → Nat} {cj : R → R}

/-- **A tree-shaped network canonical around `c` has the norm of its centre tensor.**  `t` a well-formed tree,
`c` one of its nodes, `N` a well-formed valued network with the nodes of `t`, as many bonds as `t` has edges, all
of one dimension, every node `n ≠ c` joined to the first node on its way to `c` and an isometry toward that
bond.  Then the doubled network of the whole of `N` has the value of `Σ C · conj C` over the legs of the centre
tensor alone.  (The part of `canonical_form_centre_norm_whole` after the run; no run appears.) -/
theorem centre_norm_whole_of_canonical (t : RTree) (hwf : t.WF) (c : Nat) (hc : c ∈ ids t) {N : VNet R}
    (h : N.WF) (hids : N.ids.Perm (ids t)) (hlen : N.bonds.length = (edges t).length) (hbd : BondDims dim N)
    (hcan : ∀ n ∈ ids t, n ≠ c → ∃ v, firstHop t n c = some v ∧ IsoAt dim cj N n v) (σ : Asg DL) :
    netValue (ddim dim) (wholeNormBinds N) (wholeNormLeaves cj N) σ =
      netValue (ddim dim) ((N.legs c).map dbl) [ketT (N.tens c), braT cj (N.tens c)] σ := by
  obtain ⟨r, hr⟩ := (reroot_isSome c).1 t [] hc
  obtain ⟨hwr, hrid, hperm, hhop⟩ := firstHop_reroot hwf hr
  have hI : ∀ i k, (i, k) ∈ edges r → IsoAt dim cj N k i := by
    intro i k he
    obtain ⟨hk, hkc, hfh⟩ := hhop i k he
    obtain ⟨v, hv, hI⟩ := hcan k hk hkc
    rw [hfh] at hv
    cases hv
    exact hI
  obtain ⟨up, dn, hE⟩ := edgeOK_of_isoAt dim cj hbd r hwr hI
  have hidsr : N.ids.Perm (ids r) := hids.trans hperm.symm
  have hsub : ∀ n ∈ ids r, n ∈ N.ids := fun n hn => hidsr.mem_iff.2 hn
  have hlenr : N.bonds.length = (edges r).length := by
    have h1 := edges_length_b51 t
    have h2 := edges_length_b51 r
    have h3 := hperm.length_eq
    omega
  rw [whole_norm_eq_tree (cj := cj) (dim := dim) (up := up) (dn := dn) h r hwr hidsr hlenr hE σ]
  have := centre_norm_of_tree (cj := cj) (dim := dim) (up := up) (dn := dn) h r hwr hsub hE σ
  rw [hrid, centreOf_normLeaves] at this
  exact this

end

/-- **After a centre move the norm of the WHOLE network is the norm of the new centre tensor alone.**  `t` a
well-formed tree, `c`, `c'` two of its nodes, `N` a well-formed valued network of exactly the shape of `t`
(`TreeShaped`) whose bonds have one dimension and which is canonical around `c` (every node `n ≠ c` an isometry
toward the first hop of its way to `c`).  After ANY run `N'` of the QR moves along the way from `c` to `c'` with
the full QR contract per step: `N'` is well-formed, represents the same tensor, is canonical around `c'`, and
the doubled network of the whole of `N'` - all tensors and conjugated copies, all bonds in both copies, all open
legs paired ket-with-bra - has the value of `Σ C' · conj C'` over the legs of the tensor of `c'` alone. -/
theorem move_centre_norm_whole (dim : Nat → Nat) (cj : R → R) (t : RTree) (hwf : t.WF) (c c' : Nat)
    (hc : c ∈ ids t) (hc' : c' ∈ ids t) {N : VNet R} (h : N.WF) (hts : TreeShaped N t) (hbd : BondDims dim N)
    (hcan : ∀ n ∈ ids t, n ≠ c → ∃ v, firstHop t n c = some v ∧ IsoAt dim cj N n v) :
    ∃ path : List Nat, pathFromTo t c c' = some path ∧
      ∀ N', IsoRun dim cj N (moveOps path) N' →
        N'.WF ∧ (∀ σ, N'.value dim σ = N.value dim σ) ∧
        (∀ n ∈ ids t, n ≠ c' → ∃ v, firstHop t n c' = some v ∧ IsoAt dim cj N' n v) ∧
        ∀ σ, netValue (ddim dim) (wholeNormBinds N') (wholeNormLeaves cj N') σ =
          netValue (ddim dim) ((N'.legs c').map dbl) [ketT (N'.tens c'), braT cj (N'.tens c')] σ := by
  obtain ⟨path, hp, hrun⟩ := move_centre_isometric_tree dim cj t hwf c c' hc hc' h hcan
  refine ⟨path, hp, ?_⟩
  intro N' hrn
  obtain ⟨hiso, hwf', hval, hbd', hids'⟩ := hrun N' hrn
  refine ⟨hwf', hval, hiso, ?_⟩
  intro σ
  exact centre_norm_whole_of_canonical t hwf c' hc' hwf' (hids' ▸ hts.ids_perm)
    ((isoRun_bonds_length hrn).trans hts.bonds_len) (hbd' hbd) hiso σ

end Ptn.C03
