import Ptn.C03.Model
/-! Line-protocol handler for the C03 model (core Lean only). -/
namespace Ptn.C03
def handle (args : List String) : String := "bad-op"
end Ptn.C03
