import Ptn.C03.Model
/-! Line-protocol handler for C03 (core Lean only).

  canon <n:d> … | <n:a,b,c> …   → `ok|keyerror <node>target …` : QR operations of canonical_form
                                  (dist table in dict order; neighbour lists parent first)
  move <c> <x1> … <xk>          → `<final centre> <node>target …`
-/
namespace Ptn.C03

def parsePair (s : String) : Option (Nat × Nat) :=
  match s.splitOn ":" with
  | [a, b] => match a.toNat?, b.toNat? with
    | some x, some y => some (x, y)
    | _, _ => none
  | _ => none

def parseNbr (s : String) : Option (Nat × List Nat) :=
  match s.splitOn ":" with
  | [a, b] =>
    match a.toNat? with
    | none => none
    | some x =>
      if b = "" then some (x, []) else
        match (b.splitOn ",").mapM (·.toNat?) with
        | some l => some (x, l)
        | none => none
  | _ => none

def showOps (ops : List Op) : String := " ".intercalate (ops.map fun o => s!"{o.node}>{o.target}")

def handle (args : List String) : String :=
  match args with
  | "canon" :: rest =>
    let distToks := rest.takeWhile (· ≠ "|")
    let nbrToks := (rest.dropWhile (· ≠ "|")).drop 1
    match distToks.mapM parsePair, nbrToks.mapM parseNbr with
    | some dist, some nb =>
      let nbrs : Nat → List Nat := fun n => ((nb.find? (·.1 == n)).map (·.2)).getD []
      let flag := if canonComplete dist nbrs then "ok" else "keyerror"
      (flag ++ " " ++ showOps (canonOps dist nbrs)).trimAscii.toString
    | _, _ => "bad-op"
  | "move" :: path =>
    match path.mapM (·.toNat?) with
    | some (c :: rest) => (toString (finalCentre c (c :: rest)) ++ " " ++ showOps (moveOps (c :: rest))).trimAscii.toString
    | _ => "bad-op"
  | _ => "bad-op"

end Ptn.C03
