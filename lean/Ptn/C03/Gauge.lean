import Ptn.C03.Net
import Ptn.C03.Model
/-! One QR gauge move on a valued network (`VNet`), and runs of moves.

`Step dim N ⟨n, m⟩ N'`: the nodes `n ≠ m` are joined by the bond `p` (ends `a` at `n`, `b` at `m`); the tensor of
`n` is factorised as `Q · R` over the FRESH bond `(q, r) = (N.next, N.next + 1)` — the factorisation is DATA of
the step (`QRFact`: the contract of `tensor_qr_decomposition`, in any split mode; nothing about isometry is
needed for the value) —, `R` is contracted into the tensor of `m` over the old bond `p`.  Afterwards `n` carries
`Q` with the legs `q :: legs n \ a`, `m` carries `B' = Σ_p R · B` with the legs `r :: legs m \ b`, the bond `p`
is replaced by `(q, r)` and the counter is advanced by two.

`step_value`: one move leaves the value of the whole network unchanged for every assignment of the open legs
(instance of `Ptn.Ein.gauge_move_value`); `step_wf`: it keeps the network well-formed (so the next move's
premises are again available); `run_value`: induction over the list of operations. -/
namespace Ptn.C03

open Ptn.Ein

set_option linter.unusedSectionVars false
variable {R : Type} [CommSemiring R]

/-- the contract of one QR call: `A = Σ_{(q,r)} Q · R`, `Q` reads the kept legs of `A` and the new leg `q`,
`R` reads the new leg `r` and the leg `a` toward the neighbour -/
structure QRFact (dim : Nat → Nat) (A : Asg Nat → R) (legsA : List Nat) (a q r : Nat) where
  Q : Asg Nat → R
  Rm : Asg Nat → R
  exact : ∀ τ, A τ = sumPairs dim [(q, r)] (fun ρ => Q ρ * Rm ρ) τ
  readsQ : DependsOn (· ∈ q :: legsA.erase a) Q
  readsR : DependsOn (fun l => l = r ∨ l = a) Rm

/-- the network after the move -/
def gaugeStep (dim : Nat → Nat) (N : VNet R) (n m : Nat) (p : Nat × Nat) (a b : Nat)
    (F : QRFact dim (N.tens n) (N.legs n) a N.next (N.next + 1)) : VNet R where
  ids := N.ids
  legs := fun k => if k = n then N.next :: (N.legs n).erase a
    else if k = m then (N.next + 1) :: (N.legs m).erase b else N.legs k
  tens := fun k => if k = n then F.Q
    else if k = m then (fun τ => sumPairs dim [p] (fun ρ => F.Rm ρ * N.tens m ρ) τ) else N.tens k
  bonds := N.bonds.erase p ++ [(N.next, N.next + 1)]
  next := N.next + 2

inductive Step (dim : Nat → Nat) : VNet R → Op → VNet R → Prop
  | mk (N : VNet R) (n m : Nat) (p : Nat × Nat) (a b : Nat) (hn : n ∈ N.ids) (hm : m ∈ N.ids) (hnm : n ≠ m)
      (hj : N.Joined n m p a b) (F : QRFact dim (N.tens n) (N.legs n) a N.next (N.next + 1)) :
      Step dim N ⟨n, m⟩ (gaugeStep dim N n m p a b F)

inductive Run (dim : Nat → Nat) : VNet R → List Op → VNet R → Prop
  | nil (N : VNet R) : Run dim N [] N
  | cons {N N₁ N₂ : VNet R} {o : Op} {ops : List Op} : Step dim N o N₁ → Run dim N₁ ops N₂ → Run dim N (o :: ops) N₂

/-! ### value -/

theorem step_value (dim : Nat → Nat) {N N' : VNet R} {o : Op} (h : N.WF) (hs : Step dim N o N') (σ : Asg Nat) :
    N'.value dim σ = N.value dim σ := by
  cases hs with
  | mk n m p a b hn hm hnm hj F =>
  obtain ⟨hp, hab, ha, hb⟩ := hj
  -- the two ends of the bond
  have hpl : (p.1 = a ∧ p.2 = b) ∨ (p.1 = b ∧ p.2 = a) := by
    rcases hab with rfl | rfl <;> simp
  have hends : ∀ l, (l = p.1 ∨ l = p.2) ↔ (l = a ∨ l = b) := by
    intro l; rcases hpl with ⟨e1, e2⟩ | ⟨e1, e2⟩ <;> (rw [e1, e2]; try tauto)
  set rest := (N.ids.erase n).erase m with hrest
  have hperm := ids_perm_two hn hm hnm
  have hrestmem : ∀ k ∈ rest, k ∈ N.ids ∧ k ≠ n ∧ k ≠ m := fun k hk => mem_rest h.ids_nodup hk
  -- old network, exposed
  have hold : N.value dim σ =
      netValue dim (N.bonds.erase p ++ [(p.1, p.2)]) (N.tens n :: N.tens m :: rest.map N.tens) σ := by
    unfold VNet.value
    rw [netValue_perm_leaves dim _ (hperm.map N.tens) σ]
    have hbp : N.bonds.Perm (N.bonds.erase p ++ [(p.1, p.2)]) :=
      (List.perm_cons_erase hp).trans (List.perm_append_comm (l₁ := [p]))
    exact netValue_perm_bonds dim hbp h.bonds_nodup _ σ
  -- new network, exposed
  set N' := gaugeStep dim N n m p a b F with hN'
  have hnew : N'.value dim σ =
      netValue dim (N.bonds.erase p ++ [(N.next, N.next + 1)])
        (N'.tens m :: N'.tens n :: rest.map N.tens) σ := by
    unfold VNet.value
    have hperm' : N'.ids.Perm (m :: n :: rest) := hperm.trans (List.Perm.swap _ _ _)
    rw [netValue_perm_leaves dim _ (hperm'.map N'.tens) σ]
    have : rest.map N'.tens = rest.map N.tens := by
      apply List.map_congr_left
      intro k hk
      obtain ⟨_, h1, h2⟩ := hrestmem k hk
      simp [hN', gaugeStep, h1, h2]
    simp only [List.map_cons, this]
    rfl
  rw [hold, hnew]
  have htn : N'.tens n = F.Q := by simp [hN', gaugeStep]
  have htm : N'.tens m = fun τ => sumPairs dim [(p.1, p.2)] (fun ρ => F.Rm ρ * N.tens m ρ) τ := by
    simp [hN', gaugeStep, Ne.symm hnm]
  rw [htn, htm]
  have hlt := h.bond_lt
  have hpm := mem_pairLegs_of_mem hp
  have ha_lt : a < N.next := h.fresh n hn a ha
  have hb_lt : b < N.next := h.fresh m hm b hb
  apply gauge_move_value dim (N.bonds.erase p) (N.tens n) (N.tens m) F.Q F.Rm _ (rest.map N.tens)
    p.1 p.2 N.next (N.next + 1) (S₁ := fun l => l < N.next) (S₂ := fun l => l ≠ p.1 ∧ l ≠ p.2)
    F.exact (fun τ => rfl)
  · -- the rest reads old labels only
    intro f hf
    obtain ⟨k, hk, rfl⟩ := List.mem_map.1 hf
    exact (h.reads k (hrestmem k hk).1).mono (fun l hl => h.fresh k (hrestmem k hk).1 l hl)
  · -- the rest reads neither end of the bond
    intro f hf
    obtain ⟨k, hk, rfl⟩ := List.mem_map.1 hf
    obtain ⟨hk1, hk2, hk3⟩ := hrestmem k hk
    refine (h.reads k hk1).mono (fun l hl => ?_)
    have h1 : l ≠ a := fun e => hk2 (h.owner k hk1 n hn l hl (e ▸ ha))
    have h2 : l ≠ b := fun e => hk3 (h.owner k hk1 m hm l hl (e ▸ hb))
    have := hends l
    constructor
    · intro e; rcases this.1 (Or.inl e) with e' | e' <;> contradiction
    · intro e; rcases this.1 (Or.inr e) with e' | e' <;> contradiction
  · exact (h.reads m hm).mono (fun l hl => h.fresh m hm l hl)
  · -- Q reads neither end of the bond
    refine F.readsQ.mono (fun l hl => ?_)
    have hla : l ≠ a ∧ l ≠ b := by
      rcases List.mem_cons.1 hl with rfl | hl
      · omega
      · have h1 := ((h.legs_nodup n hn).mem_erase_iff).1 hl
        exact ⟨h1.1, fun e => hnm (h.owner n hn m hm l h1.2 (e ▸ hb))⟩
    have := hends l
    constructor
    · intro e; rcases this.1 (Or.inl e) with e' | e'
      · exact hla.1 e'
      · exact hla.2 e'
    · intro e; rcases this.1 (Or.inr e) with e' | e'
      · exact hla.1 e'
      · exact hla.2 e'
  · exact Nat.lt_irrefl _
  · show ¬ (N.next + 1 < N.next); omega
  · simp
  · simp
  · -- no leg bound twice
    have h1 : (Expr.pairLegs ((N.bonds.erase p ++ [(p.1, p.2)]) ++ [(N.next, N.next + 1)])).Perm
        (Expr.pairLegs N.bonds ++ [N.next, N.next + 1]) := by
      refine (Expr.pairLegs_append _ _).trans (List.Perm.append ?_ ?_)
      · exact pairLegs_perm (((List.perm_cons_erase hp).trans (List.perm_append_comm (l₁ := [p]))).symm)
      · simp [Expr.pairLegs]
    rw [h1.nodup_iff, List.nodup_append]
    refine ⟨h.bonds_nodup, by simp, ?_⟩
    intro x hx y hy hxy
    subst hxy
    have := hlt x hx
    simp only [List.mem_cons, List.not_mem_nil, or_false] at hy
    omega

/-! ### well-formedness is kept -/

section
variable {dim : Nat → Nat} {N : VNet R} {n m : Nat} {p : Nat × Nat} {a b : Nat}
  {F : QRFact dim (N.tens n) (N.legs n) a N.next (N.next + 1)}

theorem gaugeStep_legs_n : (gaugeStep dim N n m p a b F).legs n = N.next :: (N.legs n).erase a := by
  simp [gaugeStep]

theorem gaugeStep_legs_m (hnm : n ≠ m) :
    (gaugeStep dim N n m p a b F).legs m = (N.next + 1) :: (N.legs m).erase b := by
  simp [gaugeStep, Ne.symm hnm]

theorem gaugeStep_legs_other {k : Nat} (h1 : k ≠ n) (h2 : k ≠ m) :
    (gaugeStep dim N n m p a b F).legs k = N.legs k := by
  simp [gaugeStep, h1, h2]

/-- an old label in the new leg list of `k` was a leg of `k` before -/
theorem gaugeStep_old {k l : Nat} (hl : l ∈ (gaugeStep dim N n m p a b F).legs k) (hlt : l < N.next) :
    l ∈ N.legs k := by
  by_cases h1 : k = n
  · subst h1
    rw [gaugeStep_legs_n] at hl
    rcases List.mem_cons.1 hl with rfl | hl
    · omega
    · exact List.mem_of_mem_erase hl
  · by_cases h2 : k = m
    · subst h2
      rw [gaugeStep_legs_m (Ne.symm h1)] at hl
      rcases List.mem_cons.1 hl with rfl | hl
      · omega
      · exact List.mem_of_mem_erase hl
    · rwa [gaugeStep_legs_other h1 h2] at hl

/-- an old leg other than the two ends of the bond is kept -/
theorem gaugeStep_keep (h : N.WF) (hn : n ∈ N.ids) (hm : m ∈ N.ids) (hnm : n ≠ m) {k l : Nat}
    (hl : l ∈ N.legs k) (ha : l ≠ a) (hb : l ≠ b) : l ∈ (gaugeStep dim N n m p a b F).legs k := by
  by_cases h1 : k = n
  · subst h1
    rw [gaugeStep_legs_n]
    exact List.mem_cons_of_mem _ (((h.legs_nodup k hn).mem_erase_iff).2 ⟨ha, hl⟩)
  · by_cases h2 : k = m
    · subst h2
      rw [gaugeStep_legs_m hnm]
      exact List.mem_cons_of_mem _ (((h.legs_nodup k hm).mem_erase_iff).2 ⟨hb, hl⟩)
    · rwa [gaugeStep_legs_other h1 h2]

/-- a new label sits at exactly one node -/
theorem gaugeStep_new (h : N.WF) (hnm : n ≠ m) {k l : Nat} (hk : k ∈ N.ids)
    (hl : l ∈ (gaugeStep dim N n m p a b F).legs k) (hge : N.next ≤ l) :
    (l = N.next ∧ k = n) ∨ (l = N.next + 1 ∧ k = m) := by
  by_cases h1 : k = n
  · subst h1
    rw [gaugeStep_legs_n] at hl
    rcases List.mem_cons.1 hl with rfl | hl
    · exact Or.inl ⟨rfl, rfl⟩
    · have := h.fresh k hk l (List.mem_of_mem_erase hl); omega
  · by_cases h2 : k = m
    · subst h2
      rw [gaugeStep_legs_m hnm] at hl
      rcases List.mem_cons.1 hl with rfl | hl
      · exact Or.inr ⟨rfl, rfl⟩
      · have := h.fresh k hk l (List.mem_of_mem_erase hl); omega
    · rw [gaugeStep_legs_other h1 h2] at hl
      have := h.fresh k hk l hl; omega

end

theorem step_wf (dim : Nat → Nat) {N N' : VNet R} {o : Op} (h : N.WF) (hs : Step dim N o N') : N'.WF := by
  cases hs with
  | mk n m p a b hn hm hnm hj F =>
  obtain ⟨hp, hab, ha, hb⟩ := hj
  have ha_lt : a < N.next := h.fresh n hn a ha
  have hb_lt : b < N.next := h.fresh m hm b hb
  have hpl : (p.1 = a ∧ p.2 = b) ∨ (p.1 = b ∧ p.2 = a) := by
    rcases hab with rfl | rfl <;> simp
  refine ⟨h.ids_nodup, ?_, ?_, ?_, ?_, ?_, ?_⟩
  · -- legs of one node distinct
    intro k hk
    by_cases h1 : k = n
    · subst h1
      rw [gaugeStep_legs_n, List.nodup_cons]
      refine ⟨fun hmem => ?_, (h.legs_nodup k hk).erase a⟩
      have := h.fresh k hk _ (List.mem_of_mem_erase hmem); omega
    · by_cases h2 : k = m
      · subst h2
        rw [gaugeStep_legs_m hnm, List.nodup_cons]
        refine ⟨fun hmem => ?_, (h.legs_nodup k hk).erase b⟩
        have := h.fresh k hk _ (List.mem_of_mem_erase hmem); omega
      · rw [gaugeStep_legs_other h1 h2]; exact h.legs_nodup k hk
  · -- one owner per label
    intro k1 hk1 k2 hk2 l hl1 hl2
    by_cases hlt : l < N.next
    · exact h.owner k1 hk1 k2 hk2 l (gaugeStep_old hl1 hlt) (gaugeStep_old hl2 hlt)
    · have g1 := gaugeStep_new h hnm hk1 hl1 (by omega)
      have g2 := gaugeStep_new h hnm hk2 hl2 (by omega)
      rcases g1 with ⟨e1, rfl⟩ | ⟨e1, rfl⟩ <;> rcases g2 with ⟨e2, rfl⟩ | ⟨e2, rfl⟩
      · rfl
      · omega
      · omega
      · rfl
  · -- every tensor reads its own legs
    intro k hk
    by_cases h1 : k = n
    · subst h1
      have : (gaugeStep dim N k m p a b F).tens k = F.Q := by simp [gaugeStep]
      rw [this]
      refine F.readsQ.mono (fun l hl => ?_)
      rw [gaugeStep_legs_n]; exact hl
    · by_cases h2 : k = m
      · subst h2
        have : (gaugeStep dim N n k p a b F).tens k =
            sumPairs dim [p] (fun ρ => F.Rm ρ * N.tens k ρ) := by simp [gaugeStep, h1]
        rw [this]
        have hprod : DependsOn (fun l => (l = N.next + 1 ∨ l = a) ∨ l ∈ N.legs k)
            (fun ρ => F.Rm ρ * N.tens k ρ) :=
          DependsOn.mul (F.readsR.mono (fun l hl => Or.inl hl)) ((h.reads k hk).mono (fun l hl => Or.inr hl))
        refine (sumPairs_dependsOn dim [p] hprod).mono ?_
        intro l ⟨hl, hnot⟩
        have hne : l ≠ p.1 ∧ l ≠ p.2 := by
          simp only [Expr.pairLegs, List.map_cons, List.map_nil, List.mem_append, List.mem_cons,
            List.not_mem_nil, or_false, not_or] at hnot
          exact hnot
        have hla : l ≠ a ∧ l ≠ b := by
          rcases hpl with ⟨e1, e2⟩ | ⟨e1, e2⟩
          · rw [e1, e2] at hne; exact hne
          · rw [e1, e2] at hne; exact ⟨hne.2, hne.1⟩
        rw [gaugeStep_legs_m hnm]
        rcases hl with (rfl | e) | hl
        · exact List.mem_cons_self
        · exact absurd e hla.1
        · exact List.mem_cons_of_mem _ (((h.legs_nodup k hk).mem_erase_iff).2 ⟨hla.2, hl⟩)
      · have : (gaugeStep dim N n m p a b F).tens k = N.tens k := by simp [gaugeStep, h1, h2]
        rw [this, gaugeStep_legs_other h1 h2]; exact h.reads k hk
  · -- no leg bound twice
    show (Expr.pairLegs (N.bonds.erase p ++ [(N.next, N.next + 1)])).Nodup
    rw [(Expr.pairLegs_append _ _).nodup_iff, List.nodup_append]
    have h3 := h.erase_legs hp
    refine ⟨(List.Nodup.of_cons (List.Nodup.of_cons h3)), by simp [Expr.pairLegs], ?_⟩
    intro x hx y hy hxy
    subst hxy
    have hx' : x ∈ Expr.pairLegs N.bonds := by
      rw [(pairLegs_perm (List.perm_cons_erase hp)).mem_iff, (pairLegs_cons_perm p _).mem_iff]
      simp [hx]
    have := h.bond_lt x hx'
    simp [Expr.pairLegs] at hy
    omega
  · -- bonds join legs of nodes
    intro p' hp'
    show (∃ k ∈ N.ids, p'.1 ∈ (gaugeStep dim N n m p a b F).legs k) ∧
      (∃ k ∈ N.ids, p'.2 ∈ (gaugeStep dim N n m p a b F).legs k)
    rcases List.mem_append.1 hp' with hp' | hp'
    · have hp'' : p' ∈ N.bonds := List.mem_of_mem_erase hp'
      have hne := h.erase_ne hp
      have hm' := mem_pairLegs_of_mem hp'
      obtain ⟨⟨k1, hk1, hl1⟩, ⟨k2, hk2, hl2⟩⟩ := h.bonds_legs p' hp''
      have e1 := hne _ hm'.1
      have e2 := hne _ hm'.2
      have f1 : p'.1 ≠ a ∧ p'.1 ≠ b := by
        rcases hpl with ⟨x1, x2⟩ | ⟨x1, x2⟩
        · rw [x1, x2] at e1; exact e1
        · rw [x1, x2] at e1; exact ⟨e1.2, e1.1⟩
      have f2 : p'.2 ≠ a ∧ p'.2 ≠ b := by
        rcases hpl with ⟨x1, x2⟩ | ⟨x1, x2⟩
        · rw [x1, x2] at e2; exact e2
        · rw [x1, x2] at e2; exact ⟨e2.2, e2.1⟩
      exact ⟨⟨k1, hk1, gaugeStep_keep h hn hm hnm hl1 f1.1 f1.2⟩,
        ⟨k2, hk2, gaugeStep_keep h hn hm hnm hl2 f2.1 f2.2⟩⟩
    · simp only [List.mem_cons, List.not_mem_nil, or_false] at hp'
      subst hp'
      refine ⟨⟨n, hn, ?_⟩, ⟨m, hm, ?_⟩⟩
      · rw [gaugeStep_legs_n]; exact List.mem_cons_self
      · rw [gaugeStep_legs_m hnm]; exact List.mem_cons_self
  · -- the counter stays above every label
    intro k hk l hl
    show l < N.next + 2
    by_cases hlt : l < N.next
    · omega
    · rcases gaugeStep_new h hnm hk hl (by omega) with ⟨e, _⟩ | ⟨e, _⟩ <;> omega

/-- **Any run of QR gauge moves leaves the represented tensor unchanged** and keeps the network
well-formed. -/
theorem run_value (dim : Nat → Nat) {N N' : VNet R} {ops : List Op} (h : N.WF) (hr : Run dim N ops N') :
    N'.WF ∧ ∀ σ, N'.value dim σ = N.value dim σ := by
  induction hr with
  | nil N => exact ⟨h, fun _ => rfl⟩
  | cons hs _ ih =>
    obtain ⟨h2, hv⟩ := ih (step_wf dim h hs)
    exact ⟨h2, fun σ => (hv σ).trans (step_value dim h hs σ)⟩

/-! ### the structural premises of the next move are always available -/

/-- `n` and `m` are nodes of the network joined by a bond -/
def VNet.Adj (N : VNet R) (n m : Nat) : Prop :=
  n ∈ N.ids ∧ m ∈ N.ids ∧ ∃ p a b, N.Joined n m p a b

/-- a move keeps every adjacency (the bond between the two nodes of the move is replaced by the fresh one,
every other bond keeps both ends) -/
theorem step_adj (dim : Nat → Nat) {N N' : VNet R} {o : Op} (h : N.WF) (hs : Step dim N o N') {n' m' : Nat}
    (hadj : N.Adj n' m') : N'.Adj n' m' := by
  cases hs with
  | mk n m p a b hn hm hnm hj F =>
  obtain ⟨hp, hab, ha, hb⟩ := hj
  obtain ⟨hn', hm', p', a', b', hp', hab', ha', hb'⟩ := hadj
  refine ⟨hn', hm', ?_⟩
  by_cases hpp : p' = p
  · subst hpp
    have hcase : (a' = a ∧ b' = b) ∨ (a' = b ∧ b' = a) := by
      rcases hab with e | e <;> rcases hab' with e' | e' <;> rw [e] at e' <;> simp at e' <;> omega
    rcases hcase with ⟨e1, e2⟩ | ⟨e1, e2⟩
    · subst e1; subst e2
      have e3 : n' = n := h.owner n' hn' n hn _ ha' ha
      have e4 : m' = m := h.owner m' hm' m hm _ hb' hb
      subst e3; subst e4
      refine ⟨(N.next, N.next + 1), N.next, N.next + 1, ?_, Or.inl rfl, ?_, ?_⟩
      · show _ ∈ N.bonds.erase p' ++ [(N.next, N.next + 1)]; simp
      · rw [gaugeStep_legs_n]; exact List.mem_cons_self
      · rw [gaugeStep_legs_m hnm]; exact List.mem_cons_self
    · subst e1; subst e2
      have e3 : n' = m := h.owner n' hn' m hm _ ha' hb
      have e4 : m' = n := h.owner m' hm' n hn _ hb' ha
      subst e3; subst e4
      refine ⟨(N.next, N.next + 1), N.next + 1, N.next, ?_, Or.inr rfl, ?_, ?_⟩
      · show _ ∈ N.bonds.erase p' ++ [(N.next, N.next + 1)]; simp
      · rw [gaugeStep_legs_m hnm]; exact List.mem_cons_self
      · rw [gaugeStep_legs_n]; exact List.mem_cons_self
  · have hpe : p' ∈ N.bonds.erase p := (List.mem_erase_of_ne hpp).2 hp'
    have hne := h.erase_ne hp
    have hm2 := mem_pairLegs_of_mem hpe
    have hpl : (p.1 = a ∧ p.2 = b) ∨ (p.1 = b ∧ p.2 = a) := by
      rcases hab with rfl | rfl <;> simp
    have hpl' : (p'.1 = a' ∧ p'.2 = b') ∨ (p'.1 = b' ∧ p'.2 = a') := by
      rcases hab' with rfl | rfl <;> simp
    have f : (a' ≠ a ∧ a' ≠ b) ∧ (b' ≠ a ∧ b' ≠ b) := by
      have e1 := hne _ hm2.1
      have e2 := hne _ hm2.2
      rcases hpl with ⟨x1, x2⟩ | ⟨x1, x2⟩ <;> rcases hpl' with ⟨y1, y2⟩ | ⟨y1, y2⟩ <;>
        rw [x1, x2] at e1 e2 <;> rw [y1] at e1 <;> rw [y2] at e2 <;> tauto
    refine ⟨p', a', b', ?_, hab', gaugeStep_keep h hn hm hnm ha' f.1.1 f.1.2,
      gaugeStep_keep h hn hm hnm hb' f.2.1 f.2.2⟩
    show p' ∈ N.bonds.erase p ++ [(N.next, N.next + 1)]
    exact List.mem_append_left _ hpe

theorem run_adj (dim : Nat → Nat) {N N' : VNet R} {ops : List Op} (h : N.WF) (hr : Run dim N ops N')
    {n m : Nat} (hadj : N.Adj n m) : N'.Adj n m := by
  induction hr with
  | nil N => exact hadj
  | cons hs _ ih => exact ih (step_wf dim h hs) (step_adj dim h hs hadj)

/-- **A run of gauge moves between adjacent nodes never gets stuck for a structural reason**: after any
prefix of the run the two nodes of the next operation are still joined by a bond, so every factorisation of
the tensor of `n` (`QRFact`, the only remaining premise) yields the next step. -/
theorem run_progress (dim : Nat → Nat) {N N₁ : VNet R} {ops : List Op} (h : N.WF) (hr : Run dim N ops N₁)
    {n m : Nat} (hadj : N.Adj n m) (hnm : n ≠ m) :
    ∃ p a b, n ∈ N₁.ids ∧ m ∈ N₁.ids ∧ N₁.Joined n m p a b ∧
      ∀ F : QRFact dim (N₁.tens n) (N₁.legs n) a N₁.next (N₁.next + 1),
        Step dim N₁ ⟨n, m⟩ (gaugeStep dim N₁ n m p a b F) := by
  obtain ⟨hn, hm, p, a, b, hj⟩ := run_adj dim h hr hadj
  exact ⟨p, a, b, hn, hm, hj, fun F => Step.mk N₁ n m p a b hn hm hnm hj F⟩

end Ptn.C03
