import Ptn.C03.Iso
import Ptn.C03.Tree
import Ptn.Common.EinsumIso
/-! From a valued network (`VNet`) with the shape of a rooted tree to the doubled tree `Kids` of
`Ptn/Common/EinsumIso.lean`.

`r : RTree` is a tree ROOTED AT THE CENTRE (for a centre that is not the root of the library's tree: the
re-rooted tree of C17, see `Reroot.lean` of this directory); `up k` is the leg of node `k` on the bond to its
parent, `dn k` the leg of the parent on that bond.  `subOf` / `kidsOf` / `centreOf` build the doubled tree:
per node the ket copy and the conjugated copy of its tensor, its open legs paired ket-with-bra, per child the
two bonds.  `EdgeOK`: what is needed per tree edge - the bond exists in the network, has one dimension, and the
child's tensor is an isometry (index form) toward it.

`canon_of_tree`: these per-edge facts give `Kids.Canon` and pairwise distinct labels, for every tree. -/
namespace Ptn.C03

open Ptn.Ein Ptn.C17 Ptn.C17.RTree

set_option linter.unusedSectionVars false
set_option linter.unusedVariables false
variable {R : Type} [CommSemiring R]

/-! ### lists -/

/-- the elements of `l` outside `X`, followed by `X`, are `l` again -/
theorem filter_compl_perm {l X : List Nat} (hl : l.Nodup) (hX : X.Nodup) (hsub : ∀ x ∈ X, x ∈ l) :
    (l.filter (fun a => decide (a ∉ X)) ++ X).Perm l := by
  rw [List.perm_ext_iff_of_nodup]
  · intro a
    simp only [List.mem_append, List.mem_filter, decide_eq_true_eq]
    by_cases ha : a ∈ X
    · simp [ha, hsub a ha]
    · simp [ha]
  · rw [List.nodup_append]
    refine ⟨hl.filter _, hX, ?_⟩
    intro a ha b hb hab
    subst hab
    simp only [List.mem_filter, decide_eq_true_eq] at ha
    exact ha.2 hb
  · exact hl

/-- … with one element `u` of `X` taken out on both sides -/
theorem filter_compl_perm_erase {l D : List Nat} {u : Nat} (hl : l.Nodup) (hX : (u :: D).Nodup)
    (hsub : ∀ x ∈ u :: D, x ∈ l) :
    (l.filter (fun a => decide (a ∉ u :: D)) ++ D).Perm (l.erase u) := by
  have h1 := filter_compl_perm hl hX hsub
  have h2 : l.Perm (u :: l.erase u) := List.perm_cons_erase (hsub u (by simp))
  exact ((List.perm_middle.symm.trans h1).trans h2).cons_inv

theorem pairLegs_map_dbl (X : List Nat) :
    Expr.pairLegs (X.map dbl) = X.map DL.ket ++ X.map DL.bra := by
  simp [Expr.pairLegs, dbl, List.map_map, Function.comp_def]

theorem pairLegs_map_dbl_nodup {X : List Nat} (h : X.Nodup) : (Expr.pairLegs (X.map dbl)).Nodup := by
  rw [pairLegs_map_dbl, List.nodup_append]
  refine ⟨h.map (fun _ _ e => DL.ket.inj e), h.map (fun _ _ e => DL.bra.inj e), ?_⟩
  intro a ha b hb hab
  subst hab
  obtain ⟨x, _, rfl⟩ := List.mem_map.1 ha
  obtain ⟨y, _, hy⟩ := List.mem_map.1 hb
  cases hy

/-! ### the two copies of a tensor read the two copies of its legs -/

theorem ketT_dependsOn {T : Asg Nat → R} {legs : List Nat} (h : DependsOn (· ∈ legs) T) :
    DependsOn (· ∈ legs.map DL.ket) (ketT T) := by
  intro σ τ hst
  apply h
  intro l hl
  exact hst (DL.ket l) (List.mem_map.2 ⟨l, hl, rfl⟩)

theorem braT_dependsOn (cj : R → R) {T : Asg Nat → R} {legs : List Nat} (h : DependsOn (· ∈ legs) T) :
    DependsOn (· ∈ legs.map DL.bra) (braT cj T) := by
  intro σ τ hst
  show cj _ = cj _
  congr 1
  apply h
  intro l hl
  exact hst (DL.bra l) (List.mem_map.2 ⟨l, hl, rfl⟩)

/-! ### bonds of a well-formed network -/

/-- two bonds that share a label are the same bond, with the same ends -/
theorem joined_share {N : VNet R} (h : N.WF) {k i k' i' : Nat} {p p' : Nat × Nat} {a b a' b' : Nat}
    (h1 : N.Joined k i p a b) (h2 : N.Joined k' i' p' a' b')
    (hs : a = a' ∨ a = b' ∨ b = a' ∨ b = b') : a ≠ b ∧ ((a = a' ∧ b = b') ∨ (a = b' ∧ b = a')) := by
  obtain ⟨hp, hab, _, _⟩ := h1
  obtain ⟨hp', hab', _, _⟩ := h2
  have hne : p.1 ≠ p.2 := by
    have := h.erase_legs hp
    simp only [List.nodup_cons, List.mem_cons, not_or] at this
    exact this.1.1
  have hpp : p = p' := by
    apply Classical.byContradiction
    intro hne'
    have hpe : p' ∈ N.bonds.erase p := (List.mem_erase_of_ne (Ne.symm hne')).2 hp'
    have := h.erase_ne hp
    have m2 := mem_pairLegs_of_mem hpe
    have e1 := this _ m2.1
    have e2 := this _ m2.2
    rcases hab with rfl | rfl <;> rcases hab' with rfl | rfl <;> simp only at e1 e2 <;>
      rcases hs with e | e | e | e <;> subst e <;> simp_all
  subst hpp
  have hne' : p.2 ≠ p.1 := hne.symm
  rcases hab with rfl | rfl <;> rcases hab' with e | e <;> simp only [Prod.mk.injEq] at e hne hne' <;>
    obtain ⟨e1, e2⟩ := e <;> subst e1 <;> subst e2 <;> simp_all

/-! ### the doubled tree of a network -/

/-- the legs of a node toward its children -/
def dnLegs (dn : Nat → Nat) (ks : List RTree) : List Nat := ks.map (fun t => dn t.rid)

/-- the legs of node `k` outside `excl`, ket copy paired with bra copy -/
def physOf (N : VNet R) (k : Nat) (excl : List Nat) : List (DL × DL) :=
  ((N.legs k).filter (fun l => decide (l ∉ excl))).map dbl

mutual
/-- the doubled sub-tree below (and including) a non-centre node -/
def subOf (cj : R → R) (N : VNet R) (up dn : Nat → Nat) : RTree → Sub DL R
  | .node k ks => .node (ketT (N.tens k)) (braT cj (N.tens k)) (DL.ket (up k)) (DL.bra (up k))
      (physOf N k (up k :: dnLegs dn ks)) (kidsOf cj N up dn ks)
def kidsOf (cj : R → R) (N : VNet R) (up dn : Nat → Nat) : List RTree → Kids DL R
  | [] => .nil
  | t :: ts => .cons (DL.ket (dn t.rid)) (DL.bra (dn t.rid)) (subOf cj N up dn t) (kidsOf cj N up dn ts)
end

/-- the norm network seen from the root of `r` -/
def centreOf (cj : R → R) (N : VNet R) (up dn : Nat → Nat) (r : RTree) : Centre DL R :=
  ⟨ketT (N.tens r.rid), braT cj (N.tens r.rid), physOf N r.rid (dnLegs dn r.kids), kidsOf cj N up dn r.kids⟩

section
variable (cj : R → R) (N : VNet R) (up dn : Nat → Nat)

theorem subOf_u (t : RTree) : (subOf cj N up dn t).u = DL.ket (up t.rid) := by
  cases t; simp [subOf, Sub.u, rid]

theorem subOf_u' (t : RTree) : (subOf cj N up dn t).u' = DL.bra (up t.rid) := by
  cases t; simp [subOf, Sub.u', rid]

theorem kidsOf_kd (ks : List RTree) : (kidsOf cj N up dn ks).kd = (dnLegs dn ks).map DL.ket := by
  induction ks with
  | nil => simp [kidsOf, Kids.kd, dnLegs]
  | cons t ts ih => simp only [kidsOf, Kids.kd, ih, dnLegs, List.map_cons]

theorem kidsOf_bd (ks : List RTree) : (kidsOf cj N up dn ks).bd = (dnLegs dn ks).map DL.bra := by
  induction ks with
  | nil => simp [kidsOf, Kids.bd, dnLegs]
  | cons t ts ih => simp only [kidsOf, Kids.bd, ih, dnLegs, List.map_cons]

theorem kidsOf_pairs (ks : List RTree) : (kidsOf cj N up dn ks).pairs = (dnLegs dn ks).map dbl := by
  induction ks with
  | nil => simp [kidsOf, Kids.pairs, dnLegs]
  | cons t ts ih => simp only [kidsOf, Kids.pairs, ih, dnLegs, List.map_cons, dbl]

theorem physOf_fst (k : Nat) (X : List Nat) :
    (physOf N k X).map Prod.fst = ((N.legs k).filter (fun l => decide (l ∉ X))).map DL.ket := by
  simp [physOf, dbl, List.map_map, Function.comp_def]

theorem physOf_snd (k : Nat) (X : List Nat) :
    (physOf N k X).map Prod.snd = ((N.legs k).filter (fun l => decide (l ∉ X))).map DL.bra := by
  simp [physOf, dbl, List.map_map, Function.comp_def]

end

/-- the tensor of a node and its conjugated copy -/
def nodeLeaves (cj : R → R) (N : VNet R) (k : Nat) : List (Asg DL → R) := [ketT (N.tens k), braT cj (N.tens k)]

/-- the leaves of the doubled tree are the tensors and conjugated tensors of the tree's nodes, in pre-order -/
theorem subOf_leaves (cj : R → R) (N : VNet R) (up dn : Nat → Nat) :
    (∀ t : RTree, (subOf cj N up dn t).leaves = (ids t).flatMap (nodeLeaves cj N)) ∧
    (∀ ks : List RTree, (kidsOf cj N up dn ks).leaves = (idsL ks).flatMap (nodeLeaves cj N)) := by
  apply induct
  · intro k ks ih
    simp [subOf, Sub.leaves, ih, ids_node, nodeLeaves]
  · simp [kidsOf, Kids.leaves]
  · intro t ts iht ihts
    simp [kidsOf, Kids.leaves, iht, ihts, idsL_cons]

/-- the leaves of the norm network along `r`: all tensors and conjugated tensors of the nodes of `r` -/
theorem centreOf_normLeaves (cj : R → R) (N : VNet R) (up dn : Nat → Nat) (r : RTree) :
    (centreOf cj N up dn r).normLeaves = (ids r).flatMap (nodeLeaves cj N) := by
  obtain ⟨c, ks⟩ := r
  simp [centreOf, Centre.normLeaves, (subOf_leaves cj N up dn).2 ks, ids_node, nodeLeaves, rid, kids]

/-! ### what is needed per tree edge -/

/-- the edge parent `i` - child `k`: both are nodes of the network, joined by a bond whose end at `k` is
`up k` and whose end at `i` is `dn k`; the bond has one dimension; the tensor of `k` is an isometry (index
form) toward `up k` -/
def EdgeOK (dim : Nat → Nat) (cj : R → R) (N : VNet R) (up dn : Nat → Nat) (i k : Nat) : Prop :=
  i ∈ N.ids ∧ k ∈ N.ids ∧ (∃ p, N.Joined k i p (up k) (dn k)) ∧ dim (dn k) = dim (up k) ∧
    IsoToward dim cj (N.tens k) (N.legs k) (up k)

/-- both copies of the legs of a node -/
def dlegs (N : VNet R) (k : Nat) : List DL := (N.legs k).map DL.ket ++ (N.legs k).map DL.bra

/-- both copies of the legs of a list of nodes -/
def allLabels (N : VNet R) (ns : List Nat) : List DL := ns.flatMap (dlegs N)

theorem child_edge {k : Nat} {ks : List RTree} {t : RTree} (ht : t ∈ ks) : (k, t.rid) ∈ edgesL k ks := by
  induction ks with
  | nil => simp at ht
  | cons s ss ih =>
    rw [edgesL_cons]
    rcases List.mem_cons.1 ht with rfl | ht
    · exact List.mem_cons_self
    · exact List.mem_cons_of_mem _ (List.mem_append_right _ (ih ht))

theorem rid_mem_idsL {ks : List RTree} {t : RTree} (ht : t ∈ ks) : t.rid ∈ idsL ks := by
  induction ks with
  | nil => simp at ht
  | cons s ss ih =>
    rw [idsL_cons]
    rcases List.mem_cons.1 ht with rfl | ht
    · exact List.mem_append_left _ (rid_mem_ids _)
    · exact List.mem_append_right _ (ih ht)

theorem rids_nodup {ks : List RTree} (h : (idsL ks).Nodup) : (ks.map rid).Nodup := by
  induction ks with
  | nil => simp
  | cons s ss ih =>
    rw [idsL_cons, List.nodup_append] at h
    rw [List.map_cons, List.nodup_cons]
    refine ⟨?_, ih h.2.1⟩
    intro hm
    obtain ⟨t, ht, e⟩ := List.mem_map.1 hm
    exact h.2.2 _ (rid_mem_ids s) _ (rid_mem_idsL ht) e.symm

section
variable {dim : Nat → Nat} {cj : R → R} {N : VNet R} {up dn : Nat → Nat}

/-- the legs of `k` toward its children are legs of `k`, pairwise distinct -/
theorem dnLegs_facts (h : N.WF) {k : Nat} {ks : List RTree} (hr : (ks.map rid).Nodup)
    (hE : ∀ t ∈ ks, EdgeOK dim cj N up dn k t.rid) :
    (dnLegs dn ks).Nodup ∧ ∀ x ∈ dnLegs dn ks, x ∈ N.legs k := by
  induction ks with
  | nil => simp [dnLegs]
  | cons s ss ih =>
    rw [List.map_cons, List.nodup_cons] at hr
    obtain ⟨ih1, ih2⟩ := ih hr.2 (fun t ht => hE t (List.mem_cons_of_mem _ ht))
    obtain ⟨_, hs, ⟨p, hj⟩, _, _⟩ := hE s List.mem_cons_self
    simp only [dnLegs, List.map_cons, List.nodup_cons, List.mem_cons, forall_eq_or_imp]
    refine ⟨⟨?_, ih1⟩, hj.2.2.2, ih2⟩
    intro hm
    obtain ⟨t, ht, e⟩ := List.mem_map.1 hm
    obtain ⟨_, ht', ⟨p', hj'⟩, _, _⟩ := hE t (List.mem_cons_of_mem _ ht)
    obtain ⟨hne, hc⟩ := joined_share h hj hj' (Or.inr (Or.inr (Or.inr e.symm)))
    rcases hc with ⟨e1, _⟩ | ⟨e1, e2⟩
    · have : s.rid = t.rid := h.owner _ hs _ ht' _ hj.2.2.1 (e1 ▸ hj'.2.2.1)
      exact hr.1 (List.mem_map.2 ⟨t, ht, this.symm⟩)
    · exact hne (e1.trans e)

/-- the leg of `k` toward its parent is not a leg toward a child -/
theorem up_notin_dnLegs (h : N.WF) {i k : Nat} {ks : List RTree} (hEk : EdgeOK dim cj N up dn i k)
    (hE : ∀ t ∈ ks, EdgeOK dim cj N up dn k t.rid) (hi : ∀ t ∈ ks, t.rid ≠ i) : up k ∉ dnLegs dn ks := by
  intro hm
  obtain ⟨t, ht, e⟩ := List.mem_map.1 hm
  obtain ⟨hi', _, ⟨p, hj⟩, _, _⟩ := hEk
  obtain ⟨_, ht', ⟨p', hj'⟩, _, _⟩ := hE t ht
  obtain ⟨hne', _⟩ := joined_share h hj' hj' (Or.inl rfl)
  obtain ⟨hne, hc⟩ := joined_share h hj hj' (Or.inr (Or.inl e.symm))
  rcases hc with ⟨e1, _⟩ | ⟨_, e2⟩
  · exact hne' (e1.symm.trans e.symm)
  · exact hi t ht (h.owner _ ht' _ hi' _ hj'.2.2.1 (e2 ▸ hj.2.2.2))

/-- one node: its two copies read their own labels, and the isometry toward `up k` in the form of
`Sub.Canon` (the sum runs over the open legs and the legs toward the children) -/
theorem node_canon (h : N.WF) {k : Nat} {ks : List RTree} (hk : k ∈ N.ids) (hu : up k ∈ N.legs k)
    (hX : (up k :: dnLegs dn ks).Nodup) (hsub : ∀ x ∈ dnLegs dn ks, x ∈ N.legs k)
    (hiso : IsoToward dim cj (N.tens k) (N.legs k) (up k))
    (hK : (kidsOf cj N up dn ks).Canon (ddim dim)) :
    (subOf cj N up dn (.node k ks)).Canon (ddim dim) := by
  rw [subOf, Sub.Canon]
  refine ⟨?_, ?_, rfl, ?_, hK⟩
  · refine (ketT_dependsOn (h.reads k hk)).mono ?_
    intro x hx
    obtain ⟨l, hl, rfl⟩ := List.mem_map.1 hx
    rw [physOf_fst, kidsOf_kd]
    by_cases h1 : l = up k
    · subst h1; exact List.mem_cons_self
    · refine List.mem_cons_of_mem _ (List.mem_append.2 ?_)
      by_cases h2 : l ∈ dnLegs dn ks
      · exact Or.inr (List.mem_map_of_mem h2)
      · exact Or.inl (List.mem_map_of_mem (List.mem_filter.2 ⟨hl, by simp [h1, h2]⟩))
  · refine (braT_dependsOn cj (h.reads k hk)).mono ?_
    intro x hx
    obtain ⟨l, hl, rfl⟩ := List.mem_map.1 hx
    rw [physOf_snd, kidsOf_bd]
    by_cases h1 : l = up k
    · subst h1; exact List.mem_cons_self
    · refine List.mem_cons_of_mem _ (List.mem_append.2 ?_)
      by_cases h2 : l ∈ dnLegs dn ks
      · exact Or.inr (List.mem_map_of_mem h2)
      · exact Or.inl (List.mem_map_of_mem (List.mem_filter.2 ⟨hl, by simp [h1, h2]⟩))
  · intro τ h1 h2
    have hp := filter_compl_perm_erase (h.legs_nodup k hk) hX
      (by intro x hx; rcases List.mem_cons.1 hx with rfl | hx
          · exact hu
          · exact hsub x hx)
    have hnd : (Expr.pairLegs ((((N.legs k).filter (fun a => decide (a ∉ up k :: dnLegs dn ks))) ++
        dnLegs dn ks).map dbl)).Nodup :=
      pairLegs_map_dbl_nodup (hp.nodup_iff.2 ((h.legs_nodup k hk).erase _))
    rw [kidsOf_pairs, physOf, ← List.map_append, sumPairs_perm (ddim dim) (hp.map dbl) hnd]
    exact hiso τ h1 h2

/-- the labels of the doubled sub-tree of one node, given those of its children -/
theorem node_labels (h : N.WF) {k : Nat} {ks : List RTree} (hk : k ∈ N.ids) (hu : up k ∈ N.legs k)
    (hX : (up k :: dnLegs dn ks).Nodup) (hsub : ∀ x ∈ dnLegs dn ks, x ∈ N.legs k) {A : List DL}
    (hKL : (kidsOf cj N up dn ks).labels.Perm
      ((dnLegs dn ks).map DL.ket ++ (dnLegs dn ks).map DL.bra ++ A)) :
    (subOf cj N up dn (.node k ks)).labels.Perm (dlegs N k ++ A) := by
  have hL := filter_compl_perm (h.legs_nodup k hk) hX
    (by intro x hx; rcases List.mem_cons.1 hx with rfl | hx
        · exact hu
        · exact hsub x hx)
  rw [List.perm_iff_count]
  intro a
  have c1 := (hL.map DL.ket).count_eq a
  have c2 := (hL.map DL.bra).count_eq a
  have c3 := hKL.count_eq a
  simp only [subOf, Sub.labels, physOf, pairLegs_map_dbl, dlegs, List.count_cons, List.count_append,
    List.map_append, List.map_cons] at c1 c2 c3 ⊢
  omega

/-- **Induction over the tree.**  For every sub-tree `t` hanging off a parent `i` outside it (and every
forest `ks` of children of a node `k` outside it): if every edge satisfies `EdgeOK`, the doubled sub-tree is
canonical toward the parent in the sense of `Ptn.Ein.Sub.Canon`, and its labels are exactly the two copies of
the legs of its nodes. -/
theorem tree_canon (h : N.WF) :
    (∀ t : RTree, ∀ i, i ∉ ids t → (ids t).Nodup → EdgeOK dim cj N up dn i t.rid →
      (∀ e ∈ edges t, EdgeOK dim cj N up dn e.1 e.2) →
      (subOf cj N up dn t).Canon (ddim dim) ∧ (subOf cj N up dn t).labels.Perm (allLabels N (ids t))) ∧
    (∀ ks : List RTree, ∀ k, k ∉ idsL ks → (idsL ks).Nodup →
      (∀ e ∈ edgesL k ks, EdgeOK dim cj N up dn e.1 e.2) →
      (kidsOf cj N up dn ks).Canon (ddim dim) ∧ (kidsOf cj N up dn ks).labels.Perm
        ((dnLegs dn ks).map DL.ket ++ (dnLegs dn ks).map DL.bra ++ allLabels N (idsL ks))) := by
  apply induct
  · intro k ks ih i hi hnd hEk hE
    rw [ids_node] at hi hnd
    rw [List.nodup_cons] at hnd
    rw [edges_node] at hE
    obtain ⟨hKC, hKL⟩ := ih k hnd.1 hnd.2 hE
    have hEc : ∀ t ∈ ks, EdgeOK dim cj N up dn k t.rid := fun t ht => hE _ (child_edge ht)
    obtain ⟨hD1, hD2⟩ := dnLegs_facts h (rids_nodup hnd.2) hEc
    have hik : ∀ t ∈ ks, t.rid ≠ i := by
      intro t ht e
      exact hi (List.mem_cons_of_mem _ (e ▸ rid_mem_idsL ht))
    have hu := up_notin_dnLegs h hEk hEc hik
    have hX : (up k :: dnLegs dn ks).Nodup := List.nodup_cons.2 ⟨hu, hD1⟩
    obtain ⟨_, hk, ⟨p, hj⟩, _, hiso⟩ := hEk
    simp only [rid] at hk hj hiso
    refine ⟨node_canon h hk hj.2.2.1 hX hD2 hiso hKC, ?_⟩
    have := node_labels (cj := cj) h hk hj.2.2.1 hX hD2 hKL
    simpa [allLabels, ids_node] using this
  · intro k _ _ _
    simp [kidsOf, Kids.Canon, Kids.labels, dnLegs, allLabels]
  · intro t ts iht ihts k hk hnd hE
    rw [idsL_cons] at hk hnd
    rw [List.nodup_append] at hnd
    rw [List.mem_append, not_or] at hk
    have hE0 : EdgeOK dim cj N up dn k t.rid := hE _ (by rw [edgesL_cons]; exact List.mem_cons_self)
    obtain ⟨hsC, hsL⟩ := iht k hk.1 hnd.1 hE0
      (fun e he => hE e (by rw [edgesL_cons]; exact List.mem_cons_of_mem _ (List.mem_append_left _ he)))
    obtain ⟨hrC, hrL⟩ := ihts k hk.2 hnd.2.1
      (fun e he => hE e (by rw [edgesL_cons]; exact List.mem_cons_of_mem _ (List.mem_append_right _ he)))
    constructor
    · rw [kidsOf, Kids.Canon, subOf_u, subOf_u']
      exact ⟨hE0.2.2.2.1, hE0.2.2.2.1, hsC, hrC⟩
    · rw [List.perm_iff_count]
      intro a
      have c1 := hsL.count_eq a
      have c2 := hrL.count_eq a
      simp only [kidsOf, Kids.labels, dnLegs, allLabels, idsL_cons, List.flatMap_append, List.count_cons,
        List.count_append, List.map_cons] at c1 c2 ⊢
      omega

theorem dlegs_nodup (h : N.WF) {k : Nat} (hk : k ∈ N.ids) : (dlegs N k).Nodup := by
  have := pairLegs_map_dbl_nodup (h.legs_nodup k hk)
  rwa [pairLegs_map_dbl] at this

theorem mem_dlegs {k : Nat} {x : DL} : x ∈ dlegs N k ↔ ∃ l ∈ N.legs k, x = DL.ket l ∨ x = DL.bra l := by
  simp only [dlegs, List.mem_append, List.mem_map]
  constructor
  · rintro (⟨l, hl, rfl⟩ | ⟨l, hl, rfl⟩)
    · exact ⟨l, hl, Or.inl rfl⟩
    · exact ⟨l, hl, Or.inr rfl⟩
  · rintro ⟨l, hl, rfl | rfl⟩
    · exact Or.inl ⟨l, hl, rfl⟩
    · exact Or.inr ⟨l, hl, rfl⟩

/-- the two copies of the legs of distinct nodes of a well-formed network are pairwise distinct -/
theorem allLabels_nodup (h : N.WF) {ns : List Nat} (hnd : ns.Nodup) (hsub : ∀ n ∈ ns, n ∈ N.ids) :
    (allLabels N ns).Nodup := by
  induction ns with
  | nil => simp [allLabels]
  | cons n ns ih =>
    rw [List.nodup_cons] at hnd
    simp only [allLabels, List.flatMap_cons]
    rw [List.nodup_append]
    refine ⟨dlegs_nodup h (hsub n List.mem_cons_self), ih hnd.2 (fun m hm => hsub m (List.mem_cons_of_mem _ hm)), ?_⟩
    intro x hx y hy hxy
    subst hxy
    obtain ⟨n', hn', hx'⟩ := List.mem_flatMap.1 hy
    obtain ⟨l, hl, e⟩ := mem_dlegs.1 hx
    obtain ⟨l', hl', e'⟩ := mem_dlegs.1 hx'
    have : l = l' := by
      rcases e with rfl | rfl <;> rcases e' with e' | e' <;> cases e' <;> rfl
    subst this
    have := h.owner n (hsub n List.mem_cons_self) n' (hsub n' (List.mem_cons_of_mem _ hn')) l hl hl'
    exact hnd.1 (this ▸ hn')

/-- **A network with the shape of a tree whose non-root nodes are isometries toward their parents is in
canonical form with the root as centre** (`Ptn.Ein.Centre.Canon`), and the labels of its norm network are
pairwise distinct. -/
theorem centre_canon_of_tree (h : N.WF) (r : RTree) (hnd : (ids r).Nodup) (hsub : ∀ n ∈ ids r, n ∈ N.ids)
    (hE : ∀ e ∈ edges r, EdgeOK dim cj N up dn e.1 e.2) :
    (centreOf cj N up dn r).Canon (ddim dim) ∧ (centreOf cj N up dn r).labels.Nodup ∧
      ((centreOf cj N up dn r).phys ++ (centreOf cj N up dn r).kids.pairs).Perm ((N.legs r.rid).map dbl) := by
  obtain ⟨c, ks⟩ := r
  rw [ids_node] at hnd hsub
  have hnd' := List.nodup_cons.1 hnd
  rw [edges_node] at hE
  have hc : c ∈ N.ids := hsub c List.mem_cons_self
  obtain ⟨hKC, hKL⟩ := (tree_canon (cj := cj) (dim := dim) (up := up) (dn := dn) h).2 ks c hnd'.1 hnd'.2 hE
  have hEc : ∀ t ∈ ks, EdgeOK dim cj N up dn c t.rid := fun t ht => hE _ (child_edge ht)
  obtain ⟨hD1, hD2⟩ := dnLegs_facts h (rids_nodup hnd'.2) hEc
  have hL := filter_compl_perm (h.legs_nodup c hc) hD1 hD2
  simp only [centreOf, rid, kids]
  refine ⟨⟨?_, ?_, hKC⟩, ?_, ?_⟩
  · refine (ketT_dependsOn (h.reads c hc)).mono ?_
    intro x hx
    obtain ⟨l, hl, rfl⟩ := List.mem_map.1 hx
    rw [physOf_fst, kidsOf_kd]
    refine List.mem_append.2 ?_
    by_cases h2 : l ∈ dnLegs dn ks
    · exact Or.inr (List.mem_map_of_mem h2)
    · exact Or.inl (List.mem_map_of_mem (List.mem_filter.2 ⟨hl, by simp [h2]⟩))
  · refine (braT_dependsOn cj (h.reads c hc)).mono ?_
    intro x hx
    obtain ⟨l, hl, rfl⟩ := List.mem_map.1 hx
    rw [physOf_snd, kidsOf_bd]
    refine List.mem_append.2 ?_
    by_cases h2 : l ∈ dnLegs dn ks
    · exact Or.inr (List.mem_map_of_mem h2)
    · exact Or.inl (List.mem_map_of_mem (List.mem_filter.2 ⟨hl, by simp [h2]⟩))
  · have hall := allLabels_nodup h hnd hsub
    refine (List.Perm.nodup_iff ?_).2 hall
    rw [List.perm_iff_count]
    intro a
    have c1 := (hL.map DL.ket).count_eq a
    have c2 := (hL.map DL.bra).count_eq a
    have c3 := hKL.count_eq a
    simp only [Centre.labels, physOf, pairLegs_map_dbl, allLabels, List.flatMap_cons, dlegs,
      List.count_append, List.map_append] at c1 c2 c3 ⊢
    omega
  · rw [kidsOf_pairs, physOf, ← List.map_append]
    exact hL.map dbl

/-- **The norm of a tree network in canonical form from the centre tensor alone.**  `N` a well-formed valued
network, `r` a tree rooted at the centre whose nodes are nodes of `N` and whose every edge satisfies `EdgeOK`
(the bond exists, has one dimension, the child is an isometry toward it).  The norm network - for every node
its tensor and the conjugated copy, every open leg of the ket copy bound to the same leg of the bra copy,
both copies of every bond - has the value of `Σ C · conj C` over one common index per leg of the centre
tensor.  All trees, all dimensions, every commutative semiring, any conjugation. -/
theorem centre_norm_of_tree (h : N.WF) (r : RTree) (hnd : (ids r).Nodup) (hsub : ∀ n ∈ ids r, n ∈ N.ids)
    (hE : ∀ e ∈ edges r, EdgeOK dim cj N up dn e.1 e.2) (σ : Asg DL) :
    netValue (ddim dim) (centreOf cj N up dn r).normBinds (centreOf cj N up dn r).normLeaves σ =
      netValue (ddim dim) ((N.legs r.rid).map dbl) [ketT (N.tens r.rid), braT cj (N.tens r.rid)] σ := by
  obtain ⟨hC, hL, hP⟩ := centre_canon_of_tree (cj := cj) (dim := dim) (up := up) (dn := dn) h r hnd hsub hE
  rw [centre_norm_eq_full_norm_value (ddim dim) _ hC hL σ]
  have hnd2 : (Expr.pairLegs ((N.legs r.rid).map dbl)).Nodup :=
    pairLegs_map_dbl_nodup (h.legs_nodup _ (hsub _ (rid_mem_ids r)))
  exact netValue_perm (ddim dim) hP (List.Perm.refl _) ((pairLegs_perm hP).nodup_iff.2 hnd2) σ

end

end Ptn.C03
