import Ptn.C03.Gauge
import Ptn.C03.Norm
import Ptn.C03.Lemmas
import Ptn.C03.Tree
/-! Value level for C03: `canonical_form` and `move_orthogonalization_center` leave the represented state
unchanged, for every network, every distance table / tree, every centre, all dimensions, over every
commutative semiring — GIVEN, per QR call, the factorisation contract `A = Σ Q · R` (`QRFact`, data of each
step, a hypothesis of the run and nothing global).

The operation lists are those of the model (`canonOps`, `moveOps`, compared with the library's QR schedule
on every run of the check).  `Run dim N ops N'` performs them on a valued network (`Gauge.lean`): each
operation `⟨n, m⟩` factorises the tensor of `n` over a FRESH bond `(N.next, N.next + 1)`, contracts `R` into
the tensor of `m` over the old bond and replaces the old bond by the fresh one.

* `canonical_form_value`, `move_centre_value`: every such run keeps the network well-formed, keeps every
  adjacency and leaves `VNet.value` — the dense tensor as a function of the open legs — unchanged.
* `canonical_form_progress`, `move_centre_progress`: on a network whose bonds contain the neighbour lists the
  run never gets stuck for a structural reason: after every prefix the nodes of the next operation are still
  joined by a bond, so every factorisation of the split tensor yields the next step.
* `canonical_form_value_tree`: both for the distance table and the neighbour lists of every well-formed tree
  and every centre (C17 model of `distance_to_node`).
* `centre_norm_two`, `centre_norm_value_partial`: the consequence clause in index form (`Norm.lean`). -/
namespace Ptn.C03

open Ptn.Ein

set_option linter.unusedSectionVars false
variable {R : Type} [CommSemiring R]

/-- **`canonical_form` leaves the represented state unchanged (value level).** -/
theorem canonical_form_value (dim : Nat → Nat) (dist : Dist) (nbrs : Nat → List Nat) {N N' : VNet R}
    (h : N.WF) (hr : Run dim N (canonOps dist nbrs) N') :
    N'.WF ∧ (∀ σ, N'.value dim σ = N.value dim σ) ∧ (∀ n m, N.Adj n m → N'.Adj n m) :=
  ⟨(run_value dim h hr).1, (run_value dim h hr).2, fun _ _ hadj => run_adj dim h hr hadj⟩

/-- **Every centre move leaves the represented state unchanged (value level).** -/
theorem move_centre_value (dim : Nat → Nat) (path : List Nat) {N N' : VNet R}
    (h : N.WF) (hr : Run dim N (moveOps path) N') :
    N'.WF ∧ (∀ σ, N'.value dim σ = N.value dim σ) ∧ (∀ n m, N.Adj n m → N'.Adj n m) :=
  ⟨(run_value dim h hr).1, (run_value dim h hr).2, fun _ _ hadj => run_adj dim h hr hadj⟩

/-- The run of `canonical_form` never gets stuck for a structural reason. -/
theorem canonical_form_progress (dim : Nat → Nat) (dist : Dist) (nbrs : Nat → List Nat) {N : VNet R}
    (h : N.WF) (hadj : ∀ o ∈ canonOps dist nbrs, N.Adj o.node o.target ∧ o.node ≠ o.target)
    (ops₁ : List Op) (o : Op) (ops₂ : List Op) (hsplit : canonOps dist nbrs = ops₁ ++ o :: ops₂)
    {N₁ : VNet R} (hr : Run dim N ops₁ N₁) :
    ∃ p a b, o.node ∈ N₁.ids ∧ o.target ∈ N₁.ids ∧ N₁.Joined o.node o.target p a b ∧
      ∀ F : QRFact dim (N₁.tens o.node) (N₁.legs o.node) a N₁.next (N₁.next + 1),
        Step dim N₁ o (gaugeStep dim N₁ o.node o.target p a b F) := by
  obtain ⟨h1, h2⟩ := hadj o (by rw [hsplit]; simp)
  exact run_progress dim h hr h1 h2

/-- The run of a centre move along a path of pairwise joined, distinct nodes never gets stuck. -/
theorem move_centre_progress (dim : Nat → Nat) (path : List Nat) {N : VNet R} (h : N.WF)
    (hadj : ∀ i (hi : i + 1 < path.length), N.Adj path[i] path[i + 1] ∧ path[i] ≠ path[i + 1])
    (ops₁ : List Op) (o : Op) (ops₂ : List Op) (hsplit : moveOps path = ops₁ ++ o :: ops₂)
    {N₁ : VNet R} (hr : Run dim N ops₁ N₁) :
    ∃ p a b, o.node ∈ N₁.ids ∧ o.target ∈ N₁.ids ∧ N₁.Joined o.node o.target p a b ∧
      ∀ F : QRFact dim (N₁.tens o.node) (N₁.legs o.node) a N₁.next (N₁.next + 1),
        Step dim N₁ o (gaugeStep dim N₁ o.node o.target p a b F) := by
  obtain ⟨i, hi, rfl⟩ := mem_moveOps path o (by rw [hsplit]; simp)
  obtain ⟨h1, h2⟩ := hadj i hi
  exact run_progress dim h hr h1 h2

open Ptn.C17 Ptn.C17.RTree in
/-- **For every well-formed tree and every centre**: on a valued network whose bonds contain the tree's
neighbour relation, every run of the operations of `canonical_form` (distance table of `distance_to_node`,
neighbour lists `neighbouring_nodes()`) leaves the value unchanged, and the run never gets stuck for a
structural reason. -/
theorem canonical_form_value_tree (dim : Nat → Nat) (t : RTree) (hwf : t.WF) (c : Nat) (hc : c ∈ ids t)
    {N : VNet R} (h : N.WF) (hadj : ∀ n ∈ ids t, ∀ m ∈ nbrsOf t n, N.Adj n m) :
    ∃ dist : Dist, distanceToNode t c = some dist ∧
      (∀ N', Run dim N (canonOps dist (nbrsOf t)) N' →
        N'.WF ∧ (∀ σ, N'.value dim σ = N.value dim σ) ∧ (∀ n m, N.Adj n m → N'.Adj n m)) ∧
      (∀ ops₁ o ops₂, canonOps dist (nbrsOf t) = ops₁ ++ o :: ops₂ → ∀ N₁, Run dim N ops₁ N₁ →
        ∃ p a b, o.node ∈ N₁.ids ∧ o.target ∈ N₁.ids ∧ N₁.Joined o.node o.target p a b ∧
          ∀ F : QRFact dim (N₁.tens o.node) (N₁.legs o.node) a N₁.next (N₁.next + 1),
            Step dim N₁ o (gaugeStep dim N₁ o.node o.target p a b F)) := by
  obtain ⟨dist, hd, hnd, hperm, hc0, hstep⟩ := tree_table t hwf c hc
  refine ⟨dist, hd, fun N' hr => canonical_form_value dim dist _ h hr, ?_⟩
  intro ops₁ o ops₂ hsplit N₁ hr
  apply canonical_form_progress dim dist (nbrsOf t) h _ ops₁ o ops₂ hsplit hr
  intro o ho
  have hmem := canonOps_adjacent dist (nbrsOf t) o ho
  unfold canonOps at ho
  rw [List.mem_flatMap] at ho
  obtain ⟨k, _, hk⟩ := ho
  obtain ⟨hin, hcl⟩ := mem_opsAt hk
  have hid : o.node ∈ ids t := hperm.subset (List.mem_map.2 ⟨_, hin, rfl⟩)
  refine ⟨hadj _ hid _ hmem, ?_⟩
  have hnc : o.node ≠ c := by
    intro e
    have h1 := lookup_of_mem dist hnd _ _ hin
    have h2 := lookup_of_mem dist hnd _ _ hc0
    rw [e, h2] at h1; simp at h1
  obtain ⟨v, _, hcv, hkey⟩ := hstep o.node (k + 1) hin hnc
  rw [hcl] at hcv
  have hv : o.target = v := Option.some.inj hcv
  intro e
  have hk1 : key dist o.node = k + 1 := by simp [key, lookup_of_mem dist hnd _ _ hin]
  rw [← hv, ← e, hk1] at hkey
  omega

/-! ### the consequence clause: norm from the centre tensor alone -/

/-- **Two tensors.**  `ψ = Σ_{(q,r)} Q · C`; the norm network `⟨ψ|ψ⟩` has the leaves `Q, Qc, C, Cc`, the
two bonds `(q, r)`, `(q', r')`, the pairs `pp` joining the remaining legs of `Q` with those of `Qc` and the
pairs `cc` joining the remaining legs of `C` with those of `Cc`.  If `Q` is an isometry toward the centre
(`Σ_pp Q · Qc = δ(q, q')` for indices within the bond dimension), the norm is the norm of the centre tensor alone: `Σ_{cc, (r,r')} C · Cc`. -/
theorem centre_norm_two {L : Type} [DecidableEq L] (dim : L → Nat) (cc pp : List (L × L))
    (Q Qc C Cc : Asg L → R) (q r q' r' : L) {S : L → Prop}
    (hiso : ∀ τ, τ q < dim q → τ q' < dim q →
      sumPairs dim pp (fun ρ => Q ρ * Qc ρ) τ = if τ q = τ q' then 1 else 0)
    (hC : DependsOn S C) (hCc : DependsOn S Cc)
    (hpp : ∀ l ∈ Expr.pairLegs pp, ¬ S l) (hq : ¬ S q) (hq' : ¬ S q')
    (hqq' : q ≠ q') (hqr' : q ≠ r') (hd1 : dim q' = dim q) (hd2 : dim r = dim q) (σ : Asg L) :
    netValue dim ((cc ++ [(q, r), (q', r')]) ++ pp) [Q, Qc, C, Cc] σ =
      netValue dim (cc ++ [(r, r')]) [C, Cc] σ :=
  isometry_absorb_value dim cc pp Q Qc [C, Cc] q r q' r' hiso
    (by intro f hf; simp only [List.mem_cons, List.not_mem_nil, or_false] at hf
        rcases hf with rfl | rfl
        · exact hC
        · exact hCc) hpp hq hq' hqq' hqr' hd1 hd2 σ

/-- **Any tree, given an absorption order** (`_partial`: that the farthest-first order of `canonOps` is
such an order for every tree in canonical form — every node's non-centre-facing legs are physical pairs or
pairs left behind by already absorbed sub-trees — is not formalised; the statement itself is general: any
number of tensors, any shape).  Every sequence of absorptions of isometries (`Absorb`: the isometry condition
in index form toward the bond that faces the centre) leaves the value of the norm network unchanged; when
only the centre tensor and its copy are left, the value is the norm of the centre tensor alone. -/
theorem centre_norm_value_partial {L : Type} [DecidableEq L] (dim : L → Nat) {X Y : NormNet L R}
    (hr : AbsorbRun dim X Y) (hnd : (Expr.pairLegs X.1).Nodup) (σ : Asg L) :
    netValue dim Y.1 Y.2 σ = netValue dim X.1 X.2 σ :=
  absorb_run_value dim hr hnd σ

end Ptn.C03
