import Ptn.C03.Model
/-! Helper lemmas for C03 (core Lean only). -/
namespace Ptn.C03

theorem applyOps_nil (dir : Nat → Option Nat) : applyOps dir [] = dir := rfl

theorem applyOps_cons (dir : Nat → Option Nat) (o : Op) (rest : List Op) :
    applyOps dir (o :: rest) = applyOps (applyOp dir o) rest := rfl

/-- Operations that neither split `n` nor absorb into `n` leave its gauge record alone. -/
theorem applyOps_untouched (dir : Nat → Option Nat) (ops : List Op) (n : Nat)
    (h : ∀ p ∈ ops, p.node ≠ n ∧ p.target ≠ n) : applyOps dir ops n = dir n := by
  induction ops generalizing dir with
  | nil => rfl
  | cons o rest ih =>
    rw [applyOps_cons, ih]
    · have := h o (by simp)
      simp [applyOp, Ne.symm this.1, Ne.symm this.2]
    · intro p hp; exact h p (by simp [hp])

/-- The generic gauge lemma: operations sorted by non-increasing key of the split node, every
    node split at most once, every target strictly closer than its node. Then after all operations
    every split node still points to its target. -/
theorem gauge_sorted (key : Nat → Nat) (dir : Nat → Option Nat) (ops : List Op)
    (hnd : (ops.map Op.node).Nodup)
    (hsorted : ops.Pairwise fun a b => key b.node ≤ key a.node)
    (hcloser : ∀ o ∈ ops, key o.target < key o.node) :
    ∀ o ∈ ops, applyOps dir ops o.node = some o.target := by
  induction ops generalizing dir with
  | nil => intro o ho; simp at ho
  | cons a rest ih =>
    intro o ho
    have hnd' : a.node ∉ rest.map Op.node ∧ (rest.map Op.node).Nodup := by
      rw [List.map_cons] at hnd; exact List.nodup_cons.mp hnd
    have hs' := List.pairwise_cons.mp hsorted
    rw [applyOps_cons]
    rcases List.mem_cons.mp ho with rfl | hmem
    · rw [applyOps_untouched]
      · simp [applyOp]
      · intro p hp
        constructor
        · intro heq
          exact hnd'.1 (by rw [← heq]; exact List.mem_map_of_mem hp)
        · intro heq
          have h1 := hcloser p (by simp [hp])
          have h2 := hs'.1 p hp
          rw [heq] at h1
          omega
    · exact ih (applyOp dir a) hnd'.2 hs'.2 (fun o ho => hcloser o (by simp [ho])) o hmem

/-- A node that is never split but absorbs at least once ends with no isometry record. -/
theorem gauge_centre (dir : Nat → Option Nat) (ops : List Op) (c : Nat)
    (hnot : ∀ o ∈ ops, o.node ≠ c) (hdir : dir c = none) : applyOps dir ops c = none := by
  induction ops generalizing dir with
  | nil => exact hdir
  | cons a rest ih =>
    rw [applyOps_cons]
    apply ih
    · intro o ho; exact hnot o (by simp [ho])
    · have := hnot a (by simp)
      simp only [applyOp, Ne.symm this, if_false]
      split <;> simp [hdir]

theorem mem_opsAt {dist : Dist} {nbrs : Nat → List Nat} {d : Nat} {o : Op} (h : o ∈ opsAt dist nbrs d) :
    (o.node, d) ∈ dist ∧ closest dist (nbrs o.node) = some o.target := by
  simp only [opsAt, List.mem_filterMap, List.mem_filter] at h
  obtain ⟨p, ⟨hp, hd⟩, hm⟩ := h
  cases hc : closest dist (nbrs p.1) with
  | none => simp [hc] at hm
  | some t =>
    simp only [hc, Option.map_some, Option.some.injEq] at hm
    subst hm
    have : p.2 = d := by simpa using hd
    constructor
    · rw [← this]; exact hp
    · exact hc

/-- `_find_smallest_distance_neighbour` returns one of the neighbours. -/
theorem closest_mem (dist : Dist) : ∀ (nb : List Nat) (m : Nat), closest dist nb = some m → m ∈ nb
  | [], m, h => by simp [closest] at h
  | [n], m, h => by
    rw [closest] at h
    cases hl : lookup dist n with
    | none => simp [hl] at h
    | some dn => simp [hl] at h; simp [h]
  | n :: n2 :: rest, m, h => by
    rw [closest] at h
    cases hl : lookup dist n with
    | none => simp [hl] at h
    | some dn =>
      simp only [hl] at h
      cases hc : closest dist (n2 :: rest) with
      | none => simp [hc] at h
      | some m' =>
        simp only [hc] at h
        have ih := closest_mem dist (n2 :: rest) m' hc
        cases hl2 : lookup dist m' with
        | none => simp [hl2] at h
        | some dm =>
          simp only [hl2] at h
          by_cases hlt : dm < dn
          · simp [hlt] at h; subst h; exact List.mem_cons_of_mem _ ih
          · simp [hlt] at h; subst h; exact List.mem_cons_self

/-- every operation of `canonical_form` absorbs into a neighbour of the split node -/
theorem canonOps_adjacent (dist : Dist) (nbrs : Nat → List Nat) :
    ∀ o ∈ canonOps dist nbrs, o.target ∈ nbrs o.node := by
  intro o ho
  unfold canonOps at ho
  rw [List.mem_flatMap] at ho
  obtain ⟨k, _, hk⟩ := ho
  exact closest_mem dist _ _ (mem_opsAt hk).2

/-- the operations of a centre move are the hops of the path -/
theorem mem_moveOps : ∀ (path : List Nat) (o : Op), o ∈ moveOps path →
    ∃ i, ∃ hi : i + 1 < path.length, o = ⟨path[i], path[i + 1]⟩
  | [], o, h => by simp [moveOps] at h
  | [_], o, h => by simp [moveOps] at h
  | a :: b :: rest, o, h => by
    simp only [moveOps, List.mem_cons] at h
    rcases h with rfl | h
    · exact ⟨0, by simp, rfl⟩
    · obtain ⟨i, hi, e⟩ := mem_moveOps (b :: rest) o h
      exact ⟨i + 1, by simpa using hi, by simpa using e⟩

end Ptn.C03
