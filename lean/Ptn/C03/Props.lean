import Ptn.C03.Model
/-! Property theorems for C03. Only property theorems and non-vacuity examples live here. -/
namespace Ptn.C03
end Ptn.C03
