import Ptn.C03.Core
import Ptn.C03.Tree
/-! Property theorems for C03.  `Core.lean`: gauge machine for arbitrary distance tables + the
Mathlib instances.  `Tree.lean`: `canon_gauge_tree` — for every well-formed tree and every centre
the hypotheses of `canon_gauge` hold for the distance table of the C17 model, so every non-centre
node ends recorded as pointing to the first hop of its path to the centre. -/
