import Ptn.C03.Core
import Ptn.C03.Tree
import Ptn.C03.Value
import Ptn.C03.CentreNorm
import Ptn.C03.Whole
import Ptn.C03.Move
/-! Property theorems for C03.  `Core.lean`: gauge machine for arbitrary distance tables + the
Mathlib instances.  `Tree.lean`: `canon_gauge_tree` — for every well-formed tree and every centre
the hypotheses of `canon_gauge` hold for the distance table of the C17 model, so every non-centre
node ends recorded as pointing to the first hop of its path to the centre.  `Value.lean`: the value-level
theorems (state unchanged by every run of `canonOps` / `moveOps` given the per-call QR contracts; norm from
the centre tensor alone).  `Iso.lean` / `CanonTree.lean` / `CentreNorm.lean`: the gauge record MEANS the index-form
isometry (`run_isometric`, `canonical_form_isometric_tree`), a tree-shaped network of isometries toward the parents is
canonical (`tree_canon`, `centre_canon_of_tree`, `centre_norm_of_tree`), and `canonical_form_centre_norm`.
`Whole.lean`: the norm network of the whole network.  `Move.lean`: centre moves keep canonical form
(`move_centre_isometric_tree`, `move_centre_norm_whole`).  This file
only adds the non-vacuity examples of the value-level theorems. -/
namespace Ptn.C03

open Ptn.Ein

/-- two nodes `0 — 1`: node 0 has the open leg 0 and the bond leg 1, node 1 the bond leg 2 and the open
leg 3; all dimensions 2; integer tensors (node 0 of rank one, so that its factorisation is explicit) -/
def demoNet : VNet Int where
  ids := [0, 1]
  legs := fun k => if k = 0 then [0, 1] else if k = 1 then [2, 3] else []
  tens := fun k σ => if k = 0 then ((σ 0 : Int) + 1) * (2 * (σ 1 : Int) + 1) else (σ 2 : Int) + 3 * (σ 3 : Int) + 1
  bonds := [(1, 2)]
  next := 4

def demoDim : Nat → Nat := fun _ => 2

theorem demoNet_wf : demoNet.WF := by
  refine ⟨by decide, ?_, ?_, ?_, by decide, ?_, ?_⟩
  · intro n hn
    simp only [demoNet, List.mem_cons, List.not_mem_nil, or_false] at hn
    rcases hn with rfl | rfl <;> simp [demoNet]
  · intro n hn m hm l h1 h2
    simp only [demoNet, List.mem_cons, List.not_mem_nil, or_false] at hn hm
    rcases hn with rfl | rfl <;> rcases hm with rfl | rfl <;> simp [demoNet] at h1 h2 <;> omega
  · intro n hn
    simp only [demoNet, List.mem_cons, List.not_mem_nil, or_false] at hn
    rcases hn with rfl | rfl
    · intro σ τ h
      have h0 := h 0 (by simp [demoNet]); have h1 := h 1 (by simp [demoNet])
      simp [demoNet, h0, h1]
    · intro σ τ h
      have h2 := h 2 (by simp [demoNet]); have h3 := h 3 (by simp [demoNet])
      simp [demoNet, h2, h3]
  · intro p hp
    simp only [demoNet, List.mem_cons, List.not_mem_nil, or_false] at hp
    subst hp
    exact ⟨⟨0, by simp [demoNet], by simp [demoNet]⟩, ⟨1, by simp [demoNet], by simp [demoNet]⟩⟩
  · intro n hn l hl
    simp only [demoNet, List.mem_cons, List.not_mem_nil, or_false] at hn
    rcases hn with rfl | rfl <;> simp [demoNet] at hl ⊢ <;> omega

/-- an exact factorisation of the tensor of node 0 over the fresh bond `(4, 5)` -/
def demoFact : QRFact demoDim (demoNet.tens 0) (demoNet.legs 0) 1 demoNet.next (demoNet.next + 1) where
  Q := fun ρ => ((ρ 0 : Int) + 1) * (if ρ 4 = 0 then 1 else 0)
  Rm := fun ρ => (if ρ 5 = 0 then 1 else 0) * (2 * (ρ 1 : Int) + 1)
  exact := by
    intro τ
    simp [demoNet, demoDim, sumPairs, sumR, upd, List.range_succ]
  readsQ := by
    intro σ τ h
    have h0 := h 0 (by simp [demoNet]); have h4 := h 4 (by simp [demoNet])
    simp [h0, h4]
  readsR := by
    intro σ τ h
    have h5 := h 5 (by simp [demoNet]); have h1 := h 1 (by simp)
    simp [h5, h1]

/-- the premises of `move_centre_value` / `canonical_form_value` are satisfiable: the centre move `0 → 1`
(which is also the run of `canonical_form` toward node 1) has a run on the demo network -/
example : demoNet.WF ∧ moveOps [0, 1] = [⟨0, 1⟩] ∧
    canonOps [(1, 0), (0, 1)] (fun n => if n = 0 then [1] else [0]) = [⟨0, 1⟩] ∧
    ∃ N', Run demoDim demoNet (moveOps [0, 1]) N' := by
  refine ⟨demoNet_wf, by decide, by decide, _, Run.cons (Step.mk demoNet 0 1 (1, 2) 1 2 (by simp [demoNet])
    (by simp [demoNet]) (by decide) ⟨by simp [demoNet], Or.inl rfl, by simp [demoNet], by simp [demoNet]⟩
    demoFact) (Run.nil _)⟩

/-- the adjacency premise of the progress theorems holds on the demo network -/
example : demoNet.Adj 0 1 ∧ (0 : Nat) ≠ 1 :=
  ⟨⟨by simp [demoNet], by simp [demoNet], (1, 2), 1, 2, by simp [demoNet], Or.inl rfl, by simp [demoNet],
    by simp [demoNet]⟩, by decide⟩

/-! ### the norm network of two tensors: `Q = δ(p, q)` is an isometry toward the centre -/

def nQ : Asg Nat → Int := fun ρ => if ρ 0 = ρ 1 then 1 else 0       -- legs p = 0, q = 1
def nQc : Asg Nat → Int := fun ρ => if ρ 2 = ρ 3 then 1 else 0      -- legs p' = 2, q' = 3
def nC : Asg Nat → Int := fun ρ => (ρ 4 : Int) + 2 * (ρ 6 : Int) + 1   -- legs r = 4, open 6
def nCc : Asg Nat → Int := fun ρ => (ρ 5 : Int) + 2 * (ρ 7 : Int) + 1  -- legs r' = 5, open 7

theorem demo_iso : ∀ τ : Asg Nat, τ 1 < demoDim 1 → τ 3 < demoDim 1 →
    sumPairs demoDim [(0, 2)] (fun ρ => nQ ρ * nQc ρ) τ = if τ 1 = τ 3 then 1 else 0 := by
  intro τ h1 h3
  simp only [demoDim] at h1 h3
  have e1 : τ 1 = 0 ∨ τ 1 = 1 := by omega
  have e3 : τ 3 = 0 ∨ τ 3 = 1 := by omega
  rcases e1 with e1 | e1 <;> rcases e3 with e3 | e3 <;>
    simp [demoDim, nQ, nQc, sumPairs, sumR, upd, List.range_succ, e1, e3]

/-- the hypotheses of `centre_norm_two` (and of one `Absorb` step of `centre_norm_value_partial`) are
satisfiable -/
example : (∀ τ : Asg Nat, τ 1 < demoDim 1 → τ 3 < demoDim 1 →
      sumPairs demoDim [(0, 2)] (fun ρ => nQ ρ * nQc ρ) τ = if τ 1 = τ 3 then 1 else 0) ∧
    DependsOn (fun l => 4 ≤ l) nC ∧ DependsOn (fun l => 4 ≤ l) nCc ∧
    (∀ l ∈ Expr.pairLegs [((0 : Nat), (2 : Nat))], ¬ 4 ≤ l) ∧
    AbsorbRun demoDim (([(6, 7)] ++ [(1, 4), (3, 5)]) ++ [(0, 2)], [nQ, nQc, nC, nCc])
      ([(6, 7)] ++ [(4, 5)], [nC, nCc]) := by
  have hC : DependsOn (fun l => 4 ≤ l) nC := by
    intro σ τ h; simp [nC, h 4 (by omega), h 6 (by omega)]
  have hCc : DependsOn (fun l => 4 ≤ l) nCc := by
    intro σ τ h; simp [nCc, h 5 (by omega), h 7 (by omega)]
  have hpp : ∀ l ∈ Expr.pairLegs [((0 : Nat), (2 : Nat))], ¬ 4 ≤ l := by
    intro l hl; simp [Expr.pairLegs] at hl; omega
  refine ⟨demo_iso, hC, hCc, hpp, AbsorbRun.cons ?_ (AbsorbRun.nil _)⟩
  exact Absorb.mk _ _ [(6, 7)] [(0, 2)] nQ nQc [nC, nCc] 1 4 3 5 (fun l => 4 ≤ l) (List.Perm.refl _)
    (List.Perm.refl _) demo_iso
    (by intro f hf; simp only [List.mem_cons, List.not_mem_nil, or_false] at hf
        rcases hf with rfl | rfl
        · exact hC
        · exact hCc) hpp (by omega) (by omega) rfl rfl

/-! ### the full QR contract on a concrete network: `Q` an isometry toward the fresh bond

two nodes `0 — 1` as in `demoNet`; the tensor of node 0 is `2 · δ(σ0, σ1)` (zero outside the range), its QR
factors are `Q = δ(σ0, q)` and `R = 2 · δ(r, σ1)`. -/

def isoNet : VNet Int where
  ids := [0, 1]
  legs := fun k => if k = 0 then [0, 1] else if k = 1 then [2, 3] else []
  tens := fun k σ => if k = 0 then (if σ 0 = σ 1 ∧ σ 0 < 2 then 2 else 0) else (σ 2 : Int) + 3 * (σ 3 : Int) + 1
  bonds := [(1, 2)]
  next := 4

theorem isoNet_wf : isoNet.WF := by
  refine ⟨by decide, ?_, ?_, ?_, by decide, ?_, ?_⟩
  · intro n hn
    simp only [isoNet, List.mem_cons, List.not_mem_nil, or_false] at hn
    rcases hn with rfl | rfl <;> simp [isoNet]
  · intro n hn m hm l h1 h2
    simp only [isoNet, List.mem_cons, List.not_mem_nil, or_false] at hn hm
    rcases hn with rfl | rfl <;> rcases hm with rfl | rfl <;> simp [isoNet] at h1 h2 <;> omega
  · intro n hn
    simp only [isoNet, List.mem_cons, List.not_mem_nil, or_false] at hn
    rcases hn with rfl | rfl
    · intro σ τ h
      have h0 := h 0 (by simp [isoNet]); have h1 := h 1 (by simp [isoNet])
      simp [isoNet, h0, h1]
    · intro σ τ h
      have h2 := h 2 (by simp [isoNet]); have h3 := h 3 (by simp [isoNet])
      simp [isoNet, h2, h3]
  · intro p hp
    simp only [isoNet, List.mem_cons, List.not_mem_nil, or_false] at hp
    subst hp
    exact ⟨⟨0, by simp [isoNet], by simp [isoNet]⟩, ⟨1, by simp [isoNet], by simp [isoNet]⟩⟩
  · intro n hn l hl
    simp only [isoNet, List.mem_cons, List.not_mem_nil, or_false] at hn
    rcases hn with rfl | rfl <;> simp [isoNet] at hl ⊢ <;> omega

/-- the QR factorisation of the tensor of node 0 over the fresh bond `(4, 5)` -/
def isoFact : QRFact demoDim (isoNet.tens 0) (isoNet.legs 0) 1 isoNet.next (isoNet.next + 1) where
  Q := fun ρ => if ρ 0 = ρ 4 then 1 else 0
  Rm := fun ρ => if ρ 5 = ρ 1 then 2 else 0
  exact := by
    intro τ
    simp only [isoNet, demoDim, sumPairs, sumR, upd, List.range_succ, List.range_zero]
    by_cases h0 : τ 0 = 0 <;> by_cases h1 : τ 0 = 1 <;> by_cases h2 : τ 1 = 0 <;> by_cases h3 : τ 1 = 1 <;>
      (simp [h0, h1, h2, h3]; try omega)
  readsQ := by
    intro σ τ h
    have h0 := h 0 (by simp [isoNet]); have h4 := h 4 (by simp [isoNet])
    simp [h0, h4]
  readsR := by
    intro σ τ h
    have h5 := h 5 (by simp [isoNet]); have h1 := h 1 (by simp)
    simp [h5, h1]

/-- the second half of the contract: `Q` is an isometry toward the fresh bond -/
theorem isoFact_iso : IsoToward demoDim id isoFact.Q (isoNet.next :: (isoNet.legs 0).erase 1) isoNet.next := by
  intro τ h1 h2
  simp only [demoDim, isoNet] at h1 h2
  have e1 : τ (DL.ket 4) = 0 ∨ τ (DL.ket 4) = 1 := by omega
  have e2 : τ (DL.bra 4) = 0 ∨ τ (DL.bra 4) = 1 := by omega
  rcases e1 with e1 | e1 <;> rcases e2 with e2 | e2 <;>
    simp [isoNet, isoFact, ketT, braT, dbl, ddim, demoDim, sumPairs, sumR, upd, List.range_succ, e1, e2]

/-- the network after the move `0 → 1` -/
def isoNet' : VNet Int := gaugeStep demoDim isoNet 0 1 (1, 2) 1 2 isoFact

theorem isoNet_run : IsoRun demoDim id isoNet [⟨0, 1⟩] isoNet' :=
  IsoRun.cons (IsoStep.mk isoNet 0 1 (1, 2) 1 2 (by simp [isoNet]) (by simp [isoNet]) (by decide)
    ⟨by simp [isoNet], Or.inl rfl, by simp [isoNet], by simp [isoNet]⟩ isoFact isoFact_iso rfl) (IsoRun.nil _)

/-- the premises of `run_isometric` are satisfiable (an `IsoRun` exists on a well-formed network; the empty
record is true of it), and the conclusion is not vacuous: the record names node 1 for node 0 -/
example : isoNet.WF ∧ IsoRun demoDim id isoNet [⟨0, 1⟩] isoNet' ∧ GaugeInv demoDim id isoNet (fun _ => none) ∧
    applyOps (fun _ => none) [⟨0, 1⟩] 0 = some 1 :=
  ⟨isoNet_wf, isoNet_run, gaugeInv_none _ _ _, by decide⟩

open Ptn.C17 Ptn.C17.RTree in
/-- the premises of `canonical_form_isometric_tree` / `canonical_form_centre_norm` are satisfiable: the tree
`0 → 1` (root 0) canonicalised at the NON-root node 1 (so the tree is re-rooted), on `isoNet`; the run of the
model's operation list exists -/
example :
    let t : RTree := .node 0 [.node 1 []]
    t.WF ∧ 1 ∈ ids t ∧ isoNet.WF ∧ (∀ n ∈ ids t, n ∈ isoNet.ids) ∧ BondDims demoDim isoNet ∧
    distanceToNode t 1 = some [(1, 0), (0, 1)] ∧ (reroot 1 [] t).map edges = some [(1, 0)] ∧
    canonOps [(1, 0), (0, 1)] (nbrsOf t) = [⟨0, 1⟩] ∧
    IsoRun demoDim id isoNet (canonOps [(1, 0), (0, 1)] (nbrsOf t)) isoNet' := by
  refine ⟨by decide, by decide, isoNet_wf, by decide, ?_, by decide, by decide, by decide, ?_⟩
  · intro p hp
    simp only [isoNet, List.mem_cons, List.not_mem_nil, or_false] at hp
    subst hp; rfl
  · have : canonOps [(1, 0), (0, 1)] (nbrsOf (.node 0 [.node 1 []])) = [⟨0, 1⟩] := by decide
    rw [this]; exact isoNet_run

open Ptn.C17 Ptn.C17.RTree in
/-- the per-edge premise `EdgeOK` of `tree_canon` / `centre_canon_of_tree` / `centre_norm_of_tree` is satisfiable:
the network after the move, the tree rooted at the centre 1, bond ends `up 0 = 4`, `dn 0 = 5` -/
example :
    let r : RTree := .node 1 [.node 0 []]
    isoNet'.WF ∧ (ids r).Nodup ∧ (∀ n ∈ ids r, n ∈ isoNet'.ids) ∧
    ∀ e ∈ edges r, EdgeOK demoDim id isoNet' (fun _ => 4) (fun _ => 5) e.1 e.2 := by
  refine ⟨step_wf demoDim isoNet_wf (by cases isoNet_run with | cons hs hr => cases hr; exact hs.step),
    by decide, by decide, ?_⟩
  intro e he
  have : e = (1, 0) := by simpa [edges, edgesL, rid] using he
  subst this
  refine ⟨by simp [isoNet', gaugeStep, isoNet], by simp [isoNet', gaugeStep, isoNet], ⟨(4, 5), ?_⟩, rfl, ?_⟩
  · exact ⟨by simp [isoNet', gaugeStep, isoNet], Or.inl rfl, by simp [isoNet', gaugeStep, isoNet],
      by simp [isoNet', gaugeStep, isoNet]⟩
  · have e1 : isoNet'.tens 0 = isoFact.Q := by simp [isoNet', gaugeStep]
    have e2 : isoNet'.legs 0 = isoNet.next :: (isoNet.legs 0).erase 1 := by simp [isoNet', gaugeStep]
    rw [e1, e2]
    exact isoFact_iso

open Ptn.C17 Ptn.C17.RTree in
/-- the premises of `canonical_form_centre_norm_whole` are satisfiable, in particular `TreeShaped`: `isoNet` has
exactly the shape of the tree `0 → 1` (nodes `[0, 1]`, one bond, one edge, the edge joined by the bond `(1, 2)`);
centre = the non-root node 1; the run of the model's operation list exists -/
example :
    let t : RTree := .node 0 [.node 1 []]
    t.WF ∧ 1 ∈ ids t ∧ isoNet.WF ∧ TreeShaped isoNet t ∧ BondDims demoDim isoNet ∧
    distanceToNode t 1 = some [(1, 0), (0, 1)] ∧
    IsoRun demoDim id isoNet (canonOps [(1, 0), (0, 1)] (nbrsOf t)) isoNet' := by
  refine ⟨by decide, by decide, isoNet_wf, ⟨List.Perm.refl _, by decide, ?_⟩, ?_, by decide, ?_⟩
  · intro e he
    have : e = (0, 1) := by simpa [edges, edgesL, rid] using he
    subst this
    exact ⟨(1, 2), 1, 2, by simp [isoNet], Or.inl rfl, by simp [isoNet], by simp [isoNet]⟩
  · intro p hp
    simp only [isoNet, List.mem_cons, List.not_mem_nil, or_false] at hp
    subst hp; rfl
  · have : canonOps [(1, 0), (0, 1)] (nbrsOf (.node 0 [.node 1 []])) = [⟨0, 1⟩] := by decide
    rw [this]; exact isoNet_run

/-! ### a centre move on a concrete canonical network

`moveNet`: as `isoNet`, but the tensor of node 1 is `δ(σ2, σ3)` - an isometry toward its bond leg 2, so the
network is canonical around node 0.  The move `0 → 1` uses the factorisation `isoFact` of the tensor of node 0. -/

def moveNet : VNet Int where
  ids := [0, 1]
  legs := fun k => if k = 0 then [0, 1] else if k = 1 then [2, 3] else []
  tens := fun k σ => if k = 0 then (if σ 0 = σ 1 ∧ σ 0 < 2 then 2 else 0) else (if σ 2 = σ 3 then 1 else 0)
  bonds := [(1, 2)]
  next := 4

theorem moveNet_wf : moveNet.WF := by
  refine ⟨by decide, ?_, ?_, ?_, by decide, ?_, ?_⟩
  · intro n hn
    simp only [moveNet, List.mem_cons, List.not_mem_nil, or_false] at hn
    rcases hn with rfl | rfl <;> simp [moveNet]
  · intro n hn m hm l h1 h2
    simp only [moveNet, List.mem_cons, List.not_mem_nil, or_false] at hn hm
    rcases hn with rfl | rfl <;> rcases hm with rfl | rfl <;> simp [moveNet] at h1 h2 <;> omega
  · intro n hn
    simp only [moveNet, List.mem_cons, List.not_mem_nil, or_false] at hn
    rcases hn with rfl | rfl
    · intro σ τ h
      have h0 := h 0 (by simp [moveNet]); have h1 := h 1 (by simp [moveNet])
      simp [moveNet, h0, h1]
    · intro σ τ h
      have h2 := h 2 (by simp [moveNet]); have h3 := h 3 (by simp [moveNet])
      simp [moveNet, h2, h3]
  · intro p hp
    simp only [moveNet, List.mem_cons, List.not_mem_nil, or_false] at hp
    subst hp
    exact ⟨⟨0, by simp [moveNet], by simp [moveNet]⟩, ⟨1, by simp [moveNet], by simp [moveNet]⟩⟩
  · intro n hn l hl
    simp only [moveNet, List.mem_cons, List.not_mem_nil, or_false] at hn
    rcases hn with rfl | rfl <;> simp [moveNet] at hl ⊢ <;> omega

/-- node 1 of `moveNet` is an isometry toward its bond leg 2 -/
theorem moveNet_iso : IsoToward demoDim id (moveNet.tens 1) (moveNet.legs 1) 2 := by
  intro τ h1 h2
  simp only [demoDim] at h1 h2
  have e1 : τ (DL.ket 2) = 0 ∨ τ (DL.ket 2) = 1 := by omega
  have e2 : τ (DL.bra 2) = 0 ∨ τ (DL.bra 2) = 1 := by omega
  rcases e1 with e1 | e1 <;> rcases e2 with e2 | e2 <;>
    simp [moveNet, ketT, braT, dbl, ddim, demoDim, sumPairs, sumR, upd, List.range_succ, e1, e2]

/-- the factorisation of the tensor of node 0 (the one of `isoNet`: same tensor, legs and counter) -/
def moveFact : QRFact demoDim (moveNet.tens 0) (moveNet.legs 0) 1 moveNet.next (moveNet.next + 1) := isoFact

/-- the network after the move `0 → 1` -/
def moveNet' : VNet Int := gaugeStep demoDim moveNet 0 1 (1, 2) 1 2 moveFact

theorem moveNet_run : IsoRun demoDim id moveNet (moveOps [0, 1]) moveNet' :=
  IsoRun.cons (IsoStep.mk moveNet 0 1 (1, 2) 1 2 (by simp [moveNet]) (by simp [moveNet]) (by decide)
    ⟨by simp [moveNet], Or.inl rfl, by simp [moveNet], by simp [moveNet]⟩ moveFact isoFact_iso rfl) (IsoRun.nil _)

open Ptn.C17 Ptn.C17.RTree in
/-- the premises of `move_centre_isometric_tree` / `centre_norm_whole_of_canonical` / `move_centre_norm_whole`
are satisfiable: the tree `0 → 1`, `moveNet` tree-shaped, well-formed, canonical around node 0 (node 1 is
joined to its first hop 0 by the bond `(1, 2)` and is an isometry toward its end 2 of it); the way from 0 to 1
is `[0, 1]` and a run of its moves with the full QR contract exists -/
example :
    let t : RTree := .node 0 [.node 1 []]
    t.WF ∧ 0 ∈ ids t ∧ 1 ∈ ids t ∧ moveNet.WF ∧ TreeShaped moveNet t ∧ BondDims demoDim moveNet ∧
    (∀ n ∈ ids t, n ≠ 0 → ∃ v, firstHop t n 0 = some v ∧ IsoAt demoDim id moveNet n v) ∧
    pathFromTo t 0 1 = some [0, 1] ∧ IsoRun demoDim id moveNet (moveOps [0, 1]) moveNet' := by
  refine ⟨by decide, by decide, by decide, moveNet_wf, ⟨List.Perm.refl _, by decide, ?_⟩, ?_, ?_, by decide,
    moveNet_run⟩
  · intro e he
    have : e = (0, 1) := by simpa [edges, edgesL, rid] using he
    subst this
    exact ⟨(1, 2), 1, 2, by simp [moveNet], Or.inl rfl, by simp [moveNet], by simp [moveNet]⟩
  · intro p hp
    simp only [moveNet, List.mem_cons, List.not_mem_nil, or_false] at hp
    subst hp; rfl
  · intro n hn hn0
    have hn' : n = 0 ∨ n = 1 := by simpa [ids, idsL, rid] using hn
    rcases hn' with rfl | rfl
    · exact absurd rfl hn0
    · refine ⟨0, by decide, by simp [moveNet], by simp [moveNet], (1, 2), 2, 1, ⟨by simp [moveNet], Or.inr rfl,
        by simp [moveNet], by simp [moveNet]⟩, moveNet_iso⟩

end Ptn.C03
