import Ptn.Common.EinsumNet
/-! The consequence clause of C03 in index form: a tensor that is an isometry toward the centre can be
removed from the norm network `⟨ψ|ψ⟩`.

The norm network has, for every node, its tensor `Q` and the (already conjugated) tensor `Qc` of the bra
copy; the legs of `Q` that do NOT face the centre are bound to the corresponding legs of `Qc` (`pp`: physical
pairs, and — after the sub-trees below have been absorbed — the pairs left behind by them); the leg `q` of
`Q` facing the centre is bound to the leg `r` of its neighbour, `q'` of `Qc` to `r'` of the neighbour's
copy.  The isometry hypothesis in index form is `Σ_pp Q · Qc = δ(q, q')`.  Then `Q`, `Qc` and their bonds
can be replaced by the single pair `(r, r')`: `isometry_absorb_value`. -/
namespace Ptn.C03

open Ptn.Ein Finset

set_option linter.unusedSectionVars false
variable {L : Type} [DecidableEq L] {R : Type} [CommSemiring R]

/-- `Σ_i Σ_j δ_ij f i j = Σ_i f i i` -/
theorem delta_sum (n : Nat) (f : Nat → Nat → R) :
    sumR n (fun i => sumR n (fun j => (if i = j then (1 : R) else 0) * f i j)) = sumR n (fun i => f i i) := by
  simp only [sumR_eq]
  apply sum_congr rfl
  intro i hi
  simp only [ite_mul, one_mul, zero_mul]
  rw [sum_ite_eq]
  simp [hi]

/-- **An isometry toward the centre drops out of the norm network.**  The isometry condition is demanded
for indices within the bond dimension only. -/
theorem isometry_absorb_value (dim : L → Nat) (bs pp : List (L × L)) (Q Qc : Asg L → R)
    (rest : List (Asg L → R)) (q r q' r' : L) {S : L → Prop}
    (hiso : ∀ τ, τ q < dim q → τ q' < dim q →
      sumPairs dim pp (fun ρ => Q ρ * Qc ρ) τ = if τ q = τ q' then 1 else 0)
    (hrest : ∀ f ∈ rest, DependsOn S f) (hpp : ∀ l ∈ Expr.pairLegs pp, ¬ S l) (hq : ¬ S q) (hq' : ¬ S q')
    (hqq' : q ≠ q') (hqr' : q ≠ r') (hd1 : dim q' = dim q) (hd2 : dim r = dim q) (σ : Asg L) :
    netValue dim ((bs ++ [(q, r), (q', r')]) ++ pp) (Q :: Qc :: rest) σ =
      netValue dim (bs ++ [(r, r')]) rest σ := by
  unfold netValue
  rw [sumPairs_append, sumPairs_append, sumPairs_append]
  apply sumPairs_congr
  intro τ
  have hP := prodL_dependsOn rest hrest
  set P : Asg L → R := fun τ => prodL (rest.map (fun f => f τ)) with hPdef
  -- the innermost sum: the product of the rest is a factor
  have hin : ∀ ρ', sumPairs dim pp (fun τ => prodL ((Q :: Qc :: rest).map (fun f => f τ))) ρ' =
      sumPairs dim pp (fun ρ => Q ρ * Qc ρ) ρ' * P ρ' := by
    intro ρ'
    rw [← sumPairs_mul_right dim pp (fun ρ => Q ρ * Qc ρ) P hP hpp ρ']
    apply sumPairs_congr
    intro ρ
    simp only [List.map_cons, prodL, hPdef, mul_assoc]
  simp only [sumPairs]
  rw [hd1, hd2]
  rw [← delta_sum (dim q) (fun i j => P (upd (upd τ r i) r' j))]
  unfold sumR
  congr 1
  apply List.map_congr_left
  intro i hi
  congr 1
  apply List.map_congr_left
  intro j hj
  have e1 : upd (upd (upd (upd τ q i) r i) q' j) r' j q = i := by
    simp [upd, hqq', hqr']
  have e2 : upd (upd (upd (upd τ q i) r i) q' j) r' j q' = j := by
    by_cases h : q' = r' <;> simp [upd, h]
  rw [hin, hiso _ (by rw [e1]; exact List.mem_range.1 hi) (by rw [e2]; exact List.mem_range.1 hj), e1, e2]
  congr 1
  apply hP
  intro l hl
  have h1 : l ≠ q := fun e => hq (e ▸ hl)
  have h2 : l ≠ q' := fun e => hq' (e ▸ hl)
  simp [upd, h1, h2]

/-- the norm network: binding record and leaf tensors -/
abbrev NormNet (L R : Type) := List (L × L) × List (Asg L → R)

/-- one absorption: up to the order of bonds and leaves the network is `Q, Qc` + rest as in
`isometry_absorb_value`, with the isometry condition of `Q` toward its bond `(q, r)` -/
inductive Absorb (dim : L → Nat) : NormNet L R → NormNet L R → Prop
  | mk (bonds : List (L × L)) (leaves : List (Asg L → R)) (bs pp : List (L × L)) (Q Qc : Asg L → R)
      (rest : List (Asg L → R)) (q r q' r' : L) (S : L → Prop)
      (hb : bonds.Perm ((bs ++ [(q, r), (q', r')]) ++ pp)) (hl : leaves.Perm (Q :: Qc :: rest))
      (hiso : ∀ τ, τ q < dim q → τ q' < dim q →
        sumPairs dim pp (fun ρ => Q ρ * Qc ρ) τ = if τ q = τ q' then 1 else 0)
      (hrest : ∀ f ∈ rest, DependsOn S f) (hpp : ∀ l ∈ Expr.pairLegs pp, ¬ S l) (hq : ¬ S q) (hq' : ¬ S q')
      (hd1 : dim q' = dim q) (hd2 : dim r = dim q) :
      Absorb dim (bonds, leaves) (bs ++ [(r, r')], rest)

inductive AbsorbRun (dim : L → Nat) : NormNet L R → NormNet L R → Prop
  | nil (X : NormNet L R) : AbsorbRun dim X X
  | cons {X Y Z : NormNet L R} : Absorb dim X Y → AbsorbRun dim Y Z → AbsorbRun dim X Z

theorem prodL_perm' {xs ys : List R} (h : xs.Perm ys) : prodL xs = prodL ys := by
  induction h with
  | nil => rfl
  | cons x _ ih => simp only [prodL, ih]
  | swap x y l => simp only [prodL]; rw [← mul_assoc, ← mul_assoc, mul_comm y x]
  | trans _ _ ih1 ih2 => rw [ih1, ih2]

theorem absorb_value (dim : L → Nat) {X Y : NormNet L R} (hs : Absorb dim X Y)
    (hnd : (Expr.pairLegs X.1).Nodup) (σ : Asg L) :
    (Expr.pairLegs Y.1).Nodup ∧ netValue dim Y.1 Y.2 σ = netValue dim X.1 X.2 σ := by
  cases hs with
  | mk bonds leaves bs pp Q Qc rest q r q' r' S hb hl hiso hrest hpp hq hq' hd1 hd2 =>
  have hnd2 : (Expr.pairLegs ((bs ++ [(q, r), (q', r')]) ++ pp)).Nodup := (pairLegs_perm hb).nodup_iff.1 hnd
  have hnd3 : ((Expr.pairLegs bs ++ [q, q', r, r']) ++ Expr.pairLegs pp).Nodup := by
    have := ((Expr.pairLegs_append _ pp).trans
      (List.Perm.append_right _ (Expr.pairLegs_append bs _))).nodup_iff.1 hnd2
    simpa [Expr.pairLegs] using this
  have hsub : (Expr.pairLegs bs ++ [r, r']).Sublist ((Expr.pairLegs bs ++ [q, q', r, r']) ++ Expr.pairLegs pp) :=
    (List.Sublist.append (List.Sublist.refl _) (((List.Sublist.refl [r, r']).cons q').cons q)).trans
      (List.sublist_append_left _ _)
  have hqs : q ≠ q' ∧ q ≠ r' := by
    have h4 : [q, q', r, r'].Nodup := (List.nodup_append.1 (List.nodup_append.1 hnd3).1).2.1
    simp only [List.nodup_cons, List.mem_cons, List.not_mem_nil, or_false, not_or] at h4
    exact ⟨h4.1.1, h4.1.2.2⟩
  refine ⟨?_, ?_⟩
  · have : (Expr.pairLegs (bs ++ [(r, r')])).Perm (Expr.pairLegs bs ++ [r, r']) := by
      refine (Expr.pairLegs_append _ _).trans ?_
      simp [Expr.pairLegs]
    rw [this.nodup_iff]
    exact hnd3.sublist hsub
  · show netValue dim (bs ++ [(r, r')]) rest σ = netValue dim bonds leaves σ
    rw [← isometry_absorb_value dim bs pp Q Qc rest q r q' r' hiso hrest hpp hq hq' hqs.1 hqs.2 hd1 hd2 σ]
    unfold netValue
    rw [← sumPairs_perm dim hb hnd]
    apply sumPairs_congr
    intro τ
    exact (prodL_perm' (hl.map _)).symm

/-- Any sequence of absorptions leaves the value of the norm network unchanged. -/
theorem absorb_run_value (dim : L → Nat) {X Y : NormNet L R} (hr : AbsorbRun dim X Y)
    (hnd : (Expr.pairLegs X.1).Nodup) (σ : Asg L) :
    netValue dim Y.1 Y.2 σ = netValue dim X.1 X.2 σ := by
  induction hr with
  | nil X => rfl
  | cons hs _ ih =>
    obtain ⟨h1, h2⟩ := absorb_value dim hs hnd σ
    rw [ih h1, h2]

end Ptn.C03
