import Ptn.Common.EinsumNet
/-! Flat labelled tensor networks with node-indexed leaves (`VNet`): the value-level carrier shared by the
C03 centre moves (`Ptn/C03/Value.lean`) and the C02 structural edits (`Ptn/C02/Value.lean`).

A network has a list of node identifiers, for every node its list of leg labels (natural numbers) and its
tensor (a function of the index assignment that reads only the node's own legs), a binding record (`bonds`:
pairs of leg labels that are summed over with a common index) and a counter `next` above every label in use,
from which FRESH bond labels are drawn (every QR / SVD / contraction-and-split creates a new pair
`(next, next + 1)` and advances the counter by two).  The value is `Ptn.Ein.netValue`: the one big sum over
the binding record of the product of all node tensors, as a function of the assignment of the open legs.

Generic facts proved here: the value does not depend on the order of the leaves nor (no leg bound twice) on
the order of the binding record. -/
namespace Ptn.C03

open Ptn.Ein

set_option linter.unusedSectionVars false
variable {R : Type} [CommSemiring R]

/-! ### order of the leaves -/

theorem prodL_perm {xs ys : List R} (h : xs.Perm ys) : prodL xs = prodL ys := by
  induction h with
  | nil => rfl
  | cons x _ ih => simp only [prodL, ih]
  | swap x y l => simp only [prodL]; rw [← mul_assoc, ← mul_assoc, mul_comm y x]
  | trans _ _ ih1 ih2 => rw [ih1, ih2]

theorem netValue_perm_leaves (dim : Nat → Nat) (bs : List (Nat × Nat)) {l1 l2 : List (Asg Nat → R)}
    (h : l1.Perm l2) (σ : Asg Nat) : netValue dim bs l1 σ = netValue dim bs l2 σ := by
  unfold netValue
  apply sumPairs_congr
  intro τ
  exact prodL_perm (h.map _)

theorem netValue_perm_bonds (dim : Nat → Nat) {bs cs : List (Nat × Nat)} (h : bs.Perm cs)
    (hnd : (Expr.pairLegs bs).Nodup) (ls : List (Asg Nat → R)) (σ : Asg Nat) :
    netValue dim bs ls σ = netValue dim cs ls σ := by
  unfold netValue
  exact sumPairs_perm dim h hnd _ σ

/-! ### networks -/

structure VNet (R : Type) where
  ids : List Nat
  legs : Nat → List Nat
  tens : Nat → Asg Nat → R
  bonds : List (Nat × Nat)
  next : Nat

/-- the dense tensor the network represents, as a function of the assignment of the open legs -/
def VNet.value (dim : Nat → Nat) (N : VNet R) : Asg Nat → R := netValue dim N.bonds (N.ids.map N.tens)

/-- well-formed: distinct nodes, every label belongs to exactly one node, every tensor reads only its own
legs, no leg is bound twice, bonds join legs of nodes, the counter is above every label in use -/
structure VNet.WF (N : VNet R) : Prop where
  ids_nodup : N.ids.Nodup
  legs_nodup : ∀ n ∈ N.ids, (N.legs n).Nodup
  owner : ∀ n ∈ N.ids, ∀ m ∈ N.ids, ∀ l, l ∈ N.legs n → l ∈ N.legs m → n = m
  reads : ∀ n ∈ N.ids, DependsOn (· ∈ N.legs n) (N.tens n)
  bonds_nodup : (Expr.pairLegs N.bonds).Nodup
  bonds_legs : ∀ p ∈ N.bonds, (∃ n ∈ N.ids, p.1 ∈ N.legs n) ∧ (∃ m ∈ N.ids, p.2 ∈ N.legs m)
  fresh : ∀ n ∈ N.ids, ∀ l ∈ N.legs n, l < N.next

/-- nodes `n` and `m` are joined by the bond `p`, whose end at `n` is `a` and whose end at `m` is `b` -/
def VNet.Joined (N : VNet R) (n m : Nat) (p : Nat × Nat) (a b : Nat) : Prop :=
  p ∈ N.bonds ∧ (p = (a, b) ∨ p = (b, a)) ∧ a ∈ N.legs n ∧ b ∈ N.legs m

theorem VNet.WF.bond_lt {N : VNet R} (h : N.WF) : ∀ l ∈ Expr.pairLegs N.bonds, l < N.next := by
  intro l hl
  simp only [Expr.pairLegs, List.mem_append, List.mem_map] at hl
  rcases hl with ⟨p, hp, rfl⟩ | ⟨p, hp, rfl⟩
  · obtain ⟨⟨n, hn, h1⟩, _⟩ := h.bonds_legs p hp
    exact h.fresh n hn _ h1
  · obtain ⟨_, ⟨m, hm, h1⟩⟩ := h.bonds_legs p hp
    exact h.fresh m hm _ h1

/-- the legs of the other bonds are different from the legs of `p` -/
theorem VNet.WF.erase_legs {N : VNet R} (h : N.WF) {p : Nat × Nat} (hp : p ∈ N.bonds) :
    (p.1 :: p.2 :: Expr.pairLegs (N.bonds.erase p)).Nodup :=
  ((pairLegs_perm (List.perm_cons_erase hp)).trans (pairLegs_cons_perm p _)).nodup_iff.1 h.bonds_nodup

theorem VNet.WF.erase_ne {N : VNet R} (h : N.WF) {p : Nat × Nat} (hp : p ∈ N.bonds) :
    ∀ l ∈ Expr.pairLegs (N.bonds.erase p), l ≠ p.1 ∧ l ≠ p.2 := by
  intro l hl
  have := h.erase_legs hp
  simp only [List.nodup_cons, List.mem_cons, not_or] at this
  exact ⟨fun e => this.1.2 (e ▸ hl), fun e => this.2.1 (e ▸ hl)⟩

theorem mem_pairLegs_of_mem {p : Nat × Nat} {bs : List (Nat × Nat)} (hp : p ∈ bs) :
    p.1 ∈ Expr.pairLegs bs ∧ p.2 ∈ Expr.pairLegs bs := by
  simp only [Expr.pairLegs, List.mem_append, List.mem_map]
  exact ⟨Or.inl ⟨p, hp, rfl⟩, Or.inr ⟨p, hp, rfl⟩⟩

/-- exposing two nodes in the leaf list -/
theorem ids_perm_two {ids : List Nat} {n m : Nat} (hn : n ∈ ids) (hm : m ∈ ids) (hnm : n ≠ m) :
    ids.Perm (n :: m :: (ids.erase n).erase m) := by
  have h1 := List.perm_cons_erase hn
  have hm' : m ∈ ids.erase n := (List.mem_erase_of_ne (Ne.symm hnm)).2 hm
  exact h1.trans (List.Perm.cons _ (List.perm_cons_erase hm'))

theorem mem_rest {ids : List Nat} (hnd : ids.Nodup) {n m k : Nat} (hk : k ∈ (ids.erase n).erase m) :
    k ∈ ids ∧ k ≠ n ∧ k ≠ m := by
  have h1 : (ids.erase n).Nodup := hnd.erase n
  have h2 := (h1.mem_erase_iff).1 hk
  have h3 := (hnd.mem_erase_iff).1 h2.2
  exact ⟨h3.2, h3.1, h2.1⟩

/-- the value with two nodes and the bond between them exposed -/
theorem VNet.value_expose2 (dim : Nat → Nat) {N : VNet R} (h : N.WF) {n m : Nat} (hn : n ∈ N.ids) (hm : m ∈ N.ids)
    (hnm : n ≠ m) {p : Nat × Nat} (hp : p ∈ N.bonds) (σ : Asg Nat) :
    N.value dim σ = netValue dim (N.bonds.erase p ++ [(p.1, p.2)])
      (N.tens n :: N.tens m :: ((N.ids.erase n).erase m).map N.tens) σ := by
  unfold VNet.value
  rw [netValue_perm_leaves dim _ ((ids_perm_two hn hm hnm).map N.tens) σ]
  have hbp : N.bonds.Perm (N.bonds.erase p ++ [(p.1, p.2)]) :=
    (List.perm_cons_erase hp).trans (List.perm_append_comm (l₁ := [p]))
  exact netValue_perm_bonds dim hbp h.bonds_nodup _ σ

/-- the value with one node exposed -/
theorem VNet.value_expose1 (dim : Nat → Nat) (N : VNet R) {n : Nat} (hn : n ∈ N.ids) (σ : Asg Nat) :
    N.value dim σ = netValue dim N.bonds (N.tens n :: (N.ids.erase n).map N.tens) σ := by
  unfold VNet.value
  exact netValue_perm_leaves dim _ ((List.perm_cons_erase hn).map N.tens) σ

/-- the nodes other than the two ends of a bond read neither end -/
theorem VNet.WF.rest_not_bond {N : VNet R} (h : N.WF) {n m : Nat} (hn : n ∈ N.ids) (hm : m ∈ N.ids)
    {p : Nat × Nat} {a b : Nat} (hj : N.Joined n m p a b) :
    ∀ f ∈ ((N.ids.erase n).erase m).map N.tens, DependsOn (fun l => l ≠ p.1 ∧ l ≠ p.2) f := by
  obtain ⟨_, hab, ha, hb⟩ := hj
  intro f hf
  obtain ⟨k, hk, rfl⟩ := List.mem_map.1 hf
  obtain ⟨hk1, hk2, hk3⟩ := mem_rest h.ids_nodup hk
  refine (h.reads k hk1).mono (fun l hl => ?_)
  have h1 : l ≠ a := fun e => hk2 (h.owner k hk1 n hn l hl (e ▸ ha))
  have h2 : l ≠ b := fun e => hk3 (h.owner k hk1 m hm l hl (e ▸ hb))
  rcases hab with rfl | rfl
  · exact ⟨h1, h2⟩
  · exact ⟨h2, h1⟩

end Ptn.C03
