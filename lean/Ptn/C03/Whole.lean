import Ptn.C03.CentreNorm
import Ptn.Common.EinsumBuilt
import Batteries.Data.List.Perm
import Ptn.C17.Segments
/-! The norm network ALONG THE TREE is the doubled network of the WHOLE valued network (builder B51).

`wholeNormBinds N` / `wholeNormLeaves cj N`: all tensors of `N` and their conjugated copies, every bond of `N`
doubled, every open leg (a leg of a node that is no end of a bond) paired ket-with-bra.  `TreeShaped N t`: the
nodes of `N` are the nodes of `t` and `N` has as many bonds as `t` has edges.  Under this hypothesis the
injection edges -> bonds given by `EdgeOK` is onto (counting), hence the tree's binding record is the whole
record up to order and orientation of the pairs. -/
namespace Ptn.C03

open Ptn.Ein Ptn.C17 Ptn.C17.RTree

set_option linter.unusedSectionVars false
set_option linter.unusedVariables false
variable {R : Type} [CommSemiring R]

/-! ### generic: records that agree pair by pair up to orientation -/

theorem orientRel_map_b51 {L : Type} (g : L × L → L × L) (hg : ∀ p, g p = p ∨ g p = p.swap) :
    ∀ ps : List (L × L), OrientRel ps (ps.map g)
  | [] => trivial
  | p :: ps => by
    refine ⟨?_, orientRel_map_b51 g hg ps⟩
    rcases hg p with e | e <;> rw [e]
    · exact Or.inl rfl
    · exact Or.inr (Prod.swap_swap p).symm

/-- every pair of `bs` occurs in `cs` in one of its two orientations, `cs` is not longer, no leg of `bs` is
bound twice, both ends of every pair have one dimension: the two sums agree -/
theorem sumPairs_orient_subset_b51 {L : Type} [DecidableEq L] (dim : L → Nat) {bs cs : List (L × L)}
    (hnd : (Expr.pairLegs bs).Nodup) (hlen : cs.length ≤ bs.length)
    (hsub : ∀ x ∈ bs, x ∈ cs ∨ x.swap ∈ cs) (hd : ∀ x ∈ bs, dim x.1 = dim x.2)
    (f : Asg L → R) (σ : Asg L) : sumPairs dim bs f σ = sumPairs dim cs f σ := by
  let g : L × L → L × L := fun x => if x ∈ cs then x else x.swap
  have hg : ∀ p, g p = p ∨ g p = p.swap := by
    intro p; by_cases h : p ∈ cs <;> simp [g, h]
  have hor := orientRel_map_b51 g hg bs
  have hpl := pairLegs_perm_of_orientRel _ _ hor
  have hnd' : (Expr.pairLegs (bs.map g)).Nodup := hpl.nodup_iff.1 hnd
  have hd' : ∀ p ∈ bs.map g, dim p.1 = dim p.2 := by
    intro p hp
    obtain ⟨x, hx, rfl⟩ := List.mem_map.1 hp
    rcases hg x with e | e <;> rw [e]
    · exact hd x hx
    · exact (hd x hx).symm
  rw [sumPairs_orient_rel dim _ _ hor hd' f σ]
  have hsub' : bs.map g ⊆ cs := by
    intro p hp
    obtain ⟨x, hx, rfl⟩ := List.mem_map.1 hp
    by_cases h : x ∈ cs
    · simp [g, h]
    · have := (hsub x hx).resolve_left h
      simp [g, h, this]
  have hnd2 : (bs.map g).Nodup := by
    have h1 : ((bs.map g).map Prod.fst).Nodup := by
      unfold Expr.pairLegs at hnd'
      exact (List.nodup_append.1 hnd').1
    exact List.Nodup.of_map _ h1
  have hperm : (bs.map g).Perm cs :=
    (List.subperm_of_subset hnd2 hsub').perm_of_length_le (by simpa using hlen)
  exact sumPairs_perm dim hperm hnd' f σ

/-! ### the doubled network of the whole valued network -/

/-- all legs of all nodes -/
def allLegs (N : VNet R) : List Nat := N.ids.flatMap N.legs

/-- the legs that are no end of a bond -/
def openLegs (N : VNet R) : List Nat :=
  (allLegs N).filter (fun l => decide (l ∉ Expr.pairLegs N.bonds))

/-- both copies of a bond -/
def dblBond (p : Nat × Nat) : List (DL × DL) := [(DL.ket p.1, DL.ket p.2), (DL.bra p.1, DL.bra p.2)]

/-- the binding record of `⟨ψ|ψ⟩` for the whole network: open legs ket-with-bra, every bond in both copies -/
def wholeNormBinds (N : VNet R) : List (DL × DL) := (openLegs N).map dbl ++ N.bonds.flatMap dblBond

/-- all tensors and conjugated tensors of the network -/
def wholeNormLeaves (cj : R → R) (N : VNet R) : List (Asg DL → R) := N.ids.flatMap (nodeLeaves cj N)

/-- **`N` has exactly the shape of the tree `t`**: the same nodes, one bond per edge (every edge is a bond and
there are as many bonds as edges) -/
structure TreeShaped (N : VNet R) (t : RTree) : Prop where
  ids_perm : N.ids.Perm (ids t)
  bonds_len : N.bonds.length = (edges t).length
  adj : ∀ e ∈ edges t, ∃ p a b, N.Joined e.1 e.2 p a b

theorem allLegs_nodup_b51 {N : VNet R} (h : N.WF) : ∀ {ns : List Nat}, ns.Nodup → (∀ n ∈ ns, n ∈ N.ids) →
    (ns.flatMap N.legs).Nodup
  | [], _, _ => by simp
  | n :: ns, hnd, hsub => by
    rw [List.nodup_cons] at hnd
    simp only [List.flatMap_cons]
    rw [List.nodup_append]
    refine ⟨h.legs_nodup n (hsub n List.mem_cons_self),
      allLegs_nodup_b51 h hnd.2 (fun m hm => hsub m (List.mem_cons_of_mem _ hm)), ?_⟩
    intro x hx y hy hxy
    subst hxy
    obtain ⟨n', hn', hx'⟩ := List.mem_flatMap.1 hy
    have := h.owner n (hsub n List.mem_cons_self) n' (hsub n' (List.mem_cons_of_mem _ hn')) x hx hx'
    exact hnd.1 (this ▸ hn')

theorem allLabels_length_b51 (N : VNet R) (ns : List Nat) :
    (allLabels N ns).length = 2 * (ns.flatMap N.legs).length := by
  induction ns with
  | nil => simp [allLabels]
  | cons n ns ih =>
    simp only [allLabels] at ih
    simp only [allLabels, List.flatMap_cons, List.length_append, ih, dlegs, List.length_map]
    omega

theorem pairLegs_length_b51 {L : Type} (ps : List (L × L)) : (Expr.pairLegs ps).length = 2 * ps.length := by
  simp [Expr.pairLegs]; omega

theorem flatMap_dblBond_length_b51 (bs : List (Nat × Nat)) : (bs.flatMap dblBond).length = 2 * bs.length := by
  induction bs with
  | nil => simp
  | cons b bs ih => simp only [List.flatMap_cons, List.length_append, ih, dblBond, List.length_cons,
      List.length_nil]; omega

/-- twice the number of pairs of the whole record = number of labels of the doubled network -/
theorem wholeNormBinds_length {N : VNet R} (h : N.WF) :
    2 * (wholeNormBinds N).length = (allLabels N N.ids).length := by
  have hsub : ∀ x ∈ Expr.pairLegs N.bonds, x ∈ allLegs N := by
    intro x hx
    simp only [Expr.pairLegs, List.mem_append, List.mem_map] at hx
    rcases hx with ⟨p, hp, rfl⟩ | ⟨p, hp, rfl⟩
    · obtain ⟨⟨n, hn, h1⟩, _⟩ := h.bonds_legs p hp
      exact List.mem_flatMap.2 ⟨n, hn, h1⟩
    · obtain ⟨_, ⟨n, hn, h1⟩⟩ := h.bonds_legs p hp
      exact List.mem_flatMap.2 ⟨n, hn, h1⟩
  have hp := (filter_compl_perm (allLegs_nodup_b51 h h.ids_nodup (fun _ hn => hn)) h.bonds_nodup hsub).length_eq
  rw [allLabels_length_b51]
  simp only [wholeNormBinds, openLegs, List.length_append, List.length_map, flatMap_dblBond_length_b51]
  simp only [List.length_append, pairLegs_length_b51] at hp
  simp only [allLegs]
  omega

/-! ### the run keeps the number of bonds -/

theorem isoStep_bonds_length {dim : Nat → Nat} {cj : R → R} {A B : VNet R} {o : Op}
    (hs : IsoStep dim cj A o B) : B.bonds.length = A.bonds.length := by
  cases hs with
  | mk n m p a b hn hm hnm hj F hiso hdim =>
    have hp : p ∈ A.bonds := hj.1
    show (A.bonds.erase p ++ [(A.next, A.next + 1)]).length = _
    rw [List.length_append, List.length_erase_of_mem hp]
    have := List.length_pos_of_mem hp
    simp; omega

theorem isoRun_bonds_length {dim : Nat → Nat} {cj : R → R} {N N' : VNet R} {ops : List Op}
    (hr : IsoRun dim cj N ops N') : N'.bonds.length = N.bonds.length := by
  induction hr with
  | nil N => rfl
  | cons hs _ ih => rw [ih, isoStep_bonds_length hs]

/-! ### counting: every bond is the bond of a tree edge -/

section
variable {dim : Nat → Nat} {cj : R → R} {N : VNet R} {up dn : Nat → Nat}

/-- **The injection edges -> bonds is onto.**  If every edge of the well-formed tree `r` is a bond of `N`
(`EdgeOK`) and `N` has no more bonds than `r` has edges, every bond of `N` is the bond of an edge. -/
theorem bond_is_edge (h : N.WF) (r : RTree) (hwr : r.WF)
    (hE : ∀ e ∈ edges r, EdgeOK dim cj N up dn e.1 e.2) (hlen : N.bonds.length ≤ (edges r).length) :
    ∀ p ∈ N.bonds, ∃ e ∈ edges r, p = (up e.2, dn e.2) ∨ p = (dn e.2, up e.2) := by
  let f : Nat × Nat → Nat × Nat := fun e =>
    if (up e.2, dn e.2) ∈ N.bonds then (up e.2, dn e.2) else (dn e.2, up e.2)
  have hf : ∀ e ∈ edges r, f e ∈ N.bonds ∧ (f e = (up e.2, dn e.2) ∨ f e = (dn e.2, up e.2)) := by
    intro e he
    obtain ⟨_, _, ⟨p, hp, hab, _, _⟩, _, _⟩ := hE e he
    by_cases hc : (up e.2, dn e.2) ∈ N.bonds
    · simp [f, hc]
    · have : p = (dn e.2, up e.2) := by
        rcases hab with e1 | e1
        · exact absurd (e1 ▸ hp) hc
        · exact e1
      simp only [f, hc, if_false]
      exact ⟨this ▸ hp, by simp⟩
  have hinj : ∀ e ∈ edges r, ∀ e' ∈ edges r, f e = f e' → e = e' := by
    intro e he e' he' hff
    obtain ⟨i, k⟩ := e
    obtain ⟨i', k'⟩ := e'
    obtain ⟨hi, hk, ⟨p, _, _, hu, hd⟩, _, _⟩ := hE _ he
    obtain ⟨hi', hk', ⟨p', _, _, hu', hd'⟩, _, _⟩ := hE _ he'
    simp only at hi hk hu hd hi' hk' hu' hd'
    have hcases : (up k = up k' ∧ dn k = dn k') ∨ (up k = dn k' ∧ dn k = up k') := by
      have h1 := (hf _ he).2
      have h2 := (hf _ he').2
      simp only at h1 h2
      rw [hff] at h1
      rcases h1 with e1 | e1 <;> rcases h2 with e2 | e2 <;> rw [e1] at e2 <;>
        simp only [Prod.mk.injEq] at e2 <;> obtain ⟨x1, x2⟩ := e2
      · exact Or.inl ⟨x1, x2⟩
      · exact Or.inr ⟨x1, x2⟩
      · exact Or.inr ⟨x2, x1⟩
      · exact Or.inl ⟨x2, x1⟩
    rcases hcases with ⟨e1, e2⟩ | ⟨e1, e2⟩
    · have hkk : k = k' := h.owner k hk k' hk' _ hu (e1 ▸ hu')
      subst hkk
      have := parent_unique hwr he he'
      subst this
      rfl
    · have hki : k = i' := h.owner k hk i' hi' _ hu (e1 ▸ hd')
      have hik : i = k' := h.owner i hi k' hk' _ hd (e2 ▸ hu')
      subst hki; subst hik
      exact absurd he' (no_two_cycle hwr he)
  have hndE : (edges r).Nodup := List.Nodup.of_map _ (edges_unord_nodup r hwr)
  have hnd : ((edges r).map f).Nodup := by
    rw [List.nodup_iff_pairwise_ne] at hndE ⊢
    rw [List.pairwise_map]
    exact hndE.imp_of_mem (fun ha hb hne e => hne (hinj _ ha _ hb e))
  have hsub : (edges r).map f ⊆ N.bonds := by
    intro p hp
    obtain ⟨e, he, rfl⟩ := List.mem_map.1 hp
    exact (hf e he).1
  have hperm : ((edges r).map f).Perm N.bonds :=
    (List.subperm_of_subset hnd hsub).perm_of_length_le (by simpa using hlen)
  intro p hp
  obtain ⟨e, he, rfl⟩ := List.mem_map.1 (hperm.mem_iff.2 hp)
  exact ⟨e, he, (hf e he).2⟩

/-! ### the binding record along the tree, pair by pair -/

/-- the ket / bra copy of the bond of the edge `e` as it appears in the record along the tree -/
def ketPair (up dn : Nat → Nat) (e : Nat × Nat) : DL × DL := (DL.ket (dn e.2), DL.ket (up e.2))
def braPair (up dn : Nat → Nat) (e : Nat × Nat) : DL × DL := (DL.bra (dn e.2), DL.bra (up e.2))

theorem mem_physOf_b51 {N : VNet R} {k : Nat} {X : List Nat} {x : DL × DL} (hx : x ∈ physOf N k X) :
    ∃ l ∈ N.legs k, x = dbl l := by
  simp only [physOf, List.mem_map, List.mem_filter] at hx
  obtain ⟨l, ⟨hl, _⟩, rfl⟩ := hx
  exact ⟨l, hl, rfl⟩

theorem tree_binds_mem (cj : R → R) (N : VNet R) (up dn : Nat → Nat) :
    (∀ t : RTree, ∀ x, x ∈ (subOf cj N up dn t).binds →
      (∃ n ∈ ids t, ∃ l ∈ N.legs n, x = dbl l) ∨ (∃ e ∈ edges t, x = ketPair up dn e ∨ x = braPair up dn e)) ∧
    (∀ ks : List RTree, ∀ k x, x ∈ (kidsOf cj N up dn ks).binds →
      (∃ n ∈ idsL ks, ∃ l ∈ N.legs n, x = dbl l) ∨
        (∃ e ∈ edgesL k ks, x = ketPair up dn e ∨ x = braPair up dn e)) := by
  apply induct
  · intro k ks ih x hx
    rw [subOf, Sub.binds, List.mem_append] at hx
    rw [ids_node, edges_node]
    rcases hx with hx | hx
    · obtain ⟨l, hl, rfl⟩ := mem_physOf_b51 hx
      exact Or.inl ⟨k, List.mem_cons_self, l, hl, rfl⟩
    · rcases ih k x hx with ⟨n, hn, l, hl, rfl⟩ | hr
      · exact Or.inl ⟨n, List.mem_cons_of_mem _ hn, l, hl, rfl⟩
      · exact Or.inr hr
  · intro k x hx
    simp [kidsOf, Kids.binds] at hx
  · intro t ts iht ihts k x hx
    rw [kidsOf, Kids.binds, subOf_u, subOf_u'] at hx
    rw [idsL_cons, edgesL_cons]
    simp only [List.mem_cons, List.mem_append] at hx
    rcases hx with rfl | rfl | hx | hx
    · exact Or.inr ⟨(k, t.rid), List.mem_cons_self, Or.inl rfl⟩
    · exact Or.inr ⟨(k, t.rid), List.mem_cons_self, Or.inr rfl⟩
    · rcases iht x hx with ⟨n, hn, l, hl, rfl⟩ | ⟨e, he, hr⟩
      · exact Or.inl ⟨n, List.mem_append_left _ hn, l, hl, rfl⟩
      · exact Or.inr ⟨e, List.mem_cons_of_mem _ (List.mem_append_left _ he), hr⟩
    · rcases ihts k x hx with ⟨n, hn, l, hl, rfl⟩ | ⟨e, he, hr⟩
      · exact Or.inl ⟨n, List.mem_append_right _ hn, l, hl, rfl⟩
      · exact Or.inr ⟨e, List.mem_cons_of_mem _ (List.mem_append_right _ he), hr⟩

theorem tree_binds_edge (cj : R → R) (N : VNet R) (up dn : Nat → Nat) :
    (∀ t : RTree, ∀ e ∈ edges t, ketPair up dn e ∈ (subOf cj N up dn t).binds) ∧
    (∀ ks : List RTree, ∀ k, ∀ e ∈ edgesL k ks, ketPair up dn e ∈ (kidsOf cj N up dn ks).binds) := by
  apply induct
  · intro k ks ih e he
    rw [edges_node] at he
    rw [subOf, Sub.binds]
    exact List.mem_append_right _ (ih k e he)
  · intro k e he
    simp at he
  · intro t ts iht ihts k e he
    rw [edgesL_cons] at he
    rw [kidsOf, Kids.binds, subOf_u, subOf_u']
    simp only [List.mem_cons, List.mem_append] at he ⊢
    rcases he with rfl | he | he
    · exact Or.inl rfl
    · exact Or.inr (Or.inr (Or.inl (iht e he)))
    · exact Or.inr (Or.inr (Or.inr (ihts k e he)))

/-- two different pairs of a record in which no leg is bound twice share no first leg -/
theorem pairLegs_disjoint_b51 {L : Type} [DecidableEq L] {bs : List (L × L)} (hnd : (Expr.pairLegs bs).Nodup)
    {x y : L × L} (hx : x ∈ bs) (hy : y ∈ bs) (hxy : x ≠ y) : x.1 ≠ y.1 ∧ x.1 ≠ y.2 := by
  have hy' : y ∈ bs.erase x := (List.mem_erase_of_ne (Ne.symm hxy)).2 hy
  have hp : bs.Perm (x :: y :: (bs.erase x).erase y) :=
    (List.perm_cons_erase hx).trans ((List.perm_cons_erase hy').cons x)
  have h1 := ((pairLegs_perm hp).trans ((pairLegs_cons_perm x _).trans
    (((pairLegs_cons_perm y _).cons x.2).cons x.1))).nodup_iff.1 hnd
  simp only [List.nodup_cons, List.mem_cons, not_or] at h1
  exact ⟨h1.1.2.1, h1.1.2.2.1⟩

theorem centre_labels_perm_b51 (h : N.WF) (r : RTree) (hnd : (ids r).Nodup) (hsub : ∀ n ∈ ids r, n ∈ N.ids)
    (hE : ∀ e ∈ edges r, EdgeOK dim cj N up dn e.1 e.2) :
    (centreOf cj N up dn r).labels.Perm (allLabels N (ids r)) := by
  obtain ⟨c, ks⟩ := r
  rw [ids_node] at hnd hsub
  have hnd' := List.nodup_cons.1 hnd
  rw [edges_node] at hE
  have hc : c ∈ N.ids := hsub c List.mem_cons_self
  obtain ⟨hKC, hKL⟩ := (tree_canon (cj := cj) (dim := dim) (up := up) (dn := dn) h).2 ks c hnd'.1 hnd'.2 hE
  have hEc : ∀ t ∈ ks, EdgeOK dim cj N up dn c t.rid := fun t ht => hE _ (child_edge ht)
  obtain ⟨hD1, hD2⟩ := dnLegs_facts h (rids_nodup hnd'.2) hEc
  have hL := filter_compl_perm (h.legs_nodup c hc) hD1 hD2
  simp only [centreOf, rid, kids]
  rw [List.perm_iff_count]
  intro a
  have c1 := (hL.map DL.ket).count_eq a
  have c2 := (hL.map DL.bra).count_eq a
  have c3 := hKL.count_eq a
  simp only [Centre.labels, physOf, pairLegs_map_dbl, allLabels, List.flatMap_cons, dlegs, ids_node,
    List.count_append, List.map_append] at c1 c2 c3 ⊢
  omega

/-- **The record along the tree is the record of the whole network.**  `N` well-formed with the nodes of the
well-formed tree `r` and as many bonds as `r` has edges, every edge `EdgeOK`: the doubled network of the WHOLE
of `N` has the value of the norm network along `r`. -/
theorem whole_norm_eq_tree (h : N.WF) (r : RTree) (hwr : r.WF) (hperm : N.ids.Perm (ids r))
    (hlen : N.bonds.length = (edges r).length) (hE : ∀ e ∈ edges r, EdgeOK dim cj N up dn e.1 e.2)
    (σ : Asg DL) :
    netValue (ddim dim) (wholeNormBinds N) (wholeNormLeaves cj N) σ =
      netValue (ddim dim) (centreOf cj N up dn r).normBinds ((ids r).flatMap (nodeLeaves cj N)) σ := by
  have hsubI : ∀ n ∈ ids r, n ∈ N.ids := fun n hn => hperm.mem_iff.2 hn
  obtain ⟨_, hLnd, _⟩ := centre_canon_of_tree (cj := cj) (dim := dim) (up := up) (dn := dn) h r hwr hsubI hE
  have hLp := centre_labels_perm_b51 (cj := cj) (dim := dim) (up := up) (dn := dn) h r hwr hsubI hE
  have hTp : (Expr.pairLegs (centreOf cj N up dn r).normBinds).Perm (centreOf cj N up dn r).labels := by
    rw [List.perm_iff_count]
    intro a
    have := (Kids.labels_perm (centreOf cj N up dn r).kids).count_eq a
    simp only [Centre.normBinds, Centre.labels, count_pairLegs_append, List.count_append, this]
  have hTnd : (Expr.pairLegs (centreOf cj N up dn r).normBinds).Nodup := hTp.nodup_iff.2 hLnd
  have hlenW : (wholeNormBinds N).length ≤ (centreOf cj N up dn r).normBinds.length := by
    have h1 := wholeNormBinds_length h
    have h2 := (hTp.trans hLp).length_eq
    have h3 := (hperm.flatMap_right (dlegs N)).length_eq
    rw [pairLegs_length_b51] at h2
    simp only [allLabels] at h1 h2
    omega
  have hbe := bond_is_edge (cj := cj) (dim := dim) (up := up) (dn := dn) h r hwr hE (Nat.le_of_eq hlen)
  have hkids : ∀ e ∈ edges r, ketPair up dn e ∈ (centreOf cj N up dn r).normBinds := by
    intro e he
    obtain ⟨c, ks⟩ := r
    rw [edges_node] at he
    exact List.mem_append_right _ ((tree_binds_edge cj N up dn).2 ks c e he)
  have hmem : ∀ x ∈ (centreOf cj N up dn r).normBinds,
      (∃ n ∈ ids r, ∃ l ∈ N.legs n, x = dbl l) ∨ (∃ e ∈ edges r, x = ketPair up dn e ∨ x = braPair up dn e) := by
    intro x hx
    obtain ⟨c, ks⟩ := r
    rw [ids_node, edges_node]
    simp only [Centre.normBinds, centreOf, rid, kids, List.mem_append] at hx
    rcases hx with hx | hx
    · obtain ⟨l, hl, rfl⟩ := mem_physOf_b51 hx
      exact Or.inl ⟨c, List.mem_cons_self, l, hl, rfl⟩
    · rcases (tree_binds_mem cj N up dn).2 ks c x hx with ⟨n, hn, l, hl, rfl⟩ | hr
      · exact Or.inl ⟨n, List.mem_cons_of_mem _ hn, l, hl, rfl⟩
      · exact Or.inr hr
  have hmain := sumPairs_orient_subset_b51 (R := R) (ddim dim) hTnd hlenW (by
      intro x hx
      rcases hmem x hx with ⟨n, hn, l, hl, rfl⟩ | ⟨e, he, hr⟩
      · left
        refine List.mem_append_left _ (List.mem_map_of_mem ?_)
        refine List.mem_filter.2 ⟨List.mem_flatMap.2 ⟨n, hsubI n hn, hl⟩, ?_⟩
        simp only [decide_eq_true_eq]
        intro hpl
        simp only [Expr.pairLegs, List.mem_append, List.mem_map] at hpl
        have : ∃ p ∈ N.bonds, l = p.1 ∨ l = p.2 := by
          rcases hpl with ⟨p, hp, rfl⟩ | ⟨p, hp, rfl⟩
          · exact ⟨p, hp, Or.inl rfl⟩
          · exact ⟨p, hp, Or.inr rfl⟩
        obtain ⟨p, hp, hlp⟩ := this
        obtain ⟨e, he, hpe⟩ := hbe p hp
        have hne : dbl l ≠ ketPair up dn e := by
          intro e1; simp [dbl, ketPair] at e1
        have := pairLegs_disjoint_b51 hTnd hx (hkids e he) hne
        simp only [dbl, ketPair] at this
        rcases hpe with rfl | rfl <;> rcases hlp with e1 | e1 <;> simp only at e1 <;> subst e1 <;>
          simp at this
      · obtain ⟨_, _, ⟨p, hp, hab, _, _⟩, _, _⟩ := hE e he
        have hW : ∀ q ∈ N.bonds, (DL.ket q.1, DL.ket q.2) ∈ wholeNormBinds N ∧
            (DL.bra q.1, DL.bra q.2) ∈ wholeNormBinds N := by
          intro q hq
          constructor <;> refine List.mem_append_right _ (List.mem_flatMap.2 ⟨q, hq, ?_⟩) <;> simp [dblBond]
        have := hW p hp
        rcases hr with rfl | rfl <;> rcases hab with rfl | rfl <;> simp only [ketPair, braPair, Prod.swap] at this ⊢
        · exact Or.inr this.1
        · exact Or.inl this.1
        · exact Or.inr this.2
        · exact Or.inl this.2) (by
      intro x hx
      rcases hmem x hx with ⟨n, hn, l, hl, rfl⟩ | ⟨e, he, hr⟩
      · rfl
      · obtain ⟨_, _, _, hd, _⟩ := hE e he
        rcases hr with rfl | rfl <;> simpa [ketPair, braPair, ddim] using hd)
  unfold netValue
  rw [← hmain]
  apply sumPairs_congr
  intro τ
  exact Ptn.Ein.prodL_perm ((hperm.flatMap_right (nodeLeaves cj N)).map _)

theorem isoRun_ids_b51 {dim : Nat → Nat} {cj : R → R} {N N' : VNet R} {ops : List Op}
    (hr : IsoRun dim cj N ops N') : N'.ids = N.ids := by
  induction hr with
  | nil N => rfl
  | cons hs _ ih =>
    rw [ih]
    cases hs; rfl

theorem edges_length_b51 (t : RTree) : (edges t).length + 1 = (ids t).length := by
  have h1 := (edges_targets.1 t).length_eq
  rw [ids_eq_rid_cons]
  simp only [List.length_map, List.length_cons] at h1 ⊢
  omega

/-- **After `canonical_form` the norm of the WHOLE network is the norm of the centre tensor alone.**  `t` a
well-formed tree, `c` one of its nodes, `N` a well-formed valued network of exactly the shape of `t`
(`TreeShaped`: the nodes of `t`, one bond per edge) whose bonds have one dimension.  After ANY run `N'` of the
operations of `canonical_form` with the full QR contract per step: `N'` is well-formed, represents the same
tensor, and the doubled network of the whole of `N'` - all its tensors and their conjugated copies, all its
bonds in both copies, all its open legs paired ket-with-bra - has the value of `Σ C · conj C` over the legs of
the centre tensor alone. -/
theorem canonical_form_centre_norm_whole (dim : Nat → Nat) (cj : R → R) (t : RTree) (hwf : t.WF) (c : Nat)
    (hc : c ∈ ids t) {N : VNet R} (h : N.WF) (hts : TreeShaped N t) (hbd : BondDims dim N) :
    ∃ dist : Dist, distanceToNode t c = some dist ∧
      ∀ N', IsoRun dim cj N (canonOps dist (nbrsOf t)) N' →
        N'.WF ∧ (∀ σ, N'.value dim σ = N.value dim σ) ∧
        ∀ σ, netValue (ddim dim) (wholeNormBinds N') (wholeNormLeaves cj N') σ =
          netValue (ddim dim) ((N'.legs c).map dbl) [ketT (N'.tens c), braT cj (N'.tens c)] σ := by
  obtain ⟨dist, r, hd, hr, hrid, hperm, hrun⟩ := canonical_form_centre_norm dim cj t hwf c hc h
    (fun n hn => hts.ids_perm.mem_iff.2 hn) hbd
  refine ⟨dist, hd, ?_⟩
  intro N' hrn
  obtain ⟨hwf', hval, up, dn, hE, _, hnorm⟩ := hrun N' hrn
  refine ⟨hwf', hval, ?_⟩
  intro σ
  have hwr : r.WF := hperm.symm.nodup hwf
  have hids : N'.ids.Perm (ids r) := by
    rw [isoRun_ids_b51 hrn]; exact hts.ids_perm.trans hperm.symm
  have hlen : N'.bonds.length = (edges r).length := by
    rw [isoRun_bonds_length hrn, hts.bonds_len]
    have h1 := edges_length_b51 t
    have h2 := edges_length_b51 r
    have h3 := hperm.length_eq
    omega
  rw [whole_norm_eq_tree (cj := cj) (dim := dim) (up := up) (dn := dn) hwf' r hwr hids hlen hE σ, ← hnorm σ]
  unfold netValue
  apply sumPairs_congr
  intro τ
  exact Ptn.Ein.prodL_perm ((hperm.flatMap_right (nodeLeaves cj N')).map _)

end

end Ptn.C03
