import Ptn.C03.CanonTree
import Ptn.C17.HopFacts
/-! The gauge record of `canonical_form` MEANS canonical form (value level), for every tree and every centre.

* `canonical_form_isometric_tree`: after every run of `canonOps` (distance table and neighbour lists of the
  C17 model) with the full QR contract per step, every node `n ≠ c` is an isometry in index form toward the
  first node on its way to `c` (`run_isometric` + `canon_gauge_tree`).
* `firstHop_child`, `firstHop_reroot`: in the tree re-rooted at `c` (C17 `reroot`) the parent of a node is
  the first hop of its way to `c` in the ORIGINAL tree - the re-rooted tree is the tree the gauge record
  describes.
* `canonical_form_centre_norm`: hence the network after the run is in canonical form around `c`
  (`Ptn.Ein.Kids.Canon` for the doubled re-rooted tree, by `tree_canon`), and its norm network has the value of
  the centre tensor's norm alone (`Ptn.Ein.centre_norm_eq_full_norm_value`). -/
namespace Ptn.C03

open Ptn.Ein Ptn.C17 Ptn.C17.RTree

set_option linter.unusedSectionVars false
set_option linter.unusedVariables false
variable {R : Type} [CommSemiring R]

/-- **Goal 1 on trees.**  For every well-formed tree `t`, every centre `c`, every well-formed valued network:
after ANY run of the operations of `canonical_form` with the full QR contract per step, every node other than
the centre is joined by a bond to the first node on its way to the centre and its tensor is an isometry
(index form) toward that bond; the network stays well-formed, its value is unchanged, bonds keep one
dimension. -/
theorem canonical_form_isometric_tree (dim : Nat → Nat) (cj : R → R) (t : RTree) (hwf : t.WF) (c : Nat)
    (hc : c ∈ ids t) {N : VNet R} (h : N.WF) :
    ∃ dist : Dist, distanceToNode t c = some dist ∧
      ∀ N', IsoRun dim cj N (canonOps dist (nbrsOf t)) N' →
        (∀ n ∈ ids t, n ≠ c → ∃ v, firstHop t n c = some v ∧ IsoAt dim cj N' n v) ∧
        N'.WF ∧ (∀ σ, N'.value dim σ = N.value dim σ) ∧ (BondDims dim N → BondDims dim N') ∧
        N'.ids = N.ids := by
  obtain ⟨dist, hd, _, _, _, hrec, _⟩ := canon_gauge_tree t hwf c hc
  refine ⟨dist, hd, ?_⟩
  intro N' hr
  obtain ⟨h1, h2, h3, h4, h5⟩ := run_isometric dim cj h hr (fun _ => none) (gaugeInv_none dim cj N)
  refine ⟨?_, h2, h3, h4, h5⟩
  intro n hn hnc
  obtain ⟨v, hv, hdir⟩ := hrec n hn hnc
  exact ⟨v, hv, h1 n v hdir⟩

/-! ### the re-rooted tree is the tree of first hops -/

/-- in a rooted tree the first hop from a child toward the root is its parent -/
theorem firstHop_child {r : RTree} (hwf : r.WF) {i k : Nat} (he : (i, k) ∈ edges r) :
    firstHop r k r.rid = some i := by
  obtain ⟨q, h1, h2⟩ := rootPath_edge hwf he
  obtain ⟨q', rfl⟩ := rootPath_head h1
  simp only [rootPath, Option.map_eq_some_iff] at h2
  obtain ⟨P, hP, hrev⟩ := h2
  have hs := pathDown_isSimplePath hwf hP
  have h3 := simple_path_eq_pathFromTo hwf hs
  have h4 := pathFromTo_reverse hwf (rid_mem_ids r) (edge_mem_ids he).2 h3
  rw [hrev] at h4
  exact firstHop_of_path h4

/-- simple paths depend on the node set and the neighbour relation only -/
theorem pathFromTo_transfer {t r : RTree} (hwt : t.WF) (hwr : r.WF) (hperm : (ids r).Perm (ids t))
    (hadj : ∀ a b, Adj r a b ↔ Adj t a b) {a b : Nat} (ha : a ∈ ids r) (hb : b ∈ ids r) :
    pathFromTo t a b = pathFromTo r a b := by
  obtain ⟨p, hp, h1, h2, h3, h4, h5⟩ := pathFromTo_isSimplePath hwr ha hb
  rw [hp]
  apply simple_path_eq_pathFromTo hwt
  exact ⟨h1, h2, fun x hx => hperm.subset (h3 x hx), chain_mono (fun a b hab => (hadj a b).1 hab) h4, h5⟩

/-- **The re-rooted tree is the tree of the gauge record**: `r` the tree `t` re-rooted at `c`; then `r` is
well-formed, has root `c` and the nodes of `t`, and for every edge parent `i` - child `k` of `r` the first hop
of the way from `k` to `c` in `t` is `i`. -/
theorem firstHop_reroot {t r : RTree} (hwf : t.WF) {c : Nat} (hr : reroot c [] t = some r) :
    r.WF ∧ r.rid = c ∧ (ids r).Perm (ids t) ∧
      ∀ i k, (i, k) ∈ edges r → k ∈ ids t ∧ k ≠ c ∧ firstHop t k c = some i := by
  obtain ⟨hrid, hperm, hadj⟩ := (reroot_spec c).1 t [] r hr
  simp only [idsL_nil, List.nil_append, edgesL_nil] at hperm hadj
  have hwr : r.WF := hperm.symm.nodup hwf
  refine ⟨hwr, hrid, hperm, ?_⟩
  intro i k he
  have hk := (edge_mem_ids he).2
  have hkc : k ≠ c := by
    intro e
    have h1 := (edges_mem.1 r i k he).2
    have h2 : (ids r).Nodup := hwr
    rw [ids_eq_rid_cons, List.nodup_cons] at h2
    exact h2.1 (hrid ▸ e ▸ h1)
  refine ⟨hperm.subset hk, hkc, ?_⟩
  have h1 := firstHop_child hwr he
  rw [hrid] at h1
  have h2 := pathFromTo_transfer hwf hwr hperm (fun a b => hadj a b) hk (hrid ▸ rid_mem_ids r)
  simp only [firstHop] at h1 ⊢
  rw [h2]; exact h1

/-! ### canonical form and the norm from the centre tensor alone -/

/-- from "isometry toward the parent" for every child to the bond ends `up`, `dn` and `EdgeOK` -/
theorem edgeOK_of_isoAt (dim : Nat → Nat) (cj : R → R) {N : VNet R} (hbd : BondDims dim N) (r : RTree)
    (hwr : r.WF) (hiso : ∀ i k, (i, k) ∈ edges r → IsoAt dim cj N k i) :
    ∃ up dn : Nat → Nat, ∀ e ∈ edges r, EdgeOK dim cj N up dn e.1 e.2 := by
  have hex : ∀ k, ∃ ab : Nat × Nat, ∀ i, (i, k) ∈ edges r →
      ∃ p, N.Joined k i p ab.1 ab.2 ∧ IsoToward dim cj (N.tens k) (N.legs k) ab.1 := by
    intro k
    by_cases hk : ∃ i, (i, k) ∈ edges r
    · obtain ⟨i, hi⟩ := hk
      obtain ⟨_, _, p, a, b, hj, hI⟩ := hiso i k hi
      refine ⟨(a, b), ?_⟩
      intro i' hi'
      have := parent_unique hwr hi' hi
      subst this
      exact ⟨p, hj, hI⟩
    · exact ⟨(0, 0), fun i hi => absurd ⟨i, hi⟩ hk⟩
  obtain ⟨f, hf⟩ := Classical.axiomOfChoice hex
  refine ⟨fun k => (f k).1, fun k => (f k).2, ?_⟩
  intro e he
  obtain ⟨i, k⟩ := e
  obtain ⟨p, hj, hI⟩ := hf k i he
  obtain ⟨hk, hi, _⟩ := hiso i k he
  refine ⟨hi, hk, ⟨p, hj⟩, ?_, hI⟩
  have hd := hbd p hj.1
  rcases hj.2.1 with e | e <;> rw [e] at hd
  · exact hd.symm
  · exact hd

/-- **After `canonical_form` at any centre of any tree the norm network equals the centre-only network.**
`t` a well-formed tree, `c` one of its nodes, `N` a well-formed valued network containing the nodes of `t`
whose bonds have one dimension; `dist` the library's distance table, `r` the tree re-rooted at `c`.  After ANY
run `N'` of the operations of `canonical_form` with the full QR contract per step (factorisation, isometry of
`Q`, one dimension for the fresh bond - hypotheses per call, nothing global): the network is well-formed,
represents the same tensor, and there are bond ends `up`, `dn` - for every edge parent `i` - child `k` of `r` a
bond of `N'` joining the leg `up k` of `k` with the leg `dn k` of `i`, of one dimension, the tensor of `k` an
isometry toward it (`EdgeOK`) - such that the norm network along `r` (leaves: the tensors and conjugated
tensors of ALL nodes of `t`; binding record `(centreOf … r).normBinds`: per node its legs that are no bond ends,
ket copy with bra copy, and both copies of the bond of every edge) has the value of `Σ C · conj C` over the
legs of the centre tensor alone. -/
theorem canonical_form_centre_norm (dim : Nat → Nat) (cj : R → R) (t : RTree) (hwf : t.WF) (c : Nat)
    (hc : c ∈ ids t) {N : VNet R} (h : N.WF) (hids : ∀ n ∈ ids t, n ∈ N.ids) (hbd : BondDims dim N) :
    ∃ (dist : Dist) (r : RTree), distanceToNode t c = some dist ∧ reroot c [] t = some r ∧ r.rid = c ∧
      (ids r).Perm (ids t) ∧
      ∀ N', IsoRun dim cj N (canonOps dist (nbrsOf t)) N' →
        N'.WF ∧ (∀ σ, N'.value dim σ = N.value dim σ) ∧
        ∃ up dn : Nat → Nat, (∀ e ∈ edges r, EdgeOK dim cj N' up dn e.1 e.2) ∧
          (centreOf cj N' up dn r).Canon (ddim dim) ∧
          ∀ σ, netValue (ddim dim) (centreOf cj N' up dn r).normBinds ((ids t).flatMap (nodeLeaves cj N')) σ =
            netValue (ddim dim) ((N'.legs c).map dbl) [ketT (N'.tens c), braT cj (N'.tens c)] σ := by
  obtain ⟨dist, hd, hrun⟩ := canonical_form_isometric_tree dim cj t hwf c hc h
  obtain ⟨r, hr⟩ := (reroot_isSome c).1 t [] hc
  obtain ⟨hwr, hrid, hperm, hhop⟩ := firstHop_reroot hwf hr
  refine ⟨dist, r, hd, hr, hrid, hperm, ?_⟩
  intro N' hrn
  obtain ⟨hiso, hwf', hval, hbd', hids'⟩ := hrun N' hrn
  refine ⟨hwf', hval, ?_⟩
  have hI : ∀ i k, (i, k) ∈ edges r → IsoAt dim cj N' k i := by
    intro i k he
    obtain ⟨hk, hkc, hfh⟩ := hhop i k he
    obtain ⟨v, hv, hI⟩ := hiso k hk hkc
    rw [hfh] at hv
    cases hv
    exact hI
  obtain ⟨up, dn, hE⟩ := edgeOK_of_isoAt dim cj (hbd' hbd) r hwr hI
  have hsub : ∀ n ∈ ids r, n ∈ N'.ids := fun n hn => hids' ▸ hids n (hperm.subset hn)
  refine ⟨up, dn, hE, (centre_canon_of_tree hwf' r hwr hsub hE).1, ?_⟩
  intro σ
  have := centre_norm_of_tree (cj := cj) (dim := dim) (up := up) (dn := dn) hwf' r hwr hsub hE σ
  rw [hrid, centreOf_normLeaves] at this
  rw [← this]
  unfold netValue
  apply sumPairs_congr
  intro τ
  exact Ptn.Ein.prodL_perm (((hperm.symm.flatMap_right (nodeLeaves cj N')).map _))

end Ptn.C03
