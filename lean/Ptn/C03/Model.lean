/-! Model for property C03: the order of QR operations of `canonical_form` and of centre moves
(`pytreenet/core/canonical_form.py`, `ttn.move_orthogonalization_center`).  Core Lean only.

`dist` is the distance dictionary returned by `distance_to_node(centre)` as an association list in
dict (insertion) order; `nbrs n` the neighbour list of node `n` (parent first, then children).

* `closest`     ↔ `_find_smallest_distance_neighbour` (Python `min(dict, key=…)`: first minimum)
* `canonOps`    ↔ the double loop of `canonical_form`: for distance = max … 1, for every node with
                  that distance in dict order: QR toward `closest`, R absorbed there
* `moveOps`     ↔ `move_orthogonalization_center` along a path: one QR per hop -/
namespace Ptn.C03

abbrev Dist := List (Nat × Nat)          -- (node, distance)

def lookup (dist : Dist) (n : Nat) : Option Nat := (dist.find? (·.1 == n)).map (·.2)

def maxDist (dist : Dist) : Nat := dist.foldl (fun m p => max m p.2) 0

/-- First neighbour with the smallest distance (`none` if a neighbour has no entry: KeyError). -/
def closest (dist : Dist) (nb : List Nat) : Option Nat :=
  match nb with
  | [] => none
  | n :: rest =>
    match lookup dist n with
    | none => none
    | some dn =>
      match rest with
      | [] => some n
      | _ =>
        match closest dist rest with
        | none => none
        | some m =>
          match lookup dist m with
          | none => none
          | some dm => if dm < dn then some m else some n

/-- One QR operation: split `node`, absorb R into `target`. -/
structure Op where
  node : Nat
  target : Nat
deriving Repr, DecidableEq

def opsAt (dist : Dist) (nbrs : Nat → List Nat) (d : Nat) : List Op :=
  (dist.filter (·.2 == d)).filterMap fun p => (closest dist (nbrs p.1)).map fun t => ⟨p.1, t⟩

def canonOps (dist : Dist) (nbrs : Nat → List Nat) : List Op :=
  (List.range (maxDist dist)).reverse.flatMap fun k => opsAt dist nbrs (k + 1)

/-- No `KeyError`: every node at distance ≥ 1 finds a closest neighbour. -/
def canonComplete (dist : Dist) (nbrs : Nat → List Nat) : Bool :=
  dist.all fun p => p.2 == 0 || (closest dist (nbrs p.1)).isSome

/-- Moving the centre along `path = [c, x₁, …, x_k]`. -/
def moveOps : List Nat → List Op
  | a :: b :: rest => ⟨a, b⟩ :: moveOps (b :: rest)
  | _ => []

def finalCentre (c : Nat) (path : List Nat) : Nat := path.getLast?.getD c

/-- The gauge machine: which neighbour every tensor is an isometry toward (`none`: unknown /
    centre).  A QR at `node` toward `target` makes `node` an isometry toward `target` and destroys
    the isometry property of `target`. -/
def applyOp (dir : Nat → Option Nat) (o : Op) : Nat → Option Nat :=
  fun n => if n = o.node then some o.target else if n = o.target then none else dir n

def applyOps (dir : Nat → Option Nat) (ops : List Op) : Nat → Option Nat :=
  ops.foldl applyOp dir

end Ptn.C03
