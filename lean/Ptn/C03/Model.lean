/-! Model for property C03 (core Lean only; no Mathlib). -/
namespace Ptn.C03
end Ptn.C03
