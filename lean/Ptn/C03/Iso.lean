import Ptn.C03.Gauge
import Ptn.C03.Lemmas
/-! The SECOND half of the QR contract at value level: `Q` is an isometry toward the absorbing neighbour.

The norm network `⟨ψ|ψ⟩` lives on the doubled label space `DL`: `DL.ket l` is the leg `l` of the
ket copy, `DL.bra l` the leg `l` of the bra copy.  `ketT T` reads the ket labels, `braT cj T` is the
conjugated copy (`cj : R → R` ANY function - `star` over the complex numbers, the identity over the
integers) reading the bra labels.

`IsoToward dim cj T legs u` - **the index-form isometry of a tensor toward its leg `u`**: summing
`T · cj T'` over a common index for every leg other than `u` gives `δ(u, u')`, for indices below the
dimension of `u` (what `numpy.linalg.qr` guarantees for `Q` with `u` the new bond).

`IsoStep` / `IsoRun`: the gauge moves of `Gauge.lean` whose factorisation in addition satisfies this
condition for `Q` toward the fresh bond, and whose fresh bond has one dimension on both ends (a hypothesis
per step, like `QRFact`).

`isoStep_inv`, `run_isometric`: the gauge RECORD of the model (`applyOps`: toward which neighbour a node is
recorded as an isometry) MEANS the value-level condition: after every run, whenever the record of `n` names
`m`, the nodes `n` and `m` are joined by a bond whose end `a` at `n` satisfies `IsoToward … (legs n) a`.
(A later operation touches an already split node only by absorbing into it - and `applyOp` erases exactly
that node's record.) -/
namespace Ptn.C03

open Ptn.Ein

set_option linter.unusedSectionVars false
variable {R : Type} [CommSemiring R]

/-- labels of the doubled network: `ket l` the leg `l` of the ket copy, `bra l` of the bra copy -/
inductive DL where
  | ket (l : Nat)
  | bra (l : Nat)
deriving DecidableEq

/-- both copies of a leg have its dimension -/
def ddim (dim : Nat → Nat) : DL → Nat
  | .ket l => dim l
  | .bra l => dim l

/-- the ket copy of a tensor -/
def ketT (T : Asg Nat → R) : Asg DL → R := fun ρ => T (fun l => ρ (DL.ket l))

/-- the conjugated (bra) copy of a tensor -/
def braT (cj : R → R) (T : Asg Nat → R) : Asg DL → R := fun ρ => cj (T (fun l => ρ (DL.bra l)))

/-- the pair joining the ket copy of a leg with its bra copy -/
def dbl (l : Nat) : DL × DL := (DL.ket l, DL.bra l)

/-- **index-form isometry toward the leg `u`**: `Σ_{legs ≠ u} T · conj T = δ(u, u')` -/
def IsoToward (dim : Nat → Nat) (cj : R → R) (T : Asg Nat → R) (legs : List Nat) (u : Nat) : Prop :=
  ∀ τ : Asg DL, τ (DL.ket u) < dim u → τ (DL.bra u) < dim u →
    sumPairs (ddim dim) ((legs.erase u).map dbl) (fun ρ => ketT T ρ * braT cj T ρ) τ =
      if τ (DL.ket u) = τ (DL.bra u) then 1 else 0

/-- a gauge move whose `Q` is an isometry toward the fresh bond (second half of the QR contract) and whose
fresh bond has the same dimension on both ends -/
inductive IsoStep (dim : Nat → Nat) (cj : R → R) : VNet R → Op → VNet R → Prop
  | mk (N : VNet R) (n m : Nat) (p : Nat × Nat) (a b : Nat) (hn : n ∈ N.ids) (hm : m ∈ N.ids) (hnm : n ≠ m)
      (hj : N.Joined n m p a b) (F : QRFact dim (N.tens n) (N.legs n) a N.next (N.next + 1))
      (hiso : IsoToward dim cj F.Q (N.next :: (N.legs n).erase a) N.next)
      (hdim : dim (N.next + 1) = dim N.next) :
      IsoStep dim cj N ⟨n, m⟩ (gaugeStep dim N n m p a b F)

inductive IsoRun (dim : Nat → Nat) (cj : R → R) : VNet R → List Op → VNet R → Prop
  | nil (N : VNet R) : IsoRun dim cj N [] N
  | cons {N N₁ N₂ : VNet R} {o : Op} {ops : List Op} :
      IsoStep dim cj N o N₁ → IsoRun dim cj N₁ ops N₂ → IsoRun dim cj N (o :: ops) N₂

theorem IsoStep.step {dim : Nat → Nat} {cj : R → R} {N N' : VNet R} {o : Op} (h : IsoStep dim cj N o N') :
    Step dim N o N' := by
  cases h with
  | mk n m p a b hn hm hnm hj F _ _ => exact Step.mk N n m p a b hn hm hnm hj F

theorem IsoRun.run {dim : Nat → Nat} {cj : R → R} {N N' : VNet R} {ops : List Op}
    (h : IsoRun dim cj N ops N') : Run dim N ops N' := by
  induction h with
  | nil N => exact Run.nil N
  | cons hs _ ih => exact Run.cons hs.step ih

/-- `n` and `m` are joined by a bond, and the tensor of `n` is an isometry toward its end of that bond -/
def IsoAt (dim : Nat → Nat) (cj : R → R) (N : VNet R) (n m : Nat) : Prop :=
  n ∈ N.ids ∧ m ∈ N.ids ∧ ∃ p a b, N.Joined n m p a b ∧ IsoToward dim cj (N.tens n) (N.legs n) a

/-- the gauge record is TRUE of the network: whenever `dir n = some m`, `n` is an isometry toward `m` -/
def GaugeInv (dim : Nat → Nat) (cj : R → R) (N : VNet R) (dir : Nat → Option Nat) : Prop :=
  ∀ n m, dir n = some m → IsoAt dim cj N n m

/-- every bond has the same dimension on both ends -/
def BondDims (dim : Nat → Nat) (N : VNet R) : Prop := ∀ p ∈ N.bonds, dim p.1 = dim p.2

/-- **One move keeps the gauge record true.**  The split node becomes an isometry toward the absorbing
neighbour (the step's contract); the absorbing node loses its record (`applyOp`); every other node keeps its
tensor, its legs and its bond. -/
theorem isoStep_inv (dim : Nat → Nat) (cj : R → R) {N N' : VNet R} {o : Op} (h : N.WF)
    (hs : IsoStep dim cj N o N') {dir : Nat → Option Nat} (hinv : GaugeInv dim cj N dir) :
    GaugeInv dim cj N' (applyOp dir o) := by
  cases hs with
  | mk n m p a b hn hm hnm hj F hiso hdim =>
  obtain ⟨hp, hab, ha, hb⟩ := hj
  intro k j hk
  simp only [applyOp] at hk
  by_cases h1 : k = n
  · -- the split node
    subst h1
    simp only [if_true, Option.some.injEq] at hk
    subst hk
    refine ⟨hn, hm, (N.next, N.next + 1), N.next, N.next + 1, ⟨?_, Or.inl rfl, ?_, ?_⟩, ?_⟩
    · show _ ∈ N.bonds.erase p ++ [(N.next, N.next + 1)]; simp
    · rw [gaugeStep_legs_n]; exact List.mem_cons_self
    · rw [gaugeStep_legs_m hnm]; exact List.mem_cons_self
    · have e1 : (gaugeStep dim N k m p a b F).tens k = F.Q := by simp [gaugeStep]
      rw [e1, gaugeStep_legs_n]
      exact hiso
  · by_cases h2 : k = m
    · subst h2
      simp [h1] at hk
    · simp only [h1, h2, if_false] at hk
      obtain ⟨hk1, hj1, p', a', b', ⟨hp', hab', ha', hb'⟩, hiso'⟩ := hinv k j hk
      -- the bond of `k` is not the bond of the move
      have hpp : p' ≠ p := by
        intro e
        subst e
        have : a' = a ∨ a' = b := by
          rcases hab with e | e <;> rcases hab' with e' | e' <;> rw [e] at e' <;> simp at e' <;> omega
        rcases this with e | e
        · exact h1 (h.owner k hk1 n hn _ ha' (e ▸ ha))
        · exact h2 (h.owner k hk1 m hm _ ha' (e ▸ hb))
      have hpe : p' ∈ N.bonds.erase p := (List.mem_erase_of_ne hpp).2 hp'
      have hne := h.erase_ne hp
      have hm2 := mem_pairLegs_of_mem hpe
      have hpl : (p.1 = a ∧ p.2 = b) ∨ (p.1 = b ∧ p.2 = a) := by
        rcases hab with rfl | rfl <;> simp
      have hpl' : (p'.1 = a' ∧ p'.2 = b') ∨ (p'.1 = b' ∧ p'.2 = a') := by
        rcases hab' with rfl | rfl <;> simp
      have f : (a' ≠ a ∧ a' ≠ b) ∧ (b' ≠ a ∧ b' ≠ b) := by
        have e1 := hne _ hm2.1
        have e2 := hne _ hm2.2
        rcases hpl with ⟨x1, x2⟩ | ⟨x1, x2⟩ <;> rcases hpl' with ⟨y1, y2⟩ | ⟨y1, y2⟩ <;>
          rw [x1, x2] at e1 e2 <;> rw [y1] at e1 <;> rw [y2] at e2 <;> tauto
      refine ⟨hk1, hj1, p', a', b', ⟨?_, hab', gaugeStep_keep h hn hm hnm ha' f.1.1 f.1.2,
        gaugeStep_keep h hn hm hnm hb' f.2.1 f.2.2⟩, ?_⟩
      · show p' ∈ N.bonds.erase p ++ [(N.next, N.next + 1)]
        exact List.mem_append_left _ hpe
      · have e1 : (gaugeStep dim N n m p a b F).tens k = N.tens k := by simp [gaugeStep, h1, h2]
        rw [e1, gaugeStep_legs_other h1 h2]
        exact hiso'

/-- one move keeps "every bond has one dimension" -/
theorem isoStep_bondDims (dim : Nat → Nat) (cj : R → R) {N N' : VNet R} {o : Op}
    (hs : IsoStep dim cj N o N') (hd : BondDims dim N) : BondDims dim N' := by
  cases hs with
  | mk n m p a b hn hm hnm hj F hiso hdim =>
  intro p' hp'
  have hp'' : p' ∈ N.bonds.erase p ++ [(N.next, N.next + 1)] := hp'
  rcases List.mem_append.1 hp'' with h1 | h1
  · exact hd p' (List.mem_of_mem_erase h1)
  · simp only [List.mem_cons, List.not_mem_nil, or_false] at h1
    subst h1
    exact hdim.symm

/-- **The gauge record of a run is true of the resulting network.**  For every run of gauge moves with the
full QR contract (factorisation AND isometry of `Q`), starting from a well-formed network of which the record
`dir` is true: afterwards the record `applyOps dir ops` is true - every node it names is an isometry (index
form) toward the neighbour it names -, the network is well-formed, its value unchanged, bonds keep one
dimension. -/
theorem run_isometric (dim : Nat → Nat) (cj : R → R) {N N' : VNet R} {ops : List Op} (h : N.WF)
    (hr : IsoRun dim cj N ops N') (dir : Nat → Option Nat) (hinv : GaugeInv dim cj N dir) :
    GaugeInv dim cj N' (applyOps dir ops) ∧ N'.WF ∧ (∀ σ, N'.value dim σ = N.value dim σ) ∧
      (BondDims dim N → BondDims dim N') ∧ N'.ids = N.ids := by
  induction hr generalizing dir with
  | nil N => exact ⟨hinv, h, fun _ => rfl, id, rfl⟩
  | cons hs _ ih =>
    have hids : ∀ {A B : VNet R} {o : Op}, IsoStep dim cj A o B → B.ids = A.ids := by
      intro A B o hs; cases hs; rfl
    obtain ⟨h1, h2, h3, h4, h5⟩ := ih (step_wf dim h hs.step) _ (isoStep_inv dim cj h hs hinv)
    exact ⟨by rw [applyOps_cons]; exact h1, h2, fun σ => (h3 σ).trans (step_value dim h hs.step σ),
      fun hd => h4 (isoStep_bondDims dim cj hs hd), h5.trans (hids hs)⟩

/-- the empty record is true of every network -/
theorem gaugeInv_none (dim : Nat → Nat) (cj : R → R) (N : VNet R) : GaugeInv dim cj N (fun _ => none) := by
  intro n m h; simp at h

end Ptn.C03
