import Ptn.C07.Model
import Ptn.C05.Core
import Ptn.C06.Core
/-! Property theorems for C07 (two-site TDVP). -/
namespace Ptn.C07
open Ptn.C05 Ptn.C06

/-- The two-site schedule is defined exactly for sweeps over at least two nodes. -/
theorem twoSite_defined_iff (segs : List Seg) (last : Nat) :
    (twoSite segs last).isSome ↔ segs ≠ [] := by
  unfold twoSite
  cases h : segs.reverse with
  | nil => simp [List.reverse_eq_nil_iff.mp h]
  | cons s rest =>
    have : segs ≠ [] := by
      intro hs; simp [hs] at h
    simp [this]

private theorem centre_flat_two_bwd (c : Nat) (l : List Seg) (d1 d2 : Int) :
    centreAfter c (l.flatMap (fun t => [Ev.site t.2 d1, Ev.two t.2 t.1 d2])) =
      match l.getLast? with | some s => s.1 | none => c := by
  induction l generalizing c with
  | nil => simp [centreAfter]
  | cons s rest ih =>
    simp only [List.flatMap_cons, List.cons_append, List.nil_append, centreAfter]
    rw [ih]
    cases rest with
    | nil => simp
    | cons t r =>
      have hl := List.getLast?_eq_some_getLast (l := t :: r) (by simp)
      simp [List.getLast?_cons_cons, hl]

private theorem centre_append (c : Nat) (a b : List Ev) :
    centreAfter c (a ++ b) = centreAfter (centreAfter c a) b := by
  induction a generalizing c with
  | nil => rfl
  | cons e rest ih => cases e <;> simp [centreAfter, ih]

/-- After forward and backward sweep the centre sits on the first node of the update path. -/
theorem twoSite_final_centre (init : List Seg) (s : Seg) (last c : Nat) :
    ∃ tr, twoSite (init ++ [s]) last = some tr ∧
      centreAfter c tr = (match (init ++ [s]).head? with | some t => t.1 | none => c) := by
  refine ⟨_, twoSite_defined init s last, ?_⟩
  rw [centre_append, centre_flat_two_bwd]
  cases init with
  | nil => simp [centreAfter]
  | cons t r =>
    simp only [List.reverse_cons, List.cons_append, List.head?_cons]
    rw [List.getLast?_append]
    simp

/-- On a two-node tree a step consists of exactly two two-site half steps on the single bond and
    no single-site update. -/
theorem two_node_trace (a b : Nat) :
    twoSite [(a, b)] b = some [Ev.two a b 1, Ev.two b a 1] := by
  simp [twoSite]

/-- Hence, if the two-site flow on that bond is a one-parameter group (exact local exponentials:
    `exp(-iH dt/2) exp(-iH dt/2) = exp(-iH dt)`, and on two nodes the environment is trivial so the
    effective Hamiltonian *is* `H`), a step equals the flow for the full `dt`. -/
theorem two_node_exact {α : Type} (φ : Pos → Int → α → α)
    (hadd : ∀ p s t x, φ p t (φ p s x) = φ p (s + t) x) (a b : Nat) (x : α) :
    runFlow φ (schedOf [Ev.two a b 1, Ev.two b a 1]) x =
      φ (if a ≤ b then .bond a b else .bond b a) 2 x := by
  simp only [runFlow, schedOf, List.map_cons, List.map_nil, List.foldl_cons, List.foldl_nil,
    Ev.pos, Ev.dur]
  by_cases h : a ≤ b <;> by_cases h' : b ≤ a
  · have : a = b := by omega
    subst this; simp [hadd]
  · simp [h, h', hadd]
  · simp [h, h', hadd]
  · omega

/-- Every truncated split keeps at least one and at most `D` singular values. -/
theorem kept_bounded (k d : Nat) (hd : 1 ≤ d) :
    1 ≤ keptCount k (some d) ∧ keptCount k (some d) ≤ d := by
  simp only [keptCount]; omega

theorem kept_unbounded (k : Nat) : 1 ≤ keptCount k none ∧ k ≤ keptCount k none := by
  simp only [keptCount]; omega

example : centreAfter 1 ((twoSite [(1, 0), (2, 0), (0, 3)] 3).getD []) = 1 := by decide
example : keptCount 0 (some 4) = 1 ∧ keptCount 9 (some 4) = 4 := by decide

end Ptn.C07
