import Ptn.C06.Gauge
/-! Two-site TDVP on the gauge machine of `Ptn.C06.Gauge`: what the SVD split of a two-site update leaves behind. -/
namespace Ptn.C07
open Ptn.C17 Ptn.C17.RTree Ptn.C05.Disc Ptn.C06.Gauge Ptn.C03

/-- after the two-site update `two a b` (merged tensor evolved, `split_node_svd` with U at `a`, S V at `b`): `a` points
    to `b`, `b` carries no record, every other record is kept, and the record is canonical at `b` -/
theorem after_two_split {t : RTree} (hwf : t.WF) {st : GSt} {a b : Nat}
    (hab : Adj t a b) (h : CanonAt t st.dir a) :
    (gstep st (.two a b)).centre = b ∧ (gstep st (.two a b)).dir a = some b ∧
      (gstep st (.two a b)).dir b = none ∧
      (∀ x, x ≠ a → x ≠ b → (gstep st (.two a b)).dir x = st.dir x) ∧
      CanonAt t (gstep st (.two a b)).dir b := by
  have hne := adj_ne hwf hab
  refine ⟨rfl, by simp [gstep, applyOp], by simp [gstep, applyOp, Ne.symm hne], ?_, canon_split hwf hab h⟩
  intro x hxa hxb
  simp [gstep, applyOp, hxa, hxb]

end Ptn.C07
