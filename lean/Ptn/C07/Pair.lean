import Ptn.C03.CanonTree
import Ptn.Common.EinsumIsoPair
/-! Helper lemmas for the merged pair of a two-site update: the doubled tree of a child list that contains the
node `b` is `Ptn.Ein.pair_around` of the doubled trees of the parts. -/
namespace Ptn.C07
open Ptn.Ein Ptn.C17 Ptn.C17.RTree Ptn.C03

variable {R : Type} [CommSemiring R]

theorem kidsOf_append (cj : R → R) (N : VNet R) (up dn : Nat → Nat) : ∀ k1 k2 : List RTree,
    kidsOf cj N up dn (k1 ++ k2) = pair_kidsAppend (kidsOf cj N up dn k1) (kidsOf cj N up dn k2)
  | [], k2 => by simp [kidsOf, pair_kidsAppend]
  | t :: ts, k2 => by simp [kidsOf, pair_kidsAppend, kidsOf_append cj N up dn ts k2]

/-- the doubled tree around `a` when `b` sits between the children `k1` and `k2` -/
theorem kidsOf_split (cj : R → R) (N : VNet R) (up dn : Nat → Nat) (k1 k2 kb : List RTree) (b : Nat) :
    kidsOf cj N up dn (k1 ++ RTree.node b kb :: k2) =
      pair_around (kidsOf cj N up dn k1) (kidsOf cj N up dn k2) (DL.ket (dn b)) (DL.bra (dn b))
        (ketT (N.tens b)) (braT cj (N.tens b)) (DL.ket (up b)) (DL.bra (up b))
        (physOf N b (up b :: dnLegs dn kb)) (kidsOf cj N up dn kb) := by
  rw [kidsOf_append, pair_around, kidsOf, subOf]
  rfl

end Ptn.C07
