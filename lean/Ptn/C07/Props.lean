import Ptn.C07.Core
import Ptn.C06.Props
import Ptn.C07.Gauge
import Ptn.C07.Pair
import Ptn.C07.RootEdge
import Ptn.C07.PairConj
import Ptn.Common.AnalysisExp
/-! Property theorems for C07, part 2 (Mathlib); the combinatorial theorems are in `Core.lean`. -/
namespace Ptn.C07

open Matrix NormedSpace in
/-- Two-node tree: the step consists of two half two-site updates of the whole state with the full
    Hamiltonian (`two_node_trace`); exact local exponentials compose to the full propagator:
    `exp(-i (dt/2) H) exp(-i (dt/2) H) = exp(-i dt H)`. -/
theorem two_half_steps_are_full_step {n : Type} [Fintype n] [DecidableEq n] (H : Matrix n n ℂ)
    (s : ℂ) : exp (s • H) * exp (s • H) = exp ((s + s) • H) :=
  Ptn.Analysis.exp_add_same H s s

open Matrix NormedSpace in
/-- With truncation disabled every two-site / backward single-site update is an isometric local
    flow and conserves the norm (and the energy, `Ptn.C06.local_update_conserves_energy`). -/
theorem two_site_update_conserves_norm {N d : Type} [Fintype N] [Fintype d] [DecidableEq N]
    [DecidableEq d] (E : Matrix N d ℂ) (H : Matrix N N ℂ) (hE : Eᴴ * E = 1) (hH : Hᴴ = H)
    (t : ℝ) (φ : d → ℂ) :
    star (E *ᵥ (exp ((-Complex.I * (t : ℂ)) • (Eᴴ * H * E)) *ᵥ φ)) ⬝ᵥ
        (E *ᵥ (exp ((-Complex.I * (t : ℂ)) • (Eᴴ * H * E)) *ᵥ φ))
      = star (E *ᵥ φ) ⬝ᵥ (E *ᵥ φ) :=
  Ptn.C06.local_update_conserves_norm E H hE hH t φ

/-! ### Value level: two-site update of a state canonical at the updated pair -/

open Ptn.Ein in
/-- **Two-site update (truncation disabled), state canonical at one node of the updated pair: the norm is
conserved.**  The local tensor is the contraction of the two neighbouring nodes; `k`: the sub-trees around
BOTH nodes (everything except the pair), every node canonical toward the pair — which is what canonical form
at either node of the pair gives, the other node of the pair being absorbed into the local tensor; `P`: the
open legs of both nodes.  The embedding `E = envMatrix ⊗ 1_P` is built from the network; its isometry is
`Ptn.Ein.embedding_isometry_of_canonical`, not a hypothesis. -/
theorem two_site_update_conserves_norm_of_canonical {L : Type} [DecidableEq L] (dim : L → Nat) (pr : L → L)
    (hinj : Function.Injective pr) (hdim : ∀ l, dim (pr l) = dim l) (k : Kids L ℂ)
    (hc : k.Canon dim) (hnd : k.labels.Nodup) (hk : k.IsConj pr)
    (P : Type) [Fintype P] [DecidableEq P]
    (H : Matrix (Idx dim k.physAll × P) (Idx dim k.physAll × P) ℂ) (hH : H.conjTranspose = H)
    (t : ℝ) (φ : Idx dim k.ups × P → ℂ) :
    let E := Ptn.C06.siteEmbedding dim k P
    star (E.mulVec ((NormedSpace.exp ((-Complex.I * (t : ℂ)) • (E.conjTranspose * H * E))).mulVec φ)) ⬝ᵥ
        (E.mulVec ((NormedSpace.exp ((-Complex.I * (t : ℂ)) • (E.conjTranspose * H * E))).mulVec φ))
      = star (E.mulVec φ) ⬝ᵥ (E.mulVec φ) :=
  Ptn.C06.one_site_update_conserves_norm_of_canonical dim pr hinj hdim k hc hnd hk P H hH t φ

open Ptn.Ein in
/-- the premises are satisfiable: the demo tree of `Ptn.C06.Demo` read as the surroundings of a pair whose
two nodes carry the bonds `(5, 15)` and `(7, 17)`; the open legs of the pair: dimensions 2 and 3 -/
example : Ptn.C06.Demo.kids.Canon Ptn.C06.Demo.dim ∧ Ptn.C06.Demo.kids.labels.Nodup ∧
    Ptn.C06.Demo.kids.IsConj Ptn.C06.Demo.pr ∧ Function.Injective Ptn.C06.Demo.pr ∧
    (∀ l, Ptn.C06.Demo.dim (Ptn.C06.Demo.pr l) = Ptn.C06.Demo.dim l) ∧
    ((1 : Matrix (Idx Ptn.C06.Demo.dim Ptn.C06.Demo.kids.physAll × (Fin 2 × Fin 3))
      (Idx Ptn.C06.Demo.dim Ptn.C06.Demo.kids.physAll × (Fin 2 × Fin 3)) ℂ)).conjTranspose = 1 :=
  ⟨Ptn.C06.Demo.kids_canon, Ptn.C06.Demo.kids_nodup, Ptn.C06.Demo.kids_isConj, Ptn.C06.Demo.pr_inj,
    Ptn.C06.Demo.dim_pr, Matrix.conjTranspose_one⟩

/-! ### The state two-site TDVP holds at every local update is canonical at the updated pair (builder B32) -/

section gauge
open Ptn.C17 Ptn.C17.RTree Ptn.C05.Disc Ptn.C06.Gauge

/-- **Two-site TDVP: at every two-site update the record is canonical at the updated pair, the SVD split leaves the
first node pointing to the second, and the backward single-site update happens at the centre.**  Every well-formed
tree with at least two nodes, the events of a whole time step (`eventsTwoSite`: forward sweep, backward sweep),
started canonical at the first node `s` of the sweep:
* before `two a b` the machine's centre is `a`, `a` and `b` are neighbours, the record is canonical at `a`; while the
  merged tensor is evolved it is canonical at the pair (no record at `a`, `b`; every other node points to its first
  hop toward `a`, which is its first hop toward `b`); after the split `a` points to `b`, `b` has no record, all other
  records are kept and the record is canonical at `b`;
* before the backward update `site v` the centre is `v` and the record is canonical at `v`;
* every QR of a centre move splits the current centre toward a neighbour;
* after the step the record is canonical at `s` again. -/
theorem two_site_update_canonical (t : RTree) (hwf : t.WF) (hk : t.kids ≠ []) :
    ∃ u s evs, updatePath t = some u ∧ u.head? = some s ∧ eventsTwoSite t = some evs ∧
      ∀ dir : Rec, CanonAt t dir s →
        (∀ p a b q, evs = p ++ .two a b :: q →
          (grun ⟨s, dir⟩ p).centre = a ∧ Adj t a b ∧ CanonAt t (grun ⟨s, dir⟩ p).dir a ∧
          CanonPair t (during (grun ⟨s, dir⟩ p).dir (.two a b)) a b ∧
          (grun ⟨s, dir⟩ (p ++ [.two a b])).dir a = some b ∧
          (grun ⟨s, dir⟩ (p ++ [.two a b])).dir b = none ∧
          (∀ x, x ≠ a → x ≠ b → (grun ⟨s, dir⟩ (p ++ [.two a b])).dir x = (grun ⟨s, dir⟩ p).dir x) ∧
          CanonAt t (grun ⟨s, dir⟩ (p ++ [.two a b])).dir b) ∧
        (∀ p v q, evs = p ++ .site v :: q →
          (grun ⟨s, dir⟩ p).centre = v ∧ CanonAt t (grun ⟨s, dir⟩ p).dir v) ∧
        (∀ p a b q, evs = p ++ .move a b :: q →
          (grun ⟨s, dir⟩ p).centre = a ∧ Adj t a b ∧ CanonAt t (grun ⟨s, dir⟩ p).dir a) ∧
        CanonAt t (grun ⟨s, dir⟩ evs).dir s ∧ (grun ⟨s, dir⟩ evs).centre = s := by
  obtain ⟨u, s, evs, hu, hs, hev, h⟩ := Ptn.C06.tdvp_site_update_canonical t hwf .twoSite hk
  refine ⟨u, s, evs, hu, hs, hev, ?_⟩
  intro dir hc
  obtain ⟨hsite, _, htwo, hmove, hfin, hcen⟩ := h dir hc
  refine ⟨?_, hsite, fun p a b q e => hmove p a b q (Or.inl e), hfin, hcen⟩
  intro p a b q e
  obtain ⟨h1, h2, h3, h4⟩ := htwo p a b q e
  obtain ⟨_, a1, a2, a3, a4⟩ := after_two_split hwf h2 h3
  have hg : grun ⟨s, dir⟩ (p ++ [.two a b]) = gstep (grun ⟨s, dir⟩ p) (.two a b) := by
    rw [grun_append]; rfl
  rw [hg]
  exact ⟨h1, h2, h3, h4, a1, a2, a3, a4⟩

/-- **The STATE is canonical at the pair at every two-site update**, with the SVD contract as an explicit
hypothesis: instance of `Ptn.C06.tdvp_site_update_isometric` (tensors `α`, `iso A m` = "`A` is an isometry toward
`m`", `TRun`: every event may replace the tensors it writes subject only to "the factor left at `a` is an isometry
toward `b`") for the two-site scheme, over any number `k` of steps: before `two a b` every tensor other than those
of `a` and `b` is an isometry toward the first node on its way to `a`, which is the first node on its way to `b`. -/
theorem two_site_update_isometric {α : Type} (iso : α → Nat → Prop) (t : RTree) (hwf : t.WF)
    (hk : t.kids ≠ []) :
    ∃ u s evs, updatePath t = some u ∧ u.head? = some s ∧ eventsTwoSite t = some evs ∧
      ∀ (dir : Rec) (T0 : Nat → α), CanonAt t dir s → Sound iso dir T0 →
      ∀ (k : Nat) (p q : List DEv) (a b : Nat) (T : Nat → α),
        (List.replicate k evs).flatten = p ++ .two a b :: q → TRun iso T0 p T →
        (grun ⟨s, dir⟩ p).centre = a ∧ Adj t a b ∧ IsoCanonPair iso t T a b := by
  obtain ⟨u, s, evs, hu, hs, hev, h⟩ := Ptn.C06.tdvp_site_update_isometric iso t hwf .twoSite hk
  refine ⟨u, s, evs, hu, hs, hev, ?_⟩
  intro dir T0 hc hsd k p q a b T hsplit hr
  obtain ⟨hp, _, _, hpair⟩ := h dir T0 hc hsd k p q _ T hsplit hr
  obtain ⟨hca, hab⟩ := gpre_pair (Or.inr (Or.inr (Or.inl rfl))) hp
  exact ⟨hca, hab, hpair a b rfl⟩

/-- non-vacuity: the 8-node tree of the C17 examples; the record after `canonical_form(7)`; the machine's own check
of every event of a two-site step; the first two-site update 7 -> 6 leaves 7 pointing to 6 -/
example : exTree.WF ∧ exTree.kids ≠ [] := by decide
example : ((canonRec exTree 7).bind fun r => (eventsTwoSite exTree).map fun evs =>
    canonAtB exTree r.2 7 && allGoodB exTree ⟨7, r.2⟩ evs && canonAtB exTree (grun ⟨7, r.2⟩ evs).dir 7 &&
      ((grun ⟨7, r.2⟩ (evs.take 1)).dir 7 == some 6) && ((grun ⟨7, r.2⟩ (evs.take 1)).dir 6 == none))
    = some true := by decide
example : (eventsTwoSite exTree).map (fun evs => (opsOf evs).take 4) =
    some [⟨.svd, 7, 6⟩, ⟨.svd, 6, 5⟩, ⟨.svd, 5, 0⟩, ⟨.qr, 0, 2⟩] := by decide

end gauge


/-! ### Value level: the network before every two-site update (builder B45)

The two-site step of the value-level run (`Ptn.C06.Gauge.VStep.two`): the bond between `a` and `b` is replaced by a
fresh one, `a` receives ANY tensor on its legs that is an isometry in index form toward the fresh bond (contract of
`split_node_svd`: the factor U), `b` any tensor on its legs. -/
section siteCanon
open Ptn.Ein Ptn.C17 Ptn.C17.RTree Ptn.C05.Disc Ptn.C06.Gauge Ptn.C03

/-- **Before every two-site update `two a b` of a two-site TDVP step the doubled tree around `a` is canonical in
index form** (`Kids.Canon`, built from the current network re-rooted at `a`; `b` is a neighbour of `a`, so the
sub-tree of `b` is one of the children and its own children are canonical toward `b`), the norm network has the
value of the tensor of `a` alone, with no hypothesis on intermediate states: only the per-split contracts of the
run and the truth of the record of the initial network.

`_partial`: (1) the doubled tree around the MERGED pair (children of `a` other than `b` together with the children
of `b`, centre tensor = the contracted two-site tensor) is not assembled - all its sub-trees are canonical by this
theorem (`Sub.Canon` of the child `b` contains `Kids.Canon` of the children of `b`), what is missing is the
concatenation of the two child lists and the contraction of `a` with `b` as a `Centre`; hence the hypothesis
`k.Canon` of `two_site_update_conserves_norm_of_canonical` is not yet discharged for the pair; (2) `VStep.two`
demands an exact factorisation of the old tensor of `a` over the fresh bond: truncating SVDs are outside. -/
theorem two_site_update_kids_canon_partial {R : Type} [CommSemiring R] (dim : Nat → Nat) (cj : R → R)
    (t : RTree) (hwf : t.WF) (hk : t.kids ≠ []) :
    ∃ u s evs, updatePath t = some u ∧ u.head? = some s ∧ eventsTwoSite t = some evs ∧
      ∀ (dir : Rec) (N0 : VNet R), CanonAt t dir s → N0.WF → BondDims dim N0 → (∀ n ∈ ids t, n ∈ N0.ids) →
        GaugeInv dim cj N0 dir →
      ∀ (k : Nat) (p q : List DEv) (a b : Nat) (N : VNet R),
        (List.replicate k evs).flatten = p ++ DEv.two a b :: q → VRun dim cj N0 p N →
        Adj t a b ∧ N.WF ∧ N.ids = N0.ids ∧
        ∃ r : RTree, reroot a [] t = some r ∧ r.rid = a ∧ (ids r).Perm (ids t) ∧
          ∃ up dn : Nat → Nat, (∀ e ∈ edges r, EdgeOK dim cj N up dn e.1 e.2) ∧
            (kidsOf cj N up dn r.kids).Canon (ddim dim) ∧ (centreOf cj N up dn r).labels.Nodup ∧
            ∀ σ, netValue (ddim dim) (centreOf cj N up dn r).normBinds ((ids t).flatMap (nodeLeaves cj N)) σ =
              netValue (ddim dim) ((N.legs a).map dbl) [ketT (N.tens a), braT cj (N.tens a)] σ := by
  obtain ⟨u, s, evs, hu, hs, hev, hall⟩ :=
    Ptn.C06.tdvp_event_centre_kids_canon dim cj t hwf .twoSite hk
  refine ⟨u, s, evs, hu, hs, hev, ?_⟩
  intro dir N0 hc hwf0 hbd hids hinv k p q a b N hsplit hr
  obtain ⟨hpre, h1, h2, h3⟩ := hall dir N0 hc hwf0 hbd hids hinv k p q _ N hsplit hr
  obtain ⟨hca, hab⟩ := gpre_pair (Or.inr (Or.inr (Or.inl rfl))) hpre
  rw [hca] at h3
  obtain ⟨r, hr1, hr2, hr3, up, dn, g1, g2, _, g4, _, g6⟩ := h3
  exact ⟨hab, h1, h2, r, hr1, hr2, hr3, up, dn, g1, g2, g4, g6⟩

/-- the hypotheses are satisfiable: the tree `0 → 1` (two-site step `two 1 0`, `two 0 1`, sweep start 1), the integer
network `Ptn.C03.isoNet'` whose node 0 is the `Q` factor of a QR move toward node 1, the record `0 > 1`, `1 > -` -/
example :
    let t : RTree := .node 0 [.node 1 []]
    let dir : Rec := applyOps (fun _ => none) [⟨0, 1⟩]
    t.WF ∧ t.kids ≠ [] ∧ updatePath t = some [1, 0] ∧ eventsTwoSite t = some [.two 1 0, .two 0 1] ∧
    CanonAt t dir 1 ∧ isoNet'.WF ∧ BondDims demoDim isoNet' ∧ (∀ n ∈ ids t, n ∈ isoNet'.ids) ∧
    GaugeInv demoDim id isoNet' dir ∧
    (List.replicate 1 [DEv.two 1 0, .two 0 1]).flatten = [] ++ DEv.two 1 0 :: [.two 0 1] ∧
    VRun demoDim id isoNet' [] isoNet' := by
  obtain ⟨h1, h2, _, h4, _⟩ := run_isometric demoDim id isoNet_wf isoNet_run (fun _ => none)
    (gaugeInv_none _ _ _)
  have hbd : BondDims demoDim isoNet := by
    intro p hp
    simp only [isoNet, List.mem_cons, List.not_mem_nil, or_false] at hp
    subst hp; rfl
  exact ⟨by decide, by decide, by decide, by decide, (canonAtB_iff _ _ _).1 (by decide), h2, h4 hbd, by decide,
    h1, rfl, VRun.nil _⟩

/-- **Before every two-site update `two a b` the doubled tree around the MERGED PAIR is canonical in index form and
the norm network has the value of the two tensors of the pair alone** (builder B57).  Same run hypotheses as
`two_site_update_kids_canon_partial` (only the per-split contracts of the run and the truth of the record of the
initial network).  `r`: the tree re-rooted at `a`.  For every position of `b` among the children of `a` in `r`
(`r.kids = k1 ++ node b kb :: k2`) the merged family `Ptn.Ein.pair_merged` - children of `a` other than `b`, then the
children of `b` - satisfies `Kids.Canon`, has pairwise distinct labels, and the norm network equals the network of
`T_a · T_b · conj T_a · conj T_b` summed over the shared bond and one common index per other leg of the pair
(`Ptn.Ein.pair_centre_norm`): the norm of the merged two-site tensor.

`_partial`: (1) that `b` IS a child of the root of `r` (it is: `Adj t a b` and `r` is `t` re-rooted at `a`) is not
derived here, the statement is over every such decomposition of `r.kids`; (2) as in
`two_site_update_kids_canon_partial`, `VStep.two` demands an exact factorisation over the fresh bond (truncating
SVDs outside); (3) the instantiation of `two_site_update_conserves_norm_of_canonical` with this family
(`Kids.IsConj`, complex scalars) is not done. -/
theorem two_site_update_pair_canon_partial {R : Type} [CommSemiring R] (dim : Nat → Nat) (cj : R → R)
    (t : RTree) (hwf : t.WF) (hk : t.kids ≠ []) :
    ∃ u s evs, updatePath t = some u ∧ u.head? = some s ∧ eventsTwoSite t = some evs ∧
      ∀ (dir : Rec) (N0 : VNet R), CanonAt t dir s → N0.WF → BondDims dim N0 → (∀ n ∈ ids t, n ∈ N0.ids) →
        GaugeInv dim cj N0 dir →
      ∀ (k : Nat) (p q : List DEv) (a b : Nat) (N : VNet R),
        (List.replicate k evs).flatten = p ++ DEv.two a b :: q → VRun dim cj N0 p N →
        Adj t a b ∧ N.WF ∧ N.ids = N0.ids ∧
        ∃ r : RTree, reroot a [] t = some r ∧ r.rid = a ∧ (ids r).Perm (ids t) ∧
          ∃ up dn : Nat → Nat, (∀ e ∈ edges r, EdgeOK dim cj N up dn e.1 e.2) ∧
            ∀ k1 kb k2 : List RTree, r.kids = k1 ++ RTree.node b kb :: k2 →
              (pair_merged (kidsOf cj N up dn k1) (kidsOf cj N up dn k2) (kidsOf cj N up dn kb)).Canon (ddim dim) ∧
              (pair_merged (kidsOf cj N up dn k1) (kidsOf cj N up dn k2) (kidsOf cj N up dn kb)).labels.Nodup ∧
              ∀ σ, netValue (ddim dim) (centreOf cj N up dn r).normBinds ((ids t).flatMap (nodeLeaves cj N)) σ =
                netValue (ddim dim)
                  ((physOf N a (dnLegs dn r.kids) ++ (physOf N b (up b :: dnLegs dn kb) ++
                      [(DL.ket (dn b), DL.ket (up b)), (DL.bra (dn b), DL.bra (up b))])) ++
                    (pair_merged (kidsOf cj N up dn k1) (kidsOf cj N up dn k2) (kidsOf cj N up dn kb)).pairs)
                  [ketT (N.tens a), braT cj (N.tens a), ketT (N.tens b), braT cj (N.tens b)] σ := by
  obtain ⟨u, s, evs, hu, hs, hev, hall⟩ :=
    Ptn.C06.tdvp_event_centre_kids_canon dim cj t hwf .twoSite hk
  refine ⟨u, s, evs, hu, hs, hev, ?_⟩
  intro dir N0 hc hwf0 hbd hids hinv k p q a b N hsplit hr
  obtain ⟨hpre, h1, h2, h3⟩ := hall dir N0 hc hwf0 hbd hids hinv k p q _ N hsplit hr
  obtain ⟨hca, hab⟩ := gpre_pair (Or.inr (Or.inr (Or.inl rfl))) hpre
  rw [hca] at h3
  obtain ⟨r, hr1, hr2, hr3, up, dn, g1, g2, g3, g4, _, _⟩ := h3
  refine ⟨hab, h1, h2, r, hr1, hr2, hr3, up, dn, g1, ?_⟩
  intro k1 kb k2 hsp
  have hK := kidsOf_split cj N up dn k1 k2 kb b
  rw [← hsp] at hK
  obtain ⟨hC, hCc, _⟩ := g3
  simp only [centreOf, hr2] at hC hCc g4
  rw [hK] at g2 hC hCc g4
  obtain ⟨c1, c2⟩ := (pair_kids_append_canon_iff (ddim dim) _ _).1 g2
  obtain ⟨_, _, cs, c3⟩ := c2
  obtain ⟨hT, hTc, _, _, cb⟩ := cs
  refine ⟨pair_merged_canon (ddim dim) _ _ _ c1 c3 cb, ?_, ?_⟩
  · refine pair_merged_labels_nodup _ _ (DL.ket (dn b)) (DL.bra (dn b)) (ketT (N.tens b)) (braT cj (N.tens b))
      (DL.ket (up b)) (DL.bra (up b)) (physOf N b (up b :: dnLegs dn kb)) _ ?_
    simp only [Centre.labels] at g4
    exact (List.nodup_append.1 g4).2.1
  · intro σ
    have hpc := pair_centre_norm (ddim dim) _ _ _ _ _ _ _ _ _ _ _ _ _ hC hCc hT hTc c1 c3 cb g4 σ
    rw [← hpc]
    have hL : (centreOf cj N up dn r).normLeaves = (ids r).flatMap (nodeLeaves cj N) :=
      centreOf_normLeaves cj N up dn r
    have hB : (centreOf cj N up dn r).normBinds = (Centre.mk (ketT (N.tens a)) (braT cj (N.tens a))
        (physOf N a (dnLegs dn r.kids)) (pair_around (kidsOf cj N up dn k1) (kidsOf cj N up dn k2)
          (DL.ket (dn b)) (DL.bra (dn b)) (ketT (N.tens b)) (braT cj (N.tens b)) (DL.ket (up b)) (DL.bra (up b))
          (physOf N b (up b :: dnLegs dn kb)) (kidsOf cj N up dn kb))).normBinds := by
      simp only [centreOf, Centre.normBinds, hr2, hK]
    have hL' : (centreOf cj N up dn r).normLeaves = (Centre.mk (ketT (N.tens a)) (braT cj (N.tens a))
        (physOf N a (dnLegs dn r.kids)) (pair_around (kidsOf cj N up dn k1) (kidsOf cj N up dn k2)
          (DL.ket (dn b)) (DL.bra (dn b)) (ketT (N.tens b)) (braT cj (N.tens b)) (DL.ket (up b)) (DL.bra (up b))
          (physOf N b (up b :: dnLegs dn kb)) (kidsOf cj N up dn kb))).normLeaves := by
      simp only [centreOf, Centre.normLeaves, hr2, hK]
    rw [← hB, ← hL', hL]
    unfold netValue
    apply sumPairs_congr
    intro τ
    exact Ptn.Ein.prodL_perm (((hr3.symm.flatMap_right (nodeLeaves cj N)).map _))

/-- the hypotheses are satisfiable: the instance of the example above (tree `0 → 1`, first event `two 1 0`); the
tree re-rooted at `1` is `1 → 0`, so `b = 0` is the only child: `k1 = k2 = kb = []` -/
example : reroot 1 [] (RTree.node 0 [.node 1 []]) = some (.node 1 [.node 0 []]) ∧
    (RTree.node 1 [.node 0 []]).kids = [] ++ RTree.node 0 [] :: [] := ⟨by rfl, by rfl⟩

/-- **Before every two-site update `two a b` of a two-site TDVP step (truncation disabled): `b` IS a child of the
root of the tree re-rooted at `a`, the doubled tree around the MERGED PAIR is canonical in index form and the norm
network has the value of the two tensors of the pair alone** (builder B61; removes item (1) of
`two_site_update_pair_canon_partial`).  Run hypotheses as in `two_site_update_kids_canon_partial`: only the per-split
contracts of the run (`VRun`: the factor left at `a` is an isometry toward the fresh bond and the factorisation is
exact, i.e. truncation disabled - the setting of this property's conservation statement) and the truth of the record
of the initial network.  `r` = `t` re-rooted at `a`: well-formed, root `a`, and - because `a`, `b` are neighbours
(`Ptn.C07.reroot_adj_child`: an edge at the root of a well-formed tree is a child of the root) - its child list
decomposes as `k1 ++ node b kb :: k2`.  For this decomposition the merged family `Ptn.Ein.pair_merged` (children of `a`
other than `b`, then the children of `b`) satisfies `Kids.Canon`, has pairwise distinct labels, and the norm network
equals the network of `T_a · conj T_a · T_b · conj T_b` summed over the shared bond and one common index per other leg
of the pair: the norm of the merged two-site tensor. -/
theorem two_site_update_pair_canon {R : Type} [CommSemiring R] (dim : Nat → Nat) (cj : R → R)
    (t : RTree) (hwf : t.WF) (hk : t.kids ≠ []) :
    ∃ u s evs, updatePath t = some u ∧ u.head? = some s ∧ eventsTwoSite t = some evs ∧
      ∀ (dir : Rec) (N0 : VNet R), CanonAt t dir s → N0.WF → BondDims dim N0 → (∀ n ∈ ids t, n ∈ N0.ids) →
        GaugeInv dim cj N0 dir →
      ∀ (k : Nat) (p q : List DEv) (a b : Nat) (N : VNet R),
        (List.replicate k evs).flatten = p ++ DEv.two a b :: q → VRun dim cj N0 p N →
        Adj t a b ∧ N.WF ∧ N.ids = N0.ids ∧
        ∃ r : RTree, reroot a [] t = some r ∧ r.rid = a ∧ r.WF ∧ (ids r).Perm (ids t) ∧
          ∃ up dn : Nat → Nat, (∀ e ∈ edges r, EdgeOK dim cj N up dn e.1 e.2) ∧
            ∃ k1 kb k2 : List RTree, r.kids = k1 ++ RTree.node b kb :: k2 ∧
              (pair_merged (kidsOf cj N up dn k1) (kidsOf cj N up dn k2) (kidsOf cj N up dn kb)).Canon (ddim dim) ∧
              (pair_merged (kidsOf cj N up dn k1) (kidsOf cj N up dn k2) (kidsOf cj N up dn kb)).labels.Nodup ∧
              ∀ σ, netValue (ddim dim) (centreOf cj N up dn r).normBinds ((ids t).flatMap (nodeLeaves cj N)) σ =
                netValue (ddim dim)
                  ((physOf N a (dnLegs dn r.kids) ++ (physOf N b (up b :: dnLegs dn kb) ++
                      [(DL.ket (dn b), DL.ket (up b)), (DL.bra (dn b), DL.bra (up b))])) ++
                    (pair_merged (kidsOf cj N up dn k1) (kidsOf cj N up dn k2) (kidsOf cj N up dn kb)).pairs)
                  [ketT (N.tens a), braT cj (N.tens a), ketT (N.tens b), braT cj (N.tens b)] σ := by
  obtain ⟨u, s, evs, hu, hs, hev, hall⟩ := two_site_update_pair_canon_partial dim cj t hwf hk
  refine ⟨u, s, evs, hu, hs, hev, ?_⟩
  intro dir N0 hc hwf0 hbd hids hinv k p q a b N hsplit hr
  obtain ⟨hab, h1, h2, r, hr1, hr2, hr3, up, dn, g1, g⟩ :=
    hall dir N0 hc hwf0 hbd hids hinv k p q a b N hsplit hr
  obtain ⟨hrwf, _, k1, kb, k2, hsp⟩ := reroot_adj_child hwf hab hr1
  exact ⟨hab, h1, h2, r, hr1, hr2, hrwf, hr3, up, dn, g1, k1, kb, k2, hsp, g k1 kb k2 hsp⟩

/-- the hypotheses are satisfiable: the instance of the examples above (tree `0 → 1`, integer network
`Ptn.C03.isoNet'`, first event `two 1 0`); `0 - 1` is an edge, the tree re-rooted at `1` is `1 → 0` and its child
list is `[] ++ node 0 [] :: []` -/
example :
    let t : RTree := .node 0 [.node 1 []]
    t.WF ∧ t.kids ≠ [] ∧ eventsTwoSite t = some [.two 1 0, .two 0 1] ∧ Adj t 1 0 ∧
      reroot 1 [] t = some (.node 1 [.node 0 []]) ∧
      (RTree.node 1 [.node 0 []]).kids = [] ++ RTree.node 0 [] :: [] := by
  refine ⟨by decide, by decide, by decide, by decide, by rfl, by rfl⟩

open Matrix NormedSpace in
/-- **Every two-site update of a two-site TDVP time step (truncation disabled) conserves the norm** - no
canonical-form hypothesis other than the per-split contracts of the run (`VRun`) and the truth of the record of the
INITIAL network.  Over the complex numbers with conjugation `star`: before every event `two a b` the tree `r` = `t`
re-rooted at `a` has `b` among the children of its root (`r.kids = k1 ++ node b kb :: k2`), the doubled tree
`M = pair_merged …` around the merged pair is built from the current network `N`, the embedding
`E = siteEmbedding (ddim dim) M P = envMatrix ⊗ 1_P` is BUILT from it (`P`: the open legs of `a` and `b`), and for
every Hermitian `H` the update `φ ↦ exp(-i τ EᴴHE) φ` of the merged two-site tensor conserves `|Eφ|²`
(`two_site_update_pair_canon` + `pairConj_merged_kidsOf` + `two_site_update_conserves_norm_of_canonical`).
Scope: `VStep.two` carries an exact factorisation over the fresh bond - a truncating SVD is outside (it does not
conserve the norm). -/
theorem tdvp_two_site_update_conserves_norm (dim : Nat → Nat) (t : RTree) (hwf : t.WF) (hk : t.kids ≠ []) :
    ∃ u s evs, updatePath t = some u ∧ u.head? = some s ∧ eventsTwoSite t = some evs ∧
      ∀ (dir : Rec) (N0 : VNet ℂ), CanonAt t dir s → N0.WF → BondDims dim N0 → (∀ n ∈ ids t, n ∈ N0.ids) →
        GaugeInv dim (star : ℂ → ℂ) N0 dir →
      ∀ (k : Nat) (p q : List DEv) (a b : Nat) (N : VNet ℂ),
        (List.replicate k evs).flatten = p ++ DEv.two a b :: q → VRun dim (star : ℂ → ℂ) N0 p N →
        Adj t a b ∧
        ∃ r : RTree, reroot a [] t = some r ∧ r.rid = a ∧
          ∃ up dn : Nat → Nat, (∀ e ∈ edges r, EdgeOK dim (star : ℂ → ℂ) N up dn e.1 e.2) ∧
            ∃ k1 kb k2 : List RTree, r.kids = k1 ++ RTree.node b kb :: k2 ∧
            ∃ M : Kids DL ℂ, M = pair_merged (kidsOf (star : ℂ → ℂ) N up dn k1) (kidsOf (star : ℂ → ℂ) N up dn k2)
                (kidsOf (star : ℂ → ℂ) N up dn kb) ∧
              ∀ (P : Type) [Fintype P] [DecidableEq P]
                (H : Matrix (Idx (ddim dim) M.physAll × P) (Idx (ddim dim) M.physAll × P) ℂ),
                H.conjTranspose = H → ∀ (τ : ℝ) (φ : Idx (ddim dim) M.ups × P → ℂ),
                let E := Ptn.C06.siteEmbedding (ddim dim) M P
                star (E.mulVec ((exp ((-Complex.I * (τ : ℂ)) • (E.conjTranspose * H * E))).mulVec φ)) ⬝ᵥ
                    (E.mulVec ((exp ((-Complex.I * (τ : ℂ)) • (E.conjTranspose * H * E))).mulVec φ))
                  = star (E.mulVec φ) ⬝ᵥ (E.mulVec φ) := by
  obtain ⟨u, s, evs, hu, hs, hev, hall⟩ := two_site_update_pair_canon dim (star : ℂ → ℂ) t hwf hk
  refine ⟨u, s, evs, hu, hs, hev, ?_⟩
  intro dir N0 hc hwf0 hbd hids hinv k p q a b N hsplit hr
  obtain ⟨hab, _, _, r, hr1, hr2, _, _, up, dn, g1, k1, kb, k2, hsp, hC, hN, _⟩ :=
    hall dir N0 hc hwf0 hbd hids hinv k p q a b N hsplit hr
  refine ⟨hab, r, hr1, hr2, up, dn, g1, k1, kb, k2, hsp, _, rfl, ?_⟩
  intro P _ _ H hH τ φ
  exact two_site_update_conserves_norm_of_canonical (ddim dim) dswap dswap_injective (ddim_dswap dim)
    _ hC hN (pairConj_merged_kidsOf N up dn k1 k2 kb) P H hH τ φ

/-- the run hypotheses are those of `two_site_update_pair_canon` (satisfiable: example above); the relabelling and
the Hermitian operator: ket copy ↔ bra copy is injective and keeps dimensions, the identity matrix is Hermitian -/
example (dim : Nat → Nat) : Function.Injective dswap ∧ (∀ l, ddim dim (dswap l) = ddim dim l) ∧
    ((1 : Matrix (Fin 2 × Fin 3) (Fin 2 × Fin 3) ℂ)).conjTranspose = 1 :=
  ⟨dswap_injective, ddim_dswap dim, Matrix.conjTranspose_one⟩

end siteCanon

end Ptn.C07
