import Ptn.C07.Core
import Ptn.C06.Props
import Ptn.Common.AnalysisExp
/-! Property theorems for C07, part 2 (Mathlib); the combinatorial theorems are in `Core.lean`. -/
namespace Ptn.C07

open Matrix NormedSpace in
/-- Two-node tree: the step consists of two half two-site updates of the whole state with the full
    Hamiltonian (`two_node_trace`); exact local exponentials compose to the full propagator:
    `exp(-i (dt/2) H) exp(-i (dt/2) H) = exp(-i dt H)`. -/
theorem two_half_steps_are_full_step {n : Type} [Fintype n] [DecidableEq n] (H : Matrix n n ℂ)
    (s : ℂ) : exp (s • H) * exp (s • H) = exp ((s + s) • H) :=
  Ptn.Analysis.exp_add_same H s s

open Matrix NormedSpace in
/-- With truncation disabled every two-site / backward single-site update is an isometric local
    flow and conserves the norm (and the energy, `Ptn.C06.local_update_conserves_energy`). -/
theorem two_site_update_conserves_norm {N d : Type} [Fintype N] [Fintype d] [DecidableEq N]
    [DecidableEq d] (E : Matrix N d ℂ) (H : Matrix N N ℂ) (hE : Eᴴ * E = 1) (hH : Hᴴ = H)
    (t : ℝ) (φ : d → ℂ) :
    star (E *ᵥ (exp ((-Complex.I * (t : ℂ)) • (Eᴴ * H * E)) *ᵥ φ)) ⬝ᵥ
        (E *ᵥ (exp ((-Complex.I * (t : ℂ)) • (Eᴴ * H * E)) *ᵥ φ))
      = star (E *ᵥ φ) ⬝ᵥ (E *ᵥ φ) :=
  Ptn.C06.local_update_conserves_norm E H hE hH t φ

end Ptn.C07
