import Ptn.C07.Model
/-! Property theorems for C07. Only property theorems and non-vacuity examples live here. -/
namespace Ptn.C07
end Ptn.C07
