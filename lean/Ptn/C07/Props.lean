import Ptn.C07.Core
import Ptn.C06.Props
import Ptn.Common.AnalysisExp
/-! Property theorems for C07, part 2 (Mathlib); the combinatorial theorems are in `Core.lean`. -/
namespace Ptn.C07

open Matrix NormedSpace in
/-- Two-node tree: the step consists of two half two-site updates of the whole state with the full
    Hamiltonian (`two_node_trace`); exact local exponentials compose to the full propagator:
    `exp(-i (dt/2) H) exp(-i (dt/2) H) = exp(-i dt H)`. -/
theorem two_half_steps_are_full_step {n : Type} [Fintype n] [DecidableEq n] (H : Matrix n n ℂ)
    (s : ℂ) : exp (s • H) * exp (s • H) = exp ((s + s) • H) :=
  Ptn.Analysis.exp_add_same H s s

open Matrix NormedSpace in
/-- With truncation disabled every two-site / backward single-site update is an isometric local
    flow and conserves the norm (and the energy, `Ptn.C06.local_update_conserves_energy`). -/
theorem two_site_update_conserves_norm {N d : Type} [Fintype N] [Fintype d] [DecidableEq N]
    [DecidableEq d] (E : Matrix N d ℂ) (H : Matrix N N ℂ) (hE : Eᴴ * E = 1) (hH : Hᴴ = H)
    (t : ℝ) (φ : d → ℂ) :
    star (E *ᵥ (exp ((-Complex.I * (t : ℂ)) • (Eᴴ * H * E)) *ᵥ φ)) ⬝ᵥ
        (E *ᵥ (exp ((-Complex.I * (t : ℂ)) • (Eᴴ * H * E)) *ᵥ φ))
      = star (E *ᵥ φ) ⬝ᵥ (E *ᵥ φ) :=
  Ptn.C06.local_update_conserves_norm E H hE hH t φ

/-! ### Value level: two-site update of a state canonical at the updated pair -/

open Ptn.Ein in
/-- **Two-site update (truncation disabled), state canonical at one node of the updated pair: the norm is
conserved.**  The local tensor is the contraction of the two neighbouring nodes; `k`: the sub-trees around
BOTH nodes (everything except the pair), every node canonical toward the pair — which is what canonical form
at either node of the pair gives, the other node of the pair being absorbed into the local tensor; `P`: the
open legs of both nodes.  The embedding `E = envMatrix ⊗ 1_P` is built from the network; its isometry is
`Ptn.Ein.embedding_isometry_of_canonical`, not a hypothesis. -/
theorem two_site_update_conserves_norm_of_canonical {L : Type} [DecidableEq L] (dim : L → Nat) (pr : L → L)
    (hinj : Function.Injective pr) (hdim : ∀ l, dim (pr l) = dim l) (k : Kids L ℂ)
    (hc : k.Canon dim) (hnd : k.labels.Nodup) (hk : k.IsConj pr)
    (P : Type) [Fintype P] [DecidableEq P]
    (H : Matrix (Idx dim k.physAll × P) (Idx dim k.physAll × P) ℂ) (hH : H.conjTranspose = H)
    (t : ℝ) (φ : Idx dim k.ups × P → ℂ) :
    let E := Ptn.C06.siteEmbedding dim k P
    star (E.mulVec ((NormedSpace.exp ((-Complex.I * (t : ℂ)) • (E.conjTranspose * H * E))).mulVec φ)) ⬝ᵥ
        (E.mulVec ((NormedSpace.exp ((-Complex.I * (t : ℂ)) • (E.conjTranspose * H * E))).mulVec φ))
      = star (E.mulVec φ) ⬝ᵥ (E.mulVec φ) :=
  Ptn.C06.one_site_update_conserves_norm_of_canonical dim pr hinj hdim k hc hnd hk P H hH t φ

open Ptn.Ein in
/-- the premises are satisfiable: the demo tree of `Ptn.C06.Demo` read as the surroundings of a pair whose
two nodes carry the bonds `(5, 15)` and `(7, 17)`; the open legs of the pair: dimensions 2 and 3 -/
example : Ptn.C06.Demo.kids.Canon Ptn.C06.Demo.dim ∧ Ptn.C06.Demo.kids.labels.Nodup ∧
    Ptn.C06.Demo.kids.IsConj Ptn.C06.Demo.pr ∧ Function.Injective Ptn.C06.Demo.pr ∧
    (∀ l, Ptn.C06.Demo.dim (Ptn.C06.Demo.pr l) = Ptn.C06.Demo.dim l) ∧
    ((1 : Matrix (Idx Ptn.C06.Demo.dim Ptn.C06.Demo.kids.physAll × (Fin 2 × Fin 3))
      (Idx Ptn.C06.Demo.dim Ptn.C06.Demo.kids.physAll × (Fin 2 × Fin 3)) ℂ)).conjTranspose = 1 :=
  ⟨Ptn.C06.Demo.kids_canon, Ptn.C06.Demo.kids_nodup, Ptn.C06.Demo.kids_isConj, Ptn.C06.Demo.pr_inj,
    Ptn.C06.Demo.dim_pr, Matrix.conjTranspose_one⟩

end Ptn.C07
