import Ptn.C05.Model
import Ptn.C06.Model
/-! Model for property C07 (second-order two-site TDVP); core Lean only.
The schedule is `Ptn.C05.twoSite`; flows and centre tracking come from `Ptn.C06`.
`keptCount` is the number of singular values a truncated split keeps (C10: `k` values pass the
tolerance test, at least one is kept, at most `D`). -/
namespace Ptn.C07

/-- `D = none` is an unbounded maximum bond dimension. -/
def keptCount (k : Nat) (D : Option Nat) : Nat :=
  match D with
  | some d => min (max k 1) d
  | none => max k 1

end Ptn.C07
