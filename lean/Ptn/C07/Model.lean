/-! Model for property C07 (core Lean only; no Mathlib). -/
namespace Ptn.C07
end Ptn.C07
