import Ptn.C17.Reroot
/-! An edge at the root of a well-formed tree is a child of the root; consequence for the tree re-rooted at one end
of an edge (builder B61). -/
namespace Ptn.C07
open Ptn.C17 Ptn.C17.RTree

/-- an edge (in either orientation) of `edgesL a ks` that touches `a`, where `a` is not a node below: its other end
is the root of one of the `ks` -/
theorem rootEdge_child_list : ∀ (ks : List RTree) (a b : Nat), a ∉ idsL ks → SAdj (edgesL a ks) a b →
    ∃ k1 kb k2, ks = k1 ++ RTree.node b kb :: k2
  | [], a, b, _, h => by simp [SAdj] at h
  | k :: ks, a, b, ha, h => by
    rw [idsL_cons, List.mem_append, not_or] at ha
    obtain ⟨hak, haks⟩ := ha
    have hrec : SAdj (edgesL a ks) a b → ∃ k1 kb k2, k :: ks = k1 ++ RTree.node b kb :: k2 := by
      intro h'
      obtain ⟨k1, kb, k2, e⟩ := rootEdge_child_list ks a b haks h'
      exact ⟨k :: k1, kb, k2, by rw [e]; rfl⟩
    simp only [SAdj, edgesL_cons, List.mem_cons, List.mem_append, Prod.mk.injEq] at h
    rcases h with (⟨_, hb⟩ | h | h) | (⟨hb, hr⟩ | h | h)
    · cases k with
      | node i kb =>
        simp only [rid] at hb
        exact ⟨[], kb, ks, by rw [hb]; rfl⟩
    · exact absurd (edge_mem_ids h).1 hak
    · exact hrec (Or.inl h)
    · exact absurd (by rw [hr]; exact rid_mem_ids k) hak
    · exact absurd (edge_mem_ids h).2 hak
    · exact hrec (Or.inr h)

/-- **an edge at the root of a well-formed tree is a child of the root** -/
theorem rootEdge_child {r : RTree} (hwf : r.WF) {b : Nat} (h : Adj r r.rid b) :
    ∃ k1 kb k2, r.kids = k1 ++ RTree.node b kb :: k2 := by
  cases r with
  | node a ks =>
    simp only [kids]
    have hnd : (a :: idsL ks).Nodup := by simpa [WF] using hwf
    refine rootEdge_child_list ks a b (List.nodup_cons.1 hnd).1 ?_
    simpa [Adj, SAdj, rid] using h

/-- the tree re-rooted at one end `a` of an edge `a - b` of a well-formed tree: well-formed, and `b` is a child of
its root -/
theorem reroot_adj_child {t : RTree} (hwf : t.WF) {a b : Nat} (hab : Adj t a b) {r : RTree}
    (hr : reroot a [] t = some r) :
    r.WF ∧ r.rid = a ∧ ∃ k1 kb k2, r.kids = k1 ++ RTree.node b kb :: k2 := by
  obtain ⟨h1, h2, h3⟩ := (reroot_spec a).1 t [] r hr
  have hp : (ids r).Perm (ids t) := by simpa using h2
  have hrwf : r.WF := hp.nodup_iff.2 hwf
  refine ⟨hrwf, h1, rootEdge_child hrwf ?_⟩
  rw [h1]
  have := (h3 a b).2 (by simpa [SAdj, Adj] using hab)
  exact this

end Ptn.C07
