import Ptn.C06.SiteNorm
import Ptn.C07.Pair
/-! `Kids.IsConj` (ket tree with its conjugated relabelled copy) of a concatenation and of the merged family around a
pair (builder B61). -/
namespace Ptn.C07
open Ptn.Ein Ptn.C17 Ptn.C17.RTree Ptn.C03 Ptn.C06.Gauge

set_option linter.unusedSectionVars false
variable {L : Type} [DecidableEq L] {R : Type} [CommSemiring R] [StarRing R]

/-- `Kids.IsConj` of a concatenation: exactly when both families are -/
theorem pairConj_append_iff (pr : L → L) : ∀ k1 k2 : Kids L R,
    (pair_kidsAppend k1 k2).IsConj pr ↔ k1.IsConj pr ∧ k2.IsConj pr
  | .nil, k2 => by simp [pair_kidsAppend, Kids.IsConj]
  | .cons d d' s rest, k2 => by
    simp only [pair_kidsAppend, Kids.IsConj, pairConj_append_iff pr rest k2]
    tauto

/-- the merged family around a pair is a ket tree with its conjugated copy as soon as its three parts are -/
theorem pairConj_merged (pr : L → L) (k1 k2 kb : Kids L R) (h1 : k1.IsConj pr) (h2 : k2.IsConj pr)
    (hb : kb.IsConj pr) : (pair_merged k1 k2 kb).IsConj pr :=
  (pairConj_append_iff pr _ _).2 ⟨(pairConj_append_iff pr _ _).2 ⟨h1, h2⟩, hb⟩

/-- the merged family built from a valued network (conjugation `star`, relabelling ket copy ↔ bra copy) -/
theorem pairConj_merged_kidsOf (N : VNet R) (up dn : Nat → Nat) (k1 k2 kb : List RTree) :
    (pair_merged (kidsOf (star : R → R) N up dn k1) (kidsOf (star : R → R) N up dn k2)
      (kidsOf (star : R → R) N up dn kb)).IsConj dswap :=
  pairConj_merged dswap _ _ _ ((subOf_isConj N up dn).2 k1) ((subOf_isConj N up dn).2 k2)
    ((subOf_isConj N up dn).2 kb)

end Ptn.C07
