import Ptn.C07.Model
import Ptn.C06.Driver
/-! Line-protocol handler for C07 (core Lean only).
  sweepend twosite <start> <last> <segs…>   (delegates to the C06 handler)
  kept <k> <D|inf>                          → keptCount
-/
namespace Ptn.C07

def handle (args : List String) : String :=
  match args with
  | "sweepend" :: _ => Ptn.C06.handle args
  | ["kept", k, d] =>
    match k.toNat? with
    | none => "bad-op"
    | some kk =>
      if d = "inf" then toString (keptCount kk none) else
        match d.toNat? with
        | some dd => if dd = 0 then "bad-op" else toString (keptCount kk (some dd))
        | none => "bad-op"
  | _ => "bad-op"

end Ptn.C07
