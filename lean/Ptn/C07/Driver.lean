import Ptn.C07.Model
/-! Line-protocol handler for the C07 model (core Lean only). -/
namespace Ptn.C07
def handle (args : List String) : String := "bad-op"
end Ptn.C07
