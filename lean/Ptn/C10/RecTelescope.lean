import Ptn.C10.RecExists
/-! Value level, part 7 (builder B73): the premise `(allLegs bs all).Nodup` of `recursive_truncation_value_telescope` for the
insertion records of one level of `truncate_node` (open item (a) of part 5), and the telescope instantiated on the record
of one level (`lr73_step_error`). -/
namespace Ptn.C10
open Ptn.C02 Ptn.C03 Ptn.Ein NodeS

set_option linter.unusedSectionVars false
set_option linter.unusedVariables false

section nodup
variable {R : Type}

/-- the two fresh legs of an insertion -/
def lr73Fresh (i : Ins Nat R) : List Nat := [i.a', i.b']

theorem lr73_legs_perm : ∀ all : List (Ins Nat R),
    (all.flatMap Ins.legs).Perm (Expr.pairLegs (all.map Ins.plain) ++ all.flatMap lr73Fresh)
  | [] => by simp [Expr.pairLegs]
  | i :: r => by
    have ih := lr73_legs_perm r
    simp only [List.flatMap_cons, List.map_cons, Ins.legs, Ins.plain, lr73Fresh, List.cons_append,
      List.nil_append]
    have h1 : (Expr.pairLegs (r.map Ins.plain) ++ i.a' :: i.b' :: r.flatMap lr73Fresh).Perm
        (i.a' :: i.b' :: (Expr.pairLegs (r.map Ins.plain) ++ r.flatMap lr73Fresh)) :=
      List.perm_middle.trans (List.Perm.cons _ List.perm_middle)
    have h2 : (Expr.pairLegs ((i.a, i.b) :: r.map Ins.plain) ++ i.a' :: i.b' :: r.flatMap lr73Fresh).Perm
        (i.a :: i.b :: (Expr.pairLegs (r.map Ins.plain) ++ i.a' :: i.b' :: r.flatMap lr73Fresh)) :=
      List.Perm.append_right _ (pairLegs_cons_perm (i.a, i.b) _)
    refine List.Perm.trans ?_ h2.symm
    refine List.Perm.cons _ ?_
    refine List.Perm.trans ?_ (List.Perm.cons _ (h1.trans ((ih.symm.cons _).cons _)).symm)
    exact (List.Perm.swap _ _ _).trans ((List.Perm.cons _ (List.Perm.swap _ _ _)).trans (List.Perm.swap _ _ _))

/-- **the `Nodup` premise of the telescope** from: no leg bound twice in the network before the run, every bound leg below the
counter `N`, the fresh legs `a'`, `b' = a' + 1` at or above `N` and `a'` growing by at least 4 -/
theorem lr73_allLegs_nodup (N : Nat) (bs : List (Nat × Nat)) (all : List (Ins Nat R))
    (hnd : (Expr.pairLegs (bs ++ all.map Ins.plain)).Nodup)
    (hlt : ∀ l ∈ Expr.pairLegs (bs ++ all.map Ins.plain), l < N)
    (hb : ∀ i ∈ all, i.b' = i.a' + 1) (hge : ∀ i ∈ all, N ≤ i.a')
    (hmono : all.Pairwise (fun x y => x.a' + 4 ≤ y.a')) : (allLegs bs all).Nodup := by
  have hp : (allLegs bs all).Perm (Expr.pairLegs (bs ++ all.map Ins.plain) ++ all.flatMap lr73Fresh) := by
    unfold allLegs
    refine (List.Perm.append_left _ (lr73_legs_perm all)).trans ?_
    rw [← List.append_assoc]
    exact List.Perm.append_right _ (Expr.pairLegs_append _ _).symm
  rw [hp.nodup_iff, List.nodup_append]
  refine ⟨hnd, ?_, ?_⟩
  · clear hp hnd hlt
    induction all with
    | nil => simp
    | cons i r ih =>
      have hm := List.pairwise_cons.1 hmono
      simp only [List.flatMap_cons, lr73Fresh, List.cons_append, List.nil_append, List.nodup_cons,
        List.mem_cons, not_or]
      have hbi := hb i (by simp)
      have hnot : ∀ l, l ∈ r.flatMap lr73Fresh → i.a' + 4 ≤ l := by
        intro l hl
        obtain ⟨j, hj, hlj⟩ := List.mem_flatMap.1 hl
        have h1 := hm.1 j hj
        have h2 := hb j (by simp [hj])
        simp [lr73Fresh] at hlj
        rcases hlj with rfl | rfl <;> omega
      refine ⟨⟨by omega, fun h => ?_⟩, fun h => ?_,
        ih (fun j hj => hb j (by simp [hj])) (fun j hj => hge j (by simp [hj])) hm.2⟩
      · have := hnot _ h; omega
      · have := hnot _ h; omega
  · intro l hl m hm
    have h0 := hlt l hl
    obtain ⟨j, hj, hmj⟩ := List.mem_flatMap.1 hm
    have h1 := hge j hj
    have h2 := hb j hj
    simp [lr73Fresh] at hmj
    rcases hmj with rfl | rfl <;> omega

end nodup

section ring
variable {R : Type} [CommRing R]

/-- **the telescope on the record of one level**: for a well-formed network `v` and insertion records `all` with the
properties `truncate_node_level_flat_value` proves (fresh legs `a' ≥ v.next`, `b' = a' + 1`, `a'` growing by `≥ 4`, `Π_c`
reading only its two legs, the cut bonds being bonds of `v`), and the dimension contract `dim b' = dim a` of the identity
insertion, plain record − flat record = `teleSum`. -/
theorem lr73_step_error (dim : Nat → Nat) (v : VNet R) (hv : v.WF) (all : List (Ins Nat R))
    (hb : ∀ i ∈ all, i.b' = i.a' + 1)
    (hPm : ∀ i ∈ all, DependsOn (fun l => l = i.a' ∨ l = i.b') i.Pm)
    (hge : ∀ i ∈ all, v.next ≤ i.a') (hmono : all.Pairwise (fun x y => x.a' + 4 ≤ y.a'))
    (hperm : v.bonds.Perm (lf62Erase v.bonds all ++ all.map Ins.plain))
    (hdim : ∀ i ∈ all, dim i.b' = dim i.a) (σ : Asg Nat) :
    netValue dim (lf62Erase v.bonds all ++ all.map Ins.plain) (v.ids.map v.tens) σ
        - netValue dim (lf62Erase v.bonds all ++ all.flatMap Ins.cut) (all.map Ins.Pm ++ v.ids.map v.tens) σ =
      teleSum dim (lf62Erase v.bonds all) (v.ids.map v.tens) [] all σ := by
  have hlt : ∀ l ∈ Expr.pairLegs (lf62Erase v.bonds all ++ all.map Ins.plain), l < v.next := by
    intro l hl
    have hl' := (pairLegs_perm hperm).mem_iff.2 hl
    simp only [Expr.pairLegs, List.mem_append, List.mem_map] at hl'
    rcases hl' with ⟨p, hp, rfl⟩ | ⟨p, hp, rfl⟩
    · obtain ⟨⟨k, hk, hkl⟩, _⟩ := hv.bonds_legs p hp
      exact hv.fresh k hk _ hkl
    · obtain ⟨_, ⟨k, hk, hkl⟩⟩ := hv.bonds_legs p hp
      exact hv.fresh k hk _ hkl
  refine recursive_truncation_value_telescope dim _ _ all (S := fun l => l < v.next) ?_ ?_ hPm
    (lr73_allLegs_nodup v.next _ all ((pairLegs_perm hperm).nodup_iff.1 hv.bonds_nodup) hlt hb hge hmono) hdim σ
  · intro f hf
    obtain ⟨k, hk, rfl⟩ := List.mem_map.1 hf
    apply (hv.reads k hk).mono
    intro l hl
    exact hv.fresh k hk l hl
  · intro i hi
    have h1 := hge i hi
    have h2 := hb i hi
    show ¬ (i.a' < v.next) ∧ ¬ (i.b' < v.next)
    constructor <;> omega

/-- `truncate_node_level_flat_value` with the dimension clause of the identity insertion: the fresh leg `b'` has the
dimension of the end `a` of the cut bond (from `ident_sim_core`), and all clauses the telescope needs -/
theorem lr73_level_flat_full (dim : Nat → Nat) (e : Label → Nat) {n : Id} {ids : TTN.TempIds}
    {kdim : Id → Nat} {pre : List TOp} {t t' : TTN} {g g' : LegMap} {v v' : VNet R} {es : List (Lr54Entry R)}
    (hacc : ∀ op ∈ pre, ∃ id, op = TOp.access id)
    (h : t.WF) (hl : t.LWF) (hv : v.WF) (hs : RSim dim e g t v)
    (hr : Lr54LevelRun dim e n ids kdim pre t g v es t' g' v')
    (hn : n ∈ v.ids) (hc : ∀ x ∈ es, x.c ∈ v.ids) :
    ∃ all : List (Ins Nat R), all.map Ins.Pm = es.map (·.Pi) ∧ all.map Ins.a' = es.map (·.a) ∧
      (∀ i ∈ all, i.b' = i.a' + 1) ∧
      (∀ i ∈ all, DependsOn (fun l => l = i.a' ∨ l = i.b') i.Pm) ∧
      (∀ i ∈ all, v.next ≤ i.a') ∧ all.Pairwise (fun x y => x.a' + 4 ≤ y.a') ∧
      (∀ i ∈ all, i.plain ∈ v.bonds) ∧ (∀ i ∈ all, dim i.b' = dim i.a) ∧
      v.bonds.Perm (lf62Erase v.bonds all ++ all.map Ins.plain) ∧
      (∀ σ, v.value dim σ =
        netValue dim (lf62Erase v.bonds all ++ all.map Ins.plain) (v.ids.map v.tens) σ) ∧
      ∀ σ, v'.value dim σ =
        netValue dim (lf62Erase v.bonds all ++ all.flatMap Ins.cut) (all.map Ins.Pm ++ v.ids.map v.tens) σ := by
  obtain ⟨all, edim, e1, e2, e3, e4, e5, e6, e7, e8, e9, hval⟩ := lf62_level_flat_core dim e hacc h hl hv hs hr
  obtain ⟨horig, hmem⟩ := e9 v.ids v.next (Nat.le_refl _) (fun k hk => ⟨hk, fun l hl' => hv.fresh k hk l hl'⟩) hn hc
  have hperm := lf62Mem_perm all v.bonds hmem
  refine ⟨all, e1, e2, e3, e5, e6, e7, ?_, edim, hperm,
    fun σ => netValue_perm_bonds dim hperm hv.bonds_nodup _ σ, hval (lf62Sep_of_orig all horig e6 e3 e7)⟩
  intro i hi
  rcases e8 i hi with hm | hm | hm
  · exact hm
  · have := (horig i hi).1; omega
  · have := (horig i hi).2; omega

/-- **error identity of one level** (first loop of `truncate_node(n)`): value before − value after = `teleSum` on the
network before the level -/
theorem lr73_level_error (dim : Nat → Nat) (e : Label → Nat) {n : Id} {ids : TTN.TempIds}
    {kdim : Id → Nat} {pre : List TOp} {t t' : TTN} {g g' : LegMap} {v v' : VNet R} {es : List (Lr54Entry R)}
    (hacc : ∀ op ∈ pre, ∃ id, op = TOp.access id)
    (h : t.WF) (hl : t.LWF) (hv : v.WF) (hs : RSim dim e g t v)
    (hr : Lr54LevelRun dim e n ids kdim pre t g v es t' g' v')
    (hn : n ∈ v.ids) (hc : ∀ x ∈ es, x.c ∈ v.ids) :
    ∃ all : List (Ins Nat R), all.map Ins.Pm = es.map (·.Pi) ∧ all.map Ins.a' = es.map (·.a) ∧
      (∀ i ∈ all, i.b' = i.a' + 1) ∧ (∀ i ∈ all, i.plain ∈ v.bonds) ∧ (∀ i ∈ all, dim i.b' = dim i.a) ∧
      ∀ σ, v.value dim σ - v'.value dim σ =
        teleSum dim (lf62Erase v.bonds all) (v.ids.map v.tens) [] all σ := by
  obtain ⟨all, a1, a2, a3, a4, a5, a6, a7, a8, a9, a10, a11⟩ := lr73_level_flat_full dim e hacc h hl hv hs hr hn hc
  refine ⟨all, a1, a2, a3, a7, a8, fun σ => ?_⟩
  rw [a10 σ, a11 σ]
  exact lr73_step_error dim v hv all a3 a4 a5 a6 a9 a8 σ

/-- the error chain of a recursion run: per node step the `teleSum` of its insertion records (on the network BEFORE that
step); the last index is the accumulated total -/
inductive Lr73ErrChain (dim : Nat → Nat) : VNet R → List (Id × Id) → VNet R → (Asg Nat → R) → Prop
  | nil {v v' : VNet R} : (∀ σ, v'.value dim σ = v.value dim σ) → Lr73ErrChain dim v [] v' (fun _ => 0)
  | step {v v2 v' : VNet R} {rest : List (Id × Id)} {E : Asg Nat → R} (all : List (Ins Nat R)) (cs : List Id) (n : Id) :
      all.length = cs.length → (∀ i ∈ all, i.b' = i.a' + 1) → (∀ i ∈ all, i.plain ∈ v.bonds) →
      (∀ i ∈ all, dim i.b' = dim i.a) →
      (∀ σ, v.value dim σ - v2.value dim σ =
        teleSum dim (lf62Erase v.bonds all) (v.ids.map v.tens) [] all σ) →
      Lr73ErrChain dim v2 rest v' E →
      Lr73ErrChain dim v (cs.map (fun c => (n, c)) ++ rest) v'
        (fun σ => teleSum dim (lf62Erase v.bonds all) (v.ids.map v.tens) [] all σ + E σ)

/-- the accumulated total of an error chain IS the total change of the value -/
theorem lr73ErrChain_total {dim : Nat → Nat} {v v' : VNet R} {l : List (Id × Id)} {E : Asg Nat → R}
    (hc : Lr73ErrChain dim v l v' E) : ∀ σ, v.value dim σ - v'.value dim σ = E σ := by
  induction hc with
  | nil h => intro σ; rw [h σ]; simp
  | step all cs n _ _ _ _ hstep _ ih =>
    intro σ
    show _ = _ + _
    rw [← hstep σ, ← ih σ]
    ring

/-- every recursion run has an error chain -/
theorem lr73_rec_error_chain (dim : Nat → Nat) (e : Label → Nat) {ids : TTN.TempIds}
    {kdim : Id → Nat} {t t' : TTN} {g g' : LegMap} {v v' : VNet R} {l : List (Id × Id)}
    (h : t.WF) (hl : t.LWF) (hv : v.WF) (hs : RSim dim e g t v)
    (hr : Lr66RecRun dim e ids kdim t g v l t' g' v') : ∃ E, Lr73ErrChain dim v l v' E := by
  induction hr with
  | nil t g v => exact ⟨_, .nil (fun _ => rfl)⟩
  | @step t t1 t2 t' g g1 g2 g' v v1 v2 v' n node es rest hN hes hlev htail _ ih =>
    obtain ⟨w1, l1, vw1, s1, _, _⟩ := lr54_level_core dim e h hl hv hs hlev
    obtain ⟨_, _, w2, l2, vw2, s2, _, valT⟩ := structural_history_preserves_value dim e w1 l1 vw1 s1 htail
    have hn : n ∈ v.ids := (hs.ids n).2 (by rw [hN]; simp)
    have hc : ∀ x ∈ es, x.c ∈ v.ids := by
      intro x hx
      have hxc : x.c ∈ node.children := by rw [← hes]; exact List.mem_map_of_mem hx
      obtain ⟨cch, e2⟩ := h.str.down n _ _ x.c (TTN.S_eq hN) hxc
      obtain ⟨nd, hnd, _⟩ := TTN.N_of_S e2
      exact (hs.ids x.c).2 (by rw [hnd]; simp)
    obtain ⟨all, a1, _, a3, a7, a8, herr⟩ := lr73_level_error dim e
      (by intro op hop; simp at hop; exact ⟨n, hop⟩) h hl hv hs hlev hn hc
    obtain ⟨E, hE⟩ := ih w2 l2 vw2 s2
    refine ⟨_, .step all node.children n ?_ a3 a7 a8 (fun σ => by rw [valT σ]; exact herr σ) hE⟩
    have e1 := congrArg List.length a1
    have e2 := congrArg List.length hes
    simp only [List.length_map] at e1 e2
    omega

end ring

end Ptn.C10
