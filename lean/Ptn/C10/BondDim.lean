import Ptn.C10.Lemmas
import Ptn.C10.Tree
/-! The kept bond dimension as the selection model produces it (`truncate`, `Model.lean`), for the tree-level
clause "leaves every bond within the maximum".  Core Lean only. -/
namespace Ptn.C10

/-- the new bond dimension: the number of singular values `truncate_singular_values` keeps -/
def keptDim (s : List Rat) (p : Params) : Nat :=
  match truncate s p with
  | some (kept, _) => kept.length
  | none => 0

theorem keptDim_eq (s : List Rat) (p : Params) (hs : s ≠ []) (hnn : NonNeg s) (hd : Desc s) (hp : p.Valid) :
    keptDim s p = keptLen s p hs := by
  unfold keptDim
  rw [truncate_eq s p hs hnn hd hp]
  exact keptOf_length s _ _ (keptLen_bounds s p hs hp).2.1

/-- a kept dimension is at least 1, at most the old dimension, and at most `max_bond_dim` -/
theorem keptDim_bounds (s : List Rat) (p : Params) (hs : s ≠ []) (hnn : NonNeg s) (hd : Desc s)
    (hp : p.Valid) :
    1 ≤ keptDim s p ∧ keptDim s p ≤ s.length ∧ ∀ D, p.maxBond = some D → keptDim s p ≤ D := by
  rw [keptDim_eq s p hs hnn hd hp]
  exact keptLen_bounds s p hs hp

end Ptn.C10
