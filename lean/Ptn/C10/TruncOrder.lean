import Ptn.C10.BondAxes
import Ptn.C10.ValueRun
/-! `truncOrder` (the order in which `truncate_node` cuts the bonds) visits every non-root node of a well-formed
tree exactly once, with the fuel `recursive_truncation` of the model uses. -/
namespace Ptn.C10
open Ptn.C02

theorem SDesc.dp_lt {S : Id → Option Struct} {Tk : Id → Bool} {root : Option Id} (h : SWF S Tk root)
    {dp : Id → Nat} (hd : ∀ k p ch, S k = some (some p, ch) → dp p < dp k) {n c : Id} (hs : SDesc S n c) :
    dp n < dp c := by
  induction hs with
  | child h1 h2 =>
    obtain ⟨cch, e⟩ := h.down _ _ _ _ h1 h2
    exact hd _ _ _ e
  | step h1 h2 _ ih =>
    obtain ⟨cch, e⟩ := h.down _ _ _ _ h1 h2
    exact Nat.lt_trans (hd _ _ _ e) ih

/-- a strict descendant of `n` has a parent, which is `n` or a strict descendant of `n` -/
theorem SDesc.parent_cases {S : Id → Option Struct} {Tk : Id → Bool} {root : Option Id} (h : SWF S Tk root)
    {n c : Id} (hs : SDesc S n c) : ∃ p cch, S c = some (some p, cch) ∧ (p = n ∨ SDesc S n p) := by
  induction hs with
  | child h1 h2 =>
    obtain ⟨cch, e⟩ := h.down _ _ _ _ h1 h2
    exact ⟨_, cch, e, Or.inl rfl⟩
  | step h1 h2 _ ih =>
    obtain ⟨p, cch, e, hp⟩ := ih
    refine ⟨p, cch, e, Or.inr ?_⟩
    rcases hp with rfl | hp
    · exact SDesc.child h1 h2
    · exact SDesc.step h1 h2 hp

/-- two different children of one node have no common strict descendant, and no child is a strict descendant of
    another child or of itself -/
theorem sdesc_disjoint {S : Id → Option Struct} {Tk : Id → Bool} {root : Option Id} (h : SWF S Tk root)
    {n : Id} {pp : Option Id} {cs : List Id} (hn : S n = some (pp, cs)) :
    (∀ ci cj c, ci ∈ cs → cj ∈ cs → ci ≠ cj → SDesc S ci c → SDesc S cj c → False) ∧
    (∀ ci cj, ci ∈ cs → cj ∈ cs → SDesc S ci cj → False) := by
  obtain ⟨dp, hd⟩ := h.depth
  have second : ∀ ci cj, ci ∈ cs → cj ∈ cs → SDesc S ci cj → False := by
    intro ci cj hi hj hs
    obtain ⟨p, cch, e, hp⟩ := hs.parent_cases h
    obtain ⟨cch', e'⟩ := h.down _ _ _ _ hn hj
    rw [e'] at e; simp at e
    obtain ⟨cci, ei⟩ := h.down _ _ _ _ hn hi
    rcases hp with hp | hp
    · rw [← e.1] at hp; rw [← hp] at ei; exact h.parent_ne ei rfl
    · rw [← e.1] at hp
      have := hp.dp_lt h hd
      have := hd _ _ _ ei
      omega
  refine ⟨?_, second⟩
  have main : ∀ m ci cj c, dp c = m → ci ∈ cs → cj ∈ cs → ci ≠ cj → SDesc S ci c → SDesc S cj c → False := by
    intro m
    induction m using Nat.strongRecOn with
    | _ m ih =>
      intro ci cj c hm hi hj hne h1 h2
      obtain ⟨p1, cch1, e1, hp1⟩ := h1.parent_cases h
      obtain ⟨p2, cch2, e2, hp2⟩ := h2.parent_cases h
      rw [e1] at e2; simp at e2
      have hp2' : p1 = cj ∨ SDesc S cj p1 := by rw [e2.1]; exact hp2
      have hlt := hd _ _ _ e1
      rcases hp1 with a | a <;> rcases hp2' with b | b
      · exact hne (a.symm.trans b)
      · rw [a] at b; exact second cj ci hj hi b
      · rw [b] at a; exact second ci cj hi hj a
      · exact ih (dp p1) (by omega) ci cj p1 rfl hi hj hne a b
  intro ci cj c
  exact main (dp c) ci cj c rfl

theorem truncOrder_succ (S : Id → Option Struct) (fuel : Nat) (n : Id) (pp : Option Id) (cs : List Id)
    (hn : S n = some (pp, cs)) :
    (truncOrder S (fuel + 1) n).map Prod.snd = cs ++ cs.flatMap (fun c => (truncOrder S fuel c).map Prod.snd) := by
  simp only [truncOrder, hn, List.map_append, List.map_map, List.map_flatMap]
  congr 1
  induction cs with
  | nil => rfl
  | cons c cs ih => simp

/-- every pair of `truncOrder` is a (parent, child) pair, and the child is a strict descendant of the start -/
theorem truncOrder_sound {S : Id → Option Struct} :
    ∀ (fuel : Nat) (n p c : Id), (p, c) ∈ truncOrder S fuel n →
      SDesc S n c ∧ ∃ pp pch, S p = some (pp, pch) ∧ c ∈ pch := by
  intro fuel
  induction fuel with
  | zero => intro n p c hm; simp [truncOrder] at hm
  | succ fuel ih =>
    intro n p c hm
    cases hn : S n with
    | none => simp [truncOrder, hn] at hm
    | some st =>
      obtain ⟨pp, cs⟩ := st
      simp only [truncOrder, hn, List.mem_append, List.mem_map, List.mem_flatMap] at hm
      rcases hm with ⟨c', hc', e⟩ | ⟨ci, hci, hm⟩
      · simp only [Prod.mk.injEq] at e
        obtain ⟨rfl, rfl⟩ := e
        exact ⟨SDesc.child hn hc', pp, cs, hn, hc'⟩
      · obtain ⟨hd, hp⟩ := ih ci p c hm
        exact ⟨SDesc.step hn hci hd, hp⟩

theorem nodup_flatMap_of {α β : Type} (g : α → List β) : ∀ (l : List α), l.Nodup → (∀ a ∈ l, (g a).Nodup) →
    (∀ a ∈ l, ∀ b ∈ l, a ≠ b → ∀ x ∈ g a, x ∉ g b) → (l.flatMap g).Nodup := by
  intro l
  induction l with
  | nil => intro _ _ _; simp
  | cons a l ih =>
    intro hnd h1 h2
    rw [List.flatMap_cons, List.nodup_append]
    have hnd' := List.nodup_cons.mp hnd
    refine ⟨h1 a (by simp), ih hnd'.2 (fun b hb => h1 b (by simp [hb]))
      (fun b hb c hc hne => h2 b (by simp [hb]) c (by simp [hc]) hne), ?_⟩
    intro x hx y hy e
    subst e
    obtain ⟨b, hb, hxb⟩ := List.mem_flatMap.mp hy
    have hab : a ≠ b := fun e => hnd'.1 (e ▸ hb)
    exact h2 a (by simp) b (by simp [hb]) hab x hx hxb

/-- no node is visited twice -/
theorem truncOrder_nodup {S : Id → Option Struct} {Tk : Id → Bool} {root : Option Id} (h : SWF S Tk root) :
    ∀ (fuel : Nat) (n : Id), ((truncOrder S fuel n).map Prod.snd).Nodup := by
  intro fuel
  induction fuel with
  | zero => intro n; simp [truncOrder]
  | succ fuel ih =>
    intro n
    cases hn : S n with
    | none => simp [truncOrder, hn]
    | some st =>
      obtain ⟨pp, cs⟩ := st
      rw [truncOrder_succ S fuel n pp cs hn, List.nodup_append]
      obtain ⟨d1, d2⟩ := sdesc_disjoint h hn
      have snd_desc : ∀ ci x, x ∈ (truncOrder S fuel ci).map Prod.snd → SDesc S ci x := by
        intro ci x hx
        obtain ⟨⟨p, c⟩, hm, e⟩ := List.mem_map.mp hx
        simp at e; subst e
        exact (truncOrder_sound fuel ci p c hm).1
      refine ⟨h.nodup n pp cs hn, ?_, ?_⟩
      · apply nodup_flatMap_of _ cs (h.nodup n pp cs hn) (fun c _ => ih c)
        intro a ha b hb hne x hxa hxb
        exact d1 a b x ha hb hne (snd_desc a x hxa) (snd_desc b x hxb)
      · intro x hx y hy e
        subst e
        obtain ⟨ci, hci, hxi⟩ := List.mem_flatMap.mp hy
        exact d2 ci x hci hx (snd_desc ci x hxi)

/-- with enough fuel every strict descendant is visited: `anc` are the proper ancestors of `n` already on the
    call stack (distinct nodes), and the stack can never be longer than the node dictionary -/
theorem truncOrder_complete {t : TTN} (h : t.WF) {dp : Id → Nat}
    (hd : ∀ k p ch, t.S k = some (some p, ch) → dp p < dp k) :
    ∀ (fuel : Nat) (n : Id) (anc : List Id), t.N n ≠ none → (∀ x ∈ anc, t.N x ≠ none) → anc.Nodup →
      (∀ x ∈ anc, dp x < dp n) → t.nodes.length + 1 ≤ anc.length + fuel →
      ∀ c, SDesc t.S n c → c ∈ (truncOrder t.S fuel n).map Prod.snd := by
  have keys : ∀ x, t.N x ≠ none → x ∈ t.nodes.map Prod.fst := by
    intro x hx
    cases hg : dget t.nodes x with
    | none => exact absurd hg hx
    | some v => exact (dhas_eq_mem_keys t.nodes x).mp (dhas_of_dget hg)
  intro fuel
  induction fuel with
  | zero =>
    intro n anc hn hanc hnd hdp hlen c _
    exfalso
    have hnd' : (n :: anc).Nodup := List.nodup_cons.mpr ⟨fun hm => Nat.lt_irrefl _ (hdp n hm), hnd⟩
    have hsub : (n :: anc) ⊆ t.nodes.map Prod.fst := by
      intro x hx
      rcases List.mem_cons.mp hx with rfl | hx
      · exact keys _ hn
      · exact keys _ (hanc x hx)
    have := List.Nodup.length_le_of_subset hnd' hsub
    simp at this
    omega
  | succ fuel ih =>
    intro n anc hn hanc hnd hdp hlen c hc
    cases hSn : t.S n with
    | none => exact absurd (N_none_of_S hSn) hn
    | some st =>
      obtain ⟨pp, cs⟩ := st
      rw [truncOrder_succ t.S fuel n pp cs hSn, List.mem_append]
      rcases hc.inv hSn with hc | ⟨ci, hci, hdi⟩
      · exact Or.inl hc
      · right
        rw [List.mem_flatMap]
        refine ⟨ci, hci, ?_⟩
        obtain ⟨cch, eci⟩ := h.str.down n _ _ ci hSn hci
        have hlt := hd _ _ _ eci
        refine ih ci (n :: anc) ?_ ?_ ?_ ?_ ?_ c hdi
        · intro e; rw [S_none_of_N e] at eci; simp at eci
        · intro x hx
          rcases List.mem_cons.mp hx with rfl | hx
          · exact hn
          · exact hanc x hx
        · exact List.nodup_cons.mpr ⟨fun hm => Nat.lt_irrefl _ (hdp n hm), hnd⟩
        · intro x hx
          rcases List.mem_cons.mp hx with rfl | hx
          · exact hlt
          · exact Nat.lt_trans (hdp x hx) hlt
        · simp only [List.length_cons]; omega

end Ptn.C10
