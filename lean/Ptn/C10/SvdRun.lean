import Ptn.C10.BondLocalCS
import Ptn.C10.SvdCover
/-! A run of `svd_truncation` on the C02 structural model WITHOUT the locality assumption of `SvdSweep`: the only
premises per event are that the temporary identifier is unused (`uuid1`), that a QR move does not exceed the dimension
of the bond it crosses, and that a cut keeps at most `D` (`keptDim_bounds`).  Locality (`BondLocal`) is a theorem
(`bl37_centre_move_bond_local`, `bl37_contract_split_bond_local`), so every such run is an `SvdSweep`. -/
namespace Ptn.C10
open Ptn.C02

inductive SvdRun (D : Nat) : TTN → List TdvpEvent → TTN → Prop
  | nil (t : TTN) : SvdRun D t [] t
  | move {t t1 t' : TTN} {a b rid : Id} {bd : Nat} {es : List TdvpEvent} :
      t.N rid = none → t.centreMove a b rid bd = some t1 →
      (∃ ax, t.Leg a b ax ∧ t.Leg b a ax ∧ bd ≤ ax.dim) →
      SvdRun D t1 es t' → SvdRun D t (.move a b rid bd :: es) t'
  | cut {t t1 t' : TTN} {a b cid : Id} {bd : Nat} {es : List TdvpEvent} :
      t.N cid = none → t.contractSplit a b cid bd = some t1 → bd ≤ D →
      SvdRun D t1 es t' → SvdRun D t (.contractSplit a b cid bd :: es) t'

theorem svdRun_sweep {D : Nat} {t t' : TTN} {es : List TdvpEvent} (r : SvdRun D t es t') :
    t.WF → SvdSweep D t es t' := by
  induction r with
  | nil t => intro _; exact .nil t
  | move hf hm hq _ ih =>
    intro h
    exact .move hm (bl37_centre_move_bond_local h hf hm) hq (ih (centre_move_full (TTN.WFX.ofWF h) hf hm).1.wf)
  | cut hf hm hd _ ih =>
    intro h
    exact .cut hm (bl37_contract_split_bond_local h hf hm) hd
      (ih (contract_split_full (TTN.WFX.ofWF h) hf hm).1.wf)

end Ptn.C10
