import Ptn.C10.LegPush
import Ptn.C10.TruncSteps
/-! # Which axis every bond carries after `truncate_node` / `recursive_truncation` (structural model of C02)

The structure theorems (`Ptn/C02/TruncWF.lean`, `Ptn/C10/Tree.lean`) say that `recursive_truncation` restores the
tree exactly and that every node keeps its open axes.  Here the virtual axes are followed: after
`truncate_node(n)` the leg of every child `c` of `n` towards `n` is the fresh axis made by `split_nodes` for the
projector pair of `c`, whose dimension is the kept dimension `kdim c`; the parent leg of every other node is the
axis it was.  With the recursion: after `recursive_truncation` the bond above EVERY non-root node `c` has
dimension `kdim c` (`recursive_truncation_bond_axes`, in `Props.lean`).  Core Lean only. -/
namespace Ptn.C10
open Ptn.C02

/-! ### the three loop bodies of `truncate_node`, at the level of legs -/

/-- One iteration of the first loop (`insert_identity` + `split_node_replace`): the projector `proj c` is joined to
    its conjugate `star c` by a fresh axis of dimension `k`; every leg that is not an end of the bond `c – n`
    stays where it is. -/
theorem leg_step1 {t t' : TTN} {n c : Id} {ids : TTN.TempIds} {k : Nat}
    {gp : Option Id} {L cch : List Id}
    (h : t.WF) (hN : t.S n = some (gp, L)) (hC : t.S c = some (some n, cch))
    (hi : t.S (ids.ident c) = none) (hs : t.S (ids.star c) = none) (hp : t.S (ids.proj c) = none)
    (his : ids.ident c ≠ ids.star c) (hip : ids.ident c ≠ ids.proj c)
    (hrun : (do let (t0, _) ← t.access n; TTN.insertProjectors t0 n c ids k) = some t') :
    (∃ ax, t'.Leg (ids.proj c) (ids.star c) ax ∧ ax.dim = k) ∧
    (∀ k' x ax, t.Leg k' x ax → ¬ ((k' = c ∧ x = n) ∨ (k' = n ∧ x = c)) → t'.Leg k' x ax) := by
  simp only [bind, Option.bind] at hrun
  cases hacc : t.access n with
  | none => simp [hacc] at hrun
  | some r =>
    obtain ⟨t0, T⟩ := r
    simp only [hacc] at hrun
    have w0 := access_wf h hacc
    obtain ⟨S0e, R0⟩ := access_S_eq hacc
    unfold TTN.insertProjectors at hrun
    simp only [bind, Option.bind] at hrun
    cases hins : t0.insertIdentity c n (ids.ident c) with
    | none => simp [hins] at hrun
    | some t1 =>
      simp only [hins] at hrun
      have hnew : t0.N (ids.ident c) = none := N_none_of_S (by rw [S0e]; exact hi)
      have w1 := insert_identity_wf_aux w0 hnew hins
      obtain ⟨cch', pp, pch, e1, e2, S1, R1⟩ := ident_S_eq w0 hnew hins
      rw [S0e, hC] at e1; rw [S0e, hN] at e2
      simp at e1 e2
      obtain ⟨rfl, rfl⟩ := e2
      subst e1
      rw [S0e] at S1
      have e_i : t1.S (ids.ident c) = some (some n, [c]) := by rw [S1]; simp [subdivideS]
      obtain ⟨X, hX, eX⟩ := TTN.N_of_S e_i
      simp only [Prod.mk.injEq] at eX
      have e_s : t1.N (ids.star c) = none := N_none_of_S (by
        rw [S1]
        have a1 : ¬ ids.star c = ids.ident c := fun e => his e.symm
        have a2 : ¬ ids.star c = c := by intro e; rw [e, hC] at hs; simp at hs
        have a3 : ¬ ids.star c = n := by intro e; rw [e, hN] at hs; simp at hs
        simp [subdivideS, a1, a2, a3, hs])
      have e_p : t1.N (ids.proj c) = none := N_none_of_S (by
        rw [S1]
        have a1 : ¬ ids.proj c = ids.ident c := fun e => hip e.symm
        have a2 : ¬ ids.proj c = c := by intro e; rw [e, hC] at hp; simp at hp
        have a3 : ¬ ids.proj c = n := by intro e; rw [e, hN] at hp; simp at hp
        simp [subdivideS, a1, a2, a3, hp])
      have adm : SplitAdm t1 (ids.ident c) X ⟨some n, [], [], false⟩ ⟨none, [c], [], false⟩
          (ids.star c) (ids.proj c) := by
        refine ⟨hX, Or.inr e_s, Or.inr e_p, by rw [← eX.2]; simp, ?_⟩
        exact Or.inl ⟨n, eX.1.symm, rfl, rfl, Or.inl ⟨rfl, rfl⟩⟩
      constructor
      · exact ⟨_, (split_push_fresh w1 adm hrun).2, rfl⟩
      · intro k' x ax hl hne
        have l0 := access_push hacc hl
        have l1 := ident_push w0 hnew hins l0 hne
        have hk' : k' ≠ ids.ident c := by
          intro e; rw [e] at l0; exact leg_isNode l0 hnew
        have hx : x ≠ ids.ident c := by
          intro e; rw [e] at l0; exact leg_target_isNode w0 l0 hnew
        exact split_push_other w1 adm hrun l1 hk' hx

/-- One iteration of `contract_all_children(n)`: the conjugate `s` is merged into `n`; legs that pointed to `s`
    point to `n`, the other legs stay. -/
theorem leg_step2 {t t' : TTN} {n s : Id} (h : t.WF) (hc : t.contractNodes n s n = some t') :
    (∀ k x ax, t.Leg k x ax → k ≠ s → x ≠ s → t'.Leg k x ax) ∧
    (∀ k ax, t.Leg k s ax → k ≠ n → t'.Leg k n ax) := by
  have hnew : n = n ∨ n = s ∨ t.N n = none := Or.inl rfl
  constructor
  · intro k x ax hl hk hx
    by_cases hkn : k = n
    · subst hkn
      exact contract_push_new h hnew hc (Or.inl ⟨hl, hx⟩)
    · have := contract_push_other h hnew hc hl hkn hk
      by_cases hxn : x = n
      · simpa [hxn] using this
      · simpa [hxn, hx] using this
  · intro k ax hl hk
    have hks : k ≠ s := leg_ne h hl
    have := contract_push_other h hnew hc hl hk hks
    simpa using this

/-- One iteration of the last loop: the projector `p` is merged into the original child `c`; the legs of `p`
    become legs of `c`, the other legs stay. -/
theorem leg_step3 {t t' : TTN} {p c : Id} (h : t.WF) (hc : t.contractNodes p c c = some t') :
    (∀ k x ax, t.Leg k x ax → k ≠ p → x ≠ p → t'.Leg k x ax) ∧
    (∀ x ax, t.Leg p x ax → x ≠ c → t'.Leg c x ax) := by
  have hnew : c = p ∨ c = c ∨ t.N c = none := Or.inr (Or.inl rfl)
  constructor
  · intro k x ax hl hk1 hx
    by_cases hk2 : k = c
    · subst hk2
      exact contract_push_new h hnew hc (Or.inr ⟨hl, hx⟩)
    · have := contract_push_other h hnew hc hl hk1 hk2
      by_cases hxc : x = c
      · simpa [hxc] using this
      · simpa [hxc, hx] using this
  · intro x ax hl hx
    exact contract_push_new h hnew hc (Or.inl ⟨hl, hx⟩)

/-! ### the three loops -/

/-- the legs of the network `t0` at the start of `truncate_node(n)` that are not an end of a bond `n – c`, `c` a
    child of `n`, are legs of `t` -/
def KeepLegs (t0 t : TTN) (n : Id) (cs : List Id) : Prop :=
  ∀ k x ax, t0.Leg k x ax → ¬ ((k ∈ cs ∧ x = n) ∨ (k = n ∧ x ∈ cs)) → t.Leg k x ax

/-- the leg of `a c` towards `b c` has dimension `kdim c`, for every `c` of the list -/
def DimLegs (t : TTN) (kdim : Id → Nat) (a b : Id → Id) (l : List Id) : Prop :=
  ∀ c ∈ l, ∃ ax, t.Leg (a c) (b c) ax ∧ ax.dim = kdim c

theorem DimLegs.nil {t : TTN} {kdim : Id → Nat} {a b : Id → Id} : DimLegs t kdim a b [] := by
  intro c hc; simp at hc

theorem loop1_legs {P : Prop} {O : Id → List Axis} {t0 : TTN} {ids : TTN.TempIds} {n : Id}
    {gp : Option Id} {cs : List Id}
    (X : TruncCtx t0.S ids n gp cs) (kdim : Id → Nat) :
    ∀ (R D : List Id) (t t' : TTN), cs = D ++ R → t.WFX P O → Inv1 t0.S t.S ids n gp D R →
      KeepLegs t0 t n cs → DimLegs t kdim ids.proj ids.star D →
      TTN.truncLoop1 t n ids kdim R = some t' →
      t'.WFX P O ∧ t'.root = t.root ∧ Inv1 t0.S t'.S ids n gp cs [] ∧
      KeepLegs t0 t' n cs ∧ DimLegs t' kdim ids.proj ids.star cs := by
  intro R
  induction R with
  | nil =>
    intro D t t' hcs w inv hk hd hrun
    simp [TTN.truncLoop1] at hrun
    subst hrun
    have : cs = D := by simpa using hcs
    subst this
    exact ⟨w, rfl, inv, hk, hd⟩
  | cons c R ih =>
    intro D t t' hcs w inv hk hd hrun
    unfold TTN.truncLoop1 at hrun
    rw [List.foldlM_cons] at hrun
    cases hstep : (do let (t0, _) ← t.access n; TTN.insertProjectors t0 n c ids (kdim c)) with
    | none => simp only [hstep] at hrun; simp [bind, Option.bind] at hrun
    | some t1 =>
      simp only [hstep] at hrun
      have hrun' : TTN.truncLoop1 t1 n ids kdim R = some t' := by
        simpa [TTN.truncLoop1, bind, Option.bind] using hrun
      have hc_mem : c ∈ cs := by rw [hcs]; simp
      obtain ⟨w1, R1, inv1, ⟨cch, hSc⟩, hSi, hSs, hSp⟩ := loop1_step X hcs w inv hstep
      obtain ⟨lf, lo⟩ := leg_step1 w.wf inv.n_ hSc hSi hSs hSp (X.ok.is_ c c) (X.ok.ip c c) hstep
      have hk1 : KeepLegs t0 t1 n cs := by
        intro k x ax hl hne
        refine lo k x ax (hk k x ax hl hne) ?_
        rintro (⟨e1, e2⟩ | ⟨e1, e2⟩)
        · exact hne (Or.inl ⟨e1 ▸ hc_mem, e2⟩)
        · exact hne (Or.inr ⟨e1, e2 ▸ hc_mem⟩)
      have hd1 : DimLegs t1 kdim ids.proj ids.star (D ++ [c]) := by
        intro d hdm
        rcases List.mem_append.mp hdm with hdm | hdm
        · obtain ⟨ax, l, e⟩ := hd d hdm
          refine ⟨ax, lo _ _ _ l ?_, e⟩
          rintro (⟨e1, _⟩ | ⟨e1, _⟩)
          · exact X.child_ne_proj hc_mem d e1.symm
          · exact X.node_ne_proj X.hn d e1.symm
        · simp at hdm; subst hdm; exact lf
      obtain ⟨w', R', I', K', D'⟩ := ih (D ++ [c]) t1 t' (by rw [hcs]; simp) w1 inv1 hk1 hd1 hrun'
      exact ⟨w', R'.trans R1, I', K', D'⟩

theorem ne_fresh {t0 : TTN} {k f : Id} (hk : t0.N k ≠ none) (hf : t0.S f = none) : k ≠ f := by
  intro e; subst e; exact hk (N_none_of_S hf)

theorem loop2_legs {P : Prop} {O : Id → List Axis} {t0 : TTN} {ids : TTN.TempIds} {n : Id}
    {gp : Option Id} {cs : List Id} (h0 : t0.WF)
    (X : TruncCtx t0.S ids n gp cs) (hO : P → ∀ k, t0.S k = none → O k = []) (kdim : Id → Nat) :
    ∀ (F E : List Id) (t t' : TTN), cs = E ++ F → t.WFX P O → Inv2 t0.S t.S ids n gp cs E F →
      KeepLegs t0 t n cs → DimLegs t kdim ids.proj ids.star F → DimLegs t kdim ids.proj (fun _ => n) E →
      (F.map ids.star).foldlM (fun (t : TTN) s => t.contractNodes n s n) t = some t' →
      t'.WFX P O ∧ t'.root = t.root ∧ Inv2 t0.S t'.S ids n gp cs cs [] ∧
      KeepLegs t0 t' n cs ∧ DimLegs t' kdim ids.proj (fun _ => n) cs := by
  intro F
  induction F with
  | nil =>
    intro E t t' hcs w inv hk _ hd hrun
    simp at hrun; subst hrun
    have : cs = E := by simpa using hcs
    subst this
    exact ⟨w, rfl, inv, hk, hd⟩
  | cons c F ih =>
    intro E t t' hcs w inv hk hdF hdE hrun
    rw [List.map_cons, List.foldlM_cons] at hrun
    cases hstep : t.contractNodes n (ids.star c) n with
    | none => simp [hstep, bind, Option.bind] at hrun
    | some t1 =>
      simp only [hstep, bind, Option.bind] at hrun
      have hc_mem : c ∈ cs := by rw [hcs]; simp
      have hnd := X.nd
      rw [hcs] at hnd
      have hcF : c ∉ F := (List.nodup_cons.mp (List.nodup_append.mp hnd).2.1).1
      obtain ⟨w1, R1, inv1⟩ := loop2_step X hO hcs w inv hstep
      obtain ⟨lo, ls⟩ := leg_step2 w.wf hstep
      have hps : ∀ d, ids.proj d ≠ ids.star c := fun d e => X.ok.sp c d e.symm
      have hns : n ≠ ids.star c := X.node_ne_star X.hn c
      have hk1 : KeepLegs t0 t1 n cs := by
        intro k x ax hl hne
        exact lo k x ax (hk k x ax hl hne) (ne_fresh (leg_isNode hl) (X.ok.fs c))
          (ne_fresh (leg_target_isNode h0 hl) (X.ok.fs c))
      have hdF1 : DimLegs t1 kdim ids.proj ids.star F := by
        intro d hdm
        obtain ⟨ax, l, e⟩ := hdF d (by simp [hdm])
        exact ⟨ax, lo _ _ _ l (hps d) (fun e' => hcF (X.ok.sinj _ _ e' ▸ hdm)), e⟩
      have hdE1 : DimLegs t1 kdim ids.proj (fun _ => n) (E ++ [c]) := by
        intro d hdm
        rcases List.mem_append.mp hdm with hdm | hdm
        · obtain ⟨ax, l, e⟩ := hdE d hdm
          exact ⟨ax, lo _ _ _ l (hps d) hns, e⟩
        · simp at hdm; subst hdm
          obtain ⟨ax, l, e⟩ := hdF d (by simp)
          exact ⟨ax, ls _ _ l (fun e' => X.node_ne_proj X.hn d e'.symm), e⟩
      obtain ⟨w', R', I', K', D'⟩ := ih (E ++ [c]) t1 t' (by rw [hcs]; simp) w1 inv1 hk1 hdF1 hdE1 hrun
      exact ⟨w', R'.trans R1, I', K', D'⟩

theorem loop3_legs {P : Prop} {O : Id → List Axis} {t0 : TTN} {ids : TTN.TempIds} {n : Id}
    {gp : Option Id} {cs : List Id} (h0 : t0.WF)
    (X : TruncCtx t0.S ids n gp cs) (hO : P → ∀ k, t0.S k = none → O k = []) (kdim : Id → Nat) :
    ∀ (H G : List Id) (t t' : TTN), cs = G ++ H → t.WFX P O → Inv3 t0.S t.S ids n gp cs G H →
      KeepLegs t0 t n cs → DimLegs t kdim ids.proj (fun _ => n) H → DimLegs t kdim id (fun _ => n) G →
      TTN.truncLoop3 t (H.map ids.proj) = some t' →
      t'.WFX P O ∧ t'.root = t.root ∧ Inv3 t0.S t'.S ids n gp cs cs [] ∧
      KeepLegs t0 t' n cs ∧ DimLegs t' kdim id (fun _ => n) cs := by
  intro H
  induction H with
  | nil =>
    intro G t t' hcs w inv hk _ hd hrun
    simp [TTN.truncLoop3] at hrun; subst hrun
    have : cs = G := by simpa using hcs
    subst this
    exact ⟨w, rfl, inv, hk, hd⟩
  | cons c H ih =>
    intro G t t' hcs w inv hk hdH hdG hrun
    unfold TTN.truncLoop3 at hrun
    rw [List.map_cons, List.foldlM_cons] at hrun
    have hc_mem : c ∈ cs := by rw [hcs]; simp
    have hnd := X.nd
    rw [hcs] at hnd
    have hcH : c ∉ H := (List.nodup_cons.mp (List.nodup_append.mp hnd).2.1).1
    obtain ⟨hbody, hnext⟩ := loop3_step X hO hcs w inv
    rw [hbody] at hrun
    cases hstep : t.contractNodes (ids.proj c) c c with
    | none => simp [hstep, bind, Option.bind] at hrun
    | some t1 =>
      simp only [hstep, bind, Option.bind] at hrun
      have hrun' : TTN.truncLoop3 t1 (H.map ids.proj) = some t' := hrun
      obtain ⟨w1, R1, inv1⟩ := hnext t1 hstep
      obtain ⟨lo, lp⟩ := leg_step3 w.wf hstep
      have hnp : n ≠ ids.proj c := X.node_ne_proj X.hn c
      have hk1 : KeepLegs t0 t1 n cs := by
        intro k x ax hl hne
        exact lo k x ax (hk k x ax hl hne) (ne_fresh (leg_isNode hl) (X.ok.fp c))
          (ne_fresh (leg_target_isNode h0 hl) (X.ok.fp c))
      have hdH1 : DimLegs t1 kdim ids.proj (fun _ => n) H := by
        intro d hdm
        obtain ⟨ax, l, e⟩ := hdH d (by simp [hdm])
        exact ⟨ax, lo _ _ _ l (fun e' => hcH (X.ok.pinj _ _ e' ▸ hdm)) hnp, e⟩
      have hdG1 : DimLegs t1 kdim id (fun _ => n) (G ++ [c]) := by
        intro d hdm
        rcases List.mem_append.mp hdm with hdm | hdm
        · obtain ⟨ax, l, e⟩ := hdG d hdm
          have hdcs : d ∈ cs := by rw [hcs]; simp [hdm]
          exact ⟨ax, lo _ _ _ l (X.child_ne_proj hdcs c) hnp, e⟩
        · simp at hdm; subst hdm
          obtain ⟨ax, l, e⟩ := hdH d (by simp)
          exact ⟨ax, lp _ _ l (fun e' => X.ne d hc_mem e'.symm), e⟩
      obtain ⟨w', R', I', K', D'⟩ := ih (G ++ [c]) t1 t' (by rw [hcs]; simp) w1 inv1 hk1 hdH1 hdG1 hrun'
      exact ⟨w', R'.trans R1, I', K', D'⟩

/-- **One `truncate_node(n)` without the recursive calls, at the level of legs**: the structure is restored, the
    leg of every child `c` of `n` towards `n` has dimension `kdim c`, and every leg of the network that is not an
    end of such a bond is the axis it was. -/
theorem truncate_step_legs {P : Prop} {O : Id → List Axis} {t t' : TTN} {n : Id} {ids : TTN.TempIds}
    {kdim : Id → Nat} (hx : t.WFX P O) (hO : P → ∀ k, t.S k = none → O k = [])
    (hok : TempOK t.S ids) (hs : t.truncateNodeStep n ids kdim = some t') :
    t'.WFX P O ∧ t'.root = t.root ∧ t'.S = t.S ∧
    ∃ Nn, t.N n = some Nn ∧ KeepLegs t t' n Nn.children ∧ DimLegs t' kdim id (fun _ => n) Nn.children := by
  have h := hx.wf
  unfold TTN.truncateNodeStep at hs
  cases hN : dget t.nodes n with
  | none => simp [hN, bind, Option.bind] at hs
  | some Nn =>
    have hNn : t.N n = some Nn := hN
    simp only [hN, bind, Option.bind] at hs
    have X : TruncCtx t.S ids n Nn.parent Nn.children := by
      refine ⟨hok, TTN.S_eq hNn, h.str.nodup n _ _ (TTN.S_eq hNn), ?_, ?_⟩
      · intro c hc
        obtain ⟨cch, e⟩ := h.str.down n _ _ c (TTN.S_eq hNn) hc
        exact ⟨cch, e⟩
      · intro c hc e
        obtain ⟨cch, e2⟩ := h.str.down n _ _ c (TTN.S_eq hNn) hc
        rw [e] at e2
        exact h.str.parent_ne e2 rfl
    cases h1 : TTN.truncLoop1 t n ids kdim Nn.children with
    | none => simp [h1] at hs
    | some t1 =>
      simp only [h1] at hs
      have inv0 : Inv1 t.S t.S ids n Nn.parent [] Nn.children :=
        ⟨by simpa using TTN.S_eq hNn, by simp, by simp, by simp, fun _ _ _ _ => rfl⟩
      have k0 : KeepLegs t t n Nn.children := fun _ _ _ hl _ => hl
      obtain ⟨w1, R1, I1, K1, D1⟩ := loop1_legs X kdim Nn.children [] t t1 (by simp) hx inv0 k0 DimLegs.nil h1
      have I2 := inv2_of_inv1 I1
      cases h2 : t1.contractAllChildren n n with
      | none => simp [h2] at hs
      | some t2 =>
        simp only [h2] at hs
        unfold TTN.contractAllChildren at h2
        obtain ⟨N1, hN1, e1⟩ := TTN.N_of_S I2.n_
        simp only [Prod.mk.injEq] at e1
        have hN1' : dget t1.nodes n = some N1 := hN1
        simp only [hN1', bind, Option.bind] at h2
        have hch1 : N1.children = Nn.children.map ids.star := by rw [← e1.2]; simp
        rw [hch1] at h2
        obtain ⟨w2, R2, I2', K2, D2⟩ :=
          loop2_legs h X hO kdim Nn.children [] t1 t2 (by simp) w1 I2 K1 D1 DimLegs.nil h2
        have I3 := inv3_of_inv2 I2'
        obtain ⟨N2, hN2, e2⟩ := TTN.N_of_S I3.n_
        simp only [Prod.mk.injEq] at e2
        have hN2' : dget t2.nodes n = some N2 := hN2
        simp only [hN2'] at hs
        have hch2 : N2.children = Nn.children.map ids.proj := by rw [← e2.2]; simp
        rw [hch2] at hs
        obtain ⟨w3, R3, I3', K3, D3⟩ :=
          loop3_legs h X hO kdim Nn.children [] t2 t' (by simp) w2 I3 K2 D2 DimLegs.nil hs
        exact ⟨w3, R3.trans (R2.trans R1), final_of_inv3 X I3', Nn, hNn, K3, D3⟩

/-! ### the recursion -/

/-- `c` is a strict descendant of `n` (through the children lists of the structure map `S`) -/
inductive SDesc (S : Id → Option Struct) : Id → Id → Prop
  | child {n c : Id} {pp : Option Id} {cs : List Id} : S n = some (pp, cs) → c ∈ cs → SDesc S n c
  | step {n ci c : Id} {pp : Option Id} {cs : List Id} : S n = some (pp, cs) → ci ∈ cs → SDesc S ci c → SDesc S n c

theorem SDesc.inv {S : Id → Option Struct} {n c : Id} {pp : Option Id} {cs : List Id} (hS : S n = some (pp, cs))
    (h : SDesc S n c) : c ∈ cs ∨ ∃ ci ∈ cs, SDesc S ci c := by
  cases h with
  | child h1 h2 => rw [hS] at h1; simp at h1; rw [h1.2]; exact Or.inl h2
  | step h1 h2 h3 => rw [hS] at h1; simp at h1; rw [h1.2]; exact Or.inr ⟨_, h2, h3⟩

/-- the parent leg of every node of the set `A` has its kept dimension -/
def GoodOn (t0 t : TTN) (kdim : Id → Nat) (A : Id → Prop) : Prop :=
  ∀ c p cch, t0.S c = some (some p, cch) → A c → ∃ ax, t.Leg c p ax ∧ ax.dim = kdim c

/-- the parent leg of every node outside the set `A` is the axis it was -/
def SameOff (t0 t : TTN) (A : Id → Prop) : Prop :=
  ∀ c p cch ax, t0.S c = some (some p, cch) → ¬ A c → t0.Leg c p ax → t.Leg c p ax

/-- **`truncate_node(n)` with the recursion, at the level of legs**: the structure is restored; the leg towards
    its parent of EVERY strict descendant `c` of `n` has dimension `kdim c`; the parent leg of every other node is
    the axis it was. -/
theorem truncate_node_legs {P : Prop} {O : Id → List Axis} {ids : TTN.TempIds} {kdim : Id → Nat} :
    ∀ (fuel : Nat) (t t' : TTN) (n : Id), t.WFX P O → (P → ∀ k, t.S k = none → O k = []) → TempOK t.S ids →
      TTN.truncateNode fuel t n ids kdim = some t' →
      t'.WFX P O ∧ t'.root = t.root ∧ t'.S = t.S ∧
      GoodOn t t' kdim (SDesc t.S n) ∧ SameOff t t' (SDesc t.S n) := by
  intro fuel
  induction fuel with
  | zero => intro t t' n _ _ _ h; simp [TTN.truncateNode] at h
  | succ fuel ih =>
    intro t t' n w hO hok h
    have hwf := w.wf
    simp only [TTN.truncateNode] at h
    cases hN : dget t.nodes n with
    | none => simp [hN, bind, Option.bind] at h
    | some Nn =>
      simp only [hN, bind, Option.bind] at h
      cases h3 : t.truncateNodeStep n ids kdim with
      | none => simp [h3] at h
      | some t3 =>
        simp only [h3] at h
        obtain ⟨w3, R3, S3, Nn', hNn', K3, D3⟩ := truncate_step_legs w hO hok h3
        have hNn : t.N n = some Nn := hN
        rw [hNn] at hNn'; simp at hNn'; subst hNn'
        have hSn := TTN.S_eq hNn
        -- the recursive calls, child by child
        have fold : ∀ (Rn Dn : List Id) (u u' : TTN), Nn.children = Dn ++ Rn → u.WFX P O → u.S = t.S →
            u.root = t.root →
            GoodOn t u kdim (fun c => c ∈ Nn.children ∨ ∃ ci ∈ Dn, SDesc t.S ci c) →
            SameOff t u (fun c => c ∈ Nn.children ∨ ∃ ci ∈ Dn, SDesc t.S ci c) →
            Rn.foldlM (fun (t : TTN) c => TTN.truncateNode fuel t c ids kdim) u = some u' →
            u'.WFX P O ∧ u'.root = t.root ∧ u'.S = t.S ∧
            GoodOn t u' kdim (fun c => c ∈ Nn.children ∨ ∃ ci ∈ Nn.children, SDesc t.S ci c) ∧
            SameOff t u' (fun c => c ∈ Nn.children ∨ ∃ ci ∈ Nn.children, SDesc t.S ci c) := by
          intro Rn
          induction Rn with
          | nil =>
            intro Dn u u' hcs wu Su Ru G U hrun
            simp at hrun; subst hrun
            have : Dn = Nn.children := by simpa using hcs.symm
            subst this
            exact ⟨wu, Ru, Su, G, U⟩
          | cons ci Rn ihR =>
            intro Dn u u' hcs wu Su Ru G U hrun
            rw [List.foldlM_cons] at hrun
            cases h1 : TTN.truncateNode fuel u ci ids kdim with
            | none => simp [h1, bind, Option.bind] at hrun
            | some u1 =>
              simp only [h1, bind, Option.bind] at hrun
              obtain ⟨w1, R1, S1, G1, U1⟩ := ih u u1 ci wu (by rw [Su]; exact hO) (by rw [Su]; exact hok) h1
              rw [Su] at G1 U1
              refine ihR (Dn ++ [ci]) u1 u' (by rw [hcs]; simp) w1 (S1.trans Su) (R1.trans Ru) ?_ ?_ hrun
              · intro c p cch hS hA
                by_cases hd : SDesc t.S ci c
                · exact G1 c p cch (by rw [Su]; exact hS) hd
                · have hA' : c ∈ Nn.children ∨ ∃ cj ∈ Dn, SDesc t.S cj c := by
                    rcases hA with hA | ⟨cj, hcj, hdj⟩
                    · exact Or.inl hA
                    · rcases List.mem_append.mp hcj with hcj | hcj
                      · exact Or.inr ⟨cj, hcj, hdj⟩
                      · simp at hcj; subst hcj; exact absurd hdj hd
                  obtain ⟨ax, l, e⟩ := G c p cch hS hA'
                  exact ⟨ax, U1 c p cch ax (by rw [Su]; exact hS) hd l, e⟩
              · intro c p cch ax hS hA hl
                have hd : ¬ SDesc t.S ci c := fun hd => hA (Or.inr ⟨ci, by simp, hd⟩)
                have hA' : ¬ (c ∈ Nn.children ∨ ∃ cj ∈ Dn, SDesc t.S cj c) := by
                  rintro (hA' | ⟨cj, hcj, hdj⟩)
                  · exact hA (Or.inl hA')
                  · exact hA (Or.inr ⟨cj, by simp [hcj], hdj⟩)
                exact U1 c p cch ax (by rw [Su]; exact hS) hd (U c p cch ax hS hA' hl)
        have G0 : GoodOn t t3 kdim (fun c => c ∈ Nn.children ∨ ∃ ci ∈ ([] : List Id), SDesc t.S ci c) := by
          intro c p cch hS hA
          have hc : c ∈ Nn.children := by
            rcases hA with hA | ⟨_, hm, _⟩
            · exact hA
            · simp at hm
          obtain ⟨cch', e⟩ := hwf.str.down n _ _ c hSn hc
          rw [hS] at e; simp at e
          obtain ⟨ax, l, e'⟩ := D3 c hc
          exact ⟨ax, by rw [e.1]; exact l, e'⟩
        have U0 : SameOff t t3 (fun c => c ∈ Nn.children ∨ ∃ ci ∈ ([] : List Id), SDesc t.S ci c) := by
          intro c p cch ax hS hA hl
          refine K3 c p ax hl ?_
          rintro (⟨e1, _⟩ | ⟨e1, e2⟩)
          · exact hA (Or.inl e1)
          · obtain ⟨cch', e⟩ := hwf.str.down n _ _ p hSn e2
            rw [e1] at hS
            exact hwf.str.no_two_cycle hS e
        obtain ⟨w', R', S', G', U'⟩ := fold Nn.children [] t3 t' (by simp) w3 S3 R3 G0 U0 h
        refine ⟨w', R', S', ?_, ?_⟩
        · intro c p cch hS hA
          exact G' c p cch hS (SDesc.inv hSn hA)
        · intro c p cch ax hS hA hl
          refine U' c p cch ax hS ?_ hl
          rintro (hc | ⟨ci, hci, hd⟩)
          · exact hA (SDesc.child hSn hc)
          · exact hA (SDesc.step hSn hci hd)

theorem SDesc.snoc {S : Id → Option Struct} {n p k : Id} {pp : Option Id} {pch : List Id}
    (h : SDesc S n p) (hS : S p = some (pp, pch)) (hk : k ∈ pch) : SDesc S n k := by
  induction h with
  | child h1 h2 => exact SDesc.step h1 h2 (SDesc.child hS hk)
  | step h1 h2 _ ih => exact SDesc.step h1 h2 (ih hS)

/-- in a well-formed tree every node that has a parent is a strict descendant of the root -/
theorem sdesc_root {S : Id → Option Struct} {Tk : Id → Bool} {root : Option Id} (h : SWF S Tk root) {r : Id}
    (hr : root = some r) : ∀ k p ch, S k = some (some p, ch) → SDesc S r k := by
  obtain ⟨dp, hd⟩ := h.depth
  have main : ∀ m k p ch, dp k = m → S k = some (some p, ch) → SDesc S r k := by
    intro m
    induction m using Nat.strongRecOn with
    | _ m ih =>
      intro k p ch hm hS
      obtain ⟨pp, pch, hp, hk⟩ := h.up k p ch hS
      cases pp with
      | none =>
        have := h.root_uniq p pch hp
        rw [hr] at this; simp at this; subst this
        exact SDesc.child hp hk
      | some g =>
        have hlt := hd k p ch hS
        exact (ih (dp p) (by omega) p g pch rfl hp).snoc hp hk
  intro k p ch hS
  exact main (dp k) k p ch rfl hS

/-- **`recursive_truncation`: the parent leg of every non-root node has its kept dimension.** -/
theorem recursive_truncation_parent_legs {t t' : TTN} {kdim : Id → Nat} (h : t.WF) (hl : t.LWF)
    (hs : t.recursiveTruncation kdim = some t') :
    t'.WF ∧ t'.LWF ∧ t'.root = t.root ∧ t'.S = t.S ∧ (∀ k, t'.openAxes k = t.openAxes k) ∧
    ∀ c p cch, t.S c = some (some p, cch) → ∃ ax, t'.Leg c p ax ∧ ax.dim = kdim c := by
  unfold TTN.recursiveTruncation at hs
  cases hr : t.root with
  | none => simp [hr, bind, Option.bind] at hs
  | some r =>
    simp only [hr, bind, Option.bind] at hs
    obtain ⟨w, R, S, G, _⟩ := truncate_node_legs (P := True) (O := t.openAxes) _ t t' r
      ⟨h, fun _ => hl, fun _ _ => rfl⟩ (fun _ k hk => openAxes_none (N_none_of_S hk)) (arithIds_ok t) hs
    refine ⟨w.wf, w.lwf trivial, by rw [R, hr], S, w.op trivial, ?_⟩
    intro c p cch hS
    exact G c p cch hS (sdesc_root h.str hr c p cch hS)

end Ptn.C10
