import Ptn.C10.LegPush
/-! `svd_truncation` at the level of bond dimensions: a sweep of centre moves (`move_orthogonalization_center`, QR)
and `contract_and_split_with_parent` events (truncated SVD) on the structural model of C02.

What the model ASSUMES about one event on the pair `(a, b)` is made explicit (`BondLocal`): the bond `a – b` gets the
event's new dimension `bd` at both ends and every other virtual leg of the result is the leg it was (same axis).  This
is decidable on every concrete network (it quantifies over the node dictionary) and is checked by evaluation in
`Props.lean`; it is NOT proved for all networks here.  About the dimensions: a cut has `bd ≤ D` (`keptDim_bounds`), a
QR move has `bd ≤` the dimension of the bond it crosses (reduced or `keep` mode of `tensor_qr_decomposition`:
`min(rows, columns) ≤ columns`).  Core Lean only. -/
namespace Ptn.C10
open Ptn.C02

/-- one sweep event on the pair `(a, b)` with new bond dimension `bd`: seen from the result `t'` -/
def BondLocal (t t' : TTN) (a b : Id) (bd : Nat) : Prop :=
  ∀ e ∈ t'.nodes, ∀ q ∈ t'.legPairs e.1,
    if (e.1 = a ∧ q.1 = b) ∨ (e.1 = b ∧ q.1 = a) then q.2.dim = bd else q ∈ t.legPairs e.1

instance instDecidableLegB27 (t : TTN) (k x : Id) (ax : Axis) : Decidable (t.Leg k x ax) := by
  unfold TTN.Leg; infer_instance

instance instDecidableBondLocal (t t' : TTN) (a b : Id) (bd : Nat) : Decidable (BondLocal t t' a b bd) := by
  unfold BondLocal; infer_instance

theorem leg_mem_nodes {t : TTN} {k x : Id} {ax : Axis} (hl : t.Leg k x ax) : ∃ e ∈ t.nodes, e.1 = k := by
  have hk := leg_isNode hl
  cases hg : dget t.nodes k with
  | none => exact absurd hg hk
  | some v =>
    have := (dhas_eq_mem_keys t.nodes k).mp (dhas_of_dget hg)
    obtain ⟨e, he, e1⟩ := List.mem_map.mp this
    exact ⟨e, he, e1⟩

theorem BondLocal.leg {t t' : TTN} {a b : Id} {bd : Nat} (h : BondLocal t t' a b bd) {k x : Id} {ax : Axis}
    (hl : t'.Leg k x ax) :
    (((k = a ∧ x = b) ∨ (k = b ∧ x = a)) ∧ ax.dim = bd) ∨ (¬ ((k = a ∧ x = b) ∨ (k = b ∧ x = a)) ∧ t.Leg k x ax) := by
  obtain ⟨e, he, rfl⟩ := leg_mem_nodes hl
  have := h e he (x, ax) hl
  by_cases hc : (e.1 = a ∧ x = b) ∨ (e.1 = b ∧ x = a)
  · rw [if_pos hc] at this; exact Or.inl ⟨hc, this⟩
  · rw [if_neg hc] at this; exact Or.inr ⟨hc, this⟩

/-- A sweep of `svd_truncation` with its assumptions: every event is local to its bond; a QR move does not exceed the
    dimension of the bond it crosses; a cut keeps at most `D`. -/
inductive SvdSweep (D : Nat) : TTN → List TdvpEvent → TTN → Prop
  | nil (t : TTN) : SvdSweep D t [] t
  | move {t t1 t' : TTN} {a b rid : Id} {bd : Nat} {es : List TdvpEvent} :
      t.centreMove a b rid bd = some t1 → BondLocal t t1 a b bd →
      (∃ ax, t.Leg a b ax ∧ t.Leg b a ax ∧ bd ≤ ax.dim) →
      SvdSweep D t1 es t' → SvdSweep D t (.move a b rid bd :: es) t'
  | cut {t t1 t' : TTN} {a b cid : Id} {bd : Nat} {es : List TdvpEvent} :
      t.contractSplit a b cid bd = some t1 → BondLocal t t1 a b bd → bd ≤ D →
      SvdSweep D t1 es t' → SvdSweep D t (.contractSplit a b cid bd :: es) t'

/-- the pairs that are cut by `contract_and_split_with_parent` -/
def cutPairs : List TdvpEvent → List (Id × Id)
  | [] => []
  | .contractSplit a b _ _ :: es => (a, b) :: cutPairs es
  | _ :: es => cutPairs es

theorem svd_sweep_legs {D : Nat} {t t' : TTN} {es : List TdvpEvent} (h : SvdSweep D t es t') :
    ∀ k x ax', t'.Leg k x ax' →
      (((k, x) ∈ cutPairs es ∨ (x, k) ∈ cutPairs es) → ax'.dim ≤ D) ∧
      (ax'.dim ≤ D ∨ ∃ ax, t.Leg k x ax ∧ ax'.dim ≤ ax.dim) := by
  induction h with
  | nil t =>
    intro k x ax' hl
    exact ⟨by simp [cutPairs], Or.inr ⟨ax', hl, Nat.le_refl _⟩⟩
  | @move t t1 t' a b rid bd es _ hloc hqr _ ih =>
    intro k x ax' hl
    obtain ⟨i1, i2⟩ := ih k x ax' hl
    refine ⟨by simpa [cutPairs] using i1, ?_⟩
    rcases i2 with i2 | ⟨ax1, l1, le1⟩
    · exact Or.inl i2
    · right
      obtain ⟨ax, la, lb, hbd⟩ := hqr
      rcases hloc.leg l1 with ⟨hc, e⟩ | ⟨_, l0⟩
      · rcases hc with ⟨rfl, rfl⟩ | ⟨rfl, rfl⟩
        · exact ⟨ax, la, by omega⟩
        · exact ⟨ax, lb, by omega⟩
      · exact ⟨ax1, l0, le1⟩
  | @cut t t1 t' a b cid bd es _ hloc hbd _ ih =>
    intro k x ax' hl
    obtain ⟨i1, i2⟩ := ih k x ax' hl
    have key : ((k = a ∧ x = b) ∨ (k = b ∧ x = a)) → ax'.dim ≤ D := by
      intro hc
      rcases i2 with i2 | ⟨ax1, l1, le1⟩
      · exact i2
      · rcases hloc.leg l1 with ⟨_, e⟩ | ⟨hn, _⟩
        · omega
        · exact absurd hc hn
    constructor
    · intro hm
      simp only [cutPairs, List.mem_cons, Prod.mk.injEq] at hm
      rcases hm with (hm | hm) | (hm | hm)
      · exact key (Or.inl hm)
      · exact i1 (Or.inl hm)
      · exact key (Or.inr ⟨hm.2, hm.1⟩)
      · exact i1 (Or.inr hm)
    · rcases i2 with i2 | ⟨ax1, l1, le1⟩
      · exact Or.inl i2
      · rcases hloc.leg l1 with ⟨_, e⟩ | ⟨_, l0⟩
        · left; omega
        · exact Or.inr ⟨ax1, l0, le1⟩

end Ptn.C10
