import Mathlib.Analysis.Normed.Group.Basic
import Mathlib.Analysis.Normed.Group.Real
import Mathlib.Algebra.BigOperators.Group.Finset.Basic
import Mathlib.Algebra.Order.BigOperators.Group.Finset
/-! Abstract error accumulation for successive truncations (lemma L4 of DESIGN.md 3.4).
    Helper lemmas; the property-level statements are in `Props.lean`. -/
namespace Ptn.C10

open Finset

/-- `applyUpTo P k x = P (k-1) (… (P 0 x))`. -/
def applyUpTo {E : Type*} (P : ℕ → E → E) : ℕ → E → E
  | 0, x => x
  | k + 1, x => P k (applyUpTo P k x)

/-- Pure triangle inequality along a sequence of states. -/
theorem dist_chain {E : Type*} [SeminormedAddCommGroup E] (x : ℕ → E) (ε : ℕ → ℝ) (k : ℕ)
    (h : ∀ j, j < k → ‖x j - x (j + 1)‖ ≤ ε j) :
    ‖x 0 - x k‖ ≤ ∑ j ∈ range k, ε j := by
  induction k with
  | zero => simp
  | succ k ih =>
    have h1 := ih (fun j hj => h j (Nat.lt_succ_of_lt hj))
    have h2 := h k (Nat.lt_succ_self k)
    have e : x 0 - x (k + 1) = (x 0 - x k) + (x k - x (k + 1)) := by abel
    rw [e, sum_range_succ]
    exact (norm_add_le _ _).trans (add_le_add h1 h2)

/-- L4: additive contractions `P j`, each moving the ORIGINAL vector by at most `δ j`. -/
theorem telescoping {E : Type*} [SeminormedAddCommGroup E] (P : ℕ → E →+ E) (δ : ℕ → ℝ) (k : ℕ)
    (x : E) (hc : ∀ j, j < k → ∀ y, ‖P j y‖ ≤ ‖y‖) (hd : ∀ j, j < k → ‖x - P j x‖ ≤ δ j) :
    ‖x - applyUpTo (fun j => (P j : E → E)) k x‖ ≤ ∑ j ∈ range k, δ j := by
  induction k with
  | zero => simp [applyUpTo]
  | succ k ih =>
    have h1 := ih (fun j hj => hc j (Nat.lt_succ_of_lt hj)) (fun j hj => hd j (Nat.lt_succ_of_lt hj))
    have h2 := hd k (Nat.lt_succ_self k)
    have h3 := hc k (Nat.lt_succ_self k) (x - applyUpTo (fun j => (P j : E → E)) k x)
    have e : x - applyUpTo (fun j => (P j : E → E)) (k + 1) x =
        (x - P k x) + P k (x - applyUpTo (fun j => (P j : E → E)) k x) := by
      simp only [applyUpTo, map_sub]; abel
    rw [e, sum_range_succ, add_comm (∑ j ∈ range k, δ j)]
    exact (norm_add_le _ _).trans (add_le_add h2 (h3.trans h1))

end Ptn.C10
