import Ptn.C10.Model
/-! Specification-level vocabulary for C10 (core Lean only): what the property text talks about,
    written without reference to how the code computes it. -/
namespace Ptn.C10

/-- Sorted in descending order (ties allowed). -/
def Desc (s : List Rat) : Prop := s.Pairwise (fun a b => b ≤ a)

def NonNeg (s : List Rat) : Prop := ∀ x ∈ s, 0 ≤ x

instance (s : List Rat) : Decidable (Desc s) := by unfold Desc; exact inferInstance
instance (s : List Rat) : Decidable (NonNeg s) := by unfold NonNeg; exact inferInstance

/-- `t < x` in the extended reals. -/
def Tol.lt (t : Tol) (x : Rat) : Bool :=
  match t with
  | .ninf => true
  | .fin q => decide (q < x)
  | .pinf => false

/-- `rel · s₀` in the extended reals, with the measure-theoretic convention `(±∞)·0 = 0`.
    (The code computes IEEE `nan` there; for a descending non-negative spectrum with `s₀ = 0`
    both readings select nothing, see `above_iff_survives`.) -/
def relTimes (rel : Tol) (s0 : Rat) : Tol :=
  if s0 = 0 then .fin 0
  else match rel with
    | .fin r => .fin (r * s0)
    | .ninf => if 0 < s0 then .ninf else .pinf
    | .pinf => if 0 < s0 then .pinf else .ninf

/-- `x` is strictly above `max(rel·s₀, tot)`  ⇔  `x` is strictly above both. -/
def survives (rel tot : Tol) (s0 x : Rat) : Bool := (relTimes rel s0).lt x && tot.lt x

/-- `min n D` with `D = none` standing for infinity. -/
def capMin (n : Nat) : Option Nat → Nat
  | some d => min n d
  | none => n

/-- Squared weight of the tail `s[j:]`. -/
def tailWeight (s : List Rat) (j : Nat) : Rat := normSq (s.drop j)

/-- ... relative to the total squared weight when normalising. -/
def relWeight (s : List Rat) (norming : Bool) (j : Nat) : Rat :=
  if norming then tailWeight s j / normSq s else tailWeight s j

/-- The tail `s[j:]` fits the tolerance: its (relative) squared weight does not exceed
    `total_tol²` (which is `+∞` for `total_tol = ±∞`). -/
def Fits (s : List Rat) (tot : Tol) (norming : Bool) (j : Nat) : Prop :=
  match tot with
  | .fin t => relWeight s norming j ≤ t * t
  | _ => True

instance (s : List Rat) (tot : Tol) (norming : Bool) (j : Nat) : Decidable (Fits s tot norming j) := by
  unfold Fits; cases tot <;> exact inferInstance

/-- The scale factor of renormalisation: ratio of the sums (ℓ¹), as the code does it. -/
def renormFactor (s : List Rat) (k : Nat) : Rat := s.sum / (s.take k).sum

end Ptn.C10
