import Ptn.C10.TruncValue
/-! A concrete instance for `truncate_node_value_partial` (`Props.lean`): the two-node network of `Ptn/C02/SimDemo.lean`,
`insert_identity(2, 1, 7)`, the rank-one matrix `|0⟩⟨0|` in place of the delta, and its exact split into the pair `P`, `Pc`
with the leg specifications of `insert_projection_operator_and_conjugate`. -/
namespace Ptn.C10
namespace TvDemo
open Ptn.C02 Ptn.C03 Ptn.Ein Ptn.C02.SimDemo

/-- after `insert_identity(2, 1, 7)` -/
def ta : TTN := (t0.step (.ident 2 1 7)).getD t0
theorem stepa : t0.step (.ident 2 1 7) = some ta := rfl
def ga : LegMap := identG 2 1 7 v0.next (50, 51) g
def va : VNet Int := simIdent e g ta v0 2 1 7 (50, 51)
/-- the rank-one matrix `|0⟩⟨0|` on the subdivided bond (legs 100 towards node 1, 101 towards node 2) -/
def Pi0 : Asg Nat → Int := fun ρ => if ρ 100 = 0 ∧ ρ 101 = 0 then 1 else 0
/-- after `split_node_replace(7, …)` with the leg specifications of `insert_projection_operator_and_conjugate` -/
def tb : TTN := (ta.step (.split 7 ⟨some 1, [], [], false⟩ ⟨none, [2], [], false⟩ 8 9 3)).getD t0
theorem stepb : ta.step (.split 7 ⟨some 1, [], [], false⟩ ⟨none, [2], [], false⟩ 8 9 3) = some tb := rfl
theorem admb : (TOp.split 7 ⟨some 1, [], [], false⟩ ⟨none, [2], [], false⟩ 8 9 3).Adm ta :=
  ⟨_, ⟨rfl, Or.inr rfl, Or.inr rfl, List.Perm.refl _, Or.inl ⟨1, rfl, rfl, rfl, Or.inl ⟨rfl, rfl⟩⟩⟩⟩
theorem outLegsb : splitOutLegs e ga tb 7 8 9 = [100] := by decide
theorem inLegsb : splitInLegs e ga tb 7 8 9 = [101] := by decide

def factb : SplitFact dim ((tv37WithTens va 7 Pi0).tens 7) (splitOutLegs e ga tb 7 8 9) (splitInLegs e ga tb 7 8 9)
    (tv37WithTens va 7 Pi0).next ((tv37WithTens va 7 Pi0).next + 1) where
  O := fun ρ => if ρ 100 = 0 ∧ ρ 102 = 0 then 1 else 0
  I := fun ρ => if ρ 103 = 0 ∧ ρ 101 = 0 then 1 else 0
  exact := by
    intro τ
    simp [tv37WithTens, va, simIdent, reLeg, identStep, v0, Pi0, dim, sumPairs, sumR, upd, List.range_succ]
    by_cases h1 : τ 100 = 0 <;> by_cases h2 : τ 101 = 0 <;> simp [h1, h2]
  readsO := by
    rw [outLegsb]
    intro σ τ h
    have h0 := h 100 (by simp); have h1 := h 102 (by simp [tv37WithTens, va, simIdent, reLeg, identStep, v0])
    simp [h0, h1]
  readsI := by
    rw [inLegsb]
    intro σ τ h
    have h0 := h 103 (by simp [tv37WithTens, va, simIdent, reLeg, identStep, v0]); have h1 := h 101 (by simp)
    simp [h0, h1]

/-- the history `insert_identity(2, 1, 7)`, then (with `Π = |0⟩⟨0|` in place of the delta) `split_node_replace` into the
    pair `P`, `Pc`: all premises of `truncate_node_value_partial` hold -/
theorem simrunb : SimStep dim e t0 g v0 (.ident 2 1 7) ta ga va ∧ (TOp.ident 2 1 7).Adm t0 ∧
    DependsOn (· ∈ va.legs 7) Pi0 ∧
    ∃ t' g' v', SimRun dim e ta ga (tv37WithTens va 7 Pi0)
      [.split 7 ⟨some 1, [], [], false⟩ ⟨none, [2], [], false⟩ 8 9 3] t' g' v' := by
  refine ⟨.ident stepa (by simp [v0]) (Or.inr rfl) ?_, rfl, ?_, _, _, _,
    .cons admb (.split factb stepb ⟨rfl, rfl⟩) (.nil _ _ _)⟩
  · intro ax hax
    have : t0.legPairs 2 = [(1, ⟨100, 3⟩)] := by rw [t0_legPairs]; simp
    unfold TTN.Leg at hax
    rw [this] at hax
    simp at hax
    subst hax
    exact ⟨rfl, rfl⟩
  · intro σ τ hh
    have h0 := hh 100 (by decide); have h1 := hh 101 (by decide)
    simp [Pi0, h0, h1]
end TvDemo
end Ptn.C10
