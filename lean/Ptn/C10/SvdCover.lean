import Ptn.C10.SvdSweep
import Ptn.C10.SvdOrder
/-! Where the virtual legs of the result of an `SvdSweep` come from: a leg of the input or the pair of an event. -/
namespace Ptn.C10
open Ptn.C02

/-- the pairs (a, b) the events of a sweep act on -/
def svdEventPairs : List TdvpEvent → List (Id × Id)
  | [] => []
  | .contractSplit a b _ _ :: es => (a, b) :: svdEventPairs es
  | .move a b _ _ :: es => (a, b) :: svdEventPairs es
  | _ :: es => svdEventPairs es

theorem svd_sweep_leg_origin {D : Nat} {t t' : TTN} {es : List TdvpEvent} (h : SvdSweep D t es t') :
    ∀ k x ax', t'.Leg k x ax' →
      (∃ ax, t.Leg k x ax) ∨ (k, x) ∈ svdEventPairs es ∨ (x, k) ∈ svdEventPairs es := by
  induction h with
  | nil t => intro k x ax' hl; exact Or.inl ⟨ax', hl⟩
  | @move t t1 t' a b rid bd es _ hloc _ _ ih =>
    intro k x ax' hl
    rcases ih k x ax' hl with ⟨ax1, l1⟩ | hm | hm
    · rcases hloc.leg l1 with ⟨hc, _⟩ | ⟨_, l0⟩
      · rcases hc with ⟨rfl, rfl⟩ | ⟨rfl, rfl⟩
        · exact Or.inr (Or.inl (by simp [svdEventPairs]))
        · exact Or.inr (Or.inr (by simp [svdEventPairs]))
      · exact Or.inl ⟨ax1, l0⟩
    · exact Or.inr (Or.inl (by simp [svdEventPairs, hm]))
    · exact Or.inr (Or.inr (by simp [svdEventPairs, hm]))
  | @cut t t1 t' a b cid bd es _ hloc _ _ ih =>
    intro k x ax' hl
    rcases ih k x ax' hl with ⟨ax1, l1⟩ | hm | hm
    · rcases hloc.leg l1 with ⟨hc, _⟩ | ⟨_, l0⟩
      · rcases hc with ⟨rfl, rfl⟩ | ⟨rfl, rfl⟩
        · exact Or.inr (Or.inl (by simp [svdEventPairs]))
        · exact Or.inr (Or.inr (by simp [svdEventPairs]))
      · exact Or.inl ⟨ax1, l0⟩
    · exact Or.inr (Or.inl (by simp [svdEventPairs, hm]))
    · exact Or.inr (Or.inr (by simp [svdEventPairs, hm]))

/-- the events of a sweep as tagged pairs: `false` = QR move `(from, to)`, `true` = cut `(node, parent)` -/
def svdEventTags : List TdvpEvent → List (Bool × Id × Id)
  | [] => []
  | .contractSplit a b _ _ :: es => (true, a, b) :: svdEventTags es
  | .move a b _ _ :: es => (false, a, b) :: svdEventTags es
  | _ :: es => svdEventTags es

theorem svdEventTags_cuts : ∀ es : List TdvpEvent, ((svdEventTags es).filter (·.1)).map (·.2) = cutPairs es
  | [] => rfl
  | e :: es => by
    have ih := svdEventTags_cuts es
    cases e <;> simp [svdEventTags, cutPairs, ih]

theorem svdEventTags_pairs : ∀ es : List TdvpEvent, (svdEventTags es).map (·.2) = svdEventPairs es
  | [] => rfl
  | e :: es => by
    have ih := svdEventTags_pairs es
    cases e <;> simp [svdEventTags, svdEventPairs, ih]

end Ptn.C10
