import Ptn.C02.SimCompositeTrunc
/-! Value level, part 4 (builder B54): ONE node of `truncate_node` with ALL its children.

`Lr54LevelRun` is the value-level history of the first loop of `truncate_node(n)`: for every child `c` in turn a
read-only prefix `pre` (for the library: `[.access n]`, the node tensor is read for the projector), then
`insert_identity(c, n)`, then the identity is REPLACED by a two-leg tensor `Π_c` (the local update), then the identity node
is split into the projector pair with an exact factorisation of `Π_c` (`Ptn.C02.truncate_node_value`, composed over the
children).  `Lr54Chain` is the value statement: a chain of single-leaf replacements. -/
namespace Ptn.C10
open Ptn.C02 Ptn.C03 Ptn.Ein NodeS

set_option linter.unusedSectionVars false
set_option linter.unusedVariables false
variable {R : Type} [CommSemiring R]

/-- the Kronecker delta on the two fresh legs `a`, `a + 1` of an identity insertion -/
def lr54Delta (a : Nat) : Asg Nat → R := fun ρ => if ρ a = ρ (a + 1) then 1 else 0

/-- one child of the level: the child, the first fresh label of its identity insertion, the matrix put on its bond -/
structure Lr54Entry (R : Type) where
  c : Id
  a : Nat
  Pi : Asg Nat → R

/-- the leg specifications of `insert_projection_operator_and_conjugate(c, n, …)` -/
def lr54Split (n c : Id) (ids : TTN.TempIds) (k : Nat) : TOp :=
  .split (ids.ident c) ⟨some n, [], [], false⟩ ⟨none, [c], [], false⟩ (ids.star c) (ids.proj c) k

/-- the value-level history of the first loop of `truncate_node(n)` over a list of children -/
inductive Lr54LevelRun (dim : Nat → Nat) (e : Label → Nat) (n : Id) (ids : TTN.TempIds) (kdim : Id → Nat)
    (pre : List TOp) : TTN → LegMap → VNet R → List (Lr54Entry R) → TTN → LegMap → VNet R → Prop
  | nil (t : TTN) (g : LegMap) (v : VNet R) : Lr54LevelRun dim e n ids kdim pre t g v [] t g v
  | cons {t t0 t1 t2 t' : TTN} {g g0 g1 g2 g' : LegMap} {v v0 v1 v2 v' : VNet R} {c : Id} {Pi : Asg Nat → R}
      {rest : List (Lr54Entry R)} :
      SimRun dim e t g v pre t0 g0 v0 →
      SimRun dim e t0 g0 v0 [.ident c n (ids.ident c)] t1 g1 v1 →
      DependsOn (· ∈ v1.legs (ids.ident c)) Pi →
      SimRun dim e t1 g1 (setTens v1 (ids.ident c) Pi) [lr54Split n c ids (kdim c)] t2 g2 v2 →
      Lr54LevelRun dim e n ids kdim pre t2 g2 v2 rest t' g' v' →
      Lr54LevelRun dim e n ids kdim pre t g v (⟨c, v0.next, Pi⟩ :: rest) t' g' v'

/-- the value statement of a level: from the function `f` (the value of the network before) to `f'` by single-leaf
replacements, one per child: some well-formed network `w` has the value `f`, carries the Kronecker delta at the identity
node of the child on the legs `a`, `a + 1`, and the next function is the value of `w` with that delta replaced by `Π` -/
inductive Lr54Chain (dim : Nat → Nat) (ids : TTN.TempIds) :
    (Asg Nat → R) → List (Lr54Entry R) → (Asg Nat → R) → Prop
  | nil {f f' : Asg Nat → R} : (∀ σ, f' σ = f σ) → Lr54Chain dim ids f [] f'
  | cons {f f' : Asg Nat → R} {x : Lr54Entry R} {rest : List (Lr54Entry R)} (w : VNet R) :
      w.WF → (∀ σ, w.value dim σ = f σ) → w.tens (ids.ident x.c) = lr54Delta x.a →
      DependsOn (· ∈ w.legs (ids.ident x.c)) x.Pi →
      Lr54Chain dim ids (fun σ => (setTens w (ids.ident x.c) x.Pi).value dim σ) rest f' →
      Lr54Chain dim ids f (x :: rest) f'

theorem lr54Chain_congr {dim : Nat → Nat} {ids : TTN.TempIds} {f f0 f' : Asg Nat → R} {es : List (Lr54Entry R)}
    (hf : ∀ σ, f σ = f0 σ) (hc : Lr54Chain dim ids f es f') : Lr54Chain dim ids f0 es f' := by
  cases hc with
  | nil h => exact .nil (fun σ => (h σ).trans (hf σ))
  | cons w hw hval hd hdep hrest => exact .cons w hw (fun σ => (hval σ).trans (hf σ)) hd hdep hrest

theorem lr54Chain_congr_right {dim : Nat → Nat} {ids : TTN.TempIds} {f f' f'' : Asg Nat → R}
    {es : List (Lr54Entry R)} (hc : Lr54Chain dim ids f es f') (hf : ∀ σ, f'' σ = f' σ) :
    Lr54Chain dim ids f es f'' := by
  induction hc with
  | nil h => exact .nil (fun σ => (hf σ).trans (h σ))
  | cons w hw hval hd hdep _ ih => exact .cons w hw hval hd hdep (ih hf)

/-- a chain all of whose matrices are the delta does nothing -/
theorem lr54Chain_identity {dim : Nat → Nat} {ids : TTN.TempIds} {f f' : Asg Nat → R} {es : List (Lr54Entry R)}
    (hc : Lr54Chain dim ids f es f') (hid : ∀ x ∈ es, x.Pi = lr54Delta x.a) : ∀ σ, f' σ = f σ := by
  induction hc with
  | nil h => exact h
  | cons w hw hval hd hdep hrest ih =>
    intro σ
    rw [ih (fun x hx => hid x (List.mem_cons_of_mem _ hx)) σ]
    have := hid _ List.mem_cons_self
    show (setTens w _ _).value dim σ = _
    rw [this, ← hd, setTens_self, hval σ]

/-- the read-only prefix `[.access n]` of the library's loop body is the model's `t.access n` -/
theorem lr54_loop1_cons {t t0 t1 t2 : TTN} {n c : Id} {ids : TTN.TempIds} {kdim : Id → Nat} {cs : List Id}
    (h0 : t.step (.access n) = some t0) (h1 : t0.step (.ident c n (ids.ident c)) = some t1)
    (h2 : t1.step (lr54Split n c ids (kdim c)) = some t2) :
    TTN.truncLoop1 t n ids kdim (c :: cs) = TTN.truncLoop1 t2 n ids kdim cs := by
  obtain ⟨T, ha⟩ := step_access_eq h0
  have hins := insertProjectors_of_steps h1 h2
  unfold TTN.truncLoop1
  simp [List.foldlM_cons, ha, hins, bind, Option.bind]

/-- `contract_all_children`'s loop: a run of the contractions `contract_nodes(n, c, new)` over a list of children is the
fold of the model -/
theorem lr54_contract_fold {n new : Id} : ∀ {cs : List Id} {t t' : TTN},
    TRun t (cs.map (fun c => TOp.contract n c new)) t' →
    cs.foldlM (fun (t : TTN) c => t.contractNodes n c new) t = some t'
  | [], t, t', hr => by cases hr; rfl
  | c :: cs, t, t', hr => by
    cases hr with
    | cons _ hstep hr1 =>
      have hc : t.contractNodes n c new = some _ := hstep
      simp only [List.foldlM_cons, hc, bind, Option.bind]
      exact lr54_contract_fold hr1

theorem lr54_contractAll_of_run {t t' : TTN} {n new : Id} {node : NodeS} (hn : t.N n = some node)
    (hr : TRun t (node.children.map (fun c => TOp.contract n c new)) t') :
    t.contractAllChildren n new = some t' := by
  have hn' : dget t.nodes n = some node := hn
  unfold TTN.contractAllChildren
  simp only [hn', bind, Option.bind]
  exact lr54_contract_fold hr

/-- the level run: invariants, the model's first loop, the value chain -/
theorem lr54_level_core (dim : Nat → Nat) (e : Label → Nat) {n : Id} {ids : TTN.TempIds} {kdim : Id → Nat}
    {pre : List TOp} {t t' : TTN} {g g' : LegMap} {v v' : VNet R} {es : List (Lr54Entry R)}
    (h : t.WF) (hl : t.LWF) (hv : v.WF) (hs : RSim dim e g t v)
    (hr : Lr54LevelRun dim e n ids kdim pre t g v es t' g' v') :
    t'.WF ∧ t'.LWF ∧ v'.WF ∧ RSim dim e g' t' v' ∧
    (pre = [.access n] → TTN.truncLoop1 t n ids kdim (es.map (·.c)) = some t') ∧
    Lr54Chain dim ids (fun σ => v.value dim σ) es (fun σ => v'.value dim σ) := by
  induction hr with
  | nil t g v => exact ⟨h, hl, hv, hs, fun _ => by simp [TTN.truncLoop1], .nil (fun _ => rfl)⟩
  | @cons t t0 t1 t2 t' g g0 g1 g2 g' v v0 v1 v2 v' c Pi rest hpre hid hdep hsp _ ih =>
    obtain ⟨run0, _, w0, l0, vw0, s0, _, val0⟩ := structural_history_preserves_value dim e h hl hv hs hpre
    obtain ⟨hins, w2, l2, vw2, s2, vw1, val1, hdelta, val2, _⟩ :=
      truncate_node_value dim e w0 l0 vw0 s0 hid hdep hsp
    obtain ⟨a1, a2, a3, a4, a5, a6⟩ := ih w2 l2 vw2 s2
    refine ⟨a1, a2, a3, a4, ?_, ?_⟩
    · intro hp
      subst hp
      obtain ⟨run1, _⟩ := structural_history_preserves_value dim e w0 l0 vw0 s0 hid
      obtain ⟨run2, _⟩ := structural_history_preserves_value dim e (step_wf w0 _ (by cases hid; assumption) (trun_one run1))
        ((structural_history_preserves_value dim e w0 l0 vw0 s0 hid).2.2.2.1) (setTens_wf vw1 hdep)
        (((structural_history_preserves_value dim e w0 l0 vw0 s0 hid).2.2.2.2.2.1).setTens _ Pi) hsp
      simp only [List.map_cons]
      rw [lr54_loop1_cons (trun_one run0) (trun_one run1) (trun_one run2)]
      exact a5 rfl
    · refine .cons (x := ⟨c, v0.next, Pi⟩) v1 vw1 (fun σ => (val1 σ).trans (val0 σ)) hdelta hdep ?_
      exact lr54Chain_congr (fun σ => val2 σ) a6

end Ptn.C10
