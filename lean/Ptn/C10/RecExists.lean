import Ptn.C10.LevelExists
import Ptn.C10.TruncOrder
import Ptn.C10.LevelFlatRun
/-! Value level, part 6 (builder B66, continued): the recursion of `truncate_node` over the tree.  `Lr66RecRun` is the
value-level history of `TTN.truncateNode`: a sequence of node steps (first loop = `Lr54LevelRun`, then the contractions of
the second and third loop), the list records the bonds `(node, child)` in the order they are cut.  `lr66_rec_exists`: if
the model's recursion succeeds and the external routines keep their contract in every state reached, the history exists,
its bond list IS `truncOrder`, and it ends in the state the model returns. -/
namespace Ptn.C10
open Ptn.C02 Ptn.C03 Ptn.Ein NodeS

set_option linter.unusedSectionVars false
set_option linter.unusedVariables false
variable {R : Type} [CommSemiring R]

inductive Lr66RecRun (dim : Nat → Nat) (e : Label → Nat) (ids : TTN.TempIds) (kdim : Id → Nat) :
    TTN → LegMap → VNet R → List (Id × Id) → TTN → LegMap → VNet R → Prop
  | nil (t : TTN) (g : LegMap) (v : VNet R) : Lr66RecRun dim e ids kdim t g v [] t g v
  | step {t t1 t2 t' : TTN} {g g1 g2 g' : LegMap} {v v1 v2 v' : VNet R} {n : Id} {node : NodeS}
      {es : List (Lr54Entry R)} {rest : List (Id × Id)} :
      t.N n = some node → es.map (·.c) = node.children →
      Lr54LevelRun dim e n ids kdim [.access n] t g v es t1 g1 v1 →
      SimRun dim e t1 g1 v1 (lr66Tail n ids node.children) t2 g2 v2 →
      Lr66RecRun dim e ids kdim t2 g2 v2 rest t' g' v' →
      Lr66RecRun dim e ids kdim t g v (node.children.map (fun c => (n, c)) ++ rest) t' g' v'

theorem lr66RecRun_append {dim : Nat → Nat} {e : Label → Nat} {ids : TTN.TempIds} {kdim : Id → Nat}
    {t t1 t2 : TTN} {g g1 g2 : LegMap} {v v1 v2 : VNet R} {l1 l2 : List (Id × Id)}
    (h1 : Lr66RecRun dim e ids kdim t g v l1 t1 g1 v1) (h2 : Lr66RecRun dim e ids kdim t1 g1 v1 l2 t2 g2 v2) :
    Lr66RecRun dim e ids kdim t g v (l1 ++ l2) t2 g2 v2 := by
  induction h1 with
  | nil t g v => exact h2
  | step a b c d _ ih => rw [List.append_assoc]; exact .step a b c d (ih h2)

/-- a recursion run preserves all invariants and the value is reached through the node steps -/
theorem lr66RecRun_inv (dim : Nat → Nat) (e : Label → Nat) {ids : TTN.TempIds} {kdim : Id → Nat}
    {t t' : TTN} {g g' : LegMap} {v v' : VNet R} {l : List (Id × Id)}
    (h : t.WF) (hl : t.LWF) (hv : v.WF) (hs : RSim dim e g t v)
    (hr : Lr66RecRun dim e ids kdim t g v l t' g' v') : t'.WF ∧ t'.LWF ∧ v'.WF ∧ RSim dim e g' t' v' := by
  induction hr with
  | nil t g v => exact ⟨h, hl, hv, hs⟩
  | step a b c d _ ih =>
    obtain ⟨w1, l1, vw1, s1, _, _⟩ := lr54_level_core dim e h hl hv hs c
    obtain ⟨_, _, w2, l2, vw2, s2, _, _⟩ := structural_history_preserves_value dim e w1 l1 vw1 s1 d
    exact ih w2 l2 vw2 s2

/-- the contract of the external routines along a recursion: in every state reached by a recursion run followed by a
part of a level run of a node `n`, for every child `c` of `n` not yet treated -/
def Lr66RecContract (dim : Nat → Nat) (e : Label → Nat) (ids : TTN.TempIds) (kdim : Id → Nat)
    (t : TTN) (g : LegMap) (v : VNet R) : Prop :=
  ∀ l tm gm vm, Lr66RecRun dim e ids kdim t g v l tm gm vm →
    ∀ n es tm' gm' vm' c cch, Lr54LevelRun dim e n ids kdim [.access n] tm gm vm es tm' gm' vm' →
      tm.S c = some (some n, cch) → c ∉ es.map (·.c) → Lr66Contract dim e n ids (kdim c) tm' gm' vm' c

theorem Lr66RecContract.rebase {dim : Nat → Nat} {e : Label → Nat} {ids : TTN.TempIds} {kdim : Id → Nat}
    {t t1 : TTN} {g g1 : LegMap} {v v1 : VNet R} {l : List (Id × Id)}
    (hO : Lr66RecContract dim e ids kdim t g v) (hr : Lr66RecRun dim e ids kdim t g v l t1 g1 v1) :
    Lr66RecContract dim e ids kdim t1 g1 v1 :=
  fun l' tm gm vm hr' => hO (l ++ l') tm gm vm (lr66RecRun_append hr hr')

/-- **the recursion exists** -/
theorem lr66_rec_exists (dim : Nat → Nat) (e : Label → Nat) (ids : TTN.TempIds) (kdim : Id → Nat) :
    ∀ (fuel : Nat) (t t' : TTN) (g : LegMap) (v : VNet R) (n : Id), t.WF → t.LWF → v.WF → RSim dim e g t v →
      TempOK t.S ids → TTN.truncateNode fuel t n ids kdim = some t' → Lr66RecContract dim e ids kdim t g v →
      ∃ g' v', Lr66RecRun dim e ids kdim t g v (truncOrder t.S fuel n) t' g' v' ∧
        t'.WF ∧ t'.LWF ∧ v'.WF ∧ RSim dim e g' t' v' ∧ t'.S = t.S ∧ t'.root = t.root := by
  intro fuel
  induction fuel with
  | zero => intro t t' g v n _ _ _ _ _ hrun; simp [TTN.truncateNode] at hrun
  | succ fuel ihf =>
    intro t t' g v n h hl hv hs hok hrun hO
    unfold TTN.truncateNode at hrun
    cases hN : dget t.nodes n with
    | none => simp [hN, bind, Option.bind] at hrun
    | some Nn =>
      have hNn : t.N n = some Nn := hN
      simp only [hN, bind, Option.bind] at hrun
      cases h3 : t.truncateNodeStep n ids kdim with
      | none => simp [h3] at hrun
      | some t3 =>
        simp only [h3] at hrun
        obtain ⟨node, es, t1, g1, v1, g3, v3, hN', hes, hr, _, htail, w3, l3, vw3, s3, hS3, hR3⟩ :=
          lr66_step_exists dim e h hl hv hs hok h3 (fun es tm gm vm c cch hrun hSc hnot =>
            hO [] t g v (.nil _ _ _) n es tm gm vm c cch hrun hSc hnot)
        have hnode : node = Nn := by rw [hNn] at hN'; exact (Option.some.inj hN').symm
        subst hnode
        have stepRun : Lr66RecRun dim e ids kdim t g v (node.children.map (fun c => (n, c)) ++ []) t3 g3 v3 :=
          .step hNn hes hr htail (.nil _ _ _)
        have hO3 := hO.rebase stepRun
        -- the recursive calls, child by child
        have foldL : ∀ (cs : List Id) (ta tb : TTN) (ga : LegMap) (va : VNet R), ta.WF → ta.LWF → va.WF →
            RSim dim e ga ta va → ta.S = t.S → ta.root = t.root →
            cs.foldlM (fun (t : TTN) c => TTN.truncateNode fuel t c ids kdim) ta = some tb →
            Lr66RecContract dim e ids kdim ta ga va →
            ∃ gb vb, Lr66RecRun dim e ids kdim ta ga va (cs.flatMap (truncOrder t.S fuel)) tb gb vb ∧
              tb.WF ∧ tb.LWF ∧ vb.WF ∧ RSim dim e gb tb vb ∧ tb.S = t.S ∧ tb.root = t.root := by
          intro cs
          induction cs with
          | nil =>
            intro ta tb ga va wa la vwa sa hSa hRa hf _
            simp at hf; subst hf
            exact ⟨ga, va, .nil _ _ _, wa, la, vwa, sa, hSa, hRa⟩
          | cons c cs ihc =>
            intro ta tb ga va wa la vwa sa hSa hRa hf hOa
            rw [List.foldlM_cons] at hf
            cases hc : TTN.truncateNode fuel ta c ids kdim with
            | none => simp [hc, bind, Option.bind] at hf
            | some tc =>
              simp only [hc, bind, Option.bind] at hf
              obtain ⟨gc, vc, rc, wc, lc, vwc, sc, hSc, hRc⟩ :=
                ihf ta tc ga va c wa la vwa sa (by rw [hSa]; exact hok) hc hOa
              obtain ⟨gb, vb, rb, r⟩ := ihc tc tb gc vc wc lc vwc sc (hSc.trans hSa) (hRc.trans hRa) hf
                (hOa.rebase rc)
              rw [hSa] at rc
              exact ⟨gb, vb, by rw [List.flatMap_cons]; exact lr66RecRun_append rc rb, r⟩
        obtain ⟨g', v', rf, w', l', vw', s', hS', hR'⟩ :=
          foldL node.children t3 t' g3 v3 w3 l3 vw3 s3 hS3 hR3 hrun hO3
        refine ⟨g', v', ?_, w', l', vw', s', hS', hR'⟩
        have hord : truncOrder t.S (fuel + 1) n =
            node.children.map (fun c => (n, c)) ++ node.children.flatMap (truncOrder t.S fuel) := by
          simp only [truncOrder, TTN.S_eq hNn]
        rw [hord]
        exact .step hNn hes hr htail rf

/-- the value statement of a recursion run: per node step a list of insertion records `all`, one per child (`Ins` of
`ValueRun.lean`), every cut bond a bond of the network BEFORE the step; the value before the step is the plain record,
the value after it the flat record (the network before the step with `Π_c` on every child bond at once) -/
inductive Lr66ValChain (dim : Nat → Nat) : VNet R → List (Id × Id) → VNet R → Prop
  | nil {v v' : VNet R} : (∀ σ, v'.value dim σ = v.value dim σ) → Lr66ValChain dim v [] v'
  | step {v v2 v' : VNet R} {rest : List (Id × Id)} (all : List (Ins Nat R)) (cs : List Id) (n : Id) :
      all.length = cs.length → (∀ i ∈ all, i.b' = i.a' + 1) →
      (∀ i ∈ all, DependsOn (fun l => l = i.a' ∨ l = i.b') i.Pm) → (∀ i ∈ all, i.plain ∈ v.bonds) →
      (∀ σ, v.value dim σ =
        netValue dim (lf62Erase v.bonds all ++ all.map Ins.plain) (v.ids.map v.tens) σ) →
      (∀ σ, v2.value dim σ =
        netValue dim (lf62Erase v.bonds all ++ all.flatMap Ins.cut) (all.map Ins.Pm ++ v.ids.map v.tens) σ) →
      Lr66ValChain dim v2 rest v' → Lr66ValChain dim v (cs.map (fun c => (n, c)) ++ rest) v'

end Ptn.C10
