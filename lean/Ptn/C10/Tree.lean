import Ptn.C02.TruncWF
import Ptn.C02.BuildLabels
/-! # Tree-level structural corollaries for C10 (truncation), proved on the structural TTN model of C02

`Ptn/C02/Composite.lean` models, line by line,
`pytreenet/core/truncation/recursive_truncation.py`:

* `truncateNode fuel t n ids kdim` = `truncate_node(n, tree, svd_params)`: for every child `c` of `n`
  `insert_identity(c, n, ids.ident c)` and `split_node_replace` of it into the projector pair
  (`ids.star c` next to `n`, `ids.proj c` next to `c`; kept dimension `kdim c`);
  `contract_all_children(n)`; for every (projector) child `contract_all_children(proj, new_identifier=c)`;
  recursion into the children (`fuel` bounds the recursion depth);
* `recursiveTruncation t kdim` = the same from the root, with temporary identifiers beyond all identifiers
  in use (the library's `identity_id` / `projector_identifier` strings; `TempOK` states what is needed of
  them).  The two `canonical_form(root)` calls of `recursive_truncation` are sequences of
  `centreMove`s, i.e. `TdvpEvent.move` events (`Ptn/C02/CompositeWF.lean`);
* `svd_truncation` is a sequence of `move` events (`move_orthogonalization_center`) and `contractSplit`
  events (`contract_and_split_with_parent`).

`t.N k` is the node with identifier `k` (`none`: no such node); `t.openAxes k` are the open axes (label,
dimension) of node `k` in order; `t.LWF` is the label invariant of C02 (both ends of every bond carry the same
label and dimension).

**Proved**: well-formedness and the label invariant of the result, same root, same identifier set, same
parent of every node, same children of every node – for `truncate_node` in the same ORDER; each
canonicalisation move `c → parent` puts `c` LAST among its parent's children, each
`contract_and_split_with_parent(c, parent)` puts `c` FIRST; and **every node keeps exactly its open legs –
same labels, same order, same dimensions – so only bond dimensions change**.  The `…_partial` theorems are the
structure-only versions (no hypothesis on the labels).  Core Lean only. -/
namespace Ptn.C10
open Ptn.C02

/-! ### structure and labels -/

/-- **`truncate_node(n)`** (whole recursion below `n`, any admissible temporary identifiers, any kept
    dimensions): the result is well-formed and label-consistent, has the same root, the same identifiers, every
    node has the same parent and the same children list (order included) and exactly the open legs it had. -/
theorem truncate_node_structure {t t' : TTN} {ids : TTN.TempIds} {kdim : Id → Nat} {fuel : Nat}
    {n : Id} (h : t.WF) (hl : t.LWF) (hids : TempOK t.S ids)
    (hs : TTN.truncateNode fuel t n ids kdim = some t') :
    t'.WF ∧ t'.LWF ∧ t'.root = t.root ∧
    (∀ k, t'.N k = none ↔ t.N k = none) ∧
    (∀ k m, t.N k = some m → ∃ m', t'.N k = some m' ∧ m'.parent = m.parent ∧ m'.children = m.children) ∧
    (∀ k, t'.openAxes k = t.openAxes k) := by
  obtain ⟨w, R, S⟩ := truncate_node_full fuel t t' n (TTN.WFX.ofLWF h hl)
    (fun _ k hk => openAxes_none (N_none_of_S hk)) hids hs
  exact ⟨w.wf, w.lwf trivial, R, (S_eq_explicit S).1, (S_eq_explicit S).2, w.op trivial⟩

/-- **`recursive_truncation`** between its two canonicalisations. -/
theorem recursive_truncation_core_structure {t t' : TTN} {kdim : Id → Nat} (h : t.WF) (hl : t.LWF)
    (hs : t.recursiveTruncation kdim = some t') :
    t'.WF ∧ t'.LWF ∧ t'.root = t.root ∧
    (∀ k, t'.N k = none ↔ t.N k = none) ∧
    (∀ k m, t.N k = some m → ∃ m', t'.N k = some m' ∧ m'.parent = m.parent ∧ m'.children = m.children) ∧
    (∀ k, t'.openAxes k = t.openAxes k) := by
  obtain ⟨w, l, R, S, o⟩ := recursive_truncation_labels h hl hs
  exact ⟨w, l, R, (S_eq_explicit S).1, (S_eq_explicit S).2, o⟩

/-- **`recursive_truncation`** as a whole: `canonical_form(root)` (a run `es₁` of centre moves), the
    truncation, `canonical_form(root)` again (`es₂`).  Well-formed, label-consistent result; same root, same
    identifiers, same parent of every node, same children of every node up to order (the order is changed by the
    centre moves only); **every node keeps exactly its open legs, in order, with their dimensions – only bond
    dimensions change**. -/
theorem recursive_truncation_structure {t t1 t2 t' : TTN} {es1 es2 : List TdvpEvent}
    {kdim : Id → Nat} (h : t.WF) (hl : t.LWF) (h1 : TdvpRun t es1 t1)
    (h2 : t1.recursiveTruncation kdim = some t2) (h3 : TdvpRun t2 es2 t') :
    t'.WF ∧ t'.LWF ∧ t'.root = t.root ∧
    (∀ k, t'.N k = none ↔ t.N k = none) ∧
    (∀ k m, t.N k = some m →
      ∃ m', t'.N k = some m' ∧ m'.parent = m.parent ∧ m'.children.Perm m.children) ∧
    (∀ k, t'.openAxes k = t.openAxes k) := by
  obtain ⟨w1, l1, R1, E1, o1⟩ := tdvp_run_labels h hl h1
  obtain ⟨w2, l2, R2, S2, o2⟩ := recursive_truncation_labels w1 l1 h2
  obtain ⟨w3, l3, R3, E3, o3⟩ := tdvp_run_labels w2 l2 h3
  rw [S2] at E3
  exact ⟨w3, l3, R3.trans (R2.trans R1), (treeEq_explicit (E1.trans E3)).1, (treeEq_explicit (E1.trans E3)).2,
    fun k => (o3 k).trans ((o2 k).trans (o1 k))⟩

/-- Reading of "the lower node of the pair `{a, b}` has become the first child of the upper one, nothing
    else has changed". -/
def PromotedIn (t t' : TTN) (a b : Id) : Prop :=
  ∃ top bot Tn, ((top = a ∧ bot = b) ∨ (top = b ∧ bot = a)) ∧ t.N top = some Tn ∧ bot ∈ Tn.children ∧
    (∀ k, k ≠ top → t'.S k = t.S k) ∧
    t'.S top = some (Tn.parent, bot :: Tn.children.erase bot)

theorem promotedIn_of {t t' : TTN} {a b : Id} (h : t.WF)
    (hc : ∃ A, t.N a = some A ∧
      ((b ∈ A.children ∧ t'.S = promoteS t.S a b) ∨ (A.parent = some b ∧ t'.S = promoteS t.S b a))) :
    PromotedIn t t' a b := by
  obtain ⟨A, hA, hcase⟩ := hc
  rcases hcase with ⟨hb, S'⟩ | ⟨hp, S'⟩
  · exact ⟨a, b, A, Or.inl ⟨rfl, rfl⟩, hA, hb, promote_explicit hA S'⟩
  · obtain ⟨B, hB, hm⟩ := parent_node h hA hp
    exact ⟨b, a, B, Or.inr ⟨rfl, rfl⟩, hB, hm, promote_explicit hB S'⟩

/-- **`contract_and_split_with_parent(a, b)`** (also with the pair given the other way round; any truncated
    bond dimension): the lower node of the pair becomes the FIRST child of the upper one, nothing else changes in
    the structure, and every node keeps exactly its open legs. -/
theorem contract_split_structure {t t' : TTN} {a b cid : Id} {bd : Nat} (h : t.WF) (hl : t.LWF)
    (hfresh : t.N cid = none) (hs : t.contractSplit a b cid bd = some t') :
    t'.WF ∧ t'.LWF ∧ t'.root = t.root ∧ PromotedIn t t' a b ∧ ∀ k, t'.openAxes k = t.openAxes k := by
  obtain ⟨w, R, hc⟩ := contract_split_full (TTN.WFX.ofLWF h hl) hfresh hs
  exact ⟨w.wf, w.lwf trivial, R, promotedIn_of h hc, w.op trivial⟩

/-- The events of `svd_truncation`: centre moves and `contract_and_split_with_parent`. -/
def IsSvdEvent : TdvpEvent → Prop
  | .move _ _ _ _ => True
  | .contractSplit _ _ _ _ => True
  | _ => False

/-- **`svd_truncation`** – any run of centre moves and `contract_and_split_with_parent`s (the temporary
    identifiers being unused when they are taken): well-formed, label-consistent result, same root, same
    identifiers, same parent of every node, same children of every node up to order; **every node keeps exactly
    its open legs – only bond dimensions change**. -/
theorem svd_truncation_structure {t t' : TTN} {es : List TdvpEvent} (h : t.WF) (hl : t.LWF)
    (_hev : ∀ e ∈ es, IsSvdEvent e) (hr : TdvpRun t es t') :
    t'.WF ∧ t'.LWF ∧ t'.root = t.root ∧
    (∀ k, t'.N k = none ↔ t.N k = none) ∧
    (∀ k m, t.N k = some m →
      ∃ m', t'.N k = some m' ∧ m'.parent = m.parent ∧ m'.children.Perm m.children) ∧
    (∀ k, t'.openAxes k = t.openAxes k) := by
  obtain ⟨w, l, R, E, o⟩ := tdvp_run_labels h hl hr
  exact ⟨w, l, R, (treeEq_explicit E).1, (treeEq_explicit E).2, o⟩

/-! ### structure only (no hypothesis on the labels) -/

theorem truncate_node_structure_partial {t t' : TTN} {ids : TTN.TempIds} {kdim : Id → Nat} {fuel : Nat}
    {n : Id} (h : t.WF) (hids : TempOK t.S ids) (hs : TTN.truncateNode fuel t n ids kdim = some t') :
    t'.WF ∧ t'.root = t.root ∧
    (∀ k, t'.N k = none ↔ t.N k = none) ∧
    (∀ k m, t.N k = some m → ∃ m', t'.N k = some m' ∧ m'.parent = m.parent ∧ m'.children = m.children) := by
  obtain ⟨w, R, S⟩ := truncate_node_full fuel t t' n (TTN.WFX.ofWF h) (fun hp => hp.elim) hids hs
  exact ⟨w.wf, R, S_eq_explicit S⟩

theorem recursive_truncation_core_structure_partial {t t' : TTN} {kdim : Id → Nat} (h : t.WF)
    (hs : t.recursiveTruncation kdim = some t') :
    t'.WF ∧ t'.root = t.root ∧
    (∀ k, t'.N k = none ↔ t.N k = none) ∧
    (∀ k m, t.N k = some m → ∃ m', t'.N k = some m' ∧ m'.parent = m.parent ∧ m'.children = m.children) := by
  obtain ⟨w, R, S⟩ := recursive_truncation_full h hs
  exact ⟨w, R, S_eq_explicit S⟩

theorem recursive_truncation_structure_partial {t t1 t2 t' : TTN} {es1 es2 : List TdvpEvent}
    {kdim : Id → Nat} (h : t.WF) (h1 : TdvpRun t es1 t1) (h2 : t1.recursiveTruncation kdim = some t2)
    (h3 : TdvpRun t2 es2 t') :
    t'.WF ∧ t'.root = t.root ∧
    (∀ k, t'.N k = none ↔ t.N k = none) ∧
    (∀ k m, t.N k = some m →
      ∃ m', t'.N k = some m' ∧ m'.parent = m.parent ∧ m'.children.Perm m.children) := by
  obtain ⟨w1, R1, E1⟩ := tdvp_run_structure h h1
  obtain ⟨w2, R2, S2⟩ := recursive_truncation_full w1 h2
  obtain ⟨w3, R3, E3⟩ := tdvp_run_structure w2 h3
  rw [S2] at E3
  exact ⟨w3, R3.trans (R2.trans R1), treeEq_explicit (E1.trans E3)⟩

theorem contract_split_structure_partial {t t' : TTN} {a b cid : Id} {bd : Nat} (h : t.WF)
    (hfresh : t.N cid = none) (hs : t.contractSplit a b cid bd = some t') :
    t'.WF ∧ t'.root = t.root ∧
    ∃ top bot Tn, ((top = a ∧ bot = b) ∨ (top = b ∧ bot = a)) ∧ t.N top = some Tn ∧ bot ∈ Tn.children ∧
      (∀ k, k ≠ top → t'.S k = t.S k) ∧
      t'.S top = some (Tn.parent, bot :: Tn.children.erase bot) := by
  obtain ⟨w, R, hc⟩ := contract_split_full (TTN.WFX.ofWF h) hfresh hs
  exact ⟨w.wf, R, promotedIn_of h hc⟩

theorem svd_truncation_structure_partial {t t' : TTN} {es : List TdvpEvent} (h : t.WF)
    (_hev : ∀ e ∈ es, IsSvdEvent e) (hr : TdvpRun t es t') :
    t'.WF ∧ t'.root = t.root ∧
    (∀ k, t'.N k = none ↔ t.N k = none) ∧
    (∀ k m, t.N k = some m →
      ∃ m', t'.N k = some m' ∧ m'.parent = m.parent ∧ m'.children.Perm m.children) := by
  obtain ⟨w, R, E⟩ := tdvp_run_structure h hr
  exact ⟨w, R, treeEq_explicit E⟩

/-! ### non-vacuity -/

set_option maxRecDepth 8192

/-- The chain-with-a-branch `1 — {2 — {4}, 3}`: root `1` (one open leg), `2` (one open leg) with the leaf `4`,
    leaf `3`; built from nothing. -/
def buildOps : List TOp :=
  [.root 1 [⟨0, 2⟩, ⟨100, 3⟩, ⟨101, 2⟩],
   .child 2 [⟨100, 3⟩, ⟨1, 2⟩, ⟨102, 2⟩] 0 1 1,
   .child 3 [⟨2, 2⟩, ⟨101, 2⟩] 1 1 2,
   .child 4 [⟨102, 2⟩, ⟨3, 3⟩] 0 2 2]

/-- `recursive_truncation` proper succeeds on it (bond above `2` cut to 2, the others to 1), the network it
    is applied to is well-formed, and the structure afterwards is the one before. -/
example : ∃ t t', TRun TTN.empty buildOps t ∧ t.WF ∧
    t.recursiveTruncation (fun c => if c = 2 then 2 else 1) = some t' ∧
    t.S 1 = some (none, [2, 3]) ∧ t'.S 1 = some (none, [2, 3]) ∧ t'.S 2 = some (some 1, [4]) :=
  ⟨_, _, .cons ⟨rfl, rfl⟩ rfl (.cons trivial rfl (.cons trivial rfl (.cons trivial rfl (.nil _)))),
    built_wf (show TRun TTN.empty buildOps _ from
      .cons ⟨rfl, rfl⟩ rfl (.cons trivial rfl (.cons trivial rfl (.cons trivial rfl (.nil _))))),
    rfl, rfl, rfl, rfl⟩

/-- The whole `recursive_truncation`: canonicalisation towards the root (`4 → 2`, `2 → 1`, `3 → 1`), the
    truncation, canonicalisation again. -/
example : ∃ t t1 t2 t', TRun TTN.empty buildOps t ∧
    TdvpRun t [.move 4 2 60 2, .move 2 1 61 3, .move 3 1 62 2] t1 ∧
    t1.recursiveTruncation (fun c => if c = 2 then 2 else 1) = some t2 ∧
    TdvpRun t2 [.move 4 2 70 1, .move 2 1 71 2, .move 3 1 72 1] t' ∧
    t'.S 1 = some (none, [2, 3]) :=
  ⟨_, _, _, _, .cons ⟨rfl, rfl⟩ rfl (.cons trivial rfl (.cons trivial rfl (.cons trivial rfl (.nil _)))),
    .cons rfl rfl (.cons rfl rfl (.cons rfl rfl (.nil _))),
    rfl,
    .cons rfl rfl (.cons rfl rfl (.cons rfl rfl (.nil _))),
    rfl⟩

/-- An `svd_truncation`-like run: move the centre to the leaf `4`, truncate `(4, 2)`, then `(3, 1)` after
    moving the centre there, then `(2, 1)`.  Here the child order of `1` ends as `[2, 3]` after passing
    through `[3, 2]`. -/
example : ∃ t t', TRun TTN.empty buildOps t ∧
    TdvpRun t [.move 3 1 60 2, .move 1 2 61 3, .move 2 4 62 2, .contractSplit 4 2 63 1,
               .move 2 1 64 2, .move 1 3 65 2, .contractSplit 3 1 66 1, .contractSplit 2 1 67 2] t' ∧
    (∀ e ∈ [TdvpEvent.move 3 1 60 2, .move 1 2 61 3, .move 2 4 62 2, .contractSplit 4 2 63 1,
            .move 2 1 64 2, .move 1 3 65 2, .contractSplit 3 1 66 1, .contractSplit 2 1 67 2],
       IsSvdEvent e) ∧
    t'.S 1 = some (none, [2, 3]) :=
  ⟨_, _, .cons ⟨rfl, rfl⟩ rfl (.cons trivial rfl (.cons trivial rfl (.cons trivial rfl (.nil _)))),
    .cons rfl rfl (.cons rfl rfl (.cons rfl rfl (.cons rfl rfl
      (.cons rfl rfl (.cons rfl rfl (.cons rfl rfl (.cons rfl rfl (.nil _)))))))),
    (by intro e he; simp at he; rcases he with rfl | rfl | rfl | rfl | rfl | rfl | rfl | rfl <;> trivial),
    rfl⟩

/-- The same network is label-consistent (built with matching bond labels `100`, `101`, `102`), so the
    hypotheses of the label-level theorems are satisfiable; after the truncation every node has the open axes
    it had. -/
example : ∃ t t', TRunL TTN.empty buildOps t ∧ t.WF ∧ t.LWF ∧
    t.recursiveTruncation (fun c => if c = 2 then 2 else 1) = some t' ∧
    t'.openAxes 1 = [⟨0, 2⟩] ∧ t'.openAxes 2 = [⟨1, 2⟩] ∧ t'.openAxes 3 = [⟨2, 2⟩] ∧ t'.openAxes 4 = [⟨3, 3⟩] :=
  ⟨_, _, .cons ⟨rfl, rfl⟩ trivial rfl (.cons trivial ⟨_, rfl, rfl⟩ rfl (.cons trivial ⟨_, rfl, rfl⟩ rfl
      (.cons trivial ⟨_, rfl, rfl⟩ rfl (.nil _)))),
    (builtL_labels (show TRunL TTN.empty buildOps _ from
      .cons ⟨rfl, rfl⟩ trivial rfl (.cons trivial ⟨_, rfl, rfl⟩ rfl (.cons trivial ⟨_, rfl, rfl⟩ rfl
        (.cons trivial ⟨_, rfl, rfl⟩ rfl (.nil _)))))).1,
    (builtL_labels (show TRunL TTN.empty buildOps _ from
      .cons ⟨rfl, rfl⟩ trivial rfl (.cons trivial ⟨_, rfl, rfl⟩ rfl (.cons trivial ⟨_, rfl, rfl⟩ rfl
        (.cons trivial ⟨_, rfl, rfl⟩ rfl (.nil _)))))).2,
    rfl, rfl, rfl, rfl, rfl⟩

end Ptn.C10
