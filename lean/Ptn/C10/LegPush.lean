import Ptn.C02.TruncWF
import Ptn.C02.BuildLabels
/-! Where a virtual leg goes under the primitive edits of the C02 structural model, in "push forward" form
(`t.Leg k x ax → t'.Leg k (ρ x) ax`): the axis (label AND dimension) of a leg of a bystander is unchanged, only the
name of the neighbour is renamed.  Consequences of `access_labels`, `ident_labels`, `split_labels`,
`contract_labels` (C02).  Core Lean only. -/
namespace Ptn.C10
open Ptn.C02

/-- the neighbour a leg points to is a node -/
theorem leg_target_isNode {t : TTN} (h : t.WF) {k x : Id} {ax : Axis} (hl : t.Leg k x ax) : t.N x ≠ none := by
  obtain ⟨n, L, hn, _, hm⟩ := leg_node hl
  obtain ⟨m, hm', _⟩ := neighbours_symm h hn (List.of_mem_zip hm).1
  rw [hm']; simp

theorem leg_of_map {t t' : TTN} {k x : Id} {ax : Axis} {ρ : Id → Id}
    (he : t'.legPairs k = (t.legPairs k).map (fun e => (ρ e.1, e.2))) (hl : t.Leg k x ax) :
    t'.Leg k (ρ x) ax := by
  unfold TTN.Leg at hl ⊢
  rw [he, List.mem_map]
  exact ⟨(x, ax), hl, rfl⟩

/-- `ttn.tensors[id]` moves no leg -/
theorem access_push {t t1 : TTN} {id : Id} {T : Tensor} (ha : t.access id = some (t1, T)) {k x : Id} {ax : Axis}
    (hl : t.Leg k x ax) : t1.Leg k x ax := by
  obtain ⟨_, _, lp, _⟩ := access_labels ha
  unfold TTN.Leg at hl ⊢
  rw [lp k]; exact hl

/-- `insert_identity(cid, pid, new)`: every leg except the two ends of the subdivided bond stays -/
theorem ident_push {t t' : TTN} {cid pid new : Id} (h : t.WF) (hnew : t.N new = none)
    (hs : t.insertIdentity cid pid new = some t') {k x : Id} {ax : Axis} (hl : t.Leg k x ax)
    (hne : ¬ ((k = cid ∧ x = pid) ∨ (k = pid ∧ x = cid))) : t'.Leg k x ax := by
  obtain ⟨_, _, _, _, hby⟩ := ident_labels h hnew hs
  have hk : k ≠ new := by
    intro e; rw [e] at hl; exact leg_isNode hl hnew
  have := leg_of_map (hby k hk).1 hl
  simpa [identRho, hne] using this

/-- `contract_nodes(id1, id2, new)`: a leg of a bystander keeps its axis; its neighbour is renamed -/
theorem contract_push_other {t t' : TTN} {id1 id2 new : Id} (h : t.WF)
    (hnew : new = id1 ∨ new = id2 ∨ t.N new = none) (hc : t.contractNodes id1 id2 new = some t')
    {k x : Id} {ax : Axis} (hl : t.Leg k x ax) (h1 : k ≠ id1) (h2 : k ≠ id2) :
    t'.Leg k (if x = id1 ∨ x = id2 then new else x) ax := by
  obtain ⟨pid, cid, hids, _, _, _, hnew', _, _, _, cby⟩ := contract_labels h hnew hc
  have hkp : k ≠ pid ∧ k ≠ cid := by
    rcases hids with ⟨e1, e2⟩ | ⟨e1, e2⟩
    · rw [e1, e2]; exact ⟨h1, h2⟩
    · rw [e1, e2]; exact ⟨h2, h1⟩
  have hkn : k ≠ new := by
    intro e
    rcases hnew' with e' | e' | e'
    · exact hkp.1 (e.trans e')
    · exact hkp.2 (e.trans e')
    · rw [e] at hl; exact leg_isNode hl e'
  have := leg_of_map (cby k hkn hkp.1 hkp.2).1 hl
  have e : contrRho pid cid new x = if x = id1 ∨ x = id2 then new else x := by
    unfold contrRho
    rcases hids with ⟨e1, e2⟩ | ⟨e1, e2⟩
    · rw [e1, e2]
    · rw [e1, e2]
      by_cases a : x = id1 <;> by_cases b : x = id2 <;> simp [a, b]
  rw [e] at this
  exact this

/-- `contract_nodes(id1, id2, new)`: the new node inherits every leg of the two nodes except their bond -/
theorem contract_push_new {t t' : TTN} {id1 id2 new : Id} (h : t.WF)
    (hnew : new = id1 ∨ new = id2 ∨ t.N new = none) (hc : t.contractNodes id1 id2 new = some t')
    {x : Id} {ax : Axis} (hl : (t.Leg id1 x ax ∧ x ≠ id2) ∨ (t.Leg id2 x ax ∧ x ≠ id1)) :
    t'.Leg new x ax := by
  obtain ⟨pid, cid, hids, _, _, _, _, cnew, _, _, _⟩ := contract_labels h hnew hc
  apply (cnew x ax).mpr
  rcases hids with ⟨e1, e2⟩ | ⟨e1, e2⟩
  · rw [e1, e2]; exact hl
  · rw [e1, e2]; exact hl.symm

/-- `split_nodes`: the two new nodes are joined by the fresh bond `⟨nextLabel, bd⟩`, seen from both ends -/
theorem split_push_fresh {t t' : TTN} {id : Id} {X : NodeS} {outL inL : TTN.LegSpec} {outId inId : Id}
    {bd : Nat} (h : t.WF) (adm : SplitAdm t id X outL inL outId inId)
    (hs : t.splitNodes id outL inL outId inId bd = some t') :
    t'.Leg outId inId ⟨t.nextLabel, bd⟩ ∧ t'.Leg inId outId ⟨t.nextLabel, bd⟩ := by
  obtain ⟨a, b, aCh, bCh, L, hcfg, _, _, _, _, ca, cb, _⟩ := split_labels h adm hs
  have h1 : t'.Leg a b ⟨t.nextLabel, bd⟩ := (ca b _).mpr (Or.inl ⟨rfl, rfl⟩)
  have h2 : t'.Leg b a ⟨t.nextLabel, bd⟩ := (cb a _).mpr (Or.inl ⟨rfl, rfl⟩)
  rcases hcfg with ⟨e1, e2, _⟩ | ⟨e1, e2, _⟩
  · rw [← e1, ← e2]; exact ⟨h1, h2⟩
  · rw [← e1, ← e2]; exact ⟨h2, h1⟩

/-- `split_nodes`: a leg of a bystander that does not point to the split node stays -/
theorem split_push_other {t t' : TTN} {id : Id} {X : NodeS} {outL inL : TTN.LegSpec} {outId inId : Id}
    {bd : Nat} (h : t.WF) (adm : SplitAdm t id X outL inL outId inId)
    (hs : t.splitNodes id outL inL outId inId bd = some t') {k x : Id} {ax : Axis}
    (hl : t.Leg k x ax) (hk : k ≠ id) (hx : x ≠ id) : t'.Leg k x ax := by
  obtain ⟨a, b, aCh, bCh, L, hcfg, _, _, _, _, _, _, _, _, _, _, cby⟩ := split_labels h adm hs
  have ho : k ≠ outId := by
    intro e
    rcases adm.outFresh with e' | e'
    · exact hk (e.trans e')
    · rw [e] at hl; exact leg_isNode hl e'
  have hi : k ≠ inId := by
    intro e
    rcases adm.inFresh with e' | e'
    · exact hk (e.trans e')
    · rw [e] at hl; exact leg_isNode hl e'
  have hab : k ≠ a ∧ k ≠ b := by
    rcases hcfg with ⟨e1, e2, _⟩ | ⟨e1, e2, _⟩
    · rw [e1, e2]; exact ⟨ho, hi⟩
    · rw [e1, e2]; exact ⟨hi, ho⟩
  have := leg_of_map (cby k hab.1 hab.2 hk).1 hl
  simpa [splitRho, hx] using this

end Ptn.C10
