/-! Model for property C10 (core Lean only; no Mathlib): singular-value truncation,
`pytreenet/util/tensor_splitting.py` lines 183-388.

* `checkParams`           ↔ `SVDParameters.check_truncation_parameters`
* `valueTruncation`       ↔ `value_truncation`
* `sumScan`/`sumTruncIndex` ↔ `_sum_truncation_index`
* `sumTruncation`         ↔ `sum_truncation`
* `renormalise`           ↔ `renormalise_singular_values`
* `truncate`              ↔ `truncate_singular_values`

Numbers are exact rationals.  Tolerances may be `-inf`/`+inf` (`Tol`); a *cutoff* computed from them may
in addition be IEEE not-a-number (`-inf * 0.0`), which the code really produces for a zero spectrum
(`Cut.nan`): every comparison with it is false, exactly as in Python.

Square roots: the code itself never compares a root with the tolerance; it compares the (relative)
*squared* tail weight `comp_val` with `thresh = total_tol**2` (`comp_val > thresh`).  The model does the
same, so no root is needed.  For `total_tol ≥ 0`, `comp_val > total_tol²` is equivalent to
`sqrt(comp_val) > total_tol` (both sides non-negative, squaring is strictly monotone there).  For a
negative tolerance the two differ: `(-inf)**2 = +inf` (and `(-t)**2 = t²`), so `total_tol = -inf`
does **not** switch the sum rule off but makes every tail fit: everything is discarded and the
"keep the largest" branch is taken.  Negative finite tolerances are rejected by the constructor.
-/
namespace Ptn.C10

/-! ### Extended numbers -/

/-- A tolerance as the user can pass it: `-inf`, a finite number, `+inf`. -/
inductive Tol where
  | ninf
  | fin (q : Rat)
  | pinf
deriving Repr, DecidableEq

/-- A float that results from arithmetic on tolerances: additionally not-a-number. -/
inductive Cut where
  | nan
  | ninf
  | fin (q : Rat)
  | pinf
deriving Repr, DecidableEq

def Tol.toCut : Tol → Cut
  | .ninf => .ninf
  | .fin q => .fin q
  | .pinf => .pinf

/-- IEEE product `t * x` of a tolerance with a finite number (`±inf * 0 = nan`). -/
def Tol.mul (t : Tol) (x : Rat) : Cut :=
  match t with
  | .fin r => .fin (r * x)
  | .ninf => if x = 0 then .nan else if 0 < x then .ninf else .pinf
  | .pinf => if x = 0 then .nan else if 0 < x then .pinf else .ninf

/-- IEEE square `t ** 2`. -/
def Tol.sq : Tol → Cut
  | .fin r => .fin (r * r)
  | _ => .pinf

/-- Python `b > a` on floats (false as soon as one side is nan). -/
def Cut.gt (b a : Cut) : Bool :=
  match b, a with
  | .nan, _ => false
  | _, .nan => false
  | .ninf, _ => false
  | .fin _, .ninf => true
  | .fin p, .fin q => decide (q < p)
  | .fin _, .pinf => false
  | .pinf, .pinf => false
  | .pinf, _ => true

/-- Python's built-in `max(a, b)`: start with `a`, replace by `b` iff `b > a`.
    Hence `max(nan, b) = nan`. -/
def pyMax (a b : Cut) : Cut := if Cut.gt b a then b else a

/-- `x > c` for a finite number `x` (NumPy elementwise comparison of the spectrum with the cutoff). -/
def above (c : Cut) (x : Rat) : Bool := Cut.gt (.fin x) c

/-! ### Parameters -/

/-- What the caller can write for `max_bond_dim`. -/
inductive BondArg where
  | int (z : Int)
  | inf
  | otherFloat          -- any float that is not `+inf` (2.0, 2.5, -inf, nan): rejected by type
deriving Repr, DecidableEq

inductive Validation where
  | ok
  | typeError
  | valueError (field : String)
deriving Repr, DecidableEq

/-- `(tol < 0) and (tol != float("-inf"))`. -/
def Tol.rejected : Tol → Bool
  | .fin q => decide (q < 0)
  | _ => false

/-- `check_truncation_parameters`, checks in the order of the code. -/
def checkParams (b : BondArg) (rel tot : Tol) : Validation :=
  match b with
  | .otherFloat => .typeError
  | .int z =>
    if z ≤ 0 then .valueError "max_bond_dim"
    else if rel.rejected then .valueError "rel_tol"
    else if tot.rejected then .valueError "total_tol"
    else .ok
  | .inf =>
    if rel.rejected then .valueError "rel_tol"
    else if tot.rejected then .valueError "total_tol"
    else .ok

/-- An `SVDParameters` object. `maxBond = none` is `float("inf")`. -/
structure Params where
  maxBond : Option Nat := some 100
  relTol : Tol
  totalTol : Tol
  renorm : Bool := false
  sumTrunc : Bool := false
  sumRenorm : Bool := true
deriving Repr

def Params.bondArg (p : Params) : BondArg :=
  match p.maxBond with
  | some d => .int d
  | none => .inf

/-- The object passed validation. -/
def Params.Valid (p : Params) : Prop := checkParams p.bondArg p.relTol p.totalTol = .ok

instance (p : Params) : Decidable p.Valid := by unfold Params.Valid; exact inferInstance

/-! ### The selection rules -/

/-- `value_truncation(s, total_tol, rel_tol)`; for the empty vector Python raises `IndexError`
    at `s[0]` (`truncate` never calls it with one). -/
def valueTruncation (s : List Rat) (tot rel : Tol) : List Rat :=
  match s with
  | [] => []
  | s0 :: _ =>
    let cutoff := pyMax (rel.mul s0) tot.toCut
    s.filter (above cutoff)

def normSq (s : List Rat) : Rat := (s.map fun x => x * x).sum

/-- The `for i, s_val in enumerate(reversed(s))` loop: `rev` is what is left of the reversed
    vector, `acc` is `trunc_sum`, `i` the loop index. Falling off the end returns 0. -/
def sumScan (len : Nat) (normsq : Rat) (thresh : Cut) (norming : Bool) :
    List Rat → Rat → Nat → Nat
  | [], _, _ => 0
  | x :: rest, acc, i =>
    let acc' := acc + x * x
    let comp := if norming then acc' / normsq else acc'
    if above thresh comp then len - i
    else sumScan len normsq thresh norming rest acc' (i + 1)

/-- `_sum_truncation_index(s, total_tol, norming)`. -/
def sumTruncIndex (s : List Rat) (tot : Tol) (norming : Bool) : Nat :=
  let normsq := normSq s
  if normsq = 0 then 0
  else sumScan s.length normsq tot.sq norming s.reverse 0 0

/-- `sum_truncation`. -/
def sumTruncation (s : List Rat) (tot : Tol) (norming : Bool) : List Rat :=
  s.take (sumTruncIndex s tot norming)

/-- `renormalise_singular_values(s, new_s)`: if `sum(new_s) == 0` the vector is returned unchanged
    (for non-negative input it is all-zero: nothing to rescale; repair F-C10a, commit 8d546e3),
    otherwise `new_s * sum(s) / sum(new_s)` elementwise, evaluated left to right. -/
def renormalise (s newS : List Rat) : List Rat :=
  let normOld := s.sum
  let normNew := newS.sum
  if normNew = 0 then newS
  else newS.map fun x => x * normOld / normNew

/-- The three-way split of `truncate_singular_values` after the rule was applied:
    `(new_s, s_trunc)` before renormalisation. -/
def capSplit (s sTemp : List Rat) (maxBond : Option Nat) : List Rat × List Rat :=
  match maxBond with
  | some d =>
    if sTemp.length > d then (sTemp.take d, s.drop d)
    else if sTemp.length = 0 then (s.take 1, s.drop 1)
    else (sTemp, s.drop sTemp.length)
  | none =>
    if sTemp.length = 0 then (s.take 1, s.drop 1)
    else (sTemp, s.drop sTemp.length)

/-- What the rule selects (`s_temp`). -/
def selected (s : List Rat) (p : Params) : List Rat :=
  if p.sumTrunc then sumTruncation s p.totalTol p.sumRenorm
  else valueTruncation s p.totalTol p.relTol

/-- `truncate_singular_values(s, svd_params)`; `none` is the `ValueError` for an empty vector. -/
def truncate (s : List Rat) (p : Params) : Option (List Rat × List Rat) :=
  if s.length = 0 then none
  else
    let sTemp := selected s p
    let (newS, sTrunc) := capSplit s sTemp p.maxBond
    let kept := if p.renorm then renormalise s newS else newS
    some (kept, sTrunc)

end Ptn.C10
