/-! Model for property C10 (core Lean only; no Mathlib). -/
namespace Ptn.C10
end Ptn.C10
