import Ptn.C10.BondLocalThm
/-! `contractSplit` unfolded: the contraction, the two leg specifications of `legs_before_combination` and the
admissibility (`SplitAdm`) of the split step, re-derived here (C02 builds them inside `two_site_core`). -/
namespace Ptn.C10
open Ptn.C02

/-- the configuration of `contract_and_split_with_parent(a, b)`: `top` is the parent of `bot`, `{a, b} = {top, bot}` -/
theorem bl37_contract_split_adm {t t1 : TTN} {a b ts : Id} {bd : Nat} (h : t.WF) (hts : t.N ts = none)
    (hs : t.contractSplit a b ts bd = some t1) :
    ∃ tc X u v top bot Tn Bn, t.contractNodes a b ts = some tc ∧ SplitAdm tc ts X u v a b ∧
      tc.splitNodes ts u v a b bd = some t1 ∧
      ((a = top ∧ b = bot) ∨ (a = bot ∧ b = top)) ∧
      t.N top = some Tn ∧ t.N bot = some Bn ∧ Bn.parent = some top ∧ bot ∈ Tn.children := by
  unfold TTN.contractSplit at hs
  cases hlbc : t.legsBeforeCombination a b with
  | none => simp [hlbc, bind, Option.bind] at hs
  | some uv =>
    obtain ⟨u, v⟩ := uv
    simp only [hlbc, bind, Option.bind] at hs
    cases hc : t.contractNodes a b ts with
    | none => simp [hc] at hs
    | some tc =>
      simp only [hc] at hs
      have hnew : ts = a ∨ ts = b ∨ t.N ts = none := Or.inr (Or.inr hts)
      obtain ⟨pid, cid, gp, Pch, Cch, hP, hC, hpc, hS1, _⟩ := contract_S_eq h hnew hc
      obtain ⟨Pn, hPn, eP⟩ := TTN.N_of_S hP
      obtain ⟨Cn, hCn, eC⟩ := TTN.N_of_S hC
      simp only [Prod.mk.injEq] at eP eC
      obtain ⟨rfl, rfl⟩ := eP
      obtain ⟨eC1, rfl⟩ := eC
      have hCp : Cn.parent = some pid := eC1.symm
      have hmem : cid ∈ Pn.children := by
        obtain ⟨B', hB', hm⟩ := parent_node h hCn hCp
        rw [hPn] at hB'; simp at hB'; rw [hB']; exact hm
      have hpcne : pid ≠ cid := h.str.parent_ne hC
      have hpt : ¬ pid = ts := by intro e; rw [e, hts] at hPn; simp at hPn
      have hct : ¬ cid = ts := by intro e; rw [e, hts] at hCn; simp at hCn
      have e_ts : tc.S ts = some (Pn.parent,
          if a = pid then Pn.children.erase cid ++ Cn.children else Cn.children ++ Pn.children.erase cid) := by
        rw [hS1]; simp [contractS]
      obtain ⟨X, hX, eX⟩ := TTN.N_of_S e_ts
      simp only [Prod.mk.injEq] at eX
      have e_top : tc.N pid = none := N_none_of_S (by rw [hS1]; simp [contractS, hpt])
      have e_bot : tc.N cid = none := N_none_of_S (by rw [hS1]; simp [contractS, hct])
      have hpar : ∀ (q : Option Id) (r : Bool), r = Pn.isRoot → q = Pn.parent →
          ((∃ p, X.parent = some p ∧ r = false ∧ false = false ∧
              ((q = some p ∧ (none : Option Id) = none) ∨ (q = none ∧ (none : Option Id) = some p))) ∨
            (X.parent = none ∧ q = none ∧ (none : Option Id) = none ∧
              ((r = true ∧ false = false) ∨ (r = false ∧ false = true)))) := by
        intro q r hr hq
        rw [← eX.1, hq, hr]
        cases hp : Pn.parent with
        | none => right; simp [NodeS.isRoot, hp]
        | some p => left; exact ⟨p, rfl, by simp [NodeS.isRoot, hp], rfl, Or.inl ⟨rfl, rfl⟩⟩
      rcases hpc with ⟨rfl, rfl⟩ | ⟨rfl, rfl⟩
      · have hnot : pid ∉ Cn.children := by
          intro hm
          obtain ⟨X', hX', hXp⟩ := child_node h hCn hm
          rw [hPn] at hX'; simp at hX'; subst hX'
          exact h.str.no_two_cycle (a := pid) (b := cid) (by rw [TTN.S_eq hPn, hXp]) hC
        obtain ⟨rfl, rfl⟩ := lbc_down hPn hCn hmem hnot hCp hlbc
        refine ⟨tc, X, _, _, pid, cid, Pn, Cn, rfl, ⟨hX, Or.inr e_top, Or.inr e_bot, ?_, ?_⟩, hs,
          Or.inl ⟨rfl, rfl⟩, hPn, hCn, hCp, hmem⟩
        · rw [← eX.2]; simp
        · exact hpar _ _ rfl rfl
      · obtain ⟨rfl, rfl⟩ := lbc_up hCn hPn hmem hCp hlbc
        refine ⟨tc, X, _, _, pid, cid, Pn, Cn, rfl, ⟨hX, Or.inr e_bot, Or.inr e_top, ?_, ?_⟩, hs,
          Or.inr ⟨rfl, rfl⟩, hPn, hCn, hCp, hmem⟩
        · rw [← eX.2, if_neg (fun e => hpcne e.symm)]
        · have := hpar Pn.parent Pn.isRoot rfl rfl
          rcases this with ⟨p, x1, x2, x3, x4⟩ | ⟨x1, x2, x3, x4⟩
          · left
            refine ⟨p, x1, rfl, x2, ?_⟩
            rcases x4 with ⟨y1, y2⟩ | ⟨y1, y2⟩
            · exact Or.inr ⟨rfl, y1⟩
            · exact absurd y2 (by simp)
          · right
            refine ⟨x1, rfl, x2, ?_⟩
            rcases x4 with ⟨y1, y2⟩ | ⟨y1, y2⟩
            · exact Or.inr ⟨rfl, y1⟩
            · exact absurd y2 (by simp)

/-! ### neighbours in the tree: no triangles -/

/-- `p` is the parent of `c` -/
def bl37Par (t : TTN) (c p : Id) : Prop := ∃ ch, t.S c = some (some p, ch)
/-- adjacent in the tree -/
def bl37Nbr (t : TTN) (k x : Id) : Prop := bl37Par t k x ∨ bl37Par t x k

theorem bl37Nbr.symm {t : TTN} {k x : Id} (h : bl37Nbr t k x) : bl37Nbr t x k := Or.symm h

theorem bl37_leg_nbr {t : TTN} (h : t.WF) {k x : Id} {ax : Axis} (hl : t.Leg k x ax) : bl37Nbr t k x := by
  obtain ⟨n, Ln, hn, _, hm⟩ := leg_node hl
  have hmem := (List.of_mem_zip hm).1
  have hS : t.S k = some (n.parent, n.children) := TTN.S_eq hn
  unfold NodeS.neighbours at hmem
  rcases List.mem_append.mp hmem with hm1 | hm1
  · cases hp : n.parent with
    | none => rw [hp] at hm1; simp at hm1
    | some p =>
      rw [hp] at hm1; simp at hm1
      rw [hp] at hS
      exact Or.inl ⟨_, hm1 ▸ hS⟩
  · obtain ⟨cch, hc'⟩ := h.str.down k _ _ x hS hm1
    exact Or.inr ⟨_, hc'⟩

theorem bl37_no_triangle {t : TTN} (h : t.WF) {a b x : Id} (h1 : bl37Nbr t a b) (h2 : bl37Nbr t b x)
    (h3 : bl37Nbr t a x) : False := by
  obtain ⟨dp, hd⟩ := h.str.depth
  have uniq : ∀ {c p q : Id}, bl37Par t c p → bl37Par t c q → p = q := by
    intro c p q ⟨c1, e1⟩ ⟨c2, e2⟩
    rw [e1] at e2; simp at e2; exact e2.1
  have lt : ∀ {c p : Id}, bl37Par t c p → dp p < dp c := fun ⟨c1, e1⟩ => hd _ _ _ e1
  rcases h1 with h1 | h1 <;> rcases h2 with h2 | h2 <;> rcases h3 with h3 | h3
  · have := uniq h1 h3; subst this; have := lt h2; omega
  · have := lt h1; have := lt h2; have := lt h3; omega
  · have := uniq h1 h3; subst this; have := lt h2; omega
  · have := uniq h2 h3; subst this; have := lt h1; omega
  · have := uniq h1 h2; subst this; have := lt h3; omega
  · have := uniq h1 h2; subst this; have := lt h3; omega
  · have := lt h1; have := lt h2; have := lt h3; omega
  · have := uniq h2 h3; subst this; have := lt h1; omega

/-- `promoteS` keeps every parent pointer -/
theorem bl37_par_of_promote {t t1 : TTN} {top bot : Id} (hS : t1.S = promoteS t.S top bot) {c p : Id}
    (hp : bl37Par t1 c p) : bl37Par t c p := by
  obtain ⟨ch, e⟩ := hp
  rw [hS] at e
  unfold promoteS at e
  by_cases hc : c = top
  · rw [if_pos hc] at e
    cases hs : t.S top with
    | none => rw [hs] at e; simp at e
    | some s =>
      rw [hs] at e; simp at e
      exact ⟨s.2, by rw [hc, hs, ← e.1]⟩
  · rw [if_neg hc] at e; exact ⟨ch, e⟩

theorem bl37_nbr_of_promote {t t1 : TTN} {top bot : Id} (hS : t1.S = promoteS t.S top bot) {k x : Id}
    (hp : bl37Nbr t1 k x) : bl37Nbr t k x :=
  hp.elim (fun q => Or.inl (bl37_par_of_promote hS q)) (fun q => Or.inr (bl37_par_of_promote hS q))

/-- **`contract_and_split_with_parent` changes only its own bond**: every virtual leg of the result is an end of
    the bond `a – b` with the new dimension `bd`, or is the leg (same neighbour, same axis: label and dimension) the
    same node had before.  Hypotheses: well-formedness and an unused temporary identifier (`uuid1`). -/
theorem bl37_contract_split_bond_local {t t1 : TTN} {a b ts : Id} {bd : Nat} (h : t.WF) (hts : t.N ts = none)
    (hs : t.contractSplit a b ts bd = some t1) : BondLocal t t1 a b bd := by
  obtain ⟨tc, X, u, v, top, bot, Tn, Bn, hc, adm, hsp, hab, hT, hB, hBp, _⟩ := bl37_contract_split_adm h hts hs
  obtain ⟨w1, _, A, _, hS⟩ := contract_split_full (TTN.WFX.ofWF h) hts hs
  have hw1 := w1.wf
  have back : ∀ {k x : Id} {ax : Axis}, t1.Leg k x ax → bl37Nbr t k x := by
    intro k x ax hl
    have := bl37_leg_nbr hw1 hl
    rcases hS with ⟨_, hS⟩ | ⟨_, hS⟩
    · exact bl37_nbr_of_promote hS this
    · exact bl37_nbr_of_promote hS this
  have nab : bl37Nbr t a b := by
    have : bl37Par t bot top := ⟨Bn.children, by rw [TTN.S_eq hB, hBp]⟩
    rcases hab with ⟨rfl, rfl⟩ | ⟨rfl, rfl⟩
    · exact Or.inr this
    · exact Or.inl this
  intro e _ q hq
  obtain ⟨k, ev⟩ := e
  obtain ⟨x, ax⟩ := q
  have hl : t1.Leg k x ax := hq
  show if (k = a ∧ x = b) ∨ (k = b ∧ x = a) then ax.dim = bd else t.Leg k x ax
  rcases bl37_contract_split_pull h hts hc adm hsp hl with ⟨hb, e⟩ | ⟨hk, xa, xb, hx⟩ | ⟨ka, kb, y, hy, hxy⟩
  · rw [if_pos hb]; exact e
  · rw [if_neg (by rintro (⟨_, e⟩ | ⟨_, e⟩); exact xb e; exact xa e)]
    rcases hk with rfl | rfl
    · rcases hx with hx | hx
      · exact hx
      · exact (bl37_no_triangle h nab (bl37_leg_nbr h hx) (back hl)).elim
    · rcases hx with hx | hx
      · exact (bl37_no_triangle h nab (back hl) (bl37_leg_nbr h hx)).elim
      · exact hx
  · rw [if_neg (by rintro (⟨e, _⟩ | ⟨e, _⟩); exact ka e; exact kb e)]
    rcases hxy with ⟨_, _, e⟩ | ⟨hyab, hxab⟩
    · rw [e]; exact hy
    · by_cases exy : x = y
      · rw [exy]; exact hy
      · exfalso
        have n1 := bl37_leg_nbr h hy
        have n2 := back hl
        rcases hyab with rfl | rfl <;> rcases hxab with rfl | rfl
        · exact exy rfl
        · exact bl37_no_triangle h nab n2.symm n1.symm
        · exact bl37_no_triangle h nab n1.symm n2.symm
        · exact exy rfl

/-! ### `centreMove` (`split_qr_contract_r_to_neighbour`) -/

theorem bl37_par_of_demote {t t1 : TTN} {top bot : Id} (hS : t1.S = demoteS t.S top bot) {c p : Id}
    (hp : bl37Par t1 c p) : bl37Par t c p := by
  obtain ⟨ch, e⟩ := hp
  rw [hS] at e
  unfold demoteS at e
  by_cases hc : c = top
  · rw [if_pos hc] at e
    cases hs : t.S top with
    | none => rw [hs] at e; simp at e
    | some s =>
      rw [hs] at e; simp at e
      exact ⟨s.2, by rw [hc, hs, ← e.1]⟩
  · rw [if_neg hc] at e; exact ⟨ch, e⟩

theorem bl37_nbr_of_demote {t t1 : TTN} {top bot : Id} (hS : t1.S = demoteS t.S top bot) {k x : Id}
    (hp : bl37Nbr t1 k x) : bl37Nbr t k x :=
  hp.elim (fun q => Or.inl (bl37_par_of_demote hS q)) (fun q => Or.inr (bl37_par_of_demote hS q))

theorem bl37_nbr_ne {t : TTN} (h : t.WF) {a b : Id} (n : bl37Nbr t a b) : a ≠ b := by
  rcases n with ⟨_, e⟩ | ⟨_, e⟩
  · exact (h.str.parent_ne e).symm
  · exact h.str.parent_ne e

/-- the common part of the two orientations: split `a` into `a – rid`, contract `rid` into `b` -/
theorem bl37_cm_core {t t1 t' : TTN} {a b rid : Id} {A : NodeS} {q r : TTN.LegSpec} {bd : Nat} (h : t.WF)
    (hl : t.N rid = none) (hbN : t.N b ≠ none)
    (adm : SplitAdm t a A q r a rid) (hs1 : t.splitNodes a q r a rid bd = some t1)
    (hc : t1.contractNodes b rid b = some t')
    (n_a_rid : bl37Nbr t1 a rid) (n_rid_b : bl37Nbr t1 rid b) (nab : bl37Nbr t a b)
    (hback : ∀ k x, bl37Nbr t' k x → bl37Nbr t k x) (hw' : t'.WF) : BondLocal t t' a b bd := by
  have wf1 : t1.WF := split_nodes_wf_aux h adm hs1
  have hab : a ≠ b := bl37_nbr_ne h nab
  have har : a ≠ rid := by intro e; have := adm.node; rw [e, hl] at this; simp at this
  have hbr : b ≠ rid := by intro e; rw [e] at hbN; exact hbN hl
  have tri1 : bl37Nbr t1 a b → False := fun n => bl37_no_triangle wf1 n_a_rid n_rid_b n
  have tri : ∀ {k : Id}, bl37Nbr t k a → bl37Nbr t k b → False :=
    fun n1 n2 => bl37_no_triangle h nab n2.symm n1.symm
  intro e _ qq hq
  obtain ⟨k, ev⟩ := e
  obtain ⟨x, ax⟩ := qq
  have hl' : t'.Leg k x ax := hq
  have nk : bl37Nbr t k x := hback k x (bl37_leg_nbr hw' hl')
  show if (k = a ∧ x = b) ∨ (k = b ∧ x = a) then ax.dim = bd else t.Leg k x ax
  rcases bl37_contract_pull wf1 (Or.inl rfl) hc hl' with ⟨rfl, hA | hA⟩ | ⟨kb, _, kr, y, hy, ex⟩
  · -- a leg `b` had after the split
    obtain ⟨l1, xr⟩ := hA
    rcases bl37_split_pull h adm hs1 l1 with ⟨c, _⟩ | ⟨c, _⟩ | ⟨_, _, _, z, hz, c⟩
    · rcases c with ⟨c, _⟩ | ⟨c, _⟩
      · exact absurd c.symm hab
      · exact absurd c hbr
    · rcases c with c | c
      · exact absurd c.symm hab
      · exact absurd c hbr
    · rcases c with ⟨za, rfl⟩ | ⟨rfl, c⟩
      · rw [if_neg (by rintro (⟨c, _⟩ | ⟨_, c⟩); exact hab c.symm; exact za c)]
        exact hz
      · rcases c with rfl | rfl
        · exact (tri1 (bl37_leg_nbr wf1 l1).symm).elim
        · exact absurd rfl xr
  · -- a leg of the R tensor
    obtain ⟨l1, xb⟩ := hA
    rcases bl37_split_pull h adm hs1 l1 with ⟨c, e⟩ | ⟨_, xa, _, hx⟩ | ⟨_, c, _⟩
    · rcases c with ⟨c, _⟩ | ⟨_, rfl⟩
      · exact absurd c.symm har
      · rw [if_pos (Or.inr ⟨rfl, rfl⟩), e]
    · exact (tri (bl37_leg_nbr h hx).symm nk.symm).elim
    · exact absurd rfl c
  · rcases bl37_split_pull h adm hs1 hy with ⟨c, e⟩ | ⟨c, ya, yr, hx⟩ | ⟨ka, _, _, z, hz, c⟩
    · rcases c with ⟨rfl, rfl⟩ | ⟨c, _⟩
      · rw [if_pos (Or.inr rfl)] at ex
        rw [if_pos (Or.inl ⟨rfl, ex⟩), e]
      · exact absurd c kr
    · rcases c with rfl | c
      · by_cases yb : y = b
        · rw [yb] at hy
          exact (tri1 (bl37_leg_nbr wf1 hy)).elim
        · rw [if_neg (by rintro (c | c); exact yb c; exact yr c)] at ex
          rw [ex, if_neg (by rintro (⟨_, c⟩ | ⟨c, _⟩); exact yb c; exact hab c)]
          exact hx
      · exact absurd c kr
    · rw [if_neg (by rintro (⟨c, _⟩ | ⟨c, _⟩); exact ka c; exact kb c)]
      rcases c with ⟨za, rfl⟩ | ⟨rfl, c⟩
      · by_cases yb : y = b ∨ y = rid
        · rw [if_pos yb] at ex
          rcases yb with rfl | rfl
          · rw [ex]; exact hz
          · exact absurd hl (leg_target_isNode h hz)
        · rw [if_neg yb] at ex; rw [ex]; exact hz
      · rcases c with rfl | rfl
        · rw [if_neg (by rintro (c | c); exact hab c; exact har c)] at ex
          rw [ex]; exact hz
        · rw [if_pos (Or.inr rfl)] at ex
          rw [ex] at nk
          exact (tri (bl37_leg_nbr h hz) nk).elim

/-- **`split_qr_contract_r_to_neighbour(a, b)` changes only its own bond**: every virtual leg of the result is an end
    of the bond `a – b` with the new dimension `bd`, or is the leg (same neighbour, same axis) the same node had
    before.  Hypotheses: well-formedness and an unused identifier for the R tensor (`uuid1`). -/
theorem bl37_centre_move_bond_local {t t' : TTN} {a b rid : Id} {bd : Nat} (h : t.WF) (hl : t.N rid = none)
    (hs : t.centreMove a b rid bd = some t') : BondLocal t t' a b bd := by
  obtain ⟨w', _, A0, hA0, hS'⟩ := centre_move_full (TTN.WFX.ofWF h) hl hs
  have hw' := w'.wf
  have hback : ∀ k x, bl37Nbr t' k x → bl37Nbr t k x := by
    intro k x n
    rcases hS' with ⟨_, e⟩ | ⟨_, e⟩
    · exact bl37_nbr_of_promote e n
    · exact bl37_nbr_of_demote e n
  unfold TTN.centreMove at hs
  cases hA : dget t.nodes a with
  | none => simp [hA, bind, Option.bind] at hs
  | some A =>
    have hAN : t.N a = some A := hA
    have har : ¬ rid = a := by intro e; rw [e, hAN] at hl; simp at hl
    simp only [hA, bind, Option.bind] at hs
    unfold TTN.canonSpecs at hs
    by_cases hp : A.parent = some b
    · simp only [hp, if_true] at hs
      have hroot : A.isRoot = false := by simp [NodeS.isRoot, hp]
      rw [hroot] at hs
      cases hs1 : t.splitNodes a ⟨none, A.children, TTN.openIdx A, false⟩ ⟨some b, [], [], false⟩ a rid bd with
      | none => simp [hs1] at hs
      | some t1 =>
        simp only [hs1] at hs
        obtain ⟨w1, S1, _⟩ := split_up (TTN.WFX.ofWF h) hAN hp hl rfl (fun _ => rfl) hs1
        have adm : SplitAdm t a A ⟨none, A.children, TTN.openIdx A, false⟩ ⟨some b, [], [], false⟩ a rid := by
          refine ⟨hAN, Or.inl rfl, Or.inr hl, by simp, ?_⟩
          exact Or.inl ⟨b, hp, rfl, rfl, Or.inr ⟨rfl, rfl⟩⟩
        obtain ⟨B, hB, _⟩ := parent_node h hAN hp
        have e_rid : t1.S rid = some (some b, [a]) := by rw [S1]; simp [splitS]
        obtain ⟨cch, e_a⟩ := w1.wf.str.down rid _ _ a e_rid (by simp)
        exact bl37_cm_core h hl (by rw [hB]; simp) adm hs1 hs (Or.inl ⟨_, e_a⟩) (Or.inl ⟨_, e_rid⟩)
          (Or.inl ⟨A.children, by rw [TTN.S_eq hAN, hp]⟩) hback hw'
    · simp only [hp, if_false] at hs
      by_cases hb : b ∈ A.children
      · simp only [hb, not_true_eq_false, if_false] at hs
        cases hs1 : t.splitNodes a ⟨A.parent, A.children.erase b, TTN.openIdx A, A.isRoot⟩ ⟨none, [b], [], false⟩ a rid bd with
        | none => simp [hs1] at hs
        | some t1 =>
          simp only [hs1] at hs
          obtain ⟨w1, S1, _⟩ := split_down (TTN.WFX.ofWF h) hAN hb hl (fun _ => rfl) hs1
          have adm : SplitAdm t a A ⟨A.parent, A.children.erase b, TTN.openIdx A, A.isRoot⟩ ⟨none, [b], [], false⟩
              a rid := by
            refine ⟨hAN, Or.inl rfl, Or.inr hl, ?_, ?_⟩
            · simp only
              have : (A.children.erase b ++ [b]).Perm (b :: A.children.erase b) := List.perm_append_comm
              exact this.trans (List.perm_cons_erase hb).symm
            · cases hp' : A.parent with
              | none => exact Or.inr ⟨rfl, rfl, rfl, Or.inl ⟨by simp [NodeS.isRoot, hp'], rfl⟩⟩
              | some p => exact Or.inl ⟨p, rfl, by simp [NodeS.isRoot, hp'], rfl, Or.inl ⟨rfl, rfl⟩⟩
          obtain ⟨B, hB, hBp⟩ := child_node h hAN hb
          have e_rid : t1.S rid = some (some a, [b]) := by rw [S1]; simp [splitS, har]
          obtain ⟨cch, e_b⟩ := w1.wf.str.down rid _ _ b e_rid (by simp)
          exact bl37_cm_core h hl (by rw [hB]; simp) adm hs1 hs (Or.inr ⟨_, e_rid⟩) (Or.inr ⟨_, e_b⟩)
            (Or.inr ⟨B.children, by rw [TTN.S_eq hB, hBp]⟩) hback hw'
      · simp [hb] at hs

end Ptn.C10
