import Ptn.C17.Linear
import Ptn.C17.Path
/-! The sweep ORDER of `svd_truncation` on the tree model of C17 (`RTree`, read-only import).

```
update_path = tree.linearise()                      -- post-order, root last   (`RTree.postorder`)
for node_id in update_path[:-1]:                    -- `svdCutNodes`
    tree.move_orthogonalization_center(node_id)
    contract_and_split_with_parent(node_id, ...)    -- cuts the bond (node_id, tree.nodes[node_id].parent)
```
`svdCutEdges` is the list of (node, parent) pairs handed to the truncated SVD, in order; `none` if some node of
`update_path[:-1]` has no parent (the library would raise on `contract_nodes(node_id, None)`).  Core Lean only. -/
namespace Ptn.C10
open Ptn.C17 Ptn.C17.RTree

/-- `tree.nodes[x].parent` on the tree model: the first (parent, child) pair whose child is `x` -/
def svdParent? (t : RTree) (x : Nat) : Option Nat := ((edges t).find? (fun e => e.2 == x)).map (·.1)

/-- `update_path[:-1]` -/
def svdCutNodes (t : RTree) : List Nat := (postorder t).dropLast

/-- pair every node of the list with its parent; fails when one has none -/
def svdPairUp (t : RTree) : List Nat → Option (List (Nat × Nat))
  | [] => some []
  | x :: xs =>
    match svdParent? t x, svdPairUp t xs with
    | some p, some r => some ((x, p) :: r)
    | _, _ => none

/-- the bonds cut by the sweep, in order, as (node, parent) -/
def svdCutEdges (t : RTree) : Option (List (Nat × Nat)) := svdPairUp t (svdCutNodes t)

theorem svd37_edges_map_snd :
    (∀ t : RTree, (edges t).map (·.2) = idsL t.kids) ∧
    (∀ (ts : List RTree) (i : Nat), (edgesL i ts).map (·.2) = idsL ts) := by
  apply RTree.induct
  · intro i ks ih
    simpa [kids] using ih i
  · simp
  · intro t ts iht ihts i
    simp only [edgesL_cons, List.map_cons, List.map_append, idsL_cons, iht, ihts i]
    rw [ids_eq_rid_cons t]; simp

theorem svd37_nodup_of_map {α β : Type} (f : α → β) {l : List α} (h : (l.map f).Nodup) : l.Nodup := by
  unfold List.Nodup at *
  rw [List.pairwise_map] at h
  exact h.imp (fun {a b} hab e => hab (congrArg f e))

theorem svd37_unique_of_map_snd {l : List (Nat × Nat)} (h : (l.map (·.2)).Nodup) {p q x : Nat}
    (hp : (p, x) ∈ l) (hq : (q, x) ∈ l) : p = q := by
  induction l with
  | nil => simp at hp
  | cons e l ih =>
    simp only [List.map_cons, List.nodup_cons, List.mem_map, not_exists, not_and] at h
    simp only [List.mem_cons] at hp hq
    rcases hp with rfl | hp <;> rcases hq with hq | hq
    · exact (Prod.mk.inj hq).1.symm
    · exact absurd rfl (h.1 (q, x) hq)
    · subst hq; exact absurd rfl (h.1 (p, x) hp)
    · exact ih h.2 hp hq

theorem svd37_kids_nodup {t : RTree} (hwf : t.WF) : (idsL t.kids).Nodup ∧ t.rid ∉ idsL t.kids := by
  unfold WF at hwf
  rw [ids_eq_rid_cons, List.nodup_cons] at hwf
  exact ⟨hwf.2, hwf.1⟩

/-- under `WF` the parent lookup is exactly the edge relation -/
theorem svdParent?_eq_some {t : RTree} (hwf : t.WF) {x p : Nat} :
    svdParent? t x = some p ↔ (p, x) ∈ edges t := by
  have hnd : ((edges t).map (·.2)).Nodup := by rw [svd37_edges_map_snd.1 t]; exact (svd37_kids_nodup hwf).1
  unfold svdParent?
  constructor
  · intro h
    cases hf : (edges t).find? (fun e => e.2 == x) with
    | none => simp [hf] at h
    | some e =>
      rw [hf] at h
      simp only [Option.map_some, Option.some.injEq] at h
      have h1 := List.find?_some hf
      have h2 := List.mem_of_find?_eq_some hf
      simp only [beq_iff_eq] at h1
      obtain ⟨a, b⟩ := e
      simp only at h h1; subst h; subst h1; exact h2
  · intro h
    cases hf : (edges t).find? (fun e => e.2 == x) with
    | none =>
      have := List.find?_eq_none.mp hf (p, x) h
      simp at this
    | some e =>
      have h1 := List.find?_some hf
      have h2 := List.mem_of_find?_eq_some hf
      simp only [beq_iff_eq] at h1
      obtain ⟨a, b⟩ := e
      simp only at h1; subst h1
      simp only [Option.map_some, Option.some.injEq]
      exact svd37_unique_of_map_snd hnd h2 h

theorem svdPairUp_spec (t : RTree) :
    ∀ l : List Nat, (∀ x ∈ l, ∃ p, svdParent? t x = some p) →
      ∃ L, svdPairUp t l = some L ∧ L.map (·.1) = l ∧ ∀ e ∈ L, svdParent? t e.1 = some e.2 := by
  intro l
  induction l with
  | nil => intro _; exact ⟨[], rfl, rfl, by simp⟩
  | cons x xs ih =>
    intro h
    obtain ⟨p, hp⟩ := h x (by simp)
    obtain ⟨L, hL, hm, he⟩ := ih (fun y hy => h y (by simp [hy]))
    refine ⟨(x, p) :: L, by simp [svdPairUp, hp, hL], by simp [hm], ?_⟩
    intro e hmem
    rcases List.mem_cons.mp hmem with rfl | hmem
    · exact hp
    · exact he e hmem

/-- `update_path[:-1]` lists exactly the nodes below the root, each once -/
theorem svdCutNodes_spec {t : RTree} (hwf : t.WF) :
    (svdCutNodes t).Nodup ∧ ∀ x, x ∈ svdCutNodes t ↔ x ∈ idsL t.kids := by
  cases t with
  | node i ks =>
    have hp := postorder_perm.2 ks
    simp only [svdCutNodes, postorder_node, List.dropLast_concat, kids]
    exact ⟨hp.symm.nodup (svd37_kids_nodup hwf).1, fun x => hp.mem_iff⟩

/-! ### the whole sweep: centre moves along `path_from_to(centre, node_id)`, then the cut; the parent is the new centre -/

/-- consecutive pairs of a path -/
def svdHopsOf : List Nat → List (Nat × Nat)
  | a :: b :: rest => (a, b) :: svdHopsOf (b :: rest)
  | _ => []

/-- `move_orthogonalization_center(x)` from centre `c`: one QR move per edge of `path_from_to(c, x)` -/
def svdHops (t : RTree) (c x : Nat) : Option (List (Nat × Nat)) := (pathFromTo t c x).map svdHopsOf

/-- event pairs of the sweep: `false` = QR move `(from, to)`, `true` = cut `(node, parent)`.  `c` = current centre. -/
def svdSweepEvents (t : RTree) : Nat → List (Nat × Nat) → Option (List (Bool × Nat × Nat))
  | _, [] => some []
  | c, (x, p) :: r =>
    match svdHops t c x, svdSweepEvents t p r with
    | some hs, some rest => some (hs.map (fun e => (false, e)) ++ (true, x, p) :: rest)
    | _, _ => none

/-- the modelled sweep of `svd_truncation` started with the orthogonality centre at `c` -/
def svdSweep (t : RTree) (c : Nat) : Option (List (Bool × Nat × Nat)) :=
  (svdCutEdges t).bind (svdSweepEvents t c)

theorem svdHopsOf_adj {t : RTree} : ∀ {p : List Nat}, Chain (Adj t) p → ∀ e ∈ svdHopsOf p, Adj t e.1 e.2
  | [], _ => by simp [svdHopsOf]
  | [_], _ => by simp [svdHopsOf]
  | a :: b :: rest, h => by
    intro e he
    simp only [svdHopsOf, List.mem_cons] at he
    rcases he with rfl | he
    · exact h.1
    · exact svdHopsOf_adj h.2 e he

/-- the sweep is total when centre and cut nodes are nodes of the tree; every event runs along an edge; the cuts
    among its events are the given ones, in order -/
theorem svdSweepEvents_spec {t : RTree} (hwf : t.WF) :
    ∀ (L : List (Nat × Nat)) (c : Nat), c ∈ ids t → (∀ e ∈ L, (e.2, e.1) ∈ edges t) →
      ∃ E, svdSweepEvents t c L = some E ∧ (∀ e ∈ E, Adj t e.2.1 e.2.2) ∧
        (E.filter (·.1)).map (·.2) = L := by
  intro L
  induction L with
  | nil => intro c _ _; exact ⟨[], rfl, by simp, rfl⟩
  | cons xp r ih =>
    intro c hc hL
    obtain ⟨x, p⟩ := xp
    have hedge : (p, x) ∈ edges t := hL (x, p) (by simp)
    obtain ⟨hp, hx⟩ := edge_mem_ids hedge
    obtain ⟨path, hpath, hsp⟩ := pathFromTo_isSimplePath hwf hc hx
    obtain ⟨E, hE, hadj, hf⟩ := ih p hp (fun e he => hL e (by simp [he]))
    refine ⟨(svdHopsOf path).map (fun e => (false, e)) ++ (true, x, p) :: E, ?_, ?_, ?_⟩
    · simp [svdSweepEvents, svdHops, hpath, hE]
    · intro e he
      simp only [List.mem_append, List.mem_map, List.mem_cons] at he
      rcases he with ⟨e', he', rfl⟩ | rfl | he
      · exact svdHopsOf_adj hsp.2.2.2.1 e' he'
      · exact Or.inr hedge
      · exact hadj e he
    · rw [List.filter_append, List.filter_cons_of_pos (by simp)]
      have : ((svdHopsOf path).map (fun e => (false, e))).filter (·.1) = [] := by
        rw [List.filter_eq_nil_iff]; intro a ha
        obtain ⟨e', _, rfl⟩ := List.mem_map.mp ha; simp
      rw [this]; simp [hf]

end Ptn.C10
