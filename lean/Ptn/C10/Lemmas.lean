import Ptn.C10.Spec
/-! Helper lemmas for C10 (core Lean only). -/
namespace Ptn.C10

theorem desc_tail {a : Rat} {t : List Rat} (h : Desc (a :: t)) : Desc t := by
  unfold Desc at *; exact (List.pairwise_cons.mp h).2

theorem desc_head_ge {a : Rat} {t : List Rat} (h : Desc (a :: t)) : ∀ b ∈ t, b ≤ a := by
  unfold Desc at *; exact (List.pairwise_cons.mp h).1

theorem filter_eq_take_countP (P : Rat → Bool) (s : List Rat) (hd : Desc s)
    (hmono : ∀ a b, b ≤ a → P b = true → P a = true) :
    s.filter P = s.take (s.countP P) := by
  induction s with
  | nil => simp
  | cons a t ih =>
    have ih' := ih (desc_tail hd)
    by_cases ha : P a = true
    · simp [ha, ih']
    · have hall : ∀ b ∈ t, ¬ P b = true := by
        intro b hb hPb
        exact ha (hmono a b (desc_head_ge hd b hb) hPb)
      have h1 : t.filter P = [] := by
        rw [List.filter_eq_nil_iff]; exact hall
      have h2 : t.countP P = 0 := by
        rw [List.countP_eq_zero]; exact hall
      simp [ha, h1, h2]

theorem prefix_iff_lt_countP (P : Rat → Bool) (s : List Rat) (hd : Desc s)
    (hmono : ∀ a b, b ≤ a → P b = true → P a = true) (i : Nat) (hi : i < s.length) :
    P s[i] = true ↔ i < s.countP P := by
  induction s generalizing i with
  | nil => simp at hi
  | cons a t ih =>
    by_cases ha : P a = true
    · cases i with
      | zero => simp [ha]
      | succ j =>
        have := ih (desc_tail hd) j (by simpa using hi)
        simp [ha, this]
    · have hall : ∀ b ∈ t, ¬ P b = true := by
        intro b hb hPb
        exact ha (hmono a b (desc_head_ge hd b hb) hPb)
      have h2 : t.countP P = 0 := by
        rw [List.countP_eq_zero]; exact hall
      cases i with
      | zero => simp [ha, h2]
      | succ j =>
        have hmem : t[j]'(by simpa using hi) ∈ t := List.getElem_mem _
        have := hall _ hmem
        simp [ha, h2, this]

theorem above_fin (q x : Rat) : above (.fin q) x = decide (q < x) := by
  simp [above, Cut.gt]

theorem above_mono (c : Cut) (a b : Rat) (h : b ≤ a) (hb : above c b = true) :
    above c a = true := by
  cases c with
  | nan => simp [above, Cut.gt] at hb
  | ninf => simp [above, Cut.gt]
  | pinf => simp [above, Cut.gt] at hb
  | fin q =>
    simp [above, Cut.gt] at hb ⊢
    grind

theorem survives_mono (rel tot : Tol) (s0 a b : Rat) (h : b ≤ a)
    (hb : survives rel tot s0 b = true) : survives rel tot s0 a = true := by
  have key : ∀ t : Tol, t.lt b = true → t.lt a = true := by
    intro t ht
    cases t with
    | ninf => rfl
    | pinf => simp [Tol.lt] at ht
    | fin q =>
      simp [Tol.lt] at ht ⊢
      grind
  simp [survives] at hb ⊢
  exact ⟨key _ hb.1, key _ hb.2⟩

theorem above_iff_survives (rel tot : Tol) (s0 x : Rat) (h0 : 0 ≤ s0) (hx : x ≤ s0) :
    above (pyMax (rel.mul s0) tot.toCut) x = survives rel tot s0 x := by
  by_cases hz : s0 = 0
  · subst hz
    have hx' : ¬ (0 < x) := Rat.not_lt.mpr hx
    cases rel <;> cases tot <;>
      simp [Tol.mul, pyMax, Cut.gt, above, survives, relTimes, Tol.lt, Tol.toCut, hx'] <;> grind
  · have hpos : 0 < s0 := Rat.lt_of_le_of_ne h0 (Ne.symm hz)
    cases rel <;> cases tot <;>
      simp [Tol.mul, pyMax, Cut.gt, above, survives, relTimes, Tol.lt, Tol.toCut, hz, hpos] <;> grind

theorem rat_sum_append (a b : List Rat) : (a ++ b).sum = a.sum + b.sum := by
  induction a with
  | nil => simp [Rat.zero_add]
  | cons x t ih => simp [ih, Rat.add_assoc]

theorem rat_sum_reverse (a : List Rat) : a.reverse.sum = a.sum := by
  induction a with
  | nil => simp
  | cons x t ih => simp [ih]; grind

theorem mul_self_nonneg (x : Rat) : 0 ≤ x * x := by
  rcases Rat.le_total (a := 0) (b := x) with h | h
  · exact Rat.mul_nonneg h h
  · have : 0 ≤ -x := by grind
    have := Rat.mul_nonneg this this
    grind

theorem normSq_nil : normSq [] = 0 := rfl
theorem normSq_cons (x : Rat) (t : List Rat) : normSq (x :: t) = x * x + normSq t := by
  simp [normSq]
theorem normSq_append (a b : List Rat) : normSq (a ++ b) = normSq a + normSq b := by
  simp [normSq]
theorem normSq_reverse (a : List Rat) : normSq a.reverse = normSq a := by
  unfold normSq; rw [List.map_reverse, rat_sum_reverse]
theorem normSq_nonneg (a : List Rat) : 0 ≤ normSq a := by
  induction a with
  | nil => simp [normSq]
  | cons x t ih => rw [normSq_cons]; exact Rat.add_nonneg (mul_self_nonneg x) ih

theorem normSq_drop_anti (s : List Rat) (j j' : Nat) (h : j ≤ j') :
    normSq (s.drop j') ≤ normSq (s.drop j) := by
  have h1 : s.drop j = (s.drop j).take (j' - j) ++ s.drop j' := by
    have := (List.take_append_drop (j' - j) (s.drop j)).symm
    rw [List.drop_drop] at this
    have e : j + (j' - j) = j' := by omega
    rw [e] at this
    exact this
  rw [h1, normSq_append]
  have := normSq_nonneg ((s.drop j).take (j' - j))
  grind

/-- `comp_val` as a function of the running sum. -/
def compOf (normsq : Rat) (norming : Bool) (w : Rat) : Rat := if norming then w / normsq else w

theorem sumScan_spec (len : Nat) (normsq : Rat) (thresh : Cut) (norming : Bool)
    (rest : List Rat) (acc : Rat) (i : Nat) (hlen : i + rest.length ≤ len) :
    (sumScan len normsq thresh norming rest acc i = 0 ∧
      ∀ m, m < rest.length →
        above thresh (compOf normsq norming (acc + normSq (rest.take (m + 1)))) = false) ∨
    (∃ m, m < rest.length ∧ sumScan len normsq thresh norming rest acc i = len - (i + m) ∧
      above thresh (compOf normsq norming (acc + normSq (rest.take (m + 1)))) = true ∧
      ∀ m', m' < m →
        above thresh (compOf normsq norming (acc + normSq (rest.take (m' + 1)))) = false) := by
  induction rest generalizing acc i with
  | nil => left; simp [sumScan]
  | cons x rest ih =>
    have hstep : ∀ m, acc + normSq ((x :: rest).take (m + 1 + 1)) =
        (acc + x * x) + normSq (rest.take (m + 1)) := by
      intro m; simp [normSq_cons]; grind
    have h0 : acc + normSq ((x :: rest).take (0 + 1)) = acc + x * x := by
      simp [normSq, Rat.add_zero]
    by_cases hab : above thresh (compOf normsq norming (acc + x * x)) = true
    · right
      refine ⟨0, by simp, ?_, ?_, ?_⟩
      · simp [sumScan, compOf] at hab ⊢
        simp [hab]
      · rw [h0]; exact hab
      · intro m' hm'; omega
    · have hab' : above thresh (compOf normsq norming (acc + x * x)) = false := by
        simpa using hab
      have hrec : sumScan len normsq thresh norming (x :: rest) acc i =
          sumScan len normsq thresh norming rest (acc + x * x) (i + 1) := by
        simp [sumScan, compOf] at hab' ⊢
        simp [hab']
      have hl : (i + 1) + rest.length ≤ len := by simp at hlen; omega
      rcases ih (acc + x * x) (i + 1) hl with ⟨hz, hall⟩ | ⟨m, hm, hres, hab2, hbefore⟩
      · left
        refine ⟨by rw [hrec]; exact hz, ?_⟩
        intro m hm
        cases m with
        | zero => rw [h0]; exact hab'
        | succ m =>
          rw [hstep]; exact hall m (by simp at hm; omega)
      · right
        refine ⟨m + 1, by simp; omega, ?_, ?_, ?_⟩
        · rw [hrec, hres]; congr 1; omega
        · rw [hstep]; exact hab2
        · intro m' hm'
          cases m' with
          | zero => rw [h0]; exact hab'
          | succ m' => rw [hstep]; exact hbefore m' (by omega)

theorem normSq_take_reverse (s : List Rat) (n : Nat) :
    normSq (s.reverse.take n) = normSq (s.drop (s.length - n)) := by
  rw [List.take_reverse, normSq_reverse]

theorem compOf_eq_relWeight (s : List Rat) (norming : Bool) (n : Nat) :
    compOf (normSq s) norming (0 + normSq (s.reverse.take n)) = relWeight s norming (s.length - n) := by
  rw [normSq_take_reverse, Rat.zero_add]
  rfl

theorem above_sq_false_iff (tot : Tol) (w : Rat) :
    above tot.sq w = false ↔ (match tot with | .fin t => w ≤ t * t | _ => True) := by
  cases tot <;> simp [Tol.sq, above, Cut.gt, Rat.not_lt]

theorem relWeight_anti (s : List Rat) (norming : Bool) (hn : normSq s ≠ 0) (j j' : Nat)
    (h : j ≤ j') : relWeight s norming j' ≤ relWeight s norming j := by
  have hpos : 0 < normSq s := Rat.lt_of_le_of_ne (normSq_nonneg s) (Ne.symm hn)
  have hle := normSq_drop_anti s j j' h
  unfold relWeight tailWeight
  cases norming
  · simpa using hle
  · simp only [if_true]
    rw [Rat.div_def, Rat.div_def]
    exact Rat.mul_le_mul_of_nonneg_right hle (Rat.le_of_lt (Rat.inv_pos.mpr hpos))

theorem sumTruncIndex_spec (s : List Rat) (tot : Tol) (norming : Bool) (hn : normSq s ≠ 0) :
    sumTruncIndex s tot norming ≤ s.length ∧
    Fits s tot norming (sumTruncIndex s tot norming) ∧
    ∀ j, j < sumTruncIndex s tot norming → ¬ Fits s tot norming j := by
  have hfits : ∀ j, Fits s tot norming j ↔ above tot.sq (relWeight s norming j) = false := by
    intro j; rw [above_sq_false_iff]; unfold Fits; cases tot <;> simp
  have hlast : Fits s tot norming s.length := by
    unfold Fits relWeight tailWeight
    cases tot <;> simp
    rename_i t
    have : normSq ([] : List Rat) = 0 := rfl
    cases norming <;> simp [this, Rat.div_def, Rat.zero_mul] <;> exact mul_self_nonneg t
  unfold sumTruncIndex
  simp only [hn, if_false]
  have hl : 0 + s.reverse.length ≤ s.length := by simp
  rcases sumScan_spec s.length (normSq s) tot.sq norming s.reverse 0 0 hl with
    ⟨hz, hall⟩ | ⟨m, hm, hres, hab, hbefore⟩
  · rw [hz]
    refine ⟨Nat.zero_le _, ?_, by intro j hj; omega⟩
    by_cases he : s.length = 0
    · rw [← he]; exact hlast
    · have := hall (s.length - 1) (by simp; omega)
      rw [compOf_eq_relWeight] at this
      rw [hfits]
      have e : s.length - (s.length - 1 + 1) = 0 := by omega
      rw [e] at this; exact this
  · simp only [List.length_reverse] at hm
    rw [hres]
    simp only [Nat.zero_add]
    refine ⟨by omega, ?_, ?_⟩
    · cases m with
      | zero => simpa using hlast
      | succ m =>
        have := hbefore m (by omega)
        rw [compOf_eq_relWeight] at this
        rw [hfits]; exact this
    · intro j hj
      rw [hfits]
      rw [compOf_eq_relWeight] at hab
      have hle := relWeight_anti s norming hn j (s.length - (m + 1)) (by omega)
      have := above_mono tot.sq _ _ hle hab
      simp [this]

theorem valid_bond (p : Params) (hp : p.Valid) : ∀ d, p.maxBond = some d → 0 < d := by
  intro d hd
  unfold Params.Valid Params.bondArg checkParams at hp
  rw [hd] at hp
  simp only at hp
  by_cases h : d = 0
  · simp [h] at hp
  · omega

theorem desc_le_head (s : List Rat) (hs : s ≠ []) (hd : Desc s) : ∀ x ∈ s, x ≤ s.head hs := by
  cases s with
  | nil => exact absurd rfl hs
  | cons a t =>
    intro x hx
    rcases List.mem_cons.mp hx with h | h
    · subst h; exact Rat.le_refl
    · exact desc_head_ge hd x h

/-- The value rule selects the prefix of the values strictly above the threshold. -/
theorem valueTruncation_eq_take (s : List Rat) (tot rel : Tol) (hs : s ≠ []) (hnn : NonNeg s)
    (hd : Desc s) :
    valueTruncation s tot rel = s.take (s.countP (survives rel tot (s.head hs))) := by
  cases s with
  | nil => exact absurd rfl hs
  | cons a t =>
    have h0 : 0 ≤ a := hnn a (by simp)
    have hle := desc_le_head (a :: t) hs hd
    simp only [List.head_cons] at hle ⊢
    have hcongr : (a :: t).filter (above (pyMax (rel.mul a) tot.toCut)) =
        (a :: t).filter (survives rel tot a) := by
      apply List.filter_congr
      intro x hx
      exact above_iff_survives rel tot a x h0 (hle x hx)
    unfold valueTruncation
    simp only
    rw [hcongr]
    exact filter_eq_take_countP _ _ hd (fun a b h hb => survives_mono rel tot _ a b h hb)

theorem sumTruncIndex_le (s : List Rat) (tot : Tol) (norming : Bool) :
    sumTruncIndex s tot norming ≤ s.length := by
  by_cases hn : normSq s = 0
  · simp [sumTruncIndex, hn]
  · exact (sumTruncIndex_spec s tot norming hn).1

/-- Number of values the rule selects. -/
def selLen (s : List Rat) (p : Params) (hs : s ≠ []) : Nat :=
  if p.sumTrunc then sumTruncIndex s p.totalTol p.sumRenorm
  else s.countP (survives p.relTol p.totalTol (s.head hs))

theorem selLen_le (s : List Rat) (p : Params) (hs : s ≠ []) : selLen s p hs ≤ s.length := by
  unfold selLen; split
  · exact sumTruncIndex_le _ _ _
  · exact List.countP_le_length

theorem selected_eq_take (s : List Rat) (p : Params) (hs : s ≠ []) (hnn : NonNeg s)
    (hd : Desc s) : selected s p = s.take (selLen s p hs) := by
  unfold selected selLen
  split
  · rfl
  · exact valueTruncation_eq_take s _ _ hs hnn hd

theorem capSplit_take (s : List Rat) (n : Nat) (mb : Option Nat) (_hs : s ≠ [])
    (hn : n ≤ s.length) (hmb : ∀ d, mb = some d → 0 < d) :
    capSplit s (s.take n) mb = (s.take (capMin (max n 1) mb), s.drop (capMin (max n 1) mb)) := by
  have hlen : (s.take n).length = n := by simp; omega
  cases mb with
  | none =>
    simp only [capSplit, capMin, hlen]
    by_cases h0 : n = 0
    · subst h0; simp
    · have : max n 1 = n := by omega
      simp [h0, this]
  | some d =>
    have hdpos := hmb d rfl
    simp only [capSplit, capMin, hlen]
    by_cases h1 : n > d
    · have : min (max n 1) d = d := by omega
      simp [h1, this, List.take_take]; omega
    · by_cases h0 : n = 0
      · subst h0
        have h3 : min (max 0 1) d = 1 := by omega
        have h4 : ¬ (0 > d) := by omega
        rw [h3]
        simp [h4]
      · have : min (max n 1) d = n := by omega
        simp [h1, h0, this]

/-- The kept vector for a prefix of length `k`. -/
def keptOf (s : List Rat) (renorm : Bool) (k : Nat) : List Rat :=
  if renorm then renormalise s (s.take k) else s.take k

/-- Length of the kept prefix. -/
def keptLen (s : List Rat) (p : Params) (hs : s ≠ []) : Nat :=
  capMin (max (selLen s p hs) 1) p.maxBond

theorem truncate_eq (s : List Rat) (p : Params) (hs : s ≠ []) (hnn : NonNeg s) (hd : Desc s)
    (hp : p.Valid) :
    truncate s p = some (keptOf s p.renorm (keptLen s p hs), s.drop (keptLen s p hs)) := by
  have hl : s.length ≠ 0 := by
    intro h; exact hs (List.length_eq_zero_iff.mp h)
  unfold truncate
  simp only [hl, if_false]
  rw [selected_eq_take s p hs hnn hd,
    capSplit_take s _ p.maxBond hs (selLen_le s p hs) (valid_bond p hp)]
  rfl

theorem keptLen_bounds (s : List Rat) (p : Params) (hs : s ≠ []) (hp : p.Valid) :
    1 ≤ keptLen s p hs ∧ keptLen s p hs ≤ s.length ∧ ∀ d, p.maxBond = some d → keptLen s p hs ≤ d := by
  have hl : 1 ≤ s.length := by
    cases s with
    | nil => exact absurd rfl hs
    | cons a t => simp
  have hsel := selLen_le s p hs
  have hb := valid_bond p hp
  unfold keptLen
  cases hmb : p.maxBond with
  | none => simp [capMin]; omega
  | some d =>
    have := hb d hmb
    simp [capMin]; omega

theorem sum_nonneg (l : List Rat) (h : NonNeg l) : 0 ≤ l.sum := by
  induction l with
  | nil => simp
  | cons a t ih =>
    simp only [List.sum_cons]
    exact Rat.add_nonneg (h a (by simp)) (ih (fun x hx => h x (by simp [hx])))

theorem nonneg_take (s : List Rat) (h : NonNeg s) (k : Nat) : NonNeg (s.take k) :=
  fun x hx => h x (List.mem_of_mem_take hx)

theorem nonneg_drop (s : List Rat) (h : NonNeg s) (k : Nat) : NonNeg (s.drop k) :=
  fun x hx => h x (List.mem_of_mem_drop hx)

theorem sum_take_le_sum (s : List Rat) (h : NonNeg s) (k : Nat) : (s.take k).sum ≤ s.sum := by
  have e : s.sum = (s.take k).sum + (s.drop k).sum := by
    rw [← rat_sum_append, List.take_append_drop]
  have := sum_nonneg _ (nonneg_drop s h k)
  grind

theorem head_le_sum_take (s : List Rat) (hs : s ≠ []) (h : NonNeg s) (k : Nat) (hk : 1 ≤ k) :
    s.head hs ≤ (s.take k).sum := by
  cases s with
  | nil => exact absurd rfl hs
  | cons a t =>
    obtain ⟨j, rfl⟩ : ∃ j, k = j + 1 := ⟨k - 1, by omega⟩
    simp only [List.take_succ_cons, List.sum_cons, List.head_cons]
    have := sum_nonneg _ (nonneg_take t (fun x hx => h x (by simp [hx])) j)
    grind

theorem sum_take_zero (s : List Rat) (hs : s ≠ []) (hnn : NonNeg s) (hd : Desc s)
    (h0 : s.head hs = 0) (k : Nat) : (s.take k).sum = 0 := by
  have hall : ∀ x ∈ s.take k, x = 0 := by
    intro x hx
    have hx' := List.mem_of_mem_take hx
    have h1 := desc_le_head s hs hd x hx'
    have h2 := hnn x hx'
    grind
  generalize s.take k = l at hall
  induction l with
  | nil => simp
  | cons a t ih =>
    simp only [List.sum_cons]
    rw [hall a (by simp), ih (fun x hx => hall x (by simp [hx]))]
    simp [Rat.add_zero]

theorem sum_map_mul (c : Rat) (l : List Rat) : (l.map (c * ·)).sum = c * l.sum := by
  induction l with
  | nil => simp [Rat.mul_zero]
  | cons a t ih => simp [ih, Rat.mul_add]

theorem renormalise_pos (s : List Rat) (k : Nat) (hpos : 0 < (s.take k).sum) :
    renormalise s (s.take k) = (s.take k).map (renormFactor s k * ·) := by
  have hne : (s.take k).sum ≠ 0 := by grind
  unfold renormalise renormFactor
  simp only [hne, if_false]
  apply List.map_congr_left
  intro x _
  simp only [Rat.div_def]
  grind

theorem renormalise_zero (s newS : List Rat) (hz : newS.sum = 0) : renormalise s newS = newS := by
  unfold renormalise
  simp [hz]

theorem renormFactor_ge_one (s : List Rat) (hnn : NonNeg s) (k : Nat) (hpos : 0 < (s.take k).sum) :
    1 ≤ renormFactor s k := by
  unfold renormFactor
  have hle := sum_take_le_sum s hnn k
  have hinv : 0 < ((s.take k).sum)⁻¹ := Rat.inv_pos.mpr hpos
  have h1 : (s.take k).sum * ((s.take k).sum)⁻¹ = 1 := Rat.mul_inv_cancel _ (by grind)
  have h2 := Rat.mul_le_mul_of_nonneg_right hle (Rat.le_of_lt hinv)
  rw [Rat.div_def]
  rw [h1] at h2; exact h2

theorem renorm_sum (s : List Rat) (k : Nat) (hpos : 0 < (s.take k).sum) :
    ((s.take k).map (renormFactor s k * ·)).sum = s.sum := by
  rw [sum_map_mul]
  unfold renormFactor
  exact Rat.div_mul_cancel (by grind)

theorem keptOf_length (s : List Rat) (renorm : Bool) (k : Nat) (hk : k ≤ s.length) :
    (keptOf s renorm k).length = k := by
  unfold keptOf renormalise
  cases renorm
  · simp; omega
  · simp only [if_true]
    by_cases hz : (s.take k).sum = 0
    · simp [hz]; omega
    · simp [hz]; omega

theorem rat_lt_of_lt_of_le {a b c : Rat} (h1 : a < b) (h2 : b ≤ c) : a < c := by grind

theorem all_zero_of_head_zero (s : List Rat) (hs : s ≠ []) (hnn : NonNeg s) (hd : Desc s)
    (h0 : s.head hs = 0) : ∀ x ∈ s, x = 0 := by
  intro x hx
  have h1 := desc_le_head s hs hd x hx
  have h2 := hnn x hx
  grind

theorem sum_zero_of_head_zero (s : List Rat) (hs : s ≠ []) (hnn : NonNeg s) (hd : Desc s)
    (h0 : s.head hs = 0) : s.sum = 0 := by
  have := sum_take_zero s hs hnn hd h0 s.length
  simpa using this

end Ptn.C10
