import Ptn.C02.TruncWF
/-! The loop bodies of `Ptn.C02.loop1 / loop2 / loop3` (`Ptn/C02/TruncWF.lean`) as separate step lemmas: what one
iteration of each of the three loops of `truncate_node` does to the structure invariant `Inv1 / Inv2 / Inv3`.  (In
C02 these steps are inlined in the inductions; the inductions of `BondAxes.lean` carry one more invariant - the axes
of the legs - and need the intermediate states.)  Core Lean only. -/
namespace Ptn.C10
open Ptn.C02 NodeS

theorem loop1_step {P : Prop} {O : Id → List Axis} {S0 : Id → Option Struct} {ids : TTN.TempIds} {n : Id}
    {gp : Option Id} {cs : List Id} (X : TruncCtx S0 ids n gp cs) {k : Nat} {c : Id} {R D : List Id} {t t1 : TTN}
    (hcs : cs = D ++ c :: R) (w : t.WFX P O) (inv : Inv1 S0 t.S ids n gp D (c :: R))
    (hstep : (do let (t0, _) ← t.access n; TTN.insertProjectors t0 n c ids k) = some t1) :
    t1.WFX P O ∧ t1.root = t.root ∧ Inv1 S0 t1.S ids n gp (D ++ [c]) R ∧
    (∃ cch, t.S c = some (some n, cch)) ∧ t.S (ids.ident c) = none ∧ t.S (ids.star c) = none ∧
      t.S (ids.proj c) = none := by
  have hc_mem : c ∈ cs := by rw [hcs]; simp
  have hnd := X.nd
  rw [hcs] at hnd
  have hcD : c ∉ D := by
    intro hm
    exact (List.nodup_append.mp hnd).2.2 c hm c (by simp) rfl
  have hcR : c ∉ R := by
    have := (List.nodup_append.mp hnd).2.1
    exact (List.nodup_cons.mp this).1
  obtain ⟨cch, hS0c⟩ := X.hc c hc_mem
  have hcn : c ≠ n := X.ne c hc_mem
  -- values of the current structure at the relevant keys
  have hSc : t.S c = some (some n, cch) := by
    rw [inv.frame c hcn hcD (fun c' _ => ⟨X.child_ne_star hc_mem c', X.child_ne_proj hc_mem c'⟩), hS0c]
  have fr : ∀ k, S0 k = none → k ≠ n → k ∉ D → (∀ c' ∈ D, k ≠ ids.star c' ∧ k ≠ ids.proj c') → t.S k = none := by
    intro k hk h1 h2 h3; rw [inv.frame k h1 h2 h3, hk]
  have hDnode : ∀ d ∈ D, ∃ st, S0 d = some st := by
    intro d hd
    obtain ⟨x, hx⟩ := X.hc d (by rw [hcs]; simp [hd])
    exact ⟨_, hx⟩
  have hn_ne_i : ids.ident c ≠ n := (X.node_ne_ident X.hn c).symm
  have hn_ne_s : ids.star c ≠ n := (X.node_ne_star X.hn c).symm
  have hn_ne_p : ids.proj c ≠ n := (X.node_ne_proj X.hn c).symm
  have hiD : ids.ident c ∉ D := fun hm => by
    obtain ⟨st, hst⟩ := hDnode _ hm; exact X.node_ne_ident hst c rfl
  have hsD : ids.star c ∉ D := fun hm => by
    obtain ⟨st, hst⟩ := hDnode _ hm; exact X.node_ne_star hst c rfl
  have hpD : ids.proj c ∉ D := fun hm => by
    obtain ⟨st, hst⟩ := hDnode _ hm; exact X.node_ne_proj hst c rfl
  have hSi : t.S (ids.ident c) = none :=
    fr _ (X.ok.fi c) hn_ne_i hiD (fun c' _ => ⟨X.ok.is_ c c', X.ok.ip c c'⟩)
  have hSs : t.S (ids.star c) = none :=
    fr _ (X.ok.fs c) hn_ne_s hsD (fun c' hc' => ⟨fun e => hcD (X.ok.sinj _ _ e ▸ hc'), X.ok.sp c c'⟩)
  have hSp : t.S (ids.proj c) = none :=
    fr _ (X.ok.fp c) hn_ne_p hpD (fun c' hc' => ⟨fun e => X.ok.sp c' c e.symm, fun e => hcD (X.ok.pinj _ _ e ▸ hc')⟩)
  obtain ⟨w1, R1, S1⟩ := trunc_step1 w inv.n_ hSc hSi hSs hSp (X.ok.is_ c c) (X.ok.ip c c) (X.ok.sp c c) hstep
  have hcDs : c ∉ D.map ids.star := by
    intro hm
    obtain ⟨d, _, e⟩ := List.mem_map.mp hm
    exact X.child_ne_star hc_mem d e.symm
  have hLmap : (D.map ids.star ++ c :: R).map (fun y => if y = c then ids.star c else y) =
      (D ++ [c]).map ids.star ++ R := by
    rw [List.map_append, map_ite_not_mem _ _ _ hcDs]
    simp [map_ite_not_mem _ _ _ hcR]
  have inv1 : Inv1 S0 t1.S ids n gp (D ++ [c]) R := by
    have hsn : ¬ n = ids.star c := fun e => hn_ne_s e.symm
    have hpn : ¬ n = ids.proj c := fun e => hn_ne_p e.symm
    refine ⟨?_, ?_, ?_, ?_, ?_⟩
    · rw [S1]
      have hnc : ¬ n = c := fun e => hcn e.symm
      simp only [hsn, hpn, hnc, if_false, if_true, hLmap]
    · intro d hd
      rw [S1]
      rcases List.mem_append.mp hd with hd | hd
      · have a1 : ¬ ids.star d = ids.star c := fun e => hcD (X.ok.sinj _ _ e ▸ hd)
        have a2 : ¬ ids.star d = ids.proj c := X.ok.sp d c
        have a3 : ¬ ids.star d = c := fun e => X.child_ne_star hc_mem d e.symm
        have a4 : ¬ ids.star d = n := fun e => X.node_ne_star X.hn d e.symm
        simp only [a1, a2, a3, a4, if_false]
        exact inv.st d hd
      · simp at hd; subst hd; simp
    · intro d hd
      rw [S1]
      rcases List.mem_append.mp hd with hd | hd
      · have a1 : ¬ ids.proj d = ids.star c := fun e => X.ok.sp c d e.symm
        have a2 : ¬ ids.proj d = ids.proj c := fun e => hcD (X.ok.pinj _ _ e ▸ hd)
        have a3 : ¬ ids.proj d = c := fun e => X.child_ne_proj hc_mem d e.symm
        have a4 : ¬ ids.proj d = n := fun e => X.node_ne_proj X.hn d e.symm
        simp only [a1, a2, a3, a4, if_false]
        exact inv.pr d hd
      · simp at hd; subst hd
        have : ¬ ids.proj d = ids.star d := fun e => X.ok.sp d d e.symm
        simp [this]
    · intro d hd dch hd0
      rw [S1]
      rcases List.mem_append.mp hd with hd | hd
      · have hdcs : d ∈ cs := by rw [hcs]; simp [hd]
        have a1 : ¬ d = ids.star c := X.child_ne_star hdcs c
        have a2 : ¬ d = ids.proj c := X.child_ne_proj hdcs c
        have a3 : ¬ d = c := fun e => hcD (e ▸ hd)
        have a4 : ¬ d = n := X.ne d hdcs
        simp only [a1, a2, a3, a4, if_false]
        exact inv.ch d hd dch hd0
      · simp at hd; subst hd
        have a1 : ¬ d = ids.star d := X.child_ne_star hc_mem d
        have a2 : ¬ d = ids.proj d := X.child_ne_proj hc_mem d
        rw [hS0c] at hd0; simp at hd0; subst hd0
        simp [a1, a2]
    · intro k h1 h2 h3
      rw [S1]
      have b1 : ¬ k = ids.star c := (h3 c (by simp)).1
      have b2 : ¬ k = ids.proj c := (h3 c (by simp)).2
      have b3 : ¬ k = c := fun e => h2 (by simp [e])
      simp only [b1, b2, b3, h1, if_false]
      exact inv.frame k h1 (fun hm => h2 (by simp [hm])) (fun c' hc' => h3 c' (by simp [hc']))
  exact ⟨w1, R1, inv1, ⟨cch, hSc⟩, hSi, hSs, hSp⟩

theorem loop2_step {P : Prop} {O : Id → List Axis} {S0 : Id → Option Struct} {ids : TTN.TempIds} {n : Id}
    {gp : Option Id} {cs : List Id} (X : TruncCtx S0 ids n gp cs) (hO : P → ∀ k, S0 k = none → O k = [])
    {c : Id} {F E : List Id} {t t1 : TTN}
    (hcs : cs = E ++ c :: F) (w : t.WFX P O) (inv : Inv2 S0 t.S ids n gp cs E (c :: F))
    (hstep : t.contractNodes n (ids.star c) n = some t1) :
    t1.WFX P O ∧ t1.root = t.root ∧ Inv2 S0 t1.S ids n gp cs (E ++ [c]) F := by
  have hc_mem : c ∈ cs := by rw [hcs]; simp
  have hnd := X.nd
  rw [hcs] at hnd
  have hcE : c ∉ E := fun hm => (List.nodup_append.mp hnd).2.2 c hm c (by simp) rfl
  have hcF : c ∉ F := (List.nodup_cons.mp (List.nodup_append.mp hnd).2.1).1
  obtain ⟨w1, R1, S1⟩ := trunc_step2 w inv.n_ (inv.stF c (by simp)) (inv.prF c (by simp))
    (fun hp => hO hp _ (X.ok.fs c)) hstep
  have hL : ((c :: F).map ids.star ++ E.map ids.proj).erase (ids.star c) ++ [ids.proj c] =
      F.map ids.star ++ (E ++ [c]).map ids.proj := by
    simp
  have hsn : ¬ ids.star c = n := fun e => X.node_ne_star X.hn c e.symm
  have hpn : ¬ ids.proj c = n := fun e => X.node_ne_proj X.hn c e.symm
  have inv1 : Inv2 S0 t1.S ids n gp cs (E ++ [c]) F := by
    refine ⟨?_, ?_, ?_, ?_, ?_, ?_, ?_⟩
    · rw [S1]; simp only [if_true, hL]
    · intro d hd
      rw [S1]
      have a1 : ¬ ids.star d = n := fun e => X.node_ne_star X.hn d e.symm
      have a2 : ¬ ids.star d = ids.star c := fun e => hcF (X.ok.sinj _ _ e ▸ hd)
      have a3 : ¬ ids.star d = ids.proj c := X.ok.sp d c
      simp only [a1, a2, a3, if_false]
      exact inv.stF d (by simp [hd])
    · intro d hd
      rw [S1]
      have a1 : ¬ ids.proj d = n := fun e => X.node_ne_proj X.hn d e.symm
      have a2 : ¬ ids.proj d = ids.star c := fun e => X.ok.sp c d e.symm
      have a3 : ¬ ids.proj d = ids.proj c := fun e => hcF (X.ok.pinj _ _ e ▸ hd)
      simp only [a1, a2, a3, if_false]
      exact inv.prF d (by simp [hd])
    · intro d hd
      rw [S1]
      have a1 : ¬ ids.star d = n := fun e => X.node_ne_star X.hn d e.symm
      rcases List.mem_append.mp hd with hd | hd
      · have a2 : ¬ ids.star d = ids.star c := fun e => hcE (X.ok.sinj _ _ e ▸ hd)
        have a3 : ¬ ids.star d = ids.proj c := X.ok.sp d c
        simp only [a1, a2, a3, if_false]
        exact inv.stE d hd
      · simp at hd; subst hd; simp [a1]
    · intro d hd
      rw [S1]
      have a1 : ¬ ids.proj d = n := fun e => X.node_ne_proj X.hn d e.symm
      have a2 : ¬ ids.proj d = ids.star c := fun e => X.ok.sp c d e.symm
      rcases List.mem_append.mp hd with hd | hd
      · have a3 : ¬ ids.proj d = ids.proj c := fun e => hcE (X.ok.pinj _ _ e ▸ hd)
        simp only [a1, a2, a3, if_false]
        exact inv.prE d hd
      · simp at hd; subst hd; simp [a1, a2]
    · intro d hd dch hd0
      rw [S1]
      have a1 : ¬ d = n := X.ne d hd
      have a2 : ¬ d = ids.star c := X.child_ne_star hd c
      have a3 : ¬ d = ids.proj c := X.child_ne_proj hd c
      simp only [a1, a2, a3, if_false]
      exact inv.ch d hd dch hd0
    · intro k h1 h2 h3
      rw [S1]
      have b1 : ¬ k = ids.star c := (h3 c hc_mem).1
      have b2 : ¬ k = ids.proj c := (h3 c hc_mem).2
      simp only [h1, b1, b2, if_false]
      exact inv.frame k h1 h2 h3
  exact ⟨w1, R1, inv1⟩

theorem loop3_step {P : Prop} {O : Id → List Axis} {S0 : Id → Option Struct} {ids : TTN.TempIds} {n : Id}
    {gp : Option Id} {cs : List Id} (X : TruncCtx S0 ids n gp cs) (hO : P → ∀ k, S0 k = none → O k = [])
    {c : Id} {H G : List Id} {t : TTN}
    (hcs : cs = G ++ c :: H) (w : t.WFX P O) (inv : Inv3 S0 t.S ids n gp cs G (c :: H)) :
    (do
        let pn ← dget t.nodes (ids.proj c)
        if pn.children.length ≠ 1 then none
        let oc ← pn.children[0]?
        t.contractAllChildren (ids.proj c) oc) = t.contractNodes (ids.proj c) c c ∧
    ∀ t1, t.contractNodes (ids.proj c) c c = some t1 →
      t1.WFX P O ∧ t1.root = t.root ∧ Inv3 S0 t1.S ids n gp cs (G ++ [c]) H := by
  have hc_mem : c ∈ cs := by rw [hcs]; simp
  have hnd := X.nd
  rw [hcs] at hnd
  have hcG : c ∉ G := fun hm => (List.nodup_append.mp hnd).2.2 c hm c (by simp) rfl
  have hcH : c ∉ H := (List.nodup_cons.mp (List.nodup_append.mp hnd).2.1).1
  obtain ⟨cch, hS0c⟩ := X.hc c hc_mem
  have hSp := inv.prH c (by simp)
  have hSc := inv.chH c (by simp) cch hS0c
  obtain ⟨pn, hpn, epn⟩ := TTN.N_of_S hSp
  simp only [Prod.mk.injEq] at epn
  have hpn' : dget t.nodes (ids.proj c) = some pn := hpn
  have hch : pn.children = [c] := epn.2.symm
  -- the body of the loop is one contraction
  have hbody : (do
      let pn ← dget t.nodes (ids.proj c)
      if pn.children.length ≠ 1 then none
      let oc ← pn.children[0]?
      t.contractAllChildren (ids.proj c) oc) = t.contractNodes (ids.proj c) c c := by
    simp only [hpn', bind, Option.bind, hch, List.length_cons, List.length_nil, ne_eq,
      not_true_eq_false, if_false]
    simp [TTN.contractAllChildren, hpn', hch, bind, Option.bind]
    cases t.contractNodes (ids.proj c) c c <;> rfl
  refine ⟨hbody, ?_⟩
  intro t1 hstep
  obtain ⟨w1, R1, S1⟩ := trunc_step3 w inv.n_ hSp hSc (fun hp => hO hp _ (X.ok.fp c)) hstep
  have hGnode : ∀ g ∈ G, ∃ st, S0 g = some st := by
    intro g hg
    obtain ⟨x, hx⟩ := X.hc g (by rw [hcs]; simp [hg])
    exact ⟨_, hx⟩
  have hpG : ids.proj c ∉ G := fun hm => by
    obtain ⟨st, hst⟩ := hGnode _ hm; exact X.node_ne_proj hst c rfl
  have hpH : ids.proj c ∉ H.map ids.proj := by
    intro hm
    obtain ⟨d, hd, e⟩ := List.mem_map.mp hm
    exact hcH (X.ok.pinj _ _ e ▸ hd)
  have hL : (G ++ (c :: H).map ids.proj).map (fun x => if x = ids.proj c then c else x) =
      (G ++ [c]) ++ H.map ids.proj := by
    rw [List.map_append, map_ite_not_mem _ _ _ hpG, List.map_cons, List.map_cons]
    simp [map_ite_not_mem _ _ _ hpH]
  have hcn : ¬ c = n := X.ne c hc_mem
  have hpn_ne : ¬ ids.proj c = n := fun e => X.node_ne_proj X.hn c e.symm
  have inv1 : Inv3 S0 t1.S ids n gp cs (G ++ [c]) H := by
    refine ⟨?_, ?_, ?_, ?_, ?_, ?_, ?_⟩
    · rw [S1]
      have a1 : ¬ n = c := fun e => hcn e.symm
      have a2 : ¬ n = ids.proj c := fun e => hpn_ne e.symm
      simp only [a1, a2, if_false, if_true, hL]
    · intro d hd
      rw [S1]
      have a1 : ¬ ids.proj d = c := fun e => X.child_ne_proj hc_mem d e.symm
      have a2 : ¬ ids.proj d = ids.proj c := fun e => hcH (X.ok.pinj _ _ e ▸ hd)
      have a3 : ¬ ids.proj d = n := fun e => X.node_ne_proj X.hn d e.symm
      simp only [a1, a2, a3, if_false]
      exact inv.prH d (by simp [hd])
    · intro d hd dch hd0
      rw [S1]
      have hdcs : d ∈ cs := by rw [hcs]; simp [hd]
      have a1 : ¬ d = c := fun e => hcH (e ▸ hd)
      have a2 : ¬ d = ids.proj c := X.child_ne_proj hdcs c
      have a3 : ¬ d = n := X.ne d hdcs
      simp only [a1, a2, a3, if_false]
      exact inv.chH d (by simp [hd]) dch hd0
    · intro d hd
      rw [S1]
      have a1 : ¬ ids.proj d = c := fun e => X.child_ne_proj hc_mem d e.symm
      have a3 : ¬ ids.proj d = n := fun e => X.node_ne_proj X.hn d e.symm
      rcases List.mem_append.mp hd with hd | hd
      · have a2 : ¬ ids.proj d = ids.proj c := fun e => hcG (X.ok.pinj _ _ e ▸ hd)
        simp only [a1, a2, a3, if_false]
        exact inv.prG d hd
      · simp at hd; subst hd; simp [a1]
    · intro d hd
      rw [S1]
      rcases List.mem_append.mp hd with hd | hd
      · have hdcs : d ∈ cs := by rw [hcs]; simp [hd]
        have a1 : ¬ d = c := fun e => hcG (e ▸ hd)
        have a2 : ¬ d = ids.proj c := X.child_ne_proj hdcs c
        have a3 : ¬ d = n := X.ne d hdcs
        simp only [a1, a2, a3, if_false]
        exact inv.chG d hd
      · simp at hd; subst hd; simp [hS0c]
    · intro d hd
      rw [S1]
      have a1 : ¬ ids.star d = c := fun e => X.child_ne_star hc_mem d e.symm
      have a2 : ¬ ids.star d = ids.proj c := X.ok.sp d c
      have a3 : ¬ ids.star d = n := fun e => X.node_ne_star X.hn d e.symm
      simp only [a1, a2, a3, if_false]
      exact inv.stN d hd
    · intro k h1 h2 h3
      rw [S1]
      have b1 : ¬ k = c := fun e => h2 (e ▸ hc_mem)
      have b2 : ¬ k = ids.proj c := (h3 c hc_mem).2
      simp only [h1, b1, b2, if_false]
      exact inv.frame k h1 h2 h3
  exact ⟨w1, R1, inv1⟩

end Ptn.C10
