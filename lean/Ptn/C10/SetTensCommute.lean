import Ptn.C10.LevelRun
/-! Value level, part 5 (builder B62): the local update `setTens` COMMUTES with every simulated step that does not touch
the updated node.

`St62Untouched op k`: the operation `op` neither consumes nor creates the node `k`.  `setTens_commutes_simstep`: if
`SimStep … v op … v1` and `op` does not touch `k`, then `SimStep … (setTens v k X) op … (setTens v1 k X)` with the SAME
structural states and leg maps (for a split: with the same factors).  `setTens_commutes_simrun`: the same for histories. -/
namespace Ptn.C10
open Ptn.C02 Ptn.C03 Ptn.Ein NodeS

set_option linter.unusedSectionVars false
set_option linter.unusedVariables false
variable {R : Type} [CommSemiring R]

/-- the operation neither consumes nor creates the node `k` (reading it is allowed) -/
def St62Untouched : TOp → Id → Prop
  | .root id _, k => k ≠ id
  | .child id _ _ _ _, k => k ≠ id
  | .access _, _ => True
  | .rtp _ _, _ => True
  | .contract a b n, k => k ≠ a ∧ k ≠ b ∧ k ≠ n
  | .split id _ _ o i _, k => k ≠ id ∧ k ≠ o ∧ k ≠ i
  | .ident _ _ n, k => k ≠ n
  | .rename n o, k => k ≠ n ∧ k ≠ o

theorem st62_contractStep (dim : Nat → Nat) (v : VNet R) (k : Nat) (X : Asg Nat → R) (n m new : Nat) (p : Nat × Nat)
    (a b : Nat) (hn : k ≠ n) (hm : k ≠ m) (hnew : k ≠ new) :
    contractStep dim (setTens v k X) n m new p a b = setTens (contractStep dim v n m new p a b) k X := by
  unfold contractStep setTens
  congr 1
  funext j
  by_cases hj : j = k
  · subst hj
    simp [hnew]
  · by_cases hjn : j = new
    · subst hjn
      simp [hj, Ne.symm hn, Ne.symm hm]
    · simp [hj, hjn]

theorem st62_identStep (v : VNet R) (k : Nat) (X : Asg Nat → R) (p : Nat × Nat) (new : Nat) (hnew : k ≠ new) :
    identStep (setTens v k X) p new = setTens (identStep v p new) k X := by
  unfold identStep setTens
  congr 1
  funext j
  by_cases hj : j = k
  · subst hj
    simp [hnew]
  · by_cases hjn : j = new
    · subst hjn
      simp [hj]
    · simp [hj, hjn]

theorem st62_renameStep (v : VNet R) (k : Nat) (X : Asg Nat → R) (old new : Nat) (hnew : k ≠ new) (hold : k ≠ old) :
    renameStep (setTens v k X) old new = setTens (renameStep v old new) k X := by
  unfold renameStep setTens
  congr 1
  funext j
  by_cases hj : j = k
  · subst hj
    simp [hnew]
  · by_cases hjn : j = new
    · subst hjn
      simp [hj, Ne.symm hold]
    · simp [hj, hjn]

theorem st62_reLeg (v : VNet R) (k : Nat) (X : Asg Nat → R) (L : Nat → List Nat) :
    reLeg (setTens v k X) L = setTens (reLeg v L) k X := rfl

/-- the factorisation of the tensor of `id` is a factorisation of the tensor of `id` after an update elsewhere -/
def st62Fact {dim : Nat → Nat} {v : VNet R} {id : Nat} {oL iL : List Nat} {q r : Nat} (k : Nat) (X : Asg Nat → R)
    (hk : k ≠ id) (F : SplitFact dim (v.tens id) oL iL q r) : SplitFact dim ((setTens v k X).tens id) oL iL q r where
  O := F.O
  I := F.I
  exact := by
    intro τ
    have : (setTens v k X).tens id = v.tens id := by simp [setTens, Ne.symm hk]
    rw [this]
    exact F.exact τ
  readsO := F.readsO
  readsI := F.readsI

theorem st62_splitStep (dim : Nat → Nat) (v : VNet R) (k : Nat) (X : Asg Nat → R) (id out inn : Nat)
    (oL iL : List Nat) (F : SplitFact dim (v.tens id) oL iL v.next (v.next + 1))
    (hid : k ≠ id) (ho : k ≠ out) (hi : k ≠ inn) :
    splitStep dim (setTens v k X) id out inn oL iL (st62Fact k X hid F) =
      setTens (splitStep dim v id out inn oL iL F) k X := by
  unfold splitStep setTens
  congr 1
  funext j
  by_cases hj : j = k
  · subst hj
    simp [ho, hi]
  · by_cases hjo : j = out
    · subst hjo
      simp [hj, st62Fact]
    · by_cases hji : j = inn
      · subst hji
        simp [hj, hjo, st62Fact]
      · simp [hj, hjo, hji]

theorem st62_cfg {k pid cid id1 id2 : Nat} (hcfg : (pid = id1 ∧ cid = id2) ∨ (pid = id2 ∧ cid = id1))
    (k1 : k ≠ id1) (k2 : k ≠ id2) : k ≠ pid ∧ k ≠ cid := by
  rcases hcfg with ⟨rfl, rfl⟩ | ⟨rfl, rfl⟩
  · exact ⟨k1, k2⟩
  · exact ⟨k2, k1⟩

/-- **`setTens` commutes with every simulated step that does not touch the node.** -/
theorem setTens_commutes_simstep (dim : Nat → Nat) (e : Label → Nat) {t t1 : TTN} {g g1 : LegMap} {v v1 : VNet R}
    {op : TOp} (k : Nat) (X : Asg Nat → R) (hk : St62Untouched op k)
    (hst : SimStep dim e t g v op t1 g1 v1) :
    SimStep dim e t g (setTens v k X) op t1 g1 (setTens v1 k X) := by
  cases hst with
  | access hstep => exact .access hstep
  | rtp hstep => exact .rtp hstep
  | contract hstep hcfg hC hCp hp hpab =>
    obtain ⟨k1, k2, k3⟩ := hk
    have hpc := st62_cfg hcfg k1 k2
    have := SimStep.contract (dim := dim) (e := e) (v := setTens v k X) hstep hcfg hC hCp hp hpab
    unfold simContract at this ⊢
    rw [st62_contractStep dim v k X _ _ _ _ _ _ hpc.1 hpc.2 k3] at this
    exact this
  | split F hstep hdim =>
    obtain ⟨k1, k2, k3⟩ := hk
    have := SimStep.split (dim := dim) (e := e) (v := setTens v k X) (st62Fact k X k1 F) hstep hdim
    unfold simSplit at this ⊢
    rw [st62_splitStep dim v k X _ _ _ _ _ F k1 k2 k3] at this
    exact this
  | ident hstep hp hpab hdim =>
    have := SimStep.ident (dim := dim) (e := e) (v := setTens v k X) hstep hp hpab hdim
    unfold simIdent at this ⊢
    rw [st62_identStep v k X _ _ hk] at this
    exact this
  | rename hstep =>
    have := SimStep.rename (dim := dim) (e := e) (g := g) (v := setTens v k X) hstep
    unfold simRename at this ⊢
    rw [st62_renameStep v k X _ _ hk.1 hk.2] at this
    exact this

/-- the same for histories: a simulated history none of whose operations touches `k` is a simulated history of the
network updated at `k`, with the same structural states and leg maps, ending in the updated image -/
theorem setTens_commutes_simrun (dim : Nat → Nat) (e : Label → Nat) {t t' : TTN} {g g' : LegMap} {v v' : VNet R}
    {ops : List TOp} (k : Nat) (X : Asg Nat → R) (hk : ∀ op ∈ ops, St62Untouched op k)
    (hr : SimRun dim e t g v ops t' g' v') :
    SimRun dim e t g (setTens v k X) ops t' g' (setTens v' k X) := by
  induction hr with
  | nil t g v => exact .nil _ _ _
  | cons hadm hst _ ih =>
    exact .cons hadm (setTens_commutes_simstep dim e k X (hk _ List.mem_cons_self) hst)
      (ih (fun op hop => hk op (List.mem_cons_of_mem _ hop)))

end Ptn.C10
