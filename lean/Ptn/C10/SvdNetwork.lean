import Ptn.C10.SvdProjector
/-! The projector pair of `recursive_truncation` on the NETWORK: if the node tensor `A` absorbs the bond matrix
(`Σ_i Π[i, j] · A[a = i] = A[a = j]`: `Π` is the identity on the range of the matricised `A`), inserting the pair on the
bond leaves the value of the whole network unchanged - also when `Π` is not the identity matrix. -/
namespace Ptn.C10

open Finset Ptn.Ein

set_option linter.unusedSectionVars false

section semiring
variable {L : Type} [DecidableEq L] {R : Type} [CommSemiring R]

/-- **A matrix on a bond that one of the two neighbouring tensors absorbs can be removed.**  `Pm` sits on the bond
(legs `a'`, `b'`, joined to `a` and `b`); `A` is the tensor that owns the leg `a`; `G` is everything else (it reads
none of `a`, `a'`, `b'`). -/
theorem sumPairs_absorb (dim : L → Nat) (a b a' b' : L) (Pm A G : Asg L → R) {S SA : L → Prop}
    (hG : DependsOn S G) (hGa : ¬ S a) (hGa' : ¬ S a') (hGb' : ¬ S b')
    (hA : DependsOn SA A) (hAa' : ¬ SA a') (hAb' : ¬ SA b')
    (hPm : DependsOn (fun l => l = a' ∨ l = b') Pm)
    (hnd : [a, b, a', b'].Nodup) (hdim : dim b' = dim a)
    (habs : ∀ (τ : Asg L) (j : Nat), j < dim a →
      sumR (dim a) (fun i => Pm (upd (upd τ a' i) b' j) * A (upd τ a i)) = A (upd τ a j)) (τ : Asg L) :
    sumPairs dim [(a, a'), (b', b)] (fun ρ => Pm ρ * (A ρ * G ρ)) τ =
      sumPairs dim [(a, b)] (fun ρ => A ρ * G ρ) τ := by
  simp only [List.nodup_cons, List.mem_cons, List.not_mem_nil, not_or, or_false] at hnd
  obtain ⟨⟨hab, haa', hab'⟩, ⟨hba', hbb'⟩, ha'b', _⟩ := hnd
  simp only [sumPairs, sumR_eq]
  have key : ∀ i ∈ range (dim a), ∀ j ∈ range (dim b'),
      Pm (upd (upd (upd (upd τ a i) a' i) b' j) b j) *
        (A (upd (upd (upd (upd τ a i) a' i) b' j) b j) * G (upd (upd (upd (upd τ a i) a' i) b' j) b j)) =
      (Pm (upd (upd (upd τ b j) a' i) b' j) * A (upd (upd τ b j) a i)) * G (upd τ b j) := by
    intro i _ j _
    have e1 : Pm (upd (upd (upd (upd τ a i) a' i) b' j) b j) = Pm (upd (upd (upd τ b j) a' i) b' j) := by
      apply hPm
      rintro l (rfl | rfl)
      · simp [upd, ha'b', Ne.symm hba']
      · simp [upd, Ne.symm hbb']
    have e2 : A (upd (upd (upd (upd τ a i) a' i) b' j) b j) = A (upd (upd τ b j) a i) := by
      apply hA
      intro l hl
      have l1 : l ≠ a' := fun e => hAa' (e ▸ hl)
      have l2 : l ≠ b' := fun e => hAb' (e ▸ hl)
      by_cases la : l = a
      · subst la; simp [upd, hab, haa', hab']
      · by_cases lb : l = b
        · subst lb; simp [upd, la]
        · simp [upd, la, lb, l1, l2]
    have e3 : G (upd (upd (upd (upd τ a i) a' i) b' j) b j) = G (upd τ b j) := by
      apply hG
      intro l hl
      have l1 : l ≠ a' := fun e => hGa' (e ▸ hl)
      have l2 : l ≠ b' := fun e => hGb' (e ▸ hl)
      have l3 : l ≠ a := fun e => hGa (e ▸ hl)
      by_cases lb : l = b
      · simp [upd, lb]
      · simp [upd, lb, l1, l2, l3]
    rw [e1, e2, e3, mul_assoc]
  rw [sum_congr rfl (fun i hi => sum_congr rfl (key i hi)), sum_comm, hdim]
  apply sum_congr rfl
  intro j hj
  rw [← sum_mul]
  have := habs (upd τ b j) j (mem_range.1 hj)
  rw [sumR_eq] at this
  rw [this, upd_comm _ (Ne.symm hab)]
  congr 1
  apply hG
  intro l hl
  have l3 : l ≠ a := fun e => hGa (e ▸ hl)
  by_cases lb : l = b
  · simp [upd, lb]
  · simp [upd, lb, l3]

/-- the matrix `Π = P·Pc` reads only its two outer legs -/
theorem projMat_dependsOn (dim : L → Nat) (P Pc : Asg L → R) (a' b' k k' : L)
    (hP : DependsOn (fun l => l = a' ∨ l = k) P) (hPc : DependsOn (fun l => l = k' ∨ l = b') Pc) :
    DependsOn (fun l => l = a' ∨ l = b') (projMat dim P Pc k k') := by
  have h1 : DependsOn (fun l => l = a' ∨ l = k ∨ l = k' ∨ l = b') (fun ρ => P ρ * Pc ρ) :=
    (hP.mono (by intro l hl; tauto)).mul (hPc.mono (by intro l hl; tauto))
  refine (sumPairs_dependsOn dim [(k, k')] h1).mono ?_ |>.mono (fun l hl => hl)
  intro l hl
  simp only [Expr.pairLegs, List.map_cons, List.map_nil, List.mem_append, List.mem_cons, List.not_mem_nil,
    or_false, not_or] at hl
  tauto

/-- **The projector pair on the network when the node tensor absorbs `Π`.**  `A` is the tensor of the node (it owns
the leg `a` of the bond `(a, b)`); `leaves` are all other tensors; `bs` all other bonds.  If
`Σ_i Π[i, j] · A[a = i] = A[a = j]` for every index `j` of the bond and every assignment of the other legs (`Π` is
the identity on the range of the matricised `A` - e.g. `P`, `Pc` from the SVD of `A` with ALL singular vectors
kept, `svd_projector_value`), then replacing the bond by `A — P — Pc — B` leaves the value of the whole network
unchanged.  `Π` need not be the identity matrix (`U` with fewer columns than rows). -/
theorem svd_projector_absorbed_value (dim : L → Nat) (bs : List (L × L)) (P Pc A : Asg L → R)
    (leaves : List (Asg L → R)) (a b a' b' k k' : L) {S SA : L → Prop}
    (hleaves : ∀ f ∈ leaves, DependsOn S f)
    (hSa : ¬ S a) (hSa' : ¬ S a') (hSb' : ¬ S b') (hSk : ¬ S k) (hSk' : ¬ S k')
    (hA : DependsOn SA A) (hAa' : ¬ SA a') (hAb' : ¬ SA b') (hAk : ¬ SA k) (hAk' : ¬ SA k')
    (hP : DependsOn (fun l => l = a' ∨ l = k) P) (hPc : DependsOn (fun l => l = k' ∨ l = b') Pc)
    (hnd : [a, b, a', b', k, k'].Nodup) (hdim : dim b' = dim a)
    (habs : ∀ (τ : Asg L) (j : Nat), j < dim a →
      sumR (dim a) (fun i => projMat dim P Pc k k' (upd (upd τ a' i) b' j) * A (upd τ a i)) = A (upd τ a j))
    (σ : Asg L) :
    netValue dim (bs ++ [(a, a'), (k, k'), (b', b)]) (P :: Pc :: A :: leaves) σ =
      netValue dim (bs ++ [(a, b)]) (A :: leaves) σ := by
  have hnd' := hnd
  simp only [List.nodup_cons, List.mem_cons, List.not_mem_nil, not_or, or_false] at hnd'
  obtain ⟨⟨hab, haa', hab', hak, hak'⟩, ⟨hba', hbb', hbk, hbk'⟩, ⟨ha'b', ha'k, ha'k'⟩, ⟨hb'k, hb'k'⟩, _⟩ := hnd'
  have hall : ∀ f ∈ A :: leaves, DependsOn (fun l => S l ∨ SA l) f := by
    intro f hf
    rcases List.mem_cons.1 hf with rfl | hf
    · exact hA.mono (fun l hl => Or.inr hl)
    · exact (hleaves f hf).mono (fun l hl => Or.inl hl)
  rw [projector_matrix_value dim bs P Pc (A :: leaves) a b a' b' k k' hall
    (by rintro (h | h); exact hSk h; exact hAk h) (by rintro (h | h); exact hSk' h; exact hAk' h)
    (Ne.symm hb'k) (Ne.symm hbk) (Ne.symm hb'k') (Ne.symm hbk') σ]
  unfold netValue
  rw [sumPairs_append, sumPairs_append]
  apply sumPairs_congr
  intro τ
  simp only [List.map_cons, prodL]
  exact sumPairs_absorb dim a b a' b' (projMat dim P Pc k k') A _ (prodL_dependsOn leaves hleaves) hSa hSa' hSb'
    hA hAa' hAb' (projMat_dependsOn dim P Pc a' b' k k' hP hPc)
    (by simp only [List.nodup_cons, List.mem_cons, List.not_mem_nil, not_or, or_false]
        exact ⟨⟨hab, haa', hab'⟩, ⟨hba', hbb'⟩, ha'b', by simp⟩)
    hdim habs τ

/-- the bond matrix of the pair `P[a', k] = Uc[a', k]`, `Pc[k', b'] = U[b', k']` is `svdPi` -/
theorem projMat_svd (dim : L → Nat) (U Uc : ℕ → ℕ → R) (a' b' k k' : L)
    (hnd : [a', b', k, k'].Nodup) (τ : Asg L) :
    projMat dim (fun ρ => Uc (ρ a') (ρ k)) (fun ρ => U (ρ b') (ρ k')) k k' τ =
      svdPi (dim k) U Uc (τ a') (τ b') := by
  simp only [List.nodup_cons, List.mem_cons, List.not_mem_nil, not_or, or_false] at hnd
  obtain ⟨⟨ha'b', ha'k, ha'k'⟩, ⟨hb'k, hb'k'⟩, hkk', _⟩ := hnd
  unfold projMat svdPi
  simp only [sumPairs, sumR_eq]
  apply sum_congr rfl
  intro q _
  simp [upd, ha'k, ha'k', hb'k, hb'k', hkk']

/-- **The library's projector pair with nothing discarded leaves the network unchanged** (value level, all sizes,
any commutative semiring, `U` square or not).  GIVEN the SVD contract of the node tensor `A`, matricised with the
leg `a` of the bond as rows, in index form - `A[a = x, rest] = Σ_{j<r} U[x, j] · s[j] · V[j, rest]` and
`Σ_x Uc[x, i] · U[x, j] = δ_ij` (orthonormal columns; `Uc` the conjugate) - the pair
`P = projector.conj() = Uc[a', k]`, `Pc = projector.T = U[b', k']` with ALL `r = dim k` columns kept, inserted on the
bond `(a, b)` as `A — P — Pc — B`, does not change the value of the network, for every assignment of the open legs,
whatever the rest of the network is. -/
theorem svd_projector_full_value (dim : L → Nat) (bs : List (L × L)) (U Uc : ℕ → ℕ → R) (s : ℕ → R)
    (V : ℕ → Asg L → R) (A : Asg L → R) (leaves : List (Asg L → R)) (a b a' b' k k' : L) {S SA : L → Prop}
    (hleaves : ∀ f ∈ leaves, DependsOn S f)
    (hSa : ¬ S a) (hSa' : ¬ S a') (hSb' : ¬ S b') (hSk : ¬ S k) (hSk' : ¬ S k')
    (hA : DependsOn SA A) (hAa' : ¬ SA a') (hAb' : ¬ SA b') (hAk : ¬ SA k) (hAk' : ¬ SA k')
    (hnd : [a, b, a', b', k, k'].Nodup) (hdim : dim b' = dim a)
    (hsvd : ∀ (τ : Asg L) (x : ℕ), x < dim a → A (upd τ a x) = ∑ j ∈ range (dim k), U x j * s j * V j τ)
    (hU : ∀ i j, i < dim k → j < dim k → ∑ x ∈ range (dim a), Uc x i * U x j = if i = j then 1 else 0)
    (σ : Asg L) :
    netValue dim (bs ++ [(a, a'), (k, k'), (b', b)])
        ((fun ρ => Uc (ρ a') (ρ k)) :: (fun ρ => U (ρ b') (ρ k')) :: A :: leaves) σ =
      netValue dim (bs ++ [(a, b)]) (A :: leaves) σ := by
  have hnd' := hnd
  simp only [List.nodup_cons, List.mem_cons, List.not_mem_nil, not_or, or_false] at hnd'
  obtain ⟨_, _, ⟨ha'b', ha'k, ha'k'⟩, ⟨hb'k, hb'k'⟩, hkk', _⟩ := hnd'
  refine svd_projector_absorbed_value dim bs _ _ A leaves a b a' b' k k' hleaves hSa hSa' hSb' hSk hSk'
    hA hAa' hAb' hAk hAk' ?_ ?_ hnd hdim ?_ σ
  · intro ρ₁ ρ₂ h
    show Uc (ρ₁ a') (ρ₁ k) = Uc (ρ₂ a') (ρ₂ k)
    rw [h a' (Or.inl rfl), h k (Or.inr rfl)]
  · intro ρ₁ ρ₂ h
    show U (ρ₁ b') (ρ₁ k') = U (ρ₂ b') (ρ₂ k')
    rw [h b' (Or.inr rfl), h k' (Or.inl rfl)]
  · intro τ j hj
    have e : ∀ i, projMat dim (fun ρ => Uc (ρ a') (ρ k)) (fun ρ => U (ρ b') (ρ k')) k k'
        (upd (upd τ a' i) b' j) = svdPi (dim k) U Uc i j := by
      intro i
      rw [projMat_svd dim U Uc a' b' k k'
        (by simp only [List.nodup_cons, List.mem_cons, List.not_mem_nil, not_or, or_false]
            exact ⟨⟨ha'b', ha'k, ha'k'⟩, ⟨hb'k, hb'k'⟩, hkk', by simp⟩)]
      simp [upd, ha'b']
    simp only [e, sumR_eq]
    have := svdPi_mul_full (dim a) (dim k) (fun x c => A (upd c a x)) U Uc s V (fun x c hx => hsvd c x hx) hU τ j hj
    rw [← this]
    exact sum_congr rfl (fun i _ => mul_comm _ _)

end semiring

end Ptn.C10
