import Ptn.C10.SetTensCommute
import Ptn.C10.ValueRun
/-! Value level, part 5 (builder B62): the FLAT form of one projector insertion of `truncate_node` on the C02 simulation:
the value after `insert_identity(c, n)`, the replacement of the identity by `Π` and the split into the projector pair is the
value of the ORIGINAL network in which the bond `p` between `c` and `n` is cut into `(p.1, a')`, `(b', p.2)` and the
leaf `Π` (on the fresh legs `a' = v.next`, `b' = v.next + 1`) is added - the record of `Ins` / `runValue` of `ValueRun.lean`. -/
namespace Ptn.C10
open Ptn.C02 Ptn.C03 Ptn.Ein NodeS

set_option linter.unusedSectionVars false
set_option linter.unusedVariables false
variable {R : Type} [CommSemiring R]

/-- the insertion record (`ValueRun.lean`) of one simulated projector insertion on the bond `p` -/
def lf62Ins (v : VNet R) (p : Nat × Nat) (Pi : Asg Nat → R) : Ins Nat R := ⟨p.1, p.2, v.next, v.next + 1, Pi⟩

/-- the identity step exposed: bond, identifiers, tensors of the image of `insert_identity` -/
theorem lf62_ident_shape {dim : Nat → Nat} {e : Label → Nat} {t t1 : TTN} {g g1 : LegMap} {v v1 : VNet R} {c n i : Id}
    (h : t.WF) (hl : t.LWF) (hv : v.WF) (hs : RSim dim e g t v)
    (hr1 : SimRun dim e t g v [.ident c n i] t1 g1 v1) :
    ∃ p, p ∈ v.bonds ∧ (p = (g c n, g n c) ∨ p = (g n c, g c n)) ∧ t.N i = none ∧
      v1.ids = i :: v.ids ∧ v1.bonds = (v.bonds.erase p ++ [(p.1, v.next)]) ++ [(v.next + 1, p.2)] ∧
      (∀ j, j ≠ i → v1.tens j = v.tens j) ∧ v1.next = v.next + 2 ∧
      (∀ l, l ∈ v1.legs i → l = v.next ∨ l = v.next + 1) ∧
      (∀ k ∈ v.ids, ∀ l ∈ v1.legs k, l ∈ v.legs k) ∧
      ((p.1 ∈ v.legs c ∧ p.2 ∈ v.legs n) ∨ (p.1 ∈ v.legs n ∧ p.2 ∈ v.legs c)) ∧
      dim (v.next + 1) = dim p.1 := by
  cases hr1 with
  | cons hadm hst hr =>
    cases hr
    cases hst with
    | ident hstep hp hpab hdim =>
      obtain ⟨⟨_, hdimp⟩, hperm, _⟩ := ident_sim_core dim e h hl hv hs hadm hstep hp hpab hdim
      refine ⟨_, hp, hpab, hadm, rfl, rfl, ?_, rfl, ?_, ?_, ?_, hdimp⟩
      · intro j hj
        simp [simIdent, reLeg, identStep, hj]
      · intro l hl'
        have := (hperm i List.mem_cons_self).mem_iff.1 hl'
        simpa [identStep] using this
      · intro k hk l hl'
        have hki : k ≠ i := fun e => (hs.ids i).1 (e ▸ hk) hadm
        have := (hperm k (List.mem_cons_of_mem _ hk)).mem_iff.1 hl'
        simpa [identStep, hki] using this
      · obtain ⟨ax, hax, _⟩ := ident_labels h hadm hstep
        have hn : n ∈ t.nbs c := mem_nbs.2 ⟨ax, hax⟩
        have hc := nbs_symm h hn
        have m1 := hs.g_mem hn
        have m2 := hs.g_mem hc
        rcases hpab with rfl | rfl
        · exact Or.inl ⟨m1, m2⟩
        · exact Or.inr ⟨m2, m1⟩

/-- **One child, flat form.**  The value after the simulated projector insertion on the bond between `c` and `n` is the
value of the original network with that bond cut and the leaf `Π` inserted (`Ins.cut`, `Ins.Pm`). -/
theorem truncate_node_child_flat_value (dim : Nat → Nat) (e : Label → Nat) {t t1 t' : TTN} {g g1 g' : LegMap}
    {v v1 v' : VNet R} {n c : Id} {ids : TTN.TempIds} {k : Nat} {Pi : Asg Nat → R}
    (h : t.WF) (hl : t.LWF) (hv : v.WF) (hs : RSim dim e g t v)
    (hr1 : SimRun dim e t g v [.ident c n (ids.ident c)] t1 g1 v1)
    (hPi : DependsOn (· ∈ v1.legs (ids.ident c)) Pi)
    (hr2 : SimRun dim e t1 g1 (setTens v1 (ids.ident c) Pi) [lr54Split n c ids k] t' g' v') :
    ∃ p, p ∈ v.bonds ∧ (p = (g c n, g n c) ∨ p = (g n c, g c n)) ∧
      ∀ σ, v'.value dim σ =
        netValue dim (v.bonds.erase p ++ (lf62Ins v p Pi).cut) ((lf62Ins v p Pi).Pm :: v.ids.map v.tens) σ := by
  obtain ⟨_, _, _, _, _, vw1, _, _, val2, _⟩ := truncate_node_value dim e h hl hv hs hr1 hPi hr2
  obtain ⟨p, hp, hpab, hnone, hids, hbonds, htens, _, _, _, _, _⟩ := lf62_ident_shape h hl hv hs hr1
  refine ⟨p, hp, hpab, ?_⟩
  intro σ
  have hi : ids.ident c ∉ v.ids := fun hm => (hs.ids _).1 hm hnone
  have hi1 : ids.ident c ∈ v1.ids := by rw [hids]; exact List.mem_cons_self
  rw [val2 σ, setTens_value_expose dim vw1 hi1 Pi σ, hbonds, hids, List.erase_cons_head]
  have hmap : v.ids.map v1.tens = v.ids.map v.tens := by
    apply List.map_congr_left
    intro j hj
    exact htens j (fun e => hi (e ▸ hj))
  rw [hmap]
  simp [lf62Ins, Ins.cut, List.append_assoc]

end Ptn.C10
