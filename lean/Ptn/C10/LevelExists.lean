import Ptn.C10.LevelRun
import Ptn.C10.TruncSteps
/-! Value level, part 6 (builder B66): the value-level history `Lr54LevelRun` of the first loop of `truncate_node(n)` EXISTS
whenever the model's loop succeeds (`TTN.truncLoop1 … = some t'`) and the external routines keep their contracts
(`Lr66Contract`: the fresh labels have the dimensions of the bonds they name, and for every child a two-leg tensor `Π_c`
together with an exact factorisation along the legs of `insert_projection_operator_and_conjugate` is delivered).
Pattern: `Ptn.C02.centre_move_simrun_exists`; structure: `loop1_step` of `TruncSteps.lean`. -/
namespace Ptn.C10
open Ptn.C02 Ptn.C03 Ptn.Ein NodeS

set_option linter.unusedSectionVars false
set_option linter.unusedVariables false
variable {R : Type} [CommSemiring R]

/-- The contract of the external routines for child `c` in the state `(t, g, v)`: after the read of the node tensor the
two fresh labels of the identity insertion have the dimension of the bond `c - n`; after the insertion a two-leg tensor
`Π` on the legs of the identity node and an exact factorisation of it over a new bond of the kept dimension `k`, along the
leg specifications of `insert_projection_operator_and_conjugate`, are delivered. -/
def Lr66Contract (dim : Nat → Nat) (e : Label → Nat) (n : Id) (ids : TTN.TempIds) (k : Nat)
    (t : TTN) (g : LegMap) (v : VNet R) (c : Id) : Prop :=
  (∀ t0 g0 v0, SimRun dim e t g v [.access n] t0 g0 v0 →
    ∀ ax, t0.Leg c n ax → dim v0.next = ax.dim ∧ dim (v0.next + 1) = ax.dim) ∧
  (∀ t0 g0 v0 t1 g1 v1 t2, SimRun dim e t g v [.access n] t0 g0 v0 →
    SimRun dim e t0 g0 v0 [.ident c n (ids.ident c)] t1 g1 v1 →
    t1.step (lr54Split n c ids k) = some t2 →
    ∃ Pi : Asg Nat → R, DependsOn (· ∈ v1.legs (ids.ident c)) Pi ∧ dim v1.next = k ∧ dim (v1.next + 1) = k ∧
      Nonempty (SplitFact dim Pi (splitOutLegs e g1 t2 (ids.ident c) (ids.star c) (ids.proj c))
        (splitInLegs e g1 t2 (ids.ident c) (ids.star c) (ids.proj c)) v1.next (v1.next + 1)))

/-- one iteration of the first loop: the simulated history exists -/
theorem lr66_child_exists (dim : Nat → Nat) (e : Label → Nat) {t t2 : TTN} {g : LegMap} {v : VNet R} {n c : Id}
    {ids : TTN.TempIds} {k : Nat} {gp : Option Id} {L cch : List Id}
    (h : t.WF) (hl : t.LWF) (hv : v.WF) (hs : RSim dim e g t v)
    (hN : t.S n = some (gp, L)) (hC : t.S c = some (some n, cch))
    (hi : t.S (ids.ident c) = none) (hst : t.S (ids.star c) = none) (hp : t.S (ids.proj c) = none)
    (his : ids.ident c ≠ ids.star c) (hip : ids.ident c ≠ ids.proj c)
    (hrun : (do let (t0, _) ← t.access n; TTN.insertProjectors t0 n c ids k) = some t2)
    (hK : Lr66Contract dim e n ids k t g v c) :
    ∃ t0 g0 v0 t1 g1 v1 Pi g2 v2,
      SimRun dim e t g v [.access n] t0 g0 v0 ∧ SimRun dim e t0 g0 v0 [.ident c n (ids.ident c)] t1 g1 v1 ∧
      DependsOn (· ∈ v1.legs (ids.ident c)) Pi ∧
      SimRun dim e t1 g1 (setTens v1 (ids.ident c) Pi) [lr54Split n c ids k] t2 g2 v2 := by
  simp only [bind, Option.bind] at hrun
  cases hacc : t.access n with
  | none => simp [hacc] at hrun
  | some r =>
    obtain ⟨t0, T⟩ := r
    simp only [hacc] at hrun
    have step0 : t.step (.access n) = some t0 := by simp [TTN.step, hacc]
    have adm0 : (TOp.access n).Adm t := trivial
    obtain ⟨g0, v0, st0⟩ := simstep_complete dim e (op := .access n) h hv hs trivial adm0 step0
      (by intro _ _ _ _ _ _ heq; cases heq) (by intro _ _ _ heq; cases heq)
    have run0 : SimRun dim e t g v [.access n] t0 g0 v0 := .cons adm0 st0 (.nil _ _ _)
    obtain ⟨_, _, w0, l0, vw0, s0, _, _⟩ := structural_history_preserves_value dim e h hl hv hs run0
    obtain ⟨S0e, _⟩ := access_S_eq hacc
    unfold TTN.insertProjectors at hrun
    simp only [bind, Option.bind] at hrun
    cases hins : t0.insertIdentity c n (ids.ident c) with
    | none => simp [hins] at hrun
    | some t1 =>
      simp only [hins] at hrun
      have hnew : t0.N (ids.ident c) = none := N_none_of_S (by rw [S0e]; exact hi)
      have adm1 : (TOp.ident c n (ids.ident c)).Adm t0 := hnew
      have step1 : t0.step (.ident c n (ids.ident c)) = some t1 := hins
      obtain ⟨g1, v1, st1⟩ := simstep_complete dim e (op := .ident c n (ids.ident c)) w0 vw0 s0 trivial adm1 step1
        (by intro _ _ _ _ _ _ heq; cases heq)
        (by intro c' p' n' heq; cases heq; exact hK.1 t0 g0 v0 run0)
      have run1 : SimRun dim e t0 g0 v0 [.ident c n (ids.ident c)] t1 g1 v1 := .cons adm1 st1 (.nil _ _ _)
      obtain ⟨_, _, w1, l1, vw1, s1, _, _⟩ := structural_history_preserves_value dim e w0 l0 vw0 s0 run1
      -- the split of the identity node is admissible (as in `Ptn.C02.trunc_step1`)
      obtain ⟨cch', pp, pch, e1, e2, S1, _⟩ := ident_S_eq w0 hnew hins
      rw [S0e, hC] at e1; rw [S0e, hN] at e2
      simp at e1 e2
      obtain ⟨rfl, rfl⟩ := e2
      subst e1
      rw [S0e] at S1
      have hci : ¬ ids.ident c = c := by intro e; rw [e, hC] at hi; simp at hi
      have hni : ¬ ids.ident c = n := by intro e; rw [e, hN] at hi; simp at hi
      have e_i : t1.S (ids.ident c) = some (some n, [c]) := by rw [S1]; simp [subdivideS]
      obtain ⟨X, hX, eX⟩ := TTN.N_of_S e_i
      simp only [Prod.mk.injEq] at eX
      have e_s : t1.N (ids.star c) = none := N_none_of_S (by
        rw [S1]
        have a1 : ¬ ids.star c = ids.ident c := fun e => his e.symm
        have a2 : ¬ ids.star c = c := by intro e; rw [e, hC] at hst; simp at hst
        have a3 : ¬ ids.star c = n := by intro e; rw [e, hN] at hst; simp at hst
        simp [subdivideS, a1, a2, a3, hst])
      have e_p : t1.N (ids.proj c) = none := N_none_of_S (by
        rw [S1]
        have a1 : ¬ ids.proj c = ids.ident c := fun e => hip e.symm
        have a2 : ¬ ids.proj c = c := by intro e; rw [e, hC] at hp; simp at hp
        have a3 : ¬ ids.proj c = n := by intro e; rw [e, hN] at hp; simp at hp
        simp [subdivideS, a1, a2, a3, hp])
      have adm : SplitAdm t1 (ids.ident c) X ⟨some n, [], [], false⟩ ⟨none, [c], [], false⟩
          (ids.star c) (ids.proj c) := by
        refine ⟨hX, Or.inr e_s, Or.inr e_p, by rw [← eX.2]; simp, ?_⟩
        exact Or.inl ⟨n, eX.1.symm, rfl, rfl, Or.inl ⟨rfl, rfl⟩⟩
      have adm2 : (lr54Split n c ids k).Adm t1 := ⟨X, adm⟩
      have step2 : t1.step (lr54Split n c ids k) = some t2 := hrun
      obtain ⟨Pi, hdep, d1, d2, ⟨F⟩⟩ := hK.2 t0 g0 v0 t1 g1 v1 t2 run0 run1 step2
      obtain ⟨g2, v2, st2⟩ := simstep_complete dim e (op := lr54Split n c ids k) w1 (setTens_wf vw1 hdep)
        (s1.setTens _ Pi) trivial adm2 step2
        (by
          intro id outL inL outId inId bd' heq
          simp only [lr54Split] at heq
          cases heq
          refine ⟨d1, d2, ⟨?_⟩⟩
          simpa [setTens] using F)
        (by intro _ _ _ heq; simp only [lr54Split] at heq; cases heq)
      exact ⟨t0, g0, v0, t1, g1, v1, Pi, g2, v2, run0, run1, hdep, .cons adm2 st2 (.nil _ _ _)⟩

/-- the whole first loop: the level run exists (induction over the children still to do, as `Ptn.C02.loop1`) -/
theorem lr66_level_exists (dim : Nat → Nat) (e : Label → Nat) {S0 : Id → Option Struct} {ids : TTN.TempIds} {n : Id}
    {gp : Option Id} {cs : List Id} (X : TruncCtx S0 ids n gp cs) (kdim : Id → Nat) :
    ∀ (Rs D : List Id) (t t' : TTN) (g : LegMap) (v : VNet R), cs = D ++ Rs → t.WF → t.LWF → v.WF →
      RSim dim e g t v → Inv1 S0 t.S ids n gp D Rs → TTN.truncLoop1 t n ids kdim Rs = some t' →
      (∀ es tm gm vm c, Lr54LevelRun dim e n ids kdim [.access n] t g v es tm gm vm → c ∈ Rs →
        c ∉ es.map (·.c) → Lr66Contract dim e n ids (kdim c) tm gm vm c) →
      ∃ es g' v', Lr54LevelRun dim e n ids kdim [.access n] t g v es t' g' v' ∧ es.map (·.c) = Rs := by
  intro Rs
  induction Rs with
  | nil =>
    intro D t t' g v hcs h hl hv hs inv hrun hO
    simp [TTN.truncLoop1] at hrun
    subst hrun
    exact ⟨[], g, v, .nil _ _ _, rfl⟩
  | cons c Rs ih =>
    intro D t t' g v hcs h hl hv hs inv hrun hO
    unfold TTN.truncLoop1 at hrun
    rw [List.foldlM_cons] at hrun
    cases hstep : (do let (t0, _) ← t.access n; TTN.insertProjectors t0 n c ids (kdim c)) with
    | none => simp only [hstep] at hrun; simp [bind, Option.bind] at hrun
    | some t1 =>
      simp only [hstep] at hrun
      have hrun' : TTN.truncLoop1 t1 n ids kdim Rs = some t' := by
        simpa [TTN.truncLoop1, bind, Option.bind] using hrun
      obtain ⟨_, _, inv1, ⟨cch, hSc⟩, hSi, hSs, hSp⟩ :=
        loop1_step X (k := kdim c) hcs (TTN.WFX.ofWF h) inv hstep
      have hnd := X.nd
      rw [hcs] at hnd
      have hcR : c ∉ Rs := (List.nodup_cons.mp (List.nodup_append.mp hnd).2.1).1
      obtain ⟨t0, g0, v0, tt1, g1, v1, Pi, g2, v2, run0, run1, hdep, run2⟩ :=
        lr66_child_exists dim e h hl hv hs inv.n_ hSc hSi hSs hSp (X.ok.is_ c c) (X.ok.ip c c) hstep
          (hO [] t g v c (.nil _ _ _) (by simp) (by simp))
      have one : Lr54LevelRun dim e n ids kdim [.access n] t g v [⟨c, v0.next, Pi⟩] t1 g2 v2 :=
        .cons run0 run1 hdep run2 (.nil _ _ _)
      obtain ⟨w1, l1, vw2, s2, _, _⟩ := lr54_level_core dim e h hl hv hs one
      obtain ⟨es, g', v', hr, hes⟩ := ih (D ++ [c]) t1 t' g2 v2 (by rw [hcs]; simp) w1 l1 vw2 s2 inv1 hrun'
        (by
          intro es tm gm vm c' hr hc' hnot
          refine hO (⟨c, v0.next, Pi⟩ :: es) tm gm vm c' (.cons run0 run1 hdep run2 hr)
            (List.mem_cons_of_mem _ hc') ?_
          simp only [List.map_cons, List.mem_cons, not_or]
          exact ⟨fun e => hcR (e ▸ hc'), hnot⟩)
      exact ⟨⟨c, v0.next, Pi⟩ :: es, g', v', .cons run0 run1 hdep run2 hr, by simp [hes]⟩

/-! ### the second and the third loop: contractions, no contract of an external routine needed -/

theorem lr66_simrun_append {dim : Nat → Nat} {e : Label → Nat} {t t1 t2 : TTN} {g g1 g2 : LegMap} {v v1 v2 : VNet R}
    {o1 o2 : List TOp} (h1 : SimRun dim e t g v o1 t1 g1 v1) (h2 : SimRun dim e t1 g1 v1 o2 t2 g2 v2) :
    SimRun dim e t g v (o1 ++ o2) t2 g2 v2 := by
  induction h1 with
  | nil t g v => exact h2
  | cons hadm hst _ ih => exact .cons hadm hst (ih h2)

/-- a successful contraction into one of the two identifiers is a simulated step -/
theorem lr66_contract_step (dim : Nat → Nat) (e : Label → Nat) {t t1 : TTN} {g : LegMap} {v : VNet R} {a b m : Id}
    (h : t.WF) (hl : t.LWF) (hv : v.WF) (hs : RSim dim e g t v) (hm : m = a ∨ m = b)
    (hc : t.contractNodes a b m = some t1) :
    ∃ g1 v1, SimRun dim e t g v [.contract a b m] t1 g1 v1 ∧ t1.WF ∧ t1.LWF ∧ v1.WF ∧ RSim dim e g1 t1 v1 := by
  have adm : (TOp.contract a b m).Adm t := hm.elim Or.inl (fun x => Or.inr (Or.inl x))
  have step : t.step (.contract a b m) = some t1 := hc
  obtain ⟨g1, v1, st⟩ := simstep_complete dim e (op := .contract a b m) h hv hs trivial adm step
    (by intro _ _ _ _ _ _ heq; cases heq) (by intro _ _ _ heq; cases heq)
  have run : SimRun dim e t g v [.contract a b m] t1 g1 v1 := .cons adm st (.nil _ _ _)
  obtain ⟨_, _, w1, l1, vw1, s1, _, _⟩ := structural_history_preserves_value dim e h hl hv hs run
  exact ⟨g1, v1, run, w1, l1, vw1, s1⟩

/-- `contract_all_children(n, n)` after the first loop: the children are the conjugated projectors `star c` -/
theorem lr66_loop2_exists (dim : Nat → Nat) (e : Label → Nat) (n : Id) (ids : TTN.TempIds) :
    ∀ (F : List Id) (t t' : TTN) (g : LegMap) (v : VNet R), t.WF → t.LWF → v.WF → RSim dim e g t v →
      (F.map ids.star).foldlM (fun (t : TTN) s => t.contractNodes n s n) t = some t' →
      ∃ g' v', SimRun dim e t g v (F.map (fun c => TOp.contract n (ids.star c) n)) t' g' v' ∧
        t'.WF ∧ t'.LWF ∧ v'.WF ∧ RSim dim e g' t' v' := by
  intro F
  induction F with
  | nil =>
    intro t t' g v h hl hv hs hrun
    simp at hrun; subst hrun
    exact ⟨g, v, .nil _ _ _, h, hl, hv, hs⟩
  | cons c F ih =>
    intro t t' g v h hl hv hs hrun
    rw [List.map_cons, List.foldlM_cons] at hrun
    cases hstep : t.contractNodes n (ids.star c) n with
    | none => simp [hstep, bind, Option.bind] at hrun
    | some t1 =>
      simp only [hstep, bind, Option.bind] at hrun
      obtain ⟨g1, v1, run1, w1, l1, vw1, s1⟩ := lr66_contract_step dim e h hl hv hs (Or.inl rfl) hstep
      obtain ⟨g', v', run2, r⟩ := ih t1 t' g1 v1 w1 l1 vw1 s1 hrun
      exact ⟨g', v', lr66_simrun_append run1 run2, r⟩

/-- the third loop: every projector `proj c` is contracted into its only child `c` -/
theorem lr66_loop3_exists (dim : Nat → Nat) (e : Label → Nat) {S0 : Id → Option Struct} {ids : TTN.TempIds} {n : Id}
    {gp : Option Id} {cs : List Id} (X : TruncCtx S0 ids n gp cs) :
    ∀ (H G : List Id) (t t' : TTN) (g : LegMap) (v : VNet R), cs = G ++ H → t.WF → t.LWF → v.WF →
      RSim dim e g t v → Inv3 S0 t.S ids n gp cs G H → TTN.truncLoop3 t (H.map ids.proj) = some t' →
      ∃ g' v', SimRun dim e t g v (H.map (fun c => TOp.contract (ids.proj c) c c)) t' g' v' ∧
        t'.WF ∧ t'.LWF ∧ v'.WF ∧ RSim dim e g' t' v' := by
  intro H
  induction H with
  | nil =>
    intro G t t' g v hcs h hl hv hs inv hrun
    simp [TTN.truncLoop3] at hrun; subst hrun
    exact ⟨g, v, .nil _ _ _, h, hl, hv, hs⟩
  | cons c H ih =>
    intro G t t' g v hcs h hl hv hs inv hrun
    unfold TTN.truncLoop3 at hrun
    rw [List.map_cons, List.foldlM_cons] at hrun
    obtain ⟨hbody, hnext⟩ := loop3_step (P := False) (O := fun _ => []) X (fun hp => hp.elim) hcs
      (TTN.WFX.ofWF h) inv
    rw [hbody] at hrun
    cases hstep : t.contractNodes (ids.proj c) c c with
    | none => simp [hstep, bind, Option.bind] at hrun
    | some t1 =>
      simp only [hstep, bind, Option.bind] at hrun
      have hrun' : TTN.truncLoop3 t1 (H.map ids.proj) = some t' := hrun
      obtain ⟨_, _, inv1⟩ := hnext t1 hstep
      obtain ⟨g1, v1, run1, w1, l1, vw1, s1⟩ := lr66_contract_step dim e h hl hv hs (Or.inr rfl) hstep
      obtain ⟨g', v', run2, r⟩ := ih (G ++ [c]) t1 t' g1 v1 (by rw [hcs]; simp) w1 l1 vw1 s1 inv1 hrun'
      exact ⟨g', v', lr66_simrun_append run1 run2, r⟩

/-- the operations of the second and third loop of `truncate_node(n)` over the children `cs` -/
def lr66Tail (n : Id) (ids : TTN.TempIds) (cs : List Id) : List TOp :=
  cs.map (fun c => TOp.contract n (ids.star c) n) ++ cs.map (fun c => TOp.contract (ids.proj c) c c)

/-- **One `truncate_node(n)` without the recursive calls: the simulated history exists.**  If the model's
`truncateNodeStep` succeeds on temporary identifiers that are unused and distinct (`TempOK`) and the external routines keep
their contract in every state the first loop reaches, then there is a level run over exactly the children of `n` in order,
followed by the simulated contractions of `contract_all_children(n)` and of the third loop, ending in the state the model
returns; that state has the structure of the input. -/
theorem lr66_step_exists (dim : Nat → Nat) (e : Label → Nat) {t t' : TTN} {g : LegMap} {v : VNet R} {n : Id}
    {ids : TTN.TempIds} {kdim : Id → Nat} (h : t.WF) (hl : t.LWF) (hv : v.WF) (hs : RSim dim e g t v)
    (hok : TempOK t.S ids) (hstep : t.truncateNodeStep n ids kdim = some t')
    (hO : ∀ es tm gm vm c cch, Lr54LevelRun dim e n ids kdim [.access n] t g v es tm gm vm →
      t.S c = some (some n, cch) → c ∉ es.map (·.c) → Lr66Contract dim e n ids (kdim c) tm gm vm c) :
    ∃ node es t1 g1 v1 g' v', t.N n = some node ∧ es.map (·.c) = node.children ∧
      Lr54LevelRun dim e n ids kdim [.access n] t g v es t1 g1 v1 ∧
      TTN.truncLoop1 t n ids kdim node.children = some t1 ∧
      SimRun dim e t1 g1 v1 (lr66Tail n ids node.children) t' g' v' ∧
      t'.WF ∧ t'.LWF ∧ v'.WF ∧ RSim dim e g' t' v' ∧ t'.S = t.S ∧ t'.root = t.root := by
  have hfull := truncate_step_full (TTN.WFX.ofWF h) (fun hp => hp.elim) hok hstep
  unfold TTN.truncateNodeStep at hstep
  cases hN : dget t.nodes n with
  | none => simp [hN, bind, Option.bind] at hstep
  | some Nn =>
    have hNn : t.N n = some Nn := hN
    simp only [hN, bind, Option.bind] at hstep
    have X : TruncCtx t.S ids n Nn.parent Nn.children := by
      refine ⟨hok, TTN.S_eq hNn, h.str.nodup n _ _ (TTN.S_eq hNn), ?_, ?_⟩
      · intro c hc
        obtain ⟨cch, e⟩ := h.str.down n _ _ c (TTN.S_eq hNn) hc
        exact ⟨cch, e⟩
      · intro c hc e
        obtain ⟨cch, e2⟩ := h.str.down n _ _ c (TTN.S_eq hNn) hc
        rw [e] at e2
        exact h.str.parent_ne e2 rfl
    cases h1 : TTN.truncLoop1 t n ids kdim Nn.children with
    | none => simp [h1] at hstep
    | some t1 =>
      simp only [h1] at hstep
      have inv0 : Inv1 t.S t.S ids n Nn.parent [] Nn.children :=
        ⟨by simpa using TTN.S_eq hNn, by simp, by simp, by simp, fun _ _ _ _ => rfl⟩
      obtain ⟨es, g1, v1, hr, hes⟩ := lr66_level_exists dim e X kdim Nn.children [] t t1 g v (by simp) h hl hv hs
        inv0 h1 (by
          intro es tm gm vm c hrun hc hnot
          obtain ⟨cch, hSc⟩ := X.hc c hc
          exact hO es tm gm vm c cch hrun hSc hnot)
      obtain ⟨w1, l1, vw1, s1, _, _⟩ := lr54_level_core dim e h hl hv hs hr
      obtain ⟨_, _, I1⟩ := loop1 X kdim Nn.children [] t t1 (by simp) (TTN.WFX.ofWF h) inv0 h1
      have I2 := inv2_of_inv1 I1
      cases h2 : t1.contractAllChildren n n with
      | none => simp [h2] at hstep
      | some t2 =>
        simp only [h2] at hstep
        unfold TTN.contractAllChildren at h2
        obtain ⟨N1, hN1, e1⟩ := TTN.N_of_S I2.n_
        simp only [Prod.mk.injEq] at e1
        have hN1' : dget t1.nodes n = some N1 := hN1
        simp only [hN1', bind, Option.bind] at h2
        have hch1 : N1.children = Nn.children.map ids.star := by rw [← e1.2]; simp
        rw [hch1] at h2
        obtain ⟨g2, v2, run2, w2, l2, vw2, s2⟩ := lr66_loop2_exists dim e n ids Nn.children t1 t2 g1 v1 w1 l1 vw1 s1 h2
        obtain ⟨_, _, I2'⟩ := loop2 (P := False) (O := fun _ => []) X (fun hp => hp.elim) Nn.children [] t1 t2
          (by simp) (TTN.WFX.ofWF w1) I2 h2
        have I3 := inv3_of_inv2 I2'
        obtain ⟨N2, hN2, e2⟩ := TTN.N_of_S I3.n_
        simp only [Prod.mk.injEq] at e2
        have hN2' : dget t2.nodes n = some N2 := hN2
        simp only [hN2'] at hstep
        have hch2 : N2.children = Nn.children.map ids.proj := by rw [← e2.2]; simp
        rw [hch2] at hstep
        obtain ⟨g3, v3, run3, w3, l3, vw3, s3⟩ :=
          lr66_loop3_exists dim e X Nn.children [] t2 t' g2 v2 (by simp) w2 l2 vw2 s2 I3 hstep
        exact ⟨Nn, es, t1, g1, v1, g3, v3, hNn, hes, hr, h1, lr66_simrun_append run2 run3, w3, l3, vw3, s3,
          hfull.2.2, hfull.2.1⟩

end Ptn.C10
