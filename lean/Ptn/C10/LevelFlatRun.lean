import Ptn.C10.LevelFlat
/-! Value level, part 5 (builder B62): the FLAT form of a whole level of `truncate_node` (one node, all its children).

The value after the first loop of `truncate_node(n)` (`Lr54LevelRun` with the library's prefix `[.access n]`) is the value of
the ORIGINAL network in which the bond of every child is cut and carries its matrix `Π_c` - the record
`bs ++ all.flatMap Ins.cut`, `all.map Ins.Pm ++ leaves` of `recursive_truncation_value_telescope`.  The induction runs from
the LAST child to the first; per child the projector pair `(P, Pc)` with its bond `(q, r)` is merged back into the leaf
`Π_c` (`split_leaf_value`), which needs that no LATER insertion uses the labels `q`, `r` or a cut bond of this child
(`lf62Sep`, a condition on labels; it follows from "both ends of every cut bond are labels of the original network"
(`lf62Sep_of_orig`), which the same induction proves when `n` and the children are nodes of the original network: the
leg lists of the original nodes are invariant as sets). -/
namespace Ptn.C10
open Ptn.C02 Ptn.C03 Ptn.Ein NodeS

set_option linter.unusedSectionVars false
set_option linter.unusedVariables false
variable {R : Type} [CommSemiring R]

/-- the bonds of `B` that are cut by none of the insertions -/
def lf62Erase (B : List (Nat × Nat)) (ins : List (Ins Nat R)) : List (Nat × Nat) :=
  ins.foldl (fun B i => B.erase i.plain) B

theorem lf62Erase_append (Z : List (Nat × Nat)) : ∀ (ins : List (Ins Nat R)) (B : List (Nat × Nat)),
    (∀ i ∈ ins, i.plain ∉ Z) → lf62Erase (B ++ Z) ins = lf62Erase B ins ++ Z
  | [], B, _ => rfl
  | i :: r, B, hZ => by
    have hi : i.plain ∉ Z := hZ i List.mem_cons_self
    have : (B ++ Z).erase i.plain = B.erase i.plain ++ Z := by
      rw [List.erase_append]
      split
      · rfl
      · rename_i hB
        rw [List.erase_of_not_mem hi, List.erase_of_not_mem hB]
    show lf62Erase ((B ++ Z).erase i.plain) r = lf62Erase (B.erase i.plain) r ++ Z
    rw [this]
    exact lf62Erase_append Z r _ (fun j hj => hZ j (List.mem_cons_of_mem _ hj))

/-- every insertion cuts a bond that is still there when it is made -/
def lf62Mem : List (Nat × Nat) → List (Ins Nat R) → Prop
  | _, [] => True
  | B, i :: r => i.plain ∈ B ∧ lf62Mem (B.erase i.plain) r

theorem lf62Mem_of_append (Z : List (Nat × Nat)) : ∀ (ins : List (Ins Nat R)) (B : List (Nat × Nat)),
    lf62Mem (B ++ Z) ins → (∀ i ∈ ins, i.plain ∉ Z) → lf62Mem B ins
  | [], _, _, _ => trivial
  | i :: r, B, hm, hZ => by
    obtain ⟨h1, h2⟩ := hm
    have hB : i.plain ∈ B := by
      rcases List.mem_append.1 h1 with h | h
      · exact h
      · exact absurd h (hZ i List.mem_cons_self)
    refine ⟨hB, ?_⟩
    rw [List.erase_append_left _ hB] at h2
    exact lf62Mem_of_append Z r _ h2 (fun j hj => hZ j (List.mem_cons_of_mem _ hj))

/-- the bonds are the uncut ones together with the cut ones -/
theorem lf62Mem_perm : ∀ (ins : List (Ins Nat R)) (B : List (Nat × Nat)),
    lf62Mem B ins → B.Perm (lf62Erase B ins ++ ins.map Ins.plain)
  | [], B, _ => by simp [lf62Erase]
  | i :: r, B, hm => by
    obtain ⟨h1, h2⟩ := hm
    have ih := lf62Mem_perm r _ h2
    exact (List.perm_cons_erase h1).trans ((ih.cons i.plain).trans List.perm_middle.symm)

/-- a bound pair whose labels occur in no other pair can be summed last -/
theorem lf62_sumPairs_last (dim : Nat → Nat) (q r : Nat) (f : Asg Nat → R) :
    ∀ (cs : List (Nat × Nat)), (∀ c ∈ cs, q ≠ c.1 ∧ q ≠ c.2 ∧ r ≠ c.1 ∧ r ≠ c.2) →
      ∀ σ, sumPairs dim ((q, r) :: cs) f σ = sumPairs dim (cs ++ [(q, r)]) f σ
  | [], _, σ => rfl
  | c :: cs, hc, σ => by
    obtain ⟨c1, c2, c3, c4⟩ := hc c List.mem_cons_self
    rw [sumPairs_swap dim (q, r) c cs f σ c1 c2 c3 c4]
    have e1 := sumPairs_append dim [c] ((q, r) :: cs) f σ
    have e2 := sumPairs_append dim [c] (cs ++ [(q, r)]) f σ
    simp only [List.cons_append, List.nil_append] at e1 e2
    rw [e1]
    exact (sumPairs_congr dim [c]
      (fun τ => lf62_sumPairs_last dim q r f cs (fun d hd => hc d (List.mem_cons_of_mem _ hd)) τ) σ).trans e2.symm

theorem lf62_netValue_last (dim : Nat → Nat) (q r : Nat) (E cs : List (Nat × Nat)) (ls : List (Asg Nat → R))
    (hc : ∀ c ∈ cs, q ≠ c.1 ∧ q ≠ c.2 ∧ r ≠ c.1 ∧ r ≠ c.2) (σ : Asg Nat) :
    netValue dim (E ++ (q, r) :: cs) ls σ = netValue dim ((E ++ cs) ++ [(q, r)]) ls σ := by
  unfold netValue
  rw [sumPairs_append, List.append_assoc, sumPairs_append]
  exact sumPairs_congr dim E (fun τ => lf62_sumPairs_last dim q r _ cs hc τ) σ

theorem lf62_access_run {dim : Nat → Nat} {e : Label → Nat} {t t0 : TTN} {g g0 : LegMap} {v v0 : VNet R}
    {pre : List TOp} (hr : SimRun dim e t g v pre t0 g0 v0) (hp : ∀ op ∈ pre, ∃ id, op = TOp.access id) :
    g0 = g ∧ v0 = v := by
  induction hr with
  | nil => exact ⟨rfl, rfl⟩
  | cons hadm hst _ ih =>
    obtain ⟨id, rfl⟩ := hp _ List.mem_cons_self
    cases hst
    exact ih (fun op hop => hp op (List.mem_cons_of_mem _ hop))

/-- the split step exposed: the factors, the new bond, the list of leaves -/
theorem lf62_split_shape (dim : Nat → Nat) (e : Label → Nat) {t t2 : TTN} {g g2 : LegMap} {v v2 : VNet R}
    {id out inn : Id} {oL iL : TTN.LegSpec} {k : Nat}
    (h1 : t.WF) (hv1 : v.WF) (hs1 : RSim dim e g t v)
    (hsp : SimRun dim e t g v [.split id oL iL out inn k] t2 g2 v2) :
    ∃ O I : Asg Nat → R, (∀ τ, v.tens id τ = sumPairs dim [(v.next, v.next + 1)] (fun ρ => O ρ * I ρ) τ) ∧
      v2.bonds = v.bonds ++ [(v.next, v.next + 1)] ∧
      v2.ids.map v2.tens = O :: I :: (v.ids.erase id).map v.tens ∧ v2.next = v.next + 2 ∧
      (∀ k ∈ v.ids.erase id, k ∈ v2.ids ∧ ∀ l ∈ v2.legs k, l ∈ v.legs k) := by
  cases hsp with
  | cons hadm hst hr =>
    cases hr
    cases hst with
    | split F hstep hdim =>
      obtain ⟨X, hX⟩ := hadm
      obtain ⟨adm, hperm2, _⟩ := split_sim_core dim e h1 hv1 hs1 hX hstep hdim F
      obtain ⟨hid, hoi, hout, hinn, hperm⟩ := adm
      refine ⟨F.O, F.I, F.exact, rfl, ?_, rfl, ?_⟩
      rotate_left 1
      · intro j hj
        have hmem : j ∈ (splitStep dim v id out inn _ _ F).ids :=
          List.mem_cons_of_mem _ (List.mem_cons_of_mem _ hj)
        refine ⟨hmem, ?_⟩
        intro l hl'
        have := (hperm2 j hmem).mem_iff.1 hl'
        simpa [splitStep, rest1_ne hv1 hout hj, rest1_ne hv1 hinn hj] using this
      have hrest : (v.ids.erase id).map (splitStep dim v id out inn _ _ F).tens = (v.ids.erase id).map v.tens := by
        apply List.map_congr_left
        intro j hj
        simp [splitStep, rest1_ne hv1 hout hj, rest1_ne hv1 hinn hj]
      show List.map (splitStep dim v id out inn _ _ F).tens (out :: inn :: v.ids.erase id) = _
      rw [List.map_cons, List.map_cons, hrest]
      simp [splitStep, Ne.symm hoi]

/-- separation of an insertion `x` from a LATER insertion `y`: the labels `(x.a' + 2, x.a' + 3)` of the bond inside the
projector pair of `x` are not used by `y`, and `y` does not cut a cut bond of `x` -/
def lf62Sep (x y : Ins Nat R) : Prop := x.a' + 2 ∉ y.legs ∧ x.a' + 3 ∉ y.legs ∧ y.plain ∉ x.cut

/-- the level in flat form, by induction from the last child -/
theorem lf62_level_flat_core (dim : Nat → Nat) (e : Label → Nat) {n : Id} {ids : TTN.TempIds} {kdim : Id → Nat}
    {pre : List TOp} {t t' : TTN} {g g' : LegMap} {v v' : VNet R} {es : List (Lr54Entry R)}
    (hacc : ∀ op ∈ pre, ∃ id, op = TOp.access id)
    (h : t.WF) (hl : t.LWF) (hv : v.WF) (hs : RSim dim e g t v)
    (hr : Lr54LevelRun dim e n ids kdim pre t g v es t' g' v') :
    ∃ ins : List (Ins Nat R), (∀ i ∈ ins, dim i.b' = dim i.a) ∧
      ins.map Ins.Pm = es.map (·.Pi) ∧ ins.map Ins.a' = es.map (·.a) ∧
      (∀ i ∈ ins, i.b' = i.a' + 1) ∧ (∀ i ∈ ins.head?, i.plain ∈ v.bonds) ∧
      (∀ i ∈ ins, DependsOn (fun l => l = i.a' ∨ l = i.b') i.Pm) ∧
      (∀ i ∈ ins, v.next ≤ i.a') ∧ ins.Pairwise (fun x y => x.a' + 4 ≤ y.a') ∧
      (∀ i ∈ ins, i.plain ∈ v.bonds ∨ v.next ≤ i.a ∨ v.next ≤ i.b) ∧
      (∀ (K : List Nat) (N0 : Nat), N0 ≤ v.next → (∀ k ∈ K, k ∈ v.ids ∧ ∀ l ∈ v.legs k, l < N0) → n ∈ K →
        (∀ x ∈ es, x.c ∈ K) → (∀ i ∈ ins, i.a < N0 ∧ i.b < N0) ∧ lf62Mem v.bonds ins) ∧
      (ins.Pairwise lf62Sep →
        ∀ σ, v'.value dim σ =
          netValue dim (lf62Erase v.bonds ins ++ ins.flatMap Ins.cut) (ins.map Ins.Pm ++ v.ids.map v.tens) σ) := by
  induction hr with
  | nil t g v => exact ⟨[], by simp, rfl, rfl, by simp, by simp, by simp, by simp, by simp, by simp, by simp [lf62Mem], fun _ σ => by simp [lf62Erase, VNet.value]⟩
  | @cons t t0 t1 t2 t' g g0 g1 g2 g' v v0 v1 v2 v' c Pi rest hpre hid hdep hsp _ ih =>
    obtain ⟨hg0, hv0⟩ := lf62_access_run hpre hacc
    subst hg0
    subst hv0
    obtain ⟨_, _, w0, l0, vw0, s0, _, _⟩ := structural_history_preserves_value dim e h hl hv hs hpre
    obtain ⟨_, w2, l2, vw2, s2, vw1, _, _, _, _⟩ := truncate_node_value dim e w0 l0 vw0 s0 hid hdep hsp
    obtain ⟨p, hp, hpab, hnone, hids, hbonds, htens, hnext, hlegs, hil, hends, hdimp0⟩ := lf62_ident_shape w0 l0 vw0 s0 hid
    obtain ⟨_, _, w1, l1, _, s1, _, _⟩ := structural_history_preserves_value dim e w0 l0 vw0 s0 hid
    obtain ⟨O, I, hfac, hb2, hl2, hn2, hsl⟩ := lf62_split_shape dim e w1 (setTens_wf vw1 hdep) (s1.setTens _ Pi) hsp
    obtain ⟨ins, hdimr, e1, e2, e3, _, hPmr, hge, hmono, hmem, horigr, ihv⟩ := ih w2 l2 vw2 s2
    have hi : ids.ident c ∉ v0.ids := fun hm => (s0.ids _).1 hm hnone
    have hfac' : ∀ τ, Pi τ = sumPairs dim [(v0.next + 2, v0.next + 3)] (fun ρ => O ρ * I ρ) τ := by
      intro τ
      have := hfac τ
      simpa [setTens, hnext] using this
    have hb2' : v2.bonds = ((v0.bonds.erase p ++ [(p.1, v0.next)]) ++ [(v0.next + 1, p.2)]) ++
        [(v0.next + 2, v0.next + 3)] := by
      rw [hb2]
      show v1.bonds ++ [(v1.next, v1.next + 1)] = _
      rw [hbonds, hnext]
    have hl2' : v2.ids.map v2.tens = O :: I :: v0.ids.map v0.tens := by
      rw [hl2]
      show O :: I :: (v1.ids.erase (ids.ident c)).map (setTens v1 (ids.ident c) Pi).tens = _
      rw [hids, List.erase_cons_head]
      congr 2
      apply List.map_congr_left
      intro j hj
      have hji : j ≠ ids.ident c := fun e => hi (e ▸ hj)
      simp [setTens, hji, htens j hji]
    have hPm : ∀ i ∈ lf62Ins v0 p Pi :: ins, DependsOn (fun l => l = i.a' ∨ l = i.b') i.Pm := by
      intro i hi'
      rcases List.mem_cons.1 hi' with rfl | hi'
      · exact hdep.mono (fun l hl' => hlegs l hl')
      · exact hPmr i hi'
    have hv2n : v2.next = v0.next + 4 := by
      rw [hn2]
      show v1.next + 2 = _
      rw [hnext]
    refine ⟨lf62Ins v0 p Pi :: ins, (by
      intro i hi'
      rcases List.mem_cons.1 hi' with rfl | hi'
      · exact hdimp0
      · exact hdimr i hi'), by simp [lf62Ins, e1], by simp [lf62Ins, e2], ?_, ?_, hPm, ?_, ?_, ?_, ?_, ?_⟩
    rotate_left 2
    · intro i hi'
      rcases List.mem_cons.1 hi' with rfl | hi'
      · exact Nat.le_refl _
      · have := hge i hi'
        omega
    · refine List.pairwise_cons.2 ⟨fun y hy => ?_, hmono⟩
      have := hge y hy
      show v0.next + 4 ≤ y.a'
      omega
    · intro i hi'
      rcases List.mem_cons.1 hi' with rfl | hi'
      · exact Or.inl hp
      · rcases hmem i hi' with hm | hm | hm
        · rw [hb2'] at hm
          simp only [List.mem_append, List.mem_singleton] at hm
          rcases hm with ((hm | hm) | hm) | hm
          · exact Or.inl (List.mem_of_mem_erase hm)
          · have := congrArg Prod.snd hm
            simp only [Ins.plain] at this
            right; right; omega
          · have := congrArg Prod.fst hm
            simp only [Ins.plain] at this
            right; left; omega
          · have := congrArg Prod.fst hm
            simp only [Ins.plain] at this
            right; left; omega
        · right; left; omega
        · right; right; omega
    · intro K N0 hN0 hK hnK hcK
      have hK2 : ∀ k ∈ K, k ∈ v2.ids ∧ ∀ l ∈ v2.legs k, l < N0 := by
        intro k hk
        obtain ⟨hkv, hkl⟩ := hK k hk
        have hk1 : k ∈ (setTens v1 (ids.ident c) Pi).ids.erase (ids.ident c) := by
          show k ∈ v1.ids.erase (ids.ident c)
          rw [hids, List.erase_cons_head]
          exact hkv
        obtain ⟨a1, a2⟩ := hsl k hk1
        exact ⟨a1, fun l hl' => hkl l (hil k hkv l (a2 l hl'))⟩
      obtain ⟨hor, hmemr⟩ := horigr K N0 (by omega) hK2 hnK (fun x hx => hcK x (List.mem_cons_of_mem _ hx))
      refine ⟨?_, hp, ?_⟩
      · intro i hi'
        rcases List.mem_cons.1 hi' with rfl | hi'
        · have hc : c ∈ K := hcK _ List.mem_cons_self
          rcases hends with ⟨m1, m2⟩ | ⟨m1, m2⟩
          · exact ⟨(hK c hc).2 _ m1, (hK n hnK).2 _ m2⟩
          · exact ⟨(hK n hnK).2 _ m1, (hK c hc).2 _ m2⟩
        · exact hor i hi'
      · have hb3 : v2.bonds = v0.bonds.erase (lf62Ins v0 p Pi).plain ++
            [(p.1, v0.next), (v0.next + 1, p.2), (v0.next + 2, v0.next + 3)] := by
          rw [hb2']
          simp [lf62Ins, Ins.plain, List.append_assoc]
        rw [hb3] at hmemr
        refine lf62Mem_of_append _ ins _ hmemr ?_
        intro i hi' hm
        obtain ⟨ia, ib⟩ := hor i hi'
        simp only [Ins.plain, List.mem_cons, List.not_mem_nil, or_false, Prod.mk.injEq] at hm
        rcases hm with ⟨_, hh⟩ | ⟨hh, _⟩ | ⟨hh, _⟩ <;> omega
    rotate_left 1
    · intro i hi'
      rcases List.mem_cons.1 hi' with rfl | hi'
      · rfl
      · exact e3 i hi'
    · intro i hi'
      simp only [List.head?_cons, Option.mem_def, Option.some.injEq] at hi'
      subst hi'
      exact hp
    · intro hsep σ
      rw [List.pairwise_cons] at hsep
      obtain ⟨hsep1, hsepr⟩ := hsep
      have hq : ∀ i ∈ ins, v0.next + 2 ∉ i.legs ∧ v0.next + 3 ∉ i.legs :=
        fun i hi' => ⟨(hsep1 i hi').1, (hsep1 i hi').2.1⟩
      rw [ihv hsepr σ, hb2', hl2']
      rw [lf62Erase_append [(v0.next + 2, v0.next + 3)] ins _ (by
        intro i hi' hm
        have := (hq i hi').1
        simp only [List.mem_singleton] at hm
        apply this
        have : i.a = v0.next + 2 := by simpa [Ins.plain] using congrArg Prod.fst hm
        simp [Ins.legs, this])]
      rw [List.append_assoc, List.singleton_append]
      rw [lf62_netValue_last dim _ _ _ _ _ (by
        intro c hc
        obtain ⟨i, hi', hci⟩ := List.mem_flatMap.1 hc
        obtain ⟨q1, q2⟩ := hq i hi'
        simp only [Ins.legs, List.mem_cons, List.not_mem_nil, or_false, not_or] at q1 q2
        simp only [Ins.cut, List.mem_cons, List.not_mem_nil, or_false] at hci
        rcases hci with rfl | rfl
        · exact ⟨q1.1, q1.2.2.1, q2.1, q2.2.2.1⟩
        · exact ⟨q1.2.1, q1.2.2.2, q2.2.1, q2.2.2.2⟩) σ]
      have hperm : (ins.map Ins.Pm ++ O :: I :: v0.ids.map v0.tens).Perm
          (O :: I :: (ins.map Ins.Pm ++ v0.ids.map v0.tens)) := by
        refine List.perm_middle.trans (List.Perm.cons _ ?_)
        exact List.perm_middle
      rw [_root_.Ptn.C10.netValue_perm_leaves dim _ hperm σ]
      rw [split_leaf_value dim _ Pi O I _ (v0.next + 2) (v0.next + 3)
        (S := fun l => l ≠ v0.next + 2 ∧ l ≠ v0.next + 3) hfac' ?_ (fun hh => hh.1 rfl) (fun hh => hh.2 rfl) σ]
      · -- the two records agree
        have hE : lf62Erase ((v0.bonds.erase p ++ [(p.1, v0.next)]) ++ [(v0.next + 1, p.2)]) ins =
            lf62Erase (v0.bonds.erase p) ins ++ (lf62Ins v0 p Pi).cut := by
          rw [List.append_assoc]
          exact lf62Erase_append _ ins _ (fun i hi' => (hsep1 i hi').2.2)
        rw [hE]
        have hp' : (lf62Ins v0 p Pi).plain = p := rfl
        simp only [lf62Erase, List.foldl_cons, hp', List.flatMap_cons, List.map_cons, List.append_assoc,
          List.cons_append]
        rfl
      · intro f hf
        rcases List.mem_append.1 hf with hf | hf
        · obtain ⟨i, hi', rfl⟩ := List.mem_map.1 hf
          apply (hPm i (List.mem_cons_of_mem _ hi')).mono
          intro l hl
          obtain ⟨q1, q2⟩ := hq i hi'
          simp only [Ins.legs, List.mem_cons, List.not_mem_nil, or_false, not_or] at q1 q2
          rcases hl with rfl | rfl
          · exact ⟨Ne.symm q1.2.2.1, Ne.symm q2.2.2.1⟩
          · exact ⟨Ne.symm q1.2.1, Ne.symm q2.2.1⟩
        · obtain ⟨k, hk, rfl⟩ := List.mem_map.1 hf
          apply (vw0.reads k hk).mono
          intro l hl
          have := vw0.fresh k hk l hl
          exact ⟨by omega, by omega⟩

/-- if every insertion is made on a bond with ORIGINAL labels (`< N`), the fresh labels start at `N` and grow by at least
four per insertion, then the insertions are separated -/
theorem lf62Sep_of_orig {N : Nat} (ins : List (Ins Nat R)) (h1 : ∀ i ∈ ins, i.a < N ∧ i.b < N)
    (h2 : ∀ i ∈ ins, N ≤ i.a') (h3 : ∀ i ∈ ins, i.b' = i.a' + 1)
    (hp : ins.Pairwise (fun x y => x.a' + 4 ≤ y.a')) : ins.Pairwise lf62Sep := by
  refine hp.imp_of_mem ?_
  intro x y hx hy hxy
  obtain ⟨ya, yb⟩ := h1 y hy
  have x2 := h2 x hx
  have y2 := h2 y hy
  have x3 := h3 x hx
  have y3 := h3 y hy
  refine ⟨?_, ?_, ?_⟩
  · simp only [Ins.legs, List.mem_cons, List.not_mem_nil, or_false, not_or]
    exact ⟨by omega, by omega, by omega, by omega⟩
  · simp only [Ins.legs, List.mem_cons, List.not_mem_nil, or_false, not_or]
    exact ⟨by omega, by omega, by omega, by omega⟩
  · simp only [Ins.cut, Ins.plain, List.mem_cons, List.not_mem_nil, or_false, Prod.mk.injEq, not_or]
    exact ⟨fun hh => by omega, fun hh => by omega⟩

end Ptn.C10
