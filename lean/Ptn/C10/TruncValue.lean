import Ptn.C02.SimHistory
import Ptn.C02.SimDemo
/-! `truncate_node` at the value level, one child bond, on the C02 simulation (`Ptn/C02/Sim*.lean`):
`insert_identity(child, node)` puts the Kronecker delta on the bond (value unchanged, `insert_identity_simulates`);
`split_node_replace(identity, projector.conj(), projector.T)` replaces the delta by the two halves of a matrix `Π`;
every later structural edit (`contract_all_children`, the contraction of the projector into the child) is an exact
edit.  At the value level: replace the delta tensor by `Π` (`tv37WithTens`), then ANY simulated history (whose split
steps come with exact factorisations - of `Π` for the identity node) keeps that value. -/
namespace Ptn.C10
open Ptn.C02 Ptn.C03 Ptn.Ein

set_option linter.unusedSectionVars false
variable {R : Type} [CommSemiring R]

/-- the valued network with the tensor of node `i` replaced by `A` (same legs, same bonds) -/
def tv37WithTens (N : VNet R) (i : Nat) (A : Asg Nat → R) : VNet R :=
  { N with tens := fun k => if k = i then A else N.tens k }

theorem tv37_withTens_wf {N : VNet R} (h : N.WF) {i : Nat} {A : Asg Nat → R}
    (hA : DependsOn (· ∈ N.legs i) A) : (tv37WithTens N i A).WF := by
  refine ⟨h.ids_nodup, h.legs_nodup, h.owner, ?_, h.bonds_nodup, h.bonds_legs, h.fresh⟩
  intro n hn
  show DependsOn (· ∈ N.legs n) (if n = i then A else N.tens n)
  by_cases e : n = i
  · rw [if_pos e, e]; exact hA
  · rw [if_neg e]; exact h.reads n hn

/-- the abstraction relation does not look at the tensors -/
theorem tv37_withTens_rsim {dim : Nat → Nat} {e : Label → Nat} {g : LegMap} {t : TTN} {N : VNet R}
    (hs : RSim dim e g t N) (i : Nat) (A : Asg Nat → R) : RSim dim e g t (tv37WithTens N i A) :=
  ⟨hs.ids, hs.legs, hs.dimV, hs.dimO, hs.bondsIn, hs.bondsOut⟩

theorem tv37_withTens_self (N : VNet R) (i : Nat) : tv37WithTens N i (N.tens i) = N := by
  cases N with
  | mk ids legs tens bonds next =>
    simp only [tv37WithTens, VNet.mk.injEq, true_and, and_true]
    funext k
    by_cases e : k = i
    · rw [if_pos e, e]
    · rw [if_neg e]

end Ptn.C10
