import Ptn.C10.Value
import Ptn.C02.Composite
/-! Value level for C10, part 2: a RUN of projector insertions on different bonds of one flat network
(`recursive_truncation` visits every non-root node once and cuts the bond to its parent).

* `Ins`            one insertion: the old bond `(a, b)`, the two new legs `a'`, `b'` and the matrix `Pm = P·Pc`
                   that ends up on the bond (`projector_matrix_value`);
* `runValue dim bs leaves done todo`   the value of the network in which the bonds of `done` carry their
                   matrices and the bonds of `todo` are still plain;
* `stepDefect`     the network in which the bonds of `done` carry their matrices, the bond of `i` carries
                   `1 − Pm_i`, and the bonds of `todo` are plain;
* `recursive_truncation_value_telescope`  value before − value after the whole run = Σ over the steps of
                   `stepDefect` (ring; all sizes);
* `truncOrder`     the order in which `truncate_node` (structural model `Ptn.C02.TTN.truncateNode`) cuts the
                   bonds: all children of a node, then the recursion into each child. -/
namespace Ptn.C10

open Ptn.Ein

set_option linter.unusedSectionVars false

/-- one projector insertion, seen from the flat network: old bond `(a, b)`, new legs `a'` (joined to `a`) and
`b'` (joined to `b`), and the matrix `Pm` on `(a', b')` -/
structure Ins (L R : Type) where
  a : L
  b : L
  a' : L
  b' : L
  Pm : Asg L → R

namespace Ins
variable {L R : Type}
/-- the bond before the insertion -/
def plain (i : Ins L R) : L × L := (i.a, i.b)
/-- the two bonds after the insertion -/
def cut (i : Ins L R) : List (L × L) := [(i.a, i.a'), (i.b', i.b)]
/-- the legs involved (`= pairLegs (cut i)`) -/
def legs (i : Ins L R) : List L := [i.a, i.b', i.a', i.b]
end Ins

section defs
variable {L : Type} [DecidableEq L] {R : Type}

/-- binding record after the insertions `done`, before the insertions `todo`; `bs`: all other bonds -/
def runBinds (bs : List (L × L)) (done todo : List (Ins L R)) : List (L × L) :=
  bs ++ (done.flatMap Ins.cut ++ todo.map Ins.plain)

def runLeaves (leaves : List (Asg L → R)) (done : List (Ins L R)) : List (Asg L → R) :=
  done.map Ins.Pm ++ leaves

/-- every leg that is bound at some stage of the run -/
def allLegs (bs : List (L × L)) (all : List (Ins L R)) : List L :=
  Expr.pairLegs bs ++ all.flatMap Ins.legs

variable [CommRing R]

def runValue (dim : L → Nat) (bs : List (L × L)) (leaves : List (Asg L → R))
    (done todo : List (Ins L R)) : Asg L → R :=
  netValue dim (runBinds bs done todo) (runLeaves leaves done)

/-- the network with the matrices of `done` on their bonds, `1 − Pm_i` on the bond of `i`, the bonds of
`todo` untouched -/
def stepDefect (dim : L → Nat) (bs : List (L × L)) (leaves : List (Asg L → R))
    (done : List (Ins L R)) (i : Ins L R) (todo : List (Ins L R)) : Asg L → R :=
  netValue dim (runBinds bs (done ++ [i]) todo)
    ((fun τ => deltaT i.a' i.b' τ - i.Pm τ) :: runLeaves leaves done)

/-- `Σ_t stepDefect (first t insertions) (insertion t) (the later ones)` -/
def teleSum (dim : L → Nat) (bs : List (L × L)) (leaves : List (Asg L → R)) :
    List (Ins L R) → List (Ins L R) → Asg L → R
  | _, [], _ => 0
  | done, i :: todo, σ => stepDefect dim bs leaves done i todo σ + teleSum dim bs leaves (done ++ [i]) todo σ

end defs

section lemmas
variable {L : Type} [DecidableEq L] {R : Type}

theorem pairLegs_cuts (done : List (Ins L R)) :
    (Expr.pairLegs (done.flatMap Ins.cut)).Perm (done.flatMap Ins.legs) := by
  induction done with
  | nil => simp [Expr.pairLegs]
  | cons i ds ih =>
    simp only [List.flatMap_cons]
    exact (Expr.pairLegs_append _ _).trans (List.Perm.append_left _ ih)

theorem pairLegs_plains (todo : List (Ins L R)) :
    ∃ l : List L, l.Perm (Expr.pairLegs (todo.map Ins.plain)) ∧ l.Sublist (todo.flatMap Ins.legs) := by
  induction todo with
  | nil => exact ⟨[], by simp [Expr.pairLegs], by simp⟩
  | cons i ts ih =>
    obtain ⟨l, hp, hs⟩ := ih
    refine ⟨i.a :: i.b :: l, ?_, ?_⟩
    · simp only [List.map_cons]
      exact (((hp.cons i.b).cons i.a)).trans (pairLegs_cons_perm (i.a, i.b) _).symm
    · simp only [List.flatMap_cons, Ins.legs, List.cons_append, List.nil_append]
      exact (((hs.cons_cons i.b).cons i.a').cons i.b').cons_cons i.a

/-- no leg is bound twice at any stage of the run -/
theorem runBinds_nodup (bs : List (L × L)) (done todo : List (Ins L R))
    (h : (allLegs bs (done ++ todo)).Nodup) : (Expr.pairLegs (runBinds bs done todo)).Nodup := by
  obtain ⟨l, hp, hs⟩ := pairLegs_plains todo
  have h1 : (Expr.pairLegs (runBinds bs done todo)).Perm
      (Expr.pairLegs bs ++ (done.flatMap Ins.legs ++ l)) := by
    unfold runBinds
    refine (Expr.pairLegs_append _ _).trans (List.Perm.append_left _ ?_)
    exact (Expr.pairLegs_append _ _).trans (List.Perm.append (pairLegs_cuts done) hp.symm)
  rw [h1.nodup_iff]
  refine List.Sublist.nodup ?_ h
  unfold allLegs
  rw [List.flatMap_append]
  exact List.Sublist.append (List.Sublist.refl _) (List.Sublist.append (List.Sublist.refl _) hs)

theorem allLegs_facts (bs : List (L × L)) (done : List (Ins L R)) (i : Ins L R) (todo : List (Ins L R))
    (h : (allLegs bs (done ++ i :: todo)).Nodup) :
    i.legs.Nodup ∧ ∀ j ∈ done, ∀ l ∈ j.legs, l ∉ i.legs := by
  unfold allLegs at h
  rw [List.flatMap_append, List.flatMap_cons] at h
  have h2 := (List.nodup_append.1 h).2.1
  have h3 := List.nodup_append.1 h2
  have h4 := List.nodup_append.1 h3.2.1
  refine ⟨h4.1, ?_⟩
  intro j hj l hl hli
  exact h3.2.2 l (List.mem_flatMap.2 ⟨j, hj, hl⟩) l (List.mem_append.2 (Or.inl hli)) rfl

end lemmas

section ring
variable {L : Type} [DecidableEq L] {R : Type} [CommRing R]

/-- one step of the run with ANY matrix `M` that is the identity on the index range of the bond: the network
with `M` on the bond of `i` has the value of the network with that bond plain -/
theorem run_step_delta (dim : L → Nat) (bs : List (L × L)) (leaves : List (Asg L → R))
    (done : List (Ins L R)) (i : Ins L R) (todo : List (Ins L R)) {S : L → Prop}
    (hleaves : ∀ f ∈ leaves, DependsOn S f) (ha' : ¬ S i.a') (hb' : ¬ S i.b')
    (hPm : ∀ j ∈ done, DependsOn (fun l => l = j.a' ∨ l = j.b') j.Pm)
    (hnd : (allLegs bs (done ++ i :: todo)).Nodup) (hdim : dim i.b' = dim i.a)
    (M : Asg L → R)
    (hM : ∀ τ : Asg L, τ i.a' < dim i.a → τ i.b' < dim i.b' → M τ = if τ i.a' = τ i.b' then 1 else 0)
    (σ : Asg L) :
    netValue dim (runBinds bs (done ++ [i]) todo) (M :: runLeaves leaves done) σ =
      runValue dim bs leaves done (i :: todo) σ := by
  obtain ⟨hin, hdis⟩ := allLegs_facts bs done i todo hnd
  simp only [Ins.legs, List.nodup_cons, List.mem_cons, List.not_mem_nil, not_or, or_false] at hin
  obtain ⟨⟨_, _, _⟩, ⟨hb'a', hb'b⟩, ha'b, _⟩ := hin
  have nd1 := runBinds_nodup bs done (i :: todo) hnd
  have nd2 := runBinds_nodup bs (done ++ [i]) todo (by simpa using hnd)
  -- the two records, with the bond of `i` moved to the end
  have hb1 : (runBinds bs done (i :: todo)).Perm
      ((bs ++ (done.flatMap Ins.cut ++ todo.map Ins.plain)) ++ [(i.a, i.b)]) := by
    unfold runBinds
    simp only [List.map_cons, Ins.plain]
    exact (List.Perm.append_left bs List.perm_middle).trans
      (List.perm_middle.trans (List.perm_append_singleton _ _).symm)
  have hb2 : (runBinds bs (done ++ [i]) todo).Perm
      ((bs ++ (done.flatMap Ins.cut ++ todo.map Ins.plain)) ++ [(i.a, i.a'), (i.b', i.b)]) := by
    unfold runBinds
    simp only [List.flatMap_append, List.flatMap_cons, List.flatMap_nil, List.append_nil, Ins.cut]
    rw [List.append_assoc bs]
    apply List.Perm.append_left
    rw [List.append_assoc, List.append_assoc]
    exact List.Perm.append_left _ List.perm_append_comm
  -- what the other leaves read
  have hRL : ∀ f ∈ runLeaves leaves done, DependsOn (fun l => l ≠ i.a' ∧ l ≠ i.b') f := by
    intro f hf
    rcases List.mem_append.1 hf with h | h
    · obtain ⟨j, hj, rfl⟩ := List.mem_map.1 h
      apply (hPm j hj).mono
      intro l hl
      have d1 := hdis j hj j.a' (by simp [Ins.legs])
      have d2 := hdis j hj j.b' (by simp [Ins.legs])
      simp only [Ins.legs, List.mem_cons, List.not_mem_nil, not_or, or_false] at d1 d2
      rcases hl with rfl | rfl
      · exact ⟨d1.2.2.1, d1.2.1⟩
      · exact ⟨d2.2.2.1, d2.2.1⟩
    · apply (hleaves f h).mono
      intro l hl
      exact ⟨fun e => ha' (e ▸ hl), fun e => hb' (e ▸ hl)⟩
  unfold runValue
  rw [netValue_perm dim hb1 nd1 (List.Perm.refl _),
    netValue_perm dim hb2 nd2 (List.Perm.refl _)]
  exact identity_matrix_value dim _ M (runLeaves leaves done) i.a i.b i.a' i.b' hRL
    (fun h => h.1 rfl) (fun h => h.2 rfl) (Ne.symm hb'a') ha'b hb'b hdim hM σ

theorem runValue_snoc (dim : L → Nat) (bs : List (L × L)) (leaves : List (Asg L → R))
    (done : List (Ins L R)) (i : Ins L R) (todo : List (Ins L R)) (σ : Asg L) :
    runValue dim bs leaves (done ++ [i]) todo σ =
      netValue dim (runBinds bs (done ++ [i]) todo) (i.Pm :: runLeaves leaves done) σ := by
  unfold runValue
  apply netValue_perm_leaves
  unfold runLeaves
  simp only [List.map_append, List.map_cons, List.map_nil, List.append_assoc, List.cons_append,
    List.nil_append]
  exact List.perm_middle

/-- one step of the run: before − after = the defect network of that step -/
theorem run_step (dim : L → Nat) (bs : List (L × L)) (leaves : List (Asg L → R))
    (done : List (Ins L R)) (i : Ins L R) (todo : List (Ins L R)) {S : L → Prop}
    (hleaves : ∀ f ∈ leaves, DependsOn S f) (ha' : ¬ S i.a') (hb' : ¬ S i.b')
    (hPm : ∀ j ∈ done, DependsOn (fun l => l = j.a' ∨ l = j.b') j.Pm)
    (hnd : (allLegs bs (done ++ i :: todo)).Nodup) (hdim : dim i.b' = dim i.a) (σ : Asg L) :
    runValue dim bs leaves done (i :: todo) σ - runValue dim bs leaves (done ++ [i]) todo σ =
      stepDefect dim bs leaves done i todo σ := by
  unfold stepDefect
  rw [netValue_sub_head, runValue_snoc,
    run_step_delta dim bs leaves done i todo hleaves ha' hb' hPm hnd hdim (deltaT i.a' i.b')
      (fun τ _ _ => rfl) σ]

theorem run_telescope_aux (dim : L → Nat) (bs : List (L × L)) (leaves : List (Asg L → R))
    (all : List (Ins L R)) {S : L → Prop}
    (hleaves : ∀ f ∈ leaves, DependsOn S f) (hS : ∀ i ∈ all, ¬ S i.a' ∧ ¬ S i.b')
    (hPm : ∀ i ∈ all, DependsOn (fun l => l = i.a' ∨ l = i.b') i.Pm)
    (hnd : (allLegs bs all).Nodup) (hdim : ∀ i ∈ all, dim i.b' = dim i.a) (σ : Asg L) :
    ∀ (todo done : List (Ins L R)), done ++ todo = all →
      runValue dim bs leaves done todo σ - runValue dim bs leaves all [] σ = teleSum dim bs leaves done todo σ
  | [], done, h => by
    rw [List.append_nil] at h
    subst h
    simp [teleSum]
  | i :: todo, done, h => by
    have hi : i ∈ all := by rw [← h]; simp
    have ih := run_telescope_aux dim bs leaves all hleaves hS hPm hnd hdim σ todo (done ++ [i]) (by simpa using h)
    have st := run_step dim bs leaves done i todo hleaves (hS i hi).1 (hS i hi).2
      (fun j hj => hPm j (by rw [← h]; simp [hj])) (by rw [h]; exact hnd) (hdim i hi) σ
    rw [teleSum, ← st, ← ih]
    ring

/-- **Telescoping of a run of projector insertions (value level).**  `all` is the list of insertions in the
order they are made (for `recursive_truncation`: `truncOrder`), each on its own bond `(a, b)` of the flat
network with leaves `leaves` and other bonds `bs`, each putting a matrix `Pm` (on two fresh legs) on its bond.
Over every commutative ring, for all dimensions and every assignment of the open legs: the value of the
original network minus the value of the network after ALL insertions is the sum over the steps `t` of the
network in which the bonds of the steps before `t` carry their matrices, the bond of step `t` carries
`1 − Pm_t`, and the bonds of the later steps are untouched.  (Each summand is what `projector_linear_value`
describes; bounding it in norm is `general_step_bound`, adding the bounds is `trunc_error_telescoping`.) -/
theorem recursive_truncation_value_telescope (dim : L → Nat) (bs : List (L × L))
    (leaves : List (Asg L → R)) (all : List (Ins L R)) {S : L → Prop}
    (hleaves : ∀ f ∈ leaves, DependsOn S f) (hS : ∀ i ∈ all, ¬ S i.a' ∧ ¬ S i.b')
    (hPm : ∀ i ∈ all, DependsOn (fun l => l = i.a' ∨ l = i.b') i.Pm)
    (hnd : (allLegs bs all).Nodup) (hdim : ∀ i ∈ all, dim i.b' = dim i.a) (σ : Asg L) :
    netValue dim (bs ++ all.map Ins.plain) leaves σ
        - netValue dim (bs ++ all.flatMap Ins.cut) (all.map Ins.Pm ++ leaves) σ =
      teleSum dim bs leaves [] all σ := by
  have := run_telescope_aux dim bs leaves all hleaves hS hPm hnd hdim σ all [] rfl
  simpa [runValue, runBinds, runLeaves] using this

theorem run_identity_aux (dim : L → Nat) (bs : List (L × L)) (leaves : List (Asg L → R))
    (all : List (Ins L R)) {S : L → Prop}
    (hleaves : ∀ f ∈ leaves, DependsOn S f) (hS : ∀ i ∈ all, ¬ S i.a' ∧ ¬ S i.b')
    (hPm : ∀ i ∈ all, DependsOn (fun l => l = i.a' ∨ l = i.b') i.Pm)
    (hnd : (allLegs bs all).Nodup) (hdim : ∀ i ∈ all, dim i.b' = dim i.a)
    (hid : ∀ i ∈ all, ∀ τ : Asg L, τ i.a' < dim i.a → τ i.b' < dim i.b' →
      i.Pm τ = if τ i.a' = τ i.b' then 1 else 0) (σ : Asg L) :
    ∀ (todo done : List (Ins L R)), done ++ todo = all →
      runValue dim bs leaves done todo σ = runValue dim bs leaves all [] σ
  | [], done, h => by
    rw [List.append_nil] at h
    subst h
    rfl
  | i :: todo, done, h => by
    have hi : i ∈ all := by rw [← h]; simp
    have ih := run_identity_aux dim bs leaves all hleaves hS hPm hnd hdim hid σ todo (done ++ [i])
      (by simpa using h)
    rw [← ih, runValue_snoc]
    exact (run_step_delta dim bs leaves done i todo hleaves (hS i hi).1 (hS i hi).2
      (fun j hj => hPm j (by rw [← h]; simp [hj])) (by rw [h]; exact hnd) (hdim i hi) i.Pm (hid i hi) σ).symm

/-- the identity clause for the whole run: if every inserted matrix is the identity on the index range of
its bond, the value of the network is unchanged by the whole run -/
theorem recursive_truncation_identity_value (dim : L → Nat) (bs : List (L × L))
    (leaves : List (Asg L → R)) (all : List (Ins L R)) {S : L → Prop}
    (hleaves : ∀ f ∈ leaves, DependsOn S f) (hS : ∀ i ∈ all, ¬ S i.a' ∧ ¬ S i.b')
    (hPm : ∀ i ∈ all, DependsOn (fun l => l = i.a' ∨ l = i.b') i.Pm)
    (hnd : (allLegs bs all).Nodup) (hdim : ∀ i ∈ all, dim i.b' = dim i.a)
    (hid : ∀ i ∈ all, ∀ τ : Asg L, τ i.a' < dim i.a → τ i.b' < dim i.b' →
      i.Pm τ = if τ i.a' = τ i.b' then 1 else 0) (σ : Asg L) :
    netValue dim (bs ++ all.flatMap Ins.cut) (all.map Ins.Pm ++ leaves) σ =
      netValue dim (bs ++ all.map Ins.plain) leaves σ := by
  have := run_identity_aux dim bs leaves all hleaves hS hPm hnd hdim hid σ all [] rfl
  simpa [runValue, runBinds, runLeaves] using this.symm

end ring

/-! ### the order of the insertions -/

/-- the bonds `(parent, child)` in the order `truncate_node(n)` cuts them (`Ptn.C02.TTN.truncateNode`): first
all children of `n` (first loop of `truncate_node`), then the recursive calls, child by child.  `S` is the
structure map of the network (`t.S`: parent and children list of every node) — it is the same before and
after every call (`truncate_node_structure`). -/
def truncOrder (S : Nat → Option (Option Nat × List Nat)) : Nat → Nat → List (Nat × Nat)
  | 0, _ => []
  | fuel + 1, n =>
    match S n with
    | none => []
    | some (_, cs) => cs.map (fun c => (n, c)) ++ cs.flatMap (truncOrder S fuel)

end Ptn.C10
