import Ptn.C10.Model
/-! Property theorems for C10. Only property theorems and non-vacuity examples live here. -/
namespace Ptn.C10
end Ptn.C10
