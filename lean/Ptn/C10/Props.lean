import Ptn.C10.Model
import Ptn.C10.Spec
import Ptn.C10.Lemmas
import Ptn.C10.Telescoping
import Ptn.C10.Tree
import Ptn.C10.Projector
import Ptn.C10.Value
import Ptn.C10.ValueRun
import Ptn.C10.BondDim
import Ptn.C10.BondAxes
import Ptn.C10.SvdNetwork
import Ptn.C10.TruncOrder
import Ptn.C10.SvdSweep
import Ptn.C10.SvdOrder
import Ptn.C10.SvdCover
import Ptn.C10.BondLocalThm
import Ptn.C10.BondLocalCS
import Ptn.C10.SvdRun
import Ptn.C10.TruncValue
import Ptn.C10.TruncValueDemo
import Ptn.C10.LevelRun
import Ptn.C10.LevelFlatRun
import Ptn.C10.LevelExists
import Ptn.C10.RecExists
import Ptn.C10.RecTelescope
/-! Property theorems for C10 (selection rule of the singular-value truncation).  Only property
theorems and non-vacuity examples live here; helper lemmas are in `Lemmas.lean`, the
specification vocabulary (`Desc`, `NonNeg`, `survives`, `Fits`, `capMin`, `renormFactor`) in
`Spec.lean`.

All theorems quantify over EVERY non-empty, non-negative, descending spectrum `s : List Rat`
(ties and zeros allowed) and every parameter object that passes the constructor's validation
(`p.Valid`): `max_bond_dim` a positive integer or infinity, tolerances non-negative, `-inf` or
`+inf`, every combination of the three flags. -/
namespace Ptn.C10

/-- **Prefix clause.**  The result is `(c • s[:k], s[k:])` for one `k` with `1 ≤ k ≤ |s|` and
    `k ≤ max_bond_dim`; `c = 1` unless renormalising a non-zero spectrum, in which case
    `c = Σs / Σs[:k]` (an all-zero spectrum is returned unchanged: repair F-C10a). -/
theorem trunc_is_prefix (s : List Rat) (p : Params) (hs : s ≠ []) (hnn : NonNeg s) (hd : Desc s)
    (hp : p.Valid) :
    ∃ k, 1 ≤ k ∧ k ≤ s.length ∧ (∀ d, p.maxBond = some d → k ≤ d) ∧
      (((p.renorm = false ∨ s.head hs = 0) ∧ truncate s p = some (s.take k, s.drop k)) ∨
       (p.renorm = true ∧ 0 < s.head hs ∧
          truncate s p = some ((s.take k).map (renormFactor s k * ·), s.drop k))) := by
  obtain ⟨h1, h2, h3⟩ := keptLen_bounds s p hs hp
  refine ⟨keptLen s p hs, h1, h2, h3, ?_⟩
  rw [truncate_eq s p hs hnn hd hp]
  cases hr : p.renorm with
  | false => left; simp [keptOf]
  | true =>
    have h0 : 0 ≤ s.head hs := hnn _ (List.head_mem hs)
    by_cases hz : s.head hs = 0
    · left
      refine ⟨Or.inr hz, ?_⟩
      simp only [keptOf, if_true]
      rw [renormalise_zero s _ (sum_take_zero s hs hnn hd hz _)]
    · right
      have hpos : 0 < s.head hs := Rat.lt_of_le_of_ne h0 (Ne.symm hz)
      have hsum : 0 < (s.take (keptLen s p hs)).sum :=
        rat_lt_of_lt_of_le hpos (head_le_sum_take s hs hnn _ h1)
      refine ⟨rfl, hpos, ?_⟩
      simp only [keptOf, if_true]
      rw [renormalise_pos s _ hsum]

/-- **Value rule.**  Without sum mode the values strictly above `max(rel·s₀, tot)` form a prefix
    of length `n`, the rule selects exactly that prefix, and the kept prefix has length
    `min(max(n,1), D)`. -/
theorem value_rule (s : List Rat) (p : Params) (hs : s ≠ []) (hnn : NonNeg s) (hd : Desc s)
    (hp : p.Valid) (hv : p.sumTrunc = false) :
    let n := s.countP (survives p.relTol p.totalTol (s.head hs))
    (∀ i (hi : i < s.length), survives p.relTol p.totalTol (s.head hs) s[i] = true ↔ i < n) ∧
    selected s p = s.take n ∧
    ∃ kept, truncate s p = some (kept, s.drop (capMin (max n 1) p.maxBond)) ∧
      kept.length = capMin (max n 1) p.maxBond := by
  intro n
  have hsel : selLen s p hs = n := by simp [selLen, hv, n]
  refine ⟨?_, ?_, ?_⟩
  · intro i hi
    exact prefix_iff_lt_countP _ s hd (fun a b h hb => survives_mono _ _ _ a b h hb) i hi
  · rw [selected_eq_take s p hs hnn hd, hsel]
  · obtain ⟨_, h2, _⟩ := keptLen_bounds s p hs hp
    have hk : keptLen s p hs = capMin (max n 1) p.maxBond := by simp [keptLen, hsel]
    refine ⟨keptOf s p.renorm (keptLen s p hs), ?_, ?_⟩
    · rw [truncate_eq s p hs hnn hd hp, hk]
    · rw [← hk]; exact keptOf_length s _ _ h2

/-- **Sum rule.**  In sum mode the rule's index `K` is the start of the longest tail whose squared
    weight (relative to the total when normalising) does not exceed `total_tol²`: the tail `s[K:]`
    fits and no longer tail does.  (For the all-zero spectrum the code sets `K = 0`: everything is
    discarded.)  The rule selects `s[:K]` and the kept prefix has length `min(max(K,1), D)`. -/
theorem sum_rule (s : List Rat) (p : Params) (hs : s ≠ []) (hnn : NonNeg s) (hd : Desc s)
    (hp : p.Valid) (hv : p.sumTrunc = true) :
    let K := sumTruncIndex s p.totalTol p.sumRenorm
    (normSq s = 0 → K = 0) ∧
    (normSq s ≠ 0 → K ≤ s.length ∧ Fits s p.totalTol p.sumRenorm K ∧
        ∀ j, j < K → ¬ Fits s p.totalTol p.sumRenorm j) ∧
    selected s p = s.take K ∧
    ∃ kept, truncate s p = some (kept, s.drop (capMin (max K 1) p.maxBond)) ∧
      kept.length = capMin (max K 1) p.maxBond := by
  intro K
  have hsel : selLen s p hs = K := by simp [selLen, hv, K]
  refine ⟨?_, ?_, ?_, ?_⟩
  · intro h0; simp [K, sumTruncIndex, h0]
  · intro hne; exact sumTruncIndex_spec s _ _ hne
  · rw [selected_eq_take s p hs hnn hd, hsel]
  · obtain ⟨_, h2, _⟩ := keptLen_bounds s p hs hp
    have hk : keptLen s p hs = capMin (max K 1) p.maxBond := by simp [keptLen, hsel]
    refine ⟨keptOf s p.renorm (keptLen s p hs), ?_, ?_⟩
    · rw [truncate_eq s p hs hnn hd hp, hk]
    · rw [← hk]; exact keptOf_length s _ _ h2

/-- **Keep one.**  If the rule selects nothing, exactly the largest value is kept (rescaled to the
    total sum when renormalising) and all others are discarded. -/
theorem keep_one (s : List Rat) (p : Params) (hs : s ≠ []) (hnn : NonNeg s) (hd : Desc s)
    (hp : p.Valid) (hnone : selected s p = []) :
    ∃ kept, truncate s p = some (kept, s.tail) ∧
      (p.renorm = false → kept = [s.head hs]) ∧
      (p.renorm = true → kept = [s.sum]) := by
  have hsel : selLen s p hs = 0 := by
    have h := selected_eq_take s p hs hnn hd
    rw [hnone] at h
    have hl := congrArg List.length h
    have := selLen_le s p hs
    simp at hl
    have hne : s.length ≠ 0 := fun h => hs (List.length_eq_zero_iff.mp h)
    omega
  have hb := valid_bond p hp
  have hk : keptLen s p hs = 1 := by
    unfold keptLen; rw [hsel]
    cases hmb : p.maxBond with
    | none => simp [capMin]
    | some d => have := hb d hmb; simp [capMin]; omega
  have htake : s.take 1 = [s.head hs] := by
    cases s with
    | nil => exact absurd rfl hs
    | cons a t => simp
  refine ⟨keptOf s p.renorm 1, ?_, ?_, ?_⟩
  · rw [truncate_eq s p hs hnn hd hp, hk]; simp
  · intro hr; simp [keptOf, hr, htake]
  · intro hr
    have h0 : 0 ≤ s.head hs := hnn _ (List.head_mem hs)
    simp only [keptOf, hr, if_true]
    by_cases hz : s.head hs = 0
    · rw [renormalise_zero s _ (sum_take_zero s hs hnn hd hz 1), htake, hz,
        sum_zero_of_head_zero s hs hnn hd hz]
    · have hpos : 0 < s.head hs := Rat.lt_of_le_of_ne h0 (Ne.symm hz)
      have hsum : 0 < (s.take 1).sum := by simpa [htake] using hpos
      rw [renormalise_pos s 1 hsum, htake]
      simp [renormFactor, htake, Rat.div_mul_cancel hz]

/-- **Renormalisation.**  With `renorm` the kept prefix is multiplied as a whole by one factor
    `c ≥ 1` and afterwards sums to `Σs` (the ℓ¹ norm is restored — the sum, not the Euclidean norm
    the docstring suggests).  For a non-zero spectrum `c = Σs / Σs[:k]`; an all-zero spectrum is
    returned unchanged (`c = 1`).  No exception: this holds for every spectrum. -/
theorem renorm_scale (s : List Rat) (p : Params) (hs : s ≠ []) (hnn : NonNeg s) (hd : Desc s)
    (hp : p.Valid) (hr : p.renorm = true) :
    ∃ k c kept, truncate s p = some (kept, s.drop k) ∧
      kept = (s.take k).map (c * ·) ∧ kept.sum = s.sum ∧ 1 ≤ c ∧
      (0 < s.head hs → c = renormFactor s k) ∧ (s.head hs = 0 → c = 1) := by
  obtain ⟨h1, _, _⟩ := keptLen_bounds s p hs hp
  have h0 : 0 ≤ s.head hs := hnn _ (List.head_mem hs)
  rw [truncate_eq s p hs hnn hd hp]
  simp only [keptOf, hr, if_true]
  by_cases hz : s.head hs = 0
  · have hzero := sum_take_zero s hs hnn hd hz (keptLen s p hs)
    refine ⟨keptLen s p hs, 1, _, rfl, ?_, ?_, Rat.le_refl, ?_, fun _ => rfl⟩
    · rw [renormalise_zero s _ hzero]; simp
    · rw [renormalise_zero s _ hzero, hzero, sum_zero_of_head_zero s hs hnn hd hz]
    · intro hpos; rw [hz] at hpos; exact absurd hpos Rat.lt_irrefl
  · have hpos : 0 < s.head hs := Rat.lt_of_le_of_ne h0 (Ne.symm hz)
    have hsum : 0 < (s.take (keptLen s p hs)).sum :=
      rat_lt_of_lt_of_le hpos (head_le_sum_take s hs hnn _ h1)
    refine ⟨keptLen s p hs, renormFactor s (keptLen s p hs), _, rfl, renormalise_pos s _ hsum, ?_,
      renormFactor_ge_one s hnn _ hsum, fun _ => rfl, fun h => absurd h hz⟩
    rw [renormalise_pos s _ hsum]; exact renorm_sum s _ hsum

/-- **Zero spectrum (repair F-C10a).**  Renormalising a kept vector whose sum is zero returns it
    unchanged; hence for an all-zero spectrum the result consists of zeros only, whatever the flags. -/
theorem renorm_zero_unchanged (s : List Rat) (p : Params) (hs : s ≠ []) (hnn : NonNeg s)
    (hd : Desc s) (hp : p.Valid) (hz : s.head hs = 0) :
    (∀ newS : List Rat, newS.sum = 0 → renormalise s newS = newS) ∧
    ∃ k, 1 ≤ k ∧ truncate s p = some (s.take k, s.drop k) ∧ ∀ x ∈ s.take k, x = 0 := by
  obtain ⟨h1, _, _⟩ := keptLen_bounds s p hs hp
  refine ⟨fun newS h => renormalise_zero s newS h, keptLen s p hs, h1, ?_, ?_⟩
  · rw [truncate_eq s p hs hnn hd hp]
    cases hr : p.renorm with
    | false => simp [keptOf]
    | true =>
      simp only [keptOf, if_true]
      rw [renormalise_zero s _ (sum_take_zero s hs hnn hd hz _)]
  · intro x hx
    exact all_zero_of_head_zero s hs hnn hd hz x (List.mem_of_mem_take hx)

/-- Validation accepts exactly: `max_bond_dim` a positive integer or `+inf`, and each tolerance
    non-negative, `-inf` or `+inf`. -/
theorem validation_spec (b : BondArg) (rel tot : Tol) :
    checkParams b rel tot = .ok ↔
      ((∃ z : Int, b = .int z ∧ 0 < z) ∨ b = .inf) ∧
      (∀ q, rel = .fin q → 0 ≤ q) ∧ (∀ q, tot = .fin q → 0 ≤ q) := by
  cases b <;> cases rel <;> cases tot <;>
    simp [checkParams, Tol.rejected] <;> grind

/-! ### Error accumulation over successive truncations (abstract; tree level is partial) -/

/-- **L4 (telescoping).**  Additive maps `P₀,…,P_{k-1}` that are contractions, each moving the
    original vector by at most `δ j`: applying all of them moves it by at most `Σ δ j`.
    (Projectors inserted on *different* bonds of the same tensor, as `truncate_node` does for
    the children of one node, are of this kind.) -/
theorem trunc_error_telescoping {E : Type*} [SeminormedAddCommGroup E] (P : ℕ → E →+ E)
    (δ : ℕ → ℝ) (k : ℕ) (x : E) (hc : ∀ j, j < k → ∀ y, ‖P j y‖ ≤ ‖y‖)
    (hd : ∀ j, j < k → ‖x - P j x‖ ≤ δ j) :
    ‖x - applyUpTo (fun j => (P j : E → E)) k x‖ ≤ ∑ j ∈ Finset.range k, δ j :=
  telescoping P δ k x hc hd

/-- **Error bound, partial.**  If the `j`-th local replacement changes the current state by at most
    `N · δ j` (`δ j` the weight discarded there, `N` a bound on the norm of the rest of the
    network), the state after `k` replacements differs from the original by at most `N · Σ δ j`.
    *Missing* (validated numerically on every run, not proved): that every replacement performed by
    `recursive_truncation` / `svd_truncation` satisfies the hypothesis with `N = max(1, ‖ψ‖)` and
    `δ j` = the discarded singular values of that step. -/
theorem trunc_error_bound_partial {E : Type*} [SeminormedAddCommGroup E] (ψ : ℕ → E) (δ : ℕ → ℝ)
    (N : ℝ) (k : ℕ) (h : ∀ j, j < k → ‖ψ j - ψ (j + 1)‖ ≤ N * δ j) :
    ‖ψ 0 - ψ k‖ ≤ N * ∑ j ∈ Finset.range k, δ j := by
  rw [Finset.mul_sum]
  exact dist_chain ψ (fun j => N * δ j) k h

/-! ### One projector insertion of `recursive_truncation`, and the bound over the recursion -/

open Matrix Finset in
/-- **One projector insertion.**  Centre tensor matricised with the child leg as rows,
    `M = U₁ diag(s₁) W₁ + U₂ diag(s₂) W₂` (the SVD, GIVEN: columns of `U₁`, `U₂` orthonormal and
    mutually orthogonal, rows of `W₂` orthonormal; contract of `numpy.linalg.svd`), kept part `1`,
    discarded part `2`; the projector of `get_truncation_projector` is `P = U₁`, and inserting
    `P.conj()`, `P.T` on the bond turns `M` into `P Pᴴ M`.  If the state is `ψ = E · vec M` with `E` an
    isometry (the embedding of the centre tensor: canonical form), then what is removed is exactly the
    discarded part, and the state changes by exactly the discarded weight:
    `‖ψ − ψ'‖² = Σ discarded sᵢ²`. -/
theorem single_projector_error {m n κ δ N : Type*} [Fintype m] [Fintype n] [Fintype κ] [Fintype δ]
    [Fintype N] [DecidableEq m] [DecidableEq n] [DecidableEq κ] [DecidableEq δ]
    (E : Matrix N (m × n) ℂ) (hE : Eᴴ * E = 1)
    (U₁ : Matrix m κ ℂ) (U₂ : Matrix m δ ℂ) (s₁ : κ → ℝ) (s₂ : δ → ℝ)
    (W₁ : Matrix κ n ℂ) (W₂ : Matrix δ n ℂ)
    (h11 : U₁ᴴ * U₁ = 1) (h12 : U₁ᴴ * U₂ = 0) (h22 : U₂ᴴ * U₂ = 1) (hW : W₂ * W₂ᴴ = 1) :
    let M := U₁ * cdiag s₁ * W₁ + U₂ * cdiag s₂ * W₂
    let ψ := E *ᵥ vec M
    let ψ' := E *ᵥ vec (U₁ * U₁ᴴ * M)
    M - U₁ * U₁ᴴ * M = U₂ * cdiag s₂ * W₂ ∧
    star (ψ - ψ') ⬝ᵥ (ψ - ψ') = ((∑ i, (s₂ i) ^ 2 : ℝ) : ℂ) ∧
    ‖(WithLp.toLp 2 ψ : EuclideanSpace ℂ N) - WithLp.toLp 2 ψ'‖ = Real.sqrt (∑ i, (s₂ i) ^ 2) := by
  intro M ψ ψ'
  have hsq := projector_error_sq E hE U₁ U₂ s₁ s₂ W₁ W₂ h11 h12 h22 hW
  refine ⟨residual_eq U₁ U₂ s₁ s₂ W₁ W₂ h11 h12, hsq, ?_⟩
  rw [← enorm_sub]
  have h2 : enorm (ψ - ψ') ^ 2 = ∑ i, (s₂ i) ^ 2 := by
    rw [enorm_sq]
    have : star (ψ - ψ') ⬝ᵥ (ψ - ψ') = ((∑ i, (s₂ i) ^ 2 : ℝ) : ℂ) := hsq
    rw [this, Complex.ofReal_re]
  have h0 : 0 ≤ enorm (ψ - ψ') := by unfold enorm; exact norm_nonneg _
  rw [← h2, Real.sqrt_sq h0]

open Matrix Finset in
/-- A projector inserted at the orthogonality centre (every first-level insertion of
    `recursive_truncation`, after `canonical_form(root)`) satisfies the step hypothesis of
    `recursive_truncation_error_bound_partial` with factor 1 (and with equality). -/
theorem root_step_bound {m n κ N : Type*} {r : ℕ} [Fintype m] [Fintype n] [Fintype κ]
    [Fintype N] [DecidableEq m] [DecidableEq n] [DecidableEq κ]
    (E : Matrix N (m × n) ℂ) (hE : Eᴴ * E = 1)
    (U₁ : Matrix m κ ℂ) (U₂ : Matrix m (Fin r) ℂ) (s₁ : κ → ℝ) (σ : ℕ → ℝ)
    (W₁ : Matrix κ n ℂ) (W₂ : Matrix (Fin r) n ℂ)
    (h11 : U₁ᴴ * U₁ = 1) (h12 : U₁ᴴ * U₂ = 0) (h22 : U₂ᴴ * U₂ = 1) (hW : W₂ * W₂ᴴ = 1) :
    let M := U₁ * cdiag s₁ * W₁ + U₂ * cdiag (fun i : Fin r => σ i) * W₂
    ‖(WithLp.toLp 2 (E *ᵥ vec M) : EuclideanSpace ℂ N) - WithLp.toLp 2 (E *ᵥ vec (U₁ * U₁ᴴ * M))‖
      ≤ 1 * Real.sqrt (∑ i ∈ range r, σ i ^ 2) := by
  intro M
  have := (single_projector_error E hE U₁ U₂ s₁ (fun i : Fin r => σ i) W₁ W₂ h11 h12 h22 hW).2.2
  rw [one_mul, Finset.sum_range (fun i => σ i ^ 2)]
  exact le_of_eq this

open Matrix Finset in
/-- A projector inserted at a tensor that is NOT the orthogonality centre: if the rest of the
    network maps coefficient vectors to states with `‖A x‖ ≤ Nrm ‖x‖` (hypothesis `hA`; `A` need not
    be an isometry), the step changes the state by at most `Nrm` times the weight discarded in the
    SVD of the LOCAL tensor. -/
theorem general_step_bound {m n κ N : Type*} {r : ℕ} [Fintype m] [Fintype n] [Fintype κ]
    [Fintype N] [DecidableEq m] [DecidableEq n] [DecidableEq κ]
    (A : Matrix N (m × n) ℂ) (Nrm : ℝ)
    (hA : ∀ x : m × n → ℂ, enorm (A *ᵥ x) ≤ Nrm * enorm x)
    (U₁ : Matrix m κ ℂ) (U₂ : Matrix m (Fin r) ℂ) (s₁ : κ → ℝ) (σ : ℕ → ℝ)
    (W₁ : Matrix κ n ℂ) (W₂ : Matrix (Fin r) n ℂ)
    (h11 : U₁ᴴ * U₁ = 1) (h12 : U₁ᴴ * U₂ = 0) (h22 : U₂ᴴ * U₂ = 1) (hW : W₂ * W₂ᴴ = 1) :
    let M := U₁ * cdiag s₁ * W₁ + U₂ * cdiag (fun i : Fin r => σ i) * W₂
    ‖(WithLp.toLp 2 (A *ᵥ vec M) : EuclideanSpace ℂ N) - WithLp.toLp 2 (A *ᵥ vec (U₁ * U₁ᴴ * M))‖
      ≤ Nrm * Real.sqrt (∑ i ∈ range r, σ i ^ 2) := by
  intro M
  rw [← enorm_sub, ← mulVec_sub]
  have h := hA (vec M - vec (U₁ * U₁ᴴ * M))
  rw [residual_enorm U₁ U₂ s₁ (fun i : Fin r => σ i) W₁ W₂ h11 h12 h22 hW] at h
  rw [Finset.sum_range (fun i => σ i ^ 2)]
  exact h

open Finset in
/-- **Error bound over the recursion, partial.**  `Ψ 0, …, Ψ K` the states after each projector
    insertion, `σ t i` (`i < r t`) the singular values discarded at insertion `t`.  If every step
    satisfies `‖Ψ t − Ψ (t+1)‖ ≤ Nrm · sqrt(Σᵢ σ_{t,i}²)`, then
    `‖Ψ 0 − Ψ K‖ ≤ Nrm · Σ_t sqrt(Σᵢ σ_{t,i}²) ≤ Nrm · Σ_t Σᵢ σ_{t,i}` (the ℓ¹ bound the oracle uses).
    The step hypothesis is PROVED for insertions at the orthogonality centre (`root_step_bound`, factor
    1) and REDUCED by `general_step_bound` to one fact for the deeper insertions, which is what remains
    ASSUMED: after the first-level projectors have been contracted into the children, the tensors above a
    child are no longer isometries, and the map `A_t` from the child's coefficient vector to the state is
    only bounded, `‖A_t x‖ ≤ max(1, ‖ψ‖) ‖x‖` (validated numerically on every run through the dense
    error check, not proved).  Also assumed: that `Ψ (t+1)` of one step is `Ψ t` of the next (the
    contractions in between do not change the state; C02 contraction soundness). -/
theorem recursive_truncation_error_bound_partial {H : Type*} [SeminormedAddCommGroup H]
    (Ψ : ℕ → H) (K : ℕ) (r : ℕ → ℕ) (σ : ℕ → ℕ → ℝ) (Nrm : ℝ)
    (hσ : ∀ t i, 0 ≤ σ t i) (hN : 0 ≤ Nrm)
    (hstep : ∀ t, t < K →
      ‖Ψ t - Ψ (t + 1)‖ ≤ Nrm * Real.sqrt (∑ i ∈ range (r t), σ t i ^ 2)) :
    ‖Ψ 0 - Ψ K‖ ≤ Nrm * ∑ t ∈ range K, Real.sqrt (∑ i ∈ range (r t), σ t i ^ 2) ∧
    ‖Ψ 0 - Ψ K‖ ≤ Nrm * ∑ t ∈ range K, ∑ i ∈ range (r t), σ t i := by
  have h1 := trunc_error_bound_partial Ψ (fun t => Real.sqrt (∑ i ∈ range (r t), σ t i ^ 2)) Nrm K hstep
  refine ⟨h1, h1.trans ?_⟩
  apply mul_le_mul_of_nonneg_left _ hN
  apply sum_le_sum
  intro t _
  exact sqrt_sum_sq_le_sum (σ t) (hσ t) (r t)


/-! ### Non-vacuity and boundary behaviour: concrete instances -/

/-- Parameter objects used below. -/
def exP (D : Option Nat) (rel tot : Tol) (renorm sumT sumR : Bool) : Params :=
  { maxBond := D, relTol := rel, totalTol := tot, renorm := renorm, sumTrunc := sumT, sumRenorm := sumR }

-- hypotheses of the error bound are satisfiable with a non-trivial instance (E = ℝ)
example : ∀ j, j < 2 → ‖(fun n : ℕ => (1 : ℝ) - n) j - (fun n : ℕ => (1 : ℝ) - n) (j + 1)‖
    ≤ 2 * (fun _ => (1 / 2 : ℝ)) j := by
  intro j _
  have e : ((1 : ℝ) - (j : ℝ)) - ((1 : ℝ) - ((j + 1 : ℕ) : ℝ)) = 1 := by push_cast; ring
  simp only [e]
  norm_num
-- the rule selects nothing (hypothesis of `keep_one`)
example : selected [4, 2, 1] (exP (some 5) (.fin 1) (.fin 0) false false true) = [] := by
  decide +kernel
-- `Fits`: tail {3} of [4,3] fits tolerance 3, the whole vector does not
example : Fits [4, 3] (.fin 3) false 1 ∧ ¬ Fits [4, 3] (.fin 3) false 0 := by decide +kernel

-- hypotheses are satisfiable (ties, zeros)
example : Desc [4, 2, 2, 1, 0, 0] ∧ NonNeg [4, 2, 2, 1, 0, 0] ∧
    (exP (some 3) (.fin (1/2)) .ninf false false true).Valid := by
  refine ⟨by decide +kernel, by decide +kernel, by decide +kernel⟩
-- tie at the threshold: rel·s₀ = 2, values equal to 2 are NOT kept (strictly above)
example : truncate [4, 2, 2, 1] (exP none (.fin (1/2)) .ninf false false true)
    = some ([4], [2, 2, 1]) := by decide +kernel
-- just below the tie: kept
example : truncate [4, 2, 2, 1] (exP none (.fin (1/4)) .ninf false false true)
    = some ([4, 2, 2], [1]) := by decide +kernel
-- max(rel·s₀, tot): the larger threshold wins
example : truncate [4, 2, 2, 1] (exP none (.fin (1/4)) (.fin 3) false false true)
    = some ([4], [2, 2, 1]) := by decide +kernel
-- both tolerances -inf, D = ∞: nothing is discarded, zeros included
example : truncate [4, 2, 0, 0] (exP none .ninf .ninf false false true)
    = some ([4, 2, 0, 0], []) := by decide +kernel
-- D caps the prefix
example : truncate [4, 2, 2, 1] (exP (some 2) .ninf .ninf false false true)
    = some ([4, 2], [2, 1]) := by decide +kernel
-- tolerance 0: zeros are dropped (strict comparison), D = ∞
example : truncate [4, 2, 0, 0] (exP none (.fin 0) (.fin 0) false false true)
    = some ([4, 2], [0, 0]) := by decide +kernel
-- nothing survives: keep the largest
example : truncate [4, 2, 1] (exP (some 5) (.fin 1) (.fin 0) false false true)
    = some ([4], [2, 1]) := by decide +kernel
example : truncate [4, 2, 1] (exP (some 5) .pinf (.fin 0) false false true)
    = some ([4], [2, 1]) := by decide +kernel
-- single value; all-zero spectrum with rel_tol = -inf (IEEE nan cutoff): one zero is kept
example : truncate [3] (exP (some 1) (.fin 0) (.fin 0) false false true) = some ([3], []) := by
  decide +kernel
example : truncate [0, 0] (exP none .ninf .ninf false false true) = some ([0], [0]) := by
  decide +kernel
-- sum mode, absolute: tail {3} has weight 9 = 3², fits (not strictly above) -> discarded
example : truncate [4, 3] (exP none (.fin 0) (.fin 3) false true false) = some ([4], [3]) := by
  decide +kernel
example : truncate [4, 3] (exP none (.fin 0) (.fin (299/100)) false true false)
    = some ([4, 3], []) := by decide +kernel
-- sum mode, relative: tails of [1,1,1,1] weigh 1/4, 1/2, ...; tol² = 1/4 ties with the first
example : truncate [1, 1, 1, 1] (exP none (.fin 0) (.fin (1/2)) false true true)
    = some ([1, 1, 1], [1]) := by decide +kernel
-- sum mode with total_tol = -inf: (-inf)² = +inf, every tail fits, the largest value is kept
example : truncate [4, 3, 1] (exP none (.fin 0) .ninf false true true) = some ([4], [3, 1]) := by
  decide +kernel
-- sum mode, max_bond_dim hit: the cap applies to the ORIGINAL vector
example : truncate [4, 3, 2, 1] (exP (some 2) (.fin 0) (.fin 0) false true false)
    = some ([4, 3], [2, 1]) := by decide +kernel
-- renormalisation: [4,2] scaled by 7/6 sums to 7 again
example : truncate [4, 2, 1] (exP (some 2) .ninf .ninf true false true)
    = some ([14/3, 7/3], [1]) := by decide +kernel
-- renormalising an all-zero spectrum leaves it unchanged (was NaN before repair F-C10a)
example : truncate [0, 0] (exP none (.fin 0) (.fin 0) true false true) = some ([0], [0]) := by
  decide +kernel
example : truncate [0, 0, 0] (exP none .ninf .ninf true true true) = some ([0], [0, 0]) := by
  decide +kernel
-- the empty vector is rejected
example : truncate [] (exP none (.fin 0) (.fin 0) false false true) = none := by decide +kernel
-- validation
example : checkParams (.int 0) (.fin 0) (.fin 0) = .valueError "max_bond_dim" := by decide +kernel
example : checkParams .otherFloat (.fin 0) (.fin 0) = .typeError := by decide +kernel
example : checkParams .inf (.fin (-1)) (.fin 0) = .valueError "rel_tol" := by decide +kernel
example : checkParams .inf .ninf .ninf = .ok := by decide +kernel

open Matrix in
-- the SVD hypotheses are satisfiable: M = diag(2, 1/2) on ℂ², kept = first, discarded = second vector
example :
    let U₁ : Matrix (Fin 2) (Fin 1) ℂ := Matrix.of ![![1], ![0]]
    let U₂ : Matrix (Fin 2) (Fin 1) ℂ := Matrix.of ![![0], ![1]]
    let W₂ : Matrix (Fin 1) (Fin 2) ℂ := Matrix.of ![![0, 1]]
    U₁ᴴ * U₁ = 1 ∧ U₁ᴴ * U₂ = 0 ∧ U₂ᴴ * U₂ = 1 ∧ W₂ * W₂ᴴ = 1 := by
  intro U₁ U₂ W₂
  refine ⟨?_, ?_, ?_, ?_⟩ <;>
    · ext i j
      fin_cases i; fin_cases j
      simp [U₁, U₂, W₂, Matrix.mul_apply, Fin.sum_univ_two]
-- the step hypothesis of the recursion bound is satisfiable (two steps in ℝ)
example : ∀ t, t < 2 → ‖(fun n : ℕ => (1 : ℝ) - n) t - (fun n : ℕ => (1 : ℝ) - n) (t + 1)‖
    ≤ 1 * Real.sqrt (∑ i ∈ Finset.range 1, (fun _ _ => (1 : ℝ)) t i ^ 2) := by
  intro t _
  simp

/-! ### "Leaves every bond within the maximum" on the structural model (partial) -/

section bond_dims
open Ptn.C02

/-- **Every bond within `max_bond_dim`, partial.**  `spec c` is the spectrum `truncate_singular_values` is given
    for the bond above the child `c` (any non-empty, non-negative, descending list), `p` any valid parameter
    object with `max_bond_dim = D`; the kept dimensions fed into the structural model of `recursive_truncation`
    (`Ptn.C02.TTN.recursiveTruncation`) are the ones the selection model `truncate` produces, `keptDim (spec c) p`.
    PROVED: every kept dimension is between 1 and `D` (and at most the length of its spectrum); the structural
    conclusions of `recursive_truncation_core_structure`; and, GIVEN `hbond`, every virtual leg of every node of the
    result has dimension `≤ D`.
    *Missing* (`hbond`, an explicit hypothesis, decided by evaluation on concrete networks - example below - and by the
    oracle on every run of the real routine): that in the structural model every bond axis of the result carries one
    of the kept dimensions, i.e. that `insertProjectors` / `contractAllChildren` move the fresh axis `⟨label, kdim c⟩`
    of `splitNodes` to the two ends of the bond `c - parent c` and remove the old axis.  (`t'.legPairs k = []` for every
    `k` that is not a node, so the quantification over the node list loses nothing.)  The `svd_truncation` analogue is
    not stated: there the QR moves after a `contract_and_split_with_parent` take their dimension as an input of the
    model as well, and bounding it needs `min(rows, columns) ≤ old bond dimension`, which the structural model does
    not contain. -/
theorem recursive_truncation_bonds_le_partial {t t' : TTN} (spec : Id → List Rat) (p : Params) (D : Nat)
    (hp : p.Valid) (hD : p.maxBond = some D)
    (hspec : ∀ c, spec c ≠ [] ∧ NonNeg (spec c) ∧ Desc (spec c))
    (h : t.WF) (hl : t.LWF)
    (hs : t.recursiveTruncation (fun c => keptDim (spec c) p) = some t')
    (hbond : ∀ e ∈ t'.nodes, ∀ q ∈ t'.legPairs e.1, ∃ c', q.2.dim = keptDim (spec c') p) :
    (∀ c, 1 ≤ keptDim (spec c) p ∧ keptDim (spec c) p ≤ D ∧ keptDim (spec c) p ≤ (spec c).length) ∧
    (t'.WF ∧ t'.LWF ∧ t'.root = t.root ∧ (∀ k, t'.N k = none ↔ t.N k = none) ∧
      (∀ k, t'.openAxes k = t.openAxes k)) ∧
    (∀ e ∈ t'.nodes, ∀ q ∈ t'.legPairs e.1, q.2.dim ≤ D) := by
  have hk : ∀ c, 1 ≤ keptDim (spec c) p ∧ keptDim (spec c) p ≤ D ∧ keptDim (spec c) p ≤ (spec c).length := by
    intro c
    obtain ⟨hs, hnn, hd⟩ := hspec c
    obtain ⟨h1, h2, h3⟩ := keptDim_bounds (spec c) p hs hnn hd hp
    exact ⟨h1, h3 D hD, h2⟩
  obtain ⟨w, l, R, N, _, o⟩ := recursive_truncation_core_structure h hl hs
  refine ⟨hk, ⟨w, l, R, N, o⟩, ?_⟩
  intro e he q hq
  obtain ⟨c', hc'⟩ := hbond e he q hq
  rw [hc']
  exact (hk c').2.1

/-- spectra and parameters for the instance below: `max_bond_dim = 2`, tolerances 0 -/
def exSpec : Id → List Rat := fun c => if c = 2 then [4, 2, 1] else if c = 3 then [3, 1] else [5, 0]
def exPrm : Params := exP (some 2) (.fin 0) (.fin 0) false false true

-- the kept dimensions: the cap applies at the bond above `2`, the zero is dropped at the bond above `4`
example : (fun c => keptDim (exSpec c) exPrm) 2 = 2 ∧ keptDim (exSpec 3) exPrm = 2 ∧ keptDim (exSpec 4) exPrm = 1 := by
  decide +kernel

-- all hypotheses of `recursive_truncation_bonds_le_partial` hold on the chain-with-a-branch (whose bond `1 - 2` has
-- dimension 3 before): in particular `hbond` - the model's result carries exactly the kept dimensions on its bonds
set_option maxRecDepth 16384 in
example : ∃ t t', TRunL TTN.empty buildOps t ∧ t.WF ∧ t.LWF ∧
    t.recursiveTruncation (fun c => keptDim (exSpec c) exPrm) = some t' ∧
    exPrm.Valid ∧ (∀ c, exSpec c ≠ [] ∧ NonNeg (exSpec c) ∧ Desc (exSpec c)) ∧
    (∀ e ∈ t'.nodes, ∀ q ∈ t'.legPairs e.1, ∃ c' ∈ [2, 3, 4], q.2.dim = keptDim (exSpec c') exPrm) ∧
    t.legPairs 2 = [(1, ⟨100, 3⟩), (4, ⟨102, 2⟩)] ∧
    t'.legPairs 2 = [(1, ⟨1000000, 2⟩), (4, ⟨1000002, 1⟩)] :=
  ⟨_, _, .cons ⟨rfl, rfl⟩ trivial rfl (.cons trivial ⟨_, rfl, rfl⟩ rfl (.cons trivial ⟨_, rfl, rfl⟩ rfl
      (.cons trivial ⟨_, rfl, rfl⟩ rfl (.nil _)))),
    (builtL_labels (show TRunL TTN.empty buildOps _ from
      .cons ⟨rfl, rfl⟩ trivial rfl (.cons trivial ⟨_, rfl, rfl⟩ rfl (.cons trivial ⟨_, rfl, rfl⟩ rfl
        (.cons trivial ⟨_, rfl, rfl⟩ rfl (.nil _)))))).1,
    (builtL_labels (show TRunL TTN.empty buildOps _ from
      .cons ⟨rfl, rfl⟩ trivial rfl (.cons trivial ⟨_, rfl, rfl⟩ rfl (.cons trivial ⟨_, rfl, rfl⟩ rfl
        (.cons trivial ⟨_, rfl, rfl⟩ rfl (.nil _)))))).2,
    rfl, by decide +kernel,
    (by
      intro c
      unfold exSpec
      by_cases h2 : c = 2
      · simp only [h2, if_true]; exact ⟨by decide, by decide +kernel, by decide +kernel⟩
      · by_cases h3 : c = 3
        · simp only [h3, if_true]; exact ⟨by decide, by decide +kernel, by decide +kernel⟩
        · simp only [h2, h3, if_false]; exact ⟨by decide, by decide +kernel, by decide +kernel⟩),
    by decide +kernel, by decide +kernel, by decide +kernel⟩

/-- **Which axis every bond carries after `recursive_truncation`** (structural model, between the two
    canonicalisations; every well-formed, label-consistent tree, every choice `kdim` of kept dimensions).  Every
    virtual leg `(k → x, ax)` of the result belongs to a node `k` of the original tree and is either the leg towards
    the parent of `k`, with dimension `kdim k`, or the leg towards a child `x` of `k`, with dimension `kdim x`: the
    bond above every non-root node `c` has - at both ends - exactly the dimension chosen for `c`, the kept dimension
    of the projector pair inserted on it.  This discharges the hypothesis `hbond` of
    `recursive_truncation_bonds_le_partial` (proof: the fresh `splitNodes` axis is followed through
    `insertProjectors`, `contractAllChildren` and the last loop of `truncate_node`, `BondAxes.lean`). -/
theorem recursive_truncation_bond_axes {t t' : TTN} {kdim : Id → Nat} (h : t.WF) (hl : t.LWF)
    (hs : t.recursiveTruncation kdim = some t') :
    ∀ k x ax, t'.Leg k x ax → ∃ m, t.N k = some m ∧
      ((m.parent = some x ∧ ax.dim = kdim k) ∨ (x ∈ m.children ∧ ax.dim = kdim x)) := by
  obtain ⟨w', l', _, S', _, G⟩ := recursive_truncation_parent_legs h hl hs
  intro k x ax hleg
  obtain ⟨m', L, hm', _, hz⟩ := leg_node hleg
  have hx : x ∈ m'.neighbours := (List.of_mem_zip hz).1
  have hSk : t.S k = some (m'.parent, m'.children) := by rw [← S']; exact TTN.S_eq hm'
  obtain ⟨m, hm, em⟩ := TTN.N_of_S hSk
  simp only [Prod.mk.injEq] at em
  refine ⟨m, hm, ?_⟩
  rcases (mem_neighbours m' x).mp hx with hp | hc
  · left
    refine ⟨by rw [← em.1]; exact hp, ?_⟩
    obtain ⟨ax', l, e⟩ := G k x m'.children (by rw [hSk, hp])
    rw [leg_unique w' hleg l]; exact e
  · right
    refine ⟨by rw [← em.2]; exact hc, ?_⟩
    obtain ⟨cch, hSx⟩ := h.str.down k _ _ x hSk hc
    obtain ⟨ax', l, e⟩ := G x k cch hSx
    rw [leg_unique w' (l'.sym _ _ _ hleg) l]; exact e

/-- **Every bond within `max_bond_dim`** (full: no hypothesis on the result).  `spec c` is the spectrum
    `truncate_singular_values` is given for the bond above the child `c` (any non-empty, non-negative, descending
    list), `p` any valid parameter object with `max_bond_dim = D`.  The structural model of `recursive_truncation`
    run with the kept dimensions of the selection model, on every well-formed, label-consistent tree: well-formed,
    label-consistent result with the same root, identifiers and open axes, in which EVERY virtual leg of EVERY node
    has dimension `≤ D`; more precisely the bond above the non-root node `c` has dimension `keptDim (spec c) p`,
    which is `≥ 1`, `≤ D` and `≤` the number of singular values. -/
theorem recursive_truncation_bonds_le {t t' : TTN} (spec : Id → List Rat) (p : Params) (D : Nat)
    (hp : p.Valid) (hD : p.maxBond = some D)
    (hspec : ∀ c, spec c ≠ [] ∧ NonNeg (spec c) ∧ Desc (spec c))
    (h : t.WF) (hl : t.LWF)
    (hs : t.recursiveTruncation (fun c => keptDim (spec c) p) = some t') :
    (∀ c, 1 ≤ keptDim (spec c) p ∧ keptDim (spec c) p ≤ D ∧ keptDim (spec c) p ≤ (spec c).length) ∧
    (t'.WF ∧ t'.LWF ∧ t'.root = t.root ∧ (∀ k, t'.N k = none ↔ t.N k = none) ∧
      (∀ k, t'.openAxes k = t.openAxes k)) ∧
    (∀ k x ax, t'.Leg k x ax → ∃ c, (c = k ∨ c = x) ∧ ax.dim = keptDim (spec c) p) ∧
    (∀ e ∈ t'.nodes, ∀ q ∈ t'.legPairs e.1, q.2.dim ≤ D) := by
  have hb : ∀ k x ax, t'.Leg k x ax → ∃ c, (c = k ∨ c = x) ∧ ax.dim = keptDim (spec c) p := by
    intro k x ax hleg
    obtain ⟨m, _, hm⟩ := recursive_truncation_bond_axes h hl hs k x ax hleg
    rcases hm with ⟨_, e⟩ | ⟨_, e⟩
    · exact ⟨k, Or.inl rfl, e⟩
    · exact ⟨x, Or.inr rfl, e⟩
  obtain ⟨hk, hstr, hle⟩ := recursive_truncation_bonds_le_partial spec p D hp hD hspec h hl hs
    (fun e _ q hq => by
      obtain ⟨c, _, e'⟩ := hb e.1 q.1 q.2 hq
      exact ⟨c, e'⟩)
  exact ⟨hk, hstr, hb, hle⟩

-- `recursive_truncation_bond_axes` on the chain-with-a-branch: all hypotheses hold, and the bonds of the result
-- carry exactly the chosen dimensions (bond `1 - 2`: 3 before, `kdim 2 = 2` after; `2 - 4`: 2 before, 1 after)
set_option maxRecDepth 16384 in
example : ∃ t t', TRunL TTN.empty buildOps t ∧ t.WF ∧ t.LWF ∧
    t.recursiveTruncation (fun c => keptDim (exSpec c) exPrm) = some t' ∧
    t.legPairs 1 = [(2, ⟨100, 3⟩), (3, ⟨101, 2⟩)] ∧
    t'.legPairs 1 = [(2, ⟨1000000, 2⟩), (3, ⟨1000001, 2⟩)] ∧
    t'.legPairs 4 = [(2, ⟨1000002, 1⟩)] :=
  ⟨_, _, .cons ⟨rfl, rfl⟩ trivial rfl (.cons trivial ⟨_, rfl, rfl⟩ rfl (.cons trivial ⟨_, rfl, rfl⟩ rfl
      (.cons trivial ⟨_, rfl, rfl⟩ rfl (.nil _)))),
    (builtL_labels (show TRunL TTN.empty buildOps _ from
      .cons ⟨rfl, rfl⟩ trivial rfl (.cons trivial ⟨_, rfl, rfl⟩ rfl (.cons trivial ⟨_, rfl, rfl⟩ rfl
        (.cons trivial ⟨_, rfl, rfl⟩ rfl (.nil _)))))).1,
    (builtL_labels (show TRunL TTN.empty buildOps _ from
      .cons ⟨rfl, rfl⟩ trivial rfl (.cons trivial ⟨_, rfl, rfl⟩ rfl (.cons trivial ⟨_, rfl, rfl⟩ rfl
        (.cons trivial ⟨_, rfl, rfl⟩ rfl (.nil _)))))).2,
    rfl, by decide +kernel, by decide +kernel, by decide +kernel⟩

/-- **`truncate_node` visits every non-root node exactly once.**  For every well-formed tree with root `r`, the list
    `truncOrder t.S (t.nodes.length + 1) r` of (parent, child) pairs - the order in which `truncate_node` inserts the
    projector pairs, with the recursion depth the model's `recursiveTruncation` allows - has no child twice, contains
    exactly the nodes that have a parent, pairs every one of them with ITS parent, and is therefore a permutation of
    every duplicate-free enumeration of the non-root nodes.  (The fuel `number of nodes + 1` always suffices: the call
    stack consists of distinct nodes.) -/
theorem truncOrder_perm {t : TTN} (h : t.WF) {r : Id} (hr : t.root = some r) :
    ((truncOrder t.S (t.nodes.length + 1) r).map Prod.snd).Nodup ∧
    (∀ c, c ∈ (truncOrder t.S (t.nodes.length + 1) r).map Prod.snd ↔ ∃ p cch, t.S c = some (some p, cch)) ∧
    (∀ p c, (p, c) ∈ truncOrder t.S (t.nodes.length + 1) r → ∃ cch, t.S c = some (some p, cch)) ∧
    (∀ l : List Id, l.Nodup → (∀ c, c ∈ l ↔ ∃ p cch, t.S c = some (some p, cch)) →
      ((truncOrder t.S (t.nodes.length + 1) r).map Prod.snd).Perm l) := by
  have hnd := truncOrder_nodup h.str (t.nodes.length + 1) r
  have hmem : ∀ c, c ∈ (truncOrder t.S (t.nodes.length + 1) r).map Prod.snd ↔
      ∃ p cch, t.S c = some (some p, cch) := by
    intro c
    constructor
    · intro hc
      obtain ⟨⟨p, c'⟩, hm, e⟩ := List.mem_map.mp hc
      simp at e; subst e
      obtain ⟨p', cch, e, _⟩ := (truncOrder_sound _ r p c' hm).1.parent_cases h.str
      exact ⟨p', cch, e⟩
    · rintro ⟨p, cch, e⟩
      obtain ⟨dp, hd⟩ := h.str.depth
      obtain ⟨r', ch, e1, e2⟩ := h.str.root_ok
      rw [hr] at e1; simp at e1; subst e1
      refine truncOrder_complete h hd _ r [] ?_ (by simp) (by simp) (by simp) (by simp) c
        (sdesc_root h.str hr c p cch e)
      intro e'; rw [S_none_of_N e'] at e2; simp at e2
  refine ⟨hnd, hmem, ?_, ?_⟩
  · intro p c hm
    obtain ⟨_, pp, pch, e, hc⟩ := truncOrder_sound _ r p c hm
    exact h.str.down p _ _ c e hc
  · intro l hl hml
    exact (List.perm_ext_iff_of_nodup hnd hl).mpr (fun c => (hmem c).trans (hml c).symm)

-- on the chain-with-a-branch: root `1`, the order is `2, 3` (children of the root), then `4`
example : ∃ t, TRun TTN.empty buildOps t ∧ t.WF ∧ t.root = some 1 ∧
    truncOrder t.S (t.nodes.length + 1) 1 = [(1, 2), (1, 3), (2, 4)] :=
  ⟨_, .cons ⟨rfl, rfl⟩ rfl (.cons trivial rfl (.cons trivial rfl (.cons trivial rfl (.nil _)))),
    built_wf (show TRun TTN.empty buildOps _ from
      .cons ⟨rfl, rfl⟩ rfl (.cons trivial rfl (.cons trivial rfl (.cons trivial rfl (.nil _))))),
    rfl, by decide +kernel⟩

/-- **`svd_truncation`: every cut bond within `max_bond_dim`, no bond ever grows - partial.**  `SvdSweep D t es t'`: a
    run of the structural model's `centreMove` (`move_orthogonalization_center`) and `contractSplit`
    (`contract_and_split_with_parent`) events in which (assumptions of the model, all explicit in `SvdSweep`)
    every cut has new dimension `bd ≤ D` (true of `keptDim`, `keptDim_bounds`), every QR move has `bd ≤` the dimension
    of the bond it crosses (contract of `tensor_qr_decomposition`: `min(rows, columns) ≤ columns`), and
    every event is LOCAL to its bond (`BondLocal`: the bond gets `bd` at both ends, every other leg keeps its axis).
    Then in the result (1) every leg of a pair that was cut has dimension `≤ D`, whatever moves crossed it afterwards;
    (2) every leg has dimension `≤ D` or at most the dimension it had at the start; (3) if every bond of the result
    was cut (the sweep of `svd_truncation` cuts the bond above every non-root node), every virtual leg of every node
    is `≤ D`.
    *Missing*: `BondLocal` is a hypothesis per event (a decidable statement about the two concrete networks, checked
    by evaluation below and by the oracle `bond ≤ max_bond_dim` on every live run), not a theorem about
    `centreMove` / `contractSplit` for all networks - that needs the leg-level version of `two_site_core` /
    `split_down` / `split_up` of `Ptn/C02/CompositeWF.lean` (the push-forward lemmas of `LegPush.lean` are the
    ingredients; done for `truncate_node` in `BondAxes.lean`); and that the event list of the real sweep
    (`linearise()` order) cuts every bond is an input.  (Builder B37: both are now proved - `centre_move_bond_local`,
    `contract_split_bond_local`, `svd_sweep_cuts_every_edge`; see `svd_truncation_bonds_le`, `svd_truncation_all_bonds_le`
    at the end of this file.  This statement is kept under its old name.) -/
theorem svd_truncation_bonds_le_partial {D : Nat} {t t' : TTN} {es : List TdvpEvent} (h : SvdSweep D t es t') :
    (∀ k x ax, t'.Leg k x ax → ((k, x) ∈ cutPairs es ∨ (x, k) ∈ cutPairs es) → ax.dim ≤ D) ∧
    (∀ k x ax, t'.Leg k x ax → ax.dim ≤ D ∨ ∃ ax0, t.Leg k x ax0 ∧ ax.dim ≤ ax0.dim) ∧
    ((∀ k x ax, t'.Leg k x ax → (k, x) ∈ cutPairs es ∨ (x, k) ∈ cutPairs es) →
      ∀ e ∈ t'.nodes, ∀ q ∈ t'.legPairs e.1, q.2.dim ≤ D) := by
  refine ⟨fun k x ax hl => (svd_sweep_legs h k x ax hl).1, fun k x ax hl => (svd_sweep_legs h k x ax hl).2, ?_⟩
  intro hall e _ q hq
  exact (svd_sweep_legs h e.1 q.1 q.2 hq).1 (hall e.1 q.1 q.2 hq)

-- the sweep of the third example of `Tree.lean` (centre to the leaf `4`, cut `(4,2)`, centre to `3`, cut `(3,1)`, cut
-- `(2,1)`) satisfies every assumption of `SvdSweep` with `D = 2`: each event is local to its bond (decided), each
-- move respects the dimension of the bond it crosses (bond `1 - 2` has dimension 3 until it is cut), all three
-- bonds are cut
set_option maxRecDepth 16384 in
example : ∃ t t', TRun TTN.empty buildOps t ∧
    SvdSweep 2 t [.move 3 1 60 2, .move 1 2 61 3, .move 2 4 62 2, .contractSplit 4 2 63 1,
               .move 2 1 64 2, .move 1 3 65 2, .contractSplit 3 1 66 1, .contractSplit 2 1 67 2] t' ∧
    t.legPairs 1 = [(2, ⟨100, 3⟩), (3, ⟨101, 2⟩)] ∧
    t'.legPairs 1 = [(2, ⟨1000007, 2⟩), (3, ⟨1000006, 1⟩)] ∧ t'.legPairs 4 = [(2, ⟨1000003, 1⟩)] :=
  ⟨_, _, .cons ⟨rfl, rfl⟩ rfl (.cons trivial rfl (.cons trivial rfl (.cons trivial rfl (.nil _)))),
    .move rfl (by decide +kernel) ⟨⟨101, 2⟩, by decide +kernel, by decide +kernel, by decide⟩
    (.move rfl (by decide +kernel) ⟨⟨100, 3⟩, by decide +kernel, by decide +kernel, by decide⟩
    (.move rfl (by decide +kernel) ⟨⟨102, 2⟩, by decide +kernel, by decide +kernel, by decide⟩
    (.cut rfl (by decide +kernel) (by decide)
    (.move rfl (by decide +kernel) ⟨⟨1000001, 3⟩, by decide +kernel, by decide +kernel, by decide⟩
    (.move rfl (by decide +kernel) ⟨⟨1000000, 2⟩, by decide +kernel, by decide +kernel, by decide⟩
    (.cut rfl (by decide +kernel) (by decide)
    (.cut rfl (by decide +kernel) (by decide) (.nil _)))))))),
    by decide +kernel, by decide +kernel, by decide +kernel⟩

end bond_dims

/-! ### Value level (`Value.lean`, `ValueRun.lean`): non-vacuity -/

section value_examples
open Ptn.Ein Ptn.C02

/-- two tensors `A[0,1]`, `B[2,3]` joined by the bond `(1, 2)`; all dimensions 2 -/
def exA : Asg Nat → Int := fun τ => (τ 0 : Int) + 2 * (τ 1 : Int) + 1
def exB : Asg Nat → Int := fun τ => 3 * (τ 2 : Int) - (τ 3 : Int) + 1
/-- the swap matrix on the legs `(4, 5)` / `(6, 7)`: a complete basis that is NOT the identity matrix -/
def vxP : Asg Nat → Int := fun τ => if τ 4 + τ 5 = 1 then 1 else 0
def vxPc : Asg Nat → Int := fun τ => if τ 6 + τ 7 = 1 then 1 else 0
/-- a truncating pair: only the basis vector `0` is kept (legs `5`, `6` have dimension 1) -/
def exQ : Asg Nat → Int := fun τ => if τ 4 = 0 ∧ τ 5 = 0 then 1 else 0
def exQc : Asg Nat → Int := fun τ => if τ 6 = 0 ∧ τ 7 = 0 then 1 else 0

theorem exLeaves_dep : ∀ f ∈ [exA, exB], DependsOn (· ∈ [0, 1, 2, 3]) f := by
  intro f hf σ τ h
  simp only [List.mem_cons, List.not_mem_nil, or_false] at hf
  rcases hf with rfl | rfl
  · simp only [exA, h 0 (by simp), h 1 (by simp)]
  · simp only [exB, h 2 (by simp), h 3 (by simp)]

-- `projector_identity_value`: every hypothesis holds for the swap pair (complete, not the identity matrix)
example (σ : Asg Nat) :
    netValue (fun _ => 2) ([] ++ [(1, 4), (5, 6), (7, 2)]) (vxP :: vxPc :: [exA, exB]) σ =
      netValue (fun _ => 2) ([] ++ [(1, 2)]) [exA, exB] σ :=
  projector_identity_value (fun _ => 2) [] vxP vxPc [exA, exB] 1 2 4 7 5 6 exLeaves_dep
    (by simp) (by simp) (by simp) (by simp) (by decide) rfl
    (by
      intro τ h4 h7
      have e4 : τ 4 = 0 ∨ τ 4 = 1 := by omega
      have e7 : τ 7 = 0 ∨ τ 7 = 1 := by omega
      rcases e4 with e4 | e4 <;> rcases e7 with e7 | e7 <;>
        simp [sumPairs, sumR, vxP, vxPc, upd, e4, e7, List.range_succ])
    σ

-- `projector_linear_value`: hypotheses hold for the truncating pair; and there the value DOES change
example (σ : Asg Nat) :
    netValue (fun l => if l = 5 ∨ l = 6 then 1 else 2) ([] ++ [(1, 2)]) [exA, exB] σ
        - netValue (fun l => if l = 5 ∨ l = 6 then 1 else 2) ([] ++ [(1, 4), (5, 6), (7, 2)])
            (exQ :: exQc :: [exA, exB]) σ =
      netValue (fun l => if l = 5 ∨ l = 6 then 1 else 2) ([] ++ [(1, 4), (7, 2)])
        ((fun τ => deltaT 4 7 τ - projMat (fun l => if l = 5 ∨ l = 6 then 1 else 2) exQ exQc 5 6 τ) ::
          [exA, exB]) σ :=
  projector_linear_value _ [] exQ exQc [exA, exB] 1 2 4 7 5 6 exLeaves_dep
    (by simp) (by simp) (by simp) (by simp) (by decide) rfl σ

example :
    netValue (fun l => if l = 5 ∨ l = 6 then 1 else 2) ([] ++ [(1, 2)]) [exA, exB] (fun _ => 0) = 13 ∧
    netValue (fun l => if l = 5 ∨ l = 6 then 1 else 2) ([] ++ [(1, 4), (5, 6), (7, 2)])
      (exQ :: exQc :: [exA, exB]) (fun _ => 0) = 1 := by
  constructor <;> decide +kernel

/-- a chain `A[0,1] — M[2,3,8] — B'[9,10]` with the bonds `(1, 2)` and `(8, 9)`, and one rank-one insertion on
each bond -/
def exM : Asg Nat → Int := fun τ => (τ 2 : Int) + (τ 3 : Int) * (τ 8 : Int) + 1
def exB' : Asg Nat → Int := fun τ => 2 * (τ 9 : Int) - (τ 10 : Int)
def exIns1 : Ins Nat Int := ⟨1, 2, 4, 7, fun τ => if τ 4 = 0 ∧ τ 7 = 0 then 1 else 0⟩
def exIns2 : Ins Nat Int := ⟨8, 9, 11, 12, fun τ => if τ 11 = 1 ∧ τ 12 = 1 then 1 else 0⟩

-- `recursive_truncation_value_telescope`: every hypothesis holds for the two insertions on the chain
example (σ : Asg Nat) :
    netValue (fun _ => 2) ([] ++ [exIns1, exIns2].map Ins.plain) [exA, exM, exB'] σ
        - netValue (fun _ => 2) ([] ++ [exIns1, exIns2].flatMap Ins.cut)
            ([exIns1, exIns2].map Ins.Pm ++ [exA, exM, exB']) σ =
      teleSum (fun _ => 2) [] [exA, exM, exB'] [] [exIns1, exIns2] σ :=
  recursive_truncation_value_telescope (fun _ => 2) [] [exA, exM, exB'] [exIns1, exIns2]
    (S := (· ∈ [0, 1, 2, 3, 8, 9, 10]))
    (by
      intro f hf σ τ h
      simp only [List.mem_cons, List.not_mem_nil, or_false] at hf
      rcases hf with rfl | rfl | rfl
      · simp only [exA, h 0 (by simp), h 1 (by simp)]
      · simp only [exM, h 2 (by simp), h 3 (by simp), h 8 (by simp)]
      · simp only [exB', h 9 (by simp), h 10 (by simp)])
    (by intro i hi; simp at hi; rcases hi with rfl | rfl <;> simp [exIns1, exIns2])
    (by
      intro i hi σ τ h
      simp only [List.mem_cons, List.not_mem_nil, or_false] at hi
      rcases hi with rfl | rfl
      · simp only [exIns1] at h ⊢; rw [h 4 (Or.inl rfl), h 7 (Or.inr rfl)]
      · simp only [exIns2] at h ⊢; rw [h 11 (Or.inl rfl), h 12 (Or.inr rfl)])
    (by decide) (by intro i _; rfl) σ

-- the order of the insertions on the structural model: children of the root first, then the recursion
example : ∃ t, TRun TTN.empty buildOps t ∧
    truncOrder t.S (t.nodes.length + 1) 1 = [(1, 2), (1, 3), (2, 4)] :=
  ⟨_, .cons ⟨rfl, rfl⟩ rfl (.cons trivial rfl (.cons trivial rfl (.cons trivial rfl (.nil _)))), rfl⟩

end value_examples

/-! ### The library's projectors (`SvdProjector.lean`, `SvdNetwork.lean`): non-vacuity -/

section svd_examples
open Ptn.Ein Finset

/-- a rank-one "SVD" with a NON-square `U` (2 rows, 1 column): `M = [[3, 6], [0, 0]] = U · 3 · V`,
`U = (1, 0)ᵀ`, `V = (1, 2)` -/
def sxU : ℕ → ℕ → Int := fun x j => if x = 0 ∧ j = 0 then 1 else 0
def sxM : ℕ → ℕ → Int := fun x c => if x = 0 then 3 * ((c : Int) + 1) else 0

theorem sxU_orth : ∀ i j, i < 1 → j < 1 → ∑ x ∈ range 2, sxU x i * sxU x j = if i = j then 1 else 0 := by
  intro i j hi hj
  have : i = 0 := by omega
  have : j = 0 := by omega
  subst i; subst j
  decide

-- every hypothesis of `svd_projector_value` holds for it (all columns kept, `Π = diag(1, 0)` is NOT the identity
-- matrix, yet `Π·M = M`)
example : (∀ c y, y < 2 → ∑ x ∈ range 2, sxM x c * svdPi 1 sxU sxU x y = sxM y c) ∧
    svdPi 1 sxU sxU 1 1 = (0 : Int) :=
  ⟨(svd_projector_value 2 1 1 sxM sxU sxU (fun _ => 3) (fun _ c => (c : Int) + 1) (le_refl 1)
      (by intro x c hx
          have : x = 0 ∨ x = 1 := by omega
          rcases this with rfl | rfl <;> simp [sxM, sxU])
      sxU_orth).2.2.2.1 rfl, by decide⟩

/-- the node tensor `A[0, 1]` (open leg `0`, bond leg `1`) with that matricisation, and a neighbour `B[2, 3]` -/
def sxA : Asg Nat → Int := fun τ => if τ 1 = 0 then 3 * ((τ 0 : Int) + 1) else 0
def sxDim : Nat → Nat := fun l => if l = 5 ∨ l = 6 then 1 else 2

-- `svd_projector_full_value`: every hypothesis holds on the network `A —(1,2)— B` (projector legs `4, 5 | 6, 7`, one
-- kept column = all columns)
example (σ : Asg Nat) :
    netValue sxDim ([] ++ [(1, 4), (5, 6), (7, 2)])
        ((fun ρ => sxU (ρ 4) (ρ 5)) :: (fun ρ => sxU (ρ 7) (ρ 6)) :: sxA :: [exB]) σ =
      netValue sxDim ([] ++ [(1, 2)]) (sxA :: [exB]) σ :=
  svd_projector_full_value sxDim [] sxU sxU (fun _ => 3) (fun _ τ => (τ 0 : Int) + 1) sxA [exB] 1 2 4 7 5 6
    (S := (· ∈ [2, 3])) (SA := (· ∈ [0, 1]))
    (by intro f hf σ τ h
        simp only [List.mem_cons, List.not_mem_nil, or_false] at hf
        subst hf
        simp only [exB, h 2 (by simp), h 3 (by simp)])
    (by simp) (by simp) (by simp) (by simp) (by simp)
    (by intro σ τ h; simp only [sxA, h 0 (by simp), h 1 (by simp)])
    (by simp) (by simp) (by simp) (by simp)
    (by decide) rfl
    (by intro τ x hx
        have hx' : x < 2 := hx
        have : x = 0 ∨ x = 1 := by omega
        rcases this with rfl | rfl <;> simp [sxA, sxU, sxDim, upd])
    (by intro i j hi hj; exact sxU_orth i j hi hj)
    σ

end svd_examples

/-! ### `svd_truncation`: the sweep order (builder B37; `SvdOrder.lean`, `SvdCover.lean`)

`update_path = tree.linearise()` (post-order, `Ptn.C17.RTree.postorder`), the loop runs over `update_path[:-1]`, moves
the centre to the node along `path_from_to` and cuts the bond to the node's parent; the parent is the new centre. -/

section svd_order
open Ptn.C02 Ptn.C17 Ptn.C17.RTree

theorem svd_sweep_cuts_every_edge (t : RTree) (hwf : t.WF) :
    ∃ L, svdCutEdges t = some L ∧
      L.map (·.1) = (postorder t).dropLast ∧
      L.Nodup ∧ (L.map (·.1)).Nodup ∧
      (∀ x p, (x, p) ∈ L ↔ (p, x) ∈ edges t) ∧
      L.Perm ((edges t).map Prod.swap) ∧
      (∀ a b, t.Adj a b → (a, b) ∈ L ∨ (b, a) ∈ L) := by
  obtain ⟨hnd, hmem⟩ := svdCutNodes_spec hwf
  have hsnd := svd37_edges_map_snd.1 t
  have hpar : ∀ x ∈ svdCutNodes t, ∃ p, svdParent? t x = some p := by
    intro x hx
    have hx' := (hmem x).mp hx
    rw [← hsnd] at hx'
    obtain ⟨e, he, rfl⟩ := List.mem_map.mp hx'
    exact ⟨e.1, (svdParent?_eq_some hwf).mpr he⟩
  obtain ⟨L, hL, hm, he⟩ := svdPairUp_spec t _ hpar
  have hiff : ∀ x p, (x, p) ∈ L ↔ (p, x) ∈ edges t := by
    intro x p
    constructor
    · intro h; exact (svdParent?_eq_some hwf).mp (he _ h)
    · intro h
      have hx : x ∈ svdCutNodes t := (hmem x).mpr (edges_mem.1 t p x h).2
      rw [← hm] at hx
      obtain ⟨e, heL, rfl⟩ := List.mem_map.mp hx
      have h1 := he e heL
      rw [(svdParent?_eq_some hwf).mpr h] at h1
      obtain ⟨a, b⟩ := e
      simp only [Option.some.injEq] at h1
      subst h1; exact heL
  have hLnd : L.Nodup := svd37_nodup_of_map (·.1) (hm ▸ hnd)
  have hEnd : ((edges t).map Prod.swap).Nodup := by
    apply svd37_nodup_of_map (·.1)
    rw [List.map_map]
    have : ((fun x : Nat × Nat => x.1) ∘ Prod.swap) = (·.2) := by funext x; rfl
    rw [this, hsnd]; exact (svd37_kids_nodup hwf).1
  refine ⟨L, hL, hm, hLnd, hm ▸ hnd, hiff, ?_, ?_⟩
  · rw [List.perm_ext_iff_of_nodup hLnd hEnd]
    intro ⟨x, p⟩
    rw [hiff]
    simp only [List.mem_map, Prod.exists, Prod.swap_prod_mk, Prod.mk.injEq]
    constructor
    · intro h; exact ⟨p, x, h, rfl, rfl⟩
    · rintro ⟨a, b, h, rfl, rfl⟩; exact h
  · intro a b h
    rcases h with h | h
    · exact Or.inr ((hiff b a).mpr h)
    · exact Or.inl ((hiff a b).mpr h)

theorem svd_truncation_all_bonds_le_partial {D : Nat} {t t' : TTN} {es : List TdvpEvent} (rt : RTree) (hwf : rt.WF)
    (h : SvdSweep D t es t') (hcut : svdCutEdges rt = some (cutPairs es))
    (hin : ∀ e ∈ t.nodes, ∀ q ∈ t.legPairs e.1, rt.Adj e.1 q.1)
    (hev : ∀ pr ∈ svdEventPairs es, rt.Adj pr.1 pr.2) :
    ∀ e ∈ t'.nodes, ∀ q ∈ t'.legPairs e.1, q.2.dim ≤ D := by
  obtain ⟨L, hL, _, _, _, _, _, hadj⟩ := svd_sweep_cuts_every_edge rt hwf
  rw [hcut] at hL
  simp only [Option.some.injEq] at hL
  intro e _ q hl
  obtain ⟨k, _⟩ := e; obtain ⟨x, ax⟩ := q
  apply (svd_sweep_legs h k x ax hl).1
  rw [hL]
  apply hadj
  rcases svd_sweep_leg_origin h k x ax hl with ⟨ax0, l0⟩ | hm | hm
  · obtain ⟨e, he, rfl⟩ := leg_mem_nodes l0
    exact hin e he (x, ax0) l0
  · exact hev _ hm
  · have := hev _ hm
    exact this.symm
theorem svd_sweep_events_along_edges (t : RTree) (hwf : t.WF) (c : Nat) (hc : c ∈ ids t) :
    ∃ L E, svdCutEdges t = some L ∧ svdSweep t c = some E ∧
      (∀ e ∈ E, t.Adj e.2.1 e.2.2) ∧ (E.filter (·.1)).map (·.2) = L := by
  obtain ⟨L, hL, _, _, _, hiff, _, _⟩ := svd_sweep_cuts_every_edge t hwf
  obtain ⟨E, hE, hadj, hf⟩ := svdSweepEvents_spec hwf L c hc (fun e he => (hiff e.1 e.2).mp he)
  exact ⟨L, E, hL, by simp [svdSweep, hL, hE], hadj, hf⟩

theorem svd_truncation_sweep_bonds_le_partial {D : Nat} {t t' : TTN} {es : List TdvpEvent} (rt : RTree) (hwf : rt.WF)
    (c : Nat) (hc : c ∈ ids rt) (h : SvdSweep D t es t') (hsweep : svdSweep rt c = some (svdEventTags es))
    (hin : ∀ e ∈ t.nodes, ∀ q ∈ t.legPairs e.1, rt.Adj e.1 q.1) :
    ∀ e ∈ t'.nodes, ∀ q ∈ t'.legPairs e.1, q.2.dim ≤ D := by
  obtain ⟨L, E, hL, hE, hadj, hf⟩ := svd_sweep_events_along_edges rt hwf c hc
  rw [hsweep] at hE
  simp only [Option.some.injEq] at hE
  subst hE
  rw [svdEventTags_cuts] at hf
  apply svd_truncation_all_bonds_le_partial rt hwf h (hf ▸ hL) hin
  intro pr hpr
  rw [← svdEventTags_pairs] at hpr
  obtain ⟨e, he, rfl⟩ := List.mem_map.mp hpr
  exact hadj e he

def exSvdTree : RTree := .node 1 [.node 2 [.node 4 []], .node 3 []]
example : exSvdTree.WF := by decide
example : svdCutEdges exSvdTree = some [(4, 2), (2, 1), (3, 1)] := by decide
example : svdSweep exSvdTree 3 =
    some [(false, 3, 1), (false, 1, 2), (false, 2, 4), (true, 4, 2), (true, 2, 1), (false, 1, 3), (true, 3, 1)] := by
  decide

def exSvdEvents : List TdvpEvent :=
  [.move 3 1 60 2, .move 1 2 61 3, .move 2 4 62 2, .contractSplit 4 2 63 1, .contractSplit 2 1 64 2,
   .move 1 3 65 2, .contractSplit 3 1 66 1]

set_option maxRecDepth 16384 in
example : ∃ t t', TRun TTN.empty buildOps t ∧ SvdSweep 2 t exSvdEvents t' ∧
    svdSweep exSvdTree 3 = some (svdEventTags exSvdEvents) ∧
    (∀ e ∈ t.nodes, ∀ q ∈ t.legPairs e.1, exSvdTree.Adj e.1 q.1) ∧
    t.legPairs 1 = [(2, ⟨100, 3⟩), (3, ⟨101, 2⟩)] :=
  ⟨_, _, .cons ⟨rfl, rfl⟩ rfl (.cons trivial rfl (.cons trivial rfl (.cons trivial rfl (.nil _)))),
    .move rfl (by decide +kernel) ⟨⟨101, 2⟩, by decide +kernel, by decide +kernel, by decide⟩
    (.move rfl (by decide +kernel) ⟨⟨100, 3⟩, by decide +kernel, by decide +kernel, by decide⟩
    (.move rfl (by decide +kernel) ⟨⟨102, 2⟩, by decide +kernel, by decide +kernel, by decide⟩
    (.cut rfl (by decide +kernel) (by decide)
    (.cut rfl (by decide +kernel) (by decide)
    (.move rfl (by decide +kernel) ⟨⟨1000000, 2⟩, by decide +kernel, by decide +kernel, by decide⟩
    (.cut rfl (by decide +kernel) (by decide) (.nil _))))))),
    by decide, by decide +kernel, by decide +kernel⟩
/-! ### locality of the two composite edits as THEOREMS (builder B37; `BondLocalThm.lean`, `BondLocalCS.lean`, `SvdRun.lean`) -/

/-- **`split_qr_contract_r_to_neighbour(a, b)`** on every well-formed, label-consistent network (unused identifier
    for the R tensor): well-formed, label-consistent result; the bond `a – b` gets dimension `bd` at both ends,
    every other virtual leg of the result is the leg the same node had before (same neighbour, same axis: label
    and dimension); every node keeps exactly its open axes. -/
theorem centre_move_bond_local {t t' : TTN} {a b rid : Id} {bd : Nat} (h : t.WF) (hl : t.LWF)
    (hfresh : t.N rid = none) (hs : t.centreMove a b rid bd = some t') :
    t'.WF ∧ t'.LWF ∧ BondLocal t t' a b bd ∧ ∀ k, t'.openAxes k = t.openAxes k := by
  obtain ⟨w, _, _⟩ := centre_move_full (TTN.WFX.ofLWF h hl) hfresh hs
  exact ⟨w.wf, w.lwf trivial, bl37_centre_move_bond_local h hfresh hs, w.op trivial⟩

/-- **`contract_and_split_with_parent(a, b)`**: the same statement for the contraction followed by the truncated SVD. -/
theorem contract_split_bond_local {t t' : TTN} {a b cid : Id} {bd : Nat} (h : t.WF) (hl : t.LWF)
    (hfresh : t.N cid = none) (hs : t.contractSplit a b cid bd = some t') :
    t'.WF ∧ t'.LWF ∧ BondLocal t t' a b bd ∧ ∀ k, t'.openAxes k = t.openAxes k := by
  obtain ⟨w, _, _⟩ := contract_split_full (TTN.WFX.ofLWF h hl) hfresh hs
  exact ⟨w.wf, w.lwf trivial, bl37_contract_split_bond_local h hfresh hs, w.op trivial⟩

/-- **Bond dimensions after `svd_truncation`, no locality assumption**: for every well-formed network and every run
    of centre moves / cuts (`SvdRun`: unused temporary identifiers, a QR move does not exceed the bond it crosses, a
    cut keeps at most `D`): cut bonds are `≤ D` at the end, every leg is `≤ D` or `≤` its original dimension, and if
    every bond was cut every virtual leg is `≤ D`. -/
theorem svd_truncation_bonds_le {D : Nat} {t t' : TTN} {es : List TdvpEvent} (hw : t.WF) (r : SvdRun D t es t') :
    (∀ k x ax, t'.Leg k x ax → ((k, x) ∈ cutPairs es ∨ (x, k) ∈ cutPairs es) → ax.dim ≤ D) ∧
    (∀ k x ax, t'.Leg k x ax → ax.dim ≤ D ∨ ∃ ax0, t.Leg k x ax0 ∧ ax.dim ≤ ax0.dim) ∧
    ((∀ k x ax, t'.Leg k x ax → (k, x) ∈ cutPairs es ∨ (x, k) ∈ cutPairs es) →
      ∀ e ∈ t'.nodes, ∀ q ∈ t'.legPairs e.1, q.2.dim ≤ D) :=
  svd_truncation_bonds_le_partial (svdRun_sweep r hw)

/-- **After the sweep of `svd_truncation` EVERY bond is `≤ D`**: the events are those of the modelled sweep
    `svdSweep rt c` (post-order without the root, moves along `path_from_to`, cut towards the parent) on a tree `rt`
    along whose edges the virtual legs of the input run. -/
theorem svd_truncation_all_bonds_le {D : Nat} {t t' : TTN} {es : List TdvpEvent} (rt : RTree) (hwf : rt.WF)
    (c : Nat) (hc : c ∈ ids rt) (hw : t.WF) (r : SvdRun D t es t')
    (hsweep : svdSweep rt c = some (svdEventTags es))
    (hin : ∀ e ∈ t.nodes, ∀ q ∈ t.legPairs e.1, rt.Adj e.1 q.1) :
    ∀ e ∈ t'.nodes, ∀ q ∈ t'.legPairs e.1, q.2.dim ≤ D :=
  svd_truncation_sweep_bonds_le_partial rt hwf c hc (svdRun_sweep r hw) hsweep hin

set_option maxRecDepth 16384 in
example : ∃ t t', TRunL TTN.empty buildOps t ∧ t.WF ∧ t.LWF ∧ SvdRun 2 t exSvdEvents t' ∧
    svdSweep exSvdTree 3 = some (svdEventTags exSvdEvents) ∧
    (∀ e ∈ t.nodes, ∀ q ∈ t.legPairs e.1, exSvdTree.Adj e.1 q.1) :=
  ⟨_, _, .cons ⟨rfl, rfl⟩ trivial rfl (.cons trivial ⟨_, rfl, rfl⟩ rfl (.cons trivial ⟨_, rfl, rfl⟩ rfl
      (.cons trivial ⟨_, rfl, rfl⟩ rfl (.nil _)))),
    (builtL_labels (show TRunL TTN.empty buildOps _ from
      .cons ⟨rfl, rfl⟩ trivial rfl (.cons trivial ⟨_, rfl, rfl⟩ rfl (.cons trivial ⟨_, rfl, rfl⟩ rfl
        (.cons trivial ⟨_, rfl, rfl⟩ rfl (.nil _)))))).1,
    (builtL_labels (show TRunL TTN.empty buildOps _ from
      .cons ⟨rfl, rfl⟩ trivial rfl (.cons trivial ⟨_, rfl, rfl⟩ rfl (.cons trivial ⟨_, rfl, rfl⟩ rfl
        (.cons trivial ⟨_, rfl, rfl⟩ rfl (.nil _)))))).2,
    .move (by decide +kernel) rfl ⟨⟨101, 2⟩, by decide +kernel, by decide +kernel, by decide⟩
    (.move (by decide +kernel) rfl ⟨⟨100, 3⟩, by decide +kernel, by decide +kernel, by decide⟩
    (.move (by decide +kernel) rfl ⟨⟨102, 2⟩, by decide +kernel, by decide +kernel, by decide⟩
    (.cut (by decide +kernel) rfl (by decide)
    (.cut (by decide +kernel) rfl (by decide)
    (.move (by decide +kernel) rfl ⟨⟨1000000, 2⟩, by decide +kernel, by decide +kernel, by decide⟩
    (.cut (by decide +kernel) rfl (by decide) (.nil _))))))),
    by decide, by decide +kernel⟩

end svd_order

/-! ### `truncate_node` at the value level on the C02 simulation, one child bond (builder B37; `TruncValue.lean`) -/

section trunc_value
open Ptn.C02 Ptn.C03 Ptn.Ein
variable {R : Type} [CommSemiring R]

/-- **`truncate_node`, one child bond, value level - partial.**  `t`, `v`: a well-formed, label-consistent state of the
    structural model and a related well-formed valued network.  `insert_identity(c, n, i)` (simulated step `hid`) leaves
    the value unchanged and puts the Kronecker delta on node `i`.  Replace that tensor by ANY matrix `Pi` on the two legs
    of `i` (`tv37WithTens`; for the library `Pi = projector.conj() · projector.T`, `projMat_svd`): this is "the network
    with `Π` inserted on the child bond".  Then every simulated history `ops` from there (the split of node `i` into the
    pair `P`, `Pc` - an exact factorisation of `Pi` -, `contract_all_children`, the contraction of the projector into the
    child, …) ends in a well-formed related network with exactly that value; if `Pi` is the delta (complete projector)
    the value is the value of the original network.
    *Missing* (hence `_partial`): that the history of `Ptn.C02.TTN.truncateNode` IS such a `SimRun` for every tree (the
    operations are admissible and succeed: `loop1_step` / `loop2_step` / `loop3_step` give the structure, not yet the
    `SimStep`s), and the iteration over all children and the recursion. -/
theorem truncate_node_value_partial (dim : Nat → Nat) (e : Label → Nat) {t t1 t' : TTN} {g g1 g' : LegMap}
    {v v1 v' : VNet R} {ops : List TOp} {c n i : Id}
    (h : t.WF) (hl : t.LWF) (hv : v.WF) (hs : RSim dim e g t v)
    (hadm : (TOp.ident c n i).Adm t) (hid : SimStep dim e t g v (.ident c n i) t1 g1 v1)
    (Pi : Asg Nat → R) (hdep : DependsOn (· ∈ v1.legs i) Pi)
    (hr : SimRun dim e t1 g1 (tv37WithTens v1 i Pi) ops t' g' v') :
    TRun t (.ident c n i :: ops) t' ∧ t'.WF ∧ t'.LWF ∧ v'.WF ∧ RSim dim e g' t' v' ∧
    (v1.tens i = fun ρ => if ρ v.next = ρ (v.next + 1) then 1 else 0) ∧
    (∀ σ, v1.value dim σ = v.value dim σ) ∧
    (∀ σ, v'.value dim σ = (tv37WithTens v1 i Pi).value dim σ) ∧
    ((∀ τ, Pi τ = v1.tens i τ) → ∀ σ, v'.value dim σ = v.value dim σ) := by
  obtain ⟨hstep, hedit, hrun, hsim⟩ := simstep_sound dim e h hl hv hs hadm hid
  have hw1 := step_wf h _ hadm hstep
  have hl1 := (edit_step_labels h hl _ hadm hedit hstep).1
  obtain ⟨hv1, hval1⟩ := srun_value dim hv hrun
  obtain ⟨r2, _, w2, l2, v2, s2, _, val2⟩ := structural_history_preserves_value dim e hw1 hl1
    (tv37_withTens_wf hv1 hdep) (tv37_withTens_rsim hsim i Pi) hr
  refine ⟨.cons hadm hstep r2, w2, l2, v2, s2, ?_, hval1, val2, ?_⟩
  · cases hid
    simp [simIdent, reLeg, identStep]
  · intro hPi σ
    have : Pi = v1.tens i := funext hPi
    rw [val2 σ, this, tv37_withTens_self]
    exact hval1 σ

open Ptn.C02.SimDemo Ptn.C10.TvDemo in
example : ∃ t' v', TRun t0 [.ident 2 1 7, .split 7 ⟨some 1, [], [], false⟩ ⟨none, [2], [], false⟩ 8 9 3] t' ∧
    (∀ σ, VNet.value SimDemo.dim v' σ = (tv37WithTens va 7 Pi0).value SimDemo.dim σ) := by
  obtain ⟨hid, hadm, hdep, t', g', v', hr⟩ := simrunb
  have := truncate_node_value_partial SimDemo.dim SimDemo.e t0_wf.1 t0_wf.2 v0_wf rsim0 hadm hid Pi0 hdep hr
  exact ⟨t', v', this.1, this.2.2.2.2.2.2.2.1⟩

end trunc_value

section level_run
open Ptn.C02 Ptn.C03 Ptn.Ein
variable {R : Type} [CommSemiring R]

/-- **`truncate_node(n)` without the recursive calls, ALL children, at the value level** (builder B54).  Hypotheses: a
    well-formed, label-consistent state `t` of the structural model with a related well-formed valued network `v`; the
    value-level history `Lr54LevelRun` of the first loop over the children `es` (per child: the read-only prefix `pre`,
    `insert_identity(c, n)`, the identity replaced by `Π_c` reading only the two legs of the identity node, the split into
    the projector pair with an exact factorisation of `Π_c` - the contract of the projector construction), followed by ANY
    simulated history `ops2` (`contract_all_children(n)`, the contractions of the projectors into the children).  Then:
    all invariants hold at the end; with `pre = [.access n]` the first part IS the model's `truncLoop1` over these
    children; if `ops2` is the list of contractions `contract_nodes(n, c, n)` over the children of `n` after the first
    loop, it IS `contractAllChildren n n`; the value after the level is reached from the value before by a CHAIN of
    single-leaf replacements (`Lr54Chain`: for each child, a well-formed network with the current value carries the
    Kronecker delta at the identity node, and the next value is that network with the delta replaced by `Π_c`); if every
    `Π_c` is the delta, the value is unchanged.
    *Missing* (hence `_partial`): the flat form (the ORIGINAL network with `Π_c` on every child bond at once - needs that a
    leaf replacement commutes with the later simulated steps), that `truncateNodeStep` succeeding yields such a run
    (admissibility of every step as a `SimStep`), the third loop as the model's `truncLoop3`, and the recursion. -/
theorem truncate_node_one_level_partial (dim : Nat → Nat) (e : Label → Nat) {n : Id} {ids : TTN.TempIds}
    {kdim : Id → Nat} {pre ops2 : List TOp} {t t1 t' : TTN} {g g1 g' : LegMap} {v v1 v' : VNet R}
    {es : List (Lr54Entry R)}
    (h : t.WF) (hl : t.LWF) (hv : v.WF) (hs : RSim dim e g t v)
    (hr : Lr54LevelRun dim e n ids kdim pre t g v es t1 g1 v1)
    (hr2 : SimRun dim e t1 g1 v1 ops2 t' g' v') :
    t'.WF ∧ t'.LWF ∧ v'.WF ∧ RSim dim e g' t' v' ∧
    (pre = [.access n] → TTN.truncLoop1 t n ids kdim (es.map (·.c)) = some t1) ∧
    (∀ node1, t1.N n = some node1 → ops2 = node1.children.map (fun c => TOp.contract n c n) →
      t1.contractAllChildren n n = some t') ∧
    Lr54Chain dim ids (fun σ => v.value dim σ) es (fun σ => v'.value dim σ) ∧
    ((∀ x ∈ es, x.Pi = lr54Delta x.a) → ∀ σ, v'.value dim σ = v.value dim σ) := by
  obtain ⟨w1, l1, vw1, s1, loop1, chain⟩ := lr54_level_core dim e h hl hv hs hr
  obtain ⟨run2, _, w2, l2, vw2, s2, _, val2⟩ := structural_history_preserves_value dim e w1 l1 vw1 s1 hr2
  have chain' : Lr54Chain dim ids (fun σ => v.value dim σ) es (fun σ => v'.value dim σ) :=
    lr54Chain_congr_right chain (fun σ => val2 σ)
  refine ⟨w2, l2, vw2, s2, loop1, ?_, chain', fun hid σ => lr54Chain_identity chain' hid σ⟩
  intro node1 hn hops
  subst hops
  exact lr54_contractAll_of_run hn run2

open Ptn.C02.SimDemo Ptn.C10.TvDemo in
/-- non-vacuity: the two-node network of `SimDemo`, the single child `2` of node `1`, `Π = |0⟩⟨0|` (not the delta), the
    exact split of `TvDemo.factb`; empty prefix and empty tail -/
example : ∃ t' g' v', Lr54LevelRun (R := Int) SimDemo.dim SimDemo.e 1 ⟨fun _ => 7, fun _ => 8, fun _ => 9⟩ (fun _ => 3) []
    t0 SimDemo.g v0 [⟨2, v0.next, Pi0⟩] t' g' v' ∧
    Lr54Chain SimDemo.dim ⟨fun _ => 7, fun _ => 8, fun _ => 9⟩ (fun σ => v0.value SimDemo.dim σ) [⟨2, v0.next, Pi0⟩]
      (fun σ => v'.value SimDemo.dim σ) := by
  obtain ⟨hid, hadm, hdep, t', g', v', hr⟩ := simrunb
  have hlr : Lr54LevelRun (R := Int) SimDemo.dim SimDemo.e 1 ⟨fun _ => 7, fun _ => 8, fun _ => 9⟩ (fun _ => 3) []
      t0 SimDemo.g v0 [⟨2, v0.next, Pi0⟩] t' g' v' :=
    .cons (.nil _ _ _) (.cons hadm hid (.nil _ _ _)) hdep hr (.nil _ _ _)
  have := truncate_node_one_level_partial SimDemo.dim SimDemo.e t0_wf.1 t0_wf.2 v0_wf rsim0 hlr (.nil _ _ _)
  exact ⟨t', g', v', hlr, this.2.2.2.2.2.2.1⟩

end level_run

section level_flat
open Ptn.C02 Ptn.C03 Ptn.Ein NodeS
variable {R : Type} [CommSemiring R]

/-- **`truncate_node`, one node with all its children, FLAT form (builder B62).**  `Lr54LevelRun` is the value-level
history of the first loop of `truncate_node(n)`; the read-only prefix `pre` of each round consists of accesses (library:
`[.access n]`).  Contract of the caller: `n` and every child `c` of the list are nodes of the network the loop starts from
(the library reads the list of children before the loop).  Then there is a list `all` of insertion records (`Ins` of
`ValueRun.lean`: old bond `(a, b)`, fresh legs `a'` = the counter at the insertion, `b' = a' + 1`, matrix `Pm = Π_c`), one per
child in order, such that every `Π_c` reads only its two fresh legs, the fresh labels start at the counter of the original
network and grow by at least four per child, EVERY cut bond `(a, b)` is a bond of the ORIGINAL network, and the value after
the level is `netValue (bs ++ all.flatMap Ins.cut) (all.map Ins.Pm ++ leaves)` with `leaves` the tensors of the original
network and `bs = lf62Erase v.bonds all` its bonds without the cut ones: the original network with `Π_c` on every child bond
at once - the right-hand record of `recursive_truncation_value_telescope` / `recursive_truncation_identity_value`; and the
bonds of the original network are `bs ++ all.map Ins.plain` up to order, so its value is the left-hand record
`netValue (bs ++ all.map Ins.plain) leaves`. -/
theorem truncate_node_level_flat_value (dim : Nat → Nat) (e : Label → Nat) {n : Id} {ids : TTN.TempIds}
    {kdim : Id → Nat} {pre : List TOp} {t t' : TTN} {g g' : LegMap} {v v' : VNet R} {es : List (Lr54Entry R)}
    (hacc : ∀ op ∈ pre, ∃ id, op = TOp.access id)
    (h : t.WF) (hl : t.LWF) (hv : v.WF) (hs : RSim dim e g t v)
    (hr : Lr54LevelRun dim e n ids kdim pre t g v es t' g' v')
    (hn : n ∈ v.ids) (hc : ∀ x ∈ es, x.c ∈ v.ids) :
    ∃ all : List (Ins Nat R), all.map Ins.Pm = es.map (·.Pi) ∧ all.map Ins.a' = es.map (·.a) ∧
      (∀ i ∈ all, i.b' = i.a' + 1) ∧
      (∀ i ∈ all, DependsOn (fun l => l = i.a' ∨ l = i.b') i.Pm) ∧
      (∀ i ∈ all, v.next ≤ i.a') ∧ all.Pairwise (fun x y => x.a' + 4 ≤ y.a') ∧
      (∀ i ∈ all, i.plain ∈ v.bonds) ∧
      v.bonds.Perm (lf62Erase v.bonds all ++ all.map Ins.plain) ∧
      (∀ σ, v.value dim σ =
        netValue dim (lf62Erase v.bonds all ++ all.map Ins.plain) (v.ids.map v.tens) σ) ∧
      ∀ σ, v'.value dim σ =
        netValue dim (lf62Erase v.bonds all ++ all.flatMap Ins.cut) (all.map Ins.Pm ++ v.ids.map v.tens) σ := by
  obtain ⟨all, edim, e1, e2, e3, e4, e5, e6, e7, e8, e9, hval⟩ := lf62_level_flat_core dim e hacc h hl hv hs hr
  obtain ⟨horig, hmem⟩ := e9 v.ids v.next (Nat.le_refl _) (fun k hk => ⟨hk, fun l hl' => hv.fresh k hk l hl'⟩) hn hc
  have hperm := lf62Mem_perm all v.bonds hmem
  refine ⟨all, e1, e2, e3, e5, e6, e7, ?_, hperm,
    fun σ => netValue_perm_bonds dim hperm hv.bonds_nodup _ σ, hval (lf62Sep_of_orig all horig e6 e3 e7)⟩
  intro i hi
  rcases e8 i hi with hm | hm | hm
  · exact hm
  · have := (horig i hi).1; omega
  · have := (horig i hi).2; omega

open Ptn.C02.SimDemo Ptn.C10.TvDemo in
/-- non-vacuity of `truncate_node_level_flat_value` and `truncate_node_child_flat_value`: the two-node network of `SimDemo`,
    the single child `2` of node `1`, `Π = |0⟩⟨0|` (not the delta), the exact split of `TvDemo.factb`, empty prefix (the
    access of node `1` changes the demo state - it applies the pending permutation - and `TvDemo.simrunb` starts before it) -/
example : ∃ (v' : VNet Int) (p : Nat × Nat), p ∈ v0.bonds ∧ (∀ σ, VNet.value SimDemo.dim v' σ =
    netValue SimDemo.dim (v0.bonds.erase p ++ (lf62Ins v0 p Pi0).cut) (Pi0 :: v0.ids.map v0.tens) σ) ∧
    ∃ all : List (Ins Nat Int), all.map Ins.Pm = [Pi0] ∧ (∀ i ∈ all, i.plain ∈ v0.bonds) ∧
      ∀ σ, VNet.value SimDemo.dim v' σ = netValue SimDemo.dim (lf62Erase v0.bonds all ++ all.flatMap Ins.cut)
        (all.map Ins.Pm ++ v0.ids.map v0.tens) σ := by
  obtain ⟨hid, hadm, hdep, t', g', v', hr⟩ := simrunb
  obtain ⟨p, hp, _, hval⟩ := truncate_node_child_flat_value (ids := ⟨fun _ => 7, fun _ => 8, fun _ => 9⟩) (k := 3)
    SimDemo.dim SimDemo.e t0_wf.1 t0_wf.2 v0_wf rsim0 (.cons hadm hid (.nil _ _ _)) hdep hr
  have hlr : Lr54LevelRun (R := Int) SimDemo.dim SimDemo.e 1 ⟨fun _ => 7, fun _ => 8, fun _ => 9⟩ (fun _ => 3) []
      t0 SimDemo.g v0 [⟨2, v0.next, Pi0⟩] t' g' v' :=
    .cons (.nil _ _ _) (.cons hadm hid (.nil _ _ _)) hdep hr (.nil _ _ _)
  obtain ⟨all, a1, _, _, _, _, _, a7, _, _, a8⟩ := truncate_node_level_flat_value SimDemo.dim SimDemo.e (by simp)
    t0_wf.1 t0_wf.2 v0_wf rsim0 hlr (by decide) (by decide)
  exact ⟨v', p, hp, hval, all, by simpa using a1, a7, a8⟩

end level_flat

section level_exists
open Ptn.C02 Ptn.C03 Ptn.Ein NodeS
variable {R : Type} [CommSemiring R]

/-- **`truncate_node(n)` without the recursive calls: the run EXISTS and computes the flat form (builder B66).**  `t` a
well-formed, label-consistent state of the structural model, `v` a well-formed valued network related to it, the temporary
identifiers unused and distinct (`TempOK`), and the model's `truncateNodeStep` (first loop, `contract_all_children(n)`,
third loop `truncLoop3`) succeeds with result `t'`.  Contract of the external routines (`Lr66Contract`, a hypothesis, for
every state the first loop reaches and every child `c` of `n` not yet treated): the two fresh labels of the identity
insertion have the dimension of the bond `c - n`, and a two-leg tensor `Π_c` with an exact factorisation over a new bond
of dimension `kdim c` along the legs of `insert_projection_operator_and_conjugate` is delivered.  Then there are: the
value-level history of the first loop over EXACTLY the children of `n` in order (`Lr54LevelRun`, prefix `[.access n]`,
agreeing with the model's `truncLoop1`), followed by the simulated contractions of the second and the THIRD loop
(`lr66Tail`), ending in the very state `t'` the model returns with a related well-formed network `v'`; `t'` has the
structure and root of `t`; and `v'.value` is the ORIGINAL network with `Π_c` on every child bond at once (flat record
of `truncate_node_level_flat_value`), the value of `v` being the plain record. -/
theorem truncate_node_run_value (dim : Nat → Nat) (e : Label → Nat) {t t' : TTN} {g : LegMap} {v : VNet R} {n : Id}
    {ids : TTN.TempIds} {kdim : Id → Nat} (h : t.WF) (hl : t.LWF) (hv : v.WF) (hs : RSim dim e g t v)
    (hok : TempOK t.S ids) (hstep : t.truncateNodeStep n ids kdim = some t')
    (hO : ∀ es tm gm vm c cch, Lr54LevelRun dim e n ids kdim [.access n] t g v es tm gm vm →
      t.S c = some (some n, cch) → c ∉ es.map (·.c) → Lr66Contract dim e n ids (kdim c) tm gm vm c) :
    ∃ node, ∃ es : List (Lr54Entry R), ∃ t1 g1 v1 g' v', ∃ all : List (Ins Nat R),
      t.N n = some node ∧ es.map (·.c) = node.children ∧
      Lr54LevelRun dim e n ids kdim [.access n] t g v es t1 g1 v1 ∧
      TTN.truncLoop1 t n ids kdim node.children = some t1 ∧
      SimRun dim e t1 g1 v1 (lr66Tail n ids node.children) t' g' v' ∧
      t'.WF ∧ t'.LWF ∧ v'.WF ∧ RSim dim e g' t' v' ∧ t'.S = t.S ∧ t'.root = t.root ∧
      all.map Ins.Pm = es.map (·.Pi) ∧ all.map Ins.a' = es.map (·.a) ∧
      (∀ i ∈ all, i.b' = i.a' + 1) ∧
      (∀ i ∈ all, DependsOn (fun l => l = i.a' ∨ l = i.b') i.Pm) ∧
      (∀ i ∈ all, i.plain ∈ v.bonds) ∧
      (∀ σ, v.value dim σ =
        netValue dim (lf62Erase v.bonds all ++ all.map Ins.plain) (v.ids.map v.tens) σ) ∧
      ∀ σ, v'.value dim σ =
        netValue dim (lf62Erase v.bonds all ++ all.flatMap Ins.cut) (all.map Ins.Pm ++ v.ids.map v.tens) σ := by
  obtain ⟨node, es, t1, g1, v1, g', v', hN, hes, hr, h1, htail, w', l', vw', s', hS, hR⟩ :=
    lr66_step_exists dim e h hl hv hs hok hstep hO
  obtain ⟨w1, l1, vw1, s1, _, _⟩ := lr54_level_core dim e h hl hv hs hr
  obtain ⟨_, _, _, _, _, _, _, valT⟩ := structural_history_preserves_value dim e w1 l1 vw1 s1 htail
  have hn : n ∈ v.ids := (hs.ids n).2 (by rw [hN]; simp)
  have hc : ∀ x ∈ es, x.c ∈ v.ids := by
    intro x hx
    have hxc : x.c ∈ node.children := by rw [← hes]; exact List.mem_map_of_mem hx
    obtain ⟨cch, e2⟩ := h.str.down n _ _ x.c (TTN.S_eq hN) hxc
    obtain ⟨nd, hnd, _⟩ := TTN.N_of_S e2
    exact (hs.ids x.c).2 (by rw [hnd]; simp)
  obtain ⟨all, a1, a2, a3, a4, _, _, a7, _, a9, a10⟩ := truncate_node_level_flat_value dim e
    (by intro op hop; simp at hop; exact ⟨n, hop⟩) h hl hv hs hr hn hc
  exact ⟨node, es, t1, g1, v1, g', v', all, hN, hes, hr, h1, htail, w', l', vw', s', hS, hR, a1, a2, a3, a4, a7, a9,
    fun σ => (valT σ).trans (a10 σ)⟩

/-- the value chain of a recursion run (`Lr66RecRun`): every node step computes the flat record on the network before it
(`truncate_node_level_flat_value`; the contractions of the second and third loop keep the value).  `_partial`: the
records are relative to the network before EACH step, not one record on the original network (the tensors of the later
networks are contraction results of the earlier ones; their identification is not proved). -/
theorem truncate_recursion_value_chain_partial (dim : Nat → Nat) (e : Label → Nat) {ids : TTN.TempIds}
    {kdim : Id → Nat} {t t' : TTN} {g g' : LegMap} {v v' : VNet R} {l : List (Id × Id)}
    (h : t.WF) (hl : t.LWF) (hv : v.WF) (hs : RSim dim e g t v)
    (hr : Lr66RecRun dim e ids kdim t g v l t' g' v') : Lr66ValChain dim v l v' := by
  induction hr with
  | nil t g v => exact .nil (fun _ => rfl)
  | @step t t1 t2 t' g g1 g2 g' v v1 v2 v' n node es rest hN hes hlev htail _ ih =>
    obtain ⟨w1, l1, vw1, s1, _, _⟩ := lr54_level_core dim e h hl hv hs hlev
    obtain ⟨_, _, w2, l2, vw2, s2, _, valT⟩ := structural_history_preserves_value dim e w1 l1 vw1 s1 htail
    have hn : n ∈ v.ids := (hs.ids n).2 (by rw [hN]; simp)
    have hc : ∀ x ∈ es, x.c ∈ v.ids := by
      intro x hx
      have hxc : x.c ∈ node.children := by rw [← hes]; exact List.mem_map_of_mem hx
      obtain ⟨cch, e2⟩ := h.str.down n _ _ x.c (TTN.S_eq hN) hxc
      obtain ⟨nd, hnd, _⟩ := TTN.N_of_S e2
      exact (hs.ids x.c).2 (by rw [hnd]; simp)
    obtain ⟨all, a1, a2, a3, a4, _, _, a7, _, a9, a10⟩ := truncate_node_level_flat_value dim e
      (by intro op hop; simp at hop; exact ⟨n, hop⟩) h hl hv hs hlev hn hc
    refine .step all node.children n ?_ a3 a4 a7 a9 (fun σ => (valT σ).trans (a10 σ)) (ih w2 l2 vw2 s2)
    have e1 := congrArg List.length a1
    have e2 := congrArg List.length hes
    simp only [List.length_map] at e1 e2
    omega

/-- **`recursive_truncation` between its canonicalisations: the simulated run exists, cuts the bonds in the order
`truncOrder`, and its value is a chain of flat records (builder B66).**  If the model's `recursiveTruncation` succeeds on
a well-formed, label-consistent tree with a related well-formed valued network, and the external routines keep their
contract in every state reached (`Lr66RecContract`, with the temporary identifiers `arithIds` of the model), then: the
value-level history `Lr66RecRun` exists, its bond list IS `truncOrder t.S (|nodes| + 1) root` (by `truncOrder_perm` every
non-root node exactly once with its parent), it ends in the state `t'` the model returns with a related well-formed
network `v'`, `t'` has the structure and the root of `t`, and the values are linked by `Lr66ValChain`.  `_partial`: see
`truncate_recursion_value_chain_partial`; the link to `recursive_truncation_value_telescope` needs ONE record on the
original network. -/
theorem recursive_truncation_run_value_partial (dim : Nat → Nat) (e : Label → Nat) {kdim : Id → Nat}
    {t t' : TTN} {g : LegMap} {v : VNet R} (h : t.WF) (hl : t.LWF) (hv : v.WF) (hs : RSim dim e g t v)
    (hrun : t.recursiveTruncation kdim = some t')
    (hO : Lr66RecContract dim e (TTN.arithIds ((t.nodes.map (·.1)).foldl max 0 + 1)) kdim t g v) :
    ∃ r g' v', t.root = some r ∧
      Lr66RecRun dim e (TTN.arithIds ((t.nodes.map (·.1)).foldl max 0 + 1)) kdim t g v
        (truncOrder t.S (t.nodes.length + 1) r) t' g' v' ∧
      t'.WF ∧ t'.LWF ∧ v'.WF ∧ RSim dim e g' t' v' ∧ t'.S = t.S ∧ t'.root = t.root ∧
      Lr66ValChain dim v (truncOrder t.S (t.nodes.length + 1) r) v' := by
  unfold TTN.recursiveTruncation at hrun
  cases hroot : t.root with
  | none => simp [hroot, bind, Option.bind] at hrun
  | some r =>
    simp only [hroot, bind, Option.bind] at hrun
    obtain ⟨g', v', rr, w', l', vw', s', hS, hR⟩ :=
      lr66_rec_exists dim e _ kdim (t.nodes.length + 1) t t' g v r h hl hv hs (arithIds_ok t) hrun hO
    exact ⟨r, g', v', rfl, rr, w', l', vw', s', hS, hR.trans hroot,
      truncate_recursion_value_chain_partial dim e h hl hv hs rr⟩

open Ptn.C02.SimDemo in
/-- (degenerate) joint satisfiability of the hypotheses of `truncate_node_run_value`: the leaf `2` of the two-node network
of `SimDemo` with the identifiers `arithIds` of the model; a leaf has no child, so the contract is never called and the
run consists of no step (`es = []`); the value is unchanged.  A non-degenerate instance of `Lr66Contract` is NOT given. -/
example : ∃ (v' : VNet Int), ∀ σ, VNet.value SimDemo.dim v' σ = VNet.value SimDemo.dim v0 σ := by
  have hsome : (t0.truncateNodeStep 2 (TTN.arithIds ((t0.nodes.map (·.1)).foldl max 0 + 1)) (fun _ => 3)).isSome
      = true := by decide
  obtain ⟨tE, hstep⟩ := Option.isSome_iff_exists.mp hsome
  obtain ⟨node, es, t1, g1, v1, g', v', all, hN, hes, hr, _, htail, _, _, _, _, _, _, a1, _, _, _, _, hplain, hval⟩ :=
    truncate_node_run_value (R := Int) SimDemo.dim SimDemo.e t0_wf.1 t0_wf.2 v0_wf rsim0 (arithIds_ok t0) hstep
      (by
        intro es tm gm vm c cch _ hSc
        obtain ⟨pp, pch, h2, hmem⟩ := t0_wf.1.str.up c 2 cch hSc
        have : t0.S 2 = some (some 1, []) := by decide
        rw [this] at h2
        simp only [Option.some.injEq, Prod.mk.injEq] at h2
        rw [← h2.2] at hmem
        simp at hmem)
  refine ⟨v', fun σ => ?_⟩
  have hch : node.children = [] := by
    have h1 := TTN.S_eq hN
    have : t0.S 2 = some (some 1, []) := by decide
    rw [this] at h1
    simp only [Option.some.injEq, Prod.mk.injEq] at h1
    exact h1.2.symm
  have hes' : es = [] := by rw [hch] at hes; simpa using hes
  have hall : all = [] := by rw [hes'] at a1; simpa using a1
  rw [hval σ, hplain σ, hall]
  simp

end level_exists

section rec_error
open Ptn.C02 Ptn.C03 Ptn.Ein NodeS
variable {R : Type} [CommRing R]

/-- **Error identity of one level of `truncate_node` (builder B73).**  For the first loop of `truncate_node(n)` over its
children (`Lr54LevelRun`, any read-only prefix), on a well-formed label-consistent tree with a related well-formed valued
network, over every commutative ring: there are the insertion records `all` (one per child, `Pm = Π_c`, fresh legs
`a'`, `b' = a' + 1`, every cut bond a bond of `v`, `dim b' = dim a` - the dimension clause of `insert_identity`, proved
from `ident_sim_core`, not assumed) with
`value before − value after = teleSum` = Σ over the children of the network with the matrices of the earlier children on
their bonds, `1 − Π_c` on the bond of `c`, the later bonds untouched (`recursive_truncation_value_telescope` instantiated;
its premise `(allLegs bs all).Nodup` is `lr73_allLegs_nodup`). -/
theorem truncate_node_level_error_identity (dim : Nat → Nat) (e : Label → Nat) {n : Id} {ids : TTN.TempIds}
    {kdim : Id → Nat} {pre : List TOp} {t t' : TTN} {g g' : LegMap} {v v' : VNet R} {es : List (Lr54Entry R)}
    (hacc : ∀ op ∈ pre, ∃ id, op = TOp.access id)
    (h : t.WF) (hl : t.LWF) (hv : v.WF) (hs : RSim dim e g t v)
    (hr : Lr54LevelRun dim e n ids kdim pre t g v es t' g' v')
    (hn : n ∈ v.ids) (hc : ∀ x ∈ es, x.c ∈ v.ids) :
    ∃ all : List (Ins Nat R), all.map Ins.Pm = es.map (·.Pi) ∧ all.map Ins.a' = es.map (·.a) ∧
      (∀ i ∈ all, i.b' = i.a' + 1) ∧ (∀ i ∈ all, i.plain ∈ v.bonds) ∧ (∀ i ∈ all, dim i.b' = dim i.a) ∧
      ∀ σ, v.value dim σ - v'.value dim σ =
        teleSum dim (lf62Erase v.bonds all) (v.ids.map v.tens) [] all σ :=
  lr73_level_error dim e hacc h hl hv hs hr hn hc

/-- **Error identity of the whole recursion, as a chain (builder B73).**  Under the hypotheses of
`recursive_truncation_run_value_partial`: the run exists and there is `E` with `Lr73ErrChain dim v (truncOrder …) v' E` -
`E` is the sum over the node steps of the `teleSum` of that step - and `original value − final value = E`.
`_partial`: each summand is a `teleSum` on the network BEFORE its node step (whose tensors are contraction results of the
earlier steps), not on the ORIGINAL network: the collapse into one record (`recursive_truncation_run_flat_value`) is
not proved. -/
theorem recursive_truncation_run_error_identity_partial (dim : Nat → Nat) (e : Label → Nat) {kdim : Id → Nat}
    {t t' : TTN} {g : LegMap} {v : VNet R} (h : t.WF) (hl : t.LWF) (hv : v.WF) (hs : RSim dim e g t v)
    (hrun : t.recursiveTruncation kdim = some t')
    (hO : Lr66RecContract dim e (TTN.arithIds ((t.nodes.map (·.1)).foldl max 0 + 1)) kdim t g v) :
    ∃ r g' v' E, t.root = some r ∧
      Lr66RecRun dim e (TTN.arithIds ((t.nodes.map (·.1)).foldl max 0 + 1)) kdim t g v
        (truncOrder t.S (t.nodes.length + 1) r) t' g' v' ∧
      Lr73ErrChain dim v (truncOrder t.S (t.nodes.length + 1) r) v' E ∧
      ∀ σ, v.value dim σ - v'.value dim σ = E σ := by
  obtain ⟨r, g', v', hr, rr, _⟩ := recursive_truncation_run_value_partial dim e h hl hv hs hrun hO
  obtain ⟨E, hE⟩ := lr73_rec_error_chain dim e h hl hv hs rr
  exact ⟨r, g', v', E, hr, rr, hE, lr73ErrChain_total hE⟩

open Ptn.C02.SimDemo Ptn.C10.TvDemo in
/-- non-vacuity of `truncate_node_level_error_identity` and of a non-trivial `Lr73ErrChain` (one node step with one child):
the two-node network of `SimDemo`, child `2` of node `1`, `Π = |0⟩⟨0|` (not the delta), `TvDemo.simrunb`, empty prefix -/
example : ∃ (v' : VNet Int) (all : List (Ins Nat Int)) (E : Asg Nat → Int), all.map Ins.Pm = [Pi0] ∧
    (∀ σ, VNet.value SimDemo.dim v0 σ - VNet.value SimDemo.dim v' σ =
      teleSum SimDemo.dim (lf62Erase v0.bonds all) (v0.ids.map v0.tens) [] all σ) ∧
    Lr73ErrChain SimDemo.dim v0 ([2].map (fun c => (1, c)) ++ []) v' E ∧
    ∀ σ, VNet.value SimDemo.dim v0 σ - VNet.value SimDemo.dim v' σ = E σ := by
  obtain ⟨hid, hadm, hdep, t', g', v', hr⟩ := simrunb
  have hlr : Lr54LevelRun (R := Int) SimDemo.dim SimDemo.e 1 ⟨fun _ => 7, fun _ => 8, fun _ => 9⟩ (fun _ => 3) []
      t0 SimDemo.g v0 [⟨2, v0.next, Pi0⟩] t' g' v' :=
    .cons (.nil _ _ _) (.cons hadm hid (.nil _ _ _)) hdep hr (.nil _ _ _)
  obtain ⟨all, a1, _, a3, a4, a5, a6⟩ := truncate_node_level_error_identity SimDemo.dim SimDemo.e (by simp)
    t0_wf.1 t0_wf.2 v0_wf rsim0 hlr (by decide) (by decide)
  have hlen : all.length = [2].length := by
    have := congrArg List.length a1
    simpa using this
  have hch : Lr73ErrChain SimDemo.dim v0 ([2].map (fun c => (1, c)) ++ []) v' _ :=
    .step all [2] 1 hlen a3 a4 a5 a6 (.nil (fun _ => rfl))
  exact ⟨v', all, _, by simpa using a1, a6, hch, lr73ErrChain_total hch⟩

end rec_error

end Ptn.C10
