import Mathlib.Algebra.BigOperators.Group.Finset.Basic
import Mathlib.Algebra.BigOperators.Ring.Finset
import Mathlib.Tactic.Ring
import Ptn.Common.EinsumNet
/-! Helper lemmas for the value level of C10 (projector insertion on a bond of a flat tensor network):

* linearity of the big sum `sumPairs` in its integrand and of `netValue` in one leaf
  (`sumPairs_add`, `sumPairs_sub`, `netValue_add_head`, `netValue_sub_head`);
* order independence of a flat network in its leaves and its binding record (`netValue_perm`);
* contracting a Kronecker delta into a bond re-joins the bond (`sumPairs_delta`).

Everything over an arbitrary commutative semiring (ring where a difference occurs), no size bound. -/
namespace Ptn.C10

open Finset Ptn.Ein

set_option linter.unusedSectionVars false

section semiring
variable {L : Type} [DecidableEq L] {R : Type} [CommSemiring R]

/-- the Kronecker delta on the two legs `x`, `y` (the identity matrix as a two-leg tensor) -/
def deltaT (x y : L) : Asg L → R := fun τ => if τ x = τ y then 1 else 0

theorem deltaT_dependsOn (x y : L) : DependsOn (fun l => l = x ∨ l = y) (deltaT (R := R) x y) := by
  intro σ τ h
  simp only [deltaT, h x (Or.inl rfl), h y (Or.inr rfl)]

/-! ### linearity -/

theorem sumPairs_add (dim : L → Nat) (ps : List (L × L)) (f g : Asg L → R) (σ : Asg L) :
    sumPairs dim ps (fun τ => f τ + g τ) σ = sumPairs dim ps f σ + sumPairs dim ps g σ := by
  induction ps generalizing σ with
  | nil => rfl
  | cons p ps ih =>
    obtain ⟨a, b⟩ := p
    simp only [sumPairs, sumR_eq]
    rw [← sum_add_distrib]
    exact sum_congr rfl (fun i _ => ih _)

theorem sumPairs_zero (dim : L → Nat) (ps : List (L × L)) (σ : Asg L) :
    sumPairs dim ps (fun _ => (0 : R)) σ = 0 := by
  induction ps generalizing σ with
  | nil => rfl
  | cons p ps ih =>
    obtain ⟨a, b⟩ := p
    simp only [sumPairs, sumR_eq]
    exact sum_eq_zero (fun i _ => ih _)

/-- a constant factor can be pulled out of the big sum -/
theorem sumPairs_const_mul (dim : L → Nat) (ps : List (L × L)) (c : R) (f : Asg L → R) (σ : Asg L) :
    sumPairs dim ps (fun τ => c * f τ) σ = c * sumPairs dim ps f σ :=
  sumPairs_mul_left dim ps f (fun _ => c) (S := fun _ => False) (fun _ _ _ => rfl) (fun _ _ h => h) σ

/-- a flat network is additive in its first leaf -/
theorem netValue_add_head (dim : L → Nat) (binds : List (L × L)) (f g : Asg L → R)
    (rest : List (Asg L → R)) (σ : Asg L) :
    netValue dim binds ((fun τ => f τ + g τ) :: rest) σ =
      netValue dim binds (f :: rest) σ + netValue dim binds (g :: rest) σ := by
  unfold netValue
  rw [← sumPairs_add]
  apply sumPairs_congr
  intro τ
  simp only [List.map_cons, prodL]
  ring

/-- a flat network is homogeneous in its first leaf -/
theorem netValue_smul_head (dim : L → Nat) (binds : List (L × L)) (c : R) (f : Asg L → R)
    (rest : List (Asg L → R)) (σ : Asg L) :
    netValue dim binds ((fun τ => c * f τ) :: rest) σ = c * netValue dim binds (f :: rest) σ := by
  unfold netValue
  rw [← sumPairs_const_mul]
  apply sumPairs_congr
  intro τ
  simp only [List.map_cons, prodL]
  ring

/-! ### order independence of a flat network -/

theorem prodL_perm {xs ys : List R} (h : xs.Perm ys) : prodL xs = prodL ys := by
  induction h with
  | nil => rfl
  | cons x _ ih => simp only [prodL, ih]
  | swap x y l => simp only [prodL]; ring
  | trans _ _ ih1 ih2 => exact ih1.trans ih2

/-- the value of a flat network depends neither on the order of its leaves nor (no leg bound twice) on the
order of its binding record -/
theorem netValue_perm (dim : L → Nat) {bs bs' : List (L × L)} {ls ls' : List (Asg L → R)}
    (hb : bs.Perm bs') (hnd : (Expr.pairLegs bs).Nodup) (hl : ls.Perm ls') (σ : Asg L) :
    netValue dim bs ls σ = netValue dim bs' ls' σ := by
  unfold netValue
  rw [sumPairs_perm dim hb hnd]
  apply sumPairs_congr
  intro τ
  exact prodL_perm (hl.map _)

theorem netValue_perm_leaves (dim : L → Nat) (bs : List (L × L)) {ls ls' : List (Asg L → R)}
    (hl : ls.Perm ls') (σ : Asg L) : netValue dim bs ls σ = netValue dim bs ls' σ := by
  unfold netValue
  apply sumPairs_congr
  intro τ
  exact prodL_perm (hl.map _)

/-! ### a delta on a bond -/

/-- **Contracting the identity matrix into a bond re-joins the bond.**  `G` is everything else (it reads
neither `a'` nor `b'`); `Pm` is a two-leg tensor on `(a', b')` that IS the Kronecker delta on the index range
of the bond.  Summing `a` against `a'` and `b'` against `b` gives the sum of `G` over one common index for
`a` and `b`. -/
theorem sumPairs_delta (dim : L → Nat) (a b a' b' : L) (Pm G : Asg L → R) {S : L → Prop}
    (hG : DependsOn S G) (ha' : ¬ S a') (hb' : ¬ S b')
    (h1 : a' ≠ b') (h2 : a' ≠ b) (h3 : b' ≠ b) (hdim : dim b' = dim a)
    (hPm : ∀ τ : Asg L, τ a' < dim a → τ b' < dim b' → Pm τ = if τ a' = τ b' then 1 else 0) (τ : Asg L) :
    sumPairs dim [(a, a'), (b', b)] (fun ρ => Pm ρ * G ρ) τ = sumPairs dim [(a, b)] G τ := by
  simp only [sumPairs, sumR_eq]
  apply sum_congr rfl
  intro i hi
  have hi' : i < dim a := mem_range.1 hi
  have key : ∀ j ∈ range (dim b'),
      Pm (upd (upd (upd (upd τ a i) a' i) b' j) b j) * G (upd (upd (upd (upd τ a i) a' i) b' j) b j)
        = if i = j then G (upd (upd τ a i) b i) else 0 := by
    intro j hj
    have hj' : j < dim b' := mem_range.1 hj
    have ea : (upd (upd (upd (upd τ a i) a' i) b' j) b j) a' = i := by simp [upd, h1, h2]
    have eb : (upd (upd (upd (upd τ a i) a' i) b' j) b j) b' = j := by simp [upd, h3]
    rw [hPm _ (by rw [ea]; exact hi') (by rw [eb]; exact hj'), ea, eb]
    by_cases hij : i = j
    · subst hij
      rw [if_pos rfl, if_pos rfl, one_mul]
      apply hG
      intro l hl
      have l1 : l ≠ a' := fun e => ha' (e ▸ hl)
      have l2 : l ≠ b' := fun e => hb' (e ▸ hl)
      by_cases lb : l = b
      · simp [upd, lb]
      · simp [upd, lb, l1, l2]
    · rw [if_neg hij, if_neg hij, zero_mul]
  rw [sum_congr rfl key, sum_ite_eq, hdim, if_pos hi]

end semiring

section ring
variable {L : Type} [DecidableEq L] {R : Type} [CommRing R]

theorem sumPairs_neg (dim : L → Nat) (ps : List (L × L)) (f : Asg L → R) (σ : Asg L) :
    sumPairs dim ps (fun τ => - f τ) σ = - sumPairs dim ps f σ := by
  have := sumPairs_const_mul dim ps (-1 : R) f σ
  simpa using this

theorem sumPairs_sub (dim : L → Nat) (ps : List (L × L)) (f g : Asg L → R) (σ : Asg L) :
    sumPairs dim ps (fun τ => f τ - g τ) σ = sumPairs dim ps f σ - sumPairs dim ps g σ := by
  have h := sumPairs_add dim ps f (fun τ => - g τ) σ
  rw [sumPairs_neg] at h
  simpa [sub_eq_add_neg] using h

/-- a flat network is linear in its first leaf: differences -/
theorem netValue_sub_head (dim : L → Nat) (binds : List (L × L)) (f g : Asg L → R)
    (rest : List (Asg L → R)) (σ : Asg L) :
    netValue dim binds ((fun τ => f τ - g τ) :: rest) σ =
      netValue dim binds (f :: rest) σ - netValue dim binds (g :: rest) σ := by
  unfold netValue
  rw [← sumPairs_sub]
  apply sumPairs_congr
  intro τ
  simp only [List.map_cons, prodL]
  ring

end ring

end Ptn.C10
