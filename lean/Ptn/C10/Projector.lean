import Ptn.Common.AnalysisIso
import Mathlib.LinearAlgebra.Matrix.Trace
import Mathlib.LinearAlgebra.Matrix.ConjTranspose
import Mathlib.Data.Matrix.Diagonal
import Mathlib.Analysis.Complex.Basic
import Mathlib.Analysis.InnerProductSpace.PiL2
/-! One projector insertion of `recursive_truncation`, abstractly (helper lemmas; property-level
statements are in `Props.lean`).

The centre tensor `c`, matricised with the child leg as rows, is `M : Matrix m n ℂ`.  Its SVD is GIVEN
(hypotheses, contract of `numpy.linalg.svd`), split into the kept part `U₁, s₁, W₁` and the
discarded part `U₂, s₂, W₂`:  `M = U₁ diag(s₁) W₁ + U₂ diag(s₂) W₂`, columns of `U₁, U₂`
orthonormal and mutually orthogonal, rows of `W₂` orthonormal.  The projector returned by
`get_truncation_projector` is `P = U₁`; inserting `P.conj()` / `P.T` on the bond replaces `M` by
`P Pᴴ M`.  The state is `ψ = E · vec(M)` with `E` the isometric embedding of the centre tensor
(canonical form). -/
namespace Ptn.C10

open Matrix

set_option linter.unusedSectionVars false

variable {m n κ δ N : Type*} [Fintype m] [Fintype n] [Fintype κ] [Fintype δ] [Fintype N]
  [DecidableEq m] [DecidableEq n] [DecidableEq κ] [DecidableEq δ]

/-- A matrix read as a vector over pairs of indices (the tensor's flat coefficient vector). -/
def vec (X : Matrix m n ℂ) : m × n → ℂ := fun p => X p.1 p.2

theorem vec_sub (X Y : Matrix m n ℂ) : vec (X - Y) = vec X - vec Y := by
  funext p; simp [vec]

/-- Squared Euclidean norm of the coefficient vector = squared Frobenius norm `tr(Xᴴ X)`. -/
theorem vec_norm_sq (X : Matrix m n ℂ) : star (vec X) ⬝ᵥ vec X = (Xᴴ * X).trace := by
  simp only [dotProduct, vec, Pi.star_apply, Fintype.sum_prod_type, Matrix.trace, Matrix.diag,
    Matrix.mul_apply, Matrix.conjTranspose_apply]
  rw [Finset.sum_comm]

/-- Real singular values as a complex diagonal matrix. -/
def cdiag {ι : Type*} [DecidableEq ι] (s : ι → ℝ) : Matrix ι ι ℂ := diagonal fun i => (s i : ℂ)

theorem cdiag_conjTranspose (s : δ → ℝ) : (cdiag s)ᴴ = cdiag s := by
  unfold cdiag
  rw [diagonal_conjTranspose]
  congr 1
  funext i
  simp

/-- What the projector removes is exactly the discarded part of the SVD. -/
theorem residual_eq (U₁ : Matrix m κ ℂ) (U₂ : Matrix m δ ℂ) (s₁ : κ → ℝ) (s₂ : δ → ℝ)
    (W₁ : Matrix κ n ℂ) (W₂ : Matrix δ n ℂ) (h11 : U₁ᴴ * U₁ = 1) (h12 : U₁ᴴ * U₂ = 0) :
    (U₁ * cdiag s₁ * W₁ + U₂ * cdiag s₂ * W₂) - U₁ * U₁ᴴ * (U₁ * cdiag s₁ * W₁ + U₂ * cdiag s₂ * W₂)
      = U₂ * cdiag s₂ * W₂ := by
  have e1 : U₁ * U₁ᴴ * (U₁ * cdiag s₁ * W₁) = U₁ * cdiag s₁ * W₁ := by
    calc U₁ * U₁ᴴ * (U₁ * cdiag s₁ * W₁) = U₁ * (U₁ᴴ * U₁) * cdiag s₁ * W₁ := by
          simp only [Matrix.mul_assoc]
      _ = U₁ * cdiag s₁ * W₁ := by rw [h11, Matrix.mul_one]
  have e2 : U₁ * U₁ᴴ * (U₂ * cdiag s₂ * W₂) = 0 := by
    calc U₁ * U₁ᴴ * (U₂ * cdiag s₂ * W₂) = U₁ * (U₁ᴴ * U₂) * cdiag s₂ * W₂ := by
          simp only [Matrix.mul_assoc]
      _ = 0 := by rw [h12]; simp
  rw [Matrix.mul_add, e1, e2]
  abel

/-- Squared Frobenius norm of the discarded part: the sum of the squared discarded singular values. -/
theorem residual_norm_sq (U₂ : Matrix m δ ℂ) (s₂ : δ → ℝ) (W₂ : Matrix δ n ℂ)
    (h22 : U₂ᴴ * U₂ = 1) (hW : W₂ * W₂ᴴ = 1) :
    ((U₂ * cdiag s₂ * W₂)ᴴ * (U₂ * cdiag s₂ * W₂)).trace = ((∑ i, (s₂ i) ^ 2 : ℝ) : ℂ) := by
  have e : (U₂ * cdiag s₂ * W₂)ᴴ * (U₂ * cdiag s₂ * W₂) = W₂ᴴ * (cdiag s₂ * cdiag s₂) * W₂ := by
    rw [conjTranspose_mul, conjTranspose_mul, cdiag_conjTranspose]
    calc W₂ᴴ * (cdiag s₂ * U₂ᴴ) * (U₂ * cdiag s₂ * W₂)
        = W₂ᴴ * (cdiag s₂ * (U₂ᴴ * U₂) * cdiag s₂) * W₂ := by
          simp only [Matrix.mul_assoc]
      _ = W₂ᴴ * (cdiag s₂ * cdiag s₂) * W₂ := by rw [h22, Matrix.mul_one]
  rw [e, Matrix.trace_mul_comm, ← Matrix.mul_assoc, hW, Matrix.one_mul]
  unfold cdiag
  rw [diagonal_mul_diagonal, trace_diagonal]
  push_cast
  apply Finset.sum_congr rfl
  intro i _
  ring

/-- **One projector insertion**: the state changes by exactly the discarded weight,
    `‖ψ − ψ'‖² = Σ discarded sᵢ²` (as the complex number `(ψ−ψ')ᴴ(ψ−ψ')`). -/
theorem projector_error_sq (E : Matrix N (m × n) ℂ) (hE : Eᴴ * E = 1)
    (U₁ : Matrix m κ ℂ) (U₂ : Matrix m δ ℂ) (s₁ : κ → ℝ) (s₂ : δ → ℝ)
    (W₁ : Matrix κ n ℂ) (W₂ : Matrix δ n ℂ)
    (h11 : U₁ᴴ * U₁ = 1) (h12 : U₁ᴴ * U₂ = 0) (h22 : U₂ᴴ * U₂ = 1) (hW : W₂ * W₂ᴴ = 1) :
    let M := U₁ * cdiag s₁ * W₁ + U₂ * cdiag s₂ * W₂
    star (E *ᵥ vec M - E *ᵥ vec (U₁ * U₁ᴴ * M)) ⬝ᵥ (E *ᵥ vec M - E *ᵥ vec (U₁ * U₁ᴴ * M))
      = ((∑ i, (s₂ i) ^ 2 : ℝ) : ℂ) := by
  intro M
  rw [← mulVec_sub, ← vec_sub, Ptn.Analysis.isometry_norm E hE, vec_norm_sq]
  have : M - U₁ * U₁ᴴ * M = U₂ * cdiag s₂ * W₂ := residual_eq U₁ U₂ s₁ s₂ W₁ W₂ h11 h12
  rw [this]
  exact residual_norm_sq U₂ s₂ W₂ h22 hW

open Finset

/-- Euclidean norm of a coefficient / state vector. -/
noncomputable def enorm {ι : Type*} [Fintype ι] (v : ι → ℂ) : ℝ :=
  ‖(WithLp.toLp 2 v : EuclideanSpace ℂ ι)‖

theorem enorm_sq {ι : Type*} [Fintype ι] (v : ι → ℂ) : (enorm v) ^ 2 = (star v ⬝ᵥ v).re := by
  unfold enorm
  rw [EuclideanSpace.norm_eq, Real.sq_sqrt (Finset.sum_nonneg (fun i _ => sq_nonneg _))]
  simp only [dotProduct, Pi.star_apply, Complex.re_sum]
  apply Finset.sum_congr rfl
  intro i _
  rw [Complex.star_def, Complex.conj_mul']
  norm_cast

theorem enorm_sub {ι : Type*} [Fintype ι] (v w : ι → ℂ) :
    enorm (v - w) = ‖(WithLp.toLp 2 v : EuclideanSpace ℂ ι) - WithLp.toLp 2 w‖ := by
  unfold enorm; rfl

theorem sum_sq_le_sq_sum (x : ℕ → ℝ) (hx : ∀ i, 0 ≤ x i) (n : ℕ) :
    ∑ i ∈ range n, x i ^ 2 ≤ (∑ i ∈ range n, x i) ^ 2 := by
  induction n with
  | zero => simp
  | succ n ih =>
    rw [sum_range_succ, sum_range_succ]
    have hS : 0 ≤ ∑ i ∈ range n, x i := sum_nonneg (fun i _ => hx i)
    nlinarith [hx n, mul_nonneg hS (hx n)]

theorem sqrt_sum_sq_le_sum (x : ℕ → ℝ) (hx : ∀ i, 0 ≤ x i) (n : ℕ) :
    Real.sqrt (∑ i ∈ range n, x i ^ 2) ≤ ∑ i ∈ range n, x i := by
  have hS : 0 ≤ ∑ i ∈ range n, x i := sum_nonneg (fun i _ => hx i)
  calc Real.sqrt (∑ i ∈ range n, x i ^ 2) ≤ Real.sqrt ((∑ i ∈ range n, x i) ^ 2) :=
        Real.sqrt_le_sqrt (sum_sq_le_sq_sum x hx n)
    _ = ∑ i ∈ range n, x i := Real.sqrt_sq hS


/-- Euclidean norm of the residual coefficient vector. -/
theorem residual_enorm {m n κ δ : Type*} [Fintype m] [Fintype n] [Fintype κ] [Fintype δ]
    [DecidableEq m] [DecidableEq n] [DecidableEq κ] [DecidableEq δ]
    (U₁ : Matrix m κ ℂ) (U₂ : Matrix m δ ℂ) (s₁ : κ → ℝ) (s₂ : δ → ℝ)
    (W₁ : Matrix κ n ℂ) (W₂ : Matrix δ n ℂ)
    (h11 : U₁ᴴ * U₁ = 1) (h12 : U₁ᴴ * U₂ = 0) (h22 : U₂ᴴ * U₂ = 1) (hW : W₂ * W₂ᴴ = 1) :
    let M := U₁ * cdiag s₁ * W₁ + U₂ * cdiag s₂ * W₂
    enorm (vec M - vec (U₁ * U₁ᴴ * M)) = Real.sqrt (∑ i, (s₂ i) ^ 2) := by
  intro M
  have h2 : enorm (vec M - vec (U₁ * U₁ᴴ * M)) ^ 2 = ∑ i, (s₂ i) ^ 2 := by
    rw [enorm_sq, ← vec_sub, vec_norm_sq]
    have : M - U₁ * U₁ᴴ * M = U₂ * cdiag s₂ * W₂ := residual_eq U₁ U₂ s₁ s₂ W₁ W₂ h11 h12
    rw [this, residual_norm_sq U₂ s₂ W₂ h22 hW, Complex.ofReal_re]
  have h0 : 0 ≤ enorm (vec M - vec (U₁ * U₁ᴴ * M)) := by unfold enorm; exact norm_nonneg _
  rw [← h2, Real.sqrt_sq h0]


end Ptn.C10
