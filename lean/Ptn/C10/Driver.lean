import Ptn.C10.Model
/-! Line-protocol handler for the C10 model (core Lean only).

Tokens: a rational is `n` or `n/d` (d > 0); a tolerance is a rational, `-inf` or `inf`;
`max_bond_dim` is an integer, `inf`, or `float` (any float other than +inf); booleans are `0`/`1`.

  valid <D> <rel> <tot>                                  → ok | TypeError | ValueError:<field>
  value <tot> <rel> <s…>                                 → kept values, comma separated (`-` if none)
  sumidx <tot> <norming> <s…>                            → the truncation index
  trunc <D> <rel> <tot> <renorm> <sum> <sumrenorm> <s…>  → `<kept>;<discarded>`,
                                                           `empty` for the ValueError on an empty vector,
                                                           or the validation error of the parameters
-/
namespace Ptn.C10

def parseRat (t : String) : Option Rat :=
  match t.splitOn "/" with
  | [a] => a.toInt?.map fun z => (z : Rat)
  | [a, b] =>
    match a.toInt?, b.toNat? with
    | some z, some d => if d = 0 then none else some (mkRat z d)
    | _, _ => none
  | _ => none

def parseTol (t : String) : Option Tol :=
  if t = "-inf" then some .ninf
  else if t = "inf" then some .pinf
  else (parseRat t).map .fin

def parseBond (t : String) : Option BondArg :=
  if t = "inf" then some .inf
  else if t = "float" then some .otherFloat
  else t.toInt?.map .int

def parseBool (t : String) : Option Bool :=
  if t = "0" then some false else if t = "1" then some true else none

def parseRats (ts : List String) : Option (List Rat) := ts.mapM parseRat

def showRat (q : Rat) : String :=
  if q.den = 1 then toString q.num else s!"{q.num}/{q.den}"

def showRats (l : List Rat) : String :=
  if l.isEmpty then "-" else ",".intercalate (l.map showRat)

def showValidation : Validation → String
  | .ok => "ok"
  | .typeError => "TypeError"
  | .valueError f => s!"ValueError:{f}"

def handle (args : List String) : String :=
  match args with
  | ["valid", d, rel, tot] =>
    match parseBond d, parseTol rel, parseTol tot with
    | some b, some r, some t => showValidation (checkParams b r t)
    | _, _, _ => "bad-op"
  | "value" :: tot :: rel :: ss =>
    match parseTol tot, parseTol rel, parseRats ss with
    | some t, some r, some s => if s.isEmpty then "bad-op" else showRats (valueTruncation s t r)
    | _, _, _ => "bad-op"
  | "sumidx" :: tot :: norming :: ss =>
    match parseTol tot, parseBool norming, parseRats ss with
    | some t, some n, some s => toString (sumTruncIndex s t n)
    | _, _, _ => "bad-op"
  | "trunc" :: d :: rel :: tot :: renorm :: sm :: smr :: ss =>
    match parseBond d, parseTol rel, parseTol tot, parseBool renorm, parseBool sm, parseBool smr,
        parseRats ss with
    | some b, some r, some t, some rn, some sumT, some sumR, some s =>
      match checkParams b r t with
      | .ok =>
        let mb : Option Nat := match b with
          | .int z => some z.toNat
          | _ => none
        let p : Params := { maxBond := mb, relTol := r, totalTol := t, renorm := rn,
                            sumTrunc := sumT, sumRenorm := sumR }
        match truncate s p with
        | none => "empty"
        | some (kept, disc) => s!"{showRats kept};{showRats disc}"
      | v => showValidation v
    | _, _, _, _, _, _, _ => "bad-op"
  | _ => "bad-op"

end Ptn.C10
