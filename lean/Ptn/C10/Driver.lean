import Ptn.C10.Model
/-! Line-protocol handler for the C10 model (core Lean only). -/
namespace Ptn.C10
def handle (args : List String) : String := "bad-op"
end Ptn.C10
