import Ptn.C10.SvdSweep
import Ptn.C02.CompositeWF
/-! Pull-back ("seen from the result") forms of the leg lemmas of `contract_nodes` and `split_nodes` of the C02
structural model: every virtual leg of the result comes from a leg of the input (same axis, neighbour renamed) or is
an end of the fresh bond made by `split_nodes`.  These are the one-step ingredients of `BondLocal` for the composite
edits `centreMove` / `contractSplit`.  Core Lean only. -/
namespace Ptn.C10
open Ptn.C02

theorem bl37_leg_of_map_inv {t t' : TTN} {k x : Id} {ax : Axis} {ρ : Id → Id}
    (he : t'.legPairs k = (t.legPairs k).map (fun e => (ρ e.1, e.2))) (hl : t'.Leg k x ax) :
    ∃ y, t.Leg k y ax ∧ x = ρ y := by
  unfold TTN.Leg at hl ⊢
  rw [he, List.mem_map] at hl
  obtain ⟨⟨y, ay⟩, hm, e⟩ := hl
  simp only [Prod.mk.injEq] at e
  obtain ⟨e1, e2⟩ := e
  subst e2
  exact ⟨y, hm, e1.symm⟩

/-- `contract_nodes(id1, id2, new)`, pull-back: a leg of the result is a leg of the new node inherited from one of
    the two contracted nodes (not their common bond), or a leg of a bystander with the same axis whose neighbour is
    renamed. -/
theorem bl37_contract_pull {t t' : TTN} {id1 id2 new : Id} (h : t.WF)
    (hnew : new = id1 ∨ new = id2 ∨ t.N new = none) (hc : t.contractNodes id1 id2 new = some t')
    {k x : Id} {ax : Axis} (hl : t'.Leg k x ax) :
    (k = new ∧ ((t.Leg id1 x ax ∧ x ≠ id2) ∨ (t.Leg id2 x ax ∧ x ≠ id1))) ∨
    (k ≠ new ∧ k ≠ id1 ∧ k ≠ id2 ∧ ∃ y, t.Leg k y ax ∧ x = if y = id1 ∨ y = id2 then new else y) := by
  obtain ⟨pid, cid, hids, _, _, _, _, cnew, _, cgone, cby⟩ := contract_labels h hnew hc
  by_cases hk : k = new
  · left
    refine ⟨hk, ?_⟩
    rw [hk] at hl
    have := (cnew x ax).mp hl
    rcases hids with ⟨e1, e2⟩ | ⟨e1, e2⟩
    · rw [e1, e2] at this; exact this
    · rw [e1, e2] at this; exact this.symm
  · right
    by_cases hpc : k = pid ∨ k = cid
    · exfalso
      have := (cgone k hk hpc).1
      unfold TTN.Leg at hl
      rw [this] at hl
      simp at hl
    · have hkp : k ≠ pid := fun e => hpc (Or.inl e)
      have hkc : k ≠ cid := fun e => hpc (Or.inr e)
      obtain ⟨y, hy, ex⟩ := bl37_leg_of_map_inv (cby k hk hkp hkc).1 hl
      have hk12 : k ≠ id1 ∧ k ≠ id2 := by
        rcases hids with ⟨e1, e2⟩ | ⟨e1, e2⟩
        · rw [← e1, ← e2]; exact ⟨hkp, hkc⟩
        · rw [← e1, ← e2]; exact ⟨hkc, hkp⟩
      refine ⟨hk, hk12.1, hk12.2, y, hy, ?_⟩
      rw [ex]
      unfold contrRho
      rcases hids with ⟨e1, e2⟩ | ⟨e1, e2⟩
      · rw [e1, e2]
      · rw [e1, e2]
        by_cases a : y = id1 <;> by_cases b : y = id2 <;> simp [a, b]

/-- `split_nodes`, pull-back: a leg of the result is an end of the fresh bond `⟨nextLabel, bd⟩` between the two new
    nodes, or a leg of the split node (now at one of the two new nodes), or a leg of a bystander with the same axis
    (a reference to the split node is renamed to one of the two new nodes). -/
theorem bl37_split_pull {t t' : TTN} {id : Id} {X : NodeS} {outL inL : TTN.LegSpec} {outId inId : Id}
    {bd : Nat} (h : t.WF) (adm : SplitAdm t id X outL inL outId inId)
    (hs : t.splitNodes id outL inL outId inId bd = some t') {k x : Id} {ax : Axis} (hl : t'.Leg k x ax) :
    (((k = outId ∧ x = inId) ∨ (k = inId ∧ x = outId)) ∧ ax = ⟨t.nextLabel, bd⟩) ∨
    ((k = outId ∨ k = inId) ∧ x ≠ outId ∧ x ≠ inId ∧ t.Leg id x ax) ∨
    (k ≠ outId ∧ k ≠ inId ∧ k ≠ id ∧
      ∃ y, t.Leg k y ax ∧ ((y ≠ id ∧ x = y) ∨ (y = id ∧ (x = outId ∨ x = inId)))) := by
  obtain ⟨a, b, aCh, bCh, L, hcfg, hab, _, hpart, _, ca, cb, _, _, _, cid, cby⟩ := split_labels h adm hs
  have hXN := adm.node
  -- a neighbour of `id` is neither of the new identifiers
  have hnb : ∀ y ay, t.Leg id y ay → y ≠ a ∧ y ≠ b := by
    intro y ay hy
    have hyn : t.N y ≠ none := leg_target_isNode h hy
    have hyid : y ≠ id := by
      intro e
      rw [e] at hy
      obtain ⟨n, Ln, hn, _, hm⟩ := leg_node hy
      have hmem := (List.of_mem_zip hm).1
      have hS : t.S id = some (n.parent, n.children) := TTN.S_eq hn
      unfold NodeS.neighbours at hmem
      rcases List.mem_append.mp hmem with hm1 | hm1
      · cases hp : n.parent with
        | none => rw [hp] at hm1; simp at hm1
        | some p =>
          rw [hp] at hm1; simp at hm1
          rw [hp] at hS
          exact h.str.parent_ne hS hm1.symm
      · obtain ⟨cch, hc'⟩ := h.str.down id _ _ id hS hm1
        exact h.str.parent_ne hc' rfl
    have hfresh : ∀ z, (z = id ∨ t.N z = none) → y ≠ z := by
      intro z hz e
      rcases hz with e' | e'
      · exact hyid (e.trans e')
      · rw [e] at hyn; exact hyn e'
    rcases hcfg with ⟨e1, e2, _⟩ | ⟨e1, e2, _⟩
    · rw [e1, e2]; exact ⟨hfresh _ adm.outFresh, hfresh _ adm.inFresh⟩
    · rw [e1, e2]; exact ⟨hfresh _ adm.inFresh, hfresh _ adm.outFresh⟩
  by_cases hka : k = a
  · rw [hka] at hl
    rcases (ca x ax).mp hl with ⟨e1, e2⟩ | ⟨_, hx⟩
    · left
      refine ⟨?_, e2⟩
      rcases hcfg with ⟨f1, f2, _⟩ | ⟨f1, f2, _⟩
      · exact Or.inl ⟨hka.trans f1, e1.trans f2⟩
      · exact Or.inr ⟨hka.trans f1, e1.trans f2⟩
    · right; left
      obtain ⟨n1, n2⟩ := hnb x ax hx
      rcases hcfg with ⟨f1, f2, _⟩ | ⟨f1, f2, _⟩
      · exact ⟨Or.inl (hka.trans f1), f1 ▸ n1, f2 ▸ n2, hx⟩
      · exact ⟨Or.inr (hka.trans f1), f2 ▸ n2, f1 ▸ n1, hx⟩
  · by_cases hkb : k = b
    · rw [hkb] at hl
      rcases (cb x ax).mp hl with ⟨e1, e2⟩ | ⟨_, hx⟩
      · left
        refine ⟨?_, e2⟩
        rcases hcfg with ⟨f1, f2, _⟩ | ⟨f1, f2, _⟩
        · exact Or.inr ⟨hkb.trans f2, e1.trans f1⟩
        · exact Or.inl ⟨hkb.trans f2, e1.trans f1⟩
      · right; left
        obtain ⟨n1, n2⟩ := hnb x ax hx
        rcases hcfg with ⟨f1, f2, _⟩ | ⟨f1, f2, _⟩
        · exact ⟨Or.inr (hkb.trans f2), f1 ▸ n1, f2 ▸ n2, hx⟩
        · exact ⟨Or.inl (hkb.trans f2), f2 ▸ n2, f1 ▸ n1, hx⟩
    · right; right
      have hkid : k ≠ id := by
        intro e
        have := (cid (e ▸ hka) (e ▸ hkb)).1
        unfold TTN.Leg at hl
        rw [e, this] at hl
        simp at hl
      have hko : k ≠ outId ∧ k ≠ inId := by
        rcases hcfg with ⟨f1, f2, _⟩ | ⟨f1, f2, _⟩
        · rw [← f1, ← f2]; exact ⟨hka, hkb⟩
        · rw [← f1, ← f2]; exact ⟨hkb, hka⟩
      obtain ⟨y, hy, ex⟩ := bl37_leg_of_map_inv (cby k hka hkb hkid).1 hl
      refine ⟨hko.1, hko.2, hkid, y, hy, ?_⟩
      unfold splitRho at ex
      by_cases hyid : y = id
      · right
        refine ⟨hyid, ?_⟩
        rw [if_pos hyid] at ex
        rcases hcfg with ⟨f1, f2, _⟩ | ⟨f1, f2, _⟩
        · rw [← f1, ← f2]; split at ex
          · exact Or.inr ex
          · exact Or.inl ex
        · rw [← f1, ← f2]; split at ex
          · exact Or.inl ex
          · exact Or.inr ex
      · left
        rw [if_neg hyid] at ex
        exact ⟨hyid, ex⟩

/-- `contract_nodes(a, b, ts)` followed by `split_nodes(ts, u, v, a, b)` (the two steps of `contractSplit`, with the
    admissibility of the split step as an explicit hypothesis), pull-back: a leg of the result is an end of the fresh
    bond `a – b` (dimension `bd`), or a leg of `a` or `b` that one of the two had before (not their common bond), or a
    leg of a bystander with the same axis, pointing where it pointed (up to which of `a`, `b`). -/
theorem bl37_contract_split_pull {t tc t1 : TTN} {a b ts : Id} {X : NodeS} {u v : TTN.LegSpec} {bd : Nat}
    (h : t.WF) (hts : t.N ts = none) (hc : t.contractNodes a b ts = some tc)
    (adm : SplitAdm tc ts X u v a b) (hs : tc.splitNodes ts u v a b bd = some t1)
    {k x : Id} {ax : Axis} (hl : t1.Leg k x ax) :
    (((k = a ∧ x = b) ∨ (k = b ∧ x = a)) ∧ ax.dim = bd) ∨
    ((k = a ∨ k = b) ∧ x ≠ a ∧ x ≠ b ∧ (t.Leg a x ax ∨ t.Leg b x ax)) ∨
    (k ≠ a ∧ k ≠ b ∧ ∃ y, t.Leg k y ax ∧
      ((y ≠ a ∧ y ≠ b ∧ x = y) ∨ ((y = a ∨ y = b) ∧ (x = a ∨ x = b)))) := by
  have hnew : ts = a ∨ ts = b ∨ t.N ts = none := Or.inr (Or.inr hts)
  have wc := contract_nodes_wf_aux h hnew hc
  rcases bl37_split_pull wc adm hs hl with ⟨hb, e⟩ | ⟨hk, xa, xb, hx⟩ | ⟨ka, kb, kts, y, hy, hxy⟩
  · left; exact ⟨hb, by rw [e]⟩
  · right; left
    refine ⟨hk, xa, xb, ?_⟩
    rcases bl37_contract_pull h hnew hc hx with ⟨_, c⟩ | ⟨c, _⟩
    · rcases c with ⟨c, _⟩ | ⟨c, _⟩
      · exact Or.inl c
      · exact Or.inr c
    · exact absurd rfl c
  · right; right
    refine ⟨ka, kb, ?_⟩
    rcases bl37_contract_pull h hnew hc hy with ⟨c, _⟩ | ⟨_, _, _, z, hz, ey⟩
    · exact absurd c kts
    · refine ⟨z, hz, ?_⟩
      have hzts : z ≠ ts := by
        intro e
        have := leg_target_isNode h hz
        rw [e] at this
        exact this hts
      by_cases hzab : z = a ∨ z = b
      · right
        refine ⟨hzab, ?_⟩
        rw [if_pos hzab] at ey
        rcases hxy with ⟨n, _⟩ | ⟨_, r⟩
        · exact absurd ey n
        · exact r
      · left
        rw [if_neg hzab] at ey
        rcases hxy with ⟨_, r⟩ | ⟨n, _⟩
        · exact ⟨fun e => hzab (Or.inl e), fun e => hzab (Or.inr e), r.trans ey⟩
        · exact absurd (ey.symm.trans n) hzts

end Ptn.C10
