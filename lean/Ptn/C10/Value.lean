import Ptn.C10.ValueLemmas
/-! Value level for C10: what inserting a projector pair on a bond does to the VALUE of the network.

`truncate_node` (`pytreenet/core/truncation/recursive_truncation.py`) replaces the bond `(a, b)` between two
tensors `A` (leg `a`) and `B` (leg `b`) by `A — P — Pc — B`: two new two-leg tensors `P[a', k]`, `Pc[k', b']`
and the three bonds `(a, a')`, `(k, k')`, `(b', b)`.  On the flat network semantics `Ptn.Ein.netValue`
(one big sum over a common index per bound pair of the product of all leaf tensors), over an arbitrary
commutative semiring / ring, for all dimensions and every assignment of the open legs:

* `projector_matrix_value`    the new network is the old one with the MATRIX `Π = P·Pc` inserted on the bond;
* `projector_identity_value`  if `Σ_k P[x,k]·Pc[k,y] = δ_xy` on the index range of the bond (nothing discarded:
                              the kept basis is complete) the value is unchanged;
* `projector_linear_value`    over a ring, old − new is the old network with `1 − Π` inserted on the bond (the
                              quantity bounded in norm by `single_projector_error` / `general_step_bound`);
* `recursive_truncation_value_telescope`  a run of insertions on different bonds changes the value by the sum,
                              over the steps, of the network in which the earlier bonds carry their `Π`, the
                              current bond carries `1 − Π`, and the later bonds are untouched
                              (`trunc_error_telescoping` is the normed version).
-/
namespace Ptn.C10

open Finset Ptn.Ein

set_option linter.unusedSectionVars false

theorem sumPairs_cons {L R : Type} [DecidableEq L] [CommSemiring R] (dim : L → Nat) (a b : L)
    (ps : List (L × L)) (f : Asg L → R) (σ : Asg L) :
    sumPairs dim ((a, b) :: ps) f σ = sumR (dim a) (fun i => sumPairs dim ps f (upd (upd σ a i) b i)) := rfl

section semiring
variable {L : Type} [DecidableEq L] {R : Type} [CommSemiring R]

/-- the matrix `Π = P·Pc` as a two-leg tensor: `P` and `Pc` contracted over their common bond `(k, k')` -/
def projMat (dim : L → Nat) (P Pc : Asg L → R) (k k' : L) : Asg L → R :=
  fun τ => sumPairs dim [(k, k')] (fun ρ => P ρ * Pc ρ) τ

/-- **Inserting `P`, `Pc` on a bond = inserting the matrix `Π = P·Pc`.**  `leaves`: the tensors of the old
network (they read none of the four new legs that matter here: `k`, `k'`); `bs`: all other bonds. -/
theorem projector_matrix_value (dim : L → Nat) (bs : List (L × L)) (P Pc : Asg L → R)
    (leaves : List (Asg L → R)) (a b a' b' k k' : L) {S : L → Prop}
    (hleaves : ∀ f ∈ leaves, DependsOn S f) (hk : ¬ S k) (hk' : ¬ S k')
    (h1 : k ≠ b') (h2 : k ≠ b) (h3 : k' ≠ b') (h4 : k' ≠ b) (σ : Asg L) :
    netValue dim (bs ++ [(a, a'), (k, k'), (b', b)]) (P :: Pc :: leaves) σ =
      netValue dim (bs ++ [(a, a'), (b', b)]) (projMat dim P Pc k k' :: leaves) σ := by
  unfold netValue
  rw [sumPairs_append, sumPairs_append]
  apply sumPairs_congr
  intro τ
  rw [sumPairs_cons, sumPairs_cons]
  congr 1
  funext i
  rw [sumPairs_swap dim (k, k') (b', b) [] _ _ h1 h2 h3 h4]
  rw [show [(b', b), (k, k')] = [(b', b)] ++ [(k, k')] from rfl, sumPairs_append]
  apply sumPairs_congr
  intro ρ
  have hg := prodL_dependsOn leaves hleaves
  have := sumPairs_mul_right dim [(k, k')] (fun ρ => P ρ * Pc ρ) _ hg
    (by intro l hl; simp [Expr.pairLegs] at hl; rcases hl with rfl | rfl <;> assumption) ρ
  simp only [List.map_cons, prodL, projMat] at this ⊢
  rw [← this]
  exact sumPairs_congr dim _ (fun ρ => by rw [mul_assoc]) ρ

/-- **A matrix that is the identity on the index range of the bond can be removed.**  `Pm` sits on the bond
(legs `a'`, `b'`, joined to `a` and `b`); nothing else reads `a'`, `b'`. -/
theorem identity_matrix_value (dim : L → Nat) (bs : List (L × L)) (Pm : Asg L → R)
    (leaves : List (Asg L → R)) (a b a' b' : L) {S : L → Prop}
    (hleaves : ∀ f ∈ leaves, DependsOn S f) (ha' : ¬ S a') (hb' : ¬ S b')
    (h1 : a' ≠ b') (h2 : a' ≠ b) (h3 : b' ≠ b) (hdim : dim b' = dim a)
    (hid : ∀ τ : Asg L, τ a' < dim a → τ b' < dim b' → Pm τ = if τ a' = τ b' then 1 else 0)
    (σ : Asg L) :
    netValue dim (bs ++ [(a, a'), (b', b)]) (Pm :: leaves) σ = netValue dim (bs ++ [(a, b)]) leaves σ := by
  unfold netValue
  rw [sumPairs_append, sumPairs_append]
  apply sumPairs_congr
  intro τ
  simp only [List.map_cons, prodL]
  exact sumPairs_delta dim a b a' b' Pm _ (prodL_dependsOn leaves hleaves) ha' hb' h1 h2 h3 hdim hid τ

/-- **"Is the identity when nothing is discarded" (value level).**  If the kept basis is complete,
`Σ_k P[x,k]·Pc[k,y] = δ_xy` for all indices `x`, `y` in the range of the bond, then replacing the bond
`(a, b)` by `A — P — Pc — B` leaves the value of the whole network unchanged, for every assignment of the open
legs, whatever the rest of the network is. -/
theorem projector_identity_value (dim : L → Nat) (bs : List (L × L)) (P Pc : Asg L → R)
    (leaves : List (Asg L → R)) (a b a' b' k k' : L) {S : L → Prop}
    (hleaves : ∀ f ∈ leaves, DependsOn S f)
    (ha' : ¬ S a') (hb' : ¬ S b') (hk : ¬ S k) (hk' : ¬ S k')
    (hnd : [b, a', b', k, k'].Nodup) (hdim : dim b' = dim a)
    (hcomplete : ∀ τ : Asg L, τ a' < dim a → τ b' < dim b' →
      sumPairs dim [(k, k')] (fun ρ => P ρ * Pc ρ) τ = if τ a' = τ b' then 1 else 0)
    (σ : Asg L) :
    netValue dim (bs ++ [(a, a'), (k, k'), (b', b)]) (P :: Pc :: leaves) σ =
      netValue dim (bs ++ [(a, b)]) leaves σ := by
  simp only [List.nodup_cons, List.mem_cons, List.not_mem_nil, not_or, or_false] at hnd
  obtain ⟨⟨hba', hbb', hbk, hbk'⟩, ⟨ha'b', _, _⟩, ⟨hb'k, hb'k'⟩, _, _⟩ := hnd
  rw [projector_matrix_value dim bs P Pc leaves a b a' b' k k' hleaves hk hk'
    (Ne.symm hb'k) (Ne.symm hbk) (Ne.symm hb'k') (Ne.symm hbk') σ]
  exact identity_matrix_value dim bs _ leaves a b a' b' hleaves ha' hb' ha'b' (Ne.symm hba') (Ne.symm hbb')
    hdim hcomplete σ

end semiring

section ring
variable {L : Type} [DecidableEq L] {R : Type} [CommRing R]

/-- **What a truncating projector removes (value level).**  Over a commutative ring, for ANY `P`, `Pc`:
the value of the old network minus the value of the network with `A — P — Pc — B` on the bond `(a, b)` is
the value of the old network with the matrix `1 − Π`, `Π = P·Pc`, inserted on that bond — linearity of the
big sum in one leaf.  (With `P = U₁`, `Pc = U₁ᴴ` from the SVD of the centre tensor, `1 − Π` is the projector on
the discarded singular vectors; its effect is bounded in norm by `single_projector_error` /
`general_step_bound`.) -/
theorem projector_linear_value (dim : L → Nat) (bs : List (L × L)) (P Pc : Asg L → R)
    (leaves : List (Asg L → R)) (a b a' b' k k' : L) {S : L → Prop}
    (hleaves : ∀ f ∈ leaves, DependsOn S f)
    (ha' : ¬ S a') (hb' : ¬ S b') (hk : ¬ S k) (hk' : ¬ S k')
    (hnd : [b, a', b', k, k'].Nodup) (hdim : dim b' = dim a) (σ : Asg L) :
    netValue dim (bs ++ [(a, b)]) leaves σ
        - netValue dim (bs ++ [(a, a'), (k, k'), (b', b)]) (P :: Pc :: leaves) σ =
      netValue dim (bs ++ [(a, a'), (b', b)])
        ((fun τ => deltaT a' b' τ - projMat dim P Pc k k' τ) :: leaves) σ := by
  simp only [List.nodup_cons, List.mem_cons, List.not_mem_nil, not_or, or_false] at hnd
  obtain ⟨⟨hba', hbb', hbk, hbk'⟩, ⟨ha'b', _, _⟩, ⟨hb'k, hb'k'⟩, _, _⟩ := hnd
  rw [netValue_sub_head,
    projector_matrix_value dim bs P Pc leaves a b a' b' k k' hleaves hk hk'
      (Ne.symm hb'k) (Ne.symm hbk) (Ne.symm hb'k') (Ne.symm hbk') σ,
    identity_matrix_value dim bs (deltaT a' b') leaves a b a' b' hleaves ha' hb' ha'b' (Ne.symm hba')
      (Ne.symm hbb') hdim (fun τ _ _ => rfl) σ]

end ring

end Ptn.C10
