import Mathlib.Algebra.BigOperators.Group.Finset.Basic
import Mathlib.Algebra.BigOperators.Ring.Finset
import Mathlib.LinearAlgebra.Matrix.SemiringInverse
import Mathlib.Tactic.Ring
import Ptn.C10.Value
/-! # The projectors `recursive_truncation` inserts, identified (index form)

`get_truncation_projector` matricises the node tensor with the leg towards the child as ROWS (`M[x, c]`, `x < m` the
bond index, `c` everything else), takes the truncated SVD and returns `U₁` (the kept columns of `U`, legs
`(child_leg, new_leg)`); `insert_projection_operator_and_conjugate` puts `projector.conj()` next to the node (legs
`(a', k)`) and `projector.T` next to the child (legs `(k', b')`).  So the matrix on the bond is
`Π[x, y] = Σ_{k kept} conj(U[x, k]) · U[y, k]` (`svdPi`), acting on the node tensor through the contraction
`Σ_x M[x, c] · Π[x, y]`.

The SVD is an external routine: its CONTRACT is a hypothesis, in index form, over any commutative (semi)ring `R`,
with the conjugate given as a second family `Uc` (for `ℂ`: `Uc = conj ∘ U`; `svdPi_hermitian` uses a ring
endomorphism):
* `hM : M x c = Σ_{j<r} U x j * s j * V j c` (`x < m`),
* `hU : Σ_{x<m} Uc x i * U x j = δ_ij` (`i, j < r`; orthonormal columns, `Uᴴ U = 1`).
No property of `V` and `s` is needed. -/
namespace Ptn.C10

open Finset

section semiring
variable {R : Type} [CommSemiring R]

/-- `Π[x, y] = Σ_{k < kk} Uc[x, k] · U[y, k]`: the matrix `projector.conj() · projector.T` on the bond -/
def svdPi (kk : ℕ) (U Uc : ℕ → ℕ → R) (x y : ℕ) : R := ∑ k ∈ range kk, Uc x k * U y k

theorem sum_range_indicator (r kk : ℕ) (h : kk ≤ r) (f : ℕ → R) :
    ∑ j ∈ range r, (if j < kk then f j else 0) = ∑ j ∈ range kk, f j := by
  rw [← sum_filter]
  apply sum_congr _ (fun _ _ => rfl)
  ext j
  simp only [mem_filter, mem_range]
  omega

/-- **Kept left singular vectors are fixed, discarded ones are annihilated**: `Σ_x U[x, j] Π[x, y]` is `U[y, j]`
for a kept column `j < kk` and `0` for a discarded one (`kk ≤ j < r`). -/
theorem svdPi_singular_vector (m r kk : ℕ) (U Uc : ℕ → ℕ → R) (hk : kk ≤ r)
    (hU : ∀ i j, i < r → j < r → ∑ x ∈ range m, Uc x i * U x j = if i = j then 1 else 0)
    (j : ℕ) (hj : j < r) (y : ℕ) :
    ∑ x ∈ range m, U x j * svdPi kk U Uc x y = if j < kk then U y j else 0 := by
  unfold svdPi
  have e1 : ∀ x ∈ range m, U x j * ∑ k ∈ range kk, Uc x k * U y k =
      ∑ k ∈ range kk, (Uc x k * U x j) * U y k := by
    intro x _
    rw [mul_sum]
    exact sum_congr rfl (fun k _ => by ring)
  rw [sum_congr rfl e1, sum_comm]
  have e2 : ∀ k ∈ range kk, ∑ x ∈ range m, (Uc x k * U x j) * U y k = if k = j then U y k else 0 := by
    intro k hk'
    rw [← sum_mul, hU k j (by have := mem_range.1 hk'; omega) hj]
    split <;> simp
  rw [sum_congr rfl e2, sum_ite_eq' (range kk) j (fun k => U y k)]
  simp [mem_range]

/-- **`Π · M = Σ_{k kept} U s V`**: contracting the matricised node tensor with the bond matrix keeps exactly the
kept singular triples. -/
theorem svdPi_mul (m r kk : ℕ) {ι : Type} (M : ℕ → ι → R) (U Uc : ℕ → ℕ → R) (s : ℕ → R) (V : ℕ → ι → R)
    (hk : kk ≤ r)
    (hM : ∀ x c, x < m → M x c = ∑ j ∈ range r, U x j * s j * V j c)
    (hU : ∀ i j, i < r → j < r → ∑ x ∈ range m, Uc x i * U x j = if i = j then 1 else 0)
    (c : ι) (y : ℕ) :
    ∑ x ∈ range m, M x c * svdPi kk U Uc x y = ∑ j ∈ range kk, U y j * s j * V j c := by
  have e1 : ∀ x ∈ range m, M x c * svdPi kk U Uc x y =
      ∑ j ∈ range r, (s j * V j c) * (U x j * svdPi kk U Uc x y) := by
    intro x hx
    rw [hM x c (mem_range.1 hx), sum_mul]
    exact sum_congr rfl (fun j _ => by ring)
  rw [sum_congr rfl e1, sum_comm]
  have e2 : ∀ j ∈ range r, ∑ x ∈ range m, (s j * V j c) * (U x j * svdPi kk U Uc x y) =
      if j < kk then U y j * s j * V j c else 0 := by
    intro j hj
    rw [← mul_sum, svdPi_singular_vector m r kk U Uc hk hU j (mem_range.1 hj) y]
    split
    · ring
    · simp
  rw [sum_congr rfl e2, sum_range_indicator r kk hk]

/-- **All columns kept: `Π` is the identity on the range of `M`** (`Π · M = M`), also when `U` is not square
(`r < m`: then `Π ≠ 1`, but nothing of `M` is lost). -/
theorem svdPi_mul_full (m r : ℕ) {ι : Type} (M : ℕ → ι → R) (U Uc : ℕ → ℕ → R) (s : ℕ → R) (V : ℕ → ι → R)
    (hM : ∀ x c, x < m → M x c = ∑ j ∈ range r, U x j * s j * V j c)
    (hU : ∀ i j, i < r → j < r → ∑ x ∈ range m, Uc x i * U x j = if i = j then 1 else 0)
    (c : ι) (y : ℕ) (hy : y < m) :
    ∑ x ∈ range m, M x c * svdPi r U Uc x y = M y c := by
  rw [svdPi_mul m r r M U Uc s V (le_refl r) hM hU c y, hM y c hy]

/-- **`Π` is idempotent** (`Π · Π = Π`): a projector. -/
theorem svdPi_idempotent (m r kk : ℕ) (U Uc : ℕ → ℕ → R) (hk : kk ≤ r)
    (hU : ∀ i j, i < r → j < r → ∑ x ∈ range m, Uc x i * U x j = if i = j then 1 else 0) (x z : ℕ) :
    ∑ y ∈ range m, svdPi kk U Uc x y * svdPi kk U Uc y z = svdPi kk U Uc x z := by
  have e1 : ∀ y ∈ range m, svdPi kk U Uc x y * svdPi kk U Uc y z =
      ∑ k ∈ range kk, Uc x k * (U y k * svdPi kk U Uc y z) := by
    intro y _
    conv_lhs => unfold svdPi
    rw [sum_mul]
    exact sum_congr rfl (fun k _ => by unfold svdPi; ring)
  rw [sum_congr rfl e1, sum_comm]
  unfold svdPi
  apply sum_congr rfl
  intro k hk'
  have hkr : k < r := by have := mem_range.1 hk'; omega
  have := svdPi_singular_vector m r kk U Uc hk hU k hkr z
  unfold svdPi at this
  rw [← mul_sum, this, if_pos (mem_range.1 hk')]

/-- **`Π` is Hermitian** when `Uc` is the entrywise conjugate of `U` for an involutive ring endomorphism `conj`. -/
theorem svdPi_hermitian (kk : ℕ) (U : ℕ → ℕ → R) (conj : R →+* R) (hinv : ∀ z, conj (conj z) = z) (x y : ℕ) :
    conj (svdPi kk U (fun a b => conj (U a b)) x y) = svdPi kk U (fun a b => conj (U a b)) y x := by
  unfold svdPi
  rw [map_sum]
  apply sum_congr rfl
  intro k _
  rw [map_mul, hinv, mul_comm]

/-- **Square `U`, all columns kept: `Π` IS the identity matrix** (`U` has orthonormal columns and is square, so
`U Uᴴ = 1` too - `Matrix.mul_eq_one_comm` over a commutative semiring).  This is the hypothesis `hcomplete` of
`projector_identity_value`. -/
theorem svdPi_square (m : ℕ) (U Uc : ℕ → ℕ → R)
    (hU : ∀ i j, i < m → j < m → ∑ x ∈ range m, Uc x i * U x j = if i = j then 1 else 0)
    (x y : ℕ) (hx : x < m) (hy : y < m) :
    svdPi m U Uc x y = if x = y then 1 else 0 := by
  let A : Matrix (Fin m) (Fin m) R := fun i x => Uc x i
  let B : Matrix (Fin m) (Fin m) R := fun x j => U x j
  have hAB : A * B = 1 := by
    ext i j
    rw [Matrix.mul_apply, Matrix.one_apply]
    have := hU i j i.2 j.2
    rw [← Fin.sum_univ_eq_sum_range (fun x => Uc x i * U x j) m] at this
    rw [this]
    simp [Fin.ext_iff]
  have hBA : B * A = 1 := mul_eq_one_comm.mp hAB
  have := congrFun (congrFun hBA ⟨y, hy⟩) ⟨x, hx⟩
  rw [Matrix.mul_apply, Matrix.one_apply] at this
  unfold svdPi
  rw [← Fin.sum_univ_eq_sum_range (fun k => Uc x k * U y k) m]
  have e : ∀ k : Fin m, B ⟨y, hy⟩ k * A k ⟨x, hx⟩ = Uc x k * U y k := fun k => mul_comm _ _
  rw [← sum_congr rfl (fun k _ => e k), this]
  simp only [Fin.mk.injEq]
  by_cases h : x = y
  · simp [h]
  · have : ¬ y = x := fun e => h e.symm
    simp [h, this]

/-- **The projectors of `recursive_truncation`, identified.**  GIVEN the contract of the SVD of the matricised node
tensor in index form (`hM`: `M = Σ_{j<r} U[·,j] s_j V[j,·]`; `hU`: `Σ_x Uc[x,i] U[x,j] = δ_ij`), the pair the library
inserts - `P = projector.conj() = Uc[·, :kk]` next to the node, `Pc = projector.T = U[·, :kk]ᵀ` next to the child,
`kk ≤ r` kept columns - puts the matrix `Π = P·Pc` (`svdPi`) on the bond, and
1. `Π·Π = Π` (a projector),
2. `Π` fixes the kept left singular vectors and annihilates the discarded ones (it is THE projector onto the span of
   the kept left singular vectors; Hermitian: `svdPi_hermitian`),
3. `Π·M = Σ_{j<kk} U[·,j] s_j V[j,·]` (exactly the kept singular triples survive),
4. with all columns kept (`kk = r`) `Π·M = M`: the identity on the range of `M`, hence the network is unchanged
   (`svd_projector_full_value`), even if `Π ≠ 1`,
5. with all columns kept and `U` square (`kk = r = m`) `Π` is the identity matrix (hypothesis `hcomplete` of
   `projector_identity_value`).
Every commutative semiring, all sizes. -/
theorem svd_projector_value (m r kk : ℕ) {ι : Type} (M : ℕ → ι → R) (U Uc : ℕ → ℕ → R) (s : ℕ → R)
    (V : ℕ → ι → R) (hk : kk ≤ r)
    (hM : ∀ x c, x < m → M x c = ∑ j ∈ range r, U x j * s j * V j c)
    (hU : ∀ i j, i < r → j < r → ∑ x ∈ range m, Uc x i * U x j = if i = j then 1 else 0) :
    (∀ x z, ∑ y ∈ range m, svdPi kk U Uc x y * svdPi kk U Uc y z = svdPi kk U Uc x z) ∧
    (∀ j, j < r → ∀ y, ∑ x ∈ range m, U x j * svdPi kk U Uc x y = if j < kk then U y j else 0) ∧
    (∀ c y, ∑ x ∈ range m, M x c * svdPi kk U Uc x y = ∑ j ∈ range kk, U y j * s j * V j c) ∧
    (kk = r → ∀ c y, y < m → ∑ x ∈ range m, M x c * svdPi kk U Uc x y = M y c) ∧
    (kk = r → r = m → ∀ x y, x < m → y < m → svdPi kk U Uc x y = if x = y then 1 else 0) := by
  refine ⟨svdPi_idempotent m r kk U Uc hk hU, fun j hj y => svdPi_singular_vector m r kk U Uc hk hU j hj y,
    svdPi_mul m r kk M U Uc s V hk hM hU, ?_, ?_⟩
  · intro e c y hy
    subst e
    exact svdPi_mul_full m kk M U Uc s V hM hU c y hy
  · intro e1 e2 x y hx hy
    subst e1; subst e2
    exact svdPi_square kk U Uc hU x y hx hy

end semiring

end Ptn.C10
