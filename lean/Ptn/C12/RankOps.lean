import Mathlib.LinearAlgebra.Matrix.Rank
/-! C12, numeric case (Mathlib: `Matrix.rank`): the rank of the `m × n` box of an entry function
`ℕ → ℕ → ℚ`, and its invariance under "every row is zero or a combination of two rows of the other
matrix" (what row swaps, row additions, deleting zero rows and deleting parallel rows do), the mirror
image for columns, and independence of the box as long as it contains the support. -/
namespace Ptn.C12
open Module

/-- Rank over ℚ of the `m × n` box of an entry function. -/
noncomputable def rk (v : ℕ → ℕ → ℚ) (m n : ℕ) : ℕ :=
  (Matrix.of fun (i : Fin m) (j : Fin n) => v i j).rank

/-- If every row of the `m' × n` box of `v'` is zero or a combination of (at most) two rows of the
    `m × n` box of `v`, then `rank v' ≤ rank v`. -/
theorem rk_le_of_rows (v v' : ℕ → ℕ → ℚ) (m m' n : ℕ)
    (h : ∀ r, r < m' → (∀ c, c < n → v' r c = 0) ∨ ∃ (a b : ℚ) (k i : ℕ), k < m ∧ i < m ∧
      ∀ c, c < n → v' r c = a * v k c + b * v i c) :
    rk v' m' n ≤ rk v m n := by
  unfold rk
  rw [Matrix.rank_eq_finrank_span_row, Matrix.rank_eq_finrank_span_row]
  apply Submodule.finrank_mono
  apply Submodule.span_le.2
  rintro _ ⟨r, rfl⟩
  rcases h r r.2 with hz | ⟨a, b, k, i, hk, hi, hc⟩
  · have e : (Matrix.of fun (i : Fin m') (j : Fin n) => v' i j).row r = 0 := by
      funext c
      simp [Matrix.row, hz c c.2]
    rw [e]
    exact Submodule.zero_mem _
  · have e : (Matrix.of fun (i : Fin m') (j : Fin n) => v' i j).row r =
        a • (Matrix.of fun (i : Fin m) (j : Fin n) => v i j).row ⟨k, hk⟩ +
        b • (Matrix.of fun (i : Fin m) (j : Fin n) => v i j).row ⟨i, hi⟩ := by
      funext c
      simp [Matrix.row, hc c c.2]
    rw [e]
    exact add_mem (Submodule.smul_mem _ _ (Submodule.subset_span ⟨_, rfl⟩))
      (Submodule.smul_mem _ _ (Submodule.subset_span ⟨_, rfl⟩))

/-- Transposition. -/
theorem rk_transpose (v : ℕ → ℕ → ℚ) (m n : ℕ) : rk (fun c r => v r c) n m = rk v m n := by
  unfold rk
  rw [← Matrix.rank_transpose]
  rfl

/-- Mirror image of `rk_le_of_rows` for columns. -/
theorem rk_le_of_cols (v v' : ℕ → ℕ → ℚ) (m n n' : ℕ)
    (h : ∀ c, c < n' → (∀ r, r < m → v' r c = 0) ∨ ∃ (a b : ℚ) (k i : ℕ), k < n ∧ i < n ∧
      ∀ r, r < m → v' r c = a * v r k + b * v r i) :
    rk v' m n' ≤ rk v m n := by
  rw [← rk_transpose v', ← rk_transpose v]
  exact rk_le_of_rows _ _ n n' m h

/-- The box may be enlarged as long as the additional rows and columns are zero. -/
theorem rk_box (v : ℕ → ℕ → ℚ) (p q m n : ℕ) (hp : p ≤ m) (hq : q ≤ n)
    (hr : ∀ r c, p ≤ r → v r c = 0) (hc : ∀ r c, q ≤ c → v r c = 0) :
    rk v p q = rk v m n := by
  have h1 : rk v p q = rk v m q := by
    apply Nat.le_antisymm
    · exact rk_le_of_rows v v m p q fun r hr' =>
        Or.inr ⟨1, 0, r, r, by omega, by omega, fun c _ => by simp⟩
    · apply rk_le_of_rows v v p m q
      intro r _
      by_cases hrp : r < p
      · exact Or.inr ⟨1, 0, r, r, hrp, hrp, fun c _ => by simp⟩
      · exact Or.inl fun c _ => hr r c (by omega)
  have h2 : rk v m q = rk v m n := by
    apply Nat.le_antisymm
    · exact rk_le_of_cols v v m n q fun c hc' =>
        Or.inr ⟨1, 0, c, c, by omega, by omega, fun r _ => by simp⟩
    · apply rk_le_of_cols v v m q n
      intro c _
      by_cases hcq : c < q
      · exact Or.inr ⟨1, 0, c, c, hcq, hcq, fun r _ => by simp⟩
      · exact Or.inl fun r _ => hc r c (by omega)
  rw [h1, h2]

end Ptn.C12
