import Ptn.C12.NumRank
import Ptn.C12.RankBridge
import Mathlib.LinearAlgebra.Matrix.Rank
/-! C12 (builder B71): the reduced matrix of a numeric `Γ` that is not the zero matrix keeps a column
(`0 < R.length`), derived from the rank invariant `rank_numMat_eq` - the hypothesis `0 < R.length` on
the OUTPUT of the B69 theorems becomes the hypothesis "`Γ` has a non-zero entry" on the INPUT. -/
namespace Ptn.C12
open Ptn.C13

/-- Over a field a matrix with a non-zero entry has positive rank. -/
theorem c12_rank_pos_of_entry_ne {F : Type*} [Field F] {p q : ℕ} (G : Matrix (Fin p) (Fin q) F)
    (i : Fin p) (j : Fin q) (h : G i j ≠ 0) : 0 < G.rank := by
  rw [Nat.pos_iff_ne_zero]
  intro h0
  unfold Matrix.rank at h0
  rw [Submodule.finrank_eq_zero] at h0
  have hm : G.mulVecLin (Pi.single j 1) ∈ LinearMap.range G.mulVecLin := LinearMap.mem_range_self _ _
  rw [h0, Submodule.mem_bot] at hm
  have h2 := congrFun hm i
  simp at h2
  exact h h2

/-- A matrix without columns has rank zero; contrapositive. -/
theorem c12_width_pos_of_rank_pos {F : Type*} [Field F] {p q : ℕ} (G : Matrix (Fin p) (Fin q) F)
    (h : 0 < G.rank) : 0 < q := by
  have := Matrix.rank_le_width G
  omega

/-- **The reduced matrix keeps a column.**  Numeric rectangular `Γ` with a non-zero entry: the triple
    returned by the model has `0 < len(Op_r)` (= number of columns of `M'`) and `M'` has a non-zero entry. -/
theorem cols_pos_of_entry (M : EMat) (n : ℕ) (hpos : 0 < M.length) (hrect : Rect M n) (hnum : NumM M)
    (L : RMat) (A : EMat) (R : RMat) (h : gaussianElimination M = .ok L A R)
    (hne : ∃ i j, nz M i j = true) : 0 < R.length ∧ 0 < (numMat M M.length n).rank := by
  obtain ⟨i, j, hij⟩ := hne
  obtain ⟨hi, hj⟩ := nz_in_range hrect hij
  have hr : 0 < (numMat M M.length n).rank :=
    c12_rank_pos_of_entry_ne _ ⟨i, hi⟩ ⟨j, hj⟩ ((nz_iff_numMat hnum M.length n ⟨i, hi⟩ ⟨j, hj⟩).1 hij)
  rw [← rank_numMat_eq M n hpos hrect hnum L A R h] at hr
  refine ⟨c12_width_pos_of_rank_pos _ hr, ?_⟩
  rw [← rank_numMat_eq M n hpos hrect hnum L A R h]
  exact hr

end Ptn.C12
