import Ptn.C12.Model
import Ptn.C01.Lemmas
/-! Helper lemmas for C12 (core Lean only). -/
namespace Ptn.C12
open Ptn.C01

theorem BondsAll_node (n i nv : Nat) (hes : List HE) (kids : List SD) :
    BondsAll n (.node i nv hes kids) ↔ BondsAllKids n kids := by rw [BondsAll]

theorem BondsAllKids_cons (n : Nat) (k : SD) (ks : List SD) :
    BondsAllKids n (k :: ks) ↔ k.nv = n ∧ BondsAll n k ∧ BondsAllKids n ks := by rw [BondsAllKids]

theorem Over_node (i dim : Nat) (ks : List RTree) (j nv : Nat) (hes : List HE) (ds : List SD) :
    Over (.node i dim ks) (.node j nv hes ds) ↔ i = j ∧ OverKids ks ds := by rw [Over]

theorem OverKids_cons (k : RTree) (ks : List RTree) (d : SD) (ds : List SD) :
    OverKids (k :: ks) (d :: ds) ↔ Over k d ∧ OverKids ks ds := by rw [OverKids]

/-! ### single-term diagrams -/

mutual
theorem singleAt_over (ops : List (Nat × String)) (coef : Rat) (sym : String) (r : Bool) :
    ∀ t : RTree, Over t (singleAt ops coef sym r t)
  | .node i dim kids => by
    rw [singleAt, Over_node]
    exact ⟨rfl, singleKids_over ops coef sym kids⟩
theorem singleKids_over (ops : List (Nat × String)) (coef : Rat) (sym : String) :
    ∀ ks : List RTree, OverKids ks (singleKids ops coef sym ks)
  | [] => by rw [singleKids]; simp [OverKids]
  | k :: ks => by
    rw [singleKids, OverKids_cons]
    exact ⟨singleAt_over ops coef sym false k, singleKids_over ops coef sym ks⟩
end

mutual
theorem singleAt_bonds (ops : List (Nat × String)) (coef : Rat) (sym : String) (r : Bool) :
    ∀ t : RTree, BondsAll 1 (singleAt ops coef sym r t)
  | .node i dim kids => by
    rw [singleAt, BondsAll_node]
    exact singleKids_bonds ops coef sym kids
theorem singleKids_bonds (ops : List (Nat × String)) (coef : Rat) (sym : String) :
    ∀ ks : List RTree, BondsAllKids 1 (singleKids ops coef sym ks)
  | [] => by rw [singleKids]; simp [BondsAllKids]
  | k :: ks => by
    rw [singleKids, BondsAllKids_cons, singleAt_nv]
    exact ⟨by simp, singleAt_bonds ops coef sym false k, singleKids_bonds ops coef sym ks⟩
end

/-! ### sums -/

mutual
theorem sumSD_over : ∀ (t : RTree) (d1 d2 : SD), Over t d1 → Over t d2 → Over t (sumSD d1 d2)
  | .node i dim ks, .node j n1 h1 k1, .node l n2 h2 k2, o1, o2 => by
    rw [Over_node] at o1 o2
    rw [sumSD_node, Over_node]
    exact ⟨o1.1, sumKids_over ks k1 k2 o1.2 o2.2⟩
theorem sumKids_over : ∀ (ks : List RTree) (k1 k2 : List SD), OverKids ks k1 → OverKids ks k2 →
    OverKids ks (sumKids k1 k2)
  | [], [], [], _, _ => by rw [sumKids_nil]; simp [OverKids]
  | t :: ts, a :: as, b :: bs, o1, o2 => by
    rw [OverKids_cons] at o1 o2
    rw [sumKids_cons, OverKids_cons]
    exact ⟨sumSD_over t a b o1.1 o2.1, sumKids_over ts as bs o1.2 o2.2⟩
  | [], _ :: _, _, o1, _ => by simp [OverKids] at o1
  | [], [], _ :: _, _, o2 => by simp [OverKids] at o2
  | _ :: _, [], _, o1, _ => by simp [OverKids] at o1
  | _ :: _, _ :: _, [], _, o2 => by simp [OverKids] at o2
end

mutual
theorem sumSD_bonds : ∀ (t : RTree) (d1 d2 : SD) (a b : Nat), Over t d1 → Over t d2 →
    BondsAll a d1 → BondsAll b d2 → BondsAll (a + b) (sumSD d1 d2)
  | .node i dim ks, .node j n1 h1 k1, .node l n2 h2 k2, a, b, o1, o2, b1, b2 => by
    rw [Over_node] at o1 o2
    rw [BondsAll_node] at b1 b2
    rw [sumSD_node, BondsAll_node]
    exact sumKids_bonds ks k1 k2 a b o1.2 o2.2 b1 b2
theorem sumKids_bonds : ∀ (ks : List RTree) (k1 k2 : List SD) (a b : Nat), OverKids ks k1 →
    OverKids ks k2 → BondsAllKids a k1 → BondsAllKids b k2 → BondsAllKids (a + b) (sumKids k1 k2)
  | [], [], [], _, _, _, _, _, _ => by rw [sumKids_nil]; simp [BondsAllKids]
  | t :: ts, x :: xs, y :: ys, a, b, o1, o2, b1, b2 => by
    rw [OverKids_cons] at o1 o2
    rw [BondsAllKids_cons] at b1 b2
    rw [sumKids_cons, BondsAllKids_cons, sumSD_nv, b1.1, b2.1]
    exact ⟨rfl, sumSD_bonds t x y a b o1.1 o2.1 b1.2.1 b2.2.1,
      sumKids_bonds ts xs ys a b o1.2 o2.2 b1.2.2 b2.2.2⟩
  | [], _ :: _, _, _, _, o1, _, _, _ => by simp [OverKids] at o1
  | [], [], _ :: _, _, _, _, o2, _, _ => by simp [OverKids] at o2
  | _ :: _, [], _, _, _, o1, _, _, _ => by simp [OverKids] at o1
  | _ :: _, _ :: _, [], _, _, _, o2, _, _ => by simp [OverKids] at o2
end

/-! ### reading the bond dimensions -/

theorem bondsBelow_node (i nv : Nat) (hes : List HE) (kids : List SD) :
    bondsBelow (.node i nv hes kids) = bondsKids kids := by rw [bondsBelow]

theorem bondsKids_cons (k : SD) (ks : List SD) :
    bondsKids (k :: ks) = (k.id, k.nv) :: (bondsBelow k ++ bondsKids ks) := by rw [bondsKids]

theorem over_id (t : RTree) (d : SD) (h : Over t d) : d.id = t.id := by
  cases t; cases d
  rw [Over_node] at h
  exact h.1.symm

mutual
theorem bonds_eq (n : Nat) : ∀ (t : RTree) (d : SD), Over t d → BondsAll n d →
    bondsBelow d = t.edgesBelow.map (·, n)
  | .node i dim ks, .node j nv hes ds, o, b => by
    rw [Over_node] at o
    rw [BondsAll_node] at b
    rw [bondsBelow_node, RTree.edgesBelow]
    exact bondsKids_eq n ks ds o.2 b
theorem bondsKids_eq (n : Nat) : ∀ (ks : List RTree) (ds : List SD), OverKids ks ds →
    BondsAllKids n ds → bondsKids ds = (RTree.edgesKids ks).map (·, n)
  | [], [], _, _ => by rw [bondsKids, RTree.edgesKids]; rfl
  | t :: ts, d :: ds, o, b => by
    rw [OverKids_cons] at o
    rw [BondsAllKids_cons] at b
    rw [bondsKids_cons, RTree.edgesKids, List.map_cons, List.map_append,
      bonds_eq n t d o.1 b.2.1, bondsKids_eq n ts ds o.2 b.2.2, over_id t d o.1, b.1]
  | [], _ :: _, o, _ => by simp [OverKids] at o
  | _ :: _, [], o, _ => by simp [OverKids] at o
end

/-- Invariant of the left fold building the uncompressed diagram. -/
theorem fold_bonds (t : RTree) :
    ∀ (rest : List Term) (acc : SD) (n : Nat), Over t acc → BondsAll n acc →
      let d := rest.foldl (fun a x => sumSD a (singleTerm t x)) acc
      Over t d ∧ BondsAll (n + rest.length) d
  | [], acc, n, o, b => by simpa using ⟨o, b⟩
  | x :: rest, acc, n, o, b => by
    have ox : Over t (singleTerm t x) := singleAt_over _ _ _ true t
    have bx : BondsAll 1 (singleTerm t x) := singleAt_bonds _ _ _ true t
    have o' := sumSD_over t acc _ o ox
    have b' := sumSD_bonds t acc _ n 1 o ox b bx
    have ih := fold_bonds t rest (sumSD acc (singleTerm t x)) (n + 1) o' b'
    simp only [List.foldl_cons, List.length_cons]
    have e : n + (rest.length + 1) = n + 1 + rest.length := by omega
    rw [e]
    exact ih

end Ptn.C12
