import Mathlib.LinearAlgebra.Matrix.Rank
import Ptn.C01.Cut
/-! C12, numeric case (Mathlib: `Matrix.rank`): a matrix whose non-zero pattern is a partial
permutation matrix has rank = number of non-zero entries, and the rows carrying them are a cover of
exactly that size. -/
namespace Ptn.C12
open Ptn.C01 Finset
set_option linter.unusedSectionVars false

variable {F : Type*} [Field F] {ι κ : Type*} [Fintype ι] [Fintype κ] [DecidableEq ι] [DecidableEq κ]

/-- At most one non-zero entry per row and per column. -/
def MFullyReduced (G : Matrix ι κ F) : Prop :=
  (∀ i j j', G i j ≠ 0 → G i j' ≠ 0 → j = j') ∧ (∀ i i' j, G i j ≠ 0 → G i' j ≠ 0 → i = i')

/-- The set of non-zero positions. -/
def msupport [DecidableEq F] (G : Matrix ι κ F) : Finset (ι × κ) := univ.filter fun p => G p.1 p.2 ≠ 0

/-- The rows carrying a non-zero entry. -/
def msupportRows [DecidableEq F] (G : Matrix ι κ F) : Finset ι := (msupport G).image Prod.fst

theorem msupportRows_cover [DecidableEq F] (G : Matrix ι κ F) : IsCover G (msupportRows G) ∅ := by
  intro i j h
  left
  exact mem_image.2 ⟨(i, j), by simp [msupport, h], rfl⟩

theorem msupportRows_card [DecidableEq F] (G : Matrix ι κ F) (h : MFullyReduced G) :
    (msupportRows G).card = (msupport G).card := by
  apply card_image_of_injOn
  intro p hp q hq e
  rw [mem_coe] at hp hq
  simp only [msupport, mem_filter, mem_univ, true_and] at hp hq
  obtain ⟨i, j⟩ := p
  obtain ⟨i', j'⟩ := q
  simp only at e hp hq
  subst e
  rw [h.1 i j j' hp hq]

/-- The square submatrix on the non-zero positions is diagonal with non-zero diagonal. -/
theorem card_msupport_le_rank [DecidableEq F] (G : Matrix ι κ F) (h : MFullyReduced G) :
    (msupport G).card ≤ G.rank := by
  let r : ↥(msupport G) → ι := fun s => s.1.1
  let c : ↥(msupport G) → κ := fun s => s.1.2
  have hne : ∀ s : ↥(msupport G), G (r s) (c s) ≠ 0 := by
    intro s
    have := s.2
    simpa [msupport] using this
  have hsub : G.submatrix r c = Matrix.diagonal (fun s => G (r s) (c s)) := by
    ext s t
    by_cases hst : s = t
    · subst hst; simp
    · rw [Matrix.diagonal_apply_ne _ hst, Matrix.submatrix_apply]
      by_contra hnz
      have e1 : c t = c s := h.1 (r s) (c t) (c s) hnz (hne s)
      have e2 : r s = r t := h.2 (r s) (r t) (c t) hnz (hne t)
      apply hst
      apply Subtype.ext
      exact Prod.ext e2 e1.symm
  have hrk : (G.submatrix r c).rank = Fintype.card ↥(msupport G) := by
    rw [hsub, Matrix.rank_diagonal]
    apply Fintype.card_congr
    exact Equiv.subtypeUnivEquiv hne
  calc (msupport G).card = Fintype.card ↥(msupport G) := (Fintype.card_coe _).symm
    _ = (G.submatrix r c).rank := hrk.symm
    _ ≤ G.rank := Matrix.rank_submatrix_le G r c

/-- A family of positions whose square submatrix is diagonal with non-zero diagonal bounds the rank
    from below. -/
theorem card_le_rank_of_diag (G : Matrix ι κ F) {σ : Type*} [Fintype σ] [DecidableEq σ]
    (r : σ → ι) (c : σ → κ) (hd : ∀ s, G (r s) (c s) ≠ 0) (ho : ∀ s t, s ≠ t → G (r s) (c t) = 0) :
    Fintype.card σ ≤ G.rank := by
  classical
  have hsub : G.submatrix r c = Matrix.diagonal (fun s => G (r s) (c s)) := by
    ext s t
    by_cases hst : s = t
    · subst hst; simp
    · rw [Matrix.diagonal_apply_ne _ hst, Matrix.submatrix_apply]
      exact ho s t hst
  have hrk : (G.submatrix r c).rank = Fintype.card σ := by
    rw [hsub, Matrix.rank_diagonal]
    apply Fintype.card_congr
    exact Equiv.subtypeUnivEquiv hd
  calc Fintype.card σ = (G.submatrix r c).rank := hrk.symm
    _ ≤ G.rank := Matrix.rank_submatrix_le G r c

/-- A cover `(Cu, Cv)` of the support of `G` factors `G` through `|Cu| + |Cv|` indices. -/
theorem rank_le_cover {F : Type*} [Field F] {ι κ : Type*} [Fintype ι] [Fintype κ]
    [DecidableEq ι] [DecidableEq κ] (G : Matrix ι κ F) (Cu : Finset ι) (Cv : Finset κ)
    (hc : IsCover G Cu Cv) : G.rank ≤ Cu.card + Cv.card := by
  let L : Matrix ι (↥Cu ⊕ ↥Cv) F := fun i k =>
    match k with
    | .inl c => if i = c.1 then 1 else 0
    | .inr c => if i ∈ Cu then 0 else G i c.1
  let R : Matrix (↥Cu ⊕ ↥Cv) κ F := fun k j =>
    match k with
    | .inl c => G c.1 j
    | .inr c => if j = c.1 then 1 else 0
  have hG : G = L * R := by
    ext i j
    rw [Matrix.mul_apply, Fintype.sum_sum_type]
    simp only [L, R]
    have h1 : ∑ c : ↥Cu, (if i = c.1 then (1 : F) else 0) * G c.1 j = if i ∈ Cu then G i j else 0 := by
      rw [Finset.sum_coe_sort Cu (fun c => (if i = c then (1 : F) else 0) * G c j)]
      simp [Finset.sum_ite_eq]
    have h2 : ∑ c : ↥Cv, (if i ∈ Cu then (0 : F) else G i c.1) * (if j = c.1 then 1 else 0) =
        if j ∈ Cv then (if i ∈ Cu then 0 else G i j) else 0 := by
      rw [Finset.sum_coe_sort Cv (fun c => (if i ∈ Cu then (0 : F) else G i c) * (if j = c then 1 else 0))]
      simp [Finset.sum_ite_eq]
    rw [h1, h2]
    by_cases hi : i ∈ Cu
    · simp [hi]
    · by_cases hj : j ∈ Cv
      · simp [hi, hj]
      · have : G i j = 0 := by
          by_contra hne
          rcases hc i j hne with h | h
          · exact hi h
          · exact hj h
        simp [hi, hj, this]
  rw [hG]
  calc (L * R).rank ≤ L.rank := Matrix.rank_mul_le_left L R
    _ ≤ Fintype.card (↥Cu ⊕ ↥Cv) := Matrix.rank_le_card_width L
    _ = Cu.card + Cv.card := by simp

end Ptn.C12
