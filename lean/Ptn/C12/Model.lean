import Ptn.C01.Model
/-! Model for property C12 (core Lean only).  The state-diagram model is the one of C01
(`Ptn.C01.SD`, `singleTerm`, `baseDiagram`, `bondDims`); the bond dimension of a TTNO edge is the
number of vertices of that edge (`VertexColl.index_vertices`, `obtain_tensor_shape`). -/
namespace Ptn.C12
open Ptn.C01

/-- Bond dimensions (keyed by the child end of the edge) of the TTNO of a single-term Hamiltonian. -/
def singleBonds (t : RTree) (tm : Term) : List (Nat × Nat) := bondDims (singleTerm t tm)

/-- Bond dimensions of the uncompressed TTNO. -/
def baseBonds (t : RTree) (terms : List Term) : Option (List (Nat × Nat)) :=
  (baseDiagram t terms).map bondDims

mutual
/-- Every edge below `d` carries exactly `n` vertices. -/
def BondsAll (n : Nat) : SD → Prop
  | .node _ _ _ kids => BondsAllKids n kids
def BondsAllKids (n : Nat) : List SD → Prop
  | [] => True
  | k :: ks => k.nv = n ∧ BondsAll n k ∧ BondsAllKids n ks
end

mutual
/-- The diagram `d` lives on the tree `t` (same identifiers, same branching). -/
def Over : RTree → SD → Prop
  | .node i _ ks, .node j _ _ ds => i = j ∧ OverKids ks ds
def OverKids : List RTree → List SD → Prop
  | [], [] => True
  | k :: ks, d :: ds => Over k d ∧ OverKids ks ds
  | [], _ :: _ => False
  | _ :: _, [] => False
end

end Ptn.C12
