/-! Model for property C12 (core Lean only; no Mathlib). -/
namespace Ptn.C12
end Ptn.C12
