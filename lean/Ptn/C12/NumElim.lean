import Ptn.C12.Reduced
import Ptn.C13.Total
import Ptn.C13.Symbols
/-! C12, numeric case (core Lean only): entry-level description of the paired row / column additions
of the C13 model on matrices without symbolic entries. -/
namespace Ptn.C12
open Ptn.C13

/-- The rational value of the entry `A[i][j]` of a numeric matrix (`0` outside the matrix). -/
def val (A : EMat) (i j : Nat) : Rat := gE (fun _ => 0) A i j

theorem gM_eq_num_val {A : EMat} (h : NumM A) (i j : Nat) :
    gM (Entry.num 0) A i j = Entry.num (val A i j) := by
  obtain ⟨q, hq⟩ := numM_gM h i j
  simp [val, gE, hq, Entry.eval]

theorem isZero_iff_val {A : EMat} (h : NumM A) (i j : Nat) :
    (gM (Entry.num 0) A i j).isZero = true ↔ val A i j = 0 := by
  rw [gM_eq_num_val h i j]; simp [Entry.isZero]

theorem isZero_false_iff_val {A : EMat} (h : NumM A) (i j : Nat) :
    (gM (Entry.num 0) A i j).isZero = false ↔ val A i j ≠ 0 := by
  rw [gM_eq_num_val h i j]; simp [Entry.isZero]

theorem nz_iff_val {A : EMat} (h : NumM A) (i j : Nat) : nz A i j = true ↔ val A i j ≠ 0 := by
  unfold nz; rw [gM_eq_num_val h i j]; simp [Entry.isZero]

/-- `e` is a number. -/
abbrev IsNum (e : Entry) : Prop := Entry.SymIn (fun _ => False) e

theorem isNum_cases {e : Entry} (h : IsNum e) : ∃ q, e = Entry.num q := by
  cases e with
  | num q => exact ⟨q, rfl⟩
  | sym q s => exact absurd h (by simp [IsNum, Entry.SymIn])

theorem addEntry_num {f : Rat} {t s : Entry} (ht : IsNum t) (hs : IsNum s) :
    ∃ e, addEntry f t s = some e := by
  obtain ⟨a, rfl⟩ := isNum_cases ht
  obtain ⟨b, rfl⟩ := isNum_cases hs
  exact ⟨_, rfl⟩

theorem addLine_num (f : Rat) : ∀ (ts ss : List Entry), (∀ e ∈ ts, IsNum e) → (∀ e ∈ ss, IsNum e) →
    ∃ r, addLine f ts ss = some r
  | [], _, _, _ => ⟨[], by simp [addLine]⟩
  | _ :: _, [], _, _ => ⟨[], by simp [addLine]⟩
  | t :: ts, s :: ss, h1, h2 => by
    obtain ⟨e, he⟩ := addEntry_num (f := f) (h1 t (by simp)) (h2 s (by simp))
    obtain ⟨r, hr⟩ := addLine_num f ts ss (fun e he => h1 e (by simp [he])) (fun e he => h2 e (by simp [he]))
    exact ⟨e :: r, by simp [addLine, he, hr]⟩

theorem numM_getD {A : EMat} (h : NumM A) (i : Nat) : ∀ e ∈ A.getD i [], IsNum e := by
  intro e he
  by_cases hi : i < A.length
  · have hm : A.getD i [] ∈ A := by
      rw [List.getD_eq_getElem?_getD, List.getElem?_eq_getElem hi]; exact List.getElem_mem hi
    exact h _ hm e he
  · have hn : A[i]? = none := List.getElem?_eq_none (by omega)
    simp [List.getD_eq_getElem?_getD, hn] at he

theorem rowAddRaw_num {A : EMat} (h : NumM A) (t s : Nat) (f : Rat) :
    ∃ p, rowAddRaw A t s f = some p := by
  obtain ⟨r, hr⟩ := addLine_num f (A.getD t []) (A.getD s []) (numM_getD h t) (numM_getD h s)
  exact ⟨(A.set t r, r.all Entry.isZero), by simp only [rowAddRaw, hr]⟩

theorem addCol_num (f : Rat) (t s : Nat) : ∀ (A : EMat), NumM A → ∃ c, addCol f t s A = some c
  | [], _ => ⟨[], rfl⟩
  | row :: rest, h => by
    have hrow : ∀ e ∈ row, IsNum e := fun e he => h row (by simp) e he
    obtain ⟨e, he⟩ := addEntry_num (f := f) (allE_getD (P := IsNum) trivial hrow t)
      (allE_getD (P := IsNum) trivial hrow s)
    obtain ⟨c, hc⟩ := addCol_num f t s rest (fun r hr => h r (by simp [hr]))
    exact ⟨e :: c, by simp only [addCol, he, hc]⟩

theorem colAddRaw_num {A : EMat} (h : NumM A) (t s : Nat) (f : Rat) :
    ∃ p, colAddRaw A t s f = some p := by
  obtain ⟨c, hc⟩ := addCol_num f t s A h
  exact ⟨(List.zipWith (fun row e => row.set t e) A c, c.all Entry.isZero), by simp only [colAddRaw, hc]⟩

/-- `row_add` on a numeric matrix always acts: row `t` becomes `row t + f · row s`. -/
theorem rowAdd_val (n : Nat) (st : St) (t s : Nat) (f : Rat) (hws : WS n st) (hnum : NumM st.A)
    (ht : t < st.A.length) (hs : s < st.A.length) (k l : Nat) :
    val (st.rowAdd t s f).1.A k l =
      if k = t then val st.A t l + f * val st.A s l else val st.A k l := by
  obtain ⟨⟨A', z⟩, hp⟩ := rowAddRaw_num hnum t s f
  obtain ⟨_, _, h3, _⟩ := rowAddRaw_spec (fun _ => 0) hp hws.Arect ht hs
  simp only [St.rowAdd, hp, val]
  exact h3 k l

/-- `col_add` on a numeric matrix always acts: column `t` becomes `col t + f · col s`. -/
theorem colAdd_val (n : Nat) (st : St) (t s : Nat) (f : Rat) (hws : WS n st) (hnum : NumM st.A)
    (ht : t < st.R.length) (k l : Nat) :
    val (st.colAdd t s f).1.A k l =
      if l = t then val st.A k t + f * val st.A k s else val st.A k l := by
  obtain ⟨⟨A', z⟩, hp⟩ := colAddRaw_num hnum t s f
  obtain ⟨_, _, h3, _⟩ := colAddRaw_spec (fun _ => 0) hp hws.Arect ht
  simp only [St.colAdd, hp, val]
  exact h3 k l

theorem numM_rowElimInner (i : Nat) (pivot : Entry) (acc : St × List Nat) (j : Nat)
    (h : NumM acc.1.A) : NumM (rowElimInner i pivot acc j).1.A := by
  unfold rowElimInner
  simp only
  split
  · split
    · exact h
    · apply sym_rowAdd
      split
      · rw [raise_A]; exact h
      · exact h
  · exact h

theorem numM_colElimInner (j : Nat) (pivot : Entry) (acc : St × List Nat) (i : Nat)
    (h : NumM acc.1.A) : NumM (colElimInner j pivot acc i).1.A := by
  unfold colElimInner
  simp only
  split
  · split
    · exact h
    · apply sym_colAdd
      split
      · rw [raise_A]; exact h
      · exact h
  · exact h

theorem rat_elim (a e p x : Rat) : a + (-e) / p * x = a - e / p * x := by
  rw [Rat.div_def, Rat.div_def]; grind

/-- One pass of the inner loop of `row_elimination` on a numeric matrix: row `j ≠ i` becomes
    `row j − (A[j][i] / pivot) · row i` (nothing happens if `A[j][i] = 0`). -/
theorem rowElimInner_val (n i j : Nat) (p : Rat) (acc : St × List Nat) (hws : WS n acc.1)
    (hnum : NumM acc.1.A) (hi : i < acc.1.A.length) (hj : j < acc.1.A.length) (k l : Nat) :
    val (rowElimInner i (Entry.num p) acc j).1.A k l =
      if k = j ∧ j ≠ i then val acc.1.A j l - val acc.1.A j i / p * val acc.1.A i l
      else val acc.1.A k l := by
  unfold rowElimInner
  simp only
  rw [gM_eq_num_val hnum j i]
  by_cases hc : j ≠ i ∧ (!(Entry.num (val acc.1.A j i)).isZero) = true
  · rw [if_pos hc]
    simp only [elimFactor]
    generalize hst : (if decide (p = 0) = true then acc.1.raise Flag.zeroDiv else acc.1) = st'
    have hA : st'.A = acc.1.A := by subst hst; split <;> simp
    have hL : st'.L = acc.1.L := by subst hst; split <;> simp
    have hR : st'.R = acc.1.R := by subst hst; split <;> simp
    have ws' : WS n st' := (rowRel_of_eq hL hA hR hws).1
    have := rowAdd_val n st' j i (-val acc.1.A j i / p) ws' (hA ▸ hnum) (hA ▸ hj) (hA ▸ hi) k l
    simp only [hA] at this
    rw [this]
    by_cases hk : k = j
    · subst hk
      simp only [if_true, hc.1, and_self, ne_eq, not_false_eq_true]
      exact rat_elim _ _ _ _
    · simp [hk]
  · rw [if_neg hc]
    by_cases hk : k = j ∧ j ≠ i
    · rw [if_pos hk]
      obtain ⟨rfl, hji⟩ := hk
      have hz : val acc.1.A k i = 0 := by
        by_cases hne : val acc.1.A k i = 0
        · exact hne
        · exact absurd ⟨hji, by simp [Entry.isZero, hne]⟩ hc
      rw [hz, Rat.div_def]; grind
    · rw [if_neg hk]

/-- Mirror image for `column_elimination`: column `i ≠ j` becomes `col i − (A[j][i] / pivot) · col j`. -/
theorem colElimInner_val (n j i : Nat) (p : Rat) (acc : St × List Nat) (hws : WS n acc.1)
    (hnum : NumM acc.1.A) (hi : i < acc.1.R.length) (k l : Nat) :
    val (colElimInner j (Entry.num p) acc i).1.A k l =
      if l = i ∧ i ≠ j then val acc.1.A k i - val acc.1.A j i / p * val acc.1.A k j
      else val acc.1.A k l := by
  unfold colElimInner
  simp only
  rw [gM_eq_num_val hnum j i]
  by_cases hc : i ≠ j ∧ (!(Entry.num (val acc.1.A j i)).isZero) = true
  · rw [if_pos hc]
    simp only [elimFactor]
    generalize hst : (if decide (p = 0) = true then acc.1.raise Flag.zeroDiv else acc.1) = st'
    have hA : st'.A = acc.1.A := by subst hst; split <;> simp
    have hL : st'.L = acc.1.L := by subst hst; split <;> simp
    have hR : st'.R = acc.1.R := by subst hst; split <;> simp
    have ws' : WS n st' := (colRel_of_eq hL hA hR hws).1
    have := colAdd_val n st' i j (-val acc.1.A j i / p) ws' (hA ▸ hnum) (hR ▸ hi) k l
    simp only [hA] at this
    rw [this]
    by_cases hl : l = i
    · subst hl
      simp only [if_true, hc.1, and_self, ne_eq, not_false_eq_true]
      exact rat_elim _ _ _ _
    · simp [hl]
  · rw [if_neg hc]
    by_cases hl : l = i ∧ i ≠ j
    · rw [if_pos hl]
      obtain ⟨rfl, hij⟩ := hl
      have hz : val acc.1.A j l = 0 := by
        by_cases hne : val acc.1.A j l = 0
        · exact hne
        · exact absurd ⟨hij, by simp [Entry.isZero, hne]⟩ hc
      rw [hz, Rat.div_def]; grind
    · rw [if_neg hl]

theorem val_oob_row {A : EMat} {r : Nat} (h : A.length ≤ r) (c : Nat) : val A r c = 0 := by
  have hn : A[r]? = none := List.getElem?_eq_none h
  simp [val, gE_def, hn, Entry.eval]

theorem val_oob_col {A : EMat} {w : Nat} (hA : Rect A w) {c : Nat} (h : w ≤ c) (r : Nat) :
    val A r c = 0 := by
  simp only [val, gE_def]
  cases hr : A[r]? with
  | none => simp [Entry.eval]
  | some row =>
    have : row.length = w := hA row (List.mem_of_getElem? hr)
    have hn : row[c]? = none := List.getElem?_eq_none (by omega)
    simp [hn, Entry.eval]

theorem val_rowSwap (A : EMat) (a b : Nat) (ha : a < A.length) (hb : b < A.length) (r c : Nat) :
    val (rowSwapM A a b) r c = val A (swapIdx a b r) c := by
  simp only [val, gE, gM_rowSwap _ _ _ _ _ _ ha hb]

theorem val_colSwap (A : EMat) (w a b : Nat) (hA : Rect A w) (ha : a < w) (hb : b < w) (r c : Nat) :
    val (colSwapM A a b) r c = val A r (swapIdx a b c) := by
  simp only [val, gE, gM_colSwap _ _ w _ _ _ _ hA ha hb]

theorem numM_rowPivot (i : Nat) (s : St) (h : NumM s.A) : NumM (rowPivot i s).A := by
  unfold rowPivot
  split
  · split
    · exact allE_rowSwap h _ _
    · exact h
  · exact h

theorem numM_colPivot (j : Nat) (s : St) (h : NumM s.A) : NumM (colPivot j s).A := by
  unfold colPivot
  split
  · split
    · exact allE_colSwap h _ _
    · exact h
  · exact h

/-- The pivot search of `row_elimination`: nothing happens, or rows `i` and `j > i` are swapped where
    `A[i][i] = 0 ≠ A[j][i]`. -/
theorem rowPivot_cases (i : Nat) (s : St) (hnum : NumM s.A) :
    (rowPivot i s = s ∧ (val s.A i i ≠ 0 ∨ ∀ r, i ≤ r → val s.A r i = 0)) ∨
    (∃ j, i < j ∧ j < s.A.length ∧ val s.A i i = 0 ∧ val s.A j i ≠ 0 ∧ rowPivot i s = s.rowSwap i j) := by
  unfold rowPivot
  split
  · rename_i hz
    have hz' := (isZero_iff_val hnum i i).1 hz
    split
    · rename_i j hj
      right
      have hm := List.mem_of_find?_eq_some hj
      have hp := List.find?_some hj
      simp only [List.mem_range'_1] at hm
      refine ⟨j, by omega, by omega, hz', ?_, rfl⟩
      have : (gM (Entry.num 0) s.A j i).isZero = false := by simpa using hp
      exact (isZero_false_iff_val hnum j i).1 this
    · rename_i hnone
      left
      refine ⟨rfl, Or.inr ?_⟩
      intro r hr
      by_cases hri : r = i
      · subst hri; exact hz'
      · by_cases hrl : r < s.A.length
        · have := List.find?_eq_none.1 hnone r (by simp only [List.mem_range'_1]; omega)
          have hzr : (gM (Entry.num 0) s.A r i).isZero = true := by simpa using this
          exact (isZero_iff_val hnum r i).1 hzr
        · exact val_oob_row (by omega) i
  · rename_i hnz
    left
    refine ⟨rfl, Or.inl ?_⟩
    have : (gM (Entry.num 0) s.A i i).isZero = false := by simpa using hnz
    exact (isZero_false_iff_val hnum i i).1 this

end Ptn.C12
