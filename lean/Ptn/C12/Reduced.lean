import Ptn.C13.Model
import Ptn.C13.Views
import Ptn.C13.EntryLemmas
import Ptn.C13.Symbols
import Ptn.C14.Props
/-! C12, numeric case (core Lean only): the non-zero pattern of a reduced coefficient matrix, "fully
reduced" (= partial permutation pattern), and the vertex covers of such a pattern.

`nz A i j` is the Python test `Gamma_u[i][j] != 0`, `suppEdges A` the edge list
`[(i, j) for i in range(m) for j in range(n) if Gamma_u[i][j] != 0]` that
`StateDiagram._apply_bipartite_to_gamma_u` hands to `BipartiteGraph(m, n, edges)`. -/
namespace Ptn.C12
open Ptn.C13

/-- `A[i][j] != 0` (out-of-range positions read as `0`). -/
def nz (A : EMat) (i j : Nat) : Bool := !(gM (Entry.num 0) A i j).isZero

/-- The edge list of the bipartite graph of the reduced matrix. -/
def suppEdges (A : EMat) : List (Nat × Nat) :=
  (List.range A.length).flatMap fun i =>
    ((List.range (width A)).filter fun j => nz A i j).map fun j => (i, j)

/-- At most one non-zero entry in every row and in every column: the non-zero pattern is a partial
    permutation matrix. -/
def FullyReduced (A : EMat) : Prop :=
  (∀ i j j', nz A i j = true → nz A i j' = true → j = j') ∧
  (∀ i i' j, nz A i j = true → nz A i' j = true → i = i')

instance (A : EMat) (i j : Nat) : Decidable (nz A i j = true) := inferInstance

theorem mem_suppEdges (A : EMat) (p : Nat × Nat) :
    p ∈ suppEdges A ↔ p.1 < A.length ∧ p.2 < width A ∧ nz A p.1 p.2 = true := by
  obtain ⟨i, j⟩ := p
  simp only [suppEdges, List.mem_flatMap, List.mem_range, List.mem_map, List.mem_filter,
    Prod.mk.injEq]
  constructor
  · rintro ⟨a, ha, b, ⟨hb, hnz⟩, rfl, rfl⟩
    exact ⟨ha, hb, hnz⟩
  · rintro ⟨h1, h2, h3⟩
    exact ⟨i, h1, j, ⟨h2, h3⟩, rfl, rfl⟩

theorem suppEdges_fst_nodup (A : EMat) (h : FullyReduced A) : ((suppEdges A).map Prod.fst).Nodup := by
  unfold List.Nodup
  rw [List.pairwise_map]
  unfold suppEdges
  rw [List.pairwise_flatMap]
  refine ⟨?_, ?_⟩
  · intro i _
    rw [List.pairwise_map]
    have hlt : ((List.range (width A)).filter fun j => nz A i j).Pairwise (· < ·) :=
      List.Pairwise.filter _ List.pairwise_lt_range
    refine List.Pairwise.imp_of_mem ?_ hlt
    intro a b ha hb hab
    have ha' := (List.mem_filter.1 ha).2
    have hb' := (List.mem_filter.1 hb).2
    have := h.1 i a b ha' hb'
    omega
  · refine List.Pairwise.imp ?_ List.pairwise_lt_range
    intro a b hab x hx y hy
    simp only [List.mem_map, List.mem_filter] at hx hy
    obtain ⟨_, _, rfl⟩ := hx
    obtain ⟨_, _, rfl⟩ := hy
    simp only
    omega

theorem suppEdges_snd_nodup (A : EMat) (h : FullyReduced A) : ((suppEdges A).map Prod.snd).Nodup := by
  unfold List.Nodup
  rw [List.pairwise_map]
  unfold suppEdges
  rw [List.pairwise_flatMap]
  refine ⟨?_, ?_⟩
  · intro i _
    rw [List.pairwise_map]
    have hlt : ((List.range (width A)).filter fun j => nz A i j).Pairwise (· < ·) :=
      List.Pairwise.filter _ List.pairwise_lt_range
    refine List.Pairwise.imp ?_ hlt
    intro a b hab
    simp only
    omega
  · refine List.Pairwise.imp ?_ List.pairwise_lt_range
    intro a b hab x hx y hy
    simp only [List.mem_map, List.mem_filter] at hx hy
    obtain ⟨j, ⟨_, hj⟩, rfl⟩ := hx
    obtain ⟨j', ⟨_, hj'⟩, rfl⟩ := hy
    simp only
    intro e
    subst e
    have := h.2 a b j hj hj'
    omega

/-- The non-zero entries of a fully reduced matrix form a matching of its support graph. -/
theorem suppEdges_isMatching (A : EMat) (h : FullyReduced A) :
    Ptn.C14.IsMatching (fun i j => nz A i j = true) (suppEdges A) :=
  ⟨fun p hp => ((mem_suppEdges A p).1 hp).2.2, suppEdges_fst_nodup A h, suppEdges_snd_nodup A h⟩

end Ptn.C12

namespace Ptn.C12
open Ptn.C13

/-- A non-zero entry of a rectangular matrix is at an in-range position. -/
theorem nz_in_range {A : EMat} {n : Nat} (hrect : Rect A n) {i j : Nat} (h : nz A i j = true) :
    i < A.length ∧ j < n := by
  unfold nz at h
  rw [gM_def] at h
  by_cases hi : i < A.length
  · refine ⟨hi, ?_⟩
    have hrow : A[i].length = n := hrect _ (List.getElem_mem hi)
    by_cases hj : j < n
    · exact hj
    · simp [List.getElem?_eq_getElem hi, List.getElem?_eq_none (by omega : A[i].length ≤ j),
        Entry.isZero] at h
  · simp [List.getElem?_eq_none (by omega : A.length ≤ i), Entry.isZero] at h

/-- The rows that carry a non-zero entry cover the support. -/
theorem suppEdges_rows_cover (A : EMat) (n : Nat) (hpos : 0 < A.length) (hrect : Rect A n) :
    Ptn.C14.IsCover (fun i j => nz A i j = true) ((suppEdges A).map Prod.fst) [] := by
  intro i j hij
  left
  obtain ⟨hi, hj⟩ := nz_in_range hrect hij
  have hw : width A = n := width_of_rect hrect hpos
  exact List.mem_map.2 ⟨(i, j), (mem_suppEdges A (i, j)).2 ⟨hi, by rw [hw]; exact hj, hij⟩, rfl⟩

/-- `Γ` of `sge_numeric_not_fully_reduced`: rank 2, two zero columns. -/
def exNotReduced : EMat :=
  [[.num 0, .num 0, .num 0, .num (-1)], [.num 0, .num 0, .num 1, .num 0],
   [.num 0, .num 0, .num (-1), .num (-1)]]

/-- A 3 × 3 numeric matrix of rank 2 without zero rows / columns. -/
def exRank2 : EMat :=
  [[.num 1, .num 2, .num 0], [.num 2, .num 4, .num 1], [.num 3, .num 6, .num 1]]

/-- No symbolic entry. -/
def NumM (A : EMat) : Prop := AllE (Entry.SymIn (fun _ => False)) A

theorem numM_gM {A : EMat} (h : NumM A) (i j : Nat) : ∃ q, gM (Entry.num 0) A i j = Entry.num q := by
  have : Entry.SymIn (fun _ => False) (gM (Entry.num 0) A i j) := by
    unfold gM
    by_cases hi : i < A.length
    · have hm : A.getD i [] ∈ A := by
        rw [List.getD_eq_getElem?_getD, List.getElem?_eq_getElem hi]; exact List.getElem_mem hi
      exact allE_getD trivial (h _ hm) j
    · have hn : A[i]? = none := List.getElem?_eq_none (by omega)
      simp [List.getD_eq_getElem?_getD, hn, Entry.SymIn]
  cases hg : gM (Entry.num 0) A i j with
  | num q => exact ⟨q, rfl⟩
  | sym q s => rw [hg] at this; exact absurd this (by simp [Entry.SymIn])

theorem numM_nesm {A : EMat} (h : NumM A) : NESM A := by
  intro r hr e he
  have := h r hr e he
  cases e with
  | num q => trivial
  | sym q s => exact absurd this (by simp [Entry.SymIn])

end Ptn.C12
