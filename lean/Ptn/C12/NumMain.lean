import Ptn.C12.NumPass
/-! C12, numeric case (core Lean only): the last pass of the fixed-point loop of
`gaussian_elimination` deletes nothing; if the returned matrix has no zero row and no zero column it is
square and diagonal with non-zero diagonal. -/
namespace Ptn.C12
open Ptn.C13

/-- Some row `r < m` is zero. -/
def HasZeroRow (A : EMat) (m : Nat) : Prop := ∃ r, r < m ∧ ∀ c, val A r c = 0

/-- Square, and every row is a unit row with its non-zero entry on the diagonal. -/
def DiagNZ (s : St) : Prop := s.A.length = s.R.length ∧ ∀ r, r < s.A.length → Prow s.A r

/-- What the analysis of one pass yields: without zero lines the matrix is diagonal. -/
def PassGoal (s : St) : Prop :=
  ¬ HasZeroCol s.A s.R.length → ¬ HasZeroRow s.A s.A.length → DiagNZ s

/-- **A pass `row_elimination; column_elimination` that deletes nothing** (numeric matrix): if its
    result has no zero row and no zero column, the result is square and diagonal with non-zero
    diagonal entries. -/
theorem numeric_pass_diagonal (n : Nat) (s : St) (hws : WS n s) (hnum : NumM s.A)
    (hrows : (columnElimination (rowElimination s)).A.length = s.A.length)
    (hcols : (columnElimination (rowElimination s)).R.length = s.R.length) :
    PassGoal (columnElimination (rowElimination s)) := by
  intro hzc hzr
  obtain ⟨wsB, hRB, _, hleB, _⟩ := rowRel_rowElimination n s hws
  obtain ⟨ws2, _, hA2, hle2, _⟩ := colRel_columnElimination n (rowElimination s) wsB
  have hBlen : (rowElimination s).A.length = s.A.length := by omega
  have hBR : (rowElimination s).R.length = s.R.length := by rw [hRB]
  have numB : NumM (rowElimination s).A := sym_rowElimLoop _ _ _ hnum
  -- row phase
  have hJ : ∀ c, c < min s.A.length s.R.length →
      Pcol (rowElimination s).A c ∨ Zcol (rowElimination s).A c := by
    have := rowElimLoop_nodel n (min s.A.length (width s.A)) 0 s hws hnum hBlen
      (by rw [width_eq hws]; omega) (fun c hc => absurd hc (by omega))
    exact this
  -- column phase
  have hcol := colElimLoop_nodel n (min (rowElimination s).A.length (width (rowElimination s).A)) 0
    (rowElimination s) wsB numB (by show (columnElimination (rowElimination s)).R.length = _; omega)
    (by rw [width_eq wsB]; omega) (fun r hr => absurd hr (by omega))
    (by rw [hBlen, hBR]; exact hJ)
    (by rw [hBR, ← hcols]; exact hzc)
  have hcol' : (∀ r, r < min (rowElimination s).A.length (rowElimination s).R.length →
        Prow (columnElimination (rowElimination s)).A r) ∧
      (∀ c, c < min (rowElimination s).A.length (rowElimination s).R.length →
        Pcol (columnElimination (rowElimination s)).A c ∨
        Zcol (columnElimination (rowElimination s)).A c) := hcol
  rw [hBlen, hBR] at hcol'
  obtain ⟨hrowsP, hcolsS⟩ := hcol'
  -- square
  have hsq : s.A.length = s.R.length := by
    apply Nat.le_antisymm
    · -- more rows than columns: row `w` would be zero
      apply Nat.le_of_not_lt
      intro hlt
      apply hzr
      refine ⟨s.R.length, by omega, fun c => ?_⟩
      by_cases hc : c < s.R.length
      · rcases hcolsS c (by omega) with h | h
        · exact h.2 _ (by omega)
        · exact h _ (by omega)
      · exact val_oob_col ws2.Arect (by omega) _
    · -- more columns than rows: column `m` would be zero
      apply Nat.le_of_not_lt
      intro hlt
      apply hzc
      refine ⟨s.A.length, by omega, fun r => ?_⟩
      by_cases hr : r < s.A.length
      · exact (hrowsP r (by omega)).2 _ (by omega)
      · exact val_oob_row (by omega) _
  exact ⟨by omega, fun r hr => hrowsP r (by omega)⟩

theorem raise_flag_ne_ok (s : St) : (s.raise Flag.fuel).flag ≠ Flag.ok := by
  unfold St.raise
  split
  · simp
  · assumption

/-- **The fixed-point loop ends after a pass that deleted nothing**: the state it returns (without
    having run out of fuel) satisfies whatever such a pass guarantees. -/
theorem mainLoop_last_pass (n : Nat) : ∀ (fuel nr nro nc nco : Nat) (s : St), WS n s → NumM s.A →
    s.A.length ≤ nr → s.R.length ≤ nc →
    ((nr = nro ∧ nc = nco) → PassGoal s) →
    (mainLoop fuel nr nro nc nco s).flag = Flag.ok → PassGoal (mainLoop fuel nr nro nc nco s) := by
  intro fuel
  induction fuel with
  | zero =>
    intro nr nro nc nco s _ _ _ _ hstop hflag
    unfold mainLoop at hflag ⊢
    split
    · rename_i hc
      rw [if_pos hc] at hflag
      exact absurd hflag (raise_flag_ne_ok s)
    · rename_i hc
      exact hstop (by omega)
  | succ fuel ih =>
    intro nr nro nc nco s hws hnum hr hc hstop hflag
    unfold mainLoop at hflag ⊢
    split
    · rename_i hcond
      rw [if_pos hcond] at hflag
      simp only at hflag ⊢
      obtain ⟨wsB, hRB, _, hleB, _⟩ := rowRel_rowElimination n s hws
      obtain ⟨ws2, _, hA2, hle2, _⟩ := colRel_columnElimination n (rowElimination s) wsB
      have num2 : NumM (columnElimination (rowElimination s)).A :=
        sym_colElimLoop _ _ _ (sym_rowElimLoop _ _ _ hnum)
      have hw2 : width (columnElimination (rowElimination s)).A =
          (columnElimination (rowElimination s)).R.length := width_eq ws2
      rw [hw2] at hflag ⊢
      refine ih _ _ _ _ _ ws2 num2 (Nat.le_refl _) (Nat.le_refl _) ?_ hflag
      intro ⟨e1, e2⟩
      rw [hRB] at hle2
      exact numeric_pass_diagonal n s hws hnum (by omega) (by omega)
    · rename_i hcond
      exact hstop (by omega)

/-- The state at the `return` of `gaussian_elimination` on a numeric rectangular matrix, if no
    abnormal event was recorded: without zero lines it is square and diagonal. -/
theorem gaussSt_passGoal (M : EMat) (n : Nat) (hpos : 0 < M.length) (hrect : Rect M n) (hnum : NumM M)
    (hflag : (gaussSt M).flag = Flag.ok) : PassGoal (gaussSt M) := by
  have hnes := numM_nesm hnum
  have g0 := good_init M n hpos hrect
  have g1 := good_of_rowRel g0 (rowRel_deparallelizeRows n _ hnes)
  have hnes1 := nesm_deparallelizeRows n _ g0.ws hnes
  have g2 := good_of_colRel g1 (colRel_deparallelizeCols n _ hnes1)
  have num2 : NumM (deparallelizeCols (deparallelizeRows
      { L := identity M.length, A := M, R := identity n, flag := .ok })).A :=
    sym_deparallelizeCols _ (sym_deparallelizeRows _ hnum)
  unfold gaussSt at hflag ⊢
  simp only at hflag ⊢
  rw [width_of_rect hrect hpos] at hflag ⊢
  exact mainLoop_last_pass n _ _ _ _ _ _ g2.ws num2 g2.rows_le g2.cols_le
    (fun h => absurd h.1 (by omega)) hflag

/-- A square diagonal numeric matrix with non-zero diagonal: where the non-zero entries are. -/
theorem diagNZ_nz {s : St} (hnum : NumM s.A) (h : DiagNZ s) (i j : Nat) :
    nz s.A i j = true ↔ (i = j ∧ i < s.A.length) := by
  rw [nz_iff_val hnum]
  constructor
  · intro hne
    by_cases hi : i < s.A.length
    · refine ⟨?_, hi⟩
      by_cases hij : j = i
      · exact hij.symm
      · exact absurd ((h.2 i hi).2 j hij) hne
    · exact absurd (val_oob_row (by omega) j) hne
  · rintro ⟨rfl, hi⟩
    exact (h.2 i hi).1

end Ptn.C12
