import Ptn.C12.Model
import Ptn.C01.Driver
/-! Line-protocol handler for the C12 model (core Lean only).  Request bodies as for C01.

  basebonds   … → `<parent>-<child>:<vertices>` for every edge (child index order) of the uncompressed
                  diagram, joined by ' ' ; `-` for a single-node tree
  singlebonds … → the same for the single-term diagram of the first term -/
namespace Ptn.C12
open Ptn.C01

def bondsStr (r : Req) (bs : List (Nat × Nat)) : String :=
  let items := (List.range r.n).filterMap fun c =>
    match bs.lookup c with
    | some k => some s!"{r.par.getD c 0}-{c}:{k}"
    | none => none
  if items.isEmpty then "-" else " ".intercalate items

def handle (args : List String) : String :=
  match args with
  | "basebonds" :: body =>
    match parseReq body with
    | some r =>
      match baseBonds r.tree r.terms with
      | some bs => bondsStr r bs
      | none => "bad-op"
    | none => "bad-op"
  | "singlebonds" :: body =>
    match parseReq body with
    | some r =>
      match r.terms with
      | tm :: _ => bondsStr r (singleBonds r.tree tm)
      | [] => "bad-op"
    | none => "bad-op"
  | _ => "bad-op"

end Ptn.C12
