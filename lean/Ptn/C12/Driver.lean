import Ptn.C12.Model
/-! Line-protocol handler for the C12 model (core Lean only). -/
namespace Ptn.C12
def handle (args : List String) : String := "bad-op"
end Ptn.C12
