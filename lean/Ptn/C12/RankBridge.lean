import Ptn.C12.Rank
import Ptn.C12.Reduced
import Ptn.C13.Props
/-! C12, numeric case: bridge between the list-level model of `gaussian_elimination` (property C13) and
Mathlib matrices over ℚ. -/
namespace Ptn.C12
open Ptn.C13 Finset

/-- The `p × q` rational matrix of an operator matrix. -/
def ratMat (X : RMat) (p q : Nat) : Matrix (Fin p) (Fin q) ℚ := fun i j => gR X i j

/-- The `p × q` rational matrix of a (numeric) coefficient matrix. -/
def numMat (A : EMat) (p q : Nat) : Matrix (Fin p) (Fin q) ℚ := fun i j => gE (fun _ => 0) A i j

theorem sumN_eq_sum (n : Nat) (f : Nat → Rat) : sumN n f = ∑ i : Fin n, f i := by
  induction n with
  | zero => simp [sumN]
  | succ n ih => rw [Fin.sum_univ_castSucc, sumN, ih]; simp

/-- For a numeric matrix the Python test `!= 0` is "the rational entry is not zero". -/
theorem nz_iff_numMat {A : EMat} (h : NumM A) (p q : Nat) (i : Fin p) (j : Fin q) :
    nz A i j = true ↔ numMat A p q i j ≠ 0 := by
  obtain ⟨x, hx⟩ := numM_gM h i j
  simp [nz, numMat, gE, hx, Entry.isZero, Entry.eval]

theorem mfullyReduced_numMat {A : EMat} (h : NumM A) (hr : FullyReduced A) (p q : Nat) :
    MFullyReduced (numMat A p q) := by
  refine ⟨?_, ?_⟩
  · intro i j j' h1 h2
    exact Fin.ext (hr.1 i j j' ((nz_iff_numMat h p q i j).2 h1) ((nz_iff_numMat h p q i j').2 h2))
  · intro i i' j h1 h2
    exact Fin.ext (hr.2 i i' j ((nz_iff_numMat h p q i j).2 h1) ((nz_iff_numMat h p q i' j).2 h2))

/-- The factorisation `Γ = L · M' · R` returned by the model, as an equation of Mathlib matrices. -/
theorem numMat_factor (M : EMat) (n : Nat) (hpos : 0 < M.length) (hrect : Rect M n) (hnum : NumM M)
    (L : RMat) (A : EMat) (R : RMat) (h : gaussianElimination M = .ok L A R) :
    numMat M M.length n = ratMat L M.length A.length * numMat A A.length R.length * ratMat R R.length n := by
  obtain ⟨_, _, hex⟩ := sge_exact M n hpos hrect (numM_nesm hnum) L A R h
  ext i j
  rw [Matrix.mul_apply]
  simp only [Matrix.mul_apply, numMat, ratMat]
  rw [← hex (fun _ => 0) i j i.2 j.2, sumN_eq_sum]
  simp only [sumN_eq_sum, Finset.sum_mul]
  exact Finset.sum_comm

theorem rank_numMat_le (M : EMat) (n : Nat) (hpos : 0 < M.length) (hrect : Rect M n) (hnum : NumM M)
    (L : RMat) (A : EMat) (R : RMat) (h : gaussianElimination M = .ok L A R) :
    (numMat M M.length n).rank ≤ (numMat A A.length R.length).rank := by
  rw [numMat_factor M n hpos hrect hnum L A R h]
  exact (Matrix.rank_mul_le_left _ _).trans (Matrix.rank_mul_le_right _ _)

/-- Number of non-zero entries of a fully reduced numeric matrix = its rank. -/
theorem length_suppEdges_eq_rank (A : EMat) (hnum : NumM A) (hr : FullyReduced A) :
    (suppEdges A).length = (numMat A A.length (width A)).rank := by
  apply Nat.le_antisymm
  · -- the non-zero positions span a diagonal submatrix
    have hm : ∀ k : Fin (suppEdges A).length, (suppEdges A)[k] ∈ suppEdges A := fun k => List.getElem_mem k.2
    let r : Fin (suppEdges A).length → Fin A.length :=
      fun k => ⟨(suppEdges A)[k].1, ((mem_suppEdges A _).1 (hm k)).1⟩
    let c : Fin (suppEdges A).length → Fin (width A) :=
      fun k => ⟨(suppEdges A)[k].2, ((mem_suppEdges A _).1 (hm k)).2.1⟩
    have hnzk : ∀ k, nz A (r k) (c k) = true := fun k => ((mem_suppEdges A _).1 (hm k)).2.2
    have := card_le_rank_of_diag (numMat A A.length (width A)) r c
      (fun k => (nz_iff_numMat hnum _ _ (r k) (c k)).1 (hnzk k))
      (by
        intro s t hst
        by_contra hne
        have h1 := (nz_iff_numMat hnum _ _ (r s) (c t)).2 hne
        have e2 : (r s).val = (r t).val := hr.2 _ _ _ h1 (hnzk t)
        apply hst
        have hnd := suppEdges_fst_nodup A hr
        have := (List.nodup_iff_injective_getElem.1 hnd)
          (a₁ := ⟨s.val, by simp⟩) (a₂ := ⟨t.val, by simp⟩) (by simpa [r] using e2)
        exact Fin.ext (by simpa using this))
    simpa using this
  · -- the rows carrying a non-zero entry are a cover
    let Cu : Finset (Fin A.length) := univ.filter fun i => i.val ∈ (suppEdges A).map Prod.fst
    have hc : Ptn.C01.IsCover (numMat A A.length (width A)) Cu ∅ := by
      intro i j hne
      left
      have h1 := (nz_iff_numMat hnum _ _ i j).2 hne
      simp only [Cu, mem_filter, mem_univ, true_and]
      exact List.mem_map.2 ⟨(i.val, j.val), (mem_suppEdges A _).2 ⟨i.2, j.2, h1⟩, rfl⟩
    have h1 := rank_le_cover _ Cu ∅ hc
    have h2 : Cu.card ≤ ((suppEdges A).map Prod.fst).toFinset.card := by
      apply Finset.card_le_card_of_injOn (fun i => i.val)
      · intro i hi
        simp only [Cu, coe_filter, mem_univ, true_and] at hi
        simpa using hi
      · intro a _ b _ e
        exact Fin.ext e
    have h3 := List.toFinset_card_le ((suppEdges A).map Prod.fst)
    simp only [card_empty, List.length_map] at h1 h3
    omega

end Ptn.C12
