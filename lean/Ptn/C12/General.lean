import Ptn.C12.NumRank
/-! C12, numeric case with zero rows / columns allowed (builder B69): patterns with at most one
non-zero entry per row (columns may carry several) or per column (rows may carry several) - the shape
of the witness `sge_numeric_not_fully_reduced` - have a cover with `rank` vertices: the non-zero
columns (resp. rows). -/
namespace Ptn.C12
open Ptn.C13 Finset

/-- Over a field: if every row has at most one non-zero entry, then every duplicate-free list of
    non-zero columns is at most as long as the rank (the chosen entries form a diagonal submatrix). -/
theorem length_le_rank_of_row_single {F : Type*} [Field F] {p q : ℕ} (G : Matrix (Fin p) (Fin q) F)
    (hrow : ∀ i j j', G i j ≠ 0 → G i j' ≠ 0 → j = j')
    (l : List ℕ) (hnd : l.Nodup) (hlt : ∀ j ∈ l, j < q)
    (hl : ∀ j (hj : j ∈ l), ∃ i, G i ⟨j, hlt j hj⟩ ≠ 0) : l.length ≤ G.rank := by
  classical
  let c : Fin l.length → Fin q := fun s => ⟨l[s], hlt _ (List.getElem_mem _)⟩
  let r : Fin l.length → Fin p := fun s => Classical.choose (hl l[s] (List.getElem_mem _))
  have hd : ∀ s, G (r s) (c s) ≠ 0 := fun s => Classical.choose_spec (hl l[s] (List.getElem_mem _))
  have ho : ∀ s t, s ≠ t → G (r s) (c t) = 0 := by
    intro s t hst
    by_contra hne
    have e := hrow (r s) (c s) (c t) (hd s) hne
    have e' : l[s] = l[t] := congrArg Fin.val e
    exact hst (Fin.ext ((hnd.getElem_inj_iff).1 e'))
  have := card_le_rank_of_diag G r c hd ho
  simpa using this

/-- The same for columns with at most one non-zero entry and a list of non-zero rows. -/
theorem length_le_rank_of_col_single {F : Type*} [Field F] {p q : ℕ} (G : Matrix (Fin p) (Fin q) F)
    (hcol : ∀ i i' j, G i j ≠ 0 → G i' j ≠ 0 → i = i')
    (l : List ℕ) (hnd : l.Nodup) (hlt : ∀ i ∈ l, i < p)
    (hl : ∀ i (hi : i ∈ l), ∃ j, G ⟨i, hlt i hi⟩ j ≠ 0) : l.length ≤ G.rank := by
  rw [← Matrix.rank_transpose]
  exact length_le_rank_of_row_single G.transpose (fun i j j' h1 h2 => hcol j j' i h1 h2) l hnd hlt hl

/-- The list of non-zero columns of a list matrix (`q` columns). -/
def nzCols (A : EMat) (q : Nat) : List Nat :=
  (List.range q).filter fun j => (List.range A.length).any fun i => nz A i j

/-- The list of non-zero rows of a list matrix (`q` columns). -/
def nzRows (A : EMat) (q : Nat) : List Nat :=
  (List.range A.length).filter fun i => (List.range q).any fun j => nz A i j

/-- Shape of the reduced matrix that still has a cover of `rank` vertices: at most one non-zero entry
    in every row, or at most one in every column (weaker than `FullyReduced`, which demands both). -/
def SingleLines (A : EMat) : Prop :=
  (∀ i j j', nz A i j = true → nz A i j' = true → j = j') ∨
  (∀ i i' j, nz A i j = true → nz A i' j = true → i = i')

theorem fullyReduced_singleLines {A : EMat} (h : FullyReduced A) : SingleLines A := Or.inl h.1

/-- A numeric matrix of shape `SingleLines` has a cover of its support with at most `rank` vertices:
    its non-zero columns, resp. its non-zero rows. -/
theorem exists_cover_le_rank_of_singleLines (A : EMat) (hnum : NumM A) (h : SingleLines A) :
    ∃ cu cv : List Nat, (∀ e ∈ suppEdges A, e.1 ∈ cu ∨ e.2 ∈ cv) ∧
      cu.length + cv.length ≤ (numMat A A.length (width A)).rank := by
  rcases h with h | h
  · refine ⟨[], nzCols A (width A), ?_, ?_⟩
    · intro e he
      obtain ⟨h1, h2, h3⟩ := (mem_suppEdges A e).1 he
      right
      simp only [nzCols, List.mem_filter, List.mem_range, List.any_eq_true]
      exact ⟨h2, e.1, h1, h3⟩
    · simp only [List.length_nil, Nat.zero_add]
      have hlt : ∀ j ∈ nzCols A (width A), j < width A := by
        intro j hj
        simp only [nzCols, List.mem_filter, List.mem_range] at hj
        exact hj.1
      apply length_le_rank_of_row_single (numMat A A.length (width A)) _ (nzCols A (width A))
        ((List.nodup_range).filter _) hlt
      · intro j hj
        have hj' := hj
        simp only [nzCols, List.mem_filter, List.mem_range, List.any_eq_true] at hj'
        obtain ⟨_, i, hi, hnz⟩ := hj'
        exact ⟨⟨i, hi⟩, (nz_iff_numMat hnum _ _ ⟨i, hi⟩ ⟨j, hlt j hj⟩).1 hnz⟩
      · intro i j j' h1 h2
        exact Fin.ext (h i j j' ((nz_iff_numMat hnum _ _ i j).2 h1) ((nz_iff_numMat hnum _ _ i j').2 h2))
  · refine ⟨nzRows A (width A), [], ?_, ?_⟩
    · intro e he
      obtain ⟨h1, h2, h3⟩ := (mem_suppEdges A e).1 he
      left
      simp only [nzRows, List.mem_filter, List.mem_range, List.any_eq_true]
      exact ⟨h1, e.2, h2, h3⟩
    · simp only [List.length_nil, Nat.add_zero]
      have hlt : ∀ i ∈ nzRows A (width A), i < A.length := by
        intro i hi
        simp only [nzRows, List.mem_filter, List.mem_range] at hi
        exact hi.1
      apply length_le_rank_of_col_single (numMat A A.length (width A)) _ (nzRows A (width A))
        ((List.nodup_range).filter _) hlt
      · intro i hi
        have hi' := hi
        simp only [nzRows, List.mem_filter, List.mem_range, List.any_eq_true] at hi'
        obtain ⟨_, j, hj, hnz⟩ := hi'
        exact ⟨⟨j, hj⟩, (nz_iff_numMat hnum _ _ ⟨i, hlt i hi⟩ ⟨j, hj⟩).1 hnz⟩
      · intro i i' j h1 h2
        exact Fin.ext (h i i' j ((nz_iff_numMat hnum _ _ i j).2 h1) ((nz_iff_numMat hnum _ _ i' j).2 h2))

/-- Number of indices `i : Fin p` whose value lies in a duplicate-free list of numbers `< p`. -/
theorem card_filter_mem_list {p : ℕ} (l : List ℕ) (hnd : l.Nodup) (hlt : ∀ i ∈ l, i < p) :
    (Finset.univ.filter fun i : Fin p => i.val ∈ l).card = l.length := by
  rw [← List.toFinset_card_of_nodup hnd, ← Finset.card_image_of_injective _ Fin.val_injective]
  congr 1
  ext x
  simp only [Finset.mem_image, Finset.mem_filter, Finset.mem_univ, true_and, List.mem_toFinset]
  constructor
  · rintro ⟨i, hi, rfl⟩; exact hi
  · intro hx; exact ⟨⟨x, hlt x hx⟩, hx, rfl⟩

/-- A list cover of the support edges of a numeric list matrix is a cover (`Ptn.C01.IsCover`) of the
    rational matrix. -/
theorem isCover_of_list_cover (A : EMat) (hnum : NumM A) (q : Nat) (hw : width A = q) (cu cv : List ℕ)
    (hc : ∀ e ∈ suppEdges A, e.1 ∈ cu ∨ e.2 ∈ cv) :
    Ptn.C01.IsCover (numMat A A.length q) (Finset.univ.filter fun i => i.val ∈ cu)
      (Finset.univ.filter fun j => j.val ∈ cv) := by
  intro i j hne
  have h1 := (nz_iff_numMat hnum _ _ i j).2 hne
  rcases hc (i.val, j.val) ((mem_suppEdges A _).2 ⟨i.2, hw ▸ j.2, h1⟩) with h | h
  · left
    simp only [Finset.mem_filter, Finset.mem_univ, true_and]
    exact h
  · right
    simp only [Finset.mem_filter, Finset.mem_univ, true_and]
    exact h

/-! ### pivot lines: every non-zero column holds an entry that is alone in its row (or transposed) -/

/-- Over a field: a duplicate-free list of columns each of which holds an entry that is the only
    non-zero entry of its row is at most as long as the rank. -/
theorem length_le_rank_of_row_pivots {F : Type*} [Field F] {p q : ℕ} (G : Matrix (Fin p) (Fin q) F)
    (l : List ℕ) (hnd : l.Nodup) (hlt : ∀ j ∈ l, j < q)
    (hl : ∀ j (hj : j ∈ l), ∃ i, G i ⟨j, hlt j hj⟩ ≠ 0 ∧ ∀ j', G i j' ≠ 0 → j' = ⟨j, hlt j hj⟩) :
    l.length ≤ G.rank := by
  classical
  let c : Fin l.length → Fin q := fun s => ⟨l[s], hlt _ (List.getElem_mem _)⟩
  let r : Fin l.length → Fin p := fun s => Classical.choose (hl l[s] (List.getElem_mem _))
  have hd : ∀ s, G (r s) (c s) ≠ 0 :=
    fun s => (Classical.choose_spec (hl l[s] (List.getElem_mem _))).1
  have ho : ∀ s t, s ≠ t → G (r s) (c t) = 0 := by
    intro s t hst
    by_contra hne
    have e := (Classical.choose_spec (hl l[s] (List.getElem_mem _))).2 (c t) hne
    have e' : l[t] = l[s] := congrArg Fin.val e
    exact hst (Fin.ext ((hnd.getElem_inj_iff).1 e'.symm))
  have := card_le_rank_of_diag G r c hd ho
  simpa using this

/-- The same for rows each of which holds an entry that is alone in its column. -/
theorem length_le_rank_of_col_pivots {F : Type*} [Field F] {p q : ℕ} (G : Matrix (Fin p) (Fin q) F)
    (l : List ℕ) (hnd : l.Nodup) (hlt : ∀ i ∈ l, i < p)
    (hl : ∀ i (hi : i ∈ l), ∃ j, G ⟨i, hlt i hi⟩ j ≠ 0 ∧ ∀ i', G i' j ≠ 0 → i' = ⟨i, hlt i hi⟩) :
    l.length ≤ G.rank := by
  rw [← Matrix.rank_transpose]
  exact length_le_rank_of_row_pivots G.transpose l hnd hlt hl

/-- Shape of a reduced matrix whose minimum cover has `rank` vertices: every non-zero column holds an
    entry that is the only non-zero entry of its row (then the non-zero columns are a cover and a
    diagonal submatrix sits on them), or the same with rows and columns exchanged.  Weaker than
    `SingleLines`, hence than `FullyReduced`; zero rows and columns are allowed. -/
def PivotLines (A : EMat) : Prop :=
  (∀ j, (∃ i, nz A i j = true) → ∃ i, nz A i j = true ∧ ∀ j', nz A i j' = true → j' = j) ∨
  (∀ i, (∃ j, nz A i j = true) → ∃ j, nz A i j = true ∧ ∀ i', nz A i' j = true → i' = i)

theorem singleLines_pivotLines {A : EMat} (h : SingleLines A) : PivotLines A := by
  rcases h with h | h
  · exact Or.inl fun j ⟨i, hi⟩ => ⟨i, hi, fun j' h' => h i j' j h' hi⟩
  · exact Or.inr fun i ⟨j, hj⟩ => ⟨j, hj, fun i' h' => h i' i j h' hj⟩

/-- A numeric rectangular matrix of shape `PivotLines` has a cover of its support with at most `rank`
    vertices: its non-zero columns, resp. its non-zero rows. -/
theorem exists_cover_le_rank_of_pivotLines (A : EMat) (hnum : NumM A) (q : Nat) (hrect : Rect A q)
    (hw : width A = q) (h : PivotLines A) :
    ∃ cu cv : List Nat, (∀ e ∈ suppEdges A, e.1 ∈ cu ∨ e.2 ∈ cv) ∧
      cu.length + cv.length ≤ (numMat A A.length q).rank := by
  rcases h with h | h
  · refine ⟨[], nzCols A q, ?_, ?_⟩
    · intro e he
      obtain ⟨h1, h2, h3⟩ := (mem_suppEdges A e).1 he
      right
      simp only [nzCols, List.mem_filter, List.mem_range, List.any_eq_true]
      exact ⟨hw ▸ h2, e.1, h1, h3⟩
    · simp only [List.length_nil, Nat.zero_add]
      have hlt : ∀ j ∈ nzCols A q, j < q := by
        intro j hj
        simp only [nzCols, List.mem_filter, List.mem_range] at hj
        exact hj.1
      apply length_le_rank_of_row_pivots (numMat A A.length q) (nzCols A q)
        ((List.nodup_range).filter _) hlt
      intro j hj
      have hj' := hj
      simp only [nzCols, List.mem_filter, List.mem_range, List.any_eq_true] at hj'
      obtain ⟨_, i0, _, hnz0⟩ := hj'
      obtain ⟨i, hnz, alone⟩ := h j ⟨i0, hnz0⟩
      have hi := (nz_in_range hrect hnz).1
      exact ⟨⟨i, hi⟩, (nz_iff_numMat hnum _ _ ⟨i, hi⟩ ⟨j, hlt j hj⟩).1 hnz,
        fun j' hne => Fin.ext (alone j' ((nz_iff_numMat hnum _ _ ⟨i, hi⟩ j').2 hne))⟩
  · refine ⟨nzRows A q, [], ?_, ?_⟩
    · intro e he
      obtain ⟨h1, h2, h3⟩ := (mem_suppEdges A e).1 he
      left
      simp only [nzRows, List.mem_filter, List.mem_range, List.any_eq_true]
      exact ⟨h1, e.2, hw ▸ h2, h3⟩
    · simp only [List.length_nil, Nat.add_zero]
      have hlt : ∀ i ∈ nzRows A q, i < A.length := by
        intro i hi
        simp only [nzRows, List.mem_filter, List.mem_range] at hi
        exact hi.1
      apply length_le_rank_of_col_pivots (numMat A A.length q) (nzRows A q)
        ((List.nodup_range).filter _) hlt
      intro i hi
      have hi' := hi
      simp only [nzRows, List.mem_filter, List.mem_range, List.any_eq_true] at hi'
      obtain ⟨_, j0, _, hnz0⟩ := hi'
      obtain ⟨j, hnz, alone⟩ := h i ⟨j0, hnz0⟩
      have hj := (nz_in_range hrect hnz).2
      exact ⟨⟨j, hj⟩, (nz_iff_numMat hnum _ _ ⟨i, hlt i hi⟩ ⟨j, hj⟩).1 hnz,
        fun i' hne => Fin.ext (alone i' ((nz_iff_numMat hnum _ _ i' ⟨j, hj⟩).2 hne))⟩

/-- A numeric `Γ` (3 × 4, rank 2, two zero columns) whose reduced matrix is neither fully reduced nor
    of shape `SingleLines`, but of shape `PivotLines`. -/
def exPivot : EMat :=
  [[.num 0, .num 0, .num (-2), .num (-4)], [.num 0, .num 0, .num (-2), .num (-6)],
   [.num 0, .num 0, .num 0, .num (-1)]]

/-- … and its reduced matrix. -/
def exPivotRed : EMat :=
  [[.num (-2), .num 0, .num 0, .num 0], [.num 0, .num (-2), .num 0, .num 0],
   [.num 1, .num (-1), .num 0, .num 0]]

end Ptn.C12
